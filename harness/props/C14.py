"""C14 — SCC, topological sort, condensation (solvor/scc.py) against Solvor/Graph.

Every verdict on the implementation's outputs is the value of a Lean checker (`chkScc`, `chkTopo`,
`cyclicB`, `chkCondense`) whose meaning is proved in Solvor/Graph/Theorems.lean; the mirrors
(`tarjan`, `kahn`, `condEdges`) are proved correct for every input (`tarjan_certifies`, `kahn_correct`,
`condense_correct`) and give R_trace.

Inputs whose neighbour lists leave the node list: the property does not say whether the graph meant
is the one induced on the node list (reading A – what `topological_sort` does) or the one explored
from it (reading B – what `strongly_connected_components` does).  On those inputs only the clauses
required under both readings are decided (`chk…Open`), and which reading each output satisfies is
counted in the histogram.

Presentation and history hardening: labels are arbitrary hashables chosen by a recipe (None, 0, '', (),
frozenset(), floats, tuples, numeric-looking strings …) while Lean keeps receiving small integers; node
iterables and neighbour results come in every Iterable style (list, tuple, generator, iter, map, reversed,
dict views, the caller's own list object, and LIVE views - `defaultdict(list).keys()` / the dict itself whose
callback auto-inserts missing keys, a set the callback adds to, a list the callback appends to - judged on
the node collection at call time, a RuntimeError there being `raises:RuntimeError:live_view`); `history` cases make 2-4 consecutive rounds of
scc/topological_sort/condense (in varying order) inside one worker call, with ONE neighbour-function object
over ONE adjacency dict and ONE node list that are edited in place between the rounds (the _edges variants:
one edge list with aliased tuples); every round is judged on its own input, and a failure that disappears when
that input is run alone in a fresh process gets the class suffix `:after_previous_call`.  A few large
structured graphs (paths, cycles, deep DAGs, stars; 1100-3000 nodes) are judged by equality with the mirrors,
which are proved correct for every input.  scc.py documents that graphs with a path of more than ~1000 nodes
need a raised recursion limit, so the deep families (path, cycle, deep DAG, two joined cycles) run with
`sys.setrecursionlimit(max(5000, 4n))` for the call, the shallow ones (sink-first path, star, wide DAG, many
small components) under the default limit of the workers; RecursionError/MemoryError is a failure only then.
"""
from __future__ import annotations

import core
from core import Driver
from pool import err_kind, run_pool

AREAS = ["Graph"]
LEVEL = "proof"
ASSUMPTIONS = [
    "Python dict/set/deque of scc.py modelled as functions and lists (insertion order, FIFO); the recursion "
    "of strongconnect is modelled with fuel = number of distinct vertices + 1, proved sufficient (visit_spec); "
    "CPython's recursion limit is not part of the model.  scc.py documents that strongly_connected_components "
    "recurses once per vertex of a DFS path and that graphs with paths of > 1000 nodes need "
    "sys.setrecursionlimit raised: the deep large families (path, cycle, deep DAG, joined cycles) therefore run "
    "with the limit raised to max(5000, 4n) for the call and a RecursionError counts as a failure only then; "
    "the shallow large families (sink-first path, star, wide DAG, many small components) and all other cases "
    "run under the default limit of 1000",
    "large instances (1100-3000 nodes) are judged by equality of the returned values with the mirrors (proved "
    "correct for every input), not by the cubic reachability checkers; a different answer there is reported "
    "as an R_trace divergence",
    "neighbours outside the node list: the property is read as the clauses common to the induced-graph and "
    "the explored-graph reading (proved: chk...Open_correct, open_clauses_common); duplicate entries in the "
    "node iterable are outside the quantifier (SCC/condense judged on the node set, topological_sort only "
    "counted)",
]
RULE = ("random digraphs with <= 9 nodes (12 in the thorough tier): several weak components, planted cycles, "
        "DAG-biased instances, self loops, duplicate edges, shuffled node and neighbour order, int/str/mixed/odd "
        "hashable labels (None, '', (), frozenset(), 0.5, ...), every Iterable style for the node iterable and "
        "the neighbour results, neighbours outside the node list (sinks or with own neighbour lists), "
        "edge-list instances for the _edges variants (backend='python', tuples/lists/aliased), call histories "
        "(2-4 rounds over one mutable adjacency and one neighbour-function object), a few large structured "
        "graphs (1100-3000 nodes); "
        "non-trivial = some component has >= 2 nodes or some node has a self loop (a DFS back edge); "
        "distinct by canonical (node list, neighbour table)")

FUNCS = ("strongly_connected_components", "topological_sort", "condense")

# odd hashable labels, pairwise different under == (so no 1/True/1.0 clashes)
ODD = [None, 0, "", (), frozenset(), -1, 0.5, (0,), "0", "None", (None,), frozenset({0}), 1, "1", (1, 2), 2.5,
       b"", "a b", -2, ((),)]
NODE_STYLES = ["list", "list", "tuple", "gen", "iter", "map", "reversed", "dictkeys", "dict", "alias"]
NBR_STYLES = ["list", "list", "tuple", "gen", "iter", "map", "reversed", "dictkeys", "alias"]
EDGE_STYLES = ["tuples", "lists", "aliased"]


def labeller(case):
    """stored value -> the label handed to the implementation (identity unless the case has a recipe)."""
    perm = case.get("labels")
    if not perm:
        return lambda x: x
    return lambda x: ODD[perm[x]]


def present(style, lst):
    """One collection in the requested Iterable style; order (and duplicates) preserved."""
    if style == "tuple":
        return tuple(lst)
    if style == "gen":
        return (x for x in lst)
    if style == "iter":
        return iter(list(lst))
    if style == "map":
        return map(lambda x: x, list(lst))
    if style == "reversed":
        return reversed(list(lst)[::-1])
    if style in ("dictkeys", "dict") and len(set(lst)) == len(lst):
        d = dict.fromkeys(lst)
        return d.keys() if style == "dictkeys" else d
    if style == "alias":
        return lst  # the caller's own list object
    return list(lst)


# ---------------------------------------------------------------------------
# generator
# ---------------------------------------------------------------------------

def _labels(rng, k):
    style = rng.choice(["int", "int", "shift", "str", "mixed", "neg"])
    if style == "int":
        return list(range(k))
    if style == "shift":
        base = rng.choice([1, 5, 100])
        return [base + 3 * i for i in range(k)]
    if style == "neg":
        return [i - k // 2 for i in range(k)]
    if style == "str":
        return [f"n{i}" for i in range(k)]
    return [(f"s{i}" if i % 2 else i + 10) for i in range(k)]


def gen_graph(rng, big: bool):
    hi = 12 if big else 9
    n = rng.choice([0, 1, 2, 3, 4, 5, 6, 7, 8, hi]) if rng.random() < 0.85 else rng.randint(0, hi)
    n_out = 0
    r = rng.random()
    if r < 0.25:
        n_out = rng.randint(1, 3)
    lab = _labels(rng, n + n_out)
    rng.shuffle(lab)
    nodes, outside = lab[:n], lab[n:]
    # weak components: split the nodes into groups, edges mostly inside groups
    g = rng.choice([1, 1, 2, 3]) if n else 1
    group = {v: rng.randrange(g) for v in nodes}
    shape = rng.choice(["random", "random", "dag", "dag+back", "cycles", "dense"])
    dens = {"random": rng.choice([0.1, 0.2, 0.35]), "dag": rng.choice([0.2, 0.4]), "dag+back": 0.3,
            "cycles": 0.08, "dense": 0.7}[shape]
    rank = {v: i for i, v in enumerate(rng.sample(nodes, len(nodes)))}
    table = {v: [] for v in nodes}
    for u in nodes:
        for w in nodes:
            if group[u] != group[w] and rng.random() < 0.9:
                continue
            if u == w:
                continue
            if shape in ("dag", "dag+back") and rank[u] >= rank[w]:
                continue
            if rng.random() < dens:
                table[u].append(w)
    if shape == "dag+back" and n >= 2:
        for _ in range(rng.randint(1, 2)):
            u, w = rng.sample(nodes, 2)
            if rank[u] < rank[w]:
                u, w = w, u
            table[u].append(w)
    if shape == "cycles" and n >= 2:
        for _ in range(rng.randint(1, 3)):
            k = rng.randint(2, min(n, 5))
            cyc = rng.sample(nodes, k)
            for i in range(k):
                table[cyc[i]].append(cyc[(i + 1) % k])
    if n and rng.random() < 0.3:  # self loops
        for _ in range(rng.randint(1, 2)):
            v = rng.choice(nodes)
            table[v].append(v)
    if n and rng.random() < 0.35:  # duplicate edges
        for _ in range(rng.randint(1, 3)):
            v = rng.choice(nodes)
            if table[v]:
                table[v].append(rng.choice(table[v]))
    missing = "empty"
    if outside and n:
        for o in outside:
            for _ in range(rng.randint(1, 2)):
                table[rng.choice(nodes)].append(o)
        if rng.random() < 0.45:  # outside vertices with neighbour lists of their own
            for o in outside:
                if rng.random() < 0.7:
                    table[o] = [rng.choice(lab) for _ in range(rng.randint(1, 3))]
        elif rng.random() < 0.15:
            missing = "keyerror"
    for v in table:
        rng.shuffle(table[v])
    case = {"kind": "graph", "nodes": nodes, "table": [[v, table[v]] for v in rng.sample(list(table), len(table))],
            "nodes_style": rng.choice(NODE_STYLES), "nbr_style": rng.choice(NBR_STYLES), "missing": missing,
            "dup": False}
    if rng.random() < 0.3:
        relabel_odd(rng, case)
    return case


LIVE_STYLES = ["live_keys", "live_dict", "live_set", "live_list_append"]


def gen_live(rng, big: bool):
    """The `graph = defaultdict(list); nodes = graph.keys(); neighbors = lambda n: graph[n]` idiom: the node
    collection is a LIVE view that grows during the call (leaves occurring only as edge targets are
    auto-inserted by the callback; or the callback adds to the set / appends to the list passed as `nodes`).
    The graph meant is the node collection at call time (snapshot taken by the harness) + the callback's answers."""
    for _ in range(20):
        c = gen_graph(rng, big)
        nodeset = set(c["nodes"])
        # outside vertices are pure leaves in this idiom: no entries of their own
        c["table"] = [e for e in c["table"] if e[0] in nodeset]
        if any(w not in nodeset for e in c["table"] for w in e[1]) or rng.random() < 0.1:
            break
    c["missing"] = "empty"
    c["live"] = rng.choice(LIVE_STYLES)
    c["nodes_style"] = c["live"]
    return c


def relabel_odd(rng, case):
    """Replace the labels by small integers plus a recipe mapping them to odd hashables."""
    uni = universe(case)
    ids = {v: i for i, v in enumerate(uni)}
    case["nodes"] = [ids[v] for v in case["nodes"]]
    case["table"] = [[ids[e[0]], [ids[w] for w in e[1]]] for e in case["table"]]
    case["labels"] = rng.sample(range(len(ODD)), len(uni))
    if rng.random() < 0.5 and uni:  # make sure None itself is among the labels
        if 0 not in case["labels"]:
            case["labels"][rng.randrange(len(uni))] = 0


def gen_dup(rng):
    c = gen_graph(rng, False)
    if c["nodes"]:
        for _ in range(rng.randint(1, 2)):
            c["nodes"].insert(rng.randrange(len(c["nodes"]) + 1), rng.choice(c["nodes"]))
        c["dup"] = True
        if c["nodes_style"] in ("dictkeys", "dict"):
            c["nodes_style"] = "list"
    return c


def mutate_graph(rng, prev):
    """A related graph over the same labels: the next round of a history."""
    c = {**prev, "nodes": list(prev["nodes"]), "table": [[e[0], list(e[1])] for e in prev["table"]]}
    op = rng.choice(["same", "edit", "edit", "narrow", "widen", "reverse", "clear"])
    tab = {e[0]: e[1] for e in c["table"]}
    nodes = c["nodes"]
    if op == "edit" and nodes:
        for _ in range(rng.randint(1, 3)):
            u = rng.choice(nodes)
            if tab.get(u) and rng.random() < 0.5:
                tab[u].pop(rng.randrange(len(tab[u])))
            else:
                tab.setdefault(u, []).append(rng.choice(nodes))
    elif op == "narrow" and len(nodes) >= 2:
        drop = set(rng.sample(nodes, rng.randint(1, len(nodes) // 2)))
        nodes[:] = [v for v in nodes if v not in drop]
        tab = {u: [w for w in l if w not in drop] for u, l in tab.items() if u not in drop}
    elif op == "widen":
        spare = [x for x in prev.get("spare", []) if x not in nodes and x not in tab]
        for x in spare[:rng.randint(1, 2)]:
            nodes.insert(rng.randrange(len(nodes) + 1), x)
            tab[x] = [rng.choice(nodes) for _ in range(rng.randint(0, 2))]
            if len(nodes) > 1:
                tab.setdefault(rng.choice(nodes), []).append(x)
    elif op == "reverse":
        rev = {u: [] for u in tab}
        for u, l in tab.items():
            for w in l:
                rev.setdefault(w, []).append(u)
        nodeset = set(nodes)
        tab = {u: l for u, l in rev.items() if u in nodeset or l}
    elif op == "clear":
        tab = {u: [] for u in nodes}
    for u in nodes:
        tab.setdefault(u, [])
    c["table"] = [[u, tab[u]] for u in tab]
    c["op"] = op
    return c


def gen_history(rng):
    base = gen_graph(rng, False)
    base["missing"] = "empty"
    if "labels" not in base and rng.random() < 0.5:
        relabel_odd(rng, base)
    uni = universe(base)
    if "labels" in base:  # spare labels for the `widen` step
        k = len(uni)
        extra = [i for i in range(len(ODD)) if i not in base["labels"]][:3]
        base["labels"] = base["labels"] + extra
        base["spare"] = list(range(k, k + len(extra)))
    else:
        base["spare"] = [f"w{i}" for i in range(3)]
    steps = [base]
    for _ in range(rng.randint(1, 3)):
        steps.append(mutate_graph(rng, steps[-1]))
    orders = [rng.sample(["scc", "topo", "cond"], 3) for _ in steps]
    return {"kind": "history", "steps": steps, "orders": orders}


def gen_ehistory(rng):
    steps = [gen_edges(rng, False)]
    for _ in range(rng.randint(1, 3)):
        prev = steps[-1]
        op = rng.choice(["same", "edit", "narrow", "widen", "fresh"])
        n, edges = prev["n"], [list(e) for e in prev["edges"]]
        if op == "edit" and n:
            for _ in range(rng.randint(1, 3)):
                if edges and rng.random() < 0.5:
                    edges.pop(rng.randrange(len(edges)))
                else:
                    edges.append([rng.randrange(n), rng.randrange(n)])
        elif op == "narrow" and n >= 2:
            n = rng.randint(1, n - 1)
            edges = [e for e in edges if e[0] < n and e[1] < n]
        elif op == "widen":
            n += rng.randint(1, 2)
            edges.append([rng.randrange(n), n - 1])
        elif op == "fresh":
            f = gen_edges(rng, False)
            n, edges = f["n"], f["edges"]
        steps.append({"kind": "edges", "n": n, "edges": edges, "style": prev.get("style", "tuples"), "op": op})
    return {"kind": "ehistory", "steps": steps, "first": [rng.choice(["scc", "topo"]) for _ in steps]}


def big_graph(case):
    """(node list, neighbour lists indexed by vertex) of a large structured graph, from its recipe."""
    n, shape = case["n"], case["shape"]
    nodes = list(range(n))
    if shape == "path":
        adj = [[i + 1] if i + 1 < n else [] for i in range(n)]
    elif shape == "rpath":  # same chain, listed sink first: no deep descent
        adj = [[i + 1] if i + 1 < n else [] for i in range(n)]
        nodes.reverse()
    elif shape == "cycle":
        adj = [[(i + 1) % n] for i in range(n)]
    elif shape == "dag":  # deep DAG with skip edges and duplicates
        adj = [[j for j in (i + 1, i + 2, i + 7, i + 1) if j < n] for i in range(n)]
    elif shape == "star":
        adj = [list(range(1, n))] + [[] for _ in range(n - 1)]
    elif shape == "wide_dag":  # layers of 50 vertices, each vertex points to three vertices of the next layer
        adj = [[j for j in (i - i % 50 + 50 + (i * 7 + k) % 50 for k in (0, 1, 2)) if j < n] for i in range(n)]
    elif shape == "small_comps":  # many 3-cycles, each feeding the next one
        adj = [[i - i % 3 + (i + 1) % 3] + ([i + 3] if i % 3 == 0 and i + 3 < n else []) for i in range(n)]
        adj = [[j for j in l if j < n] for l in adj]
        nodes.reverse()  # listed sink first: no deep descent
    elif shape == "two_cycles":  # two big components joined by one edge
        h = n // 2
        adj = [[(i + 1) % h] for i in range(h)] + [[h + (i + 1) % (n - h)] for i in range(n - h)]
        adj[0] = adj[0] + [h]
    else:
        raise ValueError(shape)
    return nodes, adj


# families on which `strongconnect` recurses as deep as the graph is long; the module docstring of scc.py
# documents that such inputs need a raised recursion limit, so they run with it raised (see `impl`)
DEEP_SHAPES = ("path", "cycle", "dag", "two_cycles")
SHALLOW_SHAPES = ("rpath", "star", "wide_dag", "small_comps")


def gen_big(rng, thorough: bool):
    shape = rng.choice(DEEP_SHAPES + SHALLOW_SHAPES)
    n = rng.choice([1100, 1500, 2000, 3000]) if thorough else rng.choice([1100, 1300, 1500])
    return {"kind": "big", "shape": shape, "n": n, "nbr_style": rng.choice(["list", "tuple", "gen", "alias"])}


def gen_edges(rng, big: bool):
    hi = 12 if big else 9
    n = rng.randint(0, hi)
    shape = rng.choice(["random", "dag", "cycles"])
    m = rng.randint(0, 2 * n + 2) if n else 0
    edges = []
    for _ in range(m):
        u, v = rng.randrange(n), rng.randrange(n)
        if shape == "dag" and u >= v:
            u, v = v, u
            if u == v:
                continue
        edges.append([u, v])
    if shape == "cycles" and n >= 2:
        k = rng.randint(2, min(n, 5))
        cyc = rng.sample(range(n), k)
        edges += [[cyc[i], cyc[(i + 1) % k]] for i in range(k)]
    if edges and rng.random() < 0.3:
        edges.append(list(rng.choice(edges)))
    rng.shuffle(edges)
    return {"kind": "edges", "n": n, "edges": edges, "style": rng.choice(EDGE_STYLES)}


def edge_cases():
    def g(nodes, table, **kw):
        d = {"kind": "graph", "nodes": nodes, "table": table, "nodes_style": "list", "nbr_style": "list",
             "missing": "empty", "dup": False}
        d.update(kw)
        return d
    yield g([], [])
    yield g([0], [[0, []]])
    yield g([0], [[0, [0]]])
    yield g([0, 1], [[0, [1]], [1, [0]]])
    yield g(["a", "b", "c"], [["a", ["b"]], ["b", ["c"]], ["c", []]])
    yield g(["c", "b", "a"], [["a", ["b"]], ["b", ["c"]], ["c", []]], nodes_style="gen", nbr_style="gen")
    # the module docstring shape: two cycles joined by a bridge
    yield g([0, 1, 2, 3, 4, 5], [[0, [1]], [1, [2]], [2, [0, 3]], [3, [4]], [4, [5]], [5, [3]]])
    # low_link vs index on an on-stack node (classic Tarjan pitfall family)
    yield g([0, 1, 2, 3], [[0, [1]], [1, [2, 3]], [2, [0]], [3, [1]]])
    yield g([0, 1, 2, 3, 4], [[0, [1, 4]], [1, [2]], [2, [3, 1]], [3, [0]], [4, [2]]])
    # neighbours outside the node list: sink, and with own neighbours leading back in
    yield g([0], [[0, [1]]])
    yield g([0], [[0, [1]], [1, [2]], [2, []]])
    yield g([0, 1], [[0, [2]], [2, [1]], [1, [0]]])
    yield {"kind": "edges", "n": 0, "edges": []}
    yield {"kind": "edges", "n": 3, "edges": [[0, 1], [1, 0], [1, 2], [1, 2], [2, 2]]}
    yield {"kind": "edges", "n": 4, "edges": [[3, 2], [2, 1], [1, 0]]}


# ---------------------------------------------------------------------------
# implementation side (runs in a worker process)
# ---------------------------------------------------------------------------

def _key(x):
    return (0, x) if isinstance(x, int) else (1, str(x))


def universe(case):
    """All labels of a graph case in a fixed order (node list first); label -> small integer."""
    seen, out = set(), []
    for v in list(case["nodes"]) + [e[0] for e in case["table"]] + [w for e in case["table"] for w in e[1]]:
        if v not in seen:
            seen.add(v)
            out.append(v)
    return out


def _canon_result(kind, r, ids):
    """JSON-able canonical form of one Result (labels -> the small integers Lean sees)."""
    if kind == "scc":
        return {"status": r.status.name, "sol": [[ids[x] for x in c] for c in r.solution], "objective": r.objective}
    if kind == "topo":
        return {"status": r.status.name, "sol": None if r.solution is None else [ids[x] for x in r.solution]}
    cn, adjd = r.solution
    pos = {}
    for i, fs in enumerate(cn):
        pos.setdefault(fs, i)
    ok_shape = (all(isinstance(fs, frozenset) for fs in cn) and len(pos) == len(cn)
                and set(adjd.keys()) == set(cn) and all(t in pos for l in adjd.values() for t in l))
    comps = [sorted(ids[x] for x in fs) for fs in cn]
    cadj = [sorted(pos[t] for t in adjd[fs]) for fs in cn] if ok_shape else None
    dup_succ = bool(ok_shape and any(len(set(l)) != len(l) for l in cadj))
    return {"status": r.status.name, "comps": comps, "cadj": cadj, "shape_ok": ok_shape, "dup_succ": dup_succ}


def _round(S, nodes_fn, nb, ids, order, twice=True):
    """One round of the three entry points, in the given order, each guarded separately."""
    out = {}
    for name in order:
        try:
            if name == "scc":
                r = S.strongly_connected_components(nodes_fn(), nb)
                out["scc"] = _canon_result("scc", r, ids)
                if twice:
                    again = _canon_result("scc", S.strongly_connected_components(nodes_fn(), nb), ids)
                    out["scc"]["same_again"] = again["sol"] == out["scc"]["sol"]
            elif name == "topo":
                out["topo"] = _canon_result("topo", S.topological_sort(nodes_fn(), nb), ids)
            else:
                out["cond"] = _canon_result("cond", S.condense(nodes_fn(), nb), ids)
        except Exception as e:  # noqa: BLE001 - the error kind is an observable
            out[name] = {"error": f"{type(e).__name__}: {e}"[:200]}
    return out


def _make_nb(table, missing, style):
    def nb(v):
        if v in table:
            lst = table[v]
        elif missing == "keyerror":
            raise KeyError(v)
        else:
            lst = []
        return present(style, lst)
    return nb


def _edges_obj(case):
    st = case.get("style", "tuples")
    if st == "lists":
        return [list(e) for e in case["edges"]]
    if st == "aliased":  # equal edges are ONE tuple object
        pool = {}
        return [pool.setdefault(tuple(e), tuple(e)) for e in case["edges"]]
    return [tuple(e) for e in case["edges"]]


def _edges_round(S, n, edges, first="scc"):
    out = {}
    for name in (("scc", "topo") if first == "scc" else ("topo", "scc")):
        try:
            if name == "scc":
                r = S.strongly_connected_components_edges(n, edges, backend="python")
                out["scc"] = {"status": r.status.name, "sol": [list(c) for c in r.solution], "objective": r.objective}
            else:
                r = S.topological_sort_edges(n, edges, backend="python")
                out["topo"] = {"status": r.status.name, "sol": None if r.solution is None else list(r.solution)}
        except Exception as e:  # noqa: BLE001
            out[name] = {"error": f"{type(e).__name__}: {e}"[:200]}
    return out


def impl(case):
    from solvor import scc as S
    kind = case["kind"]
    if kind == "edges":
        # the same list object goes to both entry points
        return _edges_round(S, case["n"], _edges_obj(case))
    if kind == "ehistory":
        shared: list = []
        outs = []
        for st, first in zip(case["steps"], case["first"]):
            shared[:] = _edges_obj(st)  # ONE list object, edited in place between the rounds
            outs.append(_edges_round(S, st["n"], shared, first))
        return outs
    if kind == "big":
        nodes, adj = big_graph(case)
        style = case["nbr_style"]
        ids = range(case["n"])  # identity
        nb = lambda v: present(style, adj[v])  # noqa: E731
        import sys
        old_limit = sys.getrecursionlimit()
        if case["shape"] in DEEP_SHAPES:
            # scc.py: "For very deep graphs (>1000 nodes in a single path), you may need to increase the
            # recursion limit: sys.setrecursionlimit(5000)" - follow the documentation for these families
            sys.setrecursionlimit(max(5000, 4 * case["n"]))
        try:
            out = _round(S, lambda: list(nodes), nb, ids, ["scc", "topo", "cond"], twice=False)
            if nodes == sorted(nodes):  # the _edges variants fix the node order 0..n-1
                edges = [(u, w) for u in range(case["n"]) for w in adj[u]]
                e = _edges_round(S, case["n"], edges)
                out["scc_edges"], out["topo_edges"] = e["scc"], e["topo"]
        finally:
            sys.setrecursionlimit(old_limit)
        return out
    if kind == "history":
        table: dict = {}
        node_obj: list = []
        first = case["steps"][0]
        nb = _make_nb(table, "empty", first["nbr_style"])  # ONE function object for the whole history
        outs = []
        for st, order in zip(case["steps"], case["orders"]):
            lab = labeller(st)
            table.clear()  # ONE adjacency dict, edited in place
            for e in st["table"]:
                table[lab(e[0])] = [lab(w) for w in e[1]]
            node_obj[:] = [lab(v) for v in st["nodes"]]
            ids = {lab(v): i for i, v in enumerate(universe(st))}
            outs.append(_round(S, lambda: present(first["nodes_style"], node_obj), nb, ids, order))
        return outs
    lab = labeller(case)
    ids = {lab(v): i for i, v in enumerate(universe(case))}
    table = {lab(e[0]): [lab(w) for w in e[1]] for e in case["table"]}
    node_list = [lab(v) for v in case["nodes"]]
    if case.get("live"):
        return _live_round(S, case["live"], node_list, table, case["nbr_style"], ids)
    nb = _make_nb(table, case["missing"], case["nbr_style"])
    return _round(S, lambda: present(case["nodes_style"], node_list), nb, ids, ["scc", "topo", "cond"])


def _live_round(S, live, node_list, table, nstyle, ids):
    """Every call gets a freshly built live collection (so each call starts from the same node set); the
    harness snapshots it right before the call - that snapshot is the node list the result is judged on."""
    from collections import defaultdict
    cur = {}
    snaps = []

    def nodes_fn():
        if live in ("live_keys", "live_dict"):
            g = defaultdict(list)
            for v in node_list:
                g[v] = list(table.get(v, []))
            cur["g"] = g
            coll = g.keys() if live == "live_keys" else g
        elif live == "live_set":
            coll = cur["s"] = set(node_list)
        else:
            coll = cur["l"] = list(node_list)
        snaps.append([ids[x] for x in coll])  # the node collection AT CALL TIME
        return coll

    def nb(v):
        if live in ("live_keys", "live_dict"):
            lst = cur["g"][v]  # auto-inserts a missing key: the view changes size during the call
        else:
            lst = table.get(v, [])
            for w in lst:
                if live == "live_set":
                    cur["s"].add(w)
                elif w not in cur["l"]:
                    cur["l"].append(w)
        return present(nstyle, list(lst))

    out = _round(S, nodes_fn, nb, ids, ["scc", "topo", "cond"], twice=False)
    out["snapshot"] = snaps[0] if snaps else []
    out["snapshots_equal"] = all(sn == snaps[0] for sn in snaps)
    return out


def units(case, out):
    """Split a case into independently judged (sub-case, outcome) pairs."""
    if case["kind"] in ("history", "ehistory"):
        if out[0] != "ok":
            return [(case["steps"][0], out)]
        return [(st, ("ok", o)) for st, o in zip(case["steps"], out[1])]
    return [(case, out)]


def to_request(case, out):
    if case["kind"] == "big":
        nodes, adj = big_graph(case)
        return ["big", nodes, [[v, adj[v]] for v in range(case["n"])]]
    if case["kind"] == "edges":
        n = case["n"]
        nodes = list(range(n))
        tab = [[u, [v for (a, v) in case["edges"] if a == u]] for u in range(n)]
    else:
        uni = universe(case)
        ids = {v: i for i, v in enumerate(uni)}
        nodes, seen = [], set()
        for v in case["nodes"]:  # the Lean side works on the node set in first-occurrence order
            if v not in seen:
                seen.add(v)
                nodes.append(ids[v])
        if case.get("live") and out is not None and "snapshot" in out:
            nodes = list(out["snapshot"])  # live collection: the order the harness saw at call time
        tab = [[ids[e[0]], [ids[w] for w in e[1]]] for e in case["table"]]
    scc = topo = cond = None
    if out is not None:
        s = out.get("scc")
        if s and "error" not in s:
            scc = s["sol"]
        t = out.get("topo")
        if t and "error" not in t and not case.get("dup"):
            topo = [0] if t["sol"] is None else [1, t["sol"]]
        c = out.get("cond")
        if c and "error" not in c and c["cadj"] is not None:
            cond = [c["comps"], c["cadj"]]
    return ["case", nodes, tab, scc, topo, cond]


# ---------------------------------------------------------------------------
# comparison
# ---------------------------------------------------------------------------

def failures(case, out, reply):
    """All failed R_prop clauses of one case as (function, klass, what); plus R_trace differences."""
    fails, tdivs, counts = [], [], []
    sfx = "_edges" if case["kind"] == "edges" else ""
    if out[0] != "ok":
        fails.append((FUNCS[0] + sfx, "raises:" + err_kind(out), f"valid input raised/timed out: {out[1]}"))
        return fails, tdivs, counts
    r = out[1]
    closed, m_scc, m_topo, m_cadj, cert, v_scc, v_topo, v_cond = reply[:8]
    keyerr = case.get("missing") == "keyerror"
    dup = bool(case.get("dup"))
    tag = "" if closed else ":outside"
    live = case.get("live")
    if live:
        counts.append("live_view:" + live + (":grows_during_call" if not closed else ":stable"))
        if not r.get("snapshots_equal", True):
            raise core.Infra("live-view case: the harness built different node collections for the three calls")
    etag = ":live_view" if live else tag  # class suffix of `raises:` failures
    counts.append("closed" if closed else "outside_neighbours")
    if not closed and case["kind"] == "graph":
        nodeset = set(case["nodes"])
        nonsink = any(e[0] not in nodeset and e[1] for e in case["table"])
        counts.append("outside:" + ("with_own_neighbours" if nonsink else "sinks"))

    def pick(v):  # the deciding verdict: strict on closed inputs, common clauses otherwise
        return v[1] if closed else v[2]

    def reading(fn, v):
        if not closed:
            counts.append(f"outside:{fn}:" + ("A" if v[0] else "") + ("B" if v[1] else "") +
                          ("" if v[0] or v[1] else "common-only" if v[2] else "none"))

    # --- strongly_connected_components -------------------------------------------------
    fn = FUNCS[0] + sfx
    s = r["scc"]
    if "error" in s:
        if keyerr and s["error"].startswith("KeyError"):
            counts.append("outside_keyerror:scc_raises")  # neighbour function undefined outside: not judged
        else:
            fails.append((fn, "raises:" + s["error"].split(":")[0] + etag, "valid input raised: " + s["error"]))
    else:
        counts.append(f"scc:{len(s['sol'])}_components" if len(s["sol"]) < 4 else "scc:>=4_components")
        if s["status"] != "OPTIMAL":
            fails.append((fn, "bad_status", f"status {s['status']}"))
        if not pick(v_scc):
            fails.append((fn, "not_scc_decomposition" + tag,
                          f"components {s['sol']} rejected by the verified checker chkScc "
                          f"(a correct decomposition: {m_scc})"))
        reading("scc", v_scc)
        if not s.get("same_again", True):
            fails.append((fn, "nondeterministic", "second call on the same input gave a different answer"))
        if s["sol"] != m_scc:
            tdivs.append((fn, {"impl": s["sol"], "mirror": m_scc}))
    # --- topological_sort -----------------------------------------------------------------
    fn = FUNCS[1] + sfx
    t = r["topo"]
    if "error" in t:
        if keyerr and t["error"].startswith("KeyError"):
            counts.append("outside_keyerror:topo_raises")
        else:
            fails.append((fn, "raises:" + t["error"].split(":")[0] + etag, "valid input raised: " + t["error"]))
    elif dup:
        counts.append("dup_nodes:topo:" + t["status"])  # duplicates in the node iterable: not judged
    else:
        counts.append("topo:" + t["status"])
        if t["sol"] is None:
            if t["status"] != "INFEASIBLE":
                fails.append((fn, "bad_status", f"no order but status {t['status']}"))
            elif not pick(v_topo):
                fails.append((fn, "false_infeasible" + tag,
                              f"INFEASIBLE although the graph is acyclic (verified cyclicB = false); "
                              f"a topological order: {m_topo}"))
        else:
            if t["status"] != "OPTIMAL":
                fails.append((fn, "bad_status", f"order returned with status {t['status']}"))
            if not pick(v_topo):
                k = "order_for_cyclic_graph" if (m_topo is None) else "bad_order"
                fails.append((fn, k + tag, f"order {t['sol']} rejected by the verified checker chkTopo "
                              f"(mirror: {m_topo})"))
        reading("topo", v_topo)
        if t["sol"] != m_topo:
            tdivs.append((fn, {"impl": t["sol"], "mirror": m_topo}))
    # --- condense -----------------------------------------------------------------------------
    if case["kind"] == "graph":
        fn = FUNCS[2]
        c = r["cond"]
        if "error" in c:
            if keyerr and c["error"].startswith("KeyError"):
                counts.append("outside_keyerror:condense_raises")
            else:
                fails.append((fn, "raises:" + c["error"].split(":")[0] + etag, "valid input raised: " + c["error"]))
        else:
            if c["status"] != "OPTIMAL":
                fails.append((fn, "bad_status", f"status {c['status']}"))
            if not c["shape_ok"]:
                fails.append((fn, "malformed_condensation", "condensed nodes are not distinct frozensets keyed "
                              "consistently in the adjacency dict"))
            else:
                if c["dup_succ"]:
                    fails.append((fn, "duplicate_successor", "a component lists the same successor twice"))
                if not pick(v_cond):
                    fails.append((fn, "not_condensation" + tag,
                                  f"(components, edges) = ({c['comps']}, {c['cadj']}) rejected by the verified "
                                  f"checker chkCondense (mirror: {m_scc}, {m_cadj})"))
                reading("condense", v_cond)
                if "error" not in s and c["comps"] != [sorted(x) for x in s["sol"]]:
                    fails.append((fn, "components_differ_from_scc", "condensed nodes are not the components "
                                  "strongly_connected_components returns on the same input"))
                if (c["comps"], c["cadj"]) != ([sorted(x) for x in m_scc], [sorted(x) for x in m_cadj]):
                    tdivs.append((fn, {"impl": [c["comps"], c["cadj"]], "mirror": [m_scc, m_cadj]}))
    # the mirror's own outputs must pass the verified checkers (tarjan_certifies / kahn_correct say they
    # always do; evaluating it ties the compiled driver to the theorems)
    if not (cert[0] and cert[1] and (cert[2] if closed else cert[3])):
        tdivs.append(("mirror", {"certificate_of_mirror_failed": cert, "mirror": [m_scc, m_topo, m_cadj]}))
    return fails, tdivs, counts


def failures_big(case, out, reply):
    """Large structured graphs: the returned values must equal the mirrors' (proved correct for every input:
    tarjan_correct_closed, kahn_correct, condense_correct); RecursionError / MemoryError is a failure."""
    deep = case["shape"] in DEEP_SHAPES
    fails, tdivs, counts = [], [], [f"large:{case['shape']}",
                                    "large:recursion_limit_raised_as_documented" if deep else "large:default_recursion_limit"]
    if out[0] != "ok":
        return [(FUNCS[0], "raises:" + err_kind(out) + ":large", f"valid input raised/timed out: {out[1]}")], [], counts
    closed, m_scc, m_topo, m_cadj = reply
    if not closed:
        raise core.Infra("large instance is not closed under its neighbour lists")
    r = out[1]
    want = {"scc": ("sol", m_scc), "topo": ("sol", m_topo), "scc_edges": ("sol", m_scc), "topo_edges": ("sol", m_topo)}
    names = {"scc": FUNCS[0], "topo": FUNCS[1], "cond": FUNCS[2], "scc_edges": FUNCS[0] + "_edges",
             "topo_edges": FUNCS[1] + "_edges"}
    for key, fn in names.items():
        if key not in r:
            continue
        o = r[key]
        if "error" in o:
            kind = o["error"].split(":")[0]
            # deep families ran with the limit raised to max(5000, 4n) as the module documents; the shallow
            # ones never nest more than a few calls, so a RecursionError is a failure in both situations
            klass = f"raises:{kind}:large" + (":limit_raised" if deep else ":shallow_graph")
            fails.append((fn, klass, f"valid input ({case['shape']}, {case['n']} nodes) raised: {o['error']}"))
            continue
        if key == "cond":
            same = o["shape_ok"] and (o["comps"], o["cadj"]) == ([sorted(c) for c in m_scc], [sorted(l) for l in m_cadj])
        else:
            same = o["sol"] == want[key][1]
        if same:
            counts.append("large:equals_proved_mirror")
        else:
            # a different answer on a large instance cannot be decided cheaply by the cubic checkers: R_trace
            tdivs.append((fn, {"large": case, "differs_from_proved_mirror": key}))
    return fails, tdivs, counts


def evaluate(cases):
    """-> per case the list of judged units (sub-case, outcome, model reply)."""
    outs = run_pool(impl, cases, timeout=60.0)
    flat = [(ci, sub, o) for ci, (c, out) in enumerate(zip(cases, outs)) for sub, o in units(c, out)]
    reqs = [to_request(sub, o[1] if o[0] == "ok" else None) for _, sub, o in flat]
    replies = Driver("Graph").run(reqs, chunks=12)
    res = [[] for _ in cases]
    for (ci, sub, o), rp in zip(flat, replies):
        if rp and rp[0] == "error":
            raise core.Infra(f"Graph model rejected a request: {rp}")
        if sub["kind"] != "big" and (len(rp) != 9 or rp[8] is not True):
            # hypothesis of the chk…Open_correct theorems (universe closed, contains the node list)
            raise core.Infra(f"Graph driver: request universe not closed under the neighbour table: {rp}")
        res[ci].append((sub, o, rp))
    return res


def judge(sub, o, rp):
    return failures_big(sub, o, rp) if sub["kind"] == "big" else failures(sub, o, rp)


def fails_alone(sub, fn, klass):
    """Does the same clause fail when this input is the only call of a fresh process?"""
    (unit,) = evaluate([sub])[0]
    return any((f, k) == (fn, klass) for f, k, _ in judge(*unit)[0])


def shrink(case, fn, klass):
    """Greedy structural shrinking: drop edges / nodes while the same (function, class) still fails."""
    hist = []
    for _ in range(40):
        cands = []
        if case["kind"] == "edges":
            for i in range(len(case["edges"])):
                cands.append({**case, "edges": case["edges"][:i] + case["edges"][i + 1:]})
        else:
            for i, v in enumerate(case["nodes"]):
                rest = case["nodes"][:i] + case["nodes"][i + 1:]
                cands.append({**case, "nodes": rest})
            for i, e in enumerate(case["table"]):
                if not e[1]:
                    cands.append({**case, "table": case["table"][:i] + case["table"][i + 1:]})
                for j in range(len(e[1])):
                    e2 = [e[0], e[1][:j] + e[1][j + 1:]]
                    cands.append({**case, "table": case["table"][:i] + [e2] + case["table"][i + 1:]})
        if not cands:
            break
        for c, us in zip(cands, evaluate(cands)):
            (_, o, rp) = us[0]
            if any((f, k) == (fn, klass) for f, k, _ in failures(c, o, rp)[0]):
                hist.append({"nodes": len(c.get("nodes", [])), "edges": sum(len(e[1]) for e in c.get("table", []))
                             if c["kind"] == "graph" else len(c["edges"])})
                case = c
                break
        else:
            break
    return case, hist


def record_styles(ctx, case):
    k = case["kind"]
    if k == "graph":
        ctx.count("nodes_style:" + case["nodes_style"])
        ctx.count("nbr_style:" + case["nbr_style"])
        ctx.count("labels:" + ("odd_hashables" if case.get("labels") else "plain"))
        if case.get("labels") and 0 in [case["labels"][x] for x in universe(case)]:
            ctx.count("labels:None_is_a_label")
    elif k == "edges":
        ctx.count("edges_style:" + case.get("style", "tuples"))
    elif k == "history":
        ctx.count(f"history:graph:{len(case['steps'])}_rounds")
        for st in case["steps"][1:]:
            ctx.count("history:op:" + st.get("op", "?"))
    elif k == "ehistory":
        ctx.count(f"history:edges:{len(case['steps'])}_rounds")
    elif k == "big":
        ctx.count(f"large:n={case['n']}")


def run_cases(ctx, cases, do_shrink=True):
    shrunk = rechecked = 0
    for case, us in zip(cases, evaluate(cases)):
        record_styles(ctx, case)
        ctx.count("kind:" + case["kind"] + (":dup_nodes" if case.get("dup") else ""))
        for ui, (sub, out, rp) in enumerate(us):
            fails, tdivs, counts = judge(sub, out, rp)
            for k in counts:
                ctx.count(k)
            ctx.cov["cert_checked_model"] = ctx.cov.get("cert_checked_model", 0) + 1
            if not tdivs:
                ctx.cov["r_trace_agree"] = ctx.cov.get("r_trace_agree", 0) + 1
            if sub["kind"] == "big":
                m_scc = rp[1]
                closed = True
            else:
                closed, m_scc, m_topo, m_cadj = rp[0], rp[1], rp[2], rp[3]
                ctx.cov["cert_checked_impl"] = ctx.cov.get("cert_checked_impl", 0) + sum(v is not None for v in rp[5:8])
            for fn, klass, what in fails:
                rep = {"case": case, "round": ui, "impl": out, "model": rp if sub["kind"] != "big" else "(large)"}
                in_history = case["kind"] in ("history", "ehistory")
                if rechecked < 12 and ctx.known_match(fn, klass) is None and ":large" not in klass:
                    # state left over from an earlier call (in this history, or in this worker process)?
                    rechecked += 1
                    if not fails_alone(sub, fn, klass):
                        klass += ":after_previous_call"
                        what += " — the same input passes when it is the only call of a fresh process"
                        rep["passes_alone"] = True
                if (do_shrink and shrunk < 3 and not in_history and sub["kind"] in ("graph", "edges")
                        and not klass.endswith(":after_previous_call") and ctx.known_match(fn, klass) is None):
                    shrunk += 1
                    small, hist = shrink(sub, fn, klass)
                    (_, so, sr) = evaluate([small])[0][0]
                    rep = {"case": small, "impl": so, "model": sr, "original_case": case, "shrink_history": hist}
                ctx.fail(fn, klass, what, rep)
            for fn, detail in tdivs:
                ctx.tdiv(fn, {"case": case if sub["kind"] != "big" else sub, "round": ui, **detail})
            if sub["kind"] == "graph":
                tab = {e[0]: e[1] for e in sub["table"]}
                loops = any(v in tab.get(v, []) for v in sub["nodes"])
                canon = [sub["nodes"], sorted(([e[0], e[1]] for e in sub["table"]), key=lambda e: _key(e[0])),
                         sub.get("labels")]
            elif sub["kind"] == "edges":
                loops = any(u == v for u, v in sub["edges"])
                canon = [sub["n"], sub["edges"]]
            else:
                loops = False
                canon = [sub["shape"], sub["n"]]
            nontrivial = loops or any(len(c) >= 2 for c in m_scc)
            if nontrivial:
                ctx.count("nontrivial:big_component" if any(len(c) >= 2 for c in m_scc) else "nontrivial:self_loop_only")
            sample = None
            if sub["kind"] != "big":
                sample = {"case": sub, "impl": out[1] if out[0] == "ok" else out,
                          "mirror": {"scc": m_scc, "topo": rp[2], "cadj": rp[3]}, "closed": closed}
            ctx.case(canon, nontrivial, sample)


def run(ctx, budget):
    ctx.cov["rule"] = RULE
    cases = list(edge_cases()) + [c["case"] for c in core.load_corpus("C14")]
    n = 4000 * budget
    big = ctx.tier == "thorough"
    for i in range(n):
        r = i % 10
        if r == 8:
            cases.append(gen_edges(ctx.rng, big and i % 3 == 0))
        elif r == 9 and i % 50 == 9:
            cases.append(gen_dup(ctx.rng))
        elif r == 6 and i % 20 == 6:  # fixed share: live views of a defaultdict / set / list that grow during the call
            cases.append(gen_live(ctx.rng, big and i % 3 == 0))
        elif r == 7:  # fixed share: call histories (graph rounds / edge-list rounds)
            cases.append(gen_ehistory(ctx.rng) if i % 40 == 7 else gen_history(ctx.rng))
        else:
            cases.append(gen_graph(ctx.rng, big and i % 3 == 0))
    # fixed share: large structured graphs (every shape at least once per run)
    for sh in DEEP_SHAPES + SHALLOW_SHAPES:
        c = gen_big(ctx.rng, big)
        c["shape"] = sh
        cases.append(c)
    for _ in range(8 * (budget > 1)):
        cases.append(gen_big(ctx.rng, big))
    run_cases(ctx, cases)


def replay(ctx, body):
    ctx.cov["rule"] = RULE
    run_cases(ctx, [body["case"]], do_shrink=False)
