"""C16 — knapsack and bin packing (solvor/knapsack.py, solvor/bin_pack.py) against the Pack models.

Numbers are generated as `k/d` with d in {1, 4, 10}.  Python receives the int `k` (d = 1) or the
nearest double of `k/d`.  The spec side (verified checkers, definitional / proved optima, the proved
rational models) receives the EXACT RATIONAL VALUE OF THE DOUBLE ACTUALLY PASSED (`Fraction(float)`),
the bit-level mirrors receive the doubles themselves.  Every R_prop clause is decided on those exact
values; where the code itself computes in floating point the clause carries the tolerance stated in
ASSUMPTIONS, and the optimum is computed strictly, tolerantly and with a shrunk capacity - a clause
about optimality is failed only if the answer is wrong under all of these readings.
"""
from __future__ import annotations

import copy
import json
import math
import struct
from array import array
from collections.abc import Sequence
from fractions import Fraction

import core
from core import Driver
from pool import err_kind, run_pool

AREAS = ["Pack"]
LEVEL = "proof"
ASSUMPTIONS = [
    "every clause is decided on the exact rational values of the doubles handed to the implementation; when every "
    "weight/size/capacity is an integer or k/4 (exactly representable, float arithmetic on them exact) no tolerance "
    "is used at all",
    "knapsack with inexact inputs: tolerance t = (n+2)*1e-9*max(1,capacity/100000) + 2^-50*(n+2)*max(1,capacity): the "
    "slack (n+1)*scaleTol/scale of theorem knapsack_lossless_near_optimal (what the repaired code guarantees when it "
    "says OPTIMAL, with the source's scaleTol = 1e-9), the code's own re-check `total_weight > capacity + 1e-9`, and "
    "the rounding of its float sums; weight <= capacity is checked as weight <= capacity + t, and an OPTIMAL answer "
    "is failed only if its value is below the optimum for the capacity SHRUNK by t (hence also below the strict and "
    "the tolerant optimum), by more than 1e-9*max(1,|optimum|) when values are inexact",
    "bin packing with inexact inputs: the code keeps `remaining` by float subtraction; each of the <= n subtractions "
    "errs by <= 2^-53*capacity, so an exact load can exceed the capacity by < n*2^-53*capacity without the code seeing it "
    "(and a fit can be refused by the same margin): loads are checked against capacity*(1+n*2^-52); OPT is computed "
    "for capacity*(1-n*2^-52) (an item larger than that is read as filling its bin), capacity and capacity*(1+n*2^-52), and `OPTIMAL not minimal` / the 11/9 bound are "
    "failed only with the LARGEST of the three optima (wrong under every reading)",
    "_greedy_fallback and _to_int_capacity/_scaled (named in the property's anchors) are also called directly: the "
    "fallback's answer must be feasible (tolerance capacity*n*2^-52 for inexact inputs: `remaining -= w` in floats) "
    "and equal to the mirror's; the scaling helpers are compared with the mirror bit for bit",
    "presentation: the annotated contract is Sequence[float]; list, tuple, array('d'), range, a bare Sequence subclass, "
    "bool entries and one object passed as both values and weights are all valid inputs with the same meaning (the "
    "Lean side always receives the canonical numbers); input-not-modified is not a clause of C16",
    "histories: each call of a history is judged on its own input exactly like a single call; a failure that does not "
    "occur when the same input is the only call of a fresh process gets the class suffix :after_previous_call",
    "objective = sum of values: exact for dyadic values, otherwise within 1e-9*max(1,|sum|) (float summation)",
    "the floating-point instance of the model (Lean `Float`, same IEEE doubles) is tied by R_trace only; the theorems "
    "are about the same generic code instantiated at Rat (tolerances as parameters, exact statement at 0)",
    "the 11/9*OPT+6/9 bound is not proved in Lean; it is checked per instance against a certified optimum: the fast "
    "search `minBins` returns a packing accepted by the verified checker chkPack (OPT <= minBins) and the proved "
    "enumerator `minBinsP` (theorem minBinsP_le: no valid packing has fewer bins) returns the same number",
]
RULE = ("knapsack: <=12 items (thorough <=16), values/weights/capacity integers or k/4, k/10, with zero "
        "weights, zero capacity, exact fills, near fills, ties, minimize/maximize, capacities whose scaling is lossy "
        "(32.3, >100, >25000) and a malformed stream; bin packing: <=12 items, the four heuristics under several "
        "spellings, zero sizes, items equal to the capacity, exact fills; plus, with a fixed share in both tiers, "
        "multisets of 2-4 distinct sizes (8-40 items, patterns a*x+b*y=C) and the classical bad families for "
        "FFD/BFD/FF (C/2+e, C/4+2e, C/4+e, C/4-2e; big+2 small / 2 mid+small; 1/7,1/3,1/2), each with its planted "
        "packing (verified by chkPack) so that the 11/9 clause is decidable for any n; presentations of every Sequence "
        "argument (list, tuple, array('d'), range, a bare collections.abc.Sequence, bool entries, values and weights "
        "one object); histories of 2-4 consecutive calls in one process on related inputs (same objects with changed "
        "capacity, minimize/maximize, each heuristic after another, same input twice, changed content, knapsack / "
        "fallback / bin packing interleaved on one list); a few large instances (40-120 items / 100-400 items, many "
        "ties); numeric edges (positive weights 1e-6..1e-15 and 2^-30..2^-50 next to on-grid weights, capacity an exact "
        "fill plus 0..2 grid units / the total / the total minus a tiny weight / one ulp off, values near 2^53, zero values; "
        "sizes equal to the capacity, half of it and one ulp around, tiny, near 2^53). Non-trivial = at least one item rejected "
        "by capacity (knapsack: the items do not all fit but one does; packing: >=2 bins opened with >=3 items); "
        "distinct by canonical case")


# ---------------------------------------------------------------------------
# numbers: [k, d, f]  ->  Python value / exact rational of the value passed
# ---------------------------------------------------------------------------

def pyval(x):
    """[k, d, f] = k/d (int k when d = 1 and not f); an optional 4th entry moves the double by that many ulps"""
    k, d, f = x[:3]
    v = (float(k) if f else k) if d == 1 else k / d
    if len(x) > 3 and x[3]:
        v = float(v)
        for _ in range(abs(x[3])):
            v = math.nextafter(v, math.inf if x[3] > 0 else -math.inf)
    return v


def dec(x) -> Fraction:
    """the decimal the generator wrote"""
    return Fraction(x[0], x[1])


def frac(x) -> Fraction:
    """exact value of what Python receives"""
    v = pyval(x)
    return Fraction(v)


def exact(x) -> bool:
    """the double is the decimal (integers, k/4, 5/10 ...) and small enough for exact float sums"""
    return len(x) < 4 and frac(x) == dec(x) and abs(x[0]) < 2**40 and (frac(x).denominator & (frac(x).denominator - 1)) == 0 \
        and frac(x).denominator <= 1024


def rat(x):
    f = frac(x)
    return [f.numerator, f.denominator]


def fr(f: Fraction):
    return [f.numerator, f.denominator]


def bits(x) -> int:
    return core.fbits(float(pyval(x)))


def unbits(b: int) -> Fraction:
    return Fraction(struct.unpack("<d", struct.pack("<Q", b))[0])


# ---------------------------------------------------------------------------
# presentation of a `Sequence[float]` argument: the contract allows any Sequence and int/float/bool entries
# ---------------------------------------------------------------------------

class SeqView(Sequence):
    """a minimal read-only collections.abc.Sequence that is neither list nor tuple"""

    def __init__(self, data):
        self._d = list(data)

    def __len__(self):
        return len(self._d)

    def __getitem__(self, i):
        return SeqView(self._d[i]) if isinstance(i, slice) else self._d[i]


STYLES = ["list", "tuple", "array", "seq", "bool", "range"]


def present_values(nums, style):
    """the Python numbers the implementation will see, element by element"""
    vals = [pyval(x) for x in nums]
    if style == "bool":
        vals = [bool(v) if isinstance(v, int) and v in (0, 1) else v for v in vals]
    elif style == "array":
        vals = [float(v) for v in vals]
    return vals


def present(nums, style):
    vals = present_values(nums, style)
    if style == "tuple":
        return tuple(vals)
    if style == "array":
        return array("d", vals)
    if style == "seq":
        return SeqView(vals)
    if style == "range" and len(vals) >= 2 and all(isinstance(v, int) and not isinstance(v, bool) for v in vals) \
            and len({b - a for a, b in zip(vals, vals[1:])}) == 1 and vals[1] != vals[0]:
        return range(vals[0], vals[-1] + (1 if vals[1] > vals[0] else -1), vals[1] - vals[0])
    return list(vals)


def style_of(case, key):
    return (case.get("style") or {}).get(key, "list")


def add_style(rng, case):
    """fixed share of non-list presentations; `alias`: values and weights are the SAME object when equal"""
    if case["fn"] == "binpack":
        if rng.random() < 0.35:
            case["style"] = {"sizes": rng.choice(STYLES)}
    elif case["fn"] in ("knapsack", "fallback"):
        if rng.random() < 0.35:
            case["style"] = {"values": rng.choice(STYLES), "weights": rng.choice(STYLES)}
            if case["values"] == case["weights"]:
                case["style"]["weights"] = case["style"]["values"]
                case["style"]["alias"] = True
    return case


def num(rng, d, lo, hi, f=None):
    """random decimal in [lo, hi] (units), denominator d"""
    return [rng.randint(lo * d, hi * d), d, (rng.random() < 0.3) if f is None else f]


# ---------------------------------------------------------------------------
# generators
# ---------------------------------------------------------------------------

def gen_knap(rng, big: bool):
    r = rng.random()
    nmax = 16 if big else 12
    minimize = rng.random() < 0.2
    dv = rng.choice([1, 1, 4, 10])
    if r < 0.03:  # malformed
        n = rng.randint(1, 4)
        vals = [num(rng, dv, 0, 9) for _ in range(n)]
        if rng.random() < 0.5:
            wts = [num(rng, 1, 0, 5) for _ in range(n + rng.choice([-1, 1, 2]))]
            cap = num(rng, 1, 0, 9)
        else:
            wts = [num(rng, 1, 0, 5) for _ in range(n)]
            cap = [-rng.randint(1, 30), rng.choice([1, 4, 10]), False]
        return {"fn": "knapsack", "values": vals, "weights": wts, "capacity": cap, "minimize": minimize}
    if r < 0.50:  # integers
        d, wmax, cmax = 1, rng.choice([3, 6, 9]), rng.choice([0, 5, 12, 25])
        n = rng.choice([0, 1, 2, 3, 5, 8, nmax, rng.randint(0, nmax)])
    elif r < 0.80:  # decimals, capacity <= 12 (scale 1000)
        d, wmax, cmax = rng.choice([4, 10, 10]), rng.choice([1, 2, 4]), rng.choice([0, 1, 3, 12])
        n = rng.choice([1, 2, 3, 5, 8, nmax, rng.randint(1, nmax)])
    elif r < 0.86:  # capacities whose product with 1000 is not an integer in floating point
        d = 10
        ck = rng.choice([323, 641, 646, 651])
        n = rng.randint(2, 6)
        a = rng.randint(1, ck - 1)
        wts = [[a, 10, False], [ck - a, 10, False]] + [num(rng, 10, 0, ck // 10) for _ in range(n - 2)]
        rng.shuffle(wts)
        vals = [num(rng, dv, 0, 9) for _ in range(n)]
        return {"fn": "knapsack", "values": vals, "weights": wts, "capacity": [ck, 10, False], "minimize": minimize}
    elif r < 0.95:  # capacity > 100: non-integer scale, truncation, fallback
        d = rng.choice([4, 10])
        ck = rng.randint(100 * d + 1, 400 * d)
        n = rng.randint(2, 7)
        wts = [[rng.randint(0, ck), d, False] for _ in range(n)]
        m = rng.random()
        a = rng.randint(1, ck - 1)
        if m < 0.4:
            wts[0], wts[1] = [a, d, False], [ck - a, d, False]  # exact fill
        elif m < 0.7:
            wts[0], wts[1] = [a, d, False], [ck - a + 1, d, False]  # over by one unit
        rng.shuffle(wts)
        vals = [num(rng, dv, 0, 9) for _ in range(n)]
        return {"fn": "knapsack", "values": vals, "weights": wts, "capacity": [ck, d, False], "minimize": minimize}
    else:  # huge capacity (scale 1.6 .. 4): weights below 1/scale count as 1, truncation can overpack -> fallback
        d = 4
        c0 = rng.randint(25001, 60000)
        ck = c0 * 4 + rng.choice([1, 2, 3])
        n = rng.randint(2, 5)
        if rng.random() < 0.5:
            small = [[rng.choice([1, 1, 2]), 4, False] for _ in range(n - 1)]
            rest = ck - sum(s[0] for s in small) + rng.choice([0, 0, 0, 1, -1])
            wts = [[rest, 4, False]] + small
        else:  # n similar parts adding up to the capacity plus/minus a quarter or two
            tot = ck + rng.choice([-1, 0, 1, 1, 2, 3])
            cuts = sorted(rng.randint(tot // (2 * n), tot - tot // (2 * n)) for _ in range(n - 1))
            parts = [b - a for a, b in zip([0] + cuts, cuts + [tot])]
            wts = [[max(0, q), 4, False] for q in parts]
            if rng.random() < 0.5:
                wts.append([rng.randint(1, ck), 4, False])
        rng.shuffle(wts)
        vals = [num(rng, dv, 1, 9) for _ in range(len(wts))]
        return {"fn": "knapsack", "values": vals, "weights": wts, "capacity": [ck, 4, False], "minimize": minimize}
    fl = rng.random() < 0.3
    wts = [num(rng, d, 0, wmax, fl) for _ in range(n)]
    if n and rng.random() < 0.3:  # zero weights
        for _ in range(rng.randint(1, 2)):
            wts[rng.randrange(n)] = [0, rng.choice([1, d]), fl]
    cap = num(rng, d, 0, cmax, fl)
    if n and rng.random() < 0.35:  # capacity = weight of a random subset (exact fill), maybe one unit short
        sub = [w for w in wts if rng.random() < 0.5]
        tot = sum((dec(w) for w in sub), Fraction(0)) * d
        cap = [max(0, int(tot) - (1 if rng.random() < 0.3 else 0)), d, fl]
    vals = [num(rng, dv, 0, 9) for _ in range(n)]
    if n >= 2 and rng.random() < 0.3:  # ties: duplicate an item
        i, j = rng.randrange(n), rng.randrange(n)
        wts[i], vals[i] = list(wts[j]), list(vals[j])
    if n and rng.random() < 0.1:
        vals = [[0, 1, False] for _ in range(n)]
    if n and rng.random() < 0.08:   # subset sum: values equal to weights (allows passing ONE object twice)
        vals = copy.deepcopy(wts)
    return {"fn": "knapsack", "values": vals, "weights": wts, "capacity": cap, "minimize": minimize}


SPELL = {
    (False, False): ["first-fit", "ff", "first_fit", "FIRST-FIT"],
    (True, False): ["best-fit", "bf", "best_fit", "Best-Fit"],
    (False, True): ["first-fit-decreasing", "ff-decreasing", "first_fit_decreasing", "FF_DECREASING",
                    "ff-decreasing-decreasing"],
    (True, True): ["best-fit-decreasing", "bf-decreasing", "best_fit_decreasing", None,  # None = default
                   "bf-decreasing_decreasing"],
}


def gen_pack(rng, big: bool):
    r = rng.random()
    nmax = 12
    ub, dec = rng.random() < 0.5, rng.random() < 0.5
    algo = rng.choice(SPELL[(ub, dec)])
    d = rng.choice([1, 1, 4, 10, 10])
    if r < 0.03:  # malformed
        n = rng.randint(1, 4)
        ck = rng.randint(1, 5 * d)
        sizes = [[rng.randint(0, ck), d, False] for _ in range(n)]
        m = rng.randrange(4)
        if m == 0:
            sizes[rng.randrange(n)] = [ck + 1, d, False]
        elif m == 1:
            sizes[rng.randrange(n)] = [-1, d, False]
        elif m == 2:
            ck = rng.choice([0, -1])
            sizes = [[0, d, False] for _ in range(n)]
        else:
            algo = rng.choice(["next-fit", "decreasing", "", "-decreasing", "best fit", "first-fit-increasing"])
        return {"fn": "binpack", "sizes": sizes, "capacity": [ck, d, False], "algorithm": algo, "flags": [ub, dec]}
    n = rng.choice([0, 1, 2, 3, 4, 6, 8, 10, nmax, rng.randint(0, nmax)])
    if big and rng.random() < 0.2:
        n = rng.randint(13, 30)
    ck = rng.choice([1, 2, 3, 5, 7, 10, 12]) * d if rng.random() < 0.6 else rng.randint(1, 12 * d)
    fl = rng.random() < 0.3
    hi = rng.choice([ck, ck, max(1, ck // 2), max(1, ck // 3)])
    sizes = [[rng.randint(0, hi), d, fl] for _ in range(n)]
    if n and rng.random() < 0.3:
        sizes[rng.randrange(n)] = [0, d, fl]
    if n and rng.random() < 0.2:
        sizes[rng.randrange(n)] = [ck, d, fl]
    if n >= 2 and rng.random() < 0.4:  # pairs that fill a bin exactly
        for _ in range(rng.randint(1, 3)):
            a = rng.randint(0, ck)
            i, j = rng.randrange(n), rng.randrange(n)
            if i != j:
                sizes[i], sizes[j] = [a, d, fl], [ck - a, d, fl]
    if n and rng.random() < 0.05:
        sizes = [[0, d, fl] for _ in range(n)]
    return {"fn": "binpack", "sizes": sizes, "capacity": [ck, d, fl], "algorithm": algo, "flags": [ub, dec]}


def _pick_algo(rng):
    ub, dec_ = rng.random() < 0.6, rng.random() < 0.6
    return rng.choice(SPELL[(ub, dec_)]), [ub, dec_]


def _from_bins(rng, bins, C, shuffle=True):
    """instance with a planted packing: `bins` = list of lists of integer sizes, each summing to <= C"""
    items = [(s, b) for b, blist in enumerate(bins) for s in blist]
    if shuffle:
        rng.shuffle(items)
    algo, flags = _pick_algo(rng)
    fl = rng.random() < 0.3
    return {"fn": "binpack", "sizes": [[s, 1, fl] for s, _ in items], "capacity": [C, 1, fl], "algorithm": algo,
            "flags": flags, "planted": [[b for _, b in items], len(bins)]}


def gen_pack_few(rng, big: bool):
    """2-4 distinct sizes with several fit patterns (a*x + b*y = C among them), 8-40 items, planted packing"""
    C = rng.choice([10, 12, 20, 24, 30, 60, 100, 120])
    for _ in range(50):
        a, b = rng.randint(1, 3), rng.randint(1, 3)
        x = rng.randint(max(1, C // 10), C // 2)
        if C - a * x > 0 and (C - a * x) % b == 0 and (C - a * x) // b != x:
            break
    else:
        a, b, x = 1, 1, C // 3
    y = (C - a * x) // b
    sizes = [x, y] + rng.sample(range(1, C * 2 // 3 + 1), rng.randint(0, 2))
    exact_pat = [x] * a + [y] * b
    nmax = 40 if big else 28
    target = rng.randint(8, nmax)
    bins, n = [], 0
    while n < target:
        if rng.random() < 0.5:
            pat = list(exact_pat)
        else:
            pat, rem = [], C
            while True:
                fit = [z for z in sizes if z <= rem]
                if not fit or (pat and rng.random() < 0.15):
                    break
                z = rng.choice(fit)
                pat.append(z)
                rem -= z
        bins.append(pat)
        n += len(pat)
    return _from_bins(rng, bins, C)


def gen_pack_adversarial(rng, big: bool):
    """classical bad instances for the any-fit heuristics, scaled to integers, with their optimal packing planted"""
    kind = rng.randrange(4)
    if kind == 0:   # Johnson: FFD = 11/9 OPT.  C/2+e, C/4+2e, C/4+e, C/4-2e in numbers 6m, 6m, 6m, 12m
        q = rng.randint(50, 300)
        C, e = 4 * q, rng.randint(1, max(1, q // 10))
        m = rng.choice([1, 1, 2] if not big else [1, 2, 3])
        A, B, D, E = 2 * q + e, q + 2 * e, q + e, q - 2 * e
        bins = [[A, D, E] for _ in range(6 * m)] + [[B, B, E, E] for _ in range(3 * m)]
    elif kind == 1:  # big + two smalls, one bin of two mids + small: runs of equal sizes with room left in earlier bins
        C = rng.choice([100, 100, 60, 200])
        s = rng.randint(C // 8, C // 5)
        big_ = rng.randint(C - 3 * s + 1, C - 2 * s)
        mid = rng.randint((C - big_) + 1, (C - s) // 2) if (C - big_) + 1 <= (C - s) // 2 else (C - s) // 2
        m = rng.randint(1, 6 if not big else 12)
        if rng.random() < 0.4:
            C, big_, mid, s = 100, 60, 41, 18
        bins = [[big_, s, s] for _ in range(m)] + [[mid, mid, s]]
    elif kind == 2:  # first-fit's 17/10 family: 1/7+e, 1/3+e, 1/2+e, small ones first
        C = 420 * rng.randint(1, 3)
        e = rng.randint(1, C // 210)
        m = rng.randint(2, 10 if not big else 14)
        bins = [[C // 7 + e, C // 3 + e, C // 2 + e] for _ in range(m)]
        c = _from_bins(rng, bins, C, shuffle=False)
        order = sorted(range(len(c["sizes"])), key=lambda i: c["sizes"][i][0])  # increasing: worst case for FF/BF
        c["sizes"] = [c["sizes"][i] for i in order]
        c["planted"][0] = [c["planted"][0][i] for i in order]
        return c
    else:            # halves and thirds: C/2+e with C/2-e, C/3+e runs
        C = 6 * rng.randint(10, 60)
        e = rng.randint(1, C // 30 + 1)
        m = rng.randint(2, 6 if not big else 10)
        bins = [[C // 2 + e, C // 2 - e] for _ in range(m)] + [[C // 3 - e, C // 3, C // 3 + e] for _ in range(m)] \
            + [[C // 3 + e, C // 3 + e, C // 3 - 2 * e] for _ in range(rng.randint(0, m))]
    return _from_bins(rng, bins, C, shuffle=rng.random() < 0.7)


# the first six are far enough below the 1/1000 grid to scale to 0 within the 1e-9 "exact" tolerance
TINY = [[1, 10**12], [1, 10**13], [5, 10**14], [1, 10**15], [1, 2**40], [1, 2**50], [1, 10**18], [1, 2**60],
        [1, 10**6], [1, 10**9], [3, 10**12], [1, 2**30], [3, 2**41]]


def gen_knap_edge(rng, big: bool):
    """numeric edges of the scaling grid: positive weights far below 1/1000 next to on-grid weights, capacity an
    exact fill plus 0..2 grid units, the total weight, the total minus a tiny weight, one ulp off; huge values; zeros"""
    g = rng.choice([1000, 1000, 100, 10])
    n_grid = rng.randint(1, 5)
    wk = [rng.randint(1, 3 * g) for _ in range(n_grid)]
    wts = [[k, g, False] for k in wk]
    tiny = [list(rng.choice(TINY[:8] if rng.random() < 0.7 else TINY)) + [False] for _ in range(rng.choice([1, 2, 2, 3, 4]))]
    wts += tiny
    vals = [num(rng, rng.choice([1, 1, 4, 10]), 0, 20) for _ in range(n_grid)] + \
           [[rng.randint(0 if rng.random() < 0.2 else 1, 3), 1, False] for _ in tiny]
    mode = rng.choice([0, 0, 0, 1, 1, 2, 3, 4, 5])
    sub = [k for k in wk if rng.random() < 0.6] or [wk[0]]
    if mode <= 1:      # exact fill of some on-grid items plus 0..2 spare grid units (fewer than the tiny items)
        cap = [sum(sub) + rng.randint(0, 2), g, False]
    elif mode == 2:    # the total weight of everything
        tot = sum((dec(w) for w in wts), Fraction(0))
        cap = [tot.numerator, tot.denominator, False]
    elif mode == 3:    # the total minus one tiny weight
        tot = sum((dec(w) for w in wts), Fraction(0)) - dec(tiny[0])
        cap = [tot.numerator, tot.denominator, False]
    elif mode == 4:    # on the grid, one ulp off
        cap = [sum(sub) + rng.randint(0, 1), g, False, rng.choice([-1, 1])]
        i = rng.randrange(n_grid)
        wts[i] = wts[i][:3] + [rng.choice([-1, 1])]
    else:              # huge values (float sums lose the small ones), zero values
        cap = [sum(sub) + 1, g, False]
        # (huge Python ints are kept below 2^50 so that their exact int sum is still a double: the mirror sums doubles)
        vals = [([2**53 - rng.randint(0, 3), 1, True] if rng.random() < 0.6 else [2**50 - rng.randint(0, 3), 1, False])
                if rng.random() < 0.5 else [rng.randint(0, 2), 1, False] for _ in wts]
    if rng.random() < 0.2:
        vals[rng.randrange(len(vals))] = [0, 1, False]
    order = list(range(len(wts)))
    rng.shuffle(order)
    return {"fn": "knapsack", "values": [vals[i] for i in order], "weights": [wts[i] for i in order],
            "capacity": cap, "minimize": rng.random() < 0.1, "edge": True}


def gen_pack_edge(rng, big: bool):
    """sizes equal to the capacity, exactly half of it and one ulp around, tiny sizes, zero, near 2^53"""
    k, d = rng.choice([(1, 1), (3, 10), (10, 1), (1, 1000), (2**53, 1), (7, 4), (100, 1)])
    fl = rng.random() < 0.5
    n = rng.randint(2, 10)
    menu = [[k, d, fl], [k, 2 * d, fl], [k, 2 * d, fl, 1], [k, 2 * d, fl, -1], [k, 3 * d, fl], [0, 1, fl], [k, d, fl, -1]]
    if (k, d) != (2**53, 1):
        menu += [list(t) + [False] for t in TINY[:10] if Fraction(t[0], t[1]) <= Fraction(k, d)]
        menu += [[k, 4 * d, fl], [k, 4 * d, fl, 1]]
    else:
        menu += [[2**52 + 1, 1, fl], [2**52 - 1, 1, fl], [1, 1, fl], [2**53 - 1, 1, fl]]
    sizes = [list(rng.choice(menu)) for _ in range(n)]
    algo, flags = _pick_algo(rng)
    return {"fn": "binpack", "sizes": sizes, "capacity": [k, d, fl], "algorithm": algo, "flags": flags, "edge": True}


def gen_knap_boundary(rng, big: bool):
    """boundary values of the regenerated constants: capacity at / around max_capacity = 100000 (scale becomes exactly
    1.0 on the decimal path) and around 100 (scale hits its cap 1000.0), with half-unit weights whose floors fit the
    integer table but whose real sum overflows, and with integer weights"""
    base = rng.choice([100000, 100000, 100000, 100])
    ck2 = 2 * base + rng.choice([0, 0, 0, -2, 2, 1, -1])          # capacity in half units
    fl = rng.random() < 0.5
    cap = [ck2 // 2, 1, fl] if ck2 % 2 == 0 else [ck2, 2, False]
    a = rng.randint(1, ck2 // 2 - 1)
    if rng.random() < 0.7:   # two half-unit weights: floors add up to the capacity (+-1), real sum one more
        wts = [[2 * a + 1, 2, False], [2 * (ck2 // 2 - a) + 1 + 2 * rng.choice([0, 0, -1]), 2, False]]
    else:                     # integer weights filling the capacity exactly / one over
        wts = [[a, 1, fl], [ck2 // 2 - a + rng.choice([0, 1]), 1, fl]]
    for _ in range(rng.randint(0, 2)):
        wts.append([rng.choice([1, 2, 3, 2 * rng.randint(1, base)]), 2, False])
    vals = [[rng.randint(1, 5), 1, False] for _ in wts]
    return {"fn": "knapsack", "values": vals, "weights": wts, "capacity": cap, "minimize": False, "boundary": True}


def gen_history(rng, big: bool):
    """2-4 consecutive calls in ONE process on related inputs (equal recipes are the same Python objects)"""
    kind = rng.choice(["knap_capacity", "knap_minmax", "pack_heuristics", "pack_capacity", "same_twice",
                       "content_changed", "interleaved"])
    steps = []
    if kind.startswith("knap") or kind in ("same_twice", "interleaved") and rng.random() < 0.5:
        k = gen_knap(rng, False)
        while not knap_valid(k) or not k["values"] or len(k["values"]) > 12:
            k = gen_knap(rng, False)
        add_style(rng, k)
        steps.append(k)
        x = k["capacity"]
        if kind == "knap_capacity":
            for _ in range(rng.randint(1, 3)):   # narrow -> wide and wide -> narrow on the same lists
                y = [max(0, x[0] + rng.choice([-3, -2, -1, 1, 2, 3, x[0], -x[0] // 2]) * max(1, x[1] // 4)), x[1], x[2]]
                steps.append(dict(k, capacity=y))
        elif kind == "knap_minmax":
            steps.append(dict(k, minimize=not k["minimize"]))
            if rng.random() < 0.5:
                steps.append(dict(k))
        elif kind == "same_twice":
            steps.append(dict(k))
        else:  # interleaved entry points on the same lists
            steps.append(dict(k, fn="fallback"))
            if all(frac(w) <= max(frac(x), 0) and frac(w) >= 0 for w in k["weights"]) and frac(x) > 0:
                algo, flags = _pick_algo(rng)
                p = {"fn": "binpack", "sizes": k["weights"], "capacity": x, "algorithm": algo, "flags": flags}
                if k.get("style"):
                    p["style"] = {"sizes": k["style"]["weights"]}
                steps.append(p)
            steps.append(dict(k))
    else:
        p = rng.choice([gen_pack, gen_pack_few])(rng, False)
        while not pack_valid(p) or not p["sizes"]:
            p = gen_pack(rng, False)
        add_style(rng, p)
        steps.append(p)
        if kind == "pack_heuristics":
            others = [(u, d_) for u in (False, True) for d_ in (False, True) if [u, d_] != p["flags"]]
            rng.shuffle(others)
            for u, d_ in others[:rng.randint(1, 3)]:
                steps.append(dict(p, algorithm=rng.choice(SPELL[(u, d_)]), flags=[u, d_]))
        elif kind == "pack_capacity":
            x = p["capacity"]
            hi = max(s[0] for s in p["sizes"])
            for _ in range(rng.randint(1, 2)):
                q = dict(p, capacity=[max(hi, x[0] + rng.choice([-2, -1, 1, 2, x[0]])), x[1], x[2]])
                q.pop("planted", None)
                steps.append(q)
        elif kind == "content_changed":   # same length, one element changed: a new object of the same shape
            q = copy.deepcopy(p)
            i = rng.randrange(len(q["sizes"]))
            q["sizes"][i] = [rng.randint(0, q["capacity"][0]), q["sizes"][i][1], q["sizes"][i][2]]
            q.pop("planted", None)
            steps += [q, dict(p)]
        else:
            steps.append(dict(p))
    return {"fn": "history", "kind": kind, "steps": steps}


def gen_large(rng, big: bool):
    """a few instances several times larger than usual, where the proved DP / chkPack still scale; many ties"""
    if rng.random() < 0.5:
        n = rng.randint(40, 120 if big else 80)
        wmax = rng.choice([3, 10, 30])
        ties = rng.random() < 0.4
        wts = [[rng.randint(0 if rng.random() < 0.1 else 1, wmax), 1, False] for _ in range(n)]
        dv = rng.choice([1, 1, 4])
        vals = [[rng.randint(0, 20 * dv), dv, False] for _ in range(n)]
        if ties:
            wts = [list(wts[i % 3]) for i in range(n)]
            vals = [list(vals[i % 3]) for i in range(n)]
        cap = [min(2000, sum(w[0] for w in wts) // rng.choice([2, 3, 5])), 1, False]
        return add_style(rng, {"fn": "knapsack", "values": vals, "weights": wts, "capacity": cap,
                               "minimize": rng.random() < 0.15})
    C = rng.choice([100, 1000])
    target = rng.randint(100, 400 if big else 200)
    mode = rng.randrange(3)
    bins, n = [], 0
    while n < target:
        if mode == 0:      # all items equal
            pat = [C // 3] * 3
        elif mode == 1:    # few distinct sizes
            pat = rng.choice([[C // 2, C // 4, C // 4], [C // 2 + 1, C // 2 - 1], [C // 5] * 5, [C * 3 // 5, C // 5]])
        else:
            pat, rem = [], C
            while rem > 0 and len(pat) < 6:
                z = rng.randint(1, rem)
                pat.append(z)
                rem -= z
        bins.append(pat)
        n += len(pat)
    return add_style(rng, _from_bins(rng, bins, C))


def N(k, d=1, f=False):
    return [k, d, f]


def edge_cases():
    K = lambda v, w, c, m=False: {"fn": "knapsack", "values": v, "weights": w, "capacity": c, "minimize": m}  # noqa: E731
    yield K([], [], N(5))
    yield K([N(10), N(20)], [N(0), N(0)], N(0))                      # capacity 0, weightless valuable items
    yield K([N(10), N(20), N(30)], [N(1), N(2), N(3)], N(0))
    yield K([N(5), N(1)], [N(5, 10), N(0)], N(0))
    yield K([N(60), N(100), N(120)], [N(10), N(20), N(30)], N(50))
    yield K([N(60), N(100), N(120)], [N(10), N(20), N(30)], N(50), True)
    yield K([N(5), N(1)], [N(322, 10), N(1, 10)], N(323, 10))        # 32.3 * 1000 = 32299.999999999996
    yield K([N(5), N(1), N(1)], [N(50000), N(1, 4), N(1, 4)], N(100001, 2))  # 0.25 scaled below 1 counts as 1
    yield K([N(1), N(1)], [N(1, 10), N(2, 10)], N(3, 10))
    yield K([N(3), N(3), N(3)], [N(2), N(2), N(2)], N(4))
    yield K([N(10), N(15), N(1), N(1)], [N(1, 1, True), N(1499, 1000), N(1, 10**12), N(1, 10**12)], N(25, 10))
    for c in (N(100000), N(100000, 1, True), N(99999), N(100001), N(200001, 2)):   # capacity at / around max_capacity
        yield K([N(1), N(1)], [N(100001, 2), N(100001, 2)], c)
    yield K([N(1), N(1)], [N(101, 2), N(101, 2)], N(100))                            # ... and at the scale cap
    P = lambda s, c, a: {"fn": "binpack", "sizes": s, "capacity": c, "algorithm": a,  # noqa: E731
                         "flags": [a is None or "b" in a.split("-")[0], a is None or "decreasing" in a]}
    for a in ("first-fit", "best-fit", "first-fit-decreasing", None):
        yield P([], N(5), a)
        yield P([N(0), N(0)], N(5), a)
        yield P([N(4), N(8), N(1), N(4), N(2), N(1)], N(10), a)
        yield P([N(2, 10), N(1, 10)], N(3, 10), a)                    # 0.3 - 0.2 < 0.1 in doubles
        yield P([N(5), N(5), N(5), N(5)], N(5), a)


# ---------------------------------------------------------------------------
# implementation side (runs in a worker process)
# ---------------------------------------------------------------------------

def _obj(pool, role, nums, style, alias=False):
    """the presented argument; inside a history equal recipes give the SAME object again"""
    key = ("" if alias else role, json.dumps(nums), style)
    if pool is None:
        return present(nums, style)
    if key not in pool:
        pool[key] = present(nums, style)
    return pool[key]


def run_step(case, pool=None):
    st = case.get("style") or {}
    if case["fn"] in ("fallback", "intcap"):
        try:
            from solvor.knapsack import _greedy_fallback, _scaled, _to_int_capacity
        except ImportError:
            return {"unavailable": True}
        w = _obj(pool, "w", case["weights"], st.get("weights", "list"), st.get("alias", False))
        c = pyval(case["capacity"])
        if case["fn"] == "intcap":
            ic, scale = _to_int_capacity(c, w)
            return {"int_cap": ic, "scale": core.fbits(float(scale)), "scaled": [list(_scaled(x, scale)) for x in w]}
        v = _obj(pool, "v", case["values"], st.get("values", "list"), st.get("alias", False))
        r = _greedy_fallback(v, w, c, case["minimize"])
        sol = r.solution
        ok_shape = isinstance(sol, tuple) and all(isinstance(i, int) and not isinstance(i, bool) for i in sol)
        return {"status": r.status.name, "sol": list(sol) if ok_shape else repr(sol), "shape": ok_shape,
                "objective": core.rat(r.objective)}
    if case["fn"] == "knapsack":
        from solvor.knapsack import solve_knapsack
        v = _obj(pool, "v", case["values"], st.get("values", "list"), st.get("alias", False))
        w = _obj(pool, "w", case["weights"], st.get("weights", "list"), st.get("alias", False))
        c = pyval(case["capacity"])
        r = solve_knapsack(v, w, c, minimize=case["minimize"])
        sol = r.solution
        ok_shape = isinstance(sol, tuple) and all(isinstance(i, int) and not isinstance(i, bool) for i in sol)
        return {"status": r.status.name, "sol": list(sol) if ok_shape else repr(sol), "shape": ok_shape,
                "objective": core.rat(r.objective)}
    from solvor.bin_pack import solve_bin_pack
    s = _obj(pool, "w", case["sizes"], st.get("sizes", "list"))   # role "w": shared with a knapsack's weights
    c = pyval(case["capacity"])
    kw = {} if case["algorithm"] is None else {"algorithm": case["algorithm"]}
    r = solve_bin_pack(s, c, **kw)
    sol = r.solution
    ok_shape = isinstance(sol, tuple) and all(isinstance(i, int) and not isinstance(i, bool) and i >= 0 for i in sol)
    return {"status": r.status.name, "sol": list(sol) if ok_shape else repr(sol), "shape": ok_shape,
            "objective": core.rat(r.objective)}


def impl(case):
    """one call, or - for a history - the consecutive calls of its steps in this one process, sharing objects"""
    if case["fn"] != "history":
        return run_step(case)
    pool, outs = {}, []
    for step in case["steps"]:
        try:
            outs.append(("ok", run_step(step, pool)))
        except BaseException as e:  # noqa: BLE001 - the error kind is an observable
            outs.append(("err", f"{type(e).__name__}: {e}"[:300]))
    return outs


# ---------------------------------------------------------------------------
# tolerances (see ASSUMPTIONS)
# ---------------------------------------------------------------------------

def knap_caps(case):
    """[strict, feasibility, optimum] capacities"""
    C = frac(case["capacity"])
    if all(exact(x) for x in case["weights"] + [case["capacity"]]):
        return [C, C, C]
    n = len(case["weights"])
    # knapsack_lossless_near_optimal: slack (n+1)*1e-9/scale, scale = min(100000/C, 1000) >= 1 iff C <= 100000;
    # plus the code's own +1e-9 re-check and the rounding of its float sums
    tol = Fraction(n + 2, 10**9) * max(1, C / 100000) + Fraction(n + 2, 2**50) * max(1, C)
    return [C, C + tol, max(Fraction(0), C - tol)]


def pack_caps(case):
    """[strict] or [strict, tolerant, shrunk] capacities"""
    C = frac(case["capacity"])
    if all(exact(x) for x in case["sizes"] + [case["capacity"]]) or C <= 0:
        return [C]
    n = len(case["sizes"])
    return [C, C * (1 + Fraction(n, 2**52)), C * (1 - Fraction(n, 2**52))]


def pack_readings(case):
    """(capacity, sizes) pairs the optimum is computed for; under the shrunk capacity an item that only fits a
    bin of its own within the tolerance is read as filling that bin exactly (it is alone in its bin anyway)"""
    S = [frac(x) for x in case["sizes"]]
    return [(c, [min(s, c) for s in S]) for c in pack_caps(case)]


def fallback_cap(case):
    """`remaining -= w` errs by <= 2^-53*capacity per pick"""
    C = frac(case["capacity"])
    if all(exact(x) for x in case["weights"] + [case["capacity"]]):
        return C
    return C * (1 + Fraction(len(case["weights"]), 2**52))


def to_request(case, out):
    if case["fn"] == "intcap":
        return ["intcap", [bits(x) for x in case["weights"]], bits(case["capacity"])]
    res = out[1] if out[0] == "ok" and out[1].get("shape") else None
    if case["fn"] == "fallback":
        return ["fallback", [rat(x) for x in case["weights"]], [rat(x) for x in case["values"]], fr(fallback_cap(case)),
                [bits(x) for x in case["weights"]], [bits(x) for x in case["values"]], bits(case["capacity"]),
                [isinstance(v, int) for v in present_values(case["values"], style_of(case, "values"))],
                bool(case["minimize"]), res["sol"] if res else None]
    if case["fn"] == "knapsack":
        return ["knap", [rat(x) for x in case["weights"]], [rat(x) for x in case["values"]],
                [fr(c) for c in knap_caps(case)],
                [bits(x) for x in case["weights"]], [bits(x) for x in case["values"]], bits(case["capacity"]),
                [isinstance(v, int) for v in present_values(case["weights"], style_of(case, "weights"))],
                [isinstance(v, int) for v in present_values(case["values"], style_of(case, "values"))],
                bool(case["minimize"]), res["sol"] if res else None, res["objective"] if res else None]
    k = None
    if res:
        o = core.unrat(res["objective"])
        k = int(o) if o.denominator == 1 and o >= 0 else None
    n = len(case["sizes"])
    algo = "best-fit-decreasing" if case["algorithm"] is None else case["algorithm"]
    rd = [[fr(c), [fr(x) for x in ss]] for c, ss in pack_readings(case)] if n <= 12 and pack_valid(case) else []
    return ["pack", [rat(x) for x in case["sizes"]], [fr(c) for c in pack_caps(case)[:2]],
            [bits(x) for x in case["sizes"]], bits(case["capacity"]), algo,
            res["sol"] if res and k is not None else None, k, rd, case.get("planted")]


# ---------------------------------------------------------------------------
# comparison
# ---------------------------------------------------------------------------

def knap_valid(case):
    return len(case["values"]) == 0 or (len(case["values"]) == len(case["weights"]) and case["capacity"][0] >= 0)


ALGOS = [a for v in SPELL.values() for a in v]


def pack_valid(case):
    if len(case["sizes"]) == 0:
        return True
    if case["algorithm"] not in ALGOS:
        return False
    c = frac(case["capacity"])
    return c > 0 and all(0 <= frac(s) <= c for s in case["sizes"])


def judge_knap(ctx, case, out, reply):
    fn = "solve_knapsack"
    rep = {"case": case, "impl": out, "model": reply}
    m_status, m_sel, m_objbits, m_fb, m_lossless, m_intcap, best_o, best_s, chk, dp = reply
    valid = knap_valid(case)
    n = len(case["values"])
    W = [frac(x) for x in case["weights"]]
    C, C_feas, C_opt = knap_caps(case)
    integer = all(x[1] == 1 for x in case["weights"]) and case["capacity"][1] == 1
    ctx.count("knap:" + ("malformed" if not valid else "integer" if integer else "exact_fraction" if C_feas == C
                         else "inexact"))
    ctx.count("knap:minimize" if case["minimize"] else "knap:maximize")
    if case.get("style"):
        ctx.count("present:values:" + style_of(case, "values"))
        ctx.count("present:weights:" + style_of(case, "weights"))
        if case["style"].get("alias"):
            ctx.count("present:values_is_weights_same_object")
    if len(case["values"]) > 20:
        ctx.count("large:knapsack")
    if case.get("boundary"):
        ctx.count("boundary:knapsack_constants")
    if case.get("edge"):
        ctx.count("edge:knapsack")
        if any(0 < frac(x) < Fraction(1, 10**5) for x in case["weights"]):
            ctx.count("edge:knapsack_weight_below_grid")
        if any(len(x) > 3 for x in case["weights"] + [case["capacity"]]):
            ctx.count("edge:knapsack_one_ulp_off")
    canon = ["k", case["values"], case["weights"], case["capacity"], case["minimize"]]
    if out[0] != "ok":
        kind = err_kind(out)
        ctx.count("knap:error:" + kind)
        if valid:
            ctx.fail(fn, "raises:" + kind, f"valid input raised/timed out: {out[1][:200]}", rep)
        elif (kind, m_status) != ("ValueError", "ValueError"):
            ctx.tdiv(fn, {"case": case, "impl": out, "mirror": m_status})
        ctx.case(canon, False)
        return
    r = out[1]
    ctx.count("knap:status:" + r["status"])
    if not valid:
        # no exception on a malformed call: nothing the property pins down, but the mirror must agree
        if m_status == "ValueError":
            ctx.tdiv(fn, {"case": case, "impl": r, "mirror": m_status})
        ctx.case(canon, False)
        return
    if not r["shape"]:
        ctx.fail(fn, "bad_solution_shape", f"solution is not a tuple of ints: {r['sol']}", rep)
        ctx.case(canon, False)
        return
    if r["status"] not in ("OPTIMAL", "FEASIBLE"):
        ctx.fail(fn, "bad_status", f"unexpected status {r['status']}", rep)
    feas, full, sel_w, sel_v = chk
    sel_w, sel_v = core.unrat(sel_w), core.unrat(sel_v)
    obj = core.unrat(r["objective"])
    if not feas:
        sol = r["sol"]
        if len(set(sol)) != len(sol) or any(i >= n for i in sol):
            ctx.fail(fn, "indices_not_distinct", f"selection {sol} has repeated or out-of-range indices "
                     "(verified checker chkSel)", rep)
        else:
            ctx.fail(fn, "over_capacity", f"selection {sol} weighs {sel_w} > capacity {C} (+ tolerance {C_feas - C}) "
                     "(verified checker chkSel)", rep)
    exact_vals = all(exact(x) for x in case["values"])
    if exact_vals:
        if feas and not full:
            ctx.fail(fn, "objective_mismatch", f"objective {obj} != sum of selected values {sel_v} "
                     "(verified checker chkKnapsack)", rep)
    elif abs(obj - sel_v) > Fraction(1, 10**9) * max(1, abs(sel_v)):
        ctx.fail(fn, "objective_mismatch", f"objective {float(obj)} differs from the sum of selected values {sel_v} "
                 "by more than 1e-9", rep)
    sign = -1 if case["minimize"] else 1
    if best_o is None or best_s is None:
        # more than 20 items: no 2^n enumeration; the optimum is the proved DP's (integer weights/capacity only)
        if n <= 20 or dp is None or C_feas != C:
            raise RuntimeError(f"no optimum available on a valid case: {case}")
        best_o = best_s = dp[1]
        ctx.count("knap:large_optimum_from_proved_dp")
    best_o, best_s = core.unrat(best_o), core.unrat(best_s)
    if dp is not None and core.unrat(dp[1]) != best_s:
        raise RuntimeError(f"proved DP value {dp[1]} != definitional optimum {best_s}: {case}")
    if feas and C_feas == C and sign * sel_v > best_s:
        raise RuntimeError(f"feasible selection better than the definitional optimum: {case}")
    vtol = 0 if exact_vals else Fraction(1, 10**9) * max(1, abs(best_o))
    if r["status"] == "OPTIMAL" and feas and sign * sel_v < best_o - vtol:
        if C == 0:
            k = "nonoptimal_optimal:zero_capacity"
        elif not integer:
            k = "nonoptimal_optimal:decimal_weights"
        else:
            k = "nonoptimal_optimal"
        ctx.fail(fn, k, f"status OPTIMAL with value {sel_v}, but a subset within capacity"
                 f"{'' if C_opt == C else ' (even shrunk by the tolerance)'} has value {sign * best_o}", rep)
    # R_trace: returned status, selection and objective equal to the Float mirror's
    if (r["status"], r["sol"], obj) != (m_status, m_sel, unbits(m_objbits)):
        ctx.tdiv(fn, {"case": case, "impl": r, "mirror": {"status": m_status, "sel": m_sel, "fallback": m_fb,
                                                          "objective": str(unbits(m_objbits))}})
    else:
        ctx.count("r_trace_agree")
    # ... and, where floats are exact (integer weights, dyadic values), to the proved rational DP itself
    if dp is not None and exact_vals and not m_fb:
        if dp[0] != r["sol"]:
            ctx.tdiv(fn, {"case": case, "impl": r, "rational_dp": dp})
        else:
            ctx.count("knap:proved_dp_selection_equal")
    if m_fb:
        ctx.count("knap:greedy_fallback")
    if not integer:
        ctx.count("knap:scaling_lossless" if m_lossless else "knap:scaling_lossy")
    nontrivial = n >= 2 and sum(W, Fraction(0)) > C and any(w <= C for w in W)
    ctx.case(canon, nontrivial, {"case": case, "impl": r, "mirror": [m_status, m_sel], "optimum": str(sign * best_s)})


def equal_size_runs(case):
    """coverage only (decides nothing): does the processing order contain a run of equal sizes, and does an item of
    such a run meet an EARLIER bin (than the one its predecessor went to) that still has room?  Exact simulation."""
    S = [frac(x) for x in case["sizes"]]
    C = frac(case["capacity"])
    ub, dec_ = case["flags"]
    order = sorted(range(len(S)), key=lambda i: -S[i]) if dec_ else list(range(len(S)))
    keys, bins, prev = set(), [], None
    for i in order:
        s = S[i]
        if s == 0:
            if not bins:
                bins.append(C)
            prev = None
            continue
        if prev is not None and prev[0] == s:
            keys.add("pack:equal_size_run")
            if any(bins[b] >= s for b in range(prev[1])):
                keys.add("pack:equal_size_run_with_room_in_earlier_bin")
        fit = [b for b in range(len(bins)) if bins[b] >= s]
        if not fit:
            bins.append(C)
            b = len(bins) - 1
        elif ub:
            b = min(fit, key=lambda j: (bins[j], j))
        else:
            b = fit[0]
        bins[b] -= s
        prev = (s, b)
    return sorted(keys)


def judge_pack(ctx, case, out, reply):
    fn = "solve_bin_pack"
    rep = {"case": case, "impl": out, "model": reply}
    (f_status, f_asg, f_k), (r_status, r_asg, r_k, r_chk), chk_impl, optw, lb, planted_ok = reply
    valid = pack_valid(case)
    n = len(case["sizes"])
    ub, dec_ = case["flags"]
    name = ("best" if ub else "first") + "-fit" + ("-decreasing" if dec_ else "")
    caps = pack_caps(case)
    ctx.count("pack:" + ("malformed" if not valid else name))
    if case.get("style"):
        ctx.count("present:sizes:" + style_of(case, "sizes"))
    if n > 60:
        ctx.count("large:binpack")
    if case.get("edge"):
        ctx.count("edge:binpack")
    canon = ["p", case["sizes"], case["capacity"], case["algorithm"]]
    if out[0] != "ok":
        kind = err_kind(out)
        ctx.count("pack:error:" + kind)
        if valid:
            ctx.fail(fn, "raises:" + kind, f"valid input raised/timed out: {out[1][:200]}", rep)
        elif (kind, f_status) != ("ValueError", "ValueError"):
            ctx.tdiv(fn, {"case": case, "impl": out, "mirror": f_status})
        ctx.case(canon, False)
        return
    r = out[1]
    ctx.count("pack:status:" + r["status"])
    if not valid:
        ctx.tdiv(fn, {"case": case, "impl": r, "mirror": f_status})  # malformed call accepted
        ctx.case(canon, False)
        return
    if r_status == "ValueError" or (n and not r_chk):
        raise RuntimeError(f"rational packing model fails its own verified checker on a valid case: {case}")
    ctx.count("pack:exact_inputs" if len(caps) == 1 else "pack:inexact_inputs")
    opt_lo = opt_hi = None
    if optw:
        opts = []
        for (o_w, w_ok, o_p), c in zip(optw, caps):
            if not w_ok:
                raise RuntimeError(f"oracle packing rejected by the verified checker: {case} {optw}")
            if o_w != o_p:
                raise RuntimeError(f"certified upper bound {o_w} != proved lower bound {o_p} on OPT: {case}")
            opts.append(o_w)
        opt_lo, opt_hi = min(opts), max(opts)   # tolerant capacity gives the least, shrunk the largest
        ctx.count("pack:optimum_certified")
        if opt_lo != opt_hi:
            ctx.count("pack:optimum_depends_on_tolerance")
    if case.get("planted") is not None:
        # a packing known by construction, accepted by the verified checker: OPT <= its bin count (sound for alarms)
        if not planted_ok:
            raise RuntimeError(f"planted packing rejected by the verified checker: {case}")
        kp = case["planted"][1]
        ctx.count("pack:planted_packing")
        if kp == lb:
            ctx.count("pack:planted_is_optimal")
        if opt_hi is None:
            opt_lo, opt_hi = lb, kp
        elif kp < opt_lo:
            raise RuntimeError(f"planted packing with {kp} bins below the certified optimum {opt_lo}: {case}")
    for key in equal_size_runs(case):
        ctx.count(key)
    if not r["shape"]:
        ctx.fail(fn, "bad_solution_shape", f"solution is not a tuple of non-negative ints: {r['sol']}", rep)
        ctx.case(canon, False)
        return
    if r["status"] not in ("OPTIMAL", "FEASIBLE"):
        ctx.fail(fn, "bad_status", f"unexpected status {r['status']}", rep)
    obj = core.unrat(r["objective"])
    if obj.denominator != 1 or obj < 0:
        ctx.fail(fn, "objective_not_bin_count", f"objective {obj} is not a bin count", rep)
        ctx.case(canon, False)
        return
    k = int(obj)
    asg = r["sol"]
    if not chk_impl:
        S = [frac(x) for x in case["sizes"]]
        C = caps[1] if len(caps) > 1 else caps[0]
        if len(asg) != n:
            what, kl = f"{len(asg)} assignments for {n} items", "item_not_assigned_once"
        elif sorted(set(asg)) != list(range(k)):
            what, kl = f"bins used {sorted(set(asg))} are not 0..{k - 1} (objective {k})", "bins_not_0_to_k"
        else:
            loads = [sum((S[i] for i in range(n) if asg[i] == b), Fraction(0)) for b in range(k)]
            what, kl = f"bin loads {[str(x) for x in loads]} exceed capacity {C} (tolerance included)", "over_capacity"
        ctx.fail(fn, kl, what + " (verified checker chkPack)", rep)
    else:
        ctx.count("cert_checked_impl")
        if k < lb:
            raise RuntimeError(f"checker accepted k={k} below ceil(sum/cap)={lb}: {case}")
        if opt_lo is not None:
            if k < opt_lo:
                raise RuntimeError(f"checker accepted k={k} below the certified optimum {opt_lo}: {case}")
            if r["status"] == "OPTIMAL" and k > opt_hi:
                ctx.fail(fn, "optimal_not_minimal", f"status OPTIMAL with {k} bins, {opt_hi} suffice", rep)
            if dec_ and 9 * k > 11 * opt_hi + 6:
                ctx.fail(fn, "bound_11_9_exceeded", f"{name} used {k} bins, a verified packing uses {opt_hi}"
                         f"{'' if opt_lo == opt_hi else ' (capacity shrunk by the float tolerance)'}: "
                         "above 11/9*OPT + 6/9", rep)
        elif r["status"] == "OPTIMAL" and k > max(1, lb):
            # no optimum computed for this size: OPTIMAL must at least meet the code's own rule
            ctx.fail(fn, "optimal_not_minimal", f"status OPTIMAL with {k} bins, lower bound {lb}", rep)
    # R_trace: status, assignment, bin count equal to the Float mirror's
    if (r["status"], asg, k) != (f_status, f_asg, f_k):
        ctx.tdiv(fn, {"case": case, "impl": r, "mirror": {"status": f_status, "asg": f_asg, "k": f_k}})
    else:
        ctx.count("r_trace_agree")
    # ... and, where floats are exact (integers, k/4), to the rational model binpack_valid talks about
    if len(caps) == 1:
        if (r["status"], asg, k) != (r_status, r_asg, r_k):
            ctx.tdiv(fn, {"case": case, "impl": r, "rational_mirror": [r_status, r_asg, r_k]})
        else:
            ctx.count("pack:proved_model_equal")
    if (f_asg, f_k) != (r_asg, r_k):
        ctx.count("pack:float_vs_rational_mirror_differ")
    ctx.case(canon, n >= 3 and f_k >= 2, {"case": case, "impl": r, "mirror": [f_status, f_asg, f_k], "optimum": opt_hi})


def judge_fallback(ctx, case, out, reply):
    """`_greedy_fallback` called directly (the branch of solve_knapsack taken when scaling overpacks)"""
    fn = "_greedy_fallback"
    rep = {"case": case, "impl": out, "model": reply}
    m_sel, m_objbits, chk = reply
    canon = ["f", case["values"], case["weights"], case["capacity"], case["minimize"]]
    if out[0] == "ok" and out[1].get("unavailable"):
        ctx.count("fallback:unavailable")
        return
    ctx.count("fallback:cases")
    if out[0] != "ok":
        ctx.fail(fn, "raises:" + err_kind(out), f"valid input raised/timed out: {out[1][:200]}", rep)
        ctx.case(canon, False)
        return
    r = out[1]
    if not r["shape"]:
        ctx.fail(fn, "bad_solution_shape", f"solution is not a tuple of ints: {r['sol']}", rep)
        ctx.case(canon, False)
        return
    feas, sel_w, sel_v = chk
    sel_w, sel_v = core.unrat(sel_w), core.unrat(sel_v)
    n = len(case["values"])
    if not feas:
        sol = r["sol"]
        if len(set(sol)) != len(sol) or any(i >= n for i in sol):
            ctx.fail(fn, "indices_not_distinct", f"selection {sol} has repeated or out-of-range indices", rep)
        else:
            ctx.fail(fn, "over_capacity", f"selection {sol} weighs {sel_w} > capacity {frac(case['capacity'])} "
                     "(float tolerance included; verified checker chkSel)", rep)
    obj = core.unrat(r["objective"])
    if all(exact(x) for x in case["values"]):
        if obj != sel_v:
            ctx.fail(fn, "objective_mismatch", f"objective {obj} != sum of selected values {sel_v}", rep)
    elif abs(obj - sel_v) > Fraction(1, 10**9) * max(1, abs(sel_v)):
        ctx.fail(fn, "objective_mismatch", f"objective {float(obj)} differs from {sel_v} by more than 1e-9", rep)
    if (r["status"], r["sol"], obj) != ("FEASIBLE", m_sel, unbits(m_objbits)):
        ctx.tdiv(fn, {"case": case, "impl": r, "mirror": {"sel": m_sel, "objective": str(unbits(m_objbits))}})
    else:
        ctx.count("r_trace_agree")
    W = [frac(x) for x in case["weights"]]
    ctx.case(canon, n >= 2 and sum(W, Fraction(0)) > frac(case["capacity"]), None)


def judge_intcap(ctx, case, out, reply):
    """`_to_int_capacity` / `_scaled`: pure float code, R_trace only"""
    fn = "_to_int_capacity"
    if out[0] == "ok" and out[1].get("unavailable"):
        ctx.count("intcap:unavailable")
        return
    ctx.count("intcap:cases")
    if out[0] != "ok":
        ctx.tdiv(fn, {"case": case, "impl": out, "mirror": reply})
        return
    r = out[1]
    m_ic, m_scale, m_scaled = reply
    if (r["int_cap"], r["scale"], [[a, bool(b)] for a, b in r["scaled"]]) != (m_ic, m_scale, m_scaled):
        ctx.tdiv(fn, {"case": case, "impl": r, "mirror": reply})
    else:
        ctx.count("r_trace_agree")
    ctx.case(["i", case["weights"], case["capacity"]], False)


JUDGES = {"knapsack": judge_knap, "binpack": judge_pack, "fallback": judge_fallback, "intcap": judge_intcap}


def judge(ctx, case, out, reply):
    JUDGES[case["fn"]](ctx, case, out, reply)


def evaluate(cases):
    """[(out, reply)] per case; for a history case a list of (out, reply), one per step"""
    outs = run_pool(impl, cases, timeout=60.0)
    flat, reqs = [], []
    for c, o in zip(cases, outs):
        if c["fn"] == "history":
            steps = c["steps"]
            so = o[1] if o[0] == "ok" else [o] * len(steps)   # the whole worker died / timed out
            for st, x in zip(steps, so):
                x = tuple(x)
                flat.append((c, x))
                reqs.append(to_request(st, x))
        else:
            flat.append((c, o))
            reqs.append(to_request(c, o))
    replies = Driver("Pack").run(reqs, chunks=16)
    for (c, _), rp in zip(flat, replies):
        if rp and rp[0] == "error":
            raise RuntimeError(f"model rejected request: {rp} for {c}")
    res, k = [], 0
    for c in cases:
        if c["fn"] == "history":
            m = len(c["steps"])
            res.append([(flat[k + j][1], replies[k + j]) for j in range(m)])
            k += m
        else:
            res.append((flat[k][1], replies[k]))
            k += 1
    return res


# ---------------------------------------------------------------------------
# shrinking: a violation is reported on the smallest case (fewest items, simplest numbers) that
# still fails the same clause of the same function
# ---------------------------------------------------------------------------

class Collect:
    """stands in for ctx: records failures instead of reporting them"""

    def __init__(self, ctx=None):
        self.ctx = ctx
        self.fails = []

    def fail(self, fn, klass, what, rep):
        self.fails.append((fn, klass, what, rep))

    def tdiv(self, *a):
        if self.ctx:
            self.ctx.tdiv(*a)

    def count(self, *a):
        if self.ctx:
            self.ctx.count(*a)

    def case(self, *a):
        if self.ctx:
            self.ctx.case(*a)


def smaller(case):
    """candidate simplifications, most drastic first"""
    out = []
    if case["fn"] in ("intcap", "history"):
        return out
    if case["fn"] in ("knapsack", "fallback"):
        n = min(len(case["values"]), len(case["weights"]))
        if len(case["values"]) == len(case["weights"]):
            for i in range(n):
                c = copy.deepcopy(case)
                del c["values"][i], c["weights"][i]
                out.append(c)
        for key in ("values", "weights"):
            for i, x in enumerate(case[key]):
                for y in ([0, 1, False], [1, 1, False], [x[0] // 2, x[1], x[2]], [x[0] // x[1], 1, False]):
                    if y != x and dec(y) <= dec(x):
                        c = copy.deepcopy(case)
                        c[key][i] = y
                        out.append(c)
        x = case["capacity"]
        for y in ([x[0] // 2, x[1], x[2]], [x[0] // x[1], 1, False], [x[0] - 1, x[1], x[2]]):
            if y != x and 0 <= dec(y) <= dec(x):
                c = copy.deepcopy(case)
                c["capacity"] = y
                out.append(c)
        if case["minimize"]:
            c = copy.deepcopy(case)
            c["minimize"] = False
            out.append(c)
    else:
        for i in range(len(case["sizes"])):
            c = copy.deepcopy(case)
            del c["sizes"][i]
            if c.get("planted") is not None:   # the planted packing restricted to the remaining items (bins may go
                asg = list(c["planted"][0])    # unused: renumber)
                del asg[i]
                ren = {b: j for j, b in enumerate(sorted(set(asg)))}
                c["planted"] = [[ren[b] for b in asg], len(ren)]
            out.append(c)
        for i, x in enumerate(case["sizes"]):
            for y in ([0, x[1], x[2]], [x[0] // 2, x[1], x[2]], [x[0] - 1, x[1], x[2]]):
                if y != x and 0 <= y[0]:
                    c = copy.deepcopy(case)
                    c["sizes"][i] = y          # smaller size: a planted packing stays valid
                    out.append(c)
    return out


def shrink(case, fn, klass, rounds=60):
    cur, best = case, None
    for _ in range(rounds):
        cands = smaller(cur)
        if not cands:
            break
        hit = None
        for c, (o, rp) in zip(cands, evaluate(cands)):
            p = Collect()
            judge(p, c, o, rp)
            f = [x for x in p.fails if (x[0], x[1]) == (fn, klass)]
            if f:
                hit = (c, f[0])
                break
        if hit is None:
            break
        cur, best = hit[0], hit[1]
    return cur, best


def fails_alone(step, fn, klass):
    """does the step fail the same clause when it is the only call of a fresh process?"""
    (o, rp), = evaluate([step])
    p = Collect()
    judge(p, step, o, rp)
    return any((x[0], x[1]) == (fn, klass) for x in p.fails)


def run_cases(ctx, cases, do_shrink=True):
    col = Collect(ctx)
    hist_fails = []
    for c, res in zip(cases, evaluate(cases)):
        if c["fn"] == "history":
            ctx.count("history:calls", len(c["steps"]))
            ctx.count("history:" + c.get("kind", "mixed"))
            for i, (st, (o, rp)) in enumerate(zip(c["steps"], res)):
                hc = Collect(ctx)
                judge(hc, st, o, rp)
                for fn, klass, what, rep in hc.fails:
                    hist_fails.append((fn, klass, what, {"case": c, "step": i, "impl": rep["impl"], "model": rep["model"]},
                                       st))
        else:
            judge(col, c, *res)
    for fn, klass, what, rep, st in hist_fails[:6]:
        # each call of a history is judged on its own input; a failure that does not occur when the same input is the
        # only call of a fresh process is caused by the earlier calls (stale cache, left-over state, shared objects)
        if not fails_alone(st, fn, klass):
            klass += ":after_previous_call"
            what = f"call {rep['step'] + 1} of {len(rep['case']['steps'])} in one process: " + what
        ctx.fail(fn, klass, what, rep)
    for fn, klass, what, rep, st in hist_fails[6:]:
        ctx.fail(fn, klass, what, rep)
    budget = 4  # shrink the first few distinct (function, class) pairs only
    seen = set()
    for fn, klass, what, rep in col.fails:
        if do_shrink and (fn, klass) not in seen and budget > 0 and ctx.known_match(fn, klass) is None \
                and not klass.startswith("raises:Timeout"):
            seen.add((fn, klass))
            budget -= 1
            if not fails_alone(rep["case"], fn, klass):
                # the worker had served other cases before: state left behind by an earlier call
                ctx.fail(fn, klass + ":after_previous_call", "after earlier calls in the same process: " + what, rep)
                continue
            small, f = shrink(rep["case"], fn, klass)
            if f is not None:
                what, rep = f[2], dict(f[3], original_case=rep["case"])
        ctx.fail(fn, klass, what, rep)


MISSING = ["ffd_11_9_bound: the 11/9*OPT+6/9 guarantee of the decreasing heuristics (Dosa) is not attempted in Lean; "
           "checked per instance against the certified optimum",
           "the Float instance of the front end of solve_knapsack is tied by R_trace, its Rat instance is the theorem "
           "subject (knapsack_lossless_optimal, knapsack_mirror_feasible)"]


def run(ctx, budget):
    ctx.cov["rule"] = RULE
    ctx.cov["missing_theorems"] = MISSING
    cases = list(edge_cases()) + [c["case"] for c in core.load_corpus("C16")]
    n = 1200 * budget
    big = ctx.tier == "thorough"
    for i in range(n):
        k = add_style(ctx.rng, gen_knap(ctx.rng, big and i % 4 == 0))
        cases.append(k)
        cases.append(add_style(ctx.rng, gen_pack(ctx.rng, big and i % 4 == 0)))
        if i % 6 == 0:
            cases.append(add_style(ctx.rng, gen_pack_few(ctx.rng, big)))
        if i % 12 == 1:
            cases.append(add_style(ctx.rng, gen_pack_adversarial(ctx.rng, big)))
        if i % 5 == 2:
            cases.append(gen_history(ctx.rng, big))
        if i % 16 == 3:
            cases.append(add_style(ctx.rng, gen_knap_edge(ctx.rng, big)))
        if i % 150 == 11:
            cases.append(gen_knap_boundary(ctx.rng, big))
        if i % 24 == 5:
            cases.append(add_style(ctx.rng, gen_pack_edge(ctx.rng, big)))
        if i % 60 == 7:
            cases.append(gen_large(ctx.rng, big))
        if i % 3 == 0 and knap_valid(k) and k["values"]:   # the helpers named in the property's anchors, directly
            cases.append(dict(k, fn="fallback"))
            cases.append({"fn": "intcap", "weights": k["weights"], "capacity": k["capacity"], "style": k.get("style")})
    run_cases(ctx, cases)


def replay(ctx, body):
    ctx.cov["rule"] = RULE
    ctx.cov["missing_theorems"] = MISSING
    run_cases(ctx, [body["case"]], do_shrink=False)
