"""Core plumbing shared by every property check (see DESIGN.md §2).

Nothing in here decides a property: it builds the Lean project, audits the
axioms of the property theorems, drives the compiled model drivers through the
line protocol, runs the real implementation in worker processes under a
wall-clock limit, matches failures against known_findings.json, and writes
evidence and replay files.
"""
from __future__ import annotations

import hashlib
import json
import os
import random
import re
import subprocess
import sys
import time
from fractions import Fraction
from pathlib import Path

VERIF = Path(__file__).resolve().parent.parent
LEAN = VERIF / "lean"
REPO = Path(os.environ.get("SOLVOR_REPO", "/repo"))
# developer aid: mutation experiments redirect evidence/replays so that committed evidence only ever
# comes from runs against the unchanged /repo
EVIDENCE = Path(os.environ.get("VERIF_EVIDENCE_DIR") or (VERIF / "evidence"))
REPLAYS = Path(os.environ.get("VERIF_REPLAYS_DIR") or (VERIF / "replays"))
CORPUS = VERIF / "corpus"
ALLOWED_AXIOMS = {"propext", "Classical.choice", "Quot.sound"}
FORBIDDEN = re.compile(
    r"\b(sorry|admit|native_decide|bv_decide|implemented_by|unsafe)\b|^\s*axiom\s|maxHeartbeats\s+0\b",
    re.M,
)

TRUSTED_BASE = [
    "Lean 4.33 kernel; axioms limited to propext, Classical.choice, Quot.sound (audited this run)",
    "Lean compiler/runtime for evaluating the executable models and checkers in the driver",
    "hand translation Python -> Lean model, tied to /repo by the per-run correspondence check (sampled)",
    "harness: generators, canonicalisers, exact float->rational conversion, process isolation and timeouts",
    "CPython dict/set/heapq/deque/sorted semantics as modelled (insertion order, stable sort, least-key pop)",
]


class Infra(Exception):
    """Infrastructure failure (exit 2) – never a property verdict."""


# ----------------------------------------------------------------------------
# Lean side
# ----------------------------------------------------------------------------

def sh(cmd, cwd=None, timeout=3600, input=None):
    p = subprocess.run(cmd, cwd=cwd, capture_output=True, text=True, timeout=timeout, input=input)
    return p.returncode, p.stdout, p.stderr


_BUILD_CACHE: dict[tuple, tuple] = {}


def lake_build(targets: list[str]) -> tuple[bool, str]:
    """`lake build <targets>` in /verif/lean.  Returns (ok, log)."""
    key = tuple(targets)
    if key in _BUILD_CACHE:
        return _BUILD_CACHE[key]
    rc, out, err = sh(["lake", "build", *targets], cwd=LEAN, timeout=3 * 3600)
    res = (rc == 0, out + err)
    _BUILD_CACHE[key] = res
    return res


def strip_comments(src: str) -> str:
    """Remove Lean block comments (nested) and line comments."""
    out, i, depth, n = [], 0, 0, len(src)
    while i < n:
        if src.startswith("/-", i):
            depth += 1
            i += 2
        elif depth and src.startswith("-/", i):
            depth -= 1
            i += 2
        elif depth:
            if src[i] == "\n":
                out.append("\n")
            i += 1
        elif src.startswith("--", i):
            while i < n and src[i] != "\n":
                i += 1
        else:
            out.append(src[i])
            i += 1
    return "".join(out)


def grep_forbidden(area_dirs: list[str]) -> list[str]:
    hits = []
    for d in area_dirs:
        for f in sorted((LEAN / "Solvor" / d).glob("*.lean")):
            txt = strip_comments(f.read_text())
            for m in FORBIDDEN.finditer(txt):
                if f.name in ("Main.lean", "Drive.lean") and m.group(0).strip() == "unsafe":
                    continue
                line = txt.count("\n", 0, m.start()) + 1
                hits.append(f"{f.relative_to(LEAN)}:{line}:{m.group(0).strip()}")
    return hits


def audit(prop: str) -> dict:
    """Run Solvor/Audit/<prop>.lean (`#print axioms` for each property theorem).

    Returns {"theorems": {name: [axioms]}, "bad": [...], "log": str}.
    """
    f = LEAN / "Solvor" / "Audit" / f"{prop}.lean"
    if not f.exists():
        return {"theorems": {}, "bad": [f"missing {f}"], "log": ""}
    wanted = re.findall(r"^#print axioms\s+(\S+)", f.read_text(), re.M)
    rc, out, err = sh(["lake", "env", "lean", str(f.relative_to(LEAN))], cwd=LEAN, timeout=1800)
    log = out + err
    thms: dict[str, list[str]] = {}
    for m in re.finditer(r"'([^']+)' depends on axioms: \[([^\]]*)\]", log, re.S):
        thms[m.group(1)] = [a.strip() for a in m.group(2).replace("\n", " ").split(",") if a.strip()]
    for m in re.finditer(r"'([^']+)' does not depend on any axioms", log):
        thms[m.group(1)] = []
    bad = []
    if rc != 0:
        bad.append(f"audit file failed to elaborate (rc={rc})")
    for w in wanted:
        if w not in thms:
            bad.append(f"theorem {w} missing from audit output")
    for t, ax in thms.items():
        extra = [a for a in ax if a not in ALLOWED_AXIOMS]
        if extra:
            bad.append(f"theorem {t} depends on non-standard axioms {extra}")
    return {"theorems": thms, "bad": bad, "log": log, "wanted": wanted}


def _die_with_parent():
    """PR_SET_PDEATHSIG: a driver must not outlive a harness process that was killed (orphaned model
    drivers spinning for hours were observed when a check was interrupted)."""
    try:
        import ctypes
        import signal
        ctypes.CDLL("libc.so.6", use_errno=True).prctl(1, signal.SIGKILL)
    except Exception:
        pass


class Driver:
    """One compiled (or interpreted) model driver; batch mode: lines in, lines out."""

    def __init__(self, area: str, interp: bool = False):
        self.area = area
        self.interp = interp

    def cmd(self):
        if self.interp:
            return ["lake", "env", "lean", "--run", f"Solvor/{self.area}/Main.lean"]
        return [str(LEAN / ".lake" / "build" / "bin" / f"drv_{self.area.lower()}")]

    def run(self, requests: list, timeout=3600, chunks: int = 0) -> list:
        """Send each request (JSON-serialisable list) on one line; return parsed replies.

        With chunks > 1 the batch is split over that many driver processes.
        """
        if not requests:
            return []
        lines = [json.dumps(r, separators=(",", ":")) for r in requests]
        nchunks = max(1, min(chunks or 1, len(lines)))
        size = (len(lines) + nchunks - 1) // nchunks
        procs = []
        for k in range(nchunks):
            part = lines[k * size:(k + 1) * size]
            if not part:
                continue
            p = subprocess.Popen(self.cmd(), cwd=LEAN, stdin=subprocess.PIPE, stdout=subprocess.PIPE,
                                 stderr=subprocess.PIPE, text=True, preexec_fn=_die_with_parent)
            procs.append((p, part))
        # feed all, then collect (communicate handles the pipes per process; run sequentially
        # per process but processes themselves run concurrently because stdin is written first
        # via threads)
        import threading

        results: list = [None] * len(procs)

        def work(i, p, part):
            try:
                out, err = p.communicate("\n".join(part) + "\n", timeout=timeout)
                results[i] = (p.returncode, out, err)
            except subprocess.TimeoutExpired:
                p.kill()
                results[i] = (-9, "", "driver timeout")

        ths = [threading.Thread(target=work, args=(i, p, part)) for i, (p, part) in enumerate(procs)]
        for t in ths:
            t.start()
        for t in ths:
            t.join()
        replies = []
        for (rc, out, err), (_, part) in zip(results, procs):
            outl = out.splitlines()
            if rc != 0 or len(outl) != len(part):
                raise Infra(f"driver {self.area} failed rc={rc} got {len(outl)} of {len(part)} lines: {err[-2000:]}")
            for ln in outl:
                try:
                    replies.append(json.loads(ln))
                except json.JSONDecodeError:
                    raise Infra(f"driver {self.area} produced unparsable line: {ln[:300]}")
        return replies


# ----------------------------------------------------------------------------
# numbers
# ----------------------------------------------------------------------------

def frac(x) -> Fraction:
    """Exact rational value of an int/float/Fraction (never rounds)."""
    if isinstance(x, Fraction):
        return x
    if isinstance(x, bool):
        return Fraction(int(x))
    if isinstance(x, int):
        return Fraction(x)
    if isinstance(x, float):
        if x != x or x in (float("inf"), float("-inf")):
            raise ValueError("non-finite float")
        return Fraction(x)
    raise TypeError(type(x))


def rat(x):
    """Protocol encoding of a rational: [num, den]."""
    f = frac(x)
    return [f.numerator, f.denominator]


def unrat(v) -> Fraction:
    if isinstance(v, int):
        return Fraction(v)
    return Fraction(v[0], v[1])


def fbits(x: float) -> int:
    import struct
    return struct.unpack("<Q", struct.pack("<d", x))[0]


# ----------------------------------------------------------------------------
# context: evidence, violations, known findings
# ----------------------------------------------------------------------------

class Ctx:
    def __init__(self, prop: str, tier: str, seed: int, areas: list[str]):
        self.prop = prop
        self.tier = tier
        self.seed = seed
        self.areas = areas
        self.rng = random.Random((seed * 1000003) ^ int(hashlib.sha256(prop.encode()).hexdigest()[:8], 16))
        self.t0 = time.time()
        self.violations: list[dict] = []
        self.known_hits: list[str] = []
        self.cov: dict = {
            "evaluations": 0,
            "distinct_nontrivial": 0,
            "rule": "",
            "samples": [],
            "histogram": {},
        }
        self._distinct: set = set()
        self.assumptions: list[str] = []
        self.level = "proof"
        self.notes: list[str] = []
        kf = VERIF / "known_findings.json"
        self.known = [k for k in json.loads(kf.read_text())["findings"] if k.get("property") == prop] if kf.exists() else []
        extra = os.environ.get("SOLVOR_KNOWN")  # developer aid: test proposed findings before they are merged
        if extra and Path(extra).exists():
            ex = json.loads(Path(extra).read_text())
            self.known += [k for k in (ex["findings"] if isinstance(ex, dict) else ex) if k.get("property") == prop]
        self.budget_scale = {"quick": 1, "thorough": 12}[tier]
        self.trace_div: list[dict] = []

    def tdiv(self, function: str, detail: dict):
        """Record an R_trace divergence: the mirror model's returned value differs from the
        implementation's although every observable the property pins down agreed."""
        self.count(f"r_trace_divergence:{function}")
        if len(self.trace_div) < 50:
            self.trace_div.append({"function": function, "detail": detail})

    # -- coverage accounting -------------------------------------------------
    def count(self, key: str, n: int = 1):
        h = self.cov["histogram"]
        h[key] = h.get(key, 0) + n

    def case(self, canon, nontrivial: bool, sample=None):
        """Record one explored case; `canon` is any JSON-serialisable canonical form."""
        self.cov["evaluations"] += 1
        if nontrivial:
            k = hashlib.sha1(json.dumps(canon, sort_keys=True, default=str).encode()).digest()
            if k not in self._distinct:
                self._distinct.add(k)
                self.cov["distinct_nontrivial"] = len(self._distinct)
                if sample is not None and len(self.cov["samples"]) < 5:
                    self.cov["samples"].append(sample)

    # -- known findings & violations ------------------------------------------
    def known_match(self, function: str, klass: str):
        for k in self.known:
            if k.get("status", "open") != "open":
                continue
            if k.get("function") == function and k.get("class") == klass:
                return k
        return None

    def fail(self, function: str, klass: str, what: str, replay: dict, no_input: bool = False):
        """Report a failed clause.  `klass` is the decidable class predicate name that the
        failing (input, outcome) pair satisfies; only a failure whose (function, class) is
        listed open in known_findings.json is downgraded to KNOWN-FINDING."""
        k = self.known_match(function, klass)
        if k is not None and not no_input:
            msg = f"{function}: {k.get('summary', klass)}"
            if msg not in self.known_hits:
                self.known_hits.append(msg)
            self.count(f"known_finding:{function}:{klass}")
            return False
        if len(self.violations) >= 5:
            self.count("violations_not_written")
            return True
        REPLAYS.mkdir(parents=True, exist_ok=True)
        body = {"property": self.prop, "function": function, "class": klass, "what": what,
                "seed": self.seed, "tier": self.tier, "no_failing_input_found": no_input, **replay}
        h = hashlib.sha1(json.dumps(body, sort_keys=True, default=str).encode()).hexdigest()[:10]
        path = REPLAYS / f"{self.prop}_{function}_{h}.json"
        path.write_text(json.dumps(body, indent=1, default=str))
        try:
            shown = str(path.relative_to(VERIF))
        except ValueError:
            shown = str(path)
        self.violations.append({"path": shown, "no_input": no_input, "what": what,
                                "function": function, "class": klass})
        return True

    # -- finish --------------------------------------------------------------
    def finish(self, obligations: dict | None, extra_cov: dict | None = None) -> int:
        cov = self.cov
        if extra_cov:
            cov.update(extra_cov)
        if obligations is not None:
            cov["obligations"] = len(obligations.get("wanted", []))
            cov["discharged"] = len([t for t in obligations.get("wanted", []) if t in obligations["theorems"]
                                     and set(obligations["theorems"][t]) <= ALLOWED_AXIOMS])
            cov["theorems"] = {t: obligations["theorems"].get(t) for t in obligations.get("wanted", [])}
            cov["checker_cmd"] = f"cd /verif/lean && lake build Solvor && lake env lean Solvor/Audit/{self.prop}.lean"
        cov["trusted_base"] = TRUSTED_BASE + self.assumptions
        cov["known_findings_hit"] = self.known_hits
        cov["notes"] = self.notes
        level = self.level
        if level == "proof" and (not cov.get("obligations") or cov.get("obligations") != cov.get("discharged")):
            level = "other"
            cov["explanation"] = "proof obligations not fully discharged this run; see notes"
        if level == "other" and "explanation" not in cov:
            cov["explanation"] = "; ".join(self.notes) or "see DESIGN.md"
        ev = {
            "property_id": self.prop,
            "tier": self.tier,
            "seed": self.seed,
            "level": level,
            "coverage": cov,
            "assumptions": self.assumptions,
            "wall_s": round(time.time() - self.t0, 2),
            "violations": len(self.violations),
        }
        EVIDENCE.mkdir(parents=True, exist_ok=True)
        (EVIDENCE / f"{self.prop}.json").write_text(json.dumps(ev, indent=1, default=str))
        for m in self.known_hits:
            print(f"KNOWN-FINDING: property={self.prop} {m}")
        for v in self.violations:
            tail = " no-failing-input-found" if v["no_input"] else ""
            print(f"VIOLATION property={self.prop} replay={v['path']}{tail}")
        sys.stdout.flush()
        return 1 if self.violations else 0


def load_corpus(prop: str) -> list[dict]:
    d = CORPUS / prop
    if not d.is_dir():
        return []
    out = []
    for f in sorted(d.glob("*.json")):
        try:
            out.append(json.loads(f.read_text()))
        except Exception as e:  # a broken corpus file is an infrastructure problem
            raise Infra(f"corpus file {f}: {e}")
    return out
