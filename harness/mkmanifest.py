"""Writes /verif/MANIFEST.json from the per-property table in manifest_table.py (kept valid at all times)."""
import json
import sys
from pathlib import Path

sys.path.insert(0, str(Path(__file__).resolve().parent))
from manifest_table import CHECKS, NOT_APPLICABLE  # noqa: E402

V = Path(__file__).resolve().parent.parent
PROP_AREA = {"C01": "Sat", "C02": "Sat", "C03": "Lp", "C04": "Lp", "C05": "Cp", "C06": "Cp", "C07": "Dlx",
             "C08": "Flow", "C09": "Flow", "C10": "Assign", "C11": "Path", "C12": "Backend", "C13": "Mst",
             "C14": "Graph", "C15": "Net", "C16": "Pack", "C17": "Cut", "C18": "Sched", "C19": "Search", "C20": "Ds"}
INTERP = {"Ds"}
_areas = sorted({PROP_AREA[c["property_id"]] for c in CHECKS})
_targets = []
for a in _areas:
    _targets += [f"Solvor.{a}.Theorems", f"Solvor.{a}.Drive"] + ([] if a in INTERP else [f"drv_{a.lower()}"])
m = {
    "version": 1,
    "setup_cmd": "/venv/bin/python harness/kernels.py && cd lean && lake build " + " ".join(_targets),
    "hooks": {
        "guard": "SOLVOR_VERIF",
        "enable": "none needed: every observable is reached through the public API, public callbacks or by "
                  "wrapping solve_sat from the harness; SOLVOR_VERIF=1 is set by ./check but no source hook reads it",
        "baseline_off_cmd": "cd /repo && /venv/bin/python -m pytest -ra -q -p no:cacheprovider --timeout=900 "
                            "--continue-on-collection-errors",
        "source_commits": [],
        "add_only": True,
    },
    "engines": [
        {"name": "lean-proof", "path": "lean/", "serves_properties": [c["property_id"] for c in CHECKS],
         "kind_free_text": "Lean 4 models + property theorems (lake project Solvor), axiom audit per run"},
        {"name": "correspondence", "path": "harness/", "serves_properties": [c["property_id"] for c in CHECKS],
         "kind_free_text": "Python harness: seeded generators, real implementation in worker processes, compiled Lean "
                           "model drivers over a line protocol, verified checkers on the implementation's outputs"},
    ],
    "checks": [],
    "notes": "See DESIGN.md. ./check Cxx --tier quick|thorough [--replay file]; VERIF_SEED honoured; exit 2 = "
             "infrastructure failure.",
    "not_applicable": NOT_APPLICABLE,
}
for c in CHECKS:
    pid = c["property_id"]
    m["checks"].append({
        "property_id": pid,
        "quick_cmd": f"./check {pid} --tier quick",
        "thorough_cmd": f"./check {pid} --tier thorough",
        "evidence_file": f"evidence/{pid}.json",
        "replay_cmd_template": f"./check {pid} --replay {{path}}",
        "engine": "lean-proof+correspondence",
        "level_claimed": {"category": c["category"], "text": c["text"], "design_ref": c.get("design_ref", "DESIGN.md §4 " + pid)},
        "level_note": c["note"],
        "technique": c["technique"],
    })
(V / "MANIFEST.json").write_text(json.dumps(m, indent=1))
try:
    import jsonschema
    jsonschema.validate(m, json.loads(Path("/root/.vp/MANIFEST.schema.json").read_text()))
    print("MANIFEST.json valid;", len(CHECKS), "checks,", len(NOT_APPLICABLE), "not_applicable")
except ImportError:
    print("MANIFEST.json written (jsonschema not available for validation)")
