"""Entry point: ./check Cxx [--tier quick|thorough] [--replay file]

Exit 0: property held on everything explored (KNOWN-FINDING lines possible).
Exit 1: at least one `VIOLATION property=<id> replay=<path>` line.
Exit 2: infrastructure failure (never a property verdict).
"""
from __future__ import annotations

import argparse
import importlib
import json
import os
import sys
import time
import traceback
from pathlib import Path

sys.path.insert(0, str(Path(__file__).resolve().parent))
sys.setrecursionlimit(20000)

import core  # noqa: E402
import kernels  # noqa: E402


def main() -> int:
    ap = argparse.ArgumentParser()
    ap.add_argument("prop")
    ap.add_argument("--tier", default=os.environ.get("VERIF_TIER", "quick"), choices=["quick", "thorough"])
    ap.add_argument("--replay", default=None)
    ap.add_argument("--no-build", action="store_true", help="developer switch: skip lake build/audit")
    a = ap.parse_args()
    seed = int(os.environ.get("VERIF_SEED", "0") or 0)
    os.environ.setdefault("SOLVOR_VERIF", "1")
    sys.path.insert(0, str(core.REPO))
    try:
        mod = importlib.import_module(f"props.{a.prop}")
    except ModuleNotFoundError as e:
        print(f"no check for {a.prop}: {e}", file=sys.stderr)
        return 2
    ctx = core.Ctx(a.prop, a.tier, seed, mod.AREAS)
    ctx.level = getattr(mod, "LEVEL", "proof")
    ctx.assumptions = list(getattr(mod, "ASSUMPTIONS", []))
    broken: list[str] = []  # proof obligations / translator outputs that no longer check

    # global safety net: a check must end even when a model call or a shrinker gets stuck on a broken tree
    import signal

    class TimeBudget(Exception):
        pass

    def _on_alarm(signum, frame):
        raise TimeBudget()

    deadline = int(os.environ.get("VERIF_DEADLINE", "0") or 0) or (1200 if a.tier == "quick" else 5400)
    signal.signal(signal.SIGALRM, _on_alarm)
    signal.alarm(deadline)
    obligations = None
    try:
        # 1. regenerate the translated slice from the working tree, build, audit
        obligations = None
        if not a.no_build:
            changed, terr = kernels.regenerate(mod.AREAS)
            if terr:
                broken.append(f"translator: {terr}")
                kernels.restore_pinned(mod.AREAS)
            targets = []
            for ar in mod.AREAS:
                targets += [f"Solvor.{ar}.Theorems", f"Solvor.{ar}.Drive"]
                if not getattr(mod, "INTERP", False):
                    targets.append(f"drv_{ar.lower()}")
            targets += getattr(mod, "EXTRA_TARGETS", [])
            ok, log = core.lake_build(targets)
            if not ok and changed:
                # the regenerated slice broke a proof or a model: keep the evidence, fall back to
                # the pinned slice so that the failing-input search can run
                bad = [ln for ln in log.splitlines() if ln.startswith("error:") or "✖" in ln][:6]
                broken.append("lake build fails with the slice regenerated from /repo: " + " | ".join(bad))
                kernels.restore_pinned(mod.AREAS)
                core._BUILD_CACHE.clear()
                ok, log = core.lake_build(targets)
            if not ok:
                sys.stderr.write(log[-6000:])
                raise core.Infra("lake build failed (with the pinned slice as well)")
            hits = core.grep_forbidden(mod.AREAS + ["Common", "Gen"])
            if hits:
                raise core.Infra("forbidden constructs in Lean sources: " + ", ".join(hits))
            obligations = core.audit(a.prop)
            if obligations["bad"]:
                sys.stderr.write(obligations["log"][-3000:])
                raise core.Infra("axiom audit failed: " + "; ".join(obligations["bad"]))
            if broken:
                # obligations are NOT discharged against the current source
                obligations["theorems"] = {}
            if a.tier == "thorough" and not broken:
                # independent re-check of the compiled theorem modules by leanchecker
                mods = [f"Solvor.{ar}.Theorems" for ar in mod.AREAS]
                rc, out, err = core.sh(["lake", "env", "leanchecker", *mods], cwd=core.LEAN, timeout=3600)
                ctx.cov["leanchecker"] = {"modules": mods, "rc": rc, "tail": (out + err)[-300:]}
                if rc != 0:
                    raise core.Infra("leanchecker rejected the compiled theorem modules: " + (out + err)[-1500:])
        # 2. correspondence
        if a.replay:
            body = json.loads(Path(a.replay).read_text())
            mod.replay(ctx, body)
        else:
            mod.run(ctx, ctx.budget_scale)
            # 3. only the mirror relation (R_trace) or a proof obligation broke: search harder
            tdiv = getattr(ctx, "trace_div", [])
            if (tdiv or broken) and not ctx.violations:
                ctx.notes.append(f"search: {len(tdiv)} R_trace divergences, {len(broken)} broken obligations; "
                                 "running the extended failing-input search")
                ctx.seed_shift = 1
                ctx.rng.seed(ctx.seed * 7919 + 17)
                mod.run(ctx, ctx.budget_scale * (6 if a.tier == "quick" else 3))
            if (tdiv or broken) and not ctx.violations:
                first = tdiv[0] if tdiv else {"function": "build", "detail": {}}
                ctx.fail(first["function"], "no_failing_input",
                         "model/implementation correspondence or a proof obligation no longer checks; "
                         "no input on which the property itself fails was found",
                         {"broken_obligations": broken, "trace_divergences": tdiv[:5]}, no_input=True)
        signal.alarm(0)
        rc = ctx.finish(obligations, {"broken_obligations": broken})
        return rc
    except TimeBudget:
        signal.alarm(0)
        ctx.notes.append(f"time budget of {deadline} s exceeded; run cut short")
        if ctx.violations:
            # violations found before the budget ran out are real: report them
            return ctx.finish(obligations, {"broken_obligations": broken, "cut_short": True})
        print(f"INFRASTRUCTURE FAILURE ({a.prop}): time budget of {deadline} s exceeded without a verdict",
              file=sys.stderr)
        return 2
    except core.Infra as e:
        print(f"INFRASTRUCTURE FAILURE ({a.prop}): {e}", file=sys.stderr)
        return 2
    except Exception:
        traceback.print_exc()
        print(f"INFRASTRUCTURE FAILURE ({a.prop}): unexpected exception in the harness", file=sys.stderr)
        return 2


if __name__ == "__main__":
    t = time.time()
    rc = main()
    sys.exit(rc)
