"""The regenerated slice (DESIGN.md §2.5): a deliberately small Python -> Lean translator.

From /repo's *current working tree* it extracts, with `ast`,

  (a) the index-walk expressions of FenwickTree.__init__/update/prefix,
  (b) the body of sat.luby as a fuel-bounded loop,
  (c) the Status enum,
  (d) per area, literal constants / keyword defaults listed in harness/kernels.d/<area>.json,

and writes Solvor/Gen/Kernels.lean and Solvor/Gen/<Area>Consts.lean (only when the text
changes, so `lake build` stays a no-op on an unchanged tree).  The Fenwick and Luby theorems and
the models import these files, so they are re-checked against what the source says now.  Syntax
outside the accepted subset raises TranslateError, which the check reports as a broken
obligation (never guessed around).
"""
from __future__ import annotations

import ast
import json
import re
from fractions import Fraction
from pathlib import Path

from core import LEAN, REPO, VERIF


class TranslateError(Exception):
    pass


# ---------------------------------------------------------------------------
# integer expressions over Nat
# ---------------------------------------------------------------------------
_BIN = {ast.BitOr: "|||", ast.BitAnd: "&&&", ast.Add: "+", ast.Sub: "-", ast.LShift: "<<<", ast.Mult: "*",
        ast.RShift: ">>>", ast.BitXor: "^^^"}
_CMP = {ast.Eq: "=", ast.NotEq: "≠", ast.Lt: "<", ast.LtE: "≤", ast.Gt: ">", ast.GtE: "≥"}


def nat_expr(e: ast.expr, rename=lambda s: s) -> str:
    if isinstance(e, ast.Constant) and isinstance(e.value, int) and not isinstance(e.value, bool) and e.value >= 0:
        return str(e.value)
    if isinstance(e, ast.Name):
        return rename(e.id)
    if isinstance(e, ast.BinOp) and type(e.op) in _BIN:
        return f"({nat_expr(e.left, rename)} {_BIN[type(e.op)]} {nat_expr(e.right, rename)})"
    raise TranslateError(f"expression outside the translator's subset: {ast.unparse(e)}")


def nat_cond(e: ast.expr, rename=lambda s: s) -> str:
    if isinstance(e, ast.Compare) and len(e.ops) == 1 and type(e.ops[0]) in _CMP:
        return f"{nat_expr(e.left, rename)} {_CMP[type(e.ops[0])]} {nat_expr(e.comparators[0], rename)}"
    raise TranslateError(f"condition outside the translator's subset: {ast.unparse(e)}")


def _find(tree, kind, name):
    for n in ast.walk(tree):
        if isinstance(n, kind) and n.name == name:
            return n
    raise TranslateError(f"{kind.__name__} {name} not found")


# ---------------------------------------------------------------------------
# (a) Fenwick index walks
# ---------------------------------------------------------------------------

def fenwick() -> str:
    tree = ast.parse((REPO / "solvor/utils/data_structures.py").read_text())
    cls = _find(tree, ast.ClassDef, "FenwickTree")
    init, upd, pre = (_find(cls, ast.FunctionDef, n) for n in ("__init__", "update", "prefix"))
    # __init__: `j = <expr in i>` inside `for i in range(self._n)`, guarded by `if j < self._n`
    build = None
    for n in ast.walk(init):
        if isinstance(n, ast.Assign) and len(n.targets) == 1 and isinstance(n.targets[0], ast.Name) \
                and n.targets[0].id == "j":
            build = nat_expr(n.value)
    if build is None:
        raise TranslateError("FenwickTree.__init__: no `j = ...` parent-index assignment")
    # update: while i < self._n: tree[i] += delta; i |= i + 1   (or i = i | (i+1))
    w = [n for n in upd.body if isinstance(n, ast.While)]
    if len(w) != 1 or ast.unparse(w[0].test) != "i < self._n":
        raise TranslateError("FenwickTree.update: loop shape changed: " + ast.unparse(upd))
    up = None
    for n in w[0].body:
        if isinstance(n, ast.AugAssign) and isinstance(n.target, ast.Name) and n.target.id == "i":
            up = f"(i {_BIN[type(n.op)]} {nat_expr(n.value)})"
        elif isinstance(n, ast.Assign) and isinstance(n.targets[0], ast.Name) and n.targets[0].id == "i":
            up = nat_expr(n.value)
        elif isinstance(n, ast.AugAssign) and ast.unparse(n) == "self._tree[i] += delta":
            pass
        else:
            raise TranslateError("FenwickTree.update: unexpected statement " + ast.unparse(n))
    if up is None:
        raise TranslateError("FenwickTree.update: no index step")
    # prefix: while i >= 0: total += tree[i]; i = (E) - 1
    w = [n for n in pre.body if isinstance(n, ast.While)]
    if len(w) != 1 or ast.unparse(w[0].test) != "i >= 0":
        raise TranslateError("FenwickTree.prefix: loop shape changed")
    down = None
    for n in w[0].body:
        if isinstance(n, ast.Assign) and isinstance(n.targets[0], ast.Name) and n.targets[0].id == "i":
            v = n.value
            if isinstance(v, ast.BinOp) and isinstance(v.op, ast.Sub) and isinstance(v.right, ast.Constant) \
                    and v.right.value == 1:
                down = nat_expr(v.left)
            else:
                raise TranslateError("FenwickTree.prefix: index step is not `<expr> - 1`: " + ast.unparse(v))
        elif isinstance(n, ast.AugAssign) and ast.unparse(n) == "total += self._tree[i]":
            pass
        else:
            raise TranslateError("FenwickTree.prefix: unexpected statement " + ast.unparse(n))
    if down is None:
        raise TranslateError("FenwickTree.prefix: no index step")
    # range_sum shape
    rs = _find(cls, ast.FunctionDef, "range_sum")
    body = [ast.unparse(s) for s in rs.body if not (isinstance(s, ast.Expr) and isinstance(s.value, ast.Constant))]
    want = ["result = self.prefix(right)", "if left > 0:\n    result -= self.prefix(left - 1)", "return result"]
    if body != want:
        raise TranslateError("FenwickTree.range_sum: body changed: " + repr(body))
    return f"""
/-- `j = …` in `FenwickTree.__init__` (parent that absorbs `tree[i]`). -/
def fenBuildParent (i : Nat) : Nat := {build}
/-- index step of `FenwickTree.update` (loop runs while `i < n`). -/
def fenUp (i : Nat) : Nat := {up}
/-- `E` in the index step `i = E - 1` of `FenwickTree.prefix` (loop runs while `i ≥ 0`). -/
def fenDownBase (i : Nat) : Nat := {down}
"""


# ---------------------------------------------------------------------------
# (b) luby
# ---------------------------------------------------------------------------

def luby() -> str:
    tree = ast.parse((REPO / "solvor/sat.py").read_text())
    fn = _find(tree, ast.FunctionDef, "luby")
    body = [s for s in fn.body if not (isinstance(s, ast.Expr) and isinstance(s.value, ast.Constant))]
    if len(body) != 2 or not isinstance(body[0], ast.Assign) or not isinstance(body[1], ast.While) \
            or ast.unparse(body[1].test) != "True":
        raise TranslateError("luby: expected `k = c; while True: ...`")
    params = [a.arg for a in fn.args.args]
    init = body[0]
    if params != ["i"] or ast.unparse(init.targets[0]) != "k":
        raise TranslateError("luby: unexpected parameters / locals")
    k0 = nat_expr(init.value)

    def stmts(ss) -> str:
        """translate a statement list ending the loop iteration; returns Lean term of type Nat"""
        env = {"i": "i", "k": "k"}

        def go(ss, env):
            if not ss:
                return f"lubyLoop fuel {env['i']} {env['k']}"
            s, rest = ss[0], ss[1:]
            ren = lambda v: env.get(v, v)  # noqa: E731
            if isinstance(s, ast.Return):
                return nat_expr(s.value, ren)
            if isinstance(s, ast.If):
                c = nat_cond(s.test, ren)
                return f"if {c} then {go(list(s.body) + rest, dict(env))} else {go(list(s.orelse) + rest, dict(env))}"
            if isinstance(s, ast.AugAssign) and isinstance(s.target, ast.Name) and s.target.id in env:
                env = dict(env)
                env[s.target.id] = f"({ren(s.target.id)} {_BIN[type(s.op)]} {nat_expr(s.value, ren)})"
                return go(rest, env)
            if isinstance(s, ast.Assign) and isinstance(s.targets[0], ast.Name) and s.targets[0].id in env:
                env = dict(env)
                env[s.targets[0].id] = nat_expr(s.value, ren)
                return go(rest, env)
            raise TranslateError("luby: statement outside subset: " + ast.unparse(s))

        return go(ss, env)

    step = stmts(list(body[1].body))
    return f"""
/-- Body of `luby`'s `while True` loop, one iteration per unit of fuel (0 when fuel runs out;
`luby_fuel` in Sat/Theorems shows `2 * i + 2` always suffices). Subtractions are on `Nat`; the
guards in the source make every one of them exact. -/
def lubyLoop : Nat → Nat → Nat → Nat
  | 0, _, _ => 0
  | fuel + 1, i, k => {step}
def lubyK0 : Nat := {k0}
"""


# ---------------------------------------------------------------------------
# (c) Status
# ---------------------------------------------------------------------------

def status() -> str:
    tree = ast.parse((REPO / "solvor/types.py").read_text())
    cls = _find(tree, ast.ClassDef, "Status")
    names, val = [], 0
    for s in cls.body:
        if isinstance(s, ast.Assign) and isinstance(s.targets[0], ast.Name):
            if ast.unparse(s.value) == "auto()":
                val += 1
            elif isinstance(s.value, ast.Constant) and isinstance(s.value.value, int):
                val = s.value.value
            else:
                raise TranslateError("Status: member value outside subset")
            names.append((s.targets[0].id, val))
    if not names:
        raise TranslateError("Status: no members")
    ctors = "\n".join(f"  | {n}" for n, _ in names)
    tonat = "\n".join(f"  | .{n} => {v}" for n, v in names)
    tostr = "\n".join(f"  | .{n} => \"{n}\"" for n, _ in names)
    return f"""
inductive Status where
{ctors}
  deriving DecidableEq, Repr, Inhabited
def Status.toNat : Status → Nat
{tonat}
def Status.name : Status → String
{tostr}
"""


# ---------------------------------------------------------------------------
# (d) constants per area
# ---------------------------------------------------------------------------

def _lean_const(name: str, v) -> str:
    if isinstance(v, bool):
        return f"def {name} : Bool := {'true' if v else 'false'}"
    if isinstance(v, int):
        return f"def {name} : Int := {v}"
    if isinstance(v, float):
        f = Fraction(v)
        txt = Fraction(repr(v))  # the decimal the programmer wrote
        import struct
        bits = struct.unpack("<Q", struct.pack("<d", v))[0]
        return (f"/-- source literal `{v!r}`; `…_dec` is the decimal as written, `…_bits` the IEEE double. -/\n"
                f"def {name}_dec : Rat := ({txt.numerator} : Rat) / {txt.denominator}\n"
                f"def {name} : Rat := ({f.numerator} : Rat) / {f.denominator}\n"
                f"def {name}_bits : UInt64 := {bits}")
    if v is None:
        return f"def {name} : Option Int := none"
    if isinstance(v, str):
        return f"def {name} : String := {json.dumps(v)}"
    raise TranslateError(f"constant {name}: unsupported value {v!r}")


def _const_value(spec: dict):
    src = (REPO / spec["file"]).read_text()
    tree = ast.parse(src)
    scope = tree
    for part in spec.get("scope", "").split(".") if spec.get("scope") else []:
        found = None
        for n in ast.walk(scope):
            if isinstance(n, (ast.FunctionDef, ast.ClassDef)) and n.name == part:
                found = n
                break
        if found is None:
            raise TranslateError(f"{spec['name']}: scope {spec['scope']} not found in {spec['file']}")
        scope = found
    if spec["kind"] == "default":
        if not isinstance(scope, ast.FunctionDef):
            raise TranslateError(f"{spec['name']}: default needs a function scope")
        args = scope.args
        pos = args.posonlyargs + args.args
        defaults = dict(zip([a.arg for a in pos][len(pos) - len(args.defaults):], args.defaults))
        defaults.update({a.arg: d for a, d in zip(args.kwonlyargs, args.kw_defaults) if d is not None})
        if spec["param"] not in defaults:
            raise TranslateError(f"{spec['name']}: parameter {spec['param']} has no default in {spec['scope']}")
        try:
            return ast.literal_eval(defaults[spec["param"]])
        except Exception:
            raise TranslateError(f"{spec['name']}: default of {spec['param']} is not a literal")
    if spec["kind"] == "literal":
        # regex with one group over the unparsed source of every statement / expression in scope
        pat = re.compile(spec["pattern"])
        hits = set()
        for n in ast.walk(scope):
            if isinstance(n, (ast.expr, ast.stmt)) and not isinstance(n, (ast.FunctionDef, ast.ClassDef)):
                try:
                    txt = ast.unparse(n)
                except Exception:
                    continue
                if "\n" in txt:
                    continue
                m = pat.fullmatch(txt) if spec.get("full", True) else pat.search(txt)
                if m:
                    hits.add(m.group(1))
        if len(hits) != 1:
            raise TranslateError(f"{spec['name']}: pattern {spec['pattern']!r} matched {sorted(hits)} in "
                                 f"{spec['file']}:{spec.get('scope', '')}")
        try:
            return ast.literal_eval(hits.pop())
        except Exception:
            raise TranslateError(f"{spec['name']}: matched text is not a literal")
    raise TranslateError(f"{spec['name']}: unknown kind {spec['kind']}")


def area_consts(area: str) -> str | None:
    f = VERIF / "harness" / "kernels.d" / f"{area}.json"
    if not f.exists():
        return None
    specs = json.loads(f.read_text())
    out = [f"/-! Constants of area {area}, regenerated from /repo on every run by harness/kernels.py. -/",
           f"namespace Solvor.Gen.{area}"]
    for s in specs:
        out.append(_lean_const(s["name"], _const_value(s)))
    out.append(f"end Solvor.Gen.{area}\n")
    return "\n".join(out)


HEADER = """/-! REGENERATED from /repo's working tree on every run by harness/kernels.py — do not edit.
%s exactly as the source has it now. -/
namespace Solvor.Gen
"""

# which area's check depends on which generated file (Kernels.lean = the Status enum: everybody)
PART_AREA = {"FenwickKernels.lean": "Ds", "LubyKernels.lean": "Sat"}


def generate(areas=None) -> tuple[dict[str, str], dict[str, str]]:
    """Returns (files, errors) keyed by file name.  A part that fails to translate is reported in
    `errors`; the caller decides whether it concerns the property at hand."""
    files, errors = {}, {}
    parts = {"Kernels.lean": ("The Status enum", status),
             "FenwickKernels.lean": ("The Fenwick index walks", fenwick),
             "LubyKernels.lean": ("The Luby loop", luby)}
    for name, (what, fn) in parts.items():
        try:
            files[name] = HEADER % what + fn() + "\nend Solvor.Gen\n"
        except TranslateError as e:
            errors[name] = str(e)
    d = VERIF / "harness" / "kernels.d"
    if d.is_dir():
        for f in sorted(d.glob("*.json")):
            name = f"{f.stem}Consts.lean"
            try:
                txt = area_consts(f.stem)
                if txt is not None:
                    files[name] = txt
            except TranslateError as e:
                errors[name] = str(e)
    return files, errors


def relevant(name: str, areas) -> bool:
    if areas is None or name == "Kernels.lean":
        return True
    if name in PART_AREA:
        return PART_AREA[name] in areas
    return name.endswith("Consts.lean") and name[:-len("Consts.lean")] in areas


def write(files: dict[str, str]) -> list[str]:
    """Write only changed files; returns the names that changed."""
    changed = []
    gen = LEAN / "Solvor" / "Gen"
    gen.mkdir(exist_ok=True)
    for name, txt in files.items():
        p = gen / name
        if not p.exists() or p.read_text() != txt:
            p.write_text(txt)
            changed.append(name)
    return changed


def regenerate(areas=None) -> tuple[list[str], str | None]:
    """Regenerate every part; returns (changed files relevant to `areas`, error text or None).
    Parts that belong to other areas are refreshed when they translate and left alone when they do
    not (their own property's check reports that)."""
    files, errors = generate(areas)
    changed = [c for c in write(files) if relevant(c, areas)]
    errs = [f"{n}: {e}" for n, e in errors.items() if relevant(n, areas)]
    return changed, ("; ".join(errs) if errs else None)


def restore_pinned(areas=None) -> None:
    """Put the committed pinned copies back (used when the regenerated slice breaks the build,
    so that the failing-input search can still run against the last accepted model)."""
    pin = LEAN / "Solvor" / "Gen" / "pinned"
    for p in pin.glob("*.lean.txt"):
        if relevant(p.name[:-4], areas):
            (LEAN / "Solvor" / "Gen" / p.name[:-4]).write_text(p.read_text())


if __name__ == "__main__":
    ch, err = regenerate()
    print("changed:", ch, "error:", err)
