/-!
Line protocol shared by all drivers (not proof relevant).

Every request and every reply is one line of a JSON subset: integers,
strings without escapes other than `\"` and `\\`, `null`, `true`, `false`,
arrays.  Rationals travel as two-element arrays `[num, den]`, doubles as their
IEEE bit pattern (an integer), so nothing is ever rounded in transit.
-/
namespace Solvor.Proto

inductive Val where
  | int (i : Int)
  | str (s : String)
  | bool (b : Bool)
  | null
  | arr (xs : List Val)
  deriving Repr, Inhabited, BEq

namespace Val

partial def render : Val → String
  | int i => toString i
  | str s => "\"" ++ (s.replace "\\" "\\\\").replace "\"" "\\\"" ++ "\""
  | bool true => "true"
  | bool false => "false"
  | null => "null"
  | arr xs => "[" ++ ", ".intercalate (xs.map render) ++ "]"

def ofInts (xs : List Int) : Val := arr (xs.map int)
def ofNats (xs : List Nat) : Val := arr (xs.map fun (n : Nat) => int (Int.ofNat n))
def ofIntss (xs : List (List Int)) : Val := arr (xs.map ofInts)
def ofNatss (xs : List (List Nat)) : Val := arr (xs.map ofNats)
def ofRat (q : Rat) : Val := arr [int q.num, int q.den]
def ofRats (xs : List Rat) : Val := arr (xs.map ofRat)
def ofOpt {α} (f : α → Val) : Option α → Val
  | none => null
  | some a => f a

def toInt? : Val → Option Int
  | int i => some i
  | _ => none
def toNat? : Val → Option Nat
  | int i => if i < 0 then none else some i.toNat
  | _ => none
def toBool? : Val → Option Bool
  | bool b => some b
  | _ => none
def toStr? : Val → Option String
  | str s => some s
  | _ => none
def toArr? : Val → Option (List Val)
  | arr xs => some xs
  | _ => none
def toRat? : Val → Option Rat
  | arr [int n, int d] => if d = 0 then none else some (mkRat n d.toNat * (if d < 0 then -1 else 1))
  | int n => some n
  | _ => none
def toInts? (v : Val) : Option (List Int) := do (← v.toArr?).mapM toInt?
def toNats? (v : Val) : Option (List Nat) := do (← v.toArr?).mapM toNat?
def toRats? (v : Val) : Option (List Rat) := do (← v.toArr?).mapM toRat?
def toIntss? (v : Val) : Option (List (List Int)) := do (← v.toArr?).mapM toInts?
def toNatss? (v : Val) : Option (List (List Nat)) := do (← v.toArr?).mapM toNats?
def toRatss? (v : Val) : Option (List (List Rat)) := do (← v.toArr?).mapM toRats?
/-- `null` ↦ `none`, anything else through `f`. -/
def toOpt? {α} (f : Val → Option α) : Val → Option (Option α)
  | null => some none
  | v => (f v).map some

end Val

/-! ### Parser (recursive descent over a character list) -/

private def skipWs : List Char → List Char
  | c :: cs => if c = ' ' || c = '\t' || c = '\n' || c = '\r' then skipWs cs else c :: cs
  | [] => []

private def takeDigits : List Char → Nat → Bool → (Nat × Bool × List Char)
  | c :: cs, acc, any =>
    if c.isDigit then takeDigits cs (acc * 10 + (c.toNat - '0'.toNat)) true else (acc, any, c :: cs)
  | [], acc, any => (acc, any, [])

private def takeStr : List Char → List Char → Option (String × List Char)
  | '"' :: cs, acc => some (String.ofList acc.reverse, cs)
  | '\\' :: c :: cs, acc => takeStr cs (c :: acc)
  | c :: cs, acc => takeStr cs (c :: acc)
  | [], _ => none

mutual
partial def parseVal (cs : List Char) : Option (Val × List Char) :=
  match skipWs cs with
  | '[' :: rest => parseArr (skipWs rest) []
  | '"' :: rest => (takeStr rest []).map fun (s, r) => (Val.str s, r)
  | 'n' :: 'u' :: 'l' :: 'l' :: rest => some (Val.null, rest)
  | 't' :: 'r' :: 'u' :: 'e' :: rest => some (Val.bool true, rest)
  | 'f' :: 'a' :: 'l' :: 's' :: 'e' :: rest => some (Val.bool false, rest)
  | '-' :: rest =>
    let (n, any, r) := takeDigits rest 0 false
    if any then some (Val.int (-(n : Int)), r) else none
  | rest =>
    let (n, any, r) := takeDigits rest 0 false
    if any then some (Val.int n, r) else none
partial def parseArr (cs : List Char) (acc : List Val) : Option (Val × List Char) :=
  match skipWs cs with
  | ']' :: rest => some (Val.arr acc.reverse, rest)
  | ',' :: rest => parseArr rest acc
  | rest =>
    match parseVal rest with
    | some (v, r) => parseArr r (v :: acc)
    | none => none
end

def parse (s : String) : Option Val :=
  match parseVal s.toList with
  | some (v, rest) => if (skipWs rest).isEmpty then some v else none
  | none => none

/-- Read request lines from stdin until EOF, answer each with one line. -/
partial def serve (handle : String → String) : IO Unit := do
  let stdin ← IO.getStdin
  let stdout ← IO.getStdout
  let rec loop : IO Unit := do
    let line ← stdin.getLine
    if line.isEmpty then return ()
    let l := line.trimAscii.toString
    if l.isEmpty then
      stdout.putStrLn ""
    else
      stdout.putStrLn (handle l)
    loop
  loop
  stdout.flush

/-- Helper: parse a request `[cmd, arg1, arg2, ...]`. -/
def request (line : String) : Option (String × List Val) :=
  match parse line with
  | some (Val.arr (Val.str cmd :: args)) => some (cmd, args)
  | _ => none

def err (msg : String) : String := (Val.arr [Val.str "error", Val.str msg]).render

end Solvor.Proto
