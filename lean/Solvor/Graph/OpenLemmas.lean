import Solvor.Graph.KahnLemmas
import Solvor.Graph.CondLemmas
/-! Graph: the clause checkers used when neighbour lists leave the node list (`chk…Open`) decide the
stated clauses, and these clauses follow from the full specification under *either* reading of the
graph (induced on the node list / explored from it) – so they can never reject an answer that is
right under one of the readings. -/
namespace Solvor.Graph

theorem reach_single_iff {adj : Adj} {U : List Nat} (hc : Closed U adj) {u x : Nat} (hu : u ∈ U) :
    x ∈ reach adj U [u] ↔ Reach adj u x := by
  rw [mem_reach_iff hc (by intro y hy; simp at hy; subst hy; exact hu)]
  simp

theorem chkSccOpen_iff {U nodes : List Nat} {adj : Adj} {comps : List (List Nat)} (hc : Closed U adj)
    (hs : nodes ⊆ U) : chkSccOpen U nodes adj comps = true ↔ SccOpenOK nodes adj comps := by
  unfold chkSccOpen
  simp only [Bool.and_eq_true, decide_eq_true_eq, List.all_eq_true, List.contains_iff_mem, Bool.or_eq_true,
    Bool.not_eq_eq_eq_not, Bool.not_true, Bool.and_eq_false_imp, orderB_iff, beq_iff_eq,
    mem_reach_iff hc hs]
  constructor
  · rintro ⟨⟨⟨⟨⟨⟨h1, h2⟩, h3⟩, h4⟩, h5⟩, h6⟩, h7⟩
    refine ⟨h1, ?_, h3, h4, ?_, ?_, h7⟩
    · intro c hc' he; have := h2 c hc'; simp [he] at this
    · intro c hc' u hu v hv hun hvn
      rcases h5 c hc' u hu v hv with h | h
      · simp [hun, hvn] at h
      · exact (reach_single_iff hc (hs hun)).1 (by simpa using h)
    · intro u hu v hv hm
      rcases h6 u hu v hv with h | h
      · exfalso
        have h1' := (reach_single_iff (closed_adjIn nodes adj) hu).2 hm.1
        have h2' := (reach_single_iff (closed_adjIn nodes adj) hv).2 hm.2
        simp [h1', h2'] at h
      · exact h
  · intro S
    refine ⟨⟨⟨⟨⟨⟨S.nodup, ?_⟩, S.cover⟩, S.explored⟩, ?_⟩, ?_⟩, S.order⟩
    · intro c hc'; have := S.nonempty c hc'; cases c <;> simp_all
    · intro c hc' u hu v hv
      by_cases hn : u ∈ nodes ∧ v ∈ nodes
      · right
        have := (reach_single_iff hc (hs hn.1)).2 (S.strong c hc' u hu v hv hn.1 hn.2)
        simpa using this
      · left
        by_cases h1' : u ∈ nodes
        · have : v ∉ nodes := fun h => hn ⟨h1', h⟩
          simp [this]
        · simp [h1']
    · intro u hu v hv
      by_cases hm : Mutual (adjIn nodes adj) u v
      · exact Or.inr (S.complete u hu v hv hm)
      · left
        by_cases h1' : Reach (adjIn nodes adj) u v
        · have : ¬ Reach (adjIn nodes adj) v u := fun h => hm ⟨h1', h⟩
          have := mt (reach_single_iff (closed_adjIn nodes adj) hv).1 this
          simp [this]
        · have := mt (reach_single_iff (closed_adjIn nodes adj) hu).1 h1'
          simp [this]

theorem chkTopoOpen_iff {U nodes : List Nat} {adj : Adj} {order : List Nat} (hc : Closed U adj)
    (hs : nodes ⊆ U) : chkTopoOpen U nodes adj order = true ↔ TopoOpenOK nodes adj order := by
  unfold chkTopoOpen
  simp only [Bool.and_eq_true, decide_eq_true_eq, List.all_eq_true, List.contains_iff_mem, Bool.or_eq_true,
    Bool.not_eq_eq_eq_not, Bool.not_true, mem_reach_iff hc hs]
  constructor
  · rintro ⟨⟨⟨h1, h2⟩, h3⟩, h4⟩
    refine ⟨h1, h2, h3, ?_⟩
    intro u hu w hw hwn
    rcases h4 u hu w hw with h | h
    · exact absurd hwn (by simpa using h)
    · exact h
  · intro T
    refine ⟨⟨⟨T.nodup, T.cover⟩, T.explored⟩, ?_⟩
    intro u hu w hw
    by_cases hwn : w ∈ nodes
    · exact Or.inr (T.forward u hu w hw hwn)
    · exact Or.inl (by simpa using hwn)

theorem closed_range_cadj {k : Nat} {cadj : List (List Nat)} (hr : ∀ l ∈ cadj, ∀ j ∈ l, j < k) :
    Closed (List.range k) (cadjFn cadj) := by
  intro i _ j hj
  simp only [List.mem_range]
  unfold cadjFn at hj
  rw [List.getD_eq_getElem?_getD] at hj
  cases h : cadj[i]? with
  | none => simp [h] at hj
  | some l =>
    simp [h] at hj
    exact hr l (List.mem_of_getElem? h) j hj

theorem chkCondOpen_iff {U nodes : List Nat} {adj : Adj} {comps cadj : List (List Nat)} (hc : Closed U adj)
    (hs : nodes ⊆ U) : chkCondOpen U nodes adj comps cadj = true ↔ CondOpenOK nodes adj comps cadj := by
  unfold chkCondOpen
  simp only [Bool.and_eq_true, decide_eq_true_eq, List.all_eq_true, List.contains_iff_mem, 
    Bool.not_eq_eq_eq_not, Bool.not_true, chkSccOpen_iff hc hs, List.mem_range, List.any_eq_true,
    bne_iff_ne, ne_eq]
  constructor
  · rintro ⟨⟨⟨⟨⟨h1, h2⟩, h3⟩, h4⟩, h5⟩, h6⟩
    refine ⟨h1, h2, h3, ?_, ?_, ?_⟩
    · intro i hi j hj
      exact h4 i hi j hj
    · intro u hu w hw
      have := h5 u hu w hw
      cases hi : compIdx comps u with
      | none => simp [hi] at this
      | some i =>
        cases hj : compIdx comps w with
        | none => simp [hi, hj] at this
        | some j =>
          simp only [hi, hj, Bool.or_eq_true, beq_iff_eq, List.contains_iff_mem] at this
          exact ⟨i, j, rfl, rfl, this⟩
    · intro hcy
      have := cyclicB_iff.2 hcy
      unfold cadjFn at this
      rw [this] at h6
      cases h6
  · intro C
    refine ⟨⟨⟨⟨⟨C.scc, C.len⟩, C.range⟩, ?_⟩, ?_⟩, ?_⟩
    · intro i hi j hj
      exact C.sound i hi j hj
    · intro u hu w hw
      obtain ⟨i, j, hi, hj, h⟩ := C.listed u hu w hw
      rw [hi, hj]
      simp only [Bool.or_eq_true, beq_iff_eq, List.contains_iff_mem]
      exact h
    · cases h : cyclicB (List.range comps.length) (fun i => cadj.getD i []) with
      | false => rfl
      | true => exact absurd (cyclicB_iff.1 h) C.acyclic

/-! ### the open clauses follow from the full specification under either reading -/

theorem compIdx_eq_of_same_class {comps : List (List Nat)} (hn : comps.flatten.Nodup) {c : List Nat}
    (hc : c ∈ comps) {u v : Nat} (hu : u ∈ c) (hv : v ∈ c) : compIdx comps u = compIdx comps v := by
  obtain ⟨i, hi, rfl⟩ := List.mem_iff_getElem.1 hc
  rw [(compIdx_eq_some_iff hn).2 ⟨hi, hu⟩, (compIdx_eq_some_iff hn).2 ⟨hi, hv⟩]

theorem sinksFirst_restrict {nodes : List Nat} {adj : Adj} {comps : List (List Nat)}
    (h : comps.Pairwise fun a b => ∀ u ∈ a, u ∈ nodes → ∀ w ∈ adj u, w ∈ nodes → w ∉ b) :
    SinksFirst (adjIn nodes adj) (restrict nodes comps) := by
  unfold SinksFirst restrict
  rw [List.pairwise_map]
  apply h.imp
  intro a b hab u hu w hw hwb
  have hu' := List.mem_filter.1 hu
  have hw' := mem_adjIn.1 hw
  exact hab u hu'.1 (by simpa using hu'.2) w hw'.1 hw'.2 (List.mem_filter.1 hwb).1

/-- reading A (graph induced on the node list): a correct decomposition passes the open clauses -/
theorem SccOpenOK.of_induced {nodes : List Nat} {adj : Adj} {comps : List (List Nat)}
    (D : IsSccDecomp nodes (adjIn nodes adj) comps) : SccOpenOK nodes adj comps where
  nodup := D.nodup
  nonempty := D.nonempty
  cover := fun v hv => (D.cover v).2 hv
  explored := fun v hv => ⟨v, (D.cover v).1 hv, Reach.refl v⟩
  strong := by
    intro c hc u hu v hv hun hvn
    exact ((D.classes u hun v hvn).1 ⟨c, hc, hu, hv⟩).1.of_adjIn
  complete := by
    intro u hu v hv hm
    obtain ⟨c, hc, huc, hvc⟩ := (D.classes u hu v hv).2 hm
    exact compIdx_eq_of_same_class D.nodup hc huc hvc
  order := by
    apply sinksFirst_restrict
    have := D.order
    unfold SinksFirst at this
    apply this.imp
    intro a b hab u hu _ w hw hwn
    exact hab u hu w (mem_adjIn.2 ⟨hw, hwn⟩)

/-- reading B (graph explored from the node list): a correct decomposition of any closed vertex set
`V ⊇ nodes` all of whose members are reachable from the node list passes the open clauses -/
theorem SccOpenOK.of_explored {V nodes : List Nat} {adj : Adj} {comps : List (List Nat)}
    (hsub : nodes ⊆ V) (hreach : ∀ v ∈ V, ∃ s ∈ nodes, Reach adj s v)
    (D : IsSccDecomp V adj comps) : SccOpenOK nodes adj comps where
  nodup := D.nodup
  nonempty := D.nonempty
  cover := fun v hv => (D.cover v).2 (hsub hv)
  explored := fun v hv => hreach v ((D.cover v).1 hv)
  strong := by
    intro c hc u hu v hv hun hvn
    exact ((D.classes u (hsub hun) v (hsub hvn)).1 ⟨c, hc, hu, hv⟩).1
  complete := by
    intro u hu v hv hm
    obtain ⟨c, hc, huc, hvc⟩ := (D.classes u (hsub hu) v (hsub hv)).2 ⟨hm.1.of_adjIn, hm.2.of_adjIn⟩
    exact compIdx_eq_of_same_class D.nodup hc huc hvc
  order := by
    apply sinksFirst_restrict
    have := D.order
    unfold SinksFirst at this
    apply this.imp
    intro a b hab u hu _ w hw _
    exact hab u hu w hw

theorem TopoOpenOK.of_induced {nodes : List Nat} {adj : Adj} {order : List Nat} (hn : nodes.Nodup)
    (T : IsTopoOrder nodes adj order) : TopoOpenOK nodes adj order where
  nodup := T.perm.nodup_iff.2 hn
  cover := fun _ hv => T.perm.mem_iff.2 hv
  explored := fun v hv => ⟨v, T.perm.mem_iff.1 hv, Reach.refl _⟩
  forward := T.forward

theorem TopoOpenOK.of_explored {V nodes : List Nat} {adj : Adj} {order : List Nat} (hn : V.Nodup)
    (hsub : nodes ⊆ V) (hreach : ∀ v ∈ V, ∃ s ∈ nodes, Reach adj s v)
    (T : IsTopoOrder V adj order) : TopoOpenOK nodes adj order where
  nodup := T.perm.nodup_iff.2 hn
  cover := fun _ hv => T.perm.mem_iff.2 (hsub hv)
  explored := fun v hv => hreach v (T.perm.mem_iff.1 hv)
  forward := fun u hu w hw hwn => T.forward u (hsub hu) w hw (hsub hwn)

/-- INFEASIBLE: a cycle of the induced graph is a cycle of every larger vertex set -/
theorem Cyclic.mono {nodes V : List Nat} {adj : Adj} (hsub : nodes ⊆ V) (h : Cyclic nodes adj) : Cyclic V adj := by
  obtain ⟨v, hv, w, hw, hr⟩ := h
  have hmono : ∀ {a b}, Reach (adjIn nodes adj) a b → Reach (adjIn V adj) a b := by
    intro a b hab
    induction hab with
    | refl => exact Reach.refl _
    | tail _ hc ih =>
      obtain ⟨h1, h2⟩ := mem_adjIn.1 hc
      exact Reach.tail ih (mem_adjIn.2 ⟨h1, hsub h2⟩)
  obtain ⟨h1, h2⟩ := mem_adjIn.1 hw
  exact ⟨v, hsub hv, w, mem_adjIn.2 ⟨h1, hsub h2⟩, hmono hr⟩

theorem cyclic_range_of_onCycle {k : Nat} {cadj : List (List Nat)}
    (h : Cyclic (List.range k) (cadjFn cadj)) : ∃ i, OnCycle (cadjFn cadj) i := by
  obtain ⟨v, _, w, hw, hrw⟩ := h
  exact ⟨v, w, (mem_adjIn.1 hw).1, hrw.of_adjIn⟩

theorem CondOpenOK.of_induced {nodes : List Nat} {adj : Adj} {comps cadj : List (List Nat)}
    (D : IsCondensation nodes (adjIn nodes adj) comps cadj) : CondOpenOK nodes adj comps cadj where
  scc := SccOpenOK.of_induced D.scc
  len := D.len
  range := D.range
  sound := by
    intro i hi j hj
    have hil : i < cadj.length := by rw [D.len]; exact hi
    have hmem : cadj.getD i [] ∈ cadj := by rw [getD_of_lt hil]; exact List.getElem_mem hil
    have hjl : j < comps.length := D.range _ hmem j hj
    obtain ⟨hne, u, hu, w, hw, hwj⟩ := (D.edges i j hi hjl).1 hj
    exact ⟨hne, u, hu, w, (mem_adjIn.1 hw).1, hwj⟩
  listed := by
    intro u hu w hw
    have hwn := mem_adjIn_nodes hw
    obtain ⟨i, hi, hui⟩ := mem_flatten_iff_getElem.1 ((D.scc.cover u).2 hu)
    obtain ⟨j, hj, hwj⟩ := mem_flatten_iff_getElem.1 ((D.scc.cover w).2 hwn)
    refine ⟨i, j, (compIdx_eq_some_iff D.scc.nodup).2 ⟨hi, hui⟩, (compIdx_eq_some_iff D.scc.nodup).2 ⟨hj, hwj⟩, ?_⟩
    by_cases hij : i = j
    · exact Or.inl hij
    · right
      apply (D.edges i j hi hj).2
      exact ⟨hij, u, by rw [getD_of_lt hi]; exact hui, w, hw, by rw [getD_of_lt hj]; exact hwj⟩
  acyclic := by
    intro h
    obtain ⟨i, hi⟩ := cyclic_range_of_onCycle h
    exact D.acyclic i hi

theorem CondOpenOK.of_explored {V nodes : List Nat} {adj : Adj} {comps cadj : List (List Nat)}
    (hsub : nodes ⊆ V) (hreach : ∀ v ∈ V, ∃ s ∈ nodes, Reach adj s v)
    (D : IsCondensation V adj comps cadj) : CondOpenOK nodes adj comps cadj where
  scc := SccOpenOK.of_explored hsub hreach D.scc
  len := D.len
  range := D.range
  sound := by
    intro i hi j hj
    have hil : i < cadj.length := by rw [D.len]; exact hi
    have hmem : cadj.getD i [] ∈ cadj := by rw [getD_of_lt hil]; exact List.getElem_mem hil
    have hjl : j < comps.length := D.range _ hmem j hj
    exact (D.edges i j hi hjl).1 hj
  listed := by
    intro u hu w hw
    have hwn := mem_adjIn_nodes hw
    obtain ⟨i, hi, hui⟩ := mem_flatten_iff_getElem.1 ((D.scc.cover u).2 (hsub hu))
    obtain ⟨j, hj, hwj⟩ := mem_flatten_iff_getElem.1 ((D.scc.cover w).2 (hsub hwn))
    refine ⟨i, j, (compIdx_eq_some_iff D.scc.nodup).2 ⟨hi, hui⟩, (compIdx_eq_some_iff D.scc.nodup).2 ⟨hj, hwj⟩, ?_⟩
    by_cases hij : i = j
    · exact Or.inl hij
    · right
      apply (D.edges i j hi hj).2
      exact ⟨hij, u, by rw [getD_of_lt hi]; exact hui, w, (mem_adjIn.1 hw).1, by rw [getD_of_lt hj]; exact hwj⟩
  acyclic := by
    intro h
    obtain ⟨i, hi⟩ := cyclic_range_of_onCycle h
    exact D.acyclic i hi

end Solvor.Graph
