import Solvor.Graph.Spec
/-! Graph: helper lemmas for the C14 theorems (core Lean only). -/
namespace Solvor.Graph

/-! ### `Reach` -/

theorem Reach.trans {adj : Adj} {a b c : Nat} (h1 : Reach adj a b) (h2 : Reach adj b c) : Reach adj a c := by
  induction h2 with
  | refl => exact h1
  | tail _ hc ih => exact Reach.tail ih hc

theorem Reach.single {adj : Adj} {a b : Nat} (h : b ∈ adj a) : Reach adj a b := Reach.tail (Reach.refl a) h

theorem Reach.head {adj : Adj} {a b c : Nat} (h : b ∈ adj a) (h2 : Reach adj b c) : Reach adj a c :=
  (Reach.single h).trans h2

theorem Reach.cases_head {adj : Adj} {a c : Nat} (h : Reach adj a c) :
    a = c ∨ ∃ b, b ∈ adj a ∧ Reach adj b c := by
  induction h with
  | refl => exact Or.inl rfl
  | tail hab hc ih =>
    rcases ih with rfl | ⟨b, hb, hbc⟩
    · exact Or.inr ⟨_, hc, Reach.refl _⟩
    · exact Or.inr ⟨b, hb, Reach.tail hbc hc⟩

theorem Reach.mem_closed {V : List Nat} {adj : Adj} (hc : Closed V adj) {a b : Nat} (ha : a ∈ V)
    (h : Reach adj a b) : b ∈ V := by
  induction h with
  | refl => exact ha
  | tail _ hcb ih => exact hc _ ih _ hcb

/-- a path of the graph induced on `nodes` is a path of the graph -/
theorem Reach.of_adjIn {nodes : List Nat} {adj : Adj} {a b : Nat} (h : Reach (adjIn nodes adj) a b) :
    Reach adj a b := by
  induction h with
  | refl => exact Reach.refl _
  | tail _ hc ih => exact Reach.tail ih (List.mem_filter.1 hc).1

theorem closed_adjIn (nodes : List Nat) (adj : Adj) : Closed nodes (adjIn nodes adj) := by
  intro v _ w hw
  have := (List.mem_filter.1 hw).2
  simpa using this

theorem adjIn_eq_of_closed {V : List Nat} {adj : Adj} (hc : Closed V adj) {v : Nat} (hv : v ∈ V) :
    adjIn V adj v = adj v := by
  unfold adjIn
  apply List.filter_eq_self.2
  intro w hw
  simpa using hc v hv w hw

/-- two equivalent ways of saying "v lies on a cycle" -/
theorem onCycle_iff {adj : Adj} {v : Nat} : OnCycle adj v ↔ ∃ p, Reach adj v p ∧ v ∈ adj p := by
  constructor
  · rintro ⟨w, hw, hr⟩
    -- from the walk v → w →* v obtain its last edge
    have : ∀ {x}, Reach adj w x → ∃ p, Reach adj v p ∧ x ∈ adj p := by
      intro x hx
      induction hx with
      | refl => exact ⟨v, Reach.refl _, hw⟩
      | tail hab hc _ => exact ⟨_, Reach.head hw hab, hc⟩
    exact this hr
  · rintro ⟨p, hr, hp⟩
    rcases hr.cases_head with h | ⟨b, hb, hbp⟩
    · subst h; exact ⟨v, hp, Reach.refl _⟩
    · exact ⟨b, hb, Reach.tail hbp hp⟩

/-! ### counting -/

theorem countP_lt_of_imp {S : List Nat} {P Q : Nat → Bool} (himp : ∀ y ∈ S, P y = true → Q y = true)
    (hz : ∃ z ∈ S, Q z = true ∧ P z = false) : S.countP P < S.countP Q := by
  induction S with
  | nil => obtain ⟨z, hz, _⟩ := hz; cases hz
  | cons a t ih =>
    rw [List.countP_cons, List.countP_cons]
    obtain ⟨z, hzm, hq, hp⟩ := hz
    have himp' : ∀ y ∈ t, P y = true → Q y = true := fun y hy => himp y (List.mem_cons_of_mem _ hy)
    have hle : t.countP P ≤ t.countP Q := List.countP_mono_left himp'
    rcases List.mem_cons.1 hzm with rfl | hzt
    · simp [hq, hp]; omega
    · have := ih himp' ⟨z, hzt, hq, hp⟩
      have ha := himp a List.mem_cons_self
      by_cases hpa : P a = true
      · simp [hpa, ha hpa]; omega
      · simp [hpa]; split <;> omega

/-! ### `dedup` -/

theorem mem_dedup {l : List Nat} {x : Nat} : x ∈ dedup l ↔ x ∈ l := by
  induction l with
  | nil => simp [dedup]
  | cons a t ih =>
    by_cases h : a ∈ t
    · simp only [dedup, List.contains_iff_mem, h, if_true, ih, List.mem_cons]
      constructor
      · exact Or.inr
      · rintro (h' | h')
        · subst h'; exact h
        · exact h'
    · simp [dedup, h, ih]

theorem nodup_dedup (l : List Nat) : (dedup l).Nodup := by
  induction l with
  | nil => simp [dedup]
  | cons a t ih =>
    by_cases h : a ∈ t
    · simpa [dedup, h] using ih
    · simp only [dedup, List.contains_iff_mem, h, if_false, List.nodup_cons]
      exact ⟨by rw [mem_dedup]; exact h, ih⟩

/-! ### `closure` / `reach` -/

theorem frontier_none {adj : Adj} {S : List Nat} (h : frontier adj S = none) :
    ∀ s ∈ S, ∀ w ∈ adj s, w ∈ S := by
  intro s hs w hw
  unfold frontier at h
  rw [List.find?_eq_none] at h
  have := h w (List.mem_flatMap.2 ⟨s, hs, hw⟩)
  simpa using this

theorem frontier_some {adj : Adj} {S : List Nat} {w : Nat} (h : frontier adj S = some w) :
    w ∉ S ∧ ∃ s ∈ S, w ∈ adj s := by
  unfold frontier at h
  have h1 := List.find?_some h
  have h2 := List.mem_of_find?_eq_some h
  obtain ⟨s, hs, hw⟩ := List.mem_flatMap.1 h2
  exact ⟨by simpa using h1, s, hs, hw⟩

theorem closure_subset {adj : Adj} (fuel : Nat) (S : List Nat) : ∀ x ∈ S, x ∈ closure adj fuel S := by
  induction fuel generalizing S with
  | zero => intro x hx; simpa [closure] using hx
  | succ f ih =>
    intro x hx
    unfold closure
    split
    · exact hx
    · exact ih _ x (List.mem_append_left _ hx)

theorem closure_sound {adj : Adj} {src : List Nat} (fuel : Nat) (S : List Nat)
    (hS : ∀ x ∈ S, ∃ s ∈ src, Reach adj s x) : ∀ x ∈ closure adj fuel S, ∃ s ∈ src, Reach adj s x := by
  induction fuel generalizing S with
  | zero => intro x hx; exact hS x (by simpa [closure] using hx)
  | succ f ih =>
    intro x hx
    unfold closure at hx
    split at hx
    · exact hS x hx
    · rename_i w hw
      obtain ⟨_, s, hs, hws⟩ := frontier_some hw
      refine ih (S ++ [w]) ?_ x hx
      intro y hy
      rcases List.mem_append.1 hy with h | h
      · exact hS y h
      · obtain ⟨s0, hs0, hr⟩ := hS s hs
        have : y = w := by simpa using h
        subst this
        exact ⟨s0, hs0, Reach.tail hr hws⟩

/-- a duplicate-free sublist of `U` that is at least as long as `U` contains all of `U` -/
theorem subset_of_nodup_length_ge {S U : List Nat} (hn : S.Nodup) (hs : S ⊆ U) (hl : U.length ≤ S.length) :
    U ⊆ S := by
  intro x hx
  apply Classical.byContradiction
  intro hxS
  have h1 : (x :: S).Nodup := List.nodup_cons.2 ⟨hxS, hn⟩
  have h2 : (x :: S) ⊆ U := by
    intro y hy
    rcases List.mem_cons.1 hy with rfl | h
    · exact hx
    · exact hs h
  have := h1.length_le_of_subset h2
  simp at this
  omega

theorem closure_closed {adj : Adj} {U : List Nat} (hc : Closed U adj) (fuel : Nat) (S : List Nat)
    (hn : S.Nodup) (hs : S ⊆ U) (hl : U.length ≤ fuel + S.length) :
    ∀ s ∈ closure adj fuel S, ∀ w ∈ adj s, w ∈ closure adj fuel S := by
  induction fuel generalizing S with
  | zero =>
    intro s hs' w hw
    simp only [closure] at hs' ⊢
    exact subset_of_nodup_length_ge hn hs (by omega) (hc s (hs hs') w hw)
  | succ f ih =>
    unfold closure
    split
    · rename_i hnone; exact frontier_none hnone
    · rename_i w hw
      obtain ⟨hwS, s, hsS, hws⟩ := frontier_some hw
      apply ih
      · rw [List.nodup_append]
        refine ⟨hn, by simp, ?_⟩
        intro a ha b hb
        have : b = w := by simpa using hb
        subst this
        intro hab; subst hab; exact hwS ha
      · intro y hy
        rcases List.mem_append.1 hy with h | h
        · exact hs h
        · have : y = w := by simpa using h
          subst this
          exact hc s (hs hsS) _ hws
      · simp; omega

/-- **verified reachability**: in a universe closed under `adj`, `reach` lists exactly the vertices
reachable from a source -/
theorem mem_reach_iff {adj : Adj} {U src : List Nat} (hc : Closed U adj) (hs : src ⊆ U) {x : Nat} :
    x ∈ reach adj U src ↔ ∃ s ∈ src, Reach adj s x := by
  unfold reach
  constructor
  · intro hx
    refine closure_sound _ _ ?_ x hx
    intro y hy
    exact ⟨y, mem_dedup.1 hy, Reach.refl _⟩
  · rintro ⟨s, hs', hr⟩
    have hcl := closure_closed hc U.length (dedup src) (nodup_dedup _)
      (fun y hy => hs (mem_dedup.1 hy)) (by omega)
    induction hr with
    | refl => exact closure_subset _ _ _ (mem_dedup.2 hs')
    | tail _ hcb ih => exact hcl _ ih _ hcb

/-! ### SCC certificate -/

theorem mem_flatten_iff_getElem {comps : List (List Nat)} {v : Nat} :
    v ∈ comps.flatten ↔ ∃ i, ∃ h : i < comps.length, v ∈ comps[i] := by
  rw [List.mem_flatten]
  constructor
  · rintro ⟨l, hl, hv⟩
    obtain ⟨i, h, rfl⟩ := List.mem_iff_getElem.1 hl
    exact ⟨i, h, hv⟩
  · rintro ⟨i, h, hv⟩
    exact ⟨_, List.getElem_mem h, hv⟩

/-- in a partition every vertex has one class index -/
theorem class_unique {comps : List (List Nat)} (hn : comps.flatten.Nodup) {v i j : Nat}
    {hi : i < comps.length} {hj : j < comps.length} (h1 : v ∈ comps[i]) (h2 : v ∈ comps[j]) : i = j := by
  have hp := (List.pairwise_flatten.1 hn).2
  rw [List.pairwise_iff_getElem] at hp
  rcases Nat.lt_trichotomy i j with h | h | h
  · exact absurd rfl (hp i j hi hj h v h1 v h2)
  · exact h
  · exact absurd rfl (hp j i hj hi h v h2 v h1)

/-- along a walk the class index never increases -/
theorem SccCert.reach_idx_le {V : List Nat} {adj : Adj} {comps : List (List Nat)} (C : SccCert V adj comps)
    {u v i : Nat} {hi : i < comps.length} (hu : u ∈ comps[i]) (h : Reach adj u v) :
    ∃ j, ∃ hj : j < comps.length, j ≤ i ∧ v ∈ comps[j] := by
  induction h with
  | refl => exact ⟨i, hi, Nat.le_refl _, hu⟩
  | @tail b c _ hcb ih =>
    obtain ⟨j, hj, hji, hb⟩ := ih
    have hbV : b ∈ V := (C.cover b).1 (mem_flatten_iff_getElem.2 ⟨j, hj, hb⟩)
    have hcV : c ∈ V := C.closed b hbV c hcb
    obtain ⟨k, hk, hc⟩ := mem_flatten_iff_getElem.1 ((C.cover c).2 hcV)
    refine ⟨k, hk, ?_, hc⟩
    apply Classical.byContradiction
    intro hlt
    have hord := C.order
    unfold SinksFirst at hord
    rw [List.pairwise_iff_getElem] at hord
    exact hord j k hj hk (by omega) b hb c hcb hc

theorem SccCert.isSccDecomp {V : List Nat} {adj : Adj} {comps : List (List Nat)} (C : SccCert V adj comps) :
    IsSccDecomp V adj comps where
  nodup := C.nodup
  cover := C.cover
  nonempty := fun c hc => (C.strong c hc).1
  order := C.order
  classes := by
    intro u hu v hv
    constructor
    · rintro ⟨c, hc, huc, hvc⟩
      exact ⟨(C.strong c hc).2 u huc v hvc, (C.strong c hc).2 v hvc u huc⟩
    · rintro ⟨huv, hvu⟩
      obtain ⟨i, hi, hui⟩ := mem_flatten_iff_getElem.1 ((C.cover u).2 hu)
      obtain ⟨j, hj, hvj⟩ := mem_flatten_iff_getElem.1 ((C.cover v).2 hv)
      obtain ⟨j', hj', hle1, hvj'⟩ := C.reach_idx_le hui huv
      obtain ⟨i', hi', hle2, hui'⟩ := C.reach_idx_le hvj hvu
      have e1 : j' = j := class_unique C.nodup hvj' hvj
      have e2 : i' = i := class_unique C.nodup hui' hui
      have : i = j := by omega
      subst this
      exact ⟨comps[i], List.getElem_mem hi, hui, hvj⟩

theorem IsSccDecomp.cert {V : List Nat} {adj : Adj} {comps : List (List Nat)} (hc : Closed V adj)
    (D : IsSccDecomp V adj comps) : SccCert V adj comps where
  closed := hc
  nodup := D.nodup
  cover := D.cover
  order := D.order
  strong := by
    intro c hcm
    refine ⟨D.nonempty c hcm, ?_⟩
    intro u hu v hv
    have huV : u ∈ V := (D.cover u).1 (List.mem_flatten.2 ⟨c, hcm, hu⟩)
    have hvV : v ∈ V := (D.cover v).1 (List.mem_flatten.2 ⟨c, hcm, hv⟩)
    exact ((D.classes u huV v hvV).1 ⟨c, hcm, hu, hv⟩).1

/-! ### Boolean checkers -/

theorem closedB_iff {V : List Nat} {adj : Adj} : closedB V adj = true ↔ Closed V adj := by
  simp [closedB, Closed]

theorem orderB_iff {adj : Adj} {comps : List (List Nat)} : orderB adj comps = true ↔ SinksFirst adj comps := by
  unfold SinksFirst
  induction comps with
  | nil => simp [orderB]
  | cons a rest ih =>
    simp only [orderB, Bool.and_eq_true, ih, List.pairwise_cons]
    simp

theorem strongB_iff {V : List Nat} {adj : Adj} (hc : Closed V adj) {c : List Nat} (hcV : c ⊆ V) :
    strongB V adj c = true ↔ c ≠ [] ∧ ∀ u ∈ c, ∀ v ∈ c, Reach adj u v := by
  cases c with
  | nil => simp [strongB]
  | cons h t =>
    have hh : h ∈ V := hcV (List.mem_cons_self)
    simp only [strongB, List.all_eq_true, Bool.and_eq_true, List.contains_iff_mem]
    constructor
    · intro H
      refine ⟨by simp, ?_⟩
      intro u hu v hv
      have h1 := H u hu
      have h2 := H v hv
      have r1 : Reach adj u h := by
        have := (mem_reach_iff hc (src := [u]) (by intro y hy; simp at hy; subst hy; exact hcV hu)).1 h1.2
        simpa using this
      have r2 : Reach adj h v := by
        have := (mem_reach_iff hc (src := [h]) (by intro y hy; simp at hy; subst hy; exact hh)).1 h2.1
        simpa using this
      exact r1.trans r2
    · rintro ⟨_, H⟩ v hv
      constructor
      · apply (mem_reach_iff hc (src := [h]) (by intro y hy; simp at hy; subst hy; exact hh)).2
        exact ⟨h, by simp, H h List.mem_cons_self v hv⟩
      · apply (mem_reach_iff hc (src := [v]) (by intro y hy; simp at hy; subst hy; exact hcV hv)).2
        exact ⟨v, by simp, H v hv h List.mem_cons_self⟩

theorem chkScc_iff_cert {V : List Nat} {adj : Adj} {comps : List (List Nat)} :
    chkScc V adj comps = true ↔ SccCert V adj comps := by
  unfold chkScc
  simp only [Bool.and_eq_true, decide_eq_true_eq, closedB_iff, orderB_iff, List.all_eq_true,
    List.contains_iff_mem]
  constructor
  · rintro ⟨⟨⟨⟨⟨h1, h2⟩, h3⟩, h4⟩, h5⟩, h6⟩
    refine ⟨h1, h2, fun v => ⟨h3 v, h4 v⟩, ?_, h6⟩
    intro c hc
    exact (strongB_iff h1 (fun x hx => h3 x (List.mem_flatten.2 ⟨c, hc, hx⟩))).1 (h5 c hc)
  · intro C
    refine ⟨⟨⟨⟨⟨C.closed, C.nodup⟩, fun v => (C.cover v).1⟩, fun v => (C.cover v).2⟩, ?_⟩, C.order⟩
    intro c hc
    exact (strongB_iff C.closed (fun x hx => (C.cover x).1 (List.mem_flatten.2 ⟨c, hc, hx⟩))).2 (C.strong c hc)

end Solvor.Graph
