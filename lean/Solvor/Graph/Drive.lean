import Solvor.Common.Proto
import Solvor.Graph.Model
/-! Graph: line-protocol handler (C14).

request `["big", nodes, table]` → `[closed, mScc, mTopo|null, mCadj]` (mirrors only, see below), and
request `["case", nodes, table, scc, topo, cond]`
  nodes : node list (naturals, iteration order of the `nodes` iterable)
  table : `[[v, [w, …]], …]` – the neighbour list of every vertex the neighbour function is
          defined on (members of the node list and vertices outside it); other vertices have none
  scc   : `null` or the component lists returned by the implementation
  topo  : `null`, `[0]` (INFEASIBLE) or `[1, order]`
  cond  : `null` or `[comps, cadj]` (`cadj[i]` = indices of the successors of component `i`)
reply `[closed, mScc, mTopo|null, mCadj, certModel, sccV, topoV, condV, universeClosed]`
  closed    : every neighbour of a node is in the node list
  mScc/mTopo/mCadj : the mirrors `tarjan`, `kahn` (null = INFEASIBLE), `condEdges`
  certModel : `[chkScc VB adj mScc, kahn verdict checked, chkCondense VB adj mScc mCadj,
              chkCondOpen U nodes adj mScc mCadj]`
  sccV      : `null` or `[A, B, open]` – `chkScc` on the implementation's components under reading
              A (graph induced on the node list), B (graph explored from it) and the clauses
              common to both
  topoV     : `null` or `[A, B, open]` (`chkTopo`, or `cyclicB` when INFEASIBLE was returned)
  condV     : `null` or `[A, B, open]`
  universeClosed : the universe `U` built from the request is closed under `adj` and contains the
              node list (the hypotheses of `chkSccOpen_correct` etc.); never used for a verdict
-/
namespace Solvor.Graph
open Solvor.Proto

def parseTable (v : Val) : Option (List (Nat × List Nat)) := do
  (← v.toArr?).mapM fun e =>
    match e with
    | Val.arr [k, l] => do pure ((← k.toNat?), (← l.toNats?))
    | _ => none

def tri (a b c : Bool) : Val := Val.arr [Val.bool a, Val.bool b, Val.bool c]

def handle (line : String) : String :=
  match request line with
  | some ("case", [nodes, table, scc, topo, cond]) =>
    match nodes.toNats?, parseTable table with
    | some nodes, some tbl =>
      let adj : Adj := fun v => ((tbl.find? fun p => p.1 == v).map (·.2)).getD []
      let U := dedup (nodes ++ tbl.map (·.1) ++ tbl.flatMap (·.2))
      let VB := reach adj U nodes
      let aIn := adjIn nodes adj
      let closed := closedB nodes adj
      let mScc := tarjan U nodes adj
      let mTopo := kahn nodes adj
      let mCadj := condEdges nodes adj mScc
      let certTopo := match mTopo with
        | some o => chkTopo nodes adj o
        | none => cyclicB nodes adj
      let sccV := match scc.toNatss? with
        | some cs => tri (chkScc nodes aIn cs) (chkScc VB adj cs) (chkSccOpen U nodes adj cs)
        | none => Val.null
      let topoV := match topo with
        | Val.arr [Val.int 0] =>
          tri (cyclicB nodes adj) (cyclicB VB adj) (cyclicB VB adj)
        | Val.arr [Val.int 1, o] =>
          match o.toNats? with
          | some o => tri (chkTopo nodes adj o) (chkTopo VB adj o) (chkTopoOpen U nodes adj o)
          | none => Val.null
        | _ => Val.null
      let condV := match cond with
        | Val.arr [cs, ca] =>
          match cs.toNatss?, ca.toNatss? with
          | some cs, some ca =>
            tri (chkCondense nodes aIn cs ca) (chkCondense VB adj cs ca) (chkCondOpen U nodes adj cs ca)
          | _, _ => Val.null
        | _ => Val.null
      (Val.arr [Val.bool closed, Val.ofNatss mScc, Val.ofOpt Val.ofNats mTopo, Val.ofNatss mCadj,
        Val.arr [Val.bool (chkScc VB adj mScc), Val.bool certTopo, Val.bool (chkCondense VB adj mScc mCadj),
          Val.bool (chkCondOpen U nodes adj mScc mCadj)],
        sccV, topoV, condV,
        -- hypothesis `Closed U adj` of the `chk…Open_correct` theorems, reported separately so the
        -- harness can refuse to run (infrastructure failure) if the universe were ever built wrongly;
        -- it takes no part in any verdict and does not affect `closed` above
        Val.bool (closedB U adj && nodes.all fun v => U.contains v)]).render
    | _, _ => err "bad arguments"
  | some ("big", [nodes, table]) =>
    -- large closed graphs: only the mirrors (proved correct for every input: `tarjan_correct_closed`,
    -- `kahn_correct`, `condense_correct`); the harness compares the returned values with them
    match nodes.toNats?, parseTable table with
    | some nodes, some tbl =>
      let arr := tbl.toArray
      -- the harness sends the table of a large graph indexed by vertex (`table[v] = [v, nbrs]`)
      let adj : Adj := fun v => match arr[v]? with
        | some p => if p.1 == v then p.2 else []
        | none => []
      let mScc := tarjan nodes nodes adj
      (Val.arr [Val.bool (closedB nodes adj), Val.ofNatss mScc, Val.ofOpt Val.ofNats (kahn nodes adj),
        Val.ofNatss (condEdges nodes adj mScc)]).render
    | _, _ => err "bad arguments"
  | _ => err "bad request"

end Solvor.Graph
