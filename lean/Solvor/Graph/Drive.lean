import Solvor.Common.Proto
import Solvor.Graph.Model
/-! Graph: line-protocol handler. One request line in, one reply line out. -/
namespace Solvor.Graph

def handle (line : String) : String := "unimplemented " ++ line

end Solvor.Graph
