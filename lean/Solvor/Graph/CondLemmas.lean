import Solvor.Graph.Lemmas
/-! Graph: lemmas about the condensation (checker and mirror), core Lean only. -/
namespace Solvor.Graph

theorem getD_of_lt {comps : List (List Nat)} {i : Nat} (h : i < comps.length) : comps.getD i [] = comps[i] := by
  simp [List.getD_eq_getElem?_getD, h]

theorem compIdx_eq_some_iff {comps : List (List Nat)} (hn : comps.flatten.Nodup) {v i : Nat} :
    compIdx comps v = some i ↔ ∃ h : i < comps.length, v ∈ comps[i] := by
  unfold compIdx
  rw [List.findIdx?_eq_some_iff_getElem]
  constructor
  · rintro ⟨h, hv, _⟩
    exact ⟨h, by simpa using hv⟩
  · rintro ⟨h, hv⟩
    refine ⟨h, by simpa using hv, ?_⟩
    intro j hji hvj
    have hj : j < comps.length := by omega
    have : v ∈ comps[j] := by simpa using hvj
    have := class_unique hn (hi := hj) (hj := h) this hv
    omega

theorem chkCondEdges_iff {adj : Adj} {comps cadj : List (List Nat)} :
    chkCondEdges adj comps cadj = true ↔
      cadj.length = comps.length ∧ ∀ i j, i < comps.length → j < comps.length →
        (j ∈ cadj.getD i [] ↔ i ≠ j ∧ ∃ u ∈ comps.getD i [], ∃ w ∈ adj u, w ∈ comps.getD j []) := by
  unfold chkCondEdges
  simp only [Bool.and_eq_true, decide_eq_true_eq, List.all_eq_true, List.mem_range, beq_iff_eq]
  constructor
  · rintro ⟨h1, h2⟩
    refine ⟨h1, ?_⟩
    intro i j hi hj
    have := h2 i hi j hj
    rw [← List.contains_iff_mem, this]
    simp
  · rintro ⟨h1, h2⟩
    refine ⟨h1, ?_⟩
    intro i hi j hj
    have := h2 i j hi hj
    rw [Bool.eq_iff_iff, List.contains_iff_mem, this]
    simp

theorem chkCondense_iff {V : List Nat} {adj : Adj} {comps cadj : List (List Nat)} :
    chkCondense V adj comps cadj = true ↔ Closed V adj ∧ IsCondensation V adj comps cadj := by
  unfold chkCondense
  simp only [Bool.and_eq_true, chkScc_iff_cert, chkCondEdges_iff, List.all_eq_true, decide_eq_true_eq]
  constructor
  · rintro ⟨⟨C, hl, he⟩, hr⟩
    exact ⟨C.closed, C.isSccDecomp, hl, hr, he⟩
  · rintro ⟨hc, D⟩
    exact ⟨⟨D.scc.cert hc, D.len, D.edges⟩, D.range⟩

/-- every edge of the condensed graph goes to an earlier class -/
theorem IsCondensation.edge_down {V : List Nat} {adj : Adj} {comps cadj : List (List Nat)}
    (D : IsCondensation V adj comps cadj) {i j : Nat} (hi : i < comps.length) (h : j ∈ cadjFn cadj i) : j < i := by
  have hil : i < cadj.length := by rw [D.len]; exact hi
  have hmem : cadj.getD i [] ∈ cadj := by rw [getD_of_lt hil]; exact List.getElem_mem hil
  have hj : j < comps.length := D.range _ hmem j h
  obtain ⟨hne, u, hu, w, hw, hwj⟩ := (D.edges i j hi hj).1 h
  rw [getD_of_lt hi] at hu
  rw [getD_of_lt hj] at hwj
  apply Classical.byContradiction
  intro hlt
  have hord := D.scc.order
  unfold SinksFirst at hord
  rw [List.pairwise_iff_getElem] at hord
  exact hord i j hi hj (by omega) u hu w hw hwj

theorem cadjFn_nil_of_ge {cadj : List (List Nat)} {i : Nat} (h : cadj.length ≤ i) : cadjFn cadj i = [] := by
  simp [cadjFn, List.getD_eq_getElem?_getD, h]

theorem IsCondensation.reach_le {V : List Nat} {adj : Adj} {comps cadj : List (List Nat)}
    (D : IsCondensation V adj comps cadj) {i j : Nat} (h : Reach (cadjFn cadj) i j) : j ≤ i := by
  induction h with
  | refl => exact Nat.le_refl _
  | @tail b c _ hc ih =>
    by_cases hb : b < comps.length
    · have := D.edge_down hb hc; omega
    · rw [cadjFn_nil_of_ge (by rw [D.len]; omega)] at hc; cases hc

/-- the condensed graph is acyclic -/
theorem IsCondensation.acyclic {V : List Nat} {adj : Adj} {comps cadj : List (List Nat)}
    (D : IsCondensation V adj comps cadj) (i : Nat) : ¬ OnCycle (cadjFn cadj) i := by
  rintro ⟨w, hw, hr⟩
  by_cases hi : i < comps.length
  · have := D.edge_down hi hw
    have := D.reach_le hr
    omega
  · rw [cadjFn_nil_of_ge (by rw [D.len]; omega)] at hw; cases hw

/-- the mirror's edge construction is correct for every SCC decomposition it is applied to -/
theorem condEdges_spec {V nodes : List Nat} {adj : Adj} {comps : List (List Nat)}
    (hV : ∀ v, v ∈ nodes ↔ v ∈ V) (D : IsSccDecomp V adj comps) :
    IsCondensation V adj comps (condEdges nodes adj comps) := by
  have hlen : (condEdges nodes adj comps).length = comps.length := by simp [condEdges]
  have hmemE : ∀ i, i < comps.length → ∀ j, (j ∈ (condEdges nodes adj comps).getD i [] ↔
      ∃ v ∈ nodes, compIdx comps v = some i ∧ ∃ w ∈ adj v, compIdx comps w = some j ∧ j ≠ i) := by
    intro i hi j
    rw [getD_of_lt (by rw [hlen]; exact hi)]
    simp only [condEdges, condPairs, List.getElem_map, List.getElem_range, mem_dedup, List.mem_map,
      List.mem_filter, List.mem_flatMap, beq_iff_eq]
    constructor
    · rintro ⟨⟨a, b⟩, ⟨⟨v, hv, hp⟩, hai⟩, hbj⟩
      simp only at hai hbj
      subst hai; subst hbj
      cases hci : compIdx comps v with
      | none => simp [hci] at hp
      | some i' =>
        simp only [hci, List.mem_filterMap] at hp
        obtain ⟨w, hw, hp⟩ := hp
        cases hcj : compIdx comps w with
        | none => simp [hcj] at hp
        | some j' =>
          simp only [hcj] at hp
          by_cases hne : j' = i'
          · simp [hne] at hp
          · simp only [bne_iff_ne, ne_eq, hne, not_false_eq_true, if_true, Option.some.injEq,
              Prod.mk.injEq] at hp
            obtain ⟨h1, h2⟩ := hp
            subst h1; subst h2
            exact ⟨v, hv, hci, w, hw, hcj, hne⟩
    · rintro ⟨v, hv, hvi, w, hw, hwj, hne⟩
      refine ⟨(i, j), ⟨⟨v, hv, ?_⟩, rfl⟩, rfl⟩
      simp only [hvi, List.mem_filterMap]
      exact ⟨w, hw, by simp [hwj, hne]⟩
  refine ⟨D, hlen, ?_, ?_⟩
  · intro l hl j hj
    obtain ⟨i, hi, rfl⟩ := List.mem_iff_getElem.1 hl
    have hi' : i < comps.length := by rw [← hlen]; exact hi
    have := (hmemE i hi' j).1 (by rw [getD_of_lt hi]; exact hj)
    obtain ⟨_, _, _, w, _, hwj, _⟩ := this
    exact ((compIdx_eq_some_iff D.nodup).1 hwj).1
  · intro i j hi hj
    rw [hmemE i hi j, getD_of_lt hi, getD_of_lt hj]
    constructor
    · rintro ⟨v, _, hvi, w, hw, hwj, hne⟩
      obtain ⟨_, h1⟩ := (compIdx_eq_some_iff D.nodup).1 hvi
      obtain ⟨_, h2⟩ := (compIdx_eq_some_iff D.nodup).1 hwj
      exact ⟨fun h => hne h.symm, v, h1, w, hw, h2⟩
    · rintro ⟨hne, u, hu, w, hw, hwj⟩
      have huV : u ∈ V := (D.cover u).1 (mem_flatten_iff_getElem.2 ⟨i, hi, hu⟩)
      exact ⟨u, (hV u).2 huV, (compIdx_eq_some_iff D.nodup).2 ⟨hi, hu⟩, w, hw,
        (compIdx_eq_some_iff D.nodup).2 ⟨hj, hwj⟩, fun h => hne h.symm⟩

end Solvor.Graph
