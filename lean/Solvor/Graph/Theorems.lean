import Solvor.Graph.OpenLemmas
import Solvor.Graph.TarjanTop
/-!
Graph: the property theorems of C14 (helper lemmas are in `Lemmas.lean`, `KahnLemmas.lean`,
`CondLemmas.lean`; the specifications are in `Spec.lean`).

* `Reach adj u v` – a walk from `u` to `v`; `Mutual` – walks both ways; `OnCycle adj v` – a
  non-empty closed walk through `v` (self loops count).
* `IsSccDecomp V adj comps` – the first clause of C14: `comps` partitions `V`, two vertices share a
  class **iff** they are mutually reachable, and no edge goes from an earlier class to a later one.
* `IsTopoOrder nodes adj order` / `Cyclic nodes adj` – the second clause.
* `IsCondensation V adj comps cadj` – the third clause.
-/
namespace Solvor.Graph

/-! ### T-spec: the SCC certificate -/

/-- **scc_cert** [C]: a partition of `V` into non-empty strongly connected sets, listed so that no
edge goes from an earlier to a later class (in a graph closed under `adj`), *is* the set of
mutual-reachability classes, sinks first. -/
theorem scc_cert {V : List Nat} {adj : Adj} {comps : List (List Nat)} (C : SccCert V adj comps) :
    IsSccDecomp V adj comps := C.isSccDecomp

/-- the Boolean checker evaluated by the driver on the implementation's output decides the
property's clause exactly (sound and complete) -/
theorem chkScc_iff {V : List Nat} {adj : Adj} {comps : List (List Nat)} :
    chkScc V adj comps = true ↔ Closed V adj ∧ IsSccDecomp V adj comps :=
  ⟨fun h => ⟨(chkScc_iff_cert.1 h).closed, scc_cert (chkScc_iff_cert.1 h)⟩,
   fun h => chkScc_iff_cert.2 (h.2.cert h.1)⟩

/-- the verified reachability function behind `chkScc`, `cyclicB` -/
theorem reach_correct {adj : Adj} {U src : List Nat} (hc : Closed U adj) (hs : src ⊆ U) (x : Nat) :
    x ∈ reach adj U src ↔ ∃ s ∈ src, Reach adj s x := mem_reach_iff hc hs

/-- two accepted decompositions have the same classes -/
theorem scc_decomp_unique {V : List Nat} {adj : Adj} {c₁ c₂ : List (List Nat)}
    (h₁ : chkScc V adj c₁ = true) (h₂ : chkScc V adj c₂ = true) :
    ∀ u ∈ V, ∀ v ∈ V, (∃ c ∈ c₁, u ∈ c ∧ v ∈ c) ↔ (∃ c ∈ c₂, u ∈ c ∧ v ∈ c) := by
  intro u hu v hv
  rw [(chkScc_iff.1 h₁).2.classes u hu v hv, (chkScc_iff.1 h₂).2.classes u hu v hv]

/-- example graph: 0 → 1 → 2 → 0, 2 → 3, 3 → 3 -/
def exAdj : Adj := fun v => match v with
  | 0 => [1] | 1 => [2] | 2 => [0, 3] | 3 => [3] | _ => []

-- non-vacuity: the certificate is met by the two-class decomposition of a 4-vertex graph with a
-- 3-cycle, and refused for a wrong order and for a wrong split
example : chkScc [0, 1, 2, 3] exAdj [[3], [2, 1, 0]] = true := by decide
example : chkScc [0, 1, 2, 3] exAdj [[2, 1, 0], [3]] = false := by decide
example : chkScc [0, 1, 2, 3] exAdj [[3], [2, 1], [0]] = false := by decide
example : SccCert [0, 1, 2, 3] exAdj [[3], [2, 1, 0]] := chkScc_iff_cert.1 (by decide)

/-! ### T-model: Kahn's algorithm (`topological_sort`), for every input -/

/-- **kahn_correct** [C]: for every duplicate-free node list and every neighbour function, the mirror
of `topological_sort` returns an order only if it is a permutation of the nodes with every edge
(between nodes) pointing forward, and reports INFEASIBLE exactly when the graph induced on the node
list has a cycle (so: acyclic ⇒ an order is returned, and a returned order ⇒ acyclic). -/
theorem kahn_correct (nodes : List Nat) (adj : Adj) (hn : nodes.Nodup) :
    (∀ order, kahn nodes adj = some order → IsTopoOrder nodes adj order) ∧
    (kahn nodes adj = none ↔ Cyclic nodes adj) := by
  obtain ⟨deg', I⟩ := kahnLoop_inv hn nodes.length _ _ _ (KInv.init (adj := adj) hn) (by simp)
  have hsome : ∀ order, kahn nodes adj = some order → IsTopoOrder nodes adj order := by
    intro order h
    unfold kahn at h
    simp only at h
    split at h
    · rename_i hl
      cases h
      exact I.final_topo hn hl
    · cases h
  refine ⟨hsome, ?_, ?_⟩
  · intro h
    unfold kahn at h
    simp only at h
    split at h
    · cases h
    · rename_i hl
      exact I.final_cyclic hn hl
  · intro hc
    cases h : kahn nodes adj with
    | none => rfl
    | some order => exact absurd hc (hsome order h).acyclic

/-- stuck-set form of the INFEASIBLE clause: a non-empty finite set in which every member has a
predecessor contains a cycle -/
theorem stuck_set_has_cycle {adj : Adj} {S : List Nat} (hne : S ≠ [])
    (hp : ∀ x ∈ S, ∃ p ∈ S, x ∈ adj p) : ∃ v ∈ S, OnCycle adj v := exists_cycle_of_pred_closed hne hp

/-- T-spec: a topological order certifies acyclicity -/
theorem topo_order_acyclic {nodes : List Nat} {adj : Adj} {order : List Nat}
    (T : IsTopoOrder nodes adj order) : ¬ Cyclic nodes adj := T.acyclic

/-- T-spec: the checkers evaluated on the implementation's answers decide the clause -/
theorem chkTopo_correct {nodes : List Nat} {adj : Adj} (hn : nodes.Nodup) (order : List Nat) :
    chkTopo nodes adj order = true ↔ IsTopoOrder nodes adj order := chkTopo_iff hn

theorem cyclicB_correct (nodes : List Nat) (adj : Adj) : cyclicB nodes adj = true ↔ Cyclic nodes adj :=
  cyclicB_iff

-- non-vacuity: a DAG with a duplicate edge gets an order, the example graph above is refused
example : kahn [2, 0, 1] (fun v => match v with | 0 => [1, 1] | 2 => [0] | _ => []) = some [2, 0, 1] := by decide
example : kahn [0, 1, 2, 3] exAdj = none := by decide
example : IsTopoOrder [2, 0, 1] (fun v => match v with | 0 => [1, 1] | 2 => [0] | _ => []) [2, 0, 1] :=
  (kahn_correct _ _ (by decide)).1 _ (by decide)
example : Cyclic [0, 1, 2, 3] exAdj := (kahn_correct _ _ (by decide)).2.1 (by decide)

/-! ### Condensation -/

/-- **condense_spec** [C]: in a condensation (classes = SCCs sinks first, class `i` lists class `j`
iff `i ≠ j` and an original edge joins them) every listed edge goes to an earlier class; hence the
condensed graph is acyclic. -/
theorem condense_spec {V : List Nat} {adj : Adj} {comps cadj : List (List Nat)}
    (D : IsCondensation V adj comps cadj) :
    (∀ i j, i < comps.length → j ∈ cadjFn cadj i → j < i) ∧ ∀ i, ¬ OnCycle (cadjFn cadj) i :=
  ⟨fun _ _ hi h => D.edge_down hi h, D.acyclic⟩

/-- the Boolean checker evaluated on `condense`'s output decides the clause -/
theorem chkCondense_correct {V : List Nat} {adj : Adj} {comps cadj : List (List Nat)} :
    chkCondense V adj comps cadj = true ↔ Closed V adj ∧ IsCondensation V adj comps cadj := chkCondense_iff

/-- the mirror of `condense`'s edge loop is correct on top of any correct decomposition (for all
inputs): whenever the components it is given are accepted by `chkScc`, its output is a condensation -/
theorem condense_mirror_spec {V U nodes : List Nat} {adj : Adj} (hV : ∀ v, v ∈ nodes ↔ v ∈ V)
    (h : chkScc V adj (tarjan U nodes adj) = true) :
    IsCondensation V adj (condense U nodes adj).1 (condense U nodes adj).2 :=
  condEdges_spec hV (chkScc_iff.1 h).2

example : condense [0, 1, 2, 3] [0, 1, 2, 3] exAdj = ([[3], [2, 1, 0]], [[], [0]]) := by decide
example : chkCondense [0, 1, 2, 3] exAdj [[3], [2, 1, 0]] [[], [0]] = true := by decide
example : IsCondensation [0, 1, 2, 3] exAdj [[3], [2, 1, 0]] [[], [0]] := (chkCondense_correct.1 (by decide)).2

/-! ### Neighbours outside the node list

When neighbour lists leave the node list the check decides only clauses that are required both when
the graph is read as *induced on the node list* and when it is read as *explored from it*.  The three
checkers below decide exactly the stated clause sets (`U` is any universe closed under `adj` that
contains the node list), and each clause set follows from the full specification under either
reading – so an answer that is right under one of the readings is never rejected. -/

theorem chkSccOpen_correct {U nodes : List Nat} {adj : Adj} (hc : Closed U adj) (hs : nodes ⊆ U)
    (comps : List (List Nat)) : chkSccOpen U nodes adj comps = true ↔ SccOpenOK nodes adj comps :=
  chkSccOpen_iff hc hs

theorem chkTopoOpen_correct {U nodes : List Nat} {adj : Adj} (hc : Closed U adj) (hs : nodes ⊆ U)
    (order : List Nat) : chkTopoOpen U nodes adj order = true ↔ TopoOpenOK nodes adj order :=
  chkTopoOpen_iff hc hs

theorem chkCondOpen_correct {U nodes : List Nat} {adj : Adj} (hc : Closed U adj) (hs : nodes ⊆ U)
    (comps cadj : List (List Nat)) : chkCondOpen U nodes adj comps cadj = true ↔ CondOpenOK nodes adj comps cadj :=
  chkCondOpen_iff hc hs

/-- the open clauses are implied by the full specification under the induced-graph reading and under
the explored-graph reading (`V` = any closed set of vertices reachable from the node list that
contains it); for INFEASIBLE the open clause is "the explored graph has a cycle", implied by a cycle
of the induced graph -/
theorem open_clauses_common {V nodes : List Nat} {adj : Adj} (hsub : nodes ⊆ V)
    (hreach : ∀ v ∈ V, ∃ s ∈ nodes, Reach adj s v) :
    (∀ comps, IsSccDecomp nodes (adjIn nodes adj) comps → SccOpenOK nodes adj comps) ∧
    (∀ comps, IsSccDecomp V adj comps → SccOpenOK nodes adj comps) ∧
    (∀ order, nodes.Nodup → IsTopoOrder nodes adj order → TopoOpenOK nodes adj order) ∧
    (∀ order, V.Nodup → IsTopoOrder V adj order → TopoOpenOK nodes adj order) ∧
    (Cyclic nodes adj → Cyclic V adj) ∧
    (∀ comps cadj, IsCondensation nodes (adjIn nodes adj) comps cadj → CondOpenOK nodes adj comps cadj) ∧
    (∀ comps cadj, IsCondensation V adj comps cadj → CondOpenOK nodes adj comps cadj) :=
  ⟨fun _ D => SccOpenOK.of_induced D, fun _ D => SccOpenOK.of_explored hsub hreach D,
   fun _ hn T => TopoOpenOK.of_induced hn T, fun _ hn T => TopoOpenOK.of_explored hn hsub hreach T,
   Cyclic.mono hsub,
   fun _ _ D => CondOpenOK.of_induced D, fun _ _ D => CondOpenOK.of_explored hsub hreach D⟩

/-- example with an outside vertex: node list [0, 1], 0 → 2 → 1 → 0 where 2 is outside -/
def exOpen : Adj := fun v => match v with
  | 0 => [2] | 2 => [1] | 1 => [0] | _ => []

-- the explored reading puts everything in one class, the induced reading gives [[0], [1]]; both pass
example : chkSccOpen [0, 1, 2] [0, 1] exOpen [[1, 2, 0]] = true := by decide
example : chkSccOpen [0, 1, 2] [0, 1] exOpen [[0], [1]] = true := by decide
example : chkSccOpen [0, 1, 2] [0, 1] exOpen [[1], [0]] = false := by decide
example : chkTopoOpen [0, 1, 2] [0, 1] exOpen [1, 0] = true := by decide
example : chkTopoOpen [0, 1, 2] [0, 1] exOpen [0, 1] = false := by decide
example : chkCondOpen [0, 1, 2] [0, 1] exOpen [[0], [1]] [[], [0]] = true := by decide

/-! ### T-model: Tarjan's algorithm (`strongly_connected_components`), for every input

`U` is any universe closed under the neighbour function that contains the node list (the driver
uses every label occurring in the request); the recursion fuel of the mirror is `U.length + 1` and
is proved sufficient.  The vertex set of the result is `reach adj U nodes`, the set explored from the
node list (equal to the node list when no neighbour lies outside it). -/

/-- **tarjan_certifies** [S]: on every input the mirror of `strongly_connected_components` emits a
decomposition accepted by the certificate checker `chkScc` – i.e. (by `chkScc_iff`) a partition of
the explored set into exactly the mutual-reachability classes, listed sinks first. -/
theorem tarjan_certifies (U nodes : List Nat) (adj : Adj) (hc : Closed U adj) (hs : nodes ⊆ U) :
    chkScc (reach adj U nodes) adj (tarjan U nodes adj) = true :=
  chkScc_iff_cert.2 (tarjan_cert hc hs)

/-- the same as a statement of the property's first clause -/
theorem tarjan_correct (U nodes : List Nat) (adj : Adj) (hc : Closed U adj) (hs : nodes ⊆ U) :
    IsSccDecomp (reach adj U nodes) adj (tarjan U nodes adj) :=
  scc_cert (tarjan_cert hc hs)

/-- no neighbours outside the node list: the components partition the node list itself -/
theorem tarjan_correct_closed (U nodes : List Nat) (adj : Adj) (hc : Closed U adj) (hs : nodes ⊆ U)
    (hcn : Closed nodes adj) : IsSccDecomp nodes adj (tarjan U nodes adj) := by
  refine (tarjan_correct U nodes adj hc hs).congr_mem ?_
  intro x
  rw [mem_reach_iff hc hs]
  exact ⟨fun ⟨s0, hs0, hr⟩ => hr.mem_closed hcn hs0, fun h => ⟨x, h, Reach.refl _⟩⟩

/-- **condense, for every input without outside neighbours**: the mirror of `condense` returns the
condensation (hence, by `condense_spec`, an acyclic graph) -/
theorem condense_correct (U nodes : List Nat) (adj : Adj) (hc : Closed U adj) (hs : nodes ⊆ U)
    (hcn : Closed nodes adj) :
    IsCondensation nodes adj (condense U nodes adj).1 (condense U nodes adj).2 :=
  condEdges_spec (fun _ => Iff.rfl) (tarjan_correct_closed U nodes adj hc hs hcn)

-- non-vacuity: the example graph (a 3-cycle feeding a self loop) and the graph with an outside vertex
example : tarjan [0, 1, 2, 3] [0, 1, 2, 3] exAdj = [[3], [2, 1, 0]] := by decide
example : Closed [0, 1, 2, 3] exAdj := closedB_iff.1 (by decide)
example : IsSccDecomp [0, 1, 2, 3] exAdj (tarjan [0, 1, 2, 3] [0, 1, 2, 3] exAdj) :=
  tarjan_correct_closed _ _ _ (closedB_iff.1 (by decide)) (fun _ h => h) (closedB_iff.1 (by decide))
example : tarjan [0, 1, 2] [0, 1] exOpen = [[1, 2, 0]] := by decide
example : chkScc (reach exOpen [0, 1, 2] [0, 1]) exOpen (tarjan [0, 1, 2] [0, 1] exOpen) = true :=
  tarjan_certifies _ _ _ (closedB_iff.1 (by decide)) (by decide)

end Solvor.Graph
