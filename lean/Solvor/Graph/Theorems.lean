import Solvor.Graph.Model
/-! Graph: property theorems only (helper lemmas live in Lemmas.lean). -/
namespace Solvor.Graph

end Solvor.Graph
