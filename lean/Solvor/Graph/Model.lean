/-!
Graph: executable models and Boolean checkers for `solvor/scc.py` (property C14).
No Mathlib imports (this file is linked into the driver `drv_graph`).

A directed graph is a *node list* plus a *neighbour function* `adj : Nat → List Nat`
(node labels are mapped to naturals by the harness; the neighbour lists keep their order and
their duplicates).

Mirrors (same iteration order, same tie-breaking, same early exits as the Python code):
* `tarjan`   – `strongly_connected_components` (recursive `strongconnect`, explicit stack,
               `index` / `low_link` dictionaries, `on_stack` = membership in the stack);
* `kahn`     – `topological_sort` (in-degree dictionary, FIFO queue seeded in node-list order,
               successors appended in neighbour order when their in-degree reaches 0,
               INFEASIBLE iff not every node was output);
* `condense` – `condense` (component index of every node, inter-component edge sets).

Checkers (spec side, all decided with the verified reachability function `reach`):
`chkScc`, `chkTopo`, `chkInfeasible`, `chkCondense`.
-/
namespace Solvor.Graph

abbrev Adj := Nat → List Nat

/-! ### Reachability (spec) -/

/-- `Reach adj a b`: there is a walk (possibly empty) from `a` to `b` along `adj`. -/
inductive Reach (adj : Adj) : Nat → Nat → Prop
  | refl (a : Nat) : Reach adj a a
  | tail {a b c : Nat} : Reach adj a b → c ∈ adj b → Reach adj a c

/-- mutual reachability – the equivalence whose classes are the strongly connected components -/
def Mutual (adj : Adj) (u v : Nat) : Prop := Reach adj u v ∧ Reach adj v u

/-- `v` lies on a cycle (a non-empty closed walk; a self loop counts) -/
def OnCycle (adj : Adj) (v : Nat) : Prop := ∃ w, w ∈ adj v ∧ Reach adj w v

/-- every neighbour of a vertex of `V` is in `V` -/
def Closed (V : List Nat) (adj : Adj) : Prop := ∀ v ∈ V, ∀ w ∈ adj v, w ∈ V

/-- the neighbour function restricted to the node list (what `topological_sort` keeps:
`if w in node_set`) -/
def adjIn (nodes : List Nat) (adj : Adj) : Adj := fun v => (adj v).filter fun w => nodes.contains w

/-! ### Reachability (executable) -/

/-- first neighbour of a member of `S` that is not in `S` -/
def frontier (adj : Adj) (S : List Nat) : Option Nat := (S.flatMap adj).find? fun w => !S.contains w

/-- grow `S` by one new neighbour at a time until closed (or the fuel is spent) -/
def closure (adj : Adj) : Nat → List Nat → List Nat
  | 0, S => S
  | fuel+1, S =>
    match frontier adj S with
    | none => S
    | some w => closure adj fuel (S ++ [w])

/-- duplicate-free version of a list (keeps the last occurrences) -/
def dedup : List Nat → List Nat
  | [] => []
  | x :: xs => if xs.contains x then dedup xs else x :: dedup xs

/-- everything reachable from a member of `src`, inside a universe `U` that is closed under `adj`
(`U.length` rounds suffice, see `mem_reach_iff`) -/
def reach (adj : Adj) (U : List Nat) (src : List Nat) : List Nat := closure adj U.length (dedup src)

/-! ### Checkers -/

def closedB (V : List Nat) (adj : Adj) : Bool := V.all fun v => (adj v).all fun w => V.contains w

/-- no edge from an earlier class to a later one (sinks first) -/
def orderB (adj : Adj) : List (List Nat) → Bool
  | [] => true
  | a :: rest => (rest.all fun b => a.all fun u => (adj u).all fun w => !b.contains w) && orderB adj rest

/-- class `c` is non-empty and strongly connected: every member is reachable from the head and
reaches the head -/
def strongB (V : List Nat) (adj : Adj) (c : List Nat) : Bool :=
  match c with
  | [] => false
  | h :: _ => c.all fun v => (reach adj V [h]).contains v && (reach adj V [v]).contains h

/-- the certificate check of `scc_cert`: `V` closed, `comps` a partition of `V` into non-empty
strongly connected classes, no edge from an earlier to a later class -/
def chkScc (V : List Nat) (adj : Adj) (comps : List (List Nat)) : Bool :=
  closedB V adj &&
  decide comps.flatten.Nodup &&
  comps.flatten.all (fun v => V.contains v) &&
  V.all (fun v => comps.flatten.contains v) &&
  comps.all (strongB V adj) &&
  orderB adj comps

/-- `order` is a permutation of `nodes` and every edge between nodes points forward -/
def chkTopo (nodes : List Nat) (adj : Adj) (order : List Nat) : Bool :=
  decide order.Nodup && order.all (fun v => nodes.contains v) && nodes.all (fun v => order.contains v) &&
  nodes.all fun u => (adj u).all fun w => !nodes.contains w || decide (order.idxOf u < order.idxOf w)

/-- some node lies on a cycle of the graph induced on `nodes` -/
def cyclicB (nodes : List Nat) (adj : Adj) : Bool :=
  nodes.any fun v => (adjIn nodes adj v).any fun w => (reach (adjIn nodes adj) nodes [w]).contains v

/-- index of the class containing `v` -/
def compIdx (comps : List (List Nat)) (v : Nat) : Option Nat := comps.findIdx? fun c => c.contains v

/-- `cadj[i]` lists exactly the classes `j ≠ i` joined to class `i` by an original edge
(order and repetitions inside `cadj[i]` are irrelevant: the code builds a set) -/
def chkCondEdges (adj : Adj) (comps : List (List Nat)) (cadj : List (List Nat)) : Bool :=
  decide (cadj.length = comps.length) &&
  (List.range comps.length).all fun i =>
    (List.range comps.length).all fun j =>
      ((cadj.getD i []).contains j) ==
        (i != j && (comps.getD i []).any fun u => (adj u).any fun w => (comps.getD j []).contains w)

def chkCondense (V : List Nat) (adj : Adj) (comps : List (List Nat)) (cadj : List (List Nat)) : Bool :=
  chkScc V adj comps && chkCondEdges adj comps cadj &&
  cadj.all (fun l => l.all fun j => decide (j < comps.length))

/-! ### Mirror of `topological_sort` (Kahn) -/

/-- one step of `for w in adjacency[v]: in_degree[w] -= 1; if in_degree[w] == 0: queue.append(w)` -/
def relax (st : (Nat → Int) × List Nat) (w : Nat) : (Nat → Int) × List Nat :=
  let d : Nat → Int := fun x => if x = w then st.1 x - 1 else st.1 x
  (d, if d w = 0 then st.2 ++ [w] else st.2)

/-- `while queue:` – pop left, output, relax the successors -/
def kahnLoop (nodes : List Nat) (adj : Adj) : Nat → (Nat → Int) → List Nat → List Nat → List Nat
  | 0, _, _, res => res
  | _+1, _, [], res => res
  | fuel+1, deg, v :: q, res =>
    let st := (adjIn nodes adj v).foldl relax (deg, q)
    kahnLoop nodes adj fuel st.1 st.2 (res ++ [v])

/-- occurrence counts in a list of edge targets, as the in-degree dictionary -/
def indegOf (occ : List Nat) : Nat → Int := fun x => (occ.count x : Nat)

/-- the in-degree dictionary after the construction loop: one increment per edge occurrence
`v → w` with `v` in the node list and `w in node_set` -/
def indeg0 (nodes : List Nat) (adj : Adj) : Nat → Int := indegOf (nodes.flatMap (adjIn nodes adj))

/-- `topological_sort`: `none` = INFEASIBLE.  Every pass of the loop outputs a node, so
`nodes.length` passes suffice (proved: `kahn_correct`).  (`indegOf occ` with `occ` bound first, so
that the compiled driver builds the occurrence list once.) -/
def kahn (nodes : List Nat) (adj : Adj) : Option (List Nat) :=
  let occ := nodes.flatMap (adjIn nodes adj)
  let deg := indegOf occ
  let res := kahnLoop nodes adj nodes.length deg (nodes.filter fun v => deg v == 0) []
  if res.length = nodes.length then some res else none

/-! ### Mirror of `strongly_connected_components` (Tarjan) -/

structure TState where
  next  : Nat                    -- index_counter[0]
  stack : List Nat               -- head = top of `stack`; `on_stack` = membership
  index : Nat → Option Nat       -- `index` dict
  low   : Nat → Nat              -- `low_link` dict (only read where `index` is set)
  comps : List (List Nat)        -- `components`, in emission order
  iters : Nat

def TState.init : TState := ⟨0, [], fun _ => none, fun _ => 0, [], 0⟩

def TState.setLow (s : TState) (v x : Nat) : TState :=
  { s with low := fun y => if y = v then x else s.low y }

/-- `while True: w = stack.pop(); component.append(w); if w == v: break` -/
def popTo (v : Nat) : List Nat → List Nat → List Nat × List Nat
  | [], acc => (acc.reverse, [])
  | w :: st, acc => if w = v then ((w :: acc).reverse, st) else popTo v st (w :: acc)

/-- entry of `strongconnect(v)`: number `v`, push it -/
def TState.push (s : TState) (v : Nat) : TState :=
  { s with next := s.next + 1, stack := v :: s.stack,
           index := fun y => if y = v then some s.next else s.index y,
           low := fun y => if y = v then s.next else s.low y,
           iters := s.iters + 1 }

/-- body of `for w in neighbors(v)`; `rec` is the recursive call `strongconnect` -/
def tstep (rec : Nat → TState → TState) (v : Nat) (s : TState) (w : Nat) : TState :=
  match s.index w with
  | none =>
    let s' := rec w s
    s'.setLow v (min (s'.low v) (s'.low w))
  | some iw =>
    if s.stack.contains w then s.setLow v (min (s.low v) iw) else s

/-- exit of `strongconnect(v)`: `if low_link[v] == index[v]:` pop the component -/
def finish (v i : Nat) (s : TState) : TState :=
  if s.low v = i then
    let p := popTo v s.stack []
    { s with stack := p.2, comps := s.comps ++ [p.1] }
  else s

/-- `strongconnect(v)`; the fuel bounds the recursion depth -/
def visit (adj : Adj) : Nat → Nat → TState → TState
  | 0, _, s => s
  | fuel+1, v, s => finish v s.next ((adj v).foldl (tstep (visit adj fuel) v) (s.push v))

/-- `for v in node_list: if v not in index: strongconnect(v)` -/
def tarjanState (adj : Adj) (fuel : Nat) (nodes : List Nat) : TState :=
  nodes.foldl (fun s v => if (s.index v).isSome then s else visit adj fuel v s) TState.init

/-- components in emission order; `U` is any universe closed under `adj` containing `nodes`
(the recursion is never deeper than the number of distinct vertices: the fuel `U.length + 1` is
proved sufficient, and the result proved to be the SCC decomposition of the explored set, in
`tarjan_certifies`) -/
def tarjan (U : List Nat) (nodes : List Nat) (adj : Adj) : List (List Nat) :=
  (tarjanState adj (U.length + 1) nodes).comps

/-! ### Mirror of `condense` -/

/-- the inter-component edges `(v_comp, w_comp)` in the order the loop of `condense` meets them -/
def condPairs (nodes : List Nat) (adj : Adj) (comps : List (List Nat)) : List (Nat × Nat) :=
  nodes.flatMap fun v =>
    match compIdx comps v with
    | none => []
    | some i =>
      (adj v).filterMap fun w =>
        match compIdx comps w with
        | some j => if j != i then some (i, j) else none
        | none => none

/-- `condensed_edges[i]` as a duplicate-free list (the code keeps a set, so only membership is
observable) -/
def condEdges (nodes : List Nat) (adj : Adj) (comps : List (List Nat)) : List (List Nat) :=
  let pairs := condPairs nodes adj comps
  (List.range comps.length).map fun i => dedup ((pairs.filter fun p => p.1 == i).map (·.2))

/-! ### Clause checks for inputs whose neighbour lists leave the node list

The property does not say whether the graph meant is the one *induced* on the node list
(reading A: `topological_sort` filters with `if w in node_set`) or the one *explored* from it
(reading B: `strongly_connected_components` follows every neighbour).  For such inputs the check
decides only the clauses required under both readings (`…Open` below); the strict checkers above
are evaluated under each reading and merely counted. -/

/-- (A ∩ B) for SCC: duplicate-free non-empty classes covering the node list inside the explored
set; members of the node list that share a class are mutually reachable in the explored graph;
nodes mutually reachable inside the node list share a class; no edge of the induced graph goes
from an earlier to a later class. -/
def chkSccOpen (U : List Nat) (nodes : List Nat) (adj : Adj) (comps : List (List Nat)) : Bool :=
  let VB := reach adj U nodes
  let aIn := adjIn nodes adj
  decide comps.flatten.Nodup && comps.all (fun c => !c.isEmpty) &&
  nodes.all (fun v => comps.flatten.contains v) &&
  comps.flatten.all (fun v => VB.contains v) &&
  comps.all (fun c => c.all fun u => c.all fun v =>
    !(nodes.contains u && nodes.contains v) || (reach adj U [u]).contains v) &&
  nodes.all (fun u => nodes.all fun v =>
    !((reach aIn nodes [u]).contains v && (reach aIn nodes [v]).contains u) ||
      compIdx comps u == compIdx comps v) &&
  orderB aIn (comps.map fun c => c.filter fun v => nodes.contains v)

/-- (A ∩ B) for a returned order: duplicate-free, covers the node list, stays inside the explored
set, every edge between two members of the node list points forward. -/
def chkTopoOpen (U : List Nat) (nodes : List Nat) (adj : Adj) (order : List Nat) : Bool :=
  let VB := reach adj U nodes
  decide order.Nodup && nodes.all (fun v => order.contains v) && order.all (fun v => VB.contains v) &&
  nodes.all fun u => (adj u).all fun w => !nodes.contains w || decide (order.idxOf u < order.idxOf w)

/-- (A ∩ B) for `condense`: every listed edge is backed by an edge of the explored graph between
the two classes, every edge of the induced graph between different classes is listed, and the
listed graph is acyclic (no class lies on a cycle, self loops included). -/
def chkCondOpen (U : List Nat) (nodes : List Nat) (adj : Adj) (comps cadj : List (List Nat)) : Bool :=
  let k := comps.length
  let cfn : Adj := fun i => cadj.getD i []
  chkSccOpen U nodes adj comps && decide (cadj.length = k) &&
  cadj.all (fun l => l.all fun j => decide (j < k)) &&
  (List.range k).all (fun i => (cfn i).all fun j =>
    i != j && (comps.getD i []).any fun u => (adj u).any fun w => (comps.getD j []).contains w) &&
  nodes.all (fun u => (adjIn nodes adj u).all fun w =>
    match compIdx comps u, compIdx comps w with
    | some i, some j => i == j || (cfn i).contains j
    | _, _ => false) &&
  !cyclicB (List.range k) cfn

def condense (U : List Nat) (nodes : List Nat) (adj : Adj) : List (List Nat) × List (List Nat) :=
  let comps := tarjan U nodes adj
  (comps, condEdges nodes adj comps)

end Solvor.Graph
