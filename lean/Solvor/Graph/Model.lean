/-! Graph: executable models (no Mathlib imports). -/
namespace Solvor.Graph

end Solvor.Graph
