import Solvor.Graph.TarjanLemmas
/-!
Graph: `strongconnect` (`visit`) establishes its postcondition – by induction on the fuel, with an
inner induction over the successor loop (`FInv`).
-/
namespace Solvor.Graph

/-- number of vertices of `V` not yet numbered (the recursion measure) -/
def cnt (V : List Nat) (s : TState) : Nat := V.countP fun x => (s.index x).isNone

@[simp] theorem setLow_stack (s : TState) (v x : Nat) : (s.setLow v x).stack = s.stack := rfl
@[simp] theorem setLow_comps (s : TState) (v x : Nat) : (s.setLow v x).comps = s.comps := rfl
@[simp] theorem setLow_index (s : TState) (v x : Nat) : (s.setLow v x).index = s.index := rfl
@[simp] theorem setLow_next (s : TState) (v x : Nat) : (s.setLow v x).next = s.next := rfl
@[simp] theorem setLow_idx (s : TState) (v x y : Nat) : (s.setLow v x).idx y = s.idx y := rfl
@[simp] theorem setLow_low_self (s : TState) (v x : Nat) : (s.setLow v x).low v = x := by simp [TState.setLow]
theorem setLow_low_ne (s : TState) {v y : Nat} (x : Nat) (h : y ≠ v) : (s.setLow v x).low y = s.low y := by
  simp [TState.setLow, h]
theorem setLow_vis (s : TState) (v x y : Nat) : (s.setLow v x).vis y ↔ s.vis y := Iff.rfl

theorem TInv.setLow {adj : Adj} {V g : List Nat} {s : TState} (I : TInv adj V g s) (v x : Nat) :
    TInv adj V g (s.setLow v x) :=
  ⟨I.stack_nodup, I.comps_nodup, I.disj, I.vis_iff, I.idx_lt, I.inV, I.sorted, I.gray_on, I.gray_sorted,
   I.to_gray, I.black, I.em_closed, I.em_order, I.em_strong⟩

/-- gray vertices other than the innermost lie below it on the stack -/
theorem TInv.gray_below {adj : Adj} {V g : List Nat} {t : TState} {v : Nat} {L rest : List Nat}
    (I : TInv adj V (v :: g) t) (hst : t.stack = L ++ v :: rest) : ∀ y ∈ g, y ∈ rest := by
  obtain ⟨hL, _, _, _, _⟩ := I.above hst
  have hgs := I.gray_sorted
  rw [List.pairwise_cons] at hgs
  intro y hy
  have hlt := hgs.1 y hy
  have hys := I.gray_on y (List.mem_cons_of_mem _ hy)
  rw [hst] at hys
  rcases List.mem_append.1 hys with h | h
  · have := (hL y h).1; omega
  · rcases List.mem_cons.1 h with h' | h'
    · subst h'; omega
    · exact h'

/-- postcondition of `strongconnect(v)` started in `s` with gray chain `g` -/
structure VPost (adj : Adj) (V g : List Nat) (s : TState) (v : Nat) (s' : TState) : Prop where
  inv       : TInv adj V g s'
  fr_idx    : ∀ x, s.vis x → s'.index x = s.index x
  fr_low    : ∀ x, s.vis x → s'.low x = s.low x
  idx_v     : s'.index v = some s.next
  new_idx   : ∀ x k, ¬ s.vis x → s'.index x = some k → s.next ≤ k
  comps_ext : ∃ cs, s'.comps = s.comps ++ cs
  outcome   : (s'.stack = s.stack ∧ s'.low v = s.next) ∨
              (∃ L, s'.stack = L ++ v :: s.stack ∧ s'.low v < s.next ∧
                (∃ y ∈ s.stack, s'.idx y = s'.low v ∧ Reach adj v y) ∧
                (∀ x ∈ L ++ [v], ∀ z ∈ adj x, z ∈ s'.stack → s'.low v ≤ s'.idx z))

/-- invariant of `for w in neighbors(v)`; `s1` is the state right after pushing `v` -/
structure FInv (adj : Adj) (V g : List Nat) (s1 : TState) (v : Nat) (done : List Nat) (t : TState) : Prop where
  inv       : TInv adj V (v :: g) t
  fr_idx    : ∀ x, s1.vis x → t.index x = s1.index x
  fr_low    : ∀ x, s1.vis x → x ≠ v → t.low x = s1.low x
  next_le   : s1.next ≤ t.next
  new_idx   : ∀ x k, ¬ s1.vis x → t.index x = some k → s1.next ≤ k
  comps_ext : ∃ cs, t.comps = s1.comps ++ cs
  stk       : ∃ L, t.stack = L ++ s1.stack
  xL        : ∀ L, t.stack = L ++ s1.stack → ∀ x ∈ L, ∀ z ∈ adj x, z ∈ t.stack → t.low v ≤ t.idx z
  xv        : ∀ z ∈ done, t.vis z ∧ (z ∈ t.stack → t.low v ≤ t.idx z)
  low_le    : t.low v ≤ t.idx v
  low_wit   : ∃ y ∈ t.stack, t.idx y = t.low v ∧ Reach adj v y

theorem vis_of_fr {s s' : TState} (h : ∀ x, s.vis x → s'.index x = s.index x) {x : Nat} (hx : s.vis x) :
    s'.vis x := by
  unfold TState.vis at *
  rw [h x hx]; exact hx

theorem idx_of_fr {s s' : TState} (h : ∀ x, s.vis x → s'.index x = s.index x) {x : Nat} (hx : s.vis x) :
    s'.idx x = s.idx x := by
  unfold TState.idx; rw [h x hx]

theorem cnt_mono {V : List Nat} {s s' : TState} (h : ∀ x, s.vis x → s'.index x = s.index x) :
    cnt V s' ≤ cnt V s := by
  unfold cnt
  apply List.countP_mono_left
  intro x _ hx
  cases hs : s.index x with
  | none => simp
  | some k =>
    have : s.vis x := by simp [TState.vis, hs]
    rw [h x this, hs] at hx
    simp at hx

theorem cnt_push_lt {V : List Nat} {s : TState} {v : Nat} (hv : ¬ s.vis v) (hvV : v ∈ V) :
    cnt V (s.push v) < cnt V s := by
  unfold cnt
  apply countP_lt_of_imp
  · intro y _ hy
    rw [push_index] at hy
    by_cases h : y = v
    · simp [h] at hy
    · simpa [h] using hy
  · refine ⟨v, hvV, ?_, ?_⟩
    · have := TState.not_vis_iff.1 hv; simp [this]
    · simp [push_index]

/-- a vertex numbered before the call that is on the stack afterwards was on the stack before -/
theorem VPost.old_on_stack {adj : Adj} {V g : List Nat} {t s' : TState} {w : Nat}
    (It : TInv adj V g t) (P : VPost adj V g t w s') {z : Nat} (hz : t.vis z) (hzs : z ∈ s'.stack) :
    z ∈ t.stack := by
  rcases (It.vis_iff z).1 hz with h | h
  · exact h
  · exfalso
    obtain ⟨cs, hcs⟩ := P.comps_ext
    have : z ∈ s'.comps.flatten := by rw [hcs]; simp [h]
    exact P.inv.disj z hzs this

/-! ### one pass of `for w in neighbors(v)` -/

section step
variable {adj : Adj} {V g : List Nat} {s1 : TState} {v : Nat} {r0 : List Nat}

theorem FInv.vis_v {done : List Nat} {t : TState} (F : FInv adj V g s1 v done t) : t.vis v :=
  (F.inv.vis_iff v).2 (Or.inl (F.inv.gray_on v List.mem_cons_self))

/-- successor already emitted: nothing happens -/
theorem FInv.step_emitted {done : List Nat} {t : TState} (F : FInv adj V g s1 v done t) {w : Nat}
    (hvis : t.vis w) (hns : w ∉ t.stack) : FInv adj V g s1 v (done ++ [w]) t :=
  { F with
    xv := by
      intro z hz
      rcases List.mem_append.1 hz with h | h
      · exact F.xv z h
      · have : z = w := by simpa using h
        subst this
        exact ⟨hvis, fun h' => absurd h' hns⟩ }

/-- successor on the stack: `low_link[v] = min(low_link[v], index[w])` -/
theorem FInv.step_onstack {done : List Nat} {t : TState} (F : FInv adj V g s1 v done t) {w iw : Nat}
    (hw : w ∈ adj v) (hiw : t.index w = some iw) (hs : w ∈ t.stack) :
    FInv adj V g s1 v (done ++ [w]) (t.setLow v (min (t.low v) iw)) := by
  have hidxw : t.idx w = iw := TState.idx_of_some hiw
  refine ⟨F.inv.setLow _ _, F.fr_idx, ?_, F.next_le, F.new_idx, F.comps_ext, F.stk, ?_, ?_, ?_, ?_⟩
  · intro x hx hxv
    rw [setLow_low_ne _ _ hxv]; exact F.fr_low x hx hxv
  · intro L hL x hx z hz hzs
    have := F.xL L hL x hx z hz hzs
    rw [setLow_low_self, setLow_idx]; omega
  · intro z hz
    rw [setLow_low_self]
    rcases List.mem_append.1 hz with h | h
    · obtain ⟨h1, h2⟩ := F.xv z h
      refine ⟨h1, fun h' => ?_⟩
      have := h2 h'
      rw [setLow_idx]; omega
    · have : z = w := by simpa using h
      subst this
      refine ⟨TState.vis_iff_some.2 ⟨iw, hiw⟩, fun _ => ?_⟩
      rw [setLow_idx, hidxw]; omega
  · rw [setLow_low_self, setLow_idx]
    have := F.low_le; omega
  · rw [setLow_low_self]
    by_cases hlt : iw < t.low v
    · refine ⟨w, hs, ?_, Reach.single hw⟩
      rw [setLow_idx, hidxw]; omega
    · obtain ⟨y, hy, hiy, hry⟩ := F.low_wit
      refine ⟨y, hy, ?_, hry⟩
      rw [setLow_idx, hiy]; omega

/-- successor not yet numbered: recursive call, then `low_link[v] = min(low_link[v], low_link[w])` -/
theorem FInv.step_child {done : List Nat} {t s' : TState} (F : FInv adj V g s1 v done t)
    (hs1 : s1.stack = v :: r0) {w : Nat} (hw : w ∈ adj v) (hnv : ¬ t.vis w)
    (P : VPost adj V (v :: g) t w s') :
    FInv adj V g s1 v (done ++ [w]) (s'.setLow v (min (s'.low v) (s'.low w))) := by
  have hvvis : t.vis v := F.vis_v
  have hlv : s'.low v = t.low v := P.fr_low v hvvis
  have hidx : ∀ x, t.vis x → s'.idx x = t.idx x := fun x hx => idx_of_fr P.fr_idx hx
  have hvlt : t.idx v < t.next := F.inv.idx_lt_next hvvis
  have hlow := F.low_le
  have hwidx : s'.idx w = t.next := TState.idx_of_some P.idx_v
  have hnext : t.next < s'.next := P.inv.idx_lt w _ P.idx_v
  have hviss : ∀ x, t.vis x → s'.vis x := fun x hx => vis_of_fr P.fr_idx hx
  have hstvis : ∀ z, z ∈ t.stack → t.vis z := fun z hz => (F.inv.vis_iff z).2 (Or.inl hz)
  obtain ⟨L0, hL0⟩ := F.stk
  have hL0' : t.stack = L0 ++ v :: r0 := by rw [hL0, hs1]
  -- the common fields
  have c_fr_idx : ∀ x, s1.vis x → s'.index x = s1.index x := by
    intro x hx
    rw [P.fr_idx x (vis_of_fr F.fr_idx hx)]; exact F.fr_idx x hx
  have c_fr_low : ∀ x, s1.vis x → x ≠ v →
      (s'.setLow v (min (s'.low v) (s'.low w))).low x = s1.low x := by
    intro x hx hxv
    rw [setLow_low_ne _ _ hxv, P.fr_low x (vis_of_fr F.fr_idx hx)]; exact F.fr_low x hx hxv
  have c_next : s1.next ≤ s'.next := by have := F.next_le; omega
  have c_new : ∀ x k, ¬ s1.vis x → s'.index x = some k → s1.next ≤ k := by
    intro x k hx hk
    by_cases ht : t.vis x
    · rw [P.fr_idx x ht] at hk; exact F.new_idx x k hx hk
    · have := P.new_idx x k ht hk
      have := F.next_le; omega
  have c_comps : ∃ cs, s'.comps = s1.comps ++ cs := by
    obtain ⟨cs, hcs⟩ := F.comps_ext
    obtain ⟨cs', hcs'⟩ := P.comps_ext
    exact ⟨cs ++ cs', by rw [hcs', hcs, List.append_assoc]⟩
  rcases P.outcome with ⟨hst, hlw⟩ | ⟨Lw, hst, hlt, ⟨yw, hyw, hiyw, hryw⟩, hXw⟩
  · -- the child's component was popped
    have hlo : min (s'.low v) (s'.low w) = t.low v := by rw [hlv, hlw]; omega
    rw [hlo]
    refine ⟨P.inv.setLow _ _, c_fr_idx, ?_, c_next, c_new, c_comps, ⟨L0, by rw [setLow_stack, hst, hL0]⟩,
      ?_, ?_, ?_, ?_⟩
    · intro x hx hxv; have := c_fr_low x hx hxv; rw [hlo] at this; exact this
    · intro L hL x hx z hz hzs
      rw [setLow_stack, hst] at hL hzs
      rw [setLow_low_self, setLow_idx, hidx z (hstvis z hzs)]
      exact F.xL L hL x hx z hz hzs
    · intro z hz
      rw [setLow_low_self, setLow_stack, hst]
      rcases List.mem_append.1 hz with h | h
      · obtain ⟨h1, h2⟩ := F.xv z h
        refine ⟨hviss z h1, fun h' => ?_⟩
        rw [setLow_idx, hidx z h1]; exact h2 h'
      · have : z = w := by simpa using h
        subst this
        exact ⟨TState.vis_iff_some.2 ⟨_, P.idx_v⟩, fun h' => absurd (hstvis z h') hnv⟩
    · rw [setLow_low_self, setLow_idx, hidx v hvvis]; exact hlow
    · obtain ⟨y, hy, hiy, hry⟩ := F.low_wit
      refine ⟨y, by rw [setLow_stack, hst]; exact hy, ?_, hry⟩
      rw [setLow_low_self, setLow_idx, hidx y (hstvis y hy)]; exact hiy
  · -- the child stays on the stack
    have hsub : ∀ z, z ∈ t.stack → z ∈ s'.stack := by
      intro z hz; rw [hst]; exact List.mem_append_right _ (List.mem_cons_of_mem _ hz)
    have hstk' : s'.stack = (Lw ++ w :: L0) ++ s1.stack := by rw [hst, hL0]; simp
    have hgb := F.inv.gray_below hL0'
    obtain ⟨_, _, hvL0, _, hL0r⟩ := F.inv.above hL0'
    -- members of the old upper segment are finished: their successors were numbered before the call
    have hblack : ∀ x ∈ L0, ∀ z ∈ adj x, t.vis z := by
      intro x hx z hz
      have hxs : x ∈ t.stack := by rw [hL0']; exact List.mem_append_left _ hx
      refine F.inv.black x (hstvis x hxs) ?_ z hz
      intro hxg
      rcases List.mem_cons.1 hxg with h | h
      · subst h; exact hvL0 hx
      · exact hL0r x hx (hgb x h)
    refine ⟨P.inv.setLow _ _, c_fr_idx, c_fr_low, c_next, c_new, c_comps,
      ⟨Lw ++ w :: L0, by rw [setLow_stack]; exact hstk'⟩, ?_, ?_, ?_, ?_⟩
    · intro L hL x hx z hz hzs
      rw [setLow_stack] at hL hzs
      have hLeq : L = Lw ++ w :: L0 := List.append_cancel_right (hL.symm.trans hstk')
      rw [setLow_low_self, setLow_idx]
      subst hLeq
      rcases List.mem_append.1 hx with h | h
      · have := hXw x (List.mem_append_left _ h) z hz hzs; omega
      · rcases List.mem_cons.1 h with h' | h'
        · subst h'
          have := hXw x (List.mem_append_right _ (by simp)) z hz hzs; omega
        · have hzt := hblack x h' z hz
          have hzst := P.old_on_stack F.inv hzt hzs
          have := F.xL L0 hL0 x h' z hz hzst
          rw [hidx z hzt]; omega
    · intro z hz
      rw [setLow_low_self, setLow_stack, setLow_idx]
      rcases List.mem_append.1 hz with h | h
      · obtain ⟨h1, h2⟩ := F.xv z h
        refine ⟨hviss z h1, fun h' => ?_⟩
        have := h2 (P.old_on_stack F.inv h1 h')
        rw [hidx z h1]; omega
      · have : z = w := by simpa using h
        subst this
        refine ⟨TState.vis_iff_some.2 ⟨_, P.idx_v⟩, fun _ => ?_⟩
        rw [hwidx]; omega
    · rw [setLow_low_self, setLow_idx, hidx v hvvis]; omega
    · rw [setLow_low_self]
      by_cases hc : s'.low w < t.low v
      · refine ⟨yw, by rw [setLow_stack]; exact hsub yw hyw, ?_, Reach.head hw hryw⟩
        rw [setLow_idx, hiyw]; omega
      · obtain ⟨y, hy, hiy, hry⟩ := F.low_wit
        refine ⟨y, by rw [setLow_stack]; exact hsub y hy, ?_, hry⟩
        rw [setLow_idx, hidx y (hstvis y hy), hiy]; omega

end step

/-! ### the whole loop, the exit, and the induction on the fuel -/

theorem cnt_pos {V : List Nat} {s : TState} {v : Nat} (hv : ¬ s.vis v) (hvV : v ∈ V) : 0 < cnt V s := by
  unfold cnt
  rw [List.countP_pos_iff]
  exact ⟨v, hvV, by have := TState.not_vis_iff.1 hv; simp [this]⟩

theorem fold_spec {adj : Adj} {V g : List Nat} {s1 : TState} {v : Nat} {r0 : List Nat}
    (hs1 : s1.stack = v :: r0) (rec : Nat → TState → TState)
    (hrec : ∀ w t, TInv adj V (v :: g) t → ¬ t.vis w → w ∈ adj v → cnt V t ≤ cnt V s1 →
      VPost adj V (v :: g) t w (rec w t)) :
    ∀ (ws done : List Nat) (t : TState), FInv adj V g s1 v done t → (∀ w ∈ ws, w ∈ adj v) →
      FInv adj V g s1 v (done ++ ws) (ws.foldl (tstep rec v) t) := by
  intro ws
  induction ws with
  | nil => intro done t F _; simpa using F
  | cons w ws ih =>
    intro done t F hws
    have hw : w ∈ adj v := hws w List.mem_cons_self
    have hrest : ∀ x ∈ ws, x ∈ adj v := fun x hx => hws x (List.mem_cons_of_mem _ hx)
    rw [List.foldl_cons]
    have hassoc : done ++ w :: ws = (done ++ [w]) ++ ws := by simp
    rw [hassoc]
    apply ih _ _ _ hrest
    unfold tstep
    cases hi : t.index w with
    | none =>
      have hnv : ¬ t.vis w := TState.not_vis_iff.2 hi
      exact F.step_child hs1 hw hnv (hrec w t F.inv hnv hw (cnt_mono F.fr_idx))
    | some iw =>
      simp only
      by_cases hst : w ∈ t.stack
      · simp only [List.contains_iff_mem, hst, if_true]
        exact F.step_onstack hw hi hst
      · simp only [List.contains_iff_mem, hst, if_false]
        exact F.step_emitted (TState.vis_iff_some.2 ⟨iw, hi⟩) hst

/-- the loop starts in the state right after the push -/
theorem FInv.init {adj : Adj} {V g : List Nat} {s : TState} {v : Nat} (I1 : TInv adj V (v :: g) (s.push v)) :
    FInv adj V g (s.push v) v [] (s.push v) := by
  refine ⟨I1, fun _ _ => rfl, fun _ _ _ => rfl, Nat.le_refl _, ?_, ⟨[], by simp⟩, ⟨[], by simp⟩, ?_, ?_, ?_, ?_⟩
  · intro x k hx hk
    exact absurd (TState.vis_iff_some.2 ⟨k, hk⟩) hx
  · intro L hL x hx
    have : L = [] := by
      have h2 : L ++ (s.push v).stack = [] ++ (s.push v).stack := by simpa using hL.symm
      exact List.append_cancel_right h2
    subst this; cases hx
  · intro z hz; cases hz
  · rw [push_low, push_idx_self]; simp
  · exact ⟨v, by simp, by rw [push_low, push_idx_self]; simp, Reach.refl _⟩

theorem finish_spec {adj : Adj} {V g : List Nat} {s t : TState} {v : Nat} (_I : TInv adj V g s)
    (hv : ¬ s.vis v) (F : FInv adj V g (s.push v) v (adj v) t) :
    VPost adj V g s v (finish v s.next t) := by
  have hvis1 : ∀ x, s.vis x → (s.push v).vis x := fun x hx => push_vis.2 (Or.inr hx)
  have hne : ∀ x, s.vis x → x ≠ v := fun x hx h => hv (h ▸ hx)
  have hv1 : (s.push v).vis v := push_vis.2 (Or.inl rfl)
  have hidxv : t.index v = some s.next := by rw [F.fr_idx v hv1, push_index]; simp
  have hiv : t.idx v = s.next := TState.idx_of_some hidxv
  obtain ⟨L, hL⟩ := F.stk
  have hst : t.stack = L ++ v :: s.stack := by rw [hL, push_stack]
  obtain ⟨hLab, hRab, hvL, _, _⟩ := F.inv.above hst
  have hsucc : ∀ w ∈ adj v, t.vis w := fun w hw => (F.xv w hw).1
  -- edges from the segment `L ++ [v]` into the stack respect `low_link[v]`
  have hX : ∀ x ∈ L ++ [v], ∀ z ∈ adj x, z ∈ t.stack → t.low v ≤ t.idx z := by
    intro x hx z hz hzs
    rcases List.mem_append.1 hx with h | h
    · exact F.xL L hL x h z hz hzs
    · have : x = v := by simpa using h
      subst this
      exact (F.xv z hz).2 hzs
  have c_fr_idx : ∀ x, s.vis x → t.index x = s.index x := by
    intro x hx
    rw [F.fr_idx x (hvis1 x hx), push_index]; simp [hne x hx]
  have c_fr_low : ∀ x, s.vis x → t.low x = s.low x := by
    intro x hx
    rw [F.fr_low x (hvis1 x hx) (hne x hx), push_low]; simp [hne x hx]
  have c_new : ∀ x k, ¬ s.vis x → t.index x = some k → s.next ≤ k := by
    intro x k hx hk
    by_cases hxv : x = v
    · subst hxv; rw [hidxv] at hk; cases hk; exact Nat.le_refl _
    · have h1 : ¬ (s.push v).vis x := fun h => by
        rcases push_vis.1 h with h' | h'
        · exact hxv h'
        · exact hx h'
      have := F.new_idx x k h1 hk
      rw [push_next] at this; omega
  obtain ⟨cs, hcs⟩ := F.comps_ext
  rw [push_comps] at hcs
  unfold finish
  by_cases hlow : t.low v = s.next
  · -- pop
    simp only [hlow, if_true]
    rw [hst, popTo_spec v L s.stack [] hvL]
    simp only [List.reverse_nil, List.nil_append]
    have hXrest : ∀ x ∈ L ++ [v], ∀ z ∈ adj x, z ∉ s.stack := by
      intro x hx z hz hzr
      have hzs : z ∈ t.stack := by rw [hst]; exact List.mem_append_right _ (List.mem_cons_of_mem _ hzr)
      have h1 := hX x hx z hz hzs
      have h2 := (hRab z hzr).1
      omega
    refine ⟨F.inv.pop hst hsucc hXrest, c_fr_idx, c_fr_low, hidxv, c_new, ⟨cs ++ [L ++ [v]], ?_⟩, Or.inl ⟨rfl, hlow⟩⟩
    show t.comps ++ [L ++ [v]] = s.comps ++ (cs ++ [L ++ [v]])
    rw [hcs, List.append_assoc]
  · -- keep
    simp only [hlow, if_false]
    have hlt : t.low v < s.next := by have := F.low_le; omega
    obtain ⟨y, hy, hiy, hry⟩ := F.low_wit
    have hyrest : y ∈ s.stack := by
      rw [hst] at hy
      rcases List.mem_append.1 hy with h | h
      · have := (hLab y h).1; omega
      · rcases List.mem_cons.1 h with h' | h'
        · subst h'; omega
        · exact h'
    refine ⟨F.inv.keep hsucc ⟨y, hy, by omega, hry⟩, c_fr_idx, c_fr_low, hidxv, c_new, ⟨cs, hcs⟩, ?_⟩
    exact Or.inr ⟨L, hst, hlt, ⟨y, hyrest, hiy, hry⟩, hX⟩

/-- **`strongconnect` meets its postcondition**, for every graph closed in `V`, every state satisfying
the invariant and every unnumbered vertex, provided the fuel covers the unnumbered vertices -/
theorem visit_spec {adj : Adj} {V : List Nat} (hc : Closed V adj) (fuel : Nat) :
    ∀ (v : Nat) (s : TState) (g : List Nat), TInv adj V g s → ¬ s.vis v → v ∈ V → GrayChain adj g →
      (∀ p rest, g = p :: rest → v ∈ adj p) → cnt V s ≤ fuel →
      VPost adj V g s v (visit adj fuel v s) := by
  induction fuel with
  | zero =>
    intro v s g _ hv hvV _ _ hcnt
    have := cnt_pos hv hvV
    omega
  | succ f ih =>
    intro v s g I hv hvV hg hp hcnt
    have I1 := I.push hv hvV hg hp
    have hgc : GrayChain adj (v :: g) := by
      intro p rest hpr y hy
      have hpv : p = v := by cases hpr; rfl
      subst hpv
      rcases List.mem_cons.1 hy with h | h
      · subst h; exact Reach.refl _
      · cases g with
        | nil => cases h
        | cons q rest' => exact (hg q rest' rfl y h).tail (hp q rest' rfl)
    have hlt := cnt_push_lt hv hvV
    have hrec : ∀ w t, TInv adj V (v :: g) t → ¬ t.vis w → w ∈ adj v → cnt V t ≤ cnt V (s.push v) →
        VPost adj V (v :: g) t w (visit adj f w t) := by
      intro w t It hnw hw hct
      refine ih w t (v :: g) It hnw (hc v hvV w hw) hgc ?_ (by omega)
      intro p rest hpr
      have : p = v := by cases hpr; rfl
      subst this; exact hw
    have F := fold_spec (r0 := s.stack) (by simp) (visit adj f) hrec (adj v) [] (s.push v)
      (FInv.init I1) (fun w hw => hw)
    simp only [List.nil_append] at F
    show VPost adj V g s v (finish v s.next ((adj v).foldl (tstep (visit adj f) v) (s.push v)))
    exact finish_spec I hv F

end Solvor.Graph
