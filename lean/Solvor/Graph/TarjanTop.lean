import Solvor.Graph.TarjanVisit
/-!
Graph: the outer loop of the Tarjan mirror and the final certificate – the components emitted by
`tarjan` satisfy `SccCert` on the set explored from the node list, for every input.
-/
namespace Solvor.Graph

theorem closure_nodup {adj : Adj} (fuel : Nat) (S : List Nat) (hn : S.Nodup) : (closure adj fuel S).Nodup := by
  induction fuel generalizing S with
  | zero => simpa [closure] using hn
  | succ f ih =>
    unfold closure
    split
    · exact hn
    · rename_i w hw
      obtain ⟨hwS, _⟩ := frontier_some hw
      apply ih
      rw [List.nodup_append]
      refine ⟨hn, by simp, ?_⟩
      intro a ha b hb hab
      have : b = w := by simpa using hb
      subst this; subst hab; exact hwS ha

theorem reach_nodup (adj : Adj) (U src : List Nat) : (reach adj U src).Nodup :=
  closure_nodup _ _ (nodup_dedup _)

theorem TInv.init (adj : Adj) (V : List Nat) : TInv adj V [] TState.init := by
  have hvis : ∀ x, ¬ TState.init.vis x := by intro x; simp [TState.vis, TState.init]
  refine ⟨by simp [TState.init], by simp [TState.init], by simp [TState.init], ?_, ?_, ?_,
    by simp [TState.init], by simp, by simp, by simp [TState.init], ?_, by simp [TState.init],
    by simp [TState.init, SinksFirst], by simp [TState.init]⟩
  · intro x; simp [TState.vis, TState.init]
  · intro x k h; simp [TState.init] at h
  · intro x hx; exact absurd hx (hvis x)
  · intro x hx; exact absurd hx (hvis x)

/-- outside any call (empty gray chain) the stack is empty -/
theorem TInv.stack_nil {adj : Adj} {V : List Nat} {s : TState} (I : TInv adj V [] s) : s.stack = [] := by
  cases h : s.stack with
  | nil => rfl
  | cons a t =>
    obtain ⟨y, hy, _⟩ := I.to_gray a (by rw [h]; exact List.mem_cons_self)
    cases hy

theorem cnt_le_length (V : List Nat) (s : TState) : cnt V s ≤ V.length := List.countP_le_length

/-- `for v in node_list: if v not in index: strongconnect(v)` -/
theorem tarjanLoop_spec {adj : Adj} {V : List Nat} (hc : Closed V adj) {fuel : Nat} (hf : V.length ≤ fuel) :
    ∀ (nodes : List Nat) (s : TState), TInv adj V [] s → nodes ⊆ V →
      TInv adj V [] (nodes.foldl (fun s v => if (s.index v).isSome then s else visit adj fuel v s) s) ∧
      (∀ x, s.vis x → (nodes.foldl (fun s v => if (s.index v).isSome then s else visit adj fuel v s) s).vis x) ∧
      (∀ x ∈ nodes, (nodes.foldl (fun s v => if (s.index v).isSome then s else visit adj fuel v s) s).vis x) := by
  intro nodes
  induction nodes with
  | nil => intro s I _; exact ⟨I, fun _ h => h, fun _ h => by cases h⟩
  | cons v rest ih =>
    intro s I hsub
    have hvV : v ∈ V := hsub List.mem_cons_self
    have hrest : rest ⊆ V := fun x hx => hsub (List.mem_cons_of_mem _ hx)
    rw [List.foldl_cons]
    by_cases hv : (s.index v).isSome = true
    · simp only [hv, if_true]
      obtain ⟨h1, h2, h3⟩ := ih s I hrest
      refine ⟨h1, h2, ?_⟩
      intro x hx
      rcases List.mem_cons.1 hx with h | h
      · subst h; exact h2 x hv
      · exact h3 x h
    · simp only [hv]
      have hnv : ¬ s.vis v := hv
      have P := visit_spec hc fuel v s [] I hnv hvV (by intro p rest h; cases h) (by intro p rest h; cases h)
        (Nat.le_trans (cnt_le_length V s) hf)
      obtain ⟨h1, h2, h3⟩ := ih _ P.inv hrest
      refine ⟨h1, fun x hx => h2 x (vis_of_fr P.fr_idx hx), ?_⟩
      intro x hx
      rcases List.mem_cons.1 hx with h | h
      · subst h; exact h2 x (TState.vis_iff_some.2 ⟨_, P.idx_v⟩)
      · exact h3 x h

/-- the components emitted by the Tarjan mirror carry the SCC certificate on the explored set -/
theorem tarjan_cert {adj : Adj} {U nodes : List Nat} (hc : Closed U adj) (hs : nodes ⊆ U) :
    SccCert (reach adj U nodes) adj (tarjan U nodes adj) := by
  have hmem : ∀ x, x ∈ reach adj U nodes ↔ ∃ s ∈ nodes, Reach adj s x := fun x => mem_reach_iff hc hs
  have hVc : Closed (reach adj U nodes) adj := by
    intro x hx w hw
    obtain ⟨s0, hs0, hr⟩ := (hmem x).1 hx
    exact (hmem w).2 ⟨s0, hs0, hr.tail hw⟩
  have hVU : reach adj U nodes ⊆ U := by
    intro x hx
    obtain ⟨s0, hs0, hr⟩ := (hmem x).1 hx
    exact hr.mem_closed hc (hs hs0)
  have hnV : nodes ⊆ reach adj U nodes := fun x hx => (hmem x).2 ⟨x, hx, Reach.refl _⟩
  have hlen : (reach adj U nodes).length ≤ U.length + 1 := by
    have := (reach_nodup adj U nodes).length_le_of_subset hVU
    omega
  obtain ⟨I, _, hall⟩ := tarjanLoop_spec hVc hlen nodes TState.init (TInv.init adj _) hnV
  have hstk := I.stack_nil
  unfold tarjan tarjanState
  generalize nodes.foldl (fun s v => if (s.index v).isSome then s else visit adj (U.length + 1) v s)
    TState.init = sf at I hall hstk
  have hvisflat : ∀ x, sf.vis x ↔ x ∈ sf.comps.flatten := by
    intro x; rw [I.vis_iff x, hstk]; simp
  -- everything explored is numbered: finished vertices have numbered successors
  have hvisV : ∀ x ∈ reach adj U nodes, sf.vis x := by
    intro x hx
    obtain ⟨s0, hs0, hr⟩ := (hmem x).1 hx
    induction hr with
    | refl => exact hall _ hs0
    | tail hab hcb ih =>
      exact I.black _ (ih ((hmem _).2 ⟨s0, hs0, hab⟩)) (by simp) _ hcb
  exact ⟨hVc, I.comps_nodup, fun x => ⟨fun h => I.inV x ((hvisflat x).2 h), fun h => (hvisflat x).1 (hvisV x h)⟩,
    I.em_strong, I.em_order⟩

theorem IsSccDecomp.congr_mem {V V' : List Nat} {adj : Adj} {comps : List (List Nat)}
    (h : ∀ v, v ∈ V ↔ v ∈ V') (D : IsSccDecomp V adj comps) : IsSccDecomp V' adj comps where
  nodup := D.nodup
  cover := fun v => (D.cover v).trans (h v)
  nonempty := D.nonempty
  classes := fun u hu v hv => D.classes u ((h u).2 hu) v ((h v).2 hv)
  order := D.order

/-- on an input without outside neighbours the explored set is the node list -/
theorem reach_eq_nodes_of_closed {adj : Adj} {nodes : List Nat} (hc : Closed nodes adj) (x : Nat) :
    x ∈ reach adj nodes nodes ↔ x ∈ nodes := by
  rw [mem_reach_iff hc (fun _ h => h)]
  exact ⟨fun ⟨s0, hs0, hr⟩ => hr.mem_closed hc hs0, fun h => ⟨x, h, Reach.refl _⟩⟩

end Solvor.Graph
