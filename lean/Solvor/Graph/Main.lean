import Solvor.Graph.Drive
def main : IO Unit := Solvor.Proto.serve Solvor.Graph.handle
