import Solvor.Graph.Model
/-! Graph: the specifications of C14 as propositions (no Mathlib). -/
namespace Solvor.Graph

/-- "no edge goes from an earlier class to a later one" (sinks first) -/
def SinksFirst (adj : Adj) (comps : List (List Nat)) : Prop :=
  comps.Pairwise fun a b => ∀ u ∈ a, ∀ w ∈ adj u, w ∉ b

/-- The certificate `chkScc` checks: a partition of `V` into non-empty strongly connected sets,
listed sinks first, in a graph closed under `adj`. -/
structure SccCert (V : List Nat) (adj : Adj) (comps : List (List Nat)) : Prop where
  closed : Closed V adj
  nodup  : comps.flatten.Nodup
  cover  : ∀ v, v ∈ comps.flatten ↔ v ∈ V
  strong : ∀ c ∈ comps, c ≠ [] ∧ ∀ u ∈ c, ∀ v ∈ c, Reach adj u v
  order  : SinksFirst adj comps

/-- The property's first clause: `comps` partitions `V` into *exactly* the classes of mutual
reachability and lists them sinks first. -/
structure IsSccDecomp (V : List Nat) (adj : Adj) (comps : List (List Nat)) : Prop where
  nodup    : comps.flatten.Nodup
  cover    : ∀ v, v ∈ comps.flatten ↔ v ∈ V
  nonempty : ∀ c ∈ comps, c ≠ []
  classes  : ∀ u ∈ V, ∀ v ∈ V, (∃ c ∈ comps, u ∈ c ∧ v ∈ c) ↔ Mutual adj u v
  order    : SinksFirst adj comps

/-- `order` lists every node exactly once and every edge between two nodes points forward. -/
structure IsTopoOrder (nodes : List Nat) (adj : Adj) (order : List Nat) : Prop where
  perm    : order.Perm nodes
  forward : ∀ u ∈ nodes, ∀ w ∈ adj u, w ∈ nodes → order.idxOf u < order.idxOf w

/-- the graph induced on `nodes` has a cycle -/
def Cyclic (nodes : List Nat) (adj : Adj) : Prop := ∃ v ∈ nodes, OnCycle (adjIn nodes adj) v

/-- the condensed graph as a neighbour function on class indices -/
def cadjFn (cadj : List (List Nat)) : Adj := fun i => cadj.getD i []

/-- The property's third clause: the classes are the SCCs and class `i` lists class `j` as a
successor exactly when `i ≠ j` and some original edge goes from a member of `i` to a member of `j`. -/
structure IsCondensation (V : List Nat) (adj : Adj) (comps cadj : List (List Nat)) : Prop where
  scc   : IsSccDecomp V adj comps
  len   : cadj.length = comps.length
  range : ∀ l ∈ cadj, ∀ j ∈ l, j < comps.length
  edges : ∀ i j, i < comps.length → j < comps.length →
    (j ∈ cadj.getD i [] ↔ i ≠ j ∧ ∃ u ∈ comps.getD i [], ∃ w ∈ adj u, w ∈ comps.getD j [])

/-! ### The clauses common to both readings of "neighbours outside the node list" -/

/-- keep the members of the node list -/
def restrict (nodes : List Nat) (comps : List (List Nat)) : List (List Nat) :=
  comps.map fun c => c.filter fun v => nodes.contains v

/-- what `chkSccOpen` decides -/
structure SccOpenOK (nodes : List Nat) (adj : Adj) (comps : List (List Nat)) : Prop where
  nodup    : comps.flatten.Nodup
  nonempty : ∀ c ∈ comps, c ≠ []
  cover    : ∀ v ∈ nodes, v ∈ comps.flatten
  explored : ∀ v ∈ comps.flatten, ∃ s ∈ nodes, Reach adj s v
  strong   : ∀ c ∈ comps, ∀ u ∈ c, ∀ v ∈ c, u ∈ nodes → v ∈ nodes → Reach adj u v
  complete : ∀ u ∈ nodes, ∀ v ∈ nodes, Mutual (adjIn nodes adj) u v → compIdx comps u = compIdx comps v
  order    : SinksFirst (adjIn nodes adj) (restrict nodes comps)

/-- what `chkTopoOpen` decides -/
structure TopoOpenOK (nodes : List Nat) (adj : Adj) (order : List Nat) : Prop where
  nodup    : order.Nodup
  cover    : ∀ v ∈ nodes, v ∈ order
  explored : ∀ v ∈ order, ∃ s ∈ nodes, Reach adj s v
  forward  : ∀ u ∈ nodes, ∀ w ∈ adj u, w ∈ nodes → order.idxOf u < order.idxOf w

/-- what `chkCondOpen` decides -/
structure CondOpenOK (nodes : List Nat) (adj : Adj) (comps cadj : List (List Nat)) : Prop where
  scc     : SccOpenOK nodes adj comps
  len     : cadj.length = comps.length
  range   : ∀ l ∈ cadj, ∀ j ∈ l, j < comps.length
  sound   : ∀ i, i < comps.length → ∀ j ∈ cadjFn cadj i,
              i ≠ j ∧ ∃ u ∈ comps.getD i [], ∃ w ∈ adj u, w ∈ comps.getD j []
  listed  : ∀ u ∈ nodes, ∀ w ∈ adjIn nodes adj u, ∃ i j, compIdx comps u = some i ∧ compIdx comps w = some j ∧
              (i = j ∨ j ∈ cadjFn cadj i)
  acyclic : ¬ Cyclic (List.range comps.length) (cadjFn cadj)

end Solvor.Graph
