import Solvor.Graph.Lemmas
/-! Graph: the loop invariant of the Kahn mirror (`kahn`), core Lean only. -/
namespace Solvor.Graph

/-! ### a finite set in which everybody has a predecessor contains a cycle -/

open Classical in
theorem exists_cycle_of_pred_closed {adj : Adj} {S : List Nat} (hne : S ≠ [])
    (hp : ∀ x ∈ S, ∃ p ∈ S, x ∈ adj p) : ∃ v ∈ S, OnCycle adj v := by
  apply Classical.byContradiction
  intro hno
  have hno' : ∀ v ∈ S, ¬ OnCycle adj v := fun v hv h => hno ⟨v, hv, h⟩
  let anc : Nat → Nat := fun x => S.countP fun y => decide (Reach adj y x)
  have key : ∀ n, ∀ x ∈ S, anc x = n → False := by
    intro n
    induction n using Nat.strongRecOn with
    | _ n ih =>
      intro x hx hn
      obtain ⟨p, hpS, hxp⟩ := hp x hx
      have hlt : anc p < anc x := by
        apply countP_lt_of_imp
        · intro y _ hy
          have : Reach adj y p := by simpa using hy
          simpa using Reach.tail this hxp
        · refine ⟨x, hx, by simpa using Reach.refl x, ?_⟩
          have : ¬ Reach adj x p := fun hr => hno' x hx (onCycle_iff.2 ⟨p, hr, hxp⟩)
          simpa using this
      exact ih (anc p) (by omega) p hpS rfl
  cases S with
  | nil => exact hne rfl
  | cons a t => exact key _ a List.mem_cons_self rfl

/-! ### one pass of the successor loop -/

theorem foldl_relax (ws : List Nat) : ∀ (deg : Nat → Int) (q : List Nat),
    (∀ x, ((ws.count x : Nat) : Int) ≤ deg x) →
    (∀ x, (ws.foldl relax (deg, q)).1 x = deg x - (ws.count x : Nat)) ∧
    ∃ L, (ws.foldl relax (deg, q)).2 = q ++ L ∧ L.Nodup ∧
      ∀ x, x ∈ L ↔ x ∈ ws ∧ deg x = (ws.count x : Nat) := by
  induction ws with
  | nil => intro deg q _; exact ⟨by simp, [], by simp⟩
  | cons w t ih =>
    intro deg q hle
    simp only [List.foldl_cons]
    have hw := hle w
    have hle1 : ∀ x, ((t.count x : Nat) : Int) ≤ (relax (deg, q) w).1 x := by
      intro x
      have := hle x
      simp only [relax]
      rw [List.count_cons] at this
      by_cases hx : x = w
      · subst hx; simp at this ⊢; omega
      · have hx' : ¬ w = x := fun h => hx h.symm
        simp [hx, hx'] at this ⊢; omega
    obtain ⟨h1, L', hL', hnd, hmem⟩ := ih (relax (deg, q) w).1 (relax (deg, q) w).2 hle1
    have hcw : t.count w + 1 = (w :: t).count w := by simp
    constructor
    · intro x
      rw [h1 x, List.count_cons]
      simp only [relax]
      by_cases hx : x = w
      · subst hx; simp; omega
      · have hx' : ¬ w = x := fun h => hx h.symm
        simp [hx, hx']
    · have hd1w : (relax (deg, q) w).1 w = deg w - 1 := by simp [relax]
      have hd1x : ∀ x, x ≠ w → (relax (deg, q) w).1 x = deg x := by intro x hx; simp [relax, hx]
      have hwt : ((t.count w : Nat) : Int) ≤ deg w - 1 := by rw [← hd1w]; exact hle1 w
      by_cases hz : deg w - 1 = 0
      · -- `w` is appended now
        have hq1 : (relax (deg, q) w).2 = q ++ [w] := by simp [relax, hz]
        have hcnt0 : t.count w = 0 := by omega
        have hwt' : w ∉ t := List.count_eq_zero.1 hcnt0
        refine ⟨w :: L', by rw [hL', hq1]; simp, ?_, ?_⟩
        · refine List.nodup_cons.2 ⟨?_, hnd⟩
          intro hwl; exact hwt' ((hmem w).1 hwl).1
        · intro x
          rw [List.mem_cons, hmem x, List.count_cons]
          by_cases hx : x = w
          · subst hx; simp [hcnt0]; omega
          · have hx' : ¬ w = x := fun h => hx h.symm
            simp [hx, hx', hd1x x hx]
      · have hq1 : (relax (deg, q) w).2 = q := by simp [relax, hz]
        refine ⟨L', by rw [hL', hq1], hnd, ?_⟩
        intro x
        rw [hmem x, List.count_cons]
        by_cases hx : x = w
        · subst hx
          rw [hd1w]
          simp only [List.mem_cons, true_or, beq_self_eq_true, if_true, true_and]
          constructor
          · rintro ⟨_, h⟩; omega
          · intro h
            have : t.count x ≠ 0 := by omega
            exact ⟨List.count_pos_iff.1 (by omega), by omega⟩
        · have hx' : ¬ w = x := fun h => hx h.symm
          simp [hx, hx', hd1x x hx]

/-! ### the loop invariant -/

/-- edge occurrences leaving the nodes not yet output -/
def pend (nodes : List Nat) (adj : Adj) (res : List Nat) : List Nat :=
  (nodes.filter fun u => !res.contains u).flatMap (adjIn nodes adj)

theorem count_pend_split {nodes : List Nat} {adj : Adj} {res : List Nat} {v : Nat}
    (hn : nodes.Nodup) (hv : v ∈ nodes) (hvr : v ∉ res) (x : Nat) :
    (pend nodes adj res).count x =
      (adjIn nodes adj v).count x + (pend nodes adj (res ++ [v])).count x := by
  unfold pend
  generalize adjIn nodes adj = f
  induction nodes with
  | nil => cases hv
  | cons a t ih =>
    have hat : a ∉ t := (List.nodup_cons.1 hn).1
    have htn : t.Nodup := (List.nodup_cons.1 hn).2
    by_cases hav : a = v
    · subst hav
      have e1 : (a :: t).filter (fun u => !res.contains u) = a :: t.filter (fun u => !res.contains u) := by
        simp [hvr]
      have e2 : (a :: t).filter (fun u => !(res ++ [a]).contains u) = t.filter (fun u => !res.contains u) := by
        have hf : (!(res ++ [a]).contains a) = false := by simp
        rw [List.filter_cons, hf]
        simp only [Bool.false_eq_true, if_false]
        apply List.filter_congr
        intro y hy
        have : y ≠ a := fun h => hat (h ▸ hy)
        simp [this]
      rw [e1, e2, List.flatMap_cons, List.count_append]
    · have hvt : v ∈ t := by
        rcases List.mem_cons.1 hv with h | h
        · exact absurd h.symm hav
        · exact h
      have IH := ih htn hvt
      by_cases har : a ∈ res
      · have e1 : (a :: t).filter (fun u => !res.contains u) = t.filter (fun u => !res.contains u) := by
          simp [har]
        have e2 : (a :: t).filter (fun u => !(res ++ [v]).contains u) =
            t.filter (fun u => !(res ++ [v]).contains u) := by simp [har]
        rw [e1, e2, IH]
      · have e1 : (a :: t).filter (fun u => !res.contains u) = a :: t.filter (fun u => !res.contains u) := by
          simp [har]
        have e2 : (a :: t).filter (fun u => !(res ++ [v]).contains u) =
            a :: t.filter (fun u => !(res ++ [v]).contains u) := by simp [har, hav]
        rw [e1, e2, List.flatMap_cons, List.flatMap_cons, List.count_append, List.count_append, IH]
        omega

theorem not_mem_adjIn_of_count_zero {nodes : List Nat} {adj : Adj} {res : List Nat} {a b : Nat}
    (h0 : (pend nodes adj res).count a = 0) (hb : b ∈ nodes) (hbr : b ∉ res) : a ∉ adjIn nodes adj b := by
  intro hab
  have : a ∈ pend nodes adj res := by
    unfold pend
    exact List.mem_flatMap.2 ⟨b, List.mem_filter.2 ⟨hb, by simpa using hbr⟩, hab⟩
  exact (List.count_eq_zero.1 h0) this

structure KInv (nodes : List Nat) (adj : Adj) (deg : Nat → Int) (q res : List Nat) : Prop where
  nodup  : (res ++ q).Nodup
  sub    : ∀ x ∈ res ++ q, x ∈ nodes
  deg_eq : ∀ x, deg x = ((pend nodes adj res).count x : Nat)
  zero   : ∀ x ∈ nodes, (x ∈ res ++ q ↔ deg x = 0)
  pw     : (res ++ q).Pairwise fun a b => a ∉ adjIn nodes adj b
  noself : ∀ a ∈ res ++ q, a ∉ adjIn nodes adj a

theorem mem_adjIn_nodes {nodes : List Nat} {adj : Adj} {v x : Nat} (h : x ∈ adjIn nodes adj v) : x ∈ nodes := by
  have := (List.mem_filter.1 h).2
  simpa using this

theorem KInv.step {nodes : List Nat} {adj : Adj} (hn : nodes.Nodup) {deg : Nat → Int} {v : Nat}
    {q res : List Nat} (I : KInv nodes adj deg (v :: q) res) :
    KInv nodes adj ((adjIn nodes adj v).foldl relax (deg, q)).1
      ((adjIn nodes adj v).foldl relax (deg, q)).2 (res ++ [v]) := by
  have hvn : v ∈ nodes := I.sub v (by simp)
  have hvr : v ∉ res := by
    have := I.nodup
    rw [List.nodup_append] at this
    intro h; exact this.2.2 v h v (by simp) rfl
  have hsplit := fun x => count_pend_split (adj := adj) hn hvn hvr x
  have hle : ∀ x, (((adjIn nodes adj v).count x : Nat) : Int) ≤ deg x := by
    intro x; rw [I.deg_eq x, hsplit x]; omega
  obtain ⟨h1, L, hL, hLnd, hLmem⟩ := foldl_relax (adjIn nodes adj v) deg q hle
  have hdeg' : ∀ x, ((adjIn nodes adj v).foldl relax (deg, q)).1 x =
      ((pend nodes adj (res ++ [v])).count x : Nat) := by
    intro x; rw [h1 x, I.deg_eq x, hsplit x]; omega
  have hlist : (res ++ [v]) ++ ((adjIn nodes adj v).foldl relax (deg, q)).2 = (res ++ v :: q) ++ L := by
    rw [hL]; simp
  -- members of `L` are new
  have hLnew : ∀ x ∈ L, x ∈ nodes ∧ x ∉ res ++ v :: q := by
    intro x hx
    obtain ⟨hxa, hxd⟩ := (hLmem x).1 hx
    have hxn := mem_adjIn_nodes hxa
    refine ⟨hxn, ?_⟩
    intro hold
    have h0 := (I.zero x hxn).1 hold
    have : 0 < (adjIn nodes adj v).count x := List.count_pos_iff.2 hxa
    omega
  have hnew0 : ∀ x ∈ L, (pend nodes adj (res ++ [v])).count x = 0 := by
    intro x hx
    have := (hLmem x).1 hx
    have h2 := hdeg' x
    rw [h1 x] at h2
    omega
  have hnotres : ∀ b ∈ L, b ∉ res ++ [v] := by
    intro b hb hbr
    apply (hLnew b hb).2
    rcases List.mem_append.1 hbr with h | h
    · exact List.mem_append_left _ h
    · exact List.mem_append_right _ (by simp at h; simp [h])
  refine ⟨?_, ?_, hdeg', ?_, ?_, ?_⟩
  · rw [hlist, List.nodup_append]
    refine ⟨I.nodup, hLnd, ?_⟩
    intro a ha b hb hab
    subst hab
    exact (hLnew a hb).2 ha
  · rw [hlist]
    intro x hx
    rcases List.mem_append.1 hx with h | h
    · exact I.sub x h
    · exact (hLnew x h).1
  · intro x hxn
    rw [hlist, List.mem_append, h1 x]
    have hz := I.zero x hxn
    have hlex := hle x
    constructor
    · rintro (h | h)
      · have := hz.1 h; omega
      · have := ((hLmem x).1 h).2; omega
    · intro h
      by_cases hd : deg x = 0
      · exact Or.inl (hz.2 hd)
      · right
        apply (hLmem x).2
        have : 0 < (adjIn nodes adj v).count x := by omega
        exact ⟨List.count_pos_iff.1 this, by omega⟩
  · rw [hlist, List.pairwise_append]
    refine ⟨I.pw, ?_, ?_⟩
    · apply List.Pairwise.imp_of_mem (R := fun a b => a ≠ b) _ hLnd
      intro a b ha hb _
      exact not_mem_adjIn_of_count_zero (hnew0 a ha) (hLnew b hb).1 (hnotres b hb)
    · intro a ha b hb
      have hda : deg a = 0 := (I.zero a (I.sub a ha)).1 ha
      have h0 : (pend nodes adj res).count a = 0 := by have := I.deg_eq a; omega
      apply not_mem_adjIn_of_count_zero h0 (hLnew b hb).1
      intro hbr
      exact (hLnew b hb).2 (List.mem_append_left _ hbr)
  · rw [hlist]
    intro a ha
    rcases List.mem_append.1 ha with h | h
    · exact I.noself a h
    · exact not_mem_adjIn_of_count_zero (hnew0 a h) (hLnew a h).1 (hnotres a h)

theorem KInv.init {nodes : List Nat} {adj : Adj} (hn : nodes.Nodup) :
    KInv nodes adj (indeg0 nodes adj) (nodes.filter fun v => indeg0 nodes adj v == 0) [] := by
  have hpend : pend nodes adj [] = nodes.flatMap (adjIn nodes adj) := by
    unfold pend; congr 1; simp
  have hdeg : ∀ x, indeg0 nodes adj x = ((pend nodes adj []).count x : Nat) := by
    intro x; rw [hpend]; rfl
  have hq : ∀ x, x ∈ nodes.filter (fun v => indeg0 nodes adj v == 0) ↔ x ∈ nodes ∧ indeg0 nodes adj x = 0 := by
    intro x; simp [List.mem_filter]
  have h0 : ∀ a, a ∈ nodes.filter (fun v => indeg0 nodes adj v == 0) → (pend nodes adj []).count a = 0 := by
    intro a ha
    have := ((hq a).1 ha).2
    rw [hdeg a] at this; omega
  refine ⟨?_, ?_, hdeg, ?_, ?_, ?_⟩
  · simpa using hn.sublist List.filter_sublist
  · intro x hx; exact ((hq x).1 (by simpa using hx)).1
  · intro x hx
    rw [List.nil_append, hq x]
    exact ⟨fun h => h.2, fun h => ⟨hx, h⟩⟩
  · rw [List.nil_append]
    apply List.Pairwise.imp_of_mem (R := fun a b => a ≠ b) _ (hn.sublist List.filter_sublist)
    intro a b ha hb _
    exact not_mem_adjIn_of_count_zero (h0 a ha) ((hq b).1 hb).1 (by simp)
  · intro a ha
    rw [List.nil_append] at ha
    exact not_mem_adjIn_of_count_zero (h0 a ha) ((hq a).1 ha).1 (by simp)

/-- the loop ends with an empty queue and the invariant intact -/
theorem kahnLoop_inv {nodes : List Nat} {adj : Adj} (hn : nodes.Nodup) (fuel : Nat) :
    ∀ (deg : Nat → Int) (q res : List Nat), KInv nodes adj deg q res → nodes.length ≤ fuel + res.length →
      ∃ deg', KInv nodes adj deg' [] (kahnLoop nodes adj fuel deg q res) := by
  induction fuel with
  | zero =>
    intro deg q res I hl
    have h1 := I.nodup.length_le_of_subset (fun x hx => I.sub x hx)
    have hq : q = [] := by
      cases q with
      | nil => rfl
      | cons a t => simp at h1; omega
    subst hq
    exact ⟨deg, by simpa [kahnLoop] using I⟩
  | succ f ih =>
    intro deg q res I hl
    cases q with
    | nil => exact ⟨deg, by simpa [kahnLoop] using I⟩
    | cons v q =>
      simp only [kahnLoop]
      apply ih _ _ _ (I.step hn)
      simp; omega

/-! ### reading the result off the final state -/

theorem mem_adjIn {nodes : List Nat} {adj : Adj} {u w : Nat} :
    w ∈ adjIn nodes adj u ↔ w ∈ adj u ∧ w ∈ nodes := by
  simp [adjIn, List.mem_filter]

theorem KInv.final_topo {nodes : List Nat} {adj : Adj} (hn : nodes.Nodup) {deg : Nat → Int} {R : List Nat}
    (I : KInv nodes adj deg [] R) (hl : R.length = nodes.length) : IsTopoOrder nodes adj R := by
  have hnd : R.Nodup := by simpa using I.nodup
  have hsub : R ⊆ nodes := fun x hx => I.sub x (by simpa using hx)
  have hsup : nodes ⊆ R := subset_of_nodup_length_ge hnd hsub (by omega)
  refine ⟨(List.perm_ext_iff_of_nodup hnd hn).2 fun a => ⟨fun h => hsub h, fun h => hsup h⟩, ?_⟩
  intro u hu w hw hwn
  have hwa : w ∈ adjIn nodes adj u := mem_adjIn.2 ⟨hw, hwn⟩
  have hi : R.idxOf u < R.length := List.idxOf_lt_length_iff.2 (hsup hu)
  have hj : R.idxOf w < R.length := List.idxOf_lt_length_iff.2 (hsup hwn)
  have ei : R[R.idxOf u] = u := List.getElem_idxOf hi
  have ej : R[R.idxOf w] = w := List.getElem_idxOf hj
  apply Classical.byContradiction
  intro hlt
  have hpw := I.pw
  rw [List.append_nil, List.pairwise_iff_getElem] at hpw
  rcases Nat.lt_or_eq_of_le (Nat.le_of_not_lt hlt) with h | h
  · have := hpw _ _ hj hi h
    rw [ei, ej] at this
    exact this hwa
  · have : w = u := by
      rw [← ej, ← ei]; congr 1
    subst this
    exact I.noself w (by simpa using hsup hu) hwa

theorem KInv.final_cyclic {nodes : List Nat} {adj : Adj} (hn : nodes.Nodup) {deg : Nat → Int} {R : List Nat}
    (I : KInv nodes adj deg [] R) (hl : R.length ≠ nodes.length) : Cyclic nodes adj := by
  have hnd : R.Nodup := by simpa using I.nodup
  have hsub : R ⊆ nodes := fun x hx => I.sub x (by simpa using hx)
  have hle := hnd.length_le_of_subset hsub
  let S := nodes.filter fun u => !R.contains u
  have hS : ∀ x, x ∈ S ↔ x ∈ nodes ∧ x ∉ R := by intro x; simp [S, List.mem_filter]
  have hne : S ≠ [] := by
    intro he
    have hsup : nodes ⊆ R := by
      intro x hx
      apply Classical.byContradiction
      intro hxr
      have : x ∈ S := (hS x).2 ⟨hx, hxr⟩
      rw [he] at this; cases this
    have := hn.length_le_of_subset hsup
    omega
  have hpred : ∀ x ∈ S, ∃ p ∈ S, x ∈ adjIn nodes adj p := by
    intro x hx
    obtain ⟨hxn, hxr⟩ := (hS x).1 hx
    have hd : deg x ≠ 0 := fun h => hxr (by simpa using (I.zero x hxn).2 h)
    have hc : 0 < (pend nodes adj R).count x := by
      have := I.deg_eq x; omega
    have hm := List.count_pos_iff.1 hc
    unfold pend at hm
    obtain ⟨p, hp, hxp⟩ := List.mem_flatMap.1 hm
    exact ⟨p, hp, hxp⟩
  obtain ⟨v, hv, hcyc⟩ := exists_cycle_of_pred_closed hne hpred
  exact ⟨v, ((hS v).1 hv).1, hcyc⟩

theorem IsTopoOrder.reach_idx_le {nodes : List Nat} {adj : Adj} {order : List Nat}
    (T : IsTopoOrder nodes adj order) {a b : Nat} (ha : a ∈ nodes) (h : Reach (adjIn nodes adj) a b) :
    b ∈ nodes ∧ order.idxOf a ≤ order.idxOf b := by
  induction h with
  | refl => exact ⟨ha, Nat.le_refl _⟩
  | tail _ hc ih =>
    obtain ⟨hb, hle⟩ := ih
    obtain ⟨h1, h2⟩ := mem_adjIn.1 hc
    have := T.forward _ hb _ h1 h2
    exact ⟨h2, by omega⟩

/-- a topological order exists only for acyclic graphs -/
theorem IsTopoOrder.acyclic {nodes : List Nat} {adj : Adj} {order : List Nat}
    (T : IsTopoOrder nodes adj order) : ¬ Cyclic nodes adj := by
  rintro ⟨v, hv, w, hw, hr⟩
  obtain ⟨h1, h2⟩ := mem_adjIn.1 hw
  have := T.forward v hv w h1 h2
  have := (T.reach_idx_le h2 hr).2
  omega

theorem cyclicB_iff {nodes : List Nat} {adj : Adj} : cyclicB nodes adj = true ↔ Cyclic nodes adj := by
  unfold cyclicB Cyclic OnCycle
  simp only [List.any_eq_true, List.contains_iff_mem]
  constructor
  · rintro ⟨v, hv, w, hw, hr⟩
    refine ⟨v, hv, w, hw, ?_⟩
    have := (mem_reach_iff (closed_adjIn nodes adj) (src := [w])
      (by intro y hy; simp at hy; subst hy; exact mem_adjIn_nodes hw)).1 hr
    simpa using this
  · rintro ⟨v, hv, w, hw, hr⟩
    refine ⟨v, hv, w, hw, ?_⟩
    apply (mem_reach_iff (closed_adjIn nodes adj) (src := [w])
      (by intro y hy; simp at hy; subst hy; exact mem_adjIn_nodes hw)).2
    exact ⟨w, by simp, hr⟩

theorem chkTopo_iff {nodes : List Nat} {adj : Adj} (hn : nodes.Nodup) {order : List Nat} :
    chkTopo nodes adj order = true ↔ IsTopoOrder nodes adj order := by
  unfold chkTopo
  simp only [Bool.and_eq_true, decide_eq_true_eq, List.all_eq_true, List.contains_iff_mem, Bool.or_eq_true,
    Bool.not_eq_eq_eq_not, Bool.not_true]
  constructor
  · rintro ⟨⟨⟨h1, h2⟩, h3⟩, h4⟩
    refine ⟨(List.perm_ext_iff_of_nodup h1 hn).2 fun a => ⟨h2 a, h3 a⟩, ?_⟩
    intro u hu w hw hwn
    rcases h4 u hu w hw with h | h
    · exact absurd hwn (by simpa using h)
    · exact h
  · intro T
    refine ⟨⟨⟨T.perm.nodup_iff.2 hn, fun a h => T.perm.mem_iff.1 h⟩, fun a h => T.perm.mem_iff.2 h⟩, ?_⟩
    intro u hu w hw
    by_cases hwn : w ∈ nodes
    · exact Or.inr (T.forward u hu w hw hwn)
    · exact Or.inl (by simpa using hwn)

end Solvor.Graph
