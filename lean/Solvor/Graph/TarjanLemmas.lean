import Solvor.Graph.Lemmas
/-!
Graph: the invariant of the Tarjan mirror (`visit` / `tarjan`), core Lean only.

`TInv adj V g s` is the classical invariant, relative to the *gray chain* `g` (the vertices whose
`strongconnect` call is in progress, innermost first – a ghost parameter, it is not part of the state):
the stack is duplicate-free, sorted by index, lower entries reach higher ones, every stack entry
reaches a gray vertex at or below it, finished vertices have all successors numbered, and the
emitted components are closed under `adj`, strongly connected and listed sinks first.
-/
namespace Solvor.Graph

def TState.vis (s : TState) (x : Nat) : Prop := (s.index x).isSome = true
def TState.idx (s : TState) (x : Nat) : Nat := (s.index x).getD 0

/-- all other gray vertices reach the innermost one -/
def GrayChain (adj : Adj) (g : List Nat) : Prop := ∀ p rest, g = p :: rest → ∀ y ∈ g, Reach adj y p

structure TInv (adj : Adj) (V : List Nat) (g : List Nat) (s : TState) : Prop where
  stack_nodup : s.stack.Nodup
  comps_nodup : s.comps.flatten.Nodup
  disj      : ∀ x ∈ s.stack, x ∉ s.comps.flatten
  vis_iff   : ∀ x, s.vis x ↔ x ∈ s.stack ∨ x ∈ s.comps.flatten
  idx_lt    : ∀ x k, s.index x = some k → k < s.next
  inV       : ∀ x, s.vis x → x ∈ V
  sorted    : s.stack.Pairwise fun a b => s.idx b < s.idx a ∧ Reach adj b a
  gray_on   : ∀ y ∈ g, y ∈ s.stack
  gray_sorted : g.Pairwise fun a b => s.idx b < s.idx a
  to_gray   : ∀ x ∈ s.stack, ∃ y ∈ g, s.idx y ≤ s.idx x ∧ Reach adj x y
  black     : ∀ x, s.vis x → x ∉ g → ∀ w ∈ adj x, s.vis w
  em_closed : ∀ x ∈ s.comps.flatten, ∀ w ∈ adj x, w ∈ s.comps.flatten
  em_order  : SinksFirst adj s.comps
  em_strong : ∀ c ∈ s.comps, c ≠ [] ∧ ∀ u ∈ c, ∀ v ∈ c, Reach adj u v

theorem TState.vis_iff_some {s : TState} {x : Nat} : s.vis x ↔ ∃ k, s.index x = some k := by
  unfold TState.vis
  cases s.index x <;> simp

theorem TState.not_vis_iff {s : TState} {x : Nat} : ¬ s.vis x ↔ s.index x = none := by
  unfold TState.vis
  cases s.index x <;> simp

theorem TState.idx_of_some {s : TState} {x k : Nat} (h : s.index x = some k) : s.idx x = k := by
  simp [TState.idx, h]

/-! ### push -/

@[simp] theorem push_stack (s : TState) (v : Nat) : (s.push v).stack = v :: s.stack := rfl
@[simp] theorem push_comps (s : TState) (v : Nat) : (s.push v).comps = s.comps := rfl
@[simp] theorem push_next (s : TState) (v : Nat) : (s.push v).next = s.next + 1 := rfl
theorem push_index (s : TState) (v x : Nat) :
    (s.push v).index x = if x = v then some s.next else s.index x := rfl
theorem push_low (s : TState) (v x : Nat) : (s.push v).low x = if x = v then s.next else s.low x := rfl

theorem push_vis {s : TState} {v x : Nat} : (s.push v).vis x ↔ x = v ∨ s.vis x := by
  unfold TState.vis
  rw [push_index]
  by_cases h : x = v <;> simp [h]

theorem push_idx_self (s : TState) (v : Nat) : (s.push v).idx v = s.next := by
  simp [TState.idx, push_index]

theorem push_idx_ne {s : TState} {v x : Nat} (h : x ≠ v) : (s.push v).idx x = s.idx x := by
  simp [TState.idx, push_index, h]

theorem TInv.idx_lt_next {adj : Adj} {V g : List Nat} {s : TState} (I : TInv adj V g s) {x : Nat}
    (hx : s.vis x) : s.idx x < s.next := by
  obtain ⟨k, hk⟩ := TState.vis_iff_some.1 hx
  rw [TState.idx_of_some hk]
  exact I.idx_lt x k hk

theorem TInv.push {adj : Adj} {V g : List Nat} {s : TState} (I : TInv adj V g s) {v : Nat}
    (hv : ¬ s.vis v) (hvV : v ∈ V) (hg : GrayChain adj g) (hp : ∀ p rest, g = p :: rest → v ∈ adj p) :
    TInv adj V (v :: g) (s.push v) := by
  have hvs : v ∉ s.stack := fun h => hv ((I.vis_iff v).2 (Or.inl h))
  have hvc : v ∉ s.comps.flatten := fun h => hv ((I.vis_iff v).2 (Or.inr h))
  have hne : ∀ x ∈ s.stack, x ≠ v := fun x hx h => hvs (h ▸ hx)
  -- every old stack entry reaches `v` through the innermost gray vertex
  have hreach : ∀ b ∈ s.stack, Reach adj b v := by
    intro b hb
    obtain ⟨y, hy, _, hby⟩ := I.to_gray b hb
    cases g with
    | nil => cases hy
    | cons p rest => exact (hby.trans (hg p rest rfl y hy)).tail (hp p rest rfl)
  refine ⟨?_, I.comps_nodup, ?_, ?_, ?_, ?_, ?_, ?_, ?_, ?_, ?_, I.em_closed, I.em_order, I.em_strong⟩
  · exact List.nodup_cons.2 ⟨hvs, I.stack_nodup⟩
  · intro x hx
    rcases List.mem_cons.1 hx with h | h
    · subst h; exact hvc
    · exact I.disj x h
  · intro x
    rw [push_vis, push_stack, push_comps, List.mem_cons, I.vis_iff x]
    constructor
    · rintro (h | h | h)
      · exact Or.inl (Or.inl h)
      · exact Or.inl (Or.inr h)
      · exact Or.inr h
    · rintro ((h | h) | h)
      · exact Or.inl h
      · exact Or.inr (Or.inl h)
      · exact Or.inr (Or.inr h)
  · intro x k hk
    rw [push_index] at hk
    rw [push_next]
    by_cases h : x = v
    · simp [h] at hk; omega
    · simp [h] at hk; have := I.idx_lt x k hk; omega
  · intro x hx
    rcases push_vis.1 hx with h | h
    · subst h; exact hvV
    · exact I.inV x h
  · rw [push_stack, List.pairwise_cons]
    constructor
    · intro b hb
      rw [push_idx_self, push_idx_ne (hne b hb)]
      exact ⟨I.idx_lt_next ((I.vis_iff b).2 (Or.inl hb)), hreach b hb⟩
    · apply List.Pairwise.imp_of_mem _ I.sorted
      intro a b ha hb hab
      rw [push_idx_ne (hne a ha), push_idx_ne (hne b hb)]
      exact hab
  · intro y hy
    rw [push_stack]
    rcases List.mem_cons.1 hy with h | h
    · subst h; exact List.mem_cons_self
    · exact List.mem_cons_of_mem _ (I.gray_on y h)
  · rw [List.pairwise_cons]
    constructor
    · intro y hy
      have hys := I.gray_on y hy
      rw [push_idx_self, push_idx_ne (hne y hys)]
      exact I.idx_lt_next ((I.vis_iff y).2 (Or.inl hys))
    · apply List.Pairwise.imp_of_mem _ I.gray_sorted
      intro a b ha hb hab
      rw [push_idx_ne (hne a (I.gray_on a ha)), push_idx_ne (hne b (I.gray_on b hb))]
      exact hab
  · intro x hx
    rw [push_stack] at hx
    rcases List.mem_cons.1 hx with h | h
    · subst h; exact ⟨x, List.mem_cons_self, Nat.le_refl _, Reach.refl _⟩
    · obtain ⟨y, hy, hle, hr⟩ := I.to_gray x h
      refine ⟨y, List.mem_cons_of_mem _ hy, ?_, hr⟩
      rw [push_idx_ne (hne x h), push_idx_ne (hne y (I.gray_on y hy))]
      exact hle
  · intro x hx hxg w hw
    have hxv : x ≠ v := fun h => hxg (h ▸ List.mem_cons_self)
    have hxs : s.vis x := by
      rcases push_vis.1 hx with h | h
      · exact absurd h hxv
      · exact h
    exact push_vis.2 (Or.inr (I.black x hxs (fun h => hxg (List.mem_cons_of_mem _ h)) w hw))

/-! ### leaving `strongconnect(v)` -/

theorem popTo_spec (v : Nat) (L rest acc : List Nat) (hv : v ∉ L) :
    popTo v (L ++ v :: rest) acc = (acc.reverse ++ L ++ [v], rest) := by
  induction L generalizing acc with
  | nil => simp [popTo]
  | cons a t ih =>
    have hav : a ≠ v := fun h => hv (h ▸ List.mem_cons_self)
    have htv : v ∉ t := fun h => hv (List.mem_cons_of_mem _ h)
    simp only [List.cons_append, popTo, hav, if_false]
    rw [ih _ htv]
    simp

/-- a walk that starts inside `P` and ends outside leaves `P` through some edge -/
theorem reach_exit {adj : Adj} {P : Nat → Prop} {x y : Nat} (h : Reach adj x y) (hx : P x) (hy : ¬ P y) :
    ∃ a b, P a ∧ ¬ P b ∧ b ∈ adj a ∧ Reach adj x a ∧ Reach adj b y := by
  induction h with
  | refl => exact absurd hx hy
  | @tail c d hxc hd ih =>
    by_cases hc : P c
    · exact ⟨c, d, hc, hy, hd, hxc, Reach.refl _⟩
    · obtain ⟨a, b, ha, hb, hab, hxa, hbc⟩ := ih hc
      exact ⟨a, b, ha, hb, hab, hxa, Reach.tail hbc hd⟩

theorem reach_in_closed {adj : Adj} {E : List Nat} (hE : ∀ x ∈ E, ∀ w ∈ adj x, w ∈ E) {a b : Nat}
    (h : Reach adj a b) (ha : a ∈ E) : b ∈ E := by
  induction h with
  | refl => exact ha
  | tail _ hc ih => exact hE _ ih _ hc

/-- stack entries above a position have larger indices and are reached from it -/
theorem TInv.above {adj : Adj} {V g : List Nat} {t : TState} (I : TInv adj V g t) {L rest : List Nat}
    {v : Nat} (hst : t.stack = L ++ v :: rest) :
    (∀ x ∈ L, t.idx v < t.idx x ∧ Reach adj v x) ∧ (∀ x ∈ rest, t.idx x < t.idx v ∧ Reach adj x v) ∧
    v ∉ L ∧ v ∉ rest ∧ (∀ x ∈ L, x ∉ rest) := by
  have hs := I.sorted
  have hn := I.stack_nodup
  rw [hst] at hs hn
  rw [List.pairwise_append] at hs
  rw [List.nodup_append] at hn
  obtain ⟨_, hs2, hs3⟩ := hs
  obtain ⟨_, hn2, hn3⟩ := hn
  rw [List.pairwise_cons] at hs2
  rw [List.nodup_cons] at hn2
  refine ⟨fun x hx => hs3 x hx v List.mem_cons_self, fun x hx => hs2.1 x hx, ?_, hn2.1, ?_⟩
  · intro h; exact hn3 v h v List.mem_cons_self rfl
  · intro x hx hxr; exact hn3 x hx x (List.mem_cons_of_mem _ hxr) rfl

/-- `low_link[v] == index[v]`: the stack segment down to `v` is emitted as a component -/
theorem TInv.pop {adj : Adj} {V g : List Nat} {t : TState} {v : Nat} {L rest : List Nat}
    (I : TInv adj V (v :: g) t) (hst : t.stack = L ++ v :: rest) (hsucc : ∀ w ∈ adj v, t.vis w)
    (hX : ∀ x ∈ L ++ [v], ∀ z ∈ adj x, z ∉ rest) :
    TInv adj V g { t with stack := rest, comps := t.comps ++ [L ++ [v]] } := by
  obtain ⟨hL, hR, hvL, hvR, hLR⟩ := I.above hst
  have hmemst : ∀ x, x ∈ t.stack ↔ x ∈ L ++ [v] ∨ x ∈ rest := by
    intro x; rw [hst]; simp only [List.mem_append, List.mem_cons, List.not_mem_nil, or_false]
    constructor
    · rintro (h | h | h)
      · exact Or.inl (Or.inl h)
      · exact Or.inl (Or.inr h)
      · exact Or.inr h
    · rintro ((h | h) | h)
      · exact Or.inl h
      · exact Or.inr (Or.inl h)
      · exact Or.inr (Or.inr h)
  have hNst : ∀ x ∈ L ++ [v], x ∈ t.stack := fun x hx => (hmemst x).2 (Or.inl hx)
  have hNrest : ∀ x ∈ L ++ [v], x ∉ rest := by
    intro x hx hxr
    rcases List.mem_append.1 hx with h | h
    · exact hLR x h hxr
    · simp at h; subst h; exact hvR hxr
  have hgs := I.gray_sorted
  rw [List.pairwise_cons] at hgs
  -- gray vertices other than `v` lie below `v`
  have hgrest : ∀ y ∈ g, y ∈ rest := by
    intro y hy
    have hlt := hgs.1 y hy
    rcases (hmemst y).1 (I.gray_on y (List.mem_cons_of_mem _ hy)) with h | h
    · exfalso
      rcases List.mem_append.1 h with h' | h'
      · have := (hL y h').1; omega
      · simp at h'; subst h'; omega
    · exact h
  have hNg : ∀ x ∈ L ++ [v], x ≠ v → x ∉ v :: g := by
    intro x hx hxv hxg
    rcases List.mem_cons.1 hxg with h | h
    · exact hxv h
    · exact hNrest x hx (hgrest x h)
  -- successors of segment members are numbered
  have hNsucc : ∀ x ∈ L ++ [v], ∀ w ∈ adj x, t.vis w := by
    intro x hx w hw
    by_cases hxv : x = v
    · subst hxv; exact hsucc w hw
    · exact I.black x ((I.vis_iff x).2 (Or.inl (hNst x hx))) (hNg x hx hxv) w hw
  -- … and lie in the segment or in an emitted component
  have hNadj : ∀ x ∈ L ++ [v], ∀ w ∈ adj x, w ∈ L ++ [v] ∨ w ∈ t.comps.flatten := by
    intro x hx w hw
    rcases (I.vis_iff w).1 (hNsucc x hx w hw) with h | h
    · rcases (hmemst w).1 h with h' | h'
      · exact Or.inl h'
      · exact absurd h' (hX x hx w hw)
    · exact Or.inr h
  have hflat : (t.comps ++ [L ++ [v]]).flatten = t.comps.flatten ++ (L ++ [v]) := by simp
  -- every segment member reaches `v`
  have htoV : ∀ u ∈ L ++ [v], Reach adj u v := by
    intro u hu
    obtain ⟨y, hy, _, huy⟩ := I.to_gray u (hNst u hu)
    rcases List.mem_cons.1 hy with h | h
    · subst h; exact huy
    · exfalso
      have hyr := hgrest y h
      obtain ⟨a, b, ha, hb, hab, _, hby⟩ :=
        reach_exit (P := fun z => z ∈ L ++ [v]) huy hu (fun hyN => hNrest y hyN hyr)
      rcases hNadj a ha b hab with h' | h'
      · exact hb h'
      · have := reach_in_closed I.em_closed hby h'
        exact I.disj y ((hmemst y).2 (Or.inr hyr)) this
  have hfromV : ∀ u ∈ L ++ [v], Reach adj v u := by
    intro u hu
    rcases List.mem_append.1 hu with h | h
    · exact (hL u h).2
    · simp at h; subst h; exact Reach.refl _
  have hsN : (L ++ [v]).Nodup := by
    have := I.stack_nodup
    rw [hst] at this
    have h2 : (L ++ [v]) ++ rest = L ++ v :: rest := by simp
    rw [← h2] at this
    exact (List.nodup_append.1 this).1
  have hsR : rest.Nodup := by
    have := I.stack_nodup
    rw [hst, List.nodup_append] at this
    exact (List.nodup_cons.1 this.2.1).2
  refine ⟨hsR, ?_, ?_, ?_, I.idx_lt, I.inV, ?_, hgrest, hgs.2, ?_, ?_, ?_, ?_, ?_⟩
  · show (t.comps ++ [L ++ [v]]).flatten.Nodup
    rw [hflat, List.nodup_append]
    refine ⟨I.comps_nodup, hsN, ?_⟩
    intro a ha b hb hab
    subst hab
    exact I.disj a (hNst a hb) ha
  · intro x hx
    show x ∉ (t.comps ++ [L ++ [v]]).flatten
    rw [hflat, List.mem_append]
    rintro (h | h)
    · exact I.disj x ((hmemst x).2 (Or.inr hx)) h
    · exact hNrest x h hx
  · intro x
    show t.vis x ↔ x ∈ rest ∨ x ∈ (t.comps ++ [L ++ [v]]).flatten
    rw [hflat, List.mem_append, I.vis_iff x, hmemst x]
    constructor
    · rintro ((h | h) | h)
      · exact Or.inr (Or.inr h)
      · exact Or.inl h
      · exact Or.inr (Or.inl h)
    · rintro (h | h | h)
      · exact Or.inl (Or.inr h)
      · exact Or.inr h
      · exact Or.inl (Or.inl h)
  · show rest.Pairwise fun a b => t.idx b < t.idx a ∧ Reach adj b a
    have := I.sorted
    rw [hst, List.pairwise_append] at this
    exact (List.pairwise_cons.1 this.2.1).2
  · intro x hx
    obtain ⟨y, hy, hle, hr⟩ := I.to_gray x ((hmemst x).2 (Or.inr hx))
    rcases List.mem_cons.1 hy with h | h
    · subst h; have := (hR x hx).1; omega
    · exact ⟨y, h, hle, hr⟩
  · intro x hx hxg w hw
    by_cases hxv : x = v
    · subst hxv; exact hsucc w hw
    · refine I.black x hx ?_ w hw
      intro h
      rcases List.mem_cons.1 h with h' | h'
      · exact hxv h'
      · exact hxg h'
  · intro x hx w hw
    show w ∈ (t.comps ++ [L ++ [v]]).flatten
    have hx' : x ∈ (t.comps ++ [L ++ [v]]).flatten := hx
    rw [hflat, List.mem_append] at hx' ⊢
    rcases hx' with h | h
    · exact Or.inl (I.em_closed x h w hw)
    · rcases hNadj x h w hw with h' | h'
      · exact Or.inr h'
      · exact Or.inl h'
  · show SinksFirst adj (t.comps ++ [L ++ [v]])
    unfold SinksFirst
    rw [List.pairwise_append]
    refine ⟨I.em_order, by simp, ?_⟩
    intro c hc b hb u hu w hw hwb
    have hb' : b = L ++ [v] := by simpa using hb
    subst hb'
    have hwf := I.em_closed u (List.mem_flatten.2 ⟨c, hc, hu⟩) w hw
    exact I.disj w (hNst w hwb) hwf
  · intro c hc
    show c ≠ [] ∧ ∀ u ∈ c, ∀ v ∈ c, Reach adj u v
    have hc' : c ∈ t.comps ++ [L ++ [v]] := hc
    rcases List.mem_append.1 hc' with h | h
    · exact I.em_strong c h
    · have hcN : c = L ++ [v] := by simpa using h
      subst hcN
      refine ⟨by simp, ?_⟩
      intro u hu w hw
      exact (htoV u hu).trans (hfromV w hw)

/-- `low_link[v] < index[v]`: `v` stays on the stack and stops being gray -/
theorem TInv.keep {adj : Adj} {V g : List Nat} {t : TState} {v : Nat} (I : TInv adj V (v :: g) t)
    (hsucc : ∀ w ∈ adj v, t.vis w) (hw : ∃ y ∈ t.stack, t.idx y < t.idx v ∧ Reach adj v y) :
    TInv adj V g t := by
  have hgs := I.gray_sorted
  rw [List.pairwise_cons] at hgs
  refine ⟨I.stack_nodup, I.comps_nodup, I.disj, I.vis_iff, I.idx_lt, I.inV, I.sorted,
    fun y hy => I.gray_on y (List.mem_cons_of_mem _ hy), hgs.2, ?_, ?_, I.em_closed, I.em_order, I.em_strong⟩
  · intro x hx
    obtain ⟨y, hy, hle, hr⟩ := I.to_gray x hx
    rcases List.mem_cons.1 hy with h | h
    · subst h
      obtain ⟨y', hy', hlt, hr'⟩ := hw
      obtain ⟨y'', hy'', hle', hr''⟩ := I.to_gray y' hy'
      rcases List.mem_cons.1 hy'' with h' | h'
      · subst h'; omega
      · exact ⟨y'', h', by omega, (hr.trans hr').trans hr''⟩
    · exact ⟨y, h, hle, hr⟩
  · intro x hx hxg w hw'
    by_cases hxv : x = v
    · subst hxv; exact hsucc w hw'
    · refine I.black x hx ?_ w hw'
      intro h
      rcases List.mem_cons.1 h with h' | h'
      · exact hxv h'
      · exact hxg h'

end Solvor.Graph
