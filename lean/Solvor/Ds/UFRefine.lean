import Solvor.Ds.UFProofs
/-! Ds: the simulation relation between the union-find and the label array, step by step. -/
namespace Solvor.Ds
open Batteries

/-- simulation relation: same classes, `_count` = number of distinct labels -/
structure Sim (n : Nat) (s : PyUF) (lab : List Nat) : Prop where
  size : s.uf.size = n
  len : lab.length = n
  cls : ∀ a b, a < n → b < n → (s.uf.rootD a = s.uf.rootD b ↔ lab.getD a 0 = lab.getD b 0)
  cnt : s.count = (distinct lab).length

theorem pushN_size (n : Nat) : (pushN n).size = n := by
  induction n with
  | zero => rfl
  | succ k ih => simp [pushN, UnionFind.push, UnionFind.size] at *; omega

theorem pushN_rootD (n a : Nat) : (pushN n).rootD a = a := by
  induction n with
  | zero => simp [pushN]
  | succ k ih => simp [pushN, ih]

theorem getD_range (n a : Nat) (h : a < n) : (List.range n).getD a 0 = a := by
  simp [List.getD, h]

theorem sim_init (n : Nat) : Sim n (PyUF.init n) (List.range n) := by
  refine ⟨pushN_size n, List.length_range, ?_, ?_⟩
  · intro a b ha hb
    simp [PyUF.init, pushN_rootD, getD_range, ha, hb]
  · rw [distinct_length, List.toFinset_card_of_nodup List.nodup_range, List.length_range]; rfl

theorem find_spec (s : PyUF) (x : Nat) (hx : x < s.uf.size) :
    (s.find x).2 = s.uf.rootD x ∧ (s.find x).1.uf.size = s.uf.size ∧
    (∀ i, (s.find x).1.uf.rootD i = s.uf.rootD i) ∧ (s.find x).1.count = s.count := by
  unfold PyUF.find UnionFind.findD
  simp only [hx, dite_true]
  refine ⟨?_, ?_, ?_, by first | rfl | trivial⟩
  · exact UnionFind.find_root_2 s.uf ⟨x, hx⟩
  · exact UnionFind.find_size s.uf ⟨x, hx⟩
  · intro i; exact UnionFind.find_root_1 s.uf ⟨x, hx⟩ i

theorem sim_find {n : Nat} {s : PyUF} {lab : List Nat} (h : Sim n s lab) (x : Nat) (hx : x < n) :
    Sim n (s.find x).1 lab := by
  obtain ⟨f1, f2, f3, f4⟩ := find_spec s x (by rw [h.size]; exact hx)
  exact ⟨by rw [f2, h.size], h.len, fun a b ha hb => by rw [f3, f3]; exact h.cls a b ha hb,
    by rw [f4, h.cnt]⟩

theorem roots_spec (s : PyUF) : ∀ m, m ≤ s.uf.size →
    (s.roots m).2 = (List.range m).map s.uf.rootD ∧ (s.roots m).1.uf.size = s.uf.size ∧
    (∀ i, (s.roots m).1.uf.rootD i = s.uf.rootD i) ∧ (s.roots m).1.count = s.count := by
  intro m
  induction m with
  | zero => intro _; simp [PyUF.roots]
  | succ k ih =>
    intro hk
    obtain ⟨i1, i2, i3, i4⟩ := ih (by omega)
    unfold PyUF.roots at *
    rw [List.range_succ, List.foldl_append]
    simp only [List.foldl_cons, List.foldl_nil]
    obtain ⟨f1, f2, f3, f4⟩ := find_spec
      ((List.range k).foldl (fun (acc : PyUF × List Nat) i =>
        let r := acc.1.find i; (r.1, acc.2 ++ [r.2])) (s, [])).1 k (by rw [i2]; omega)
    refine ⟨?_, by rw [f2, i2], fun i => by rw [f3, i3], by rw [f4, i4]⟩
    rw [i1, f1, i3, List.map_append]; rfl

theorem getD_map_range (f : Nat → Nat) (n a : Nat) (h : a < n) :
    ((List.range n).map f).getD a 0 = f a := by
  simp [List.getD, h]

theorem sim_keys {n : Nat} {s : PyUF} {lab : List Nat} (h : Sim n s lab) :
    ((List.range n).map s.uf.rootD).length = lab.length ∧
    ∀ i j, i < ((List.range n).map s.uf.rootD).length → j < ((List.range n).map s.uf.rootD).length →
      (((List.range n).map s.uf.rootD).getD i 0 = ((List.range n).map s.uf.rootD).getD j 0 ↔
        lab.getD i 0 = lab.getD j 0) := by
  refine ⟨by simp [h.len], fun i j hi hj => ?_⟩
  simp only [List.length_map, List.length_range] at hi hj
  rw [getD_map_range _ _ _ hi, getD_map_range _ _ _ hj]
  exact h.cls i j hi hj

theorem mem_of_getD {lab : List Nat} {a : Nat} (h : a < lab.length) : lab.getD a 0 ∈ lab := by
  simp only [List.getD, List.getElem?_eq_getElem h, Option.getD_some]
  exact List.getElem_mem h

theorem getD_map (lab : List Nat) (f : Nat → Nat) (a : Nat) (h : a < lab.length) :
    (lab.map f).getD a 0 = f (lab.getD a 0) := by
  simp [List.getD, List.getElem?_eq_getElem h]

theorem union_size (u : UnionFind) (x y : Fin u.size) : (u.union x y).size = u.size := by
  simp [UnionFind.union, UnionFind.link, UnionFind.size]

theorem label_merge_iff (la lb lx ly : Nat) (h : lx ≠ ly) :
    (la = lb ∨ (la = ly ∧ lx = lb) ∨ (la = lx ∧ ly = lb)) ↔
      (if la = ly then lx else la) = (if lb = ly then lx else lb) := by
  split <;> split <;> omega

theorem sim_step {n : Nat} {s : PyUF} {lab : List Nat} (h : Sim n s lab) (op : UOp)
    (hop : op.inRange n) :
    (ufStep n s op).2 = (qfStep lab op).2 ∧ Sim n (ufStep n s op).1 (qfStep lab op).1 := by
  cases op with
  | find x =>
    have hx : x < n := hop
    obtain ⟨f1, _, _, _⟩ := find_spec s x (by rw [h.size]; exact hx)
    refine ⟨?_, sim_find h x hx⟩
    simp only [ufStep, qfStep, f1, Out.nat.injEq]
    obtain ⟨k1, k2⟩ := sim_keys h
    -- the class of the root is the class of x
    have hr : s.uf.rootD x < n := by
      have := (UnionFind.rootD_lt (self := s.uf) (x := x)).2 (by rw [h.size]; exact hx)
      rwa [h.size] at this
    have e1 : classRep ((List.range n).map s.uf.rootD) (s.uf.rootD x)
        = classRep ((List.range n).map s.uf.rootD) x := by
      unfold classRep
      simp only [List.length_map, List.length_range]
      have : ∀ j, (((List.range n).map s.uf.rootD).getD j 0 == ((List.range n).map s.uf.rootD).getD (s.uf.rootD x) 0)
          = (((List.range n).map s.uf.rootD).getD j 0 == ((List.range n).map s.uf.rootD).getD x 0) := by
        intro j
        rw [getD_map_range _ _ _ hr, getD_map_range _ _ _ hx, UnionFind.rootD_rootD]
      simp only [this]
      cases hf : (List.range n).find? fun j =>
          ((List.range n).map s.uf.rootD).getD j 0 == ((List.range n).map s.uf.rootD).getD x 0 with
      | some v => rfl
      | none =>
        exfalso
        rw [List.find?_eq_none] at hf
        have := hf x (List.mem_range.2 hx)
        simp at this
    rw [e1]
    exact classRep_congr _ _ k1 x (by simpa using hx) k2
  | connected x y =>
    have hx : x < n := hop.1
    have hy : y < n := hop.2
    obtain ⟨f1, f2, f3, f4⟩ := find_spec s x (by rw [h.size]; exact hx)
    obtain ⟨g1, g2, g3, g4⟩ := find_spec (s.find x).1 y (by rw [f2, h.size]; exact hy)
    refine ⟨?_, sim_find (sim_find h x hx) y hy⟩
    simp only [ufStep, qfStep, PyUF.connected, f1, g1, f3, Out.bool.injEq]
    rw [Bool.eq_iff_iff]
    simp only [beq_iff_eq]
    exact h.cls x y hx hy
  | count => exact ⟨by simp [ufStep, qfStep, h.cnt], h⟩
  | sizes =>
    obtain ⟨r1, r2, r3, r4⟩ := roots_spec s n (by have := h.size; omega)
    obtain ⟨k1, k2⟩ := sim_keys h
    have hS : Sim n (s.roots n).1 lab :=
      ⟨by rw [r2, h.size], h.len, fun a b ha hb => by rw [r3, r3]; exact h.cls a b ha hb,
        by rw [r4, h.cnt]⟩
    refine ⟨?_, hS⟩
    simp only [ufStep, qfStep, r1]
    rw [groupsBy_congr _ _ k1 k2]
  | comps =>
    obtain ⟨r1, r2, r3, r4⟩ := roots_spec s n (by have := h.size; omega)
    obtain ⟨k1, k2⟩ := sim_keys h
    have hS : Sim n (s.roots n).1 lab :=
      ⟨by rw [r2, h.size], h.len, fun a b ha hb => by rw [r3, r3]; exact h.cls a b ha hb,
        by rw [r4, h.cnt]⟩
    refine ⟨?_, hS⟩
    simp only [ufStep, qfStep, r1]
    rw [groupsBy_congr _ _ k1 k2]
  | union x y =>
    have hx : x < n := hop.1
    have hy : y < n := hop.2
    have hxs : x < s.uf.size := by rw [h.size]; exact hx
    have hys : y < s.uf.size := by rw [h.size]; exact hy
    have hxy := h.cls x y hx hy
    simp only [ufStep, qfStep, PyUF.union, hxs, hys, and_self, dite_true]
    by_cases hsame : lab.getD x 0 = lab.getD y 0
    · -- already connected
      have hroot := hxy.2 hsame
      simp only [hsame, beq_self_eq_true, if_true, hroot, decide_true, Bool.not_true]
      refine ⟨trivial, ⟨by rw [union_size, h.size], h.len, fun a b ha hb => ?_, h.cnt⟩⟩
      have := UnionFind.equiv_union (self := s.uf) (x := ⟨y, hys⟩) (y := ⟨x, hxs⟩) (a := a) (b := b)
      simp only [UnionFind.Equiv] at this
      rw [this, ← h.cls a b ha hb]
      constructor
      · rintro (h1 | ⟨h1, h2⟩ | ⟨h1, h2⟩)
        · exact h1
        · rw [h1, ← hroot, h2]
        · rw [h1, hroot, h2]
      · intro h1; exact Or.inl h1
    · have hroot : ¬ s.uf.rootD x = s.uf.rootD y := fun e => hsame (hxy.1 e)
      have hne : (lab.getD x 0 == lab.getD y 0) = false := by simpa using hsame
      simp only [hne, hroot, decide_false, Bool.not_false, Bool.false_eq_true, if_false]
      refine ⟨trivial, ⟨by rw [union_size, h.size], by simp [h.len], fun a b ha hb => ?_, ?_⟩⟩
      · have := UnionFind.equiv_union (self := s.uf) (x := ⟨y, hys⟩) (y := ⟨x, hxs⟩) (a := a) (b := b)
        simp only [UnionFind.Equiv] at this
        rw [this, h.cls a b ha hb, h.cls a y ha hy, h.cls x b hx hb, h.cls a x ha hx, h.cls y b hy hb,
          getD_map _ _ _ (by rw [h.len]; exact ha), getD_map _ _ _ (by rw [h.len]; exact hb)]
        simp only [beq_iff_eq]
        exact label_merge_iff _ _ _ _ hsame
      · show s.count - 1 = _
        rw [h.cnt]
        have := distinct_merge lab (lab.getD x 0) (lab.getD y 0)
          (mem_of_getD (by rw [h.len]; exact hx)) (mem_of_getD (by rw [h.len]; exact hy)) hsame
        omega

end Solvor.Ds
