/-! Ds: executable models (no Mathlib imports). -/
namespace Solvor.Ds

end Solvor.Ds
