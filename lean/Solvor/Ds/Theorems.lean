import Solvor.Ds.Model
/-! Ds: property theorems only (helper lemmas live in Lemmas.lean). -/
namespace Solvor.Ds

end Solvor.Ds
