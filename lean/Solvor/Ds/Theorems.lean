import Solvor.Ds.FenwickTheorems
import Solvor.Ds.UFTheorems
/-! Ds: the property theorems of C20 are `fenwick_refines`, `fenwick_refines_zeros`
(plus the state-level `fenwick_updates_eq_rebuild`, `fenwick_history_independent`; FenwickTheorems.lean) and `uf_refines`, `qf_count_is_classes`, `qf_union_classes`
(UFTheorems.lean). -/
