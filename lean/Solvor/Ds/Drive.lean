import Solvor.Common.Proto
import Solvor.Ds.Fenwick
import Solvor.Ds.UF
/-! Ds: line-protocol handler (run under the interpreter: `lake env lean --run Solvor/Ds/Main.lean`).

`["uf", n, ops]`, ops = list of `[kind, x, y, r]` (kind 0 union, 1 find, 2 connected, 3 count,
4 sizes, 5 comps; `r` = the root the implementation returned for a find, else 0).
Reply `[ufOuts, qfOuts, roots, implRep]`: the union-find's outputs (`ufStep`), the reference's
(`qfStep`), for each op the raw root the mirror's `find` returned (0 for other ops), and for each
find the reference class name of the implementation's root.

`["fen", init, ops]`, init = list of ints, or `[n]`-wrapped size for `FenwickTree(n)` as
`["zeros", n]`; ops = `[0, i, d]` update, `[1, i]` prefix, `[2, l, r]` range_sum.
Reply `[fenOuts, arrOuts]`.
-/
namespace Solvor.Ds
open Solvor.Proto

def outVal : Out → Val
  | .bool b => .bool b
  | .nat k => .int k
  | .nats l => Val.ofNats l
  | .natss l => Val.ofNatss l

def decodeU : List Nat → Option UOp
  | [0, x, y, _] => some (.union x y)
  | [1, x, _, _] => some (.find x)
  | [2, x, y, _] => some (.connected x y)
  | [3, _, _, _] => some .count
  | [4, _, _, _] => some .sizes
  | [5, _, _, _] => some .comps
  | _ => none

def ufLoop (n : Nat) : PyUF → List Nat → List (List Nat) → List Val → List Val → List Val → List Val →
    Option (List Val × List Val × List Val × List Val)
  | _, _, [], a, b, c, d => some (a.reverse, b.reverse, c.reverse, d.reverse)
  | s, lab, raw :: rest, a, b, c, d =>
    match decodeU raw with
    | none => none
    | some op =>
      let u := ufStep n s op
      let q := qfStep lab op
      let (root, rep) : Nat × Nat := match op with
        | .find x => ((s.find x).2, classRep lab (raw.getD 3 0))
        | _ => (0, 0)
      ufLoop n u.1 q.1 rest (outVal u.2 :: a) (outVal q.2 :: b) (Val.int root :: c) (Val.int rep :: d)

def decodeF : List Int → Option FOp
  | [0, i, d] => some (.update i.toNat d)
  | [1, i] => some (.pre i.toNat)
  | [2, l, r] => some (.range l.toNat r.toNat)
  | _ => none

def handle (line : String) : String :=
  match request line with
  | some ("uf", [n, ops]) =>
    match n.toNat?, ops.toNatss? with
    | some n, some ops =>
      match ufLoop n (PyUF.init n) (List.range n) ops [] [] [] [] with
      | some (a, b, c, d) => (Val.arr [.arr a, .arr b, .arr c, .arr d]).render
      | none => err "bad op"
    | _, _ => err "bad arguments"
  | some ("fen", [init, ops]) =>
    let t0 : Option (List Int × List Int) := match init with
      | .arr [.str "zeros", .int n] => some (List.replicate n.toNat 0, List.replicate n.toNat 0)
      | v => (v.toInts?).map fun vals => (fenBuild vals, vals)
    match t0, ops.toIntss? with
    | some (t, a), some ops =>
      match ops.mapM decodeF with
      | some fops => (Val.arr [Val.ofInts (fenRun t fops), Val.ofInts (arrRun a fops)]).render
      | none => err "bad op"
    | _, _ => err "bad arguments"
  | _ => err "bad request"

end Solvor.Ds
