import Solvor.Common.Proto
import Solvor.Ds.Model
/-! Ds: line-protocol handler. One request line in, one reply line out. -/
namespace Solvor.Ds

def handle (line : String) : String := "unimplemented " ++ line

end Solvor.Ds
