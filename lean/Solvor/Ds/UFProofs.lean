import Solvor.Ds.UF
import Batteries.Data.UnionFind.Lemmas
import Mathlib.Data.Finset.Card
import Mathlib.Data.Finset.Image
import Mathlib.Data.List.Basic
import Mathlib.Data.List.Find
/-! Ds: union-find refinement lemmas. -/
namespace Solvor.Ds
open Batteries

/-! ### counting distinct labels -/

theorem distinct_toFinset (l : List Nat) : (distinct l).toFinset = l.toFinset := by
  induction l with
  | nil => rfl
  | cons a l ih =>
    ext x
    simp only [distinct, List.toFinset_cons, Finset.mem_insert, List.mem_toFinset, List.mem_filter,
      bne_iff_ne, ne_eq]
    have : x ∈ distinct l ↔ x ∈ l := by
      rw [← List.mem_toFinset, ih, List.mem_toFinset]
    rw [this]
    by_cases h : x = a <;> simp [h]

theorem distinct_nodup (l : List Nat) : (distinct l).Nodup := by
  induction l with
  | nil => exact List.nodup_nil
  | cons a l ih =>
    simp only [distinct, List.nodup_cons, List.mem_filter, bne_iff_ne, ne_eq, not_and, not_not]
    exact ⟨fun _ => trivial, ih.filter _⟩

theorem distinct_length (l : List Nat) : (distinct l).length = l.toFinset.card := by
  rw [← distinct_toFinset, List.toFinset_card_of_nodup (distinct_nodup l)]

/-- merging label `ly` into `lx` removes exactly one distinct label -/
theorem distinct_merge (l : List Nat) (lx ly : Nat) (hx : lx ∈ l) (hy : ly ∈ l) (hne : lx ≠ ly) :
    (distinct (l.map fun v => if v == ly then lx else v)).length + 1 = (distinct l).length := by
  rw [distinct_length, distinct_length]
  have : (l.map fun v => if (v == ly) = true then lx else v).toFinset = l.toFinset.erase ly := by
    ext z
    simp only [List.mem_map, List.mem_toFinset, Finset.mem_erase, beq_iff_eq]
    constructor
    · rintro ⟨v, hv, rfl⟩
      by_cases h : v = ly
      · simp [h, hne, hx]
      · simp [h, hv]
    · rintro ⟨hz, hzl⟩
      exact ⟨z, hzl, by simp [hz]⟩
  rw [this, Finset.card_erase_of_mem (List.mem_toFinset.2 hy)]
  have : 0 < l.toFinset.card := Finset.card_pos.2 ⟨ly, List.mem_toFinset.2 hy⟩
  omega

/-! ### groups depend on the keys only through their equality pattern -/

theorem groupsBy_congr (k1 k2 : List Nat) (hl : k1.length = k2.length)
    (h : ∀ i j, i < k1.length → j < k1.length → (k1.getD i 0 = k1.getD j 0 ↔ k2.getD i 0 = k2.getD j 0)) :
    groupsBy k1 = groupsBy k2 := by
  unfold groupsBy
  rw [← hl]
  simp only []
  have e1 : ((List.range k1.length).filter fun i => (List.range i).all fun j => k1.getD j 0 != k1.getD i 0)
      = ((List.range k1.length).filter fun i => (List.range i).all fun j => k2.getD j 0 != k2.getD i 0) := by
    apply List.filter_congr
    intro i hi
    have hi' := List.mem_range.1 hi
    rw [Bool.eq_iff_iff]
    simp only [List.all_eq_true, List.mem_range, bne_iff_ne, ne_eq]
    constructor
    · intro H j hj hjk; exact H j hj ((h j i (by omega) hi').2 hjk)
    · intro H j hj hjk; exact H j hj ((h j i (by omega) hi').1 hjk)
  rw [e1]
  apply List.map_congr_left
  intro i hi
  have hi' := List.mem_range.1 (List.mem_filter.1 hi).1
  apply List.filter_congr
  intro j hj
  have hj' := List.mem_range.1 hj
  rw [Bool.eq_iff_iff]
  simp only [beq_iff_eq]
  exact h j i hj' hi'

theorem classRep_congr (k1 k2 : List Nat) (hl : k1.length = k2.length) (x : Nat) (hx : x < k1.length)
    (h : ∀ i j, i < k1.length → j < k1.length → (k1.getD i 0 = k1.getD j 0 ↔ k2.getD i 0 = k2.getD j 0)) :
    classRep k1 x = classRep k2 x := by
  unfold classRep
  rw [← hl]
  congr 1
  apply List.find?_congr
  intro j hj
  have hj' := List.mem_range.1 hj
  rw [Bool.eq_iff_iff]
  simp only [beq_iff_eq]
  exact h j x hj' hx

end Solvor.Ds
