import Solvor.Ds.UFRefine
/-! Ds: property theorems of C20 for `UnionFind`. -/
namespace Solvor.Ds

theorem run_sim {n : Nat} {s : PyUF} {lab : List Nat} (h : Sim n s lab) (ops : List UOp)
    (hops : ∀ op ∈ ops, op.inRange n) : ufRun n s ops = qfRun lab ops := by
  induction ops generalizing s lab with
  | nil => rfl
  | cons op ops ih =>
    obtain ⟨e, h'⟩ := sim_step h op (hops op List.mem_cons_self)
    simp only [ufRun, qfRun, e]
    rw [ih h' (fun o ho => hops o (List.mem_cons_of_mem _ ho))]

/-- **C20 (UnionFind).**  For every size `n` and every history of `union` / `find` /
`connected` / `component_count` / `component_sizes` / `get_components` calls with indices in
range, the union-find (path compression on every read, union by rank) returns exactly what the
obvious reference — one class label per element, `union` relabels one class — returns:
`union`'s Boolean, `connected`, the count, the sizes and the components (in first-occurrence
order, as a Python dict lists them), and `find` up to the induced partition (reported through
the least element of the class).  Reads compress paths but never change later answers. -/
theorem uf_refines (n : Nat) (ops : List UOp) (hops : ∀ op ∈ ops, op.inRange n) :
    ufRun n (PyUF.init n) ops = qfRun (List.range n) ops :=
  run_sim (sim_init n) ops hops

/-- The reference's `component_count` is the number of classes: the number of distinct labels. -/
theorem qf_count_is_classes (lab : List Nat) :
    (qfStep lab .count).2 = .nat lab.toFinset.card := by
  simp [qfStep, distinct_length]

/-- The reference merges exactly the united pair: after `union x y` two elements carry the same
label iff they did before, or one was in `x`'s class and the other in `y`'s. -/
theorem qf_union_classes (lab : List Nat) (x y a b : Nat) (ha : a < lab.length) (hb : b < lab.length) :
    ((qfStep lab (.union x y)).1.getD a 0 = (qfStep lab (.union x y)).1.getD b 0) ↔
      (lab.getD a 0 = lab.getD b 0 ∨ (lab.getD a 0 = lab.getD y 0 ∧ lab.getD x 0 = lab.getD b 0) ∨
        (lab.getD a 0 = lab.getD x 0 ∧ lab.getD y 0 = lab.getD b 0)) := by
  simp only [qfStep]
  by_cases hs : lab.getD x 0 = lab.getD y 0
  · simp only [hs, beq_self_eq_true, if_true]
    constructor
    · intro h; exact Or.inl h
    · rintro (h | ⟨h1, h2⟩ | ⟨h1, h2⟩)
      · exact h
      · rw [h1, ← h2]
      · rw [h1, h2]
  · have : (lab.getD x 0 == lab.getD y 0) = false := by simpa using hs
    simp only [this, Bool.false_eq_true, if_false]
    rw [getD_map _ _ _ ha, getD_map _ _ _ hb]
    simp only [beq_iff_eq]
    exact (label_merge_iff _ _ _ _ hs).symm

/-! Non-vacuity: an interleaved history (repeated union, self union, reads in between) meets the
hypothesis; the reference's answers are computed by `decide`, the union-find's follow by the
theorem (the same history is also run through the driver by the check's corpus). -/
def exOps : List UOp :=
  [.union 0 1, .union 1 0, .union 2 2, .find 1, .connected 0 1, .union 3 4, .count, .union 1 4, .sizes, .comps]
theorem exOps_inRange : ∀ op ∈ exOps, op.inRange 5 := by
  intro op hop
  simp only [exOps, List.mem_cons, List.mem_nil_iff, or_false] at hop
  rcases hop with rfl | rfl | rfl | rfl | rfl | rfl | rfl | rfl | rfl | rfl <;> simp [UOp.inRange]
example : ufRun 5 (PyUF.init 5) exOps
    = [.bool true, .bool false, .bool false, .nat 0, .bool true, .bool true, .nat 3, .bool true,
       .nats [4, 1], .natss [[0, 1, 3, 4], [2]]] := by
  rw [uf_refines 5 exOps exOps_inRange]; decide

end Solvor.Ds
