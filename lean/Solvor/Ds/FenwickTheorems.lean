import Solvor.Ds.FenwickProofs
/-! Ds: property theorem of C20 for `FenwickTree`. -/
namespace Solvor.Ds

theorem finv_zeros (n : Nat) : FInv (List.replicate n 0) (List.replicate n 0) := by
  have hz : ∀ m, psum (List.replicate n 0) m = 0 := by
    intro m
    induction m with
    | zero => exact psum_zero _
    | succ k ih =>
      rw [psum_succ, ih]
      simp only [List.getD, List.getElem?_replicate]
      split <;> simp
  refine ⟨rfl, fun j hj => ?_⟩
  rw [hz, hz]
  simp only [List.getD, List.getElem?_replicate]
  split <;> simp

theorem run_refines {t a : List Int} (hI : FInv t a) (ops : List FOp)
    (hops : ∀ op ∈ ops, op.inRange a.length) : fenRun t ops = arrRun a ops := by
  induction ops generalizing t a with
  | nil => rfl
  | cons op ops ih =>
    have hop := hops op List.mem_cons_self
    have hrest : ∀ op' ∈ ops, op'.inRange a.length := fun o ho => hops o (List.mem_cons_of_mem _ ho)
    cases op with
    | update i d =>
      simp only [fenRun, arrRun]
      have hi : i < a.length := hop
      apply ih (update_correct hI i d hi)
      intro o ho
      have : (arrUpdate a i d).length = a.length := by simp [arrUpdate]
      rw [this]; exact hrest o ho
    | pre i =>
      simp only [fenRun, arrRun]
      have hi : i < a.length := hop
      rw [ih hI hrest]
      congr 1
      exact prefix_correct hI _ _ hi (Nat.le_refl _)
    | range l r =>
      simp only [fenRun, arrRun]
      have hlr : l ≤ r ∧ r < a.length := hop
      rw [ih hI hrest, range_correct hI l r hlr.1 hlr.2]

/-- **C20 (FenwickTree).**  For every list of initial values and every history of
`update` / `prefix` / `range_sum` calls with indices in range, the Fenwick tree built by the O(n)
constructor returns exactly what a plain array receiving the same initial values and point
updates returns (`prefix i = Σ a[0..i]`, `range_sum l r = Σ a[l..r]`).  Queries do not modify
the tree (by construction of `fenRun`), so they never change later answers. -/
theorem fenwick_refines (vals : List Int) (ops : List FOp)
    (hops : ∀ op ∈ ops, op.inRange vals.length) :
    fenRun (fenBuild vals) ops = arrRun vals ops :=
  run_refines (build_correct vals) ops hops

/-- Same for `FenwickTree(n)` (all zeros, no construction loop). -/
theorem fenwick_refines_zeros (n : Nat) (ops : List FOp)
    (hops : ∀ op ∈ ops, op.inRange n) :
    fenRun (List.replicate n 0) ops = arrRun (List.replicate n 0) ops :=
  run_refines (finv_zeros n) ops (by simpa using hops)

/-! Non-vacuity: a history with interleaved updates and queries on the docstring's tree. -/
example : fenRun (fenBuild [1, 2, 3, 4, 5]) [.pre 2, .update 1 10, .pre 2, .range 1 3, .update 4 (-7), .pre 4]
    = [6, 16, 19, 18] := by decide
example : ∀ op ∈ [FOp.pre 2, .update 1 10, .pre 2, .range 1 3, .update 4 (-7), .pre 4],
    op.inRange ([1, 2, 3, 4, 5] : List Int).length := by
  intro op hop
  simp only [List.mem_cons, List.mem_nil_iff, or_false] at hop
  rcases hop with rfl | rfl | rfl | rfl | rfl | rfl <;> simp [FOp.inRange]

end Solvor.Ds
