import Solvor.Ds.FenwickProofs
/-! Ds: property theorem of C20 for `FenwickTree`. -/
namespace Solvor.Ds

theorem finv_zeros (n : Nat) : FInv (List.replicate n 0) (List.replicate n 0) := by
  have hz : ∀ m, psum (List.replicate n 0) m = 0 := by
    intro m
    induction m with
    | zero => exact psum_zero _
    | succ k ih =>
      rw [psum_succ, ih]
      simp only [List.getD, List.getElem?_replicate]
      split <;> simp
  refine ⟨rfl, fun j hj => ?_⟩
  rw [hz, hz]
  simp only [List.getD, List.getElem?_replicate]
  split <;> simp

theorem run_refines {t a : List Int} (hI : FInv t a) (ops : List FOp)
    (hops : ∀ op ∈ ops, op.inRange a.length) : fenRun t ops = arrRun a ops := by
  induction ops generalizing t a with
  | nil => rfl
  | cons op ops ih =>
    have hop := hops op List.mem_cons_self
    have hrest : ∀ op' ∈ ops, op'.inRange a.length := fun o ho => hops o (List.mem_cons_of_mem _ ho)
    cases op with
    | update i d =>
      simp only [fenRun, arrRun]
      have hi : i < a.length := hop
      apply ih (update_correct hI i d hi)
      intro o ho
      have : (arrUpdate a i d).length = a.length := by simp [arrUpdate]
      rw [this]; exact hrest o ho
    | pre i =>
      simp only [fenRun, arrRun]
      have hi : i < a.length := hop
      rw [ih hI hrest]
      congr 1
      exact prefix_correct hI _ _ hi (Nat.le_refl _)
    | range l r =>
      simp only [fenRun, arrRun]
      have hlr : l ≤ r ∧ r < a.length := hop
      rw [ih hI hrest, range_correct hI l r hlr.1 hlr.2]

/-- **C20 (FenwickTree).**  For every list of initial values and every history of
`update` / `prefix` / `range_sum` calls with indices in range, the Fenwick tree built by the O(n)
constructor returns exactly what a plain array receiving the same initial values and point
updates returns (`prefix i = Σ a[0..i]`, `range_sum l r = Σ a[l..r]`).  Queries do not modify
the tree (by construction of `fenRun`), so they never change later answers. -/
theorem fenwick_refines (vals : List Int) (ops : List FOp)
    (hops : ∀ op ∈ ops, op.inRange vals.length) :
    fenRun (fenBuild vals) ops = arrRun vals ops :=
  run_refines (build_correct vals) ops hops

/-- Same for `FenwickTree(n)` (all zeros, no construction loop). -/
theorem fenwick_refines_zeros (n : Nat) (ops : List FOp)
    (hops : ∀ op ∈ ops, op.inRange n) :
    fenRun (List.replicate n 0) ops = arrRun (List.replicate n 0) ops :=
  run_refines (finv_zeros n) ops (by simpa using hops)

/-! ### canonical representation: the tree is a function of the reference array -/

/-- Two trees satisfying the representation invariant for the same array are the same list. -/
theorem finv_canonical {t t2 a : List Int} (h1 : FInv t a) (h2 : FInv t2 a) : t = t2 := by
  apply List.ext_getElem (by rw [h1.1, h2.1])
  intro j hj hj2
  have hja : j < a.length := by have := h1.1; omega
  have e1 := h1.2 j hja
  have e2 := h2.2 j hja
  simp only [List.getD, List.getElem?_eq_getElem hj, List.getElem?_eq_getElem hj2,
    Option.getD_some] at e1 e2
  rw [e1, e2]

/-- point updates applied to the tree / to the plain array -/
def fenUpdates (t : List Int) (ups : List (Nat × Int)) : List Int :=
  ups.foldl (fun t u => fenUpdate t u.1 u.2) t
def arrUpdates (a : List Int) (ups : List (Nat × Int)) : List Int :=
  ups.foldl (fun a u => arrUpdate a u.1 u.2) a

theorem arrUpdates_length (a : List Int) (ups : List (Nat × Int)) :
    (arrUpdates a ups).length = a.length := by
  induction ups generalizing a with
  | nil => rfl
  | cons u us ih =>
    show (arrUpdates (arrUpdate a u.1 u.2) us).length = a.length
    rw [ih]; simp [arrUpdate]

theorem finv_updates {t a : List Int} (hI : FInv t a) (ups : List (Nat × Int))
    (hups : ∀ u ∈ ups, u.1 < a.length) : FInv (fenUpdates t ups) (arrUpdates a ups) := by
  induction ups generalizing t a with
  | nil => exact hI
  | cons u us ih =>
    show FInv (fenUpdates (fenUpdate t u.1 u.2) us) (arrUpdates (arrUpdate a u.1 u.2) us)
    apply ih (update_correct hI u.1 u.2 (hups u List.mem_cons_self))
    intro v hv
    have : (arrUpdate a u.1 u.2).length = a.length := by simp [arrUpdate]
    rw [this]; exact hups v (List.mem_cons_of_mem _ hv)

/-- **C20 (FenwickTree), history independence.**  After any history of in-range point updates the
internal tree is *the same list* as the one the O(n) constructor builds from the updated plain
array: the state, not only the answers, is a function of the reference array.  Hence two update
histories with the same net effect (reordered, split, cancelled) leave identical trees. -/
theorem fenwick_updates_eq_rebuild (vals : List Int) (ups : List (Nat × Int))
    (hups : ∀ u ∈ ups, u.1 < vals.length) :
    fenUpdates (fenBuild vals) ups = fenBuild (arrUpdates vals ups) :=
  finv_canonical (finv_updates (build_correct vals) ups hups) (build_correct _)

theorem fenwick_history_independent (vals : List Int) (ups ups2 : List (Nat × Int))
    (h1 : ∀ u ∈ ups, u.1 < vals.length) (h2 : ∀ u ∈ ups2, u.1 < vals.length)
    (hnet : arrUpdates vals ups = arrUpdates vals ups2) :
    fenUpdates (fenBuild vals) ups = fenUpdates (fenBuild vals) ups2 := by
  rw [fenwick_updates_eq_rebuild vals ups h1, fenwick_updates_eq_rebuild vals ups2 h2, hnet]

example : fenUpdates (fenBuild [1, 2, 3, 4, 5]) [(1, 10), (4, -7), (1, -3)]
    = fenBuild [1, 9, 3, 4, -2] := by decide
example : arrUpdates [1, 2, 3, 4, 5] [(1, 10), (4, -7), (1, -3)] = [1, 9, 3, 4, -2] := by decide

/-! Non-vacuity: a history with interleaved updates and queries on the docstring's tree. -/
example : fenRun (fenBuild [1, 2, 3, 4, 5]) [.pre 2, .update 1 10, .pre 2, .range 1 3, .update 4 (-7), .pre 4]
    = [6, 16, 19, 18] := by decide
example : ∀ op ∈ [FOp.pre 2, .update 1 10, .pre 2, .range 1 3, .update 4 (-7), .pre 4],
    op.inRange ([1, 2, 3, 4, 5] : List Int).length := by
  intro op hop
  simp only [List.mem_cons, List.mem_nil_iff, or_false] at hop
  rcases hop with rfl | rfl | rfl | rfl | rfl | rfl <;> simp [FOp.inRange]

end Solvor.Ds
