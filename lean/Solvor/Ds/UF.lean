import Batteries.Data.UnionFind.Basic
/-!
Ds/UF: model of `UnionFind` (solvor/utils/data_structures.py).

The structure is `Batteries.UnionFind` (parent/rank array, `find` with full path compression,
link by rank), composed the way the Python composes it.  Python's `union(x, y)` hangs `ry`
under `rx` on a rank tie and bumps `rank[rx]`; `Batteries.UnionFind.linkAux a b` hangs `a`
under `b` on a tie and bumps `rank[b]`, so Python's `union(x, y)` is `uf.union y x`: the
resulting roots are identical (R_trace compares the values `find` returns).
Runs under the interpreter (`lake env lean --run`): importing Batteries does not link.
-/
namespace Solvor.Ds
open Batteries

structure PyUF where
  uf : UnionFind
  count : Nat        -- `_count`

def pushN : Nat → UnionFind
  | 0 => .empty
  | k + 1 => (pushN k).push

/-- `UnionFind(n)` -/
def PyUF.init (n : Nat) : PyUF := ⟨pushN n, n⟩

/-- `find(x)` (compresses the path) -/
def PyUF.find (s : PyUF) (x : Nat) : PyUF × Nat :=
  let r := s.uf.findD x
  (⟨r.1, s.count⟩, r.2)

/-- `connected(x, y)`: `find(x) == find(y)` -/
def PyUF.connected (s : PyUF) (x y : Nat) : PyUF × Bool :=
  let r1 := s.find x
  let r2 := r1.1.find y
  (r2.1, r1.2 == r2.2)

/-- `union(x, y)`: returns whether two different components were merged -/
def PyUF.union (s : PyUF) (x y : Nat) : PyUF × Bool :=
  if h : x < s.uf.size ∧ y < s.uf.size then
    let same := decide (s.uf.rootD x = s.uf.rootD y)
    (⟨s.uf.union ⟨y, h.2⟩ ⟨x, h.1⟩, if same then s.count else s.count - 1⟩, !same)
  else (s, false)

/-- `[find(i) for i in range(n)]`, threading the compressions -/
def PyUF.roots (s : PyUF) (n : Nat) : PyUF × List Nat :=
  (List.range n).foldl (fun (acc : PyUF × List Nat) i =>
    let r := acc.1.find i
    (r.1, acc.2 ++ [r.2])) (s, [])

/-- Group `0..n-1` by key: groups in order of first occurrence of their key (a Python dict
keeps insertion order), members increasing (the sets are compared sorted). -/
def groupsBy (keys : List Nat) : List (List Nat) :=
  let idx := List.range keys.length
  (idx.filter fun i => (List.range i).all fun j => keys.getD j 0 != keys.getD i 0).map
    fun i => idx.filter fun j => keys.getD j 0 == keys.getD i 0

/-- least index with the same key as `x` (canonical name of `x`'s class) -/
def classRep (keys : List Nat) (x : Nat) : Nat :=
  ((List.range keys.length).find? fun j => keys.getD j 0 == keys.getD x 0).getD x

inductive UOp where
  | union (x y : Nat) | find (x : Nat) | connected (x y : Nat) | count | sizes | comps
  deriving Repr

def UOp.inRange (n : Nat) : UOp → Prop
  | .union x y => x < n ∧ y < n
  | .find x => x < n
  | .connected x y => x < n ∧ y < n
  | _ => True

inductive Out where
  | bool (b : Bool) | nat (k : Nat) | nats (l : List Nat) | natss (l : List (List Nat))
  deriving Repr, DecidableEq

/-- one call on the union-find; `find`'s root is reported through the canonical class name -/
def ufStep (n : Nat) (s : PyUF) : UOp → PyUF × Out
  | .union x y => let r := s.union x y; (r.1, .bool r.2)
  | .find x =>
    let r := s.find x
    (r.1, .nat (classRep ((List.range n).map s.uf.rootD) r.2))
  | .connected x y => let r := s.connected x y; (r.1, .bool r.2)
  | .count => (s, .nat s.count)
  | .sizes => let r := s.roots n; (r.1, .nats ((groupsBy r.2).map List.length))
  | .comps => let r := s.roots n; (r.1, .natss (groupsBy r.2))

def ufRun (n : Nat) : PyUF → List UOp → List Out
  | _, [] => []
  | s, op :: ops => let r := ufStep n s op; r.2 :: ufRun n r.1 ops

/-! ### the obvious reference: one class label per element (quick-find) -/

/-- distinct values, first occurrences kept -/
def distinct : List Nat → List Nat
  | [] => []
  | a :: l => a :: (distinct l).filter (· != a)

def qfStep (lab : List Nat) : UOp → List Nat × Out
  | .union x y =>
    let lx := lab.getD x 0
    let ly := lab.getD y 0
    if lx == ly then (lab, .bool false)
    else (lab.map fun v => if v == ly then lx else v, .bool true)
  | .find x => (lab, .nat (classRep lab x))
  | .connected x y => (lab, .bool (lab.getD x 0 == lab.getD y 0))
  | .count => (lab, .nat (distinct lab).length)
  | .sizes => (lab, .nats ((groupsBy lab).map List.length))
  | .comps => (lab, .natss (groupsBy lab))

def qfRun : List Nat → List UOp → List Out
  | _, [] => []
  | lab, op :: ops => let r := qfStep lab op; r.2 :: qfRun r.1 ops

end Solvor.Ds
