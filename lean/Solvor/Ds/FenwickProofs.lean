import Solvor.Ds.FenwickLemmas
/-! Ds: the Fenwick invariant `tree[j] = Σ a[g j .. j]` and its preservation (core Lean only). -/
namespace Solvor.Ds
open Solvor.Gen

local notation "g" => fenDownBase
local notation "h" => fenUp

/-- sum of the first `m` cells -/
def psum (a : List Int) (m : Nat) : Int := (a.take m).sum

theorem psum_zero (a : List Int) : psum a 0 = 0 := by simp [psum]

theorem psum_succ (a : List Int) (m : Nat) : psum a (m + 1) = psum a m + a.getD m 0 := by
  unfold psum
  induction a generalizing m with
  | nil => simp
  | cons x xs ih =>
    cases m with
    | zero => simp
    | succ k =>
      simp only [List.take_succ_cons, List.sum_cons]
      rw [ih k]
      simp [Int.add_assoc]

theorem getD_set_eq (t : List Int) (i : Nat) (v : Int) (hi : i < t.length) :
    (t.set i v).getD i 0 = v := by simp [List.getD, hi]
theorem getD_set_ne (t : List Int) (i j : Nat) (v : Int) (hij : i ≠ j) :
    (t.set i v).getD j 0 = t.getD j 0 := by
  simp [List.getD, List.getElem?_set_ne hij]

theorem psum_set (a : List Int) (i : Nat) (v : Int) (m : Nat) (hi : i < a.length) :
    psum (a.set i v) m = psum a m + (if i < m then v - a.getD i 0 else 0) := by
  induction m with
  | zero => simp [psum_zero]
  | succ k ih =>
    rw [psum_succ, psum_succ, ih]
    by_cases h1 : i < k
    · have : (a.set i v).getD k 0 = a.getD k 0 := getD_set_ne _ _ _ _ (by omega)
      simp only [h1, this, show i < k + 1 by omega, if_true]; omega
    · by_cases h2 : i = k
      · subst h2
        have : (a.set i v).getD i 0 = v := getD_set_eq _ _ _ hi
        simp only [this, Nat.lt_irrefl, if_false, Nat.lt_succ_self, if_true]; omega
      · have : (a.set i v).getD k 0 = a.getD k 0 := getD_set_ne _ _ _ _ h2
        simp only [h1, this, show ¬ i < k + 1 by omega, if_false]; omega

/-- the representation invariant -/
def FInv (t a : List Int) : Prop :=
  t.length = a.length ∧ ∀ j, j < a.length → t.getD j 0 = psum a (j + 1) - psum a (g j)

theorem prefix_correct {t a : List Int} (hI : FInv t a) :
    ∀ fuel i, i < a.length → i + 1 ≤ fuel → fenPreLoop fuel t i = psum a (i + 1) := by
  intro fuel
  induction fuel with
  | zero => intro i _ h2; omega
  | succ f ih =>
    intro i hi hf
    unfold fenPreLoop
    rw [hI.2 i hi]
    by_cases h0 : g i = 0
    · simp [h0, psum_zero]
    · have hle := g_le i
      rw [if_neg h0, ih (g i - 1) (by omega) (by omega)]
      have : g i - 1 + 1 = g i := by omega
      rw [this]; omega

/-- the update walk from `c` adds `d` exactly at the covering indices `≥ c` -/
theorem updLoop_spec (n i : Nat) (d : Int) :
    ∀ fuel (t : List Int) c, t.length = n → (covers i c ∨ n ≤ c) → n + 1 ≤ fuel + c →
      (fenUpdLoop n fuel t c d).length = n ∧
      ∀ j, j < n → (fenUpdLoop n fuel t c d).getD j 0 =
        t.getD j 0 + (if c ≤ j ∧ covers i j then d else 0) := by
  intro fuel
  induction fuel with
  | zero =>
    intro t c hl _ hf
    refine ⟨by simpa [fenUpdLoop] using hl, fun j hj => ?_⟩
    have : ¬ (c ≤ j ∧ covers i j) := by omega
    simp [fenUpdLoop, this]
  | succ f ih =>
    intro t c hl hc hf
    unfold fenUpdLoop
    by_cases hcn : c < n
    · rw [if_pos hcn]
      have hcov : covers i c := by rcases hc with h1 | h1; exact h1; omega
      have hlt := lt_h c
      obtain ⟨l1, l2⟩ := ih (t.set c (t.getD c 0 + d)) (h c) (by simpa using hl)
        (by by_cases hh : n ≤ h c
            · right; exact hh
            · left; exact covers_h hcov) (by omega)
      refine ⟨l1, fun j hj => ?_⟩
      rw [l2 j hj]
      by_cases hjc : j = c
      · subst hjc
        rw [getD_set_eq _ _ _ (by omega)]
        have : ¬ (h j ≤ j) := by omega
        simp [this, hcov]
      · rw [getD_set_ne _ _ _ _ (Ne.symm hjc)]
        by_cases hjl : j < c
        · have a1 : ¬ (h c ≤ j ∧ covers i j) := by omega
          have a2 : ¬ (c ≤ j ∧ covers i j) := by omega
          simp [a1, a2]
        · by_cases hjh : j < h c
          · have nc := not_covers_between hcov (show c < j by omega) hjh
            have a1 : ¬ (h c ≤ j ∧ covers i j) := by omega
            have a2 : ¬ (c ≤ j ∧ covers i j) := fun x => nc x.2
            simp [a1, a2]
          · by_cases hcj : covers i j
            · simp [hcj, show h c ≤ j by omega, show c ≤ j by omega]
            · simp [hcj]
    · rw [if_neg hcn]
      refine ⟨hl, fun j hj => ?_⟩
      have : ¬ (c ≤ j ∧ covers i j) := by omega
      simp [this]

theorem update_correct {t a : List Int} (hI : FInv t a) (i : Nat) (d : Int) (hi : i < a.length) :
    FInv (fenUpdate t i d) (arrUpdate a i d) := by
  obtain ⟨hl, hv⟩ := hI
  unfold fenUpdate arrUpdate
  obtain ⟨l1, l2⟩ := updLoop_spec t.length i d (t.length + 1) t i rfl (Or.inl (covers_self i)) (by omega)
  refine ⟨by rw [l1, hl]; simp, fun j hj => ?_⟩
  have hj' : j < t.length := by simpa [hl] using hj
  rw [l2 j hj', hv j (by simpa using hj), psum_set _ _ _ _ hi, psum_set _ _ _ _ hi]
  have hg := g_le j
  by_cases hc : covers i j
  · obtain ⟨c1, c2⟩ := hc
    have e1 : i ≤ j ∧ covers i j := ⟨c2, c1, c2⟩
    simp [e1, show i < j + 1 by omega, show ¬ i < g j by omega]; omega
  · have e1 : ¬ (i ≤ j ∧ covers i j) := fun x => hc x.2
    unfold covers at hc
    by_cases h1 : i < g j
    · simp [e1, h1, show i < j + 1 by omega]; omega
    · have : ¬ i < j + 1 := by omega
      simp [e1, h1, this]

end Solvor.Ds

namespace Solvor.Ds
open Solvor.Gen

local notation "g" => fenDownBase
local notation "h" => fenUp

/-- one iteration of the O(n) construction loop -/
def buildStep (n : Nat) (t : List Int) (i : Nat) : List Int :=
  let j := fenBuildParent i
  if j < n then t.set j (t.getD j 0 + t.getD i 0) else t

theorem fenBuild_eq (vals : List Int) :
    fenBuild vals = (List.range vals.length).foldl (buildStep vals.length) vals := rfl

/-- invariant of the construction after the first `m` indices were processed: `tree[j]` holds
`a[j]` plus the ranges of `j`'s children below `m`, which tile `[g j, e)`. -/
def BInv (a : List Int) (m : Nat) (t : List Int) : Prop :=
  t.length = a.length ∧ ∀ j, j < a.length → ∃ e, g j ≤ e ∧ e ≤ j ∧
    t.getD j 0 = a.getD j 0 + psum a e - psum a (g j) ∧
    (∀ c, h c = j → (c < m ↔ c < e)) ∧ (e = g j ∨ (1 ≤ e ∧ h (e - 1) = j))

theorem child_ge (c : Nat) : g (h c) ≤ c := Nat.le_trans (g_h_le c) (g_le c)

theorem binv_zero (a : List Int) : BInv a 0 a := by
  refine ⟨rfl, fun j _ => ⟨g j, Nat.le_refl _, g_le j, by omega, ?_, Or.inl rfl⟩⟩
  intro c hc
  have := child_ge c
  rw [hc] at this
  omega

/-- a node whose children are all accounted for holds its full range -/
theorem binv_full {a : List Int} {m : Nat} {t : List Int} (hB : BInv a m t) (j : Nat)
    (hj : j < a.length) (hm : j ≤ m) : t.getD j 0 = psum a (j + 1) - psum a (g j) := by
  obtain ⟨e, h1, h2, h3, h4, h5⟩ := hB.2 j hj
  have he : e = j := by
    by_cases hg : g j < j
    · have hc := pred_child j hg
      have := (h4 (j - 1) hc).1 (by omega)
      omega
    · omega
  rw [h3, he, psum_succ]; omega

theorem binv_step {a : List Int} {m : Nat} {t : List Int} (hB : BInv a m t) (hm : m < a.length) :
    BInv a (m + 1) (buildStep a.length t m) := by
  have hfull := binv_full hB m hm (Nat.le_refl m)
  obtain ⟨hl, hv⟩ := hB
  show BInv a (m + 1) (if h m < a.length then t.set (h m) (t.getD (h m) 0 + t.getD m 0) else t)
  by_cases hjn : h m < a.length
  · rw [if_pos hjn]
    refine ⟨by simpa using hl, fun j hj => ?_⟩
    by_cases hjm : j = h m
    · subst hjm
      obtain ⟨e, h1, h2, h3, h4, h5⟩ := hv (h m) hj
      have hmlt := lt_h m
      have hnot : e ≤ m := by
        have := (h4 m rfl); omega
      -- the previous tile ends where m's range starts
      have heq : e = g m := by
        rcases child_tiling m with hA | ⟨hB1, hB2⟩
        · rcases h5 with h5 | ⟨h51, h52⟩
          · omega
          · have hc : e - 1 < m := by omega
            have := gap (e - 1) m hc (by rw [h52]; exact hmlt)
            have := child_ge (e - 1)
            rw [h52] at this
            omega
        · have c0 : g m - 1 < e := (h4 (g m - 1) hB2).1 (by have := g_le m; omega)
          have : e ≤ g m := by
            rcases h5 with h5 | ⟨h51, h52⟩
            · have := g_h_le m; omega
            · have hc : e - 1 < m := by omega
              have := gap (e - 1) m hc (by rw [h52]; exact hmlt)
              omega
          omega
      refine ⟨m + 1, ?_, by omega, ?_, ?_, Or.inr ⟨by omega, by simp⟩⟩
      · have := g_h_le m; have := g_le m; omega
      · rw [getD_set_eq _ _ _ (by omega), h3, hfull, heq, psum_succ]; omega
      · intro c _; exact Iff.rfl
    · obtain ⟨e, h1, h2, h3, h4, h5⟩ := hv j hj
      refine ⟨e, h1, h2, ?_, ?_, h5⟩
      · rw [getD_set_ne _ _ _ _ (Ne.symm hjm)]; exact h3
      · intro c hc
        have hcm : c ≠ m := by rintro rfl; exact hjm hc.symm
        have := h4 c hc
        omega
  · rw [if_neg hjn]
    refine ⟨hl, fun j hj => ?_⟩
    obtain ⟨e, h1, h2, h3, h4, h5⟩ := hv j hj
    refine ⟨e, h1, h2, h3, ?_, h5⟩
    intro c hc
    have hcm : c ≠ m := by rintro rfl; omega
    have := h4 c hc
    omega

theorem binv_fold (a : List Int) : ∀ m, m ≤ a.length →
    BInv a m ((List.range m).foldl (buildStep a.length) a) := by
  intro m
  induction m with
  | zero => intro _; simpa using binv_zero a
  | succ k ih =>
    intro hk
    rw [List.range_succ, List.foldl_append]
    simpa using binv_step (ih (by omega)) (by omega)

theorem build_correct (vals : List Int) : FInv (fenBuild vals) vals := by
  rw [fenBuild_eq]
  have hB := binv_fold vals vals.length (Nat.le_refl _)
  exact ⟨hB.1, fun j hj => binv_full hB j hj (by omega)⟩

theorem range_correct {t a : List Int} (hI : FInv t a) (l r : Nat) (hlr : l ≤ r) (hr : r < a.length) :
    fenRange t l r = arrRange a l r := by
  unfold fenRange arrRange fenPrefix
  have hsplit : psum a (r + 1) = psum a l + ((a.take (r + 1)).drop l).sum := by
    unfold psum
    have := List.take_append_drop l (a.take (r + 1))
    conv => lhs; rw [← this]
    rw [List.sum_append, List.take_take]
    have : min l (r + 1) = l := by omega
    rw [this]
  rw [prefix_correct hI _ _ hr (Nat.le_refl _)]
  by_cases hl : l > 0
  · rw [if_pos hl, prefix_correct hI _ _ (by omega) (Nat.le_refl _)]
    have : l - 1 + 1 = l := by omega
    rw [this]; omega
  · have : l = 0 := by omega
    subst this
    rw [if_neg hl]; simp [psum]

end Solvor.Ds
