import Solvor.Ds.Drive
def main : IO Unit := Solvor.Proto.serve Solvor.Ds.handle
