import Solvor.Ds.Fenwick
/-! Ds: index lemmas for the Fenwick walks (core Lean only), stated about the regenerated
`Solvor.Gen.fenUp` / `fenDownBase` / `fenBuildParent`. -/
namespace Solvor.Ds
open Solvor.Gen

local notation "g" => fenDownBase
local notation "h" => fenUp

theorem g_def (i : Nat) : g i = i &&& (i+1) := rfl
theorem h_def (i : Nat) : h i = i ||| (i+1) := rfl
theorem buildParent_eq (i : Nat) : fenBuildParent i = h i := rfl

theorem mod2_and (a b : Nat) : (a &&& b) % 2 = (a % 2) &&& (b % 2) := by
  have := Nat.and_mod_two_pow (a := a) (b := b) (n := 1)
  simpa using this
theorem mod2_or (a b : Nat) : (a ||| b) % 2 = (a % 2) ||| (b % 2) := by
  have := Nat.or_mod_two_pow (a := a) (b := b) (n := 1)
  simpa using this

theorem g_odd (m : Nat) : g (2*m+1) = 2 * g m := by
  simp only [g_def]
  have hd : ((2*m+1) &&& (2*m+1+1)) / 2 = m &&& (m+1) := by
    rw [Nat.and_div_two]; congr 1 <;> omega
  have hm : ((2*m+1) &&& (2*m+1+1)) % 2 = 0 := by
    rw [mod2_and]; have : (2*m+1+1) % 2 = 0 := by omega
    rw [this]; simp
  omega
theorem g_even (m : Nat) : g (2*m) = 2*m := by
  simp only [g_def]
  have hd : ((2*m) &&& (2*m+1)) / 2 = m &&& m := by
    rw [Nat.and_div_two]; congr 1 <;> omega
  have hm : ((2*m) &&& (2*m+1)) % 2 = 0 := by
    rw [mod2_and]; have : (2*m) % 2 = 0 := by omega
    rw [this]; simp
  simp at hd; omega
theorem h_even (m : Nat) : h (2*m) = 2*m+1 := by
  simp only [h_def]
  have hd : ((2*m) ||| (2*m+1)) / 2 = m ||| m := by
    rw [Nat.or_div_two]; congr 1 <;> omega
  have hm : ((2*m) ||| (2*m+1)) % 2 = 1 := by
    rw [mod2_or]; have h1 : (2*m) % 2 = 0 := by omega
    have h2 : (2*m+1) % 2 = 1 := by omega
    rw [h1,h2]; decide
  simp at hd; omega
theorem h_odd (m : Nat) : h (2*m+1) = 2 * h m + 1 := by
  simp only [h_def]
  have hd : ((2*m+1) ||| (2*m+1+1)) / 2 = m ||| (m+1) := by
    rw [Nat.or_div_two]; congr 1 <;> omega
  have hm : ((2*m+1) ||| (2*m+1+1)) % 2 = 1 := by
    rw [mod2_or]; have h1 : (2*m+1) % 2 = 1 := by omega
    have h2 : (2*m+1+1) % 2 = 0 := by omega
    rw [h1,h2]; decide
  omega

theorem g_le : ∀ j, g j ≤ j := fun _ => Nat.and_le_left

theorem parity (j : Nat) : (∃ m, j = 2*m) ∨ (∃ m, j = 2*m+1) := by
  rcases Nat.mod_two_eq_zero_or_one j with h' | h'
  · left; exact ⟨j/2, by omega⟩
  · right; exact ⟨j/2, by omega⟩

theorem lt_h : ∀ j, j < h j := by
  intro j
  induction j using Nat.strongRecOn with
  | _ j ih =>
    rcases parity j with ⟨m, rfl⟩ | ⟨m, rfl⟩
    · rw [h_even]; omega
    · rw [h_odd]; have := ih m (by omega); omega

theorem g_h_le : ∀ j, g (h j) ≤ g j := by
  intro j
  induction j using Nat.strongRecOn with
  | _ j ih =>
    rcases parity j with ⟨m, rfl⟩ | ⟨m, rfl⟩
    · rw [h_even, g_odd, g_even]; have := g_le m; omega
    · rw [h_odd, g_odd, g_odd]; have := ih m (by omega); omega

theorem gap : ∀ j k, j < k → k < h j → j < g k := by
  intro j
  induction j using Nat.strongRecOn with
  | _ j ih =>
    intro k h1 h2
    rcases parity j with ⟨m, rfl⟩ | ⟨m, rfl⟩
    · rw [h_even] at h2; omega
    · rw [h_odd] at h2
      rcases parity k with ⟨q, rfl⟩ | ⟨q, rfl⟩
      · rw [g_even]; omega
      · rw [g_odd]
        have := ih m (by omega) q (by omega) (by omega)
        omega

/-- `j` covers `i` iff `g j ≤ i ≤ j`: `tree[j]` holds the sum of `a[g j .. j]`. -/
def covers (i j : Nat) : Prop := g j ≤ i ∧ i ≤ j

instance (i j : Nat) : Decidable (covers i j) := by unfold covers; infer_instance

theorem covers_self (i : Nat) : covers i i := ⟨g_le i, Nat.le_refl i⟩
theorem covers_h {i j : Nat} (hc : covers i j) : covers i (h j) :=
  ⟨Nat.le_trans (g_h_le j) hc.1, Nat.le_trans hc.2 (Nat.le_of_lt (lt_h j))⟩
theorem not_covers_between {i j k : Nat} (hc : covers i j) (h1 : j < k) (h2 : k < h j) :
    ¬ covers i k := by
  intro hk; have := gap j k h1 h2; have := hk.1; have := hc.2; omega

/-- tiling step: the range of a child of `j` starts where `j`'s range starts, or right after
another child. -/
theorem child_tiling : ∀ c, g c = g (h c) ∨ (1 ≤ g c ∧ h (g c - 1) = h c) := by
  intro c
  induction c using Nat.strongRecOn with
  | _ c ih =>
    rcases parity c with ⟨m, rfl⟩ | ⟨m, rfl⟩
    · rw [h_even, g_even, g_odd]
      rcases parity m with ⟨q, rfl⟩ | ⟨q, rfl⟩
      · left; rw [g_even]
      · right
        refine ⟨by omega, ?_⟩
        have : 2 * (2 * q + 1) - 1 = 2 * (2 * q) + 1 := by omega
        rw [this, h_odd, h_even]
    · rw [h_odd, g_odd, g_odd]
      rcases ih m (by omega) with h1 | ⟨h1, h2⟩
      · left; rw [h1]
      · right
        refine ⟨by omega, ?_⟩
        have : 2 * g m - 1 = 2 * (g m - 1) + 1 := by omega
        rw [this, h_odd, h2]

/-- the last child: if `j`'s range is longer than one cell, `j - 1` is a child of `j`. -/
theorem pred_child (j : Nat) (hj : g j < j) : h (j - 1) = j := by
  rcases parity j with ⟨m, rfl⟩ | ⟨m, rfl⟩
  · rw [g_even] at hj; omega
  · have : 2 * m + 1 - 1 = 2 * m := by omega
    rw [this, h_even]

end Solvor.Ds
