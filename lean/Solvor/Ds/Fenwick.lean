import Solvor.Gen.Kernels
import Solvor.Gen.FenwickKernels
/-!
Ds/Fenwick: model of `FenwickTree` (solvor/utils/data_structures.py) over `Int`.

The index walks are NOT written here: `fenUp`, `fenDownBase`, `fenBuildParent` come from
`Solvor.Gen.Kernels`, which is regenerated from the Python source on every run.
The tree is a `List Int`; `getD … 0`/`set` mirror `self._tree[i]` reads and `+=` writes
(indices are in range by the property's quantifier; out-of-range behaviour is not modelled).
No Mathlib imports.
-/
namespace Solvor.Ds
open Solvor.Gen

/-- `FenwickTree.__init__(values)` for a list: copy, then for `i` in `range(n)`:
`j = fenBuildParent i; if j < n: tree[j] += tree[i]`. -/
def fenBuild (vals : List Int) : List Int :=
  (List.range vals.length).foldl
    (fun t i => let j := fenBuildParent i
                if j < vals.length then t.set j (t.getD j 0 + t.getD i 0) else t) vals

/-- `update`: `while i < n: tree[i] += delta; i = fenUp i` (one iteration per unit of fuel). -/
def fenUpdLoop (n : Nat) : Nat → List Int → Nat → Int → List Int
  | 0, t, _, _ => t
  | fuel + 1, t, i, d => if i < n then fenUpdLoop n fuel (t.set i (t.getD i 0 + d)) (fenUp i) d else t

def fenUpdate (t : List Int) (i : Nat) (d : Int) : List Int := fenUpdLoop t.length (t.length + 1) t i d

/-- `prefix`: `while i >= 0: total += tree[i]; i = fenDownBase i - 1`; the loop stops exactly
when `fenDownBase i = 0`. -/
def fenPreLoop : Nat → List Int → Nat → Int
  | 0, _, _ => 0
  | fuel + 1, t, i => t.getD i 0 + (if fenDownBase i = 0 then 0 else fenPreLoop fuel t (fenDownBase i - 1))

def fenPrefix (t : List Int) (i : Nat) : Int := fenPreLoop (i + 1) t i

/-- `range_sum(left, right)`: `prefix(right)`, minus `prefix(left-1)` when `left > 0`. -/
def fenRange (t : List Int) (l r : Nat) : Int :=
  if l > 0 then fenPrefix t r - fenPrefix t (l - 1) else fenPrefix t r

/-! ### the obvious reference: a plain array -/
def arrUpdate (a : List Int) (i : Nat) (d : Int) : List Int := a.set i (a.getD i 0 + d)
def arrPrefix (a : List Int) (i : Nat) : Int := (a.take (i + 1)).sum
def arrRange (a : List Int) (l r : Nat) : Int := ((a.take (r + 1)).drop l).sum

inductive FOp where
  | update (i : Nat) (d : Int)
  | pre (i : Nat)
  | range (l r : Nat)
  deriving Repr

def FOp.inRange (n : Nat) : FOp → Prop
  | .update i _ => i < n
  | .pre i => i < n
  | .range l r => l ≤ r ∧ r < n

/-- run a history on the Fenwick tree; outputs of the queries in order -/
def fenRun : List Int → List FOp → List Int
  | _, [] => []
  | t, .update i d :: ops => fenRun (fenUpdate t i d) ops
  | t, .pre i :: ops => fenPrefix t i :: fenRun t ops
  | t, .range l r :: ops => fenRange t l r :: fenRun t ops

/-- the same history on the plain array -/
def arrRun : List Int → List FOp → List Int
  | _, [] => []
  | a, .update i d :: ops => arrRun (arrUpdate a i d) ops
  | a, .pre i :: ops => arrPrefix a i :: arrRun a ops
  | a, .range l r :: ops => arrRange a l r :: arrRun a ops

end Solvor.Ds
