import Solvor.Search.Lemmas
/-! Search: lemmas on the stable sort, `evolve` and `nelder_mead`. -/
namespace Solvor.Search

/-! ### stable insertion sort -/

def Sorted (l : List Ind) : Prop := l.Pairwise (fun a b => a.fit ≤ b.fit)

theorem mem_insertStable (x y : Ind) : ∀ l : List Ind, y ∈ insertStable x l ↔ y = x ∨ y ∈ l
  | [] => by simp [insertStable]
  | z :: zs => by
    unfold insertStable
    split
    · simp
    · simp [mem_insertStable x y zs]; grind

theorem length_insertStable (x : Ind) : ∀ l : List Ind, (insertStable x l).length = l.length + 1
  | [] => rfl
  | z :: zs => by
    unfold insertStable
    split
    · rfl
    · simp [length_insertStable x zs]

theorem sorted_insertStable (x : Ind) : ∀ l : List Ind, Sorted l → Sorted (insertStable x l)
  | [], _ => by simp [insertStable, Sorted]
  | z :: zs, h => by
    unfold insertStable
    have hz := List.pairwise_cons.1 h
    split
    · rename_i hlt
      refine List.pairwise_cons.2 ⟨?_, h⟩
      intro b hb
      rcases List.mem_cons.1 hb with rfl | hb
      · grind
      · have := hz.1 b hb; grind
    · rename_i hge
      refine List.pairwise_cons.2 ⟨?_, sorted_insertStable x zs hz.2⟩
      intro b hb
      rcases (mem_insertStable x b zs).1 hb with rfl | hb
      · grind
      · exact hz.1 b hb

theorem sortAux_spec : ∀ (l acc : List Ind), Sorted acc →
    Sorted (l.foldl (fun acc x => insertStable x acc) acc) ∧
    (∀ y, y ∈ l.foldl (fun acc x => insertStable x acc) acc ↔ y ∈ acc ∨ y ∈ l) ∧
    (l.foldl (fun acc x => insertStable x acc) acc).length = acc.length + l.length
  | [], acc, h => by simp [h]
  | x :: xs, acc, h => by
    obtain ⟨a, b, c⟩ := sortAux_spec xs (insertStable x acc) (sorted_insertStable x acc h)
    refine ⟨a, ?_, ?_⟩
    · intro y
      rw [List.foldl_cons, b y, mem_insertStable]
      simp only [List.mem_cons]; grind
    · rw [List.foldl_cons, c, length_insertStable]; simp; omega

theorem sorted_sortStable (l : List Ind) : Sorted (sortStable l) :=
  (sortAux_spec l [] (by simp [Sorted])).1

theorem mem_sortStable (l : List Ind) (y : Ind) : y ∈ sortStable l ↔ y ∈ l := by
  have := (sortAux_spec l [] (by simp [Sorted])).2.1 y
  simpa [sortStable] using this

theorem length_sortStable (l : List Ind) : (sortStable l).length = l.length := by
  have := (sortAux_spec l [] (by simp [Sorted])).2.2
  simpa [sortStable] using this

theorem sorted_head_le {h : Ind} {t : List Ind} (hs : Sorted (h :: t)) :
    ∀ x ∈ h :: t, h.fit ≤ x.fit := by
  intro x hx
  rcases List.mem_cons.1 hx with rfl | hx
  · exact Rat.le_refl
  · exact (List.pairwise_cons.1 hs).1 x hx

/-! ### evalMany, argminFirst -/

theorem mem_evalMany (val : Nat → Rat) (x : Ind) : ∀ (n e : Nat),
    x ∈ evalMany val e n ↔ ∃ j, j < n ∧ x = ⟨val (e + j), e + j⟩
  | 0, e => by simp [evalMany]
  | n + 1, e => by
    simp only [evalMany, List.mem_cons, mem_evalMany val x n (e + 1)]
    constructor
    · rintro (rfl | ⟨j, hj, rfl⟩)
      · exact ⟨0, by omega, rfl⟩
      · exact ⟨j + 1, by omega, by rw [show e + 1 + j = e + (j + 1) by omega]⟩
    · rintro ⟨j, hj, rfl⟩
      cases j with
      | zero => left; rfl
      | succ j => right; exact ⟨j, by omega, by rw [show e + 1 + j = e + (j + 1) by omega]⟩

theorem length_evalMany (val : Nat → Rat) : ∀ (n e : Nat), (evalMany val e n).length = n
  | 0, _ => rfl
  | n + 1, e => by simp [evalMany, length_evalMany val n]

theorem argminFirst_spec : ∀ (l : List Ind), l ≠ [] →
    ∃ b, argminFirst l = some b ∧ b ∈ l ∧ ∀ x ∈ l, b.fit ≤ x.fit
  | [], h => absurd rfl h
  | x :: xs, _ => by
    unfold argminFirst
    cases hxs : xs with
    | nil => simp [argminFirst]
    | cons y ys =>
      obtain ⟨m, hm, hmem, hle⟩ := argminFirst_spec (y :: ys) (by simp)
      rw [hm]
      simp only
      split
      · rename_i hlt
        refine ⟨m, rfl, List.mem_cons_of_mem _ hmem, ?_⟩
        intro z hz
        rcases List.mem_cons.1 hz with rfl | hz
        · grind
        · exact hle z hz
      · rename_i hge
        refine ⟨x, rfl, List.mem_cons_self, ?_⟩
        intro z hz
        rcases List.mem_cons.1 hz with rfl | hz
        · exact Rat.le_refl
        · have := hle z hz; grind

/-! ### evolve -/

/-- population members are evaluated points; the population has its nominal size -/
def EvoInv (val : Nat → Rat) (popSize : Nat) (s : EvoSt) : Prop :=
  Good val s.core ∧ (∀ p ∈ s.pop, p.idx < s.core.evals ∧ val p.idx = p.fit) ∧ s.pop.length = popSize

theorem evoInv_init (val : Nat → Rat) (popSize : Nat) (hp : 1 ≤ popSize) :
    EvoInv val popSize (evoInit val popSize) := by
  unfold evoInit
  have hlen := length_sortStable (evalMany val 0 popSize)
  rw [length_evalMany] at hlen
  have hsorted := sorted_sortStable (evalMany val 0 popSize)
  have hmem := mem_sortStable (evalMany val 0 popSize)
  simp only
  cases hpop : sortStable (evalMany val 0 popSize) with
  | nil => rw [hpop] at hlen; simp at hlen; omega
  | cons h t =>
    rw [hpop] at hlen hsorted hmem
    simp only
    have hmemb : ∀ p ∈ h :: t, p.idx < popSize ∧ val p.idx = p.fit := by
      intro p hp'
      obtain ⟨j, hj, rfl⟩ := (mem_evalMany val p popSize 0).1 ((hmem p).1 hp')
      simp; omega
    refine ⟨⟨(hmemb h List.mem_cons_self).1, (hmemb h List.mem_cons_self).2, ?_⟩, hmemb, hlen⟩
    intro k hk
    have : (⟨val k, k⟩ : Ind) ∈ h :: t :=
      (hmem _).2 ((mem_evalMany val _ popSize 0).2 ⟨k, hk, by simp⟩)
    exact sorted_head_le hsorted _ this

theorem evoInv_step (val : Nat → Rat) (popSize eliteSize : Nat) (hp : 1 ≤ popSize) (s : EvoSt)
    (h : EvoInv val popSize s) : EvoInv val popSize (evoStep val popSize eliteSize s) ∧
      (evoStep val popSize eliteSize s).core.evals = s.core.evals + (popSize - min eliteSize popSize) := by
  obtain ⟨hg, hm, hl⟩ := h
  unfold evoStep
  simp only
  have hel : (s.pop.take eliteSize).length = min eliteSize popSize := by simp [hl]
  have hnc : popSize - (s.pop.take eliteSize).length = popSize - min eliteSize popSize := by rw [hel]
  generalize hnew : s.pop.take eliteSize ++ evalMany val s.core.evals (popSize - (s.pop.take eliteSize).length) = newPop
  have hnewlen : newPop.length = popSize := by
    rw [← hnew, List.length_append, length_evalMany, hel]; omega
  have hsorted := sorted_sortStable newPop
  have hmem := mem_sortStable newPop
  have hslen := length_sortStable newPop
  -- members of the new population are evaluated points
  have hmemb : ∀ p ∈ newPop, p.idx < s.core.evals + (popSize - (s.pop.take eliteSize).length) ∧ val p.idx = p.fit := by
    intro p hp'
    rw [← hnew] at hp'
    rcases List.mem_append.1 hp' with hp' | hp'
    · have := hm p (List.mem_of_mem_take hp'); exact ⟨by omega, this.2⟩
    · obtain ⟨j, hj, rfl⟩ := (mem_evalMany val p _ _).1 hp'
      simp; omega
  cases hpop : (sortStable newPop).take popSize with
  | nil =>
    have := congrArg List.length hpop
    rw [List.length_take, hslen, hnewlen] at this
    simp at this; omega
  | cons hd tl =>
    simp only
    have hsub : ∀ p ∈ hd :: tl, p ∈ newPop := by
      intro p hp'; rw [← hpop] at hp'; exact (hmem p).1 (List.mem_of_mem_take hp')
    have hhd : ∀ x ∈ newPop, hd.fit ≤ x.fit := by
      intro x hx
      have hx' := (hmem x).2 hx
      cases hso : sortStable newPop with
      | nil => rw [hso] at hx'; cases hx'
      | cons a as =>
        rw [hso] at hpop hsorted hx'
        have : hd = a := by
          cases popSize with
          | zero => omega
          | succ q => simp [List.take] at hpop; exact hpop.1.symm
        subst this
        exact sorted_head_le hsorted x hx'
    have hchild : ∀ k, s.core.evals ≤ k → k < s.core.evals + (popSize - (s.pop.take eliteSize).length) →
        hd.fit ≤ val k := by
      intro k hk0 hk
      have : (⟨val k, k⟩ : Ind) ∈ newPop := by
        rw [← hnew]
        refine List.mem_append.2 (Or.inr ((mem_evalMany val _ _ _).2 ⟨k - s.core.evals, by omega, ?_⟩))
        have : s.core.evals + (k - s.core.evals) = k := by omega
        rw [this]
      exact hhd _ this
    have hlen' : (hd :: tl).length = popSize := by
      rw [← hpop, List.length_take, hslen, hnewlen]; simp
    have hhdm := hmemb hd (hsub hd List.mem_cons_self)
    refine ⟨⟨?_, ?_, hlen'⟩, ?_⟩
    · split
      · rename_i hlt
        exact good_replace hg hd.fit hd.idx _ hhdm.1 hhdm.2 (by grind) hchild
      · rename_i hge
        refine good_extend hg _ (by omega) ?_
        intro k hk0 hk
        have := hchild k hk0 hk
        grind
    · intro p hp'
      have := hmemb p (hsub p hp')
      split <;> exact this
    · rw [hnc]; split <;> rfl

/-! ### nelder_mead -/

/-- vertices are evaluated points, the simplex has n+1 vertices, and every evaluated value is
matched or beaten by some vertex of the simplex -/
def NmP (val : Nat → Rat) (n : Nat) (simplex : List Ind) (evals : Nat) : Prop :=
  (∀ p ∈ simplex, p.idx < evals ∧ val p.idx = p.fit) ∧ simplex.length = n + 1 ∧
  (∀ k, k < evals → ∃ p ∈ simplex, p.fit ≤ val k)

theorem nmP_next {val : Nat → Rat} {n : Nat} {sorted S' : List Ind} {e e' : Nat} (hd : Ind)
    (h : NmP val n sorted e) (hhd : ∀ p ∈ sorted, hd.fit ≤ p.fit) (hhd' : hd ∈ S') (hee : e ≤ e')
    (hnew : ∀ p ∈ S', p ∈ sorted ∨ (p.idx < e' ∧ val p.idx = p.fit))
    (hlen : S'.length = n + 1)
    (hcov : ∀ k, e ≤ k → k < e' → ∃ p ∈ S', p.fit ≤ val k) : NmP val n S' e' := by
  obtain ⟨h1, _, h3⟩ := h
  refine ⟨?_, hlen, ?_⟩
  · intro p hp
    rcases hnew p hp with hp | hp
    · have := h1 p hp; exact ⟨by omega, this.2⟩
    · exact hp
  · intro k hk
    by_cases hk' : k < e
    · obtain ⟨p, hp, hpk⟩ := h3 k hk'
      exact ⟨hd, hhd', Rat.le_trans (hhd p hp) hpk⟩
    · exact hcov k (by omega) hk

theorem mem_setLast {l : List Ind} {x y : Ind} (h : y ∈ setLast l x) : y ∈ l ∨ y = x := by
  unfold setLast at h
  rcases List.mem_append.1 h with h | h
  · left; rw [List.dropLast_eq_take] at h; exact List.mem_of_mem_take h
  · right; simpa using h

theorem last_mem_setLast (l : List Ind) (x : Ind) : x ∈ setLast l x := by simp [setLast]

theorem head_mem_setLast (hd a : Ind) (t : List Ind) (x : Ind) : hd ∈ setLast (hd :: a :: t) x := by
  simp [setLast, List.dropLast]

theorem length_setLast (l : List Ind) (x : Ind) (h : l ≠ []) : (setLast l x).length = l.length := by
  cases l with
  | nil => exact absurd rfl h
  | cons a t => simp [setLast]

theorem mem_nmShrink {val : Nat → Rat} {l : List Ind} {e : Nat} {y : Ind} (h : y ∈ nmShrink val l e) :
    y ∈ l ∨ ∃ j, j < l.length - 1 ∧ y = ⟨val (e + j), e + j⟩ := by
  unfold nmShrink at h
  rcases List.mem_append.1 h with h | h
  · left; exact List.mem_of_mem_take h
  · right; exact (mem_evalMany val y _ _).1 h

theorem nmBody_spec (val : Nat → Rat) (n : Nat) (hn : 1 ≤ n) (sorted : List Ind) (e : Nat)
    (h : NmP val n sorted e) (hs : Sorted sorted) :
    NmP val n (nmBody val n sorted e).1 (nmBody val n sorted e).2 ∧ e ≤ (nmBody val n sorted e).2 := by
  obtain ⟨hd, a, t, rfl⟩ : ∃ hd a t, sorted = hd :: a :: t := by
    have := h.2.1
    match sorted, this with
    | hd :: a :: t, _ => exact ⟨hd, a, t, rfl⟩
    | [_], hl => simp at hl; omega
    | [], hl => simp at hl
  have hhd := sorted_head_le hs
  have hlen := h.2.1
  -- the worst vertex is a vertex
  have hworst : hd.fit ≤ ((hd :: a :: t).getD n default).fit := by
    have hlt : n < (hd :: a :: t).length := by omega
    rw [List.getD_eq_getElem?_getD, List.getElem?_eq_getElem hlt]
    exact hhd _ (List.getElem_mem hlt)
  have hne : (hd :: a :: t) ≠ [] := by simp
  have hsl : ∀ x, (setLast (hd :: a :: t) x).length = n + 1 := fun x => by
    rw [length_setLast _ _ hne]; exact hlen
  have hshl : ∀ e', (nmShrink val (hd :: a :: t) e').length = n + 1 := fun e' => by
    simp only [nmShrink, List.length_append, length_evalMany, List.length_take]
    simp only [List.length_cons] at hlen ⊢; omega
  have hshd : ∀ e', hd ∈ nmShrink val (hd :: a :: t) e' := fun e' => by simp [nmShrink]
  -- generic step for "replace the worst vertex by evaluation `i` (value `val i`)"
  have repl : ∀ (i e' : Nat), e ≤ i → i < e' →
      (∀ k, e ≤ k → k < e' → val i ≤ val k) →
      NmP val n (setLast (hd :: a :: t) ⟨val i, i⟩) e' := by
    intro i e' hi hie hcov
    refine nmP_next hd h hhd (head_mem_setLast hd a t _) (by omega) ?_ (hsl _) ?_
    · intro p hp
      rcases mem_setLast hp with hp | rfl
      · exact Or.inl hp
      · exact Or.inr ⟨hie, rfl⟩
    · intro k hk0 hk
      exact ⟨_, last_mem_setLast _ _, hcov k hk0 hk⟩
  -- generic step for shrink after two discarded evaluations
  have shr : hd.fit ≤ val e → hd.fit ≤ val (e + 1) →
      NmP val n (nmShrink val (hd :: a :: t) (e + 2)) (e + 2 + n) := by
    intro h0 h1
    refine nmP_next hd h hhd (hshd _) (by omega) ?_ (hshl _) ?_
    · intro p hp
      rcases mem_nmShrink hp with hp | ⟨j, hj, rfl⟩
      · exact Or.inl hp
      · refine Or.inr ⟨?_, rfl⟩
        simp only [List.length_cons] at hj hlen ⊢; omega
    · intro k hk0 hk
      by_cases hk1 : k = e
      · subst hk1; exact ⟨hd, hshd _, h0⟩
      · by_cases hk2 : k = e + 1
        · subst hk2; exact ⟨hd, hshd _, h1⟩
        · refine ⟨⟨val k, k⟩, ?_, Rat.le_refl⟩
          unfold nmShrink
          refine List.mem_append.2 (Or.inr ((mem_evalMany val _ _ _).2 ⟨k - (e + 2), ?_, ?_⟩))
          · simp only [List.length_cons] at hlen ⊢; omega
          · have : e + 2 + (k - (e + 2)) = k := by omega
            rw [this]
  unfold nmBody
  simp only [List.headD_cons]
  split
  · -- reflection accepted
    refine ⟨repl e (e + 1) (Nat.le_refl _) (by omega) ?_, by simp⟩
    intro k hk0 hk
    have : k = e := by omega
    subst this; exact Rat.le_refl
  · split
    · -- expansion
      split
      · rename_i hx
        refine ⟨repl (e + 1) (e + 2) (by omega) (by omega) ?_, by simp⟩
        intro k hk0 hk
        by_cases hk1 : k = e
        · subst hk1; grind
        · have : k = e + 1 := by omega
          subst this; exact Rat.le_refl
      · rename_i hx
        refine ⟨repl e (e + 2) (Nat.le_refl _) (by omega) ?_, by simp⟩
        intro k hk0 hk
        by_cases hk1 : k = e
        · subst hk1; exact Rat.le_refl
        · have : k = e + 1 := by omega
          subst this; grind
    · rename_i hnb
      have hr : hd.fit ≤ val e := by grind
      split
      · -- outside contraction
        split
        · rename_i hc
          refine ⟨repl (e + 1) (e + 2) (by omega) (by omega) ?_, by simp⟩
          intro k hk0 hk
          by_cases hk1 : k = e
          · subst hk1; exact hc
          · have : k = e + 1 := by omega
            subst this; exact Rat.le_refl
        · rename_i hc
          exact ⟨shr hr (by grind), by simp; omega⟩
      · -- inside contraction
        rename_i hw
        split
        · rename_i hc
          refine ⟨repl (e + 1) (e + 2) (by omega) (by omega) ?_, by simp⟩
          intro k hk0 hk
          by_cases hk1 : k = e
          · subst hk1; grind
          · have : k = e + 1 := by omega
            subst this; exact Rat.le_refl
        · rename_i hc
          exact ⟨shr hr (by grind), by simp; omega⟩

def NmInv (val : Nat → Rat) (n : Nat) (s : NmSt) : Prop := NmP val n s.simplex s.evals

theorem nmP_sort {val : Nat → Rat} {n : Nat} {l : List Ind} {e : Nat} (h : NmP val n l e) :
    NmP val n (sortStable l) e := by
  obtain ⟨h1, h2, h3⟩ := h
  refine ⟨fun p hp => h1 p ((mem_sortStable l p).1 hp), by rw [length_sortStable]; exact h2, ?_⟩
  intro k hk
  obtain ⟨p, hp, hpk⟩ := h3 k hk
  exact ⟨p, (mem_sortStable l p).2 hp, hpk⟩

theorem nmInv_init (val : Nat → Rat) (n : Nat) : NmInv val n (nmInit val n) := by
  refine ⟨?_, by simp [nmInit, length_evalMany], ?_⟩
  · intro p hp
    obtain ⟨j, hj, rfl⟩ := (mem_evalMany val p _ _).1 hp
    simp [nmInit]; omega
  · intro k hk
    refine ⟨⟨val k, k⟩, (mem_evalMany val _ _ _).2 ⟨k, by simpa [nmInit] using hk, by simp⟩, Rat.le_refl⟩

theorem nmInv_step (val : Nat → Rat) (n : Nat) (hn : 1 ≤ n) (tol : Rat) (stopAt : Nat) (s : NmSt)
    (h : NmInv val n s) : NmInv val n (nmStep val n tol stopAt s) ∧ s.evals ≤ (nmStep val n tol stopAt s).evals := by
  unfold nmStep
  split
  · exact ⟨h, Nat.le_refl _⟩
  · simp only
    split
    · exact ⟨nmP_sort h, Nat.le_refl _⟩
    · exact nmBody_spec val n hn _ _ (nmP_sort h) (sorted_sortStable _)

theorem nmResult_good (val : Nat → Rat) (n : Nat) (s : NmSt) (h : NmInv val n s) :
    Good val (nmResult false s) := by
  obtain ⟨h1, h2, h3⟩ := h
  have hne : s.simplex ≠ [] := by intro h0; rw [h0] at h2; simp at h2
  obtain ⟨b, hb, hmem, hle⟩ := argminFirst_spec s.simplex hne
  unfold nmResult
  simp only [Bool.false_and, Bool.false_eq_true, if_false, hb]
  refine ⟨(h1 b hmem).1, (h1 b hmem).2, ?_⟩
  intro k hk
  obtain ⟨p, hp, hpk⟩ := h3 k hk
  exact Rat.le_trans (hle p hp) hpk

end Solvor.Search
