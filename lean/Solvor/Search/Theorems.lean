import Solvor.Search.Model
/-! Search: property theorems only (helper lemmas live in Lemmas.lean). -/
namespace Solvor.Search

end Solvor.Search
