import Solvor.Search.PopLemmas
/-!
Search: the property theorems of C19 (helper lemmas are in `Lemmas.lean` / `PopLemmas.lean`).

Reading guide.  `f k` is the user's objective at the k-th point the solver evaluated (start points
first), `coin k` whatever the RNG / `exp` / a user acceptance callback answered for that point, the
remaining arguments are the limits of the call.  `Faithful m f o` says of an outcome `o`:
`o.solIdx < o.evaluations` (the returned solution is one of the evaluated points),
`o.objective = f o.solIdx` (reported objective = user's objective at the returned solution, in the
user's sign) and `∀ k < o.evaluations, o.objective ≤ f k` (resp. `≥` when maximising): at least
as good as the start point(s) and as every candidate evaluated.  All theorems hold for *every*
`f`, `coin`, candidate-move lists and limits – i.e. for every objective function, seed, callback
and schedule.  Determinism ("same seed ⇒ same result") is by construction: every skeleton is a
pure function of its arguments.
-/
namespace Solvor.Search

/-! ## T-spec: the checkers the driver evaluates on the implementation's own answer -/

/-- `checkResult` decides exactly the R_prop clauses: reported objective = re-evaluated objective,
no recorded value or start value is better, `evaluations` = number of recorded calls. -/
theorem checkResult_iff (m : Bool) (fs starts : List Rat) (obj fsol : Rat) (ev : Nat) :
    checkResult m fs starts obj fsol ev = true ↔
      obj = fsol ∧ (∀ v ∈ fs ++ starts, if m then obj ≤ v else v ≤ obj) ∧ ev = fs.length := by
  unfold checkResult
  simp only [Bool.and_eq_true, decide_eq_true_eq, List.all_eq_true, beq_iff_eq]
  constructor
  · rintro ⟨⟨h1, h2⟩, h3⟩
    refine ⟨h1, fun v hv => ?_, h3⟩
    have := h2 v hv
    cases m <;> simpa using this
  · rintro ⟨h1, h2, h3⟩
    refine ⟨⟨h1, fun v hv => ?_⟩, h3⟩
    have := h2 v hv
    cases m <;> simpa using this

example : checkResult true [5, 3, 7] [5] 3 3 3 = true := by decide +kernel
example : checkResult false [5, 3, 7] [5] 3 3 3 = false := by decide +kernel

/-- `inBounds` decides "one coordinate per bound, each inside its closed interval". -/
theorem inBounds_iff : ∀ (bs : List (Rat × Rat)) (x : List Rat),
    inBounds bs x = true ↔ x.length = bs.length ∧ ∀ p ∈ bs.zip x, p.1.1 ≤ p.2 ∧ p.2 ≤ p.1.2
  | [], [] => by simp [inBounds]
  | [], _ :: _ => by simp [inBounds]
  | _ :: _, [] => by simp [inBounds]
  | (lo, hi) :: bs, x :: xs => by
    simp only [inBounds, Bool.and_eq_true, decide_eq_true_eq, inBounds_iff bs xs, List.length_cons,
      List.zip_cons_cons, List.mem_cons, Nat.add_right_cancel_iff]
    constructor
    · rintro ⟨⟨h1, h2⟩, h3, h4⟩
      refine ⟨h3, ?_⟩
      rintro p (rfl | hp)
      · exact ⟨h1, h2⟩
      · exact h4 p hp
    · rintro ⟨h3, h4⟩
      exact ⟨h4 _ (Or.inl rfl), h3, fun p hp => h4 p (Or.inr hp)⟩

example : inBounds [(0, 1), (-2, 2)] [1 / 2, -2] = true := by decide +kernel

/-! ## `Evaluator`: sign handling -/

/-- `to_user` undoes the sign `Evaluator.__call__` applied, for minimise and maximise. -/
theorem to_user_sign (m : Bool) (x : Rat) : toUser m (internal m (fun _ => x) 0) = x :=
  toUser_internal m x

example : toUser false (internal false (fun _ => 7) 0) = 7 := to_user_sign false 7

/-- A faithful best-so-far record of the sign-adjusted stream is, after `to_user`, a faithful
outcome in the user's own sign. -/
theorem good_to_user {m : Bool} {f : Nat → Rat} {c : Core} (h : Good (internal m f) c) :
    Faithful m f (c.outcome m) := good_faithful h

/-- C19 `mirror_min_max`: for *any* bookkeeping function of the sign-adjusted stream, maximising
`f` and minimising `-f` are the same run; the reported objective is negated, the returned
solution and the evaluation count are the same. -/
theorem mirror_min_max (run : (Nat → Rat) → Core) (f : Nat → Rat) :
    (run (internal false f)).outcome false = ((run (internal true (fun k => -f k))).outcome true).neg := by
  rw [internal_mirror f]; exact outcome_mirror _

/-- `mirror_min_max` instantiated at the nine skeletons. -/
theorem solvers_mirror_min_max (f : Nat → Rat) (coin : Nat → Bool) (acc : Accept)
    (a b c : Nat) (tol : Rat) (cands : List (List Nat)) :
    annealSolve false f coin a = (annealSolve true (fun k => -f k) coin a).neg ∧
    tabuSolve false f a b c cands = (tabuSolve true (fun k => -f k) a b c cands).neg ∧
    lnsSolve false false f coin acc a b c = (lnsSolve false true (fun k => -f k) coin acc a b c).neg ∧
    alnsSolve false f coin acc a b c = (alnsSolve true (fun k => -f k) coin acc a b c).neg ∧
    evolveSolve false f a b c = (evolveSolve true (fun k => -f k) a b c).neg ∧
    deSolve false f a b = (deSolve true (fun k => -f k) a b).neg ∧
    psoSolve false f a b = (psoSolve true (fun k => -f k) a b).neg ∧
    bayesSolve false f a b = (bayesSolve true (fun k => -f k) a b).neg ∧
    nmSolve false false f a tol b c = (nmSolve false true (fun k => -f k) a tol b c).neg :=
  ⟨mirror_min_max (fun v => (annealRun v coin a).core) f,
   mirror_min_max (fun v => (tabuRun v a b c cands).core) f,
   mirror_min_max (fun v => (lnsRun false v coin acc a b c).core) f,
   mirror_min_max (fun v => (alnsRun v coin acc a b c).core) f,
   mirror_min_max (fun v => (evoRun v a b c).core) f,
   mirror_min_max (fun v => (deRun v a b).core) f,
   mirror_min_max (fun v => (psoRun v a b).core) f,
   mirror_min_max (fun v => bayesRun v a b) f,
   mirror_min_max (fun v => nmResult false (nmRun v a tol b c)) f⟩

example : annealSolve false (fun k => [5, 3, 7, 2, 9].getD k 0) (fun k => k % 2 == 0) 4
    = (annealSolve true (fun k => -[5, 3, 7, 2, 9].getD k 0) (fun k => k % 2 == 0) 4).neg :=
  (solvers_mirror_min_max _ _ .all 4 0 0 0 []).1

/-! ## anneal -/

private theorem annealInv_run (val : Nat → Rat) (coin : Nat → Bool) (iters : Nat) :
    AnnealInv val (annealRun val coin iters) :=
  iter_inv _ _ (annealInv_step val coin) iters _ (annealInv_init val)

/-- C19 for `anneal`: although `best` is only looked at inside the accepted branch, the returned
objective is the user's objective of the returned solution and no evaluated point is better. -/
theorem anneal_best_is_min_of_evaluated (m : Bool) (f : Nat → Rat) (coin : Nat → Bool) (iters : Nat) :
    Faithful m f (annealSolve m f coin iters) :=
  good_faithful (annealInv_run _ coin iters).1

/-- one evaluation for the start point and one per loop body -/
theorem anneal_evals_eq_calls (m : Bool) (f : Nat → Rat) (coin : Nat → Bool) (iters : Nat) :
    (annealSolve m f coin iters).evaluations = iters + 1 := by
  have : ∀ n s, (iter (annealStep (internal m f) coin) n s).core.evals = s.core.evals + n := by
    intro n
    induction n with
    | zero => intro s; rfl
    | succ n ih => intro s; show (iter _ n (annealStep _ coin s)).core.evals = _
                   rw [ih, anneal_evals_step]; omega
  simp only [annealSolve, Core.outcome, annealRun, this]
  simp [annealInit, Core.init]; omega

-- a worse move (7) is accepted after the best one (3) was found; the best is still returned
example : annealSolve true (fun k => [5, 3, 7, 9].getD k 0) (fun _ => true) 3 = ⟨3, 1, 4⟩ := by
  decide +kernel

/-! ## tabu_search -/

/-- C19 for `tabu_search` (aspiration, tabu list, shuffled candidates, every stopping rule). -/
theorem tabu_best_is_min_of_evaluated (m : Bool) (f : Nat → Rat) (cooldown mni stopAt : Nat)
    (cands : List (List Nat)) : Faithful m f (tabuSolve m f cooldown mni stopAt cands) :=
  good_faithful (foldl_inv (fun s => Good _ s.core) _
    (fun s ms h => tabu_good_step _ cooldown mni stopAt s ms h) cands _ (good_init _))

/-- evaluations = 1 + the sizes of the candidate lists of the iterations that were executed
(every candidate of an executed iteration is evaluated exactly once, tabu or not). -/
theorem tabu_evals_eq_calls (m : Bool) (f : Nat → Rat) (cooldown mni stopAt : Nat)
    (cands : List (List Nat)) :
    (tabuSolve m f cooldown mni stopAt cands).evaluations =
      1 + ((cands.take (tabuRun (internal m f) cooldown mni stopAt cands).iteration).map List.length).sum := by
  let val := internal m f
  let P : TabuSt → List (List Nat) → Prop := fun s pre =>
    s.core.evals = 1 + ((pre.take s.iteration).map List.length).sum ∧ s.iteration ≤ pre.length ∧
    (s.done = false → s.iteration = pre.length)
  have step : ∀ s pre ms, P s pre → P (tabuStep val cooldown mni stopAt s ms) (pre ++ [ms]) := by
    intro s pre ms ⟨h1, h2, h3⟩
    unfold tabuStep
    split
    · rename_i hd
      refine ⟨?_, by simp; omega, fun h => by simp [hd] at h⟩
      rw [List.take_append_of_le_length h2]; exact h1
    · rename_i hd
      have hit := h3 (by simpa using hd)
      have htake : (pre ++ [ms]).take (s.iteration + 1) = pre ++ [ms] := by
        rw [hit]; exact List.take_of_length_le (by simp)
      have hpre : pre.take s.iteration = pre := by rw [hit]; exact List.take_length
      rw [hpre] at h1
      simp only
      split
      · rename_i hemp
        have : ms = [] := by simpa using hemp
        subst this
        refine ⟨?_, by simp; omega, fun h => by simp at h⟩
        simp only [htake]; simp [h1]
      · obtain ⟨he, _⟩ := tabuScan_spec val s.core.best s.tabuSet s.core.evals ms s.core.evals none
          (Nat.le_refl _) ⟨fun k a b => by omega, fun b i m hb => by simp at hb⟩
        split
        · rename_i e heq
          rw [heq] at he
          simp only at he
          refine ⟨?_, by simp; omega, fun h => by simp at h⟩
          simp only [htake]; simp [h1, he]; omega
        · rename_i e b i mv heq
          rw [heq] at he
          simp only at he
          refine ⟨?_, by simp; omega, fun _ => by simp [hit]⟩
          simp only [htake]
          by_cases hb : b < s.core.best <;> simp [hb, h1, he] <;> omega
  have run : ∀ rest pre s, P s pre →
      P (rest.foldl (tabuStep val cooldown mni stopAt) s) (pre ++ rest) := by
    intro rest
    induction rest with
    | nil => intro pre s h; simpa using h
    | cons ms rest ih =>
      intro pre s h
      have := ih (pre ++ [ms]) _ (step s pre ms h)
      simpa using this
  have h0 : P (tabuInit val) [] := by simp [P, tabuInit, Core.init]
  have := (run cands [] _ h0).1
  simpa [tabuSolve, tabuRun, Core.outcome] using this

-- the tabu move (0) is skipped unless it beats the best (aspiration); best 1 found in round 2
example : tabuSolve true (fun k => [5, 4, 6, 1, 8].getD k 0) 3 100 0 [[0, 1], [0, 1]] = ⟨1, 3, 5⟩ := by
  decide +kernel

/-! ## lns / alns -/

private theorem lnsInv_run (val : Nat → Rat) (coin : Nat → Bool) (acc : Accept) (a b c : Nat) :
    LnsInv val (lnsRun false val coin acc a b c) := by
  unfold lnsRun
  exact iter_inv _ _ (lnsInv_step val coin acc b c) a _ (lnsInv_init val)

/-- C19 for `lns` *with the proposed repair C19_lns_best*, for every acceptance rule including
arbitrary user callbacks. -/
theorem lns_best_is_min_of_evaluated (m : Bool) (f : Nat → Rat) (coin : Nat → Bool) (acc : Accept)
    (maxIter mni stopAt : Nat) : Faithful m f (lnsSolve false m f coin acc maxIter mni stopAt) :=
  good_faithful (lnsInv_run _ coin acc maxIter mni stopAt).1

/-- `lns` as written in the unchanged tree violates C19: a user acceptance callback that refuses
a candidate (here: always) makes the solver forget a candidate better than what it returns. -/
theorem lns_unrepaired_loses_best :
    ∃ (f : Nat → Rat) (coin : Nat → Bool),
      ¬ Faithful true f (lnsSolve true true f coin .custom 2 100 0) := by
  refine ⟨fun k => [10, 3, 7].getD k 0, fun _ => false, ?_⟩
  rintro ⟨_, _, h⟩
  have := h 1 (by decide +kernel)
  revert this
  decide +kernel

-- FULL STATEMENT (not proved, false for the unchanged tree – see `lns_unrepaired_loses_best`):
--   ∀ m f coin acc maxIter mni stopAt, Faithful m f (lnsSolve true m f coin acc maxIter mni stopAt)
/-- What the unchanged `lns` does guarantee: C19 holds whenever the acceptance rule never refuses
a candidate that improves on the *current* solution – in particular for the three built-in rules. -/
theorem lns_unrepaired_best_is_min_of_evaluated_partial (m : Bool) (f : Nat → Rat) (coin : Nat → Bool)
    (acc : Accept) (hacc : acc.RespectsImprovement coin (internal m f)) (maxIter mni stopAt : Nat) :
    Faithful m f (lnsSolve true m f coin acc maxIter mni stopAt) := by
  have h : LnsInv (internal m f) (lnsRun true (internal m f) coin acc maxIter mni stopAt) := by
    unfold lnsRun
    exact iter_inv _ _ (lnsInv_stepOrig _ coin acc mni stopAt hacc) maxIter _ (lnsInv_init _)
  exact good_faithful h.1

theorem builtin_accept_respects_improvement (acc : Accept) (h : acc ≠ .custom) (coin : Nat → Bool)
    (val : Nat → Rat) : acc.RespectsImprovement coin val := respects_of_builtin acc h coin val

example : Accept.sa.RespectsImprovement (fun _ => false) (fun k => (k : Rat)) :=
  builtin_accept_respects_improvement .sa (by decide) _ _

/-- every executed loop body evaluates exactly one candidate -/
theorem lns_evals_eq_calls (m : Bool) (f : Nat → Rat) (coin : Nat → Bool) (acc : Accept)
    (maxIter mni stopAt : Nat) :
    (lnsSolve false m f coin acc maxIter mni stopAt).evaluations =
      (lnsRun false (internal m f) coin acc maxIter mni stopAt).iteration + 1 :=
  (lnsInv_run _ coin acc maxIter mni stopAt).2.2

-- the callback refuses everything: the repaired rule still returns the best candidate (3)
example : lnsSolve false true (fun k => [10, 3, 7].getD k 0) (fun _ => false) .custom 2 100 0 = ⟨3, 1, 3⟩ := by
  decide +kernel

private theorem alnsInv_run (val : Nat → Rat) (coin : Nat → Bool) (acc : Accept) (a b c : Nat) :
    LnsInv val (alnsRun val coin acc a b c) :=
  iter_inv _ _ (alnsInv_step val coin acc b c) a _ (lnsInv_init val)

/-- C19 for `alns`, for every acceptance rule including arbitrary user callbacks. -/
theorem alns_best_is_min_of_evaluated (m : Bool) (f : Nat → Rat) (coin : Nat → Bool) (acc : Accept)
    (maxIter mni stopAt : Nat) : Faithful m f (alnsSolve m f coin acc maxIter mni stopAt) :=
  good_faithful (alnsInv_run _ coin acc maxIter mni stopAt).1

theorem alns_evals_eq_calls (m : Bool) (f : Nat → Rat) (coin : Nat → Bool) (acc : Accept)
    (maxIter mni stopAt : Nat) :
    (alnsSolve m f coin acc maxIter mni stopAt).evaluations =
      (alnsRun (internal m f) coin acc maxIter mni stopAt).iteration + 1 :=
  (alnsInv_run _ coin acc maxIter mni stopAt).2.2

example : alnsSolve false (fun k => [1, 4, 2, 9, 3].getD k 0) (fun k => k == 2) .custom 4 100 0 = ⟨9, 3, 5⟩ := by
  decide +kernel

/-! ## evolve -/

private theorem evoInv_run (val : Nat → Rat) (popSize eliteSize : Nat) (hp : 1 ≤ popSize) :
    ∀ gens, EvoInv val popSize (evoRun val popSize eliteSize gens) ∧
      (evoRun val popSize eliteSize gens).core.evals = popSize + gens * (popSize - min eliteSize popSize) := by
  have h0 : (evoInit val popSize).core.evals = popSize := by
    unfold evoInit; simp only; split <;> rfl
  have gen : ∀ n s, EvoInv val popSize s →
      EvoInv val popSize (iter (evoStep val popSize eliteSize) n s) ∧
      (iter (evoStep val popSize eliteSize) n s).core.evals = s.core.evals + n * (popSize - min eliteSize popSize) := by
    intro n
    induction n with
    | zero => intro s h; exact ⟨h, by simp [iter]⟩
    | succ n ih =>
      intro s h
      obtain ⟨h1, h2⟩ := evoInv_step val popSize eliteSize hp s h
      obtain ⟨h3, h4⟩ := ih _ h1
      refine ⟨h3, ?_⟩
      show (iter _ n (evoStep val popSize eliteSize s)).core.evals = _
      rw [h4, h2, Nat.succ_mul]; omega
  intro gens
  obtain ⟨a, b⟩ := gen gens _ (evoInv_init val popSize hp)
  exact ⟨a, by rw [evoRun, b, h0]⟩

/-- C19 for `evolve` (non-empty population; elitism of any size, also 0 or larger than the
population). -/
theorem evolve_best_is_min_of_evaluated (m : Bool) (f : Nat → Rat) (popSize eliteSize gens : Nat)
    (hp : 1 ≤ popSize) : Faithful m f (evolveSolve m f popSize eliteSize gens) :=
  good_faithful (evoInv_run _ popSize eliteSize hp gens).1.1

theorem evolve_evals_eq_calls (m : Bool) (f : Nat → Rat) (popSize eliteSize gens : Nat) (hp : 1 ≤ popSize) :
    (evolveSolve m f popSize eliteSize gens).evaluations =
      popSize + gens * (popSize - min eliteSize popSize) :=
  (evoInv_run _ popSize eliteSize hp gens).2

-- no elitism: the best individual (1, found in generation 1) dies out, the record keeps it
example : evolveSolve true (fun k => [5, 6, 1, 7, 8, 9].getD k 0) 2 0 2 = ⟨1, 2, 6⟩ := by decide +kernel

/-! ## differential_evolution / particle_swarm / bayesian_opt -/

private theorem deInv_run (val : Nat → Rat) (n : Nat) (hn : 1 ≤ n) :
    ∀ gens, PopStInv val n (deRun val n gens) ∧ (deRun val n gens).core.evals = n + gens * n := by
  have gen : ∀ g s, PopStInv val n s → PopStInv val n (iter (deStep val) g s) ∧
      (iter (deStep val) g s).core.evals = s.core.evals + g * n := by
    intro g
    induction g with
    | zero => intro s h; exact ⟨h, by simp [iter]⟩
    | succ g ih =>
      intro s ⟨hpi, hl⟩
      obtain ⟨i1, _, i3, i4⟩ := deSweep_inv val s.fits s.core hpi
      obtain ⟨h3, h4⟩ := ih (deStep val s) ⟨i1, by simpa [deStep, hl] using i4⟩
      refine ⟨h3, ?_⟩
      show (iter _ g (deStep val s)).core.evals = _
      rw [h4]; simp only [deStep]; rw [i3, hl, Nat.succ_mul]; omega
  intro gens
  obtain ⟨a, b⟩ := gen gens _ (popInv_init val n hn)
  exact ⟨a, by rw [deRun, b]; simp [popInit, startCore_evals val n hn]⟩

/-- C19 for `differential_evolution` (greedy `<=` replacement with the nested best update). -/
theorem de_best_is_min_of_evaluated (m : Bool) (f : Nat → Rat) (popSize gens : Nat) (hp : 1 ≤ popSize) :
    Faithful m f (deSolve m f popSize gens) :=
  good_faithful (deInv_run _ popSize hp gens).1.1.1

theorem de_evals_eq_calls (m : Bool) (f : Nat → Rat) (popSize gens : Nat) (hp : 1 ≤ popSize) :
    (deSolve m f popSize gens).evaluations = popSize + gens * popSize :=
  (deInv_run _ popSize hp gens).2

example : deSolve true (fun k => [5, 4, 6, 7, 4, 1, 9, 9].getD k 0) 4 1 = ⟨1, 5, 8⟩ := by decide +kernel

private theorem psoInv_run (val : Nat → Rat) (n : Nat) (hn : 1 ≤ n) :
    ∀ its, PopStInv val n (psoRun val n its) ∧ (psoRun val n its).core.evals = n + its * n := by
  have gen : ∀ g s, PopStInv val n s → PopStInv val n (iter (psoStep val) g s) ∧
      (iter (psoStep val) g s).core.evals = s.core.evals + g * n := by
    intro g
    induction g with
    | zero => intro s h; exact ⟨h, by simp [iter]⟩
    | succ g ih =>
      intro s ⟨hpi, hl⟩
      obtain ⟨i1, _, i3, i4⟩ := psoSweep_inv val s.fits s.core hpi
      obtain ⟨h3, h4⟩ := ih (psoStep val s) ⟨i1, by simpa [psoStep, hl] using i4⟩
      refine ⟨h3, ?_⟩
      show (iter _ g (psoStep val s)).core.evals = _
      rw [h4]; simp only [psoStep]; rw [i3, hl, Nat.succ_mul]; omega
  intro its
  obtain ⟨a, b⟩ := gen its _ (popInv_init val n hn)
  exact ⟨a, by rw [psoRun, b]; simp [popInit, startCore_evals val n hn]⟩

/-- C19 for `particle_swarm` (global best nested inside the personal-best update). -/
theorem pso_best_is_min_of_evaluated (m : Bool) (f : Nat → Rat) (nParticles iters : Nat) (hp : 1 ≤ nParticles) :
    Faithful m f (psoSolve m f nParticles iters) :=
  good_faithful (psoInv_run _ nParticles hp iters).1.1.1

theorem pso_evals_eq_calls (m : Bool) (f : Nat → Rat) (nParticles iters : Nat) (hp : 1 ≤ nParticles) :
    (psoSolve m f nParticles iters).evaluations = nParticles + iters * nParticles :=
  (psoInv_run _ nParticles hp iters).2

example : psoSolve false (fun k => [5, 4, 6, 3].getD k 0) 2 1 = ⟨6, 2, 4⟩ := by decide +kernel

/-- C19 for `bayesian_opt`. -/
theorem bayes_best_is_min_of_evaluated (m : Bool) (f : Nat → Rat) (nInitial iters : Nat) :
    Faithful m f (bayesSolve m f nInitial iters) :=
  good_faithful (good_iter_obs _ iters _ (good_startCore _ nInitial))

theorem bayes_evals_eq_calls (m : Bool) (f : Nat → Rat) (nInitial iters : Nat) (hn : 1 ≤ nInitial) :
    (bayesSolve m f nInitial iters).evaluations = nInitial + iters := by
  simp [bayesSolve, Core.outcome, bayesRun, evals_iter_obs, startCore_evals _ nInitial hn]

example : bayesSolve true (fun k => [5, 4, 6, 3, 8].getD k 0) 2 3 = ⟨3, 3, 5⟩ := by decide +kernel

/-! ## nelder_mead -/

private theorem nmInv_run (val : Nat → Rat) (n : Nat) (hn : 1 ≤ n) (tol : Rat) (maxIter stopAt : Nat) :
    NmInv val n (nmRun val n tol maxIter stopAt) :=
  iter_inv _ _ (fun s h => (nmInv_step val n hn tol stopAt s h).1) maxIter _ (nmInv_init val n)

/-- C19 for `nelder_mead` *with the proposed repair C19_nm_stop* (reflection, expansion, both
contractions, shrink, convergence exit, `on_progress` exit, final arg-min). -/
theorem nm_best_is_min_of_evaluated (m : Bool) (f : Nat → Rat) (n : Nat) (hn : 1 ≤ n) (tol : Rat)
    (maxIter stopAt : Nat) : Faithful m f (nmSolve false m f n tol maxIter stopAt) :=
  good_faithful (nmResult_good _ n _ (nmInv_run _ n hn tol maxIter stopAt))

/-- `nelder_mead` as written in the unchanged tree violates C19 when `on_progress` stops it: it
returns `simplex[0]` of the not yet re-sorted simplex (14) although the expansion point just
evaluated (9) is better. -/
theorem nm_unrepaired_stop_is_stale :
    ∃ (f : Nat → Rat), ¬ Faithful true f (nmSolve true true f 2 (1 / 1000000) 1000 1) := by
  refine ⟨fun k => [16, 14, 18, 12, 9].getD k 0, ?_⟩
  rintro ⟨_, _, h⟩
  have := h 4 (by decide +kernel)
  revert this
  decide +kernel

-- FULL STATEMENT (not proved, false for the unchanged tree – see `nm_unrepaired_stop_is_stale`):
--   ∀ m f n tol maxIter stopAt, 1 ≤ n → Faithful m f (nmSolve true m f n tol maxIter stopAt)
/-- What the unchanged `nelder_mead` does guarantee: C19 whenever `on_progress` never stops it. -/
theorem nm_unrepaired_best_is_min_of_evaluated_partial (m : Bool) (f : Nat → Rat) (n : Nat) (hn : 1 ≤ n)
    (tol : Rat) (maxIter : Nat) : Faithful m f (nmSolve true m f n tol maxIter 0) := by
  have hst : ∀ k s, s.stopped = false → (iter (nmStep (internal m f) n tol 0) k s).stopped = false := by
    intro k
    induction k with
    | zero => intro s h; exact h
    | succ k ih =>
      intro s h
      refine ih _ ?_
      unfold nmStep
      split
      · exact h
      · simp only; split
        · exact h
        · simp
  have : (nmRun (internal m f) n tol maxIter 0).stopped = false := hst _ _ rfl
  have heq : nmResult true (nmRun (internal m f) n tol maxIter 0) = nmResult false (nmRun (internal m f) n tol maxIter 0) := by
    simp [nmResult, this]
  unfold nmSolve
  rw [heq]
  exact nm_best_is_min_of_evaluated m f n hn tol maxIter 0

/-- the evaluation counter never decreases and starts at the `n+1` vertices of the first simplex;
each loop body costs 1 (reflection), 2 (expansion / contraction) or `n+2` (shrink) evaluations -/
theorem nm_evals_eq_calls (val : Nat → Rat) (n : Nat) (sorted : List Ind) (e : Nat) :
    (nmBody val n sorted e).2 = e + 1 ∨ (nmBody val n sorted e).2 = e + 2 ∨
      (nmBody val n sorted e).2 = e + 2 + n := by
  unfold nmBody
  simp only
  split
  · left; rfl
  · split
    · split <;> (right; left; rfl)
    · split
      · split
        · right; left; rfl
        · right; right; rfl
      · split
        · right; left; rfl
        · right; right; rfl

/-- the counter starts at the `n+1` vertices of the first simplex and never decreases -/
theorem nm_evals_ge_start (val : Nat → Rat) (n : Nat) (hn : 1 ≤ n) (tol : Rat) (maxIter stopAt : Nat) :
    n + 1 ≤ (nmRun val n tol maxIter stopAt).evals := by
  have gen : ∀ k s, NmInv val n s → n + 1 ≤ s.evals → n + 1 ≤ (iter (nmStep val n tol stopAt) k s).evals := by
    intro k
    induction k with
    | zero => intro s _ h; exact h
    | succ k ih =>
      intro s hi h
      obtain ⟨h1, h2⟩ := nmInv_step val n hn tol stopAt s hi
      exact ih _ h1 (by omega)
  exact gen maxIter _ (nmInv_init val n) (by simp [nmInit])

-- expansion then stop: the repaired exit returns the expansion point
example : nmSolve false true (fun k => [16, 14, 18, 12, 9].getD k 0) 2 (1 / 1000000) 1000 1 = ⟨9, 4, 5⟩ := by
  decide +kernel

/-! ## bounds -/

/-- C19 `clip_in_bounds`: clipping puts every coordinate inside its (non-empty) interval. -/
theorem clip_in_bounds : ∀ (bs : List (Rat × Rat)) (x : List Rat), (∀ b ∈ bs, b.1 ≤ b.2) →
    x.length = bs.length → inBounds bs (clip bs x) = true
  | [], [], _, _ => rfl
  | [], _ :: _, _, h => by simp at h
  | _ :: _, [], _, h => by simp at h
  | (lo, hi) :: bs, x :: xs, hb, hl => by
    have h1 : lo ≤ hi := hb (lo, hi) List.mem_cons_self
    have ih := clip_in_bounds bs xs (fun b hb' => hb b (List.mem_cons_of_mem _ hb')) (by simpa using hl)
    simp only [clip, inBounds, ih, Bool.and_true, Bool.and_eq_true, decide_eq_true_eq]
    constructor <;> grind

/-- a point inside the bounds is left unchanged by `clip` -/
theorem clip_of_inBounds : ∀ (bs : List (Rat × Rat)) (x : List Rat), inBounds bs x = true → clip bs x = x
  | [], [], _ => rfl
  | [], _ :: _, h => by simp [inBounds] at h
  | _ :: _, [], h => by simp [inBounds] at h
  | (lo, hi) :: bs, x :: xs, h => by
    simp only [inBounds, Bool.and_eq_true, decide_eq_true_eq] at h
    simp only [clip, clip_of_inBounds bs xs h.2, List.cons.injEq, and_true]
    grind

/-- DE's trial vector: a coordinate-wise mix of two in-bounds points is in bounds. -/
theorem mix_in_bounds : ∀ (bs : List (Rat × Rat)) (cs : List Bool) (a b : List Rat),
    cs.length = bs.length → inBounds bs a = true → inBounds bs b = true → inBounds bs (mix cs a b) = true
  | [], [], [], [], _, _, _ => rfl
  | [], _, _ :: _, _, _, h, _ => by simp [inBounds] at h
  | [], _, [], _ :: _, _, _, h => by simp [inBounds] at h
  | [], _ :: _, _, _, h, _, _ => by simp at h
  | _ :: _, [], _, _, h, _, _ => by simp at h
  | _ :: _, _, [], _, _, h, _ => by simp [inBounds] at h
  | _ :: _, _, _ :: _, [], _, _, h => by simp [inBounds] at h
  | (lo, hi) :: bs, c :: cs, a :: as, b :: bs', hl, ha, hb => by
    simp only [inBounds, Bool.and_eq_true, decide_eq_true_eq] at ha hb
    have ih := mix_in_bounds bs cs as bs' (by simpa using hl) ha.2 hb.2
    simp only [mix, inBounds, ih, Bool.and_true, Bool.and_eq_true, decide_eq_true_eq]
    cases c <;> simp <;> grind

example : inBounds [(0, 1), (-2, 2)] (clip [(0, 1), (-2, 2)] [7, -5]) = true :=
  clip_in_bounds _ _ (by decide +kernel) rfl

end Solvor.Search
