import Solvor.Search.Drive
def main : IO Unit := Solvor.Proto.serve Solvor.Search.handle
