/-! Search: executable models (no Mathlib imports). -/
namespace Solvor.Search

end Solvor.Search
