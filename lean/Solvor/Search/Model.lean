/-!
Search: bookkeeping skeletons of the nine search heuristics of C19 (no Mathlib imports).

Every skeleton is a deterministic state machine over the *event stream* of one run of the real
solver:

* `val k`  – the k-th value returned by the (sign-adjusted) objective, i.e. what the k-th call of
  `Evaluator.__call__` returned (`k = 0` is the first call);
* `coin k` – whatever the RNG / `exp` / a user supplied acceptance callback decided for the
  candidate whose value is `val k` (only consulted where the code consults them);
* for tabu search the list of candidate moves of every iteration, in the order in which the
  shuffled candidate list was evaluated.

The RNG, `math.exp`, temperatures, positions, velocities and the user callbacks never appear:
the theorems quantify over *all* `val`, `coin` and move lists.  What is modelled is each
solver's own rule for `best_solution, best_obj`, `current`, populations / simplex and its
evaluation counter, statement by statement (see the Python file named above each section).
Solutions are identified by the index of the evaluation that produced their value.
-/
namespace Solvor.Search

/-! ### Common bookkeeping core: `best_obj`, the evaluation that produced it, `evaluate.evals` -/

structure Core where
  best : Rat
  bestIdx : Nat
  evals : Nat
  deriving Repr, BEq, DecidableEq, Inhabited

/-- State after the very first objective call (`obj = evaluate(initial)`). -/
def Core.init (val : Nat → Rat) : Core := ⟨val 0, 0, 1⟩

/-- One more evaluation was made; `best` untouched. -/
def Core.skip (c : Core) : Core := { c with evals := c.evals + 1 }

/-- One more evaluation was made and recorded as the new best. -/
def Core.take (c : Core) (v : Rat) : Core := ⟨v, c.evals, c.evals + 1⟩

/-- `y = evaluate(x); if y < best_obj: best_solution, best_obj = x, y`. -/
def Core.obs (val : Nat → Rat) (c : Core) : Core :=
  if val c.evals < c.best then c.take (val c.evals) else c.skip

/-- `n`-fold iteration of a step function (the `for` loops). -/
def iter {σ : Type} (f : σ → σ) : Nat → σ → σ
  | 0, s => s
  | n + 1, s => iter f n (f s)

/-! ### `Evaluator` (solvor/utils/helpers.py) -/

/-- `self.sign = 1 if minimize else -1`. -/
def sgn (minimize : Bool) : Rat := if minimize then 1 else -1

/-- `Evaluator.__call__`: the internal value of the k-th call is `sign * objective_fn(sol_k)`. -/
def internal (minimize : Bool) (f : Nat → Rat) : Nat → Rat := fun k => sgn minimize * f k

/-- `Evaluator.to_user`. -/
def toUser (minimize : Bool) (x : Rat) : Rat := x * sgn minimize

/-- What `Result` reports: objective (user's sign), which evaluated candidate is the returned
solution, `evaluations`. -/
structure Outcome where
  objective : Rat
  solIdx : Nat
  evaluations : Nat
  deriving Repr, BEq, DecidableEq, Inhabited

def Core.outcome (minimize : Bool) (c : Core) : Outcome :=
  ⟨toUser minimize c.best, c.bestIdx, c.evals⟩

/-- The mirror image of an outcome (objective negated, same solution, same count). -/
def Outcome.neg (o : Outcome) : Outcome := { o with objective := -o.objective }

/-! ### Acceptance rules of `lns`/`alns` (solvor/lns.py: `_get_accept_fn`) -/

inductive Accept where
  | improving   -- `_accept_improving`: new < current
  | all         -- `_accept_all`
  | sa          -- `_make_sa_accept`: new < current, else an RNG coin (false when temp < 1e-10)
  | custom      -- a user callable: its answer is the coin
  deriving Repr, BEq, DecidableEq, Inhabited

def Accept.says (a : Accept) (cur v : Rat) (coin : Bool) : Bool :=
  match a with
  | .improving => decide (v < cur)
  | .all => true
  | .sa => decide (v < cur) || coin
  | .custom => coin

/-! ### anneal (solvor/anneal.py) -/

structure AnnealSt where
  core : Core
  cur : Rat
  curIdx : Nat
  deriving Repr, BEq, DecidableEq, Inhabited

def annealInit (val : Nat → Rat) : AnnealSt := ⟨Core.init val, val 0, 0⟩

/-- One loop body: `delta < 0 or rng.random() < exp(-delta/temperature)`; best is looked at only
inside the accepted branch. -/
def annealStep (val : Nat → Rat) (coin : Nat → Bool) (s : AnnealSt) : AnnealSt :=
  let k := s.core.evals
  let v := val k
  if v - s.cur < 0 ∨ coin k = true then
    ⟨if v < s.core.best then s.core.take v else s.core.skip, v, k⟩
  else
    ⟨s.core.skip, s.cur, s.curIdx⟩

/-- `iters` = number of loop bodies executed (cooling cut-off and `on_progress` are abstracted). -/
def annealRun (val : Nat → Rat) (coin : Nat → Bool) (iters : Nat) : AnnealSt :=
  iter (annealStep val coin) iters (annealInit val)

/-! ### Loop control shared by tabu_search / lns / alns -/

/-- `if report_progress(...): return …` at iteration `stopAt` (0 = never), then
`if iteration - best_iter >= max_no_improve: break`. -/
def loopDone (iteration bestIter maxNoImprove stopAt : Nat) : Bool :=
  (stopAt != 0 && iteration == stopAt) || decide (iteration - bestIter ≥ maxNoImprove)

/-! ### tabu_search (solvor/tabu.py) -/

structure TabuSt where
  core : Core
  cur : Rat
  curIdx : Nat
  bestIter : Nat
  iteration : Nat
  tabuList : List Nat    -- the deque, oldest first
  tabuSet : List Nat     -- the set (no duplicates)
  done : Bool
  deriving Repr, BEq, DecidableEq, Inhabited

def tabuInit (val : Nat → Rat) : TabuSt := ⟨Core.init val, val 0, 0, 0, 0, [], [], false⟩

/-- The inner `for move, neighbor in candidates` loop.  `bn = (best_neighbor_obj, index of
best_neighbor, best_move)`; `none` stands for `float("inf")`. -/
def tabuScan (val : Nat → Rat) (best : Rat) (tabuSet : List Nat) :
    List Nat → Nat → Option (Rat × Nat × Nat) → Nat × Option (Rat × Nat × Nat)
  | [], e, bn => (e, bn)
  | m :: ms, e, bn =>
    let v := val e
    if tabuSet.contains m = true ∧ best ≤ v then tabuScan val best tabuSet ms (e + 1) bn
    else match bn with
      | none => tabuScan val best tabuSet ms (e + 1) (some (v, e, m))
      | some (b, i, mv) =>
        if v < b then tabuScan val best tabuSet ms (e + 1) (some (v, e, m))
        else tabuScan val best tabuSet ms (e + 1) (some (b, i, mv))

/-- One iteration with candidate moves `ms` (already shuffled). -/
def tabuStep (val : Nat → Rat) (cooldown maxNoImprove stopAt : Nat) (s : TabuSt) (ms : List Nat) :
    TabuSt :=
  if s.done then s else
  let iteration := s.iteration + 1
  if ms.isEmpty then { s with iteration := iteration, done := true } else
  match tabuScan val s.core.best s.tabuSet ms s.core.evals none with
  | (e, none) => { s with core := { s.core with evals := e }, iteration := iteration, done := true }
  | (e, some (b, i, mv)) =>
    let full := s.tabuList.length == cooldown
    let set1 := if full then s.tabuSet.erase (s.tabuList.headD 0) else s.tabuSet
    -- `cooldown = 0` (no memory) after the proposed repair C19_tabu_cooldown_zero
    let list1 := if cooldown = 0 then s.tabuList else (if full then s.tabuList.drop 1 else s.tabuList) ++ [mv]
    let set2 := if cooldown = 0 then s.tabuSet else if set1.contains mv then set1 else mv :: set1
    let improved := decide (b < s.core.best)
    let core : Core := if improved then ⟨b, i, e⟩ else { s.core with evals := e }
    let bestIter := if improved then iteration else s.bestIter
    ⟨core, b, i, bestIter, iteration, list1, set2, loopDone iteration bestIter maxNoImprove stopAt⟩

/-- `cands` = the candidate move lists of the iterations that were started (at most `max_iter`). -/
def tabuRun (val : Nat → Rat) (cooldown maxNoImprove stopAt : Nat) (cands : List (List Nat)) : TabuSt :=
  cands.foldl (tabuStep val cooldown maxNoImprove stopAt) (tabuInit val)

/-! ### lns / alns (solvor/lns.py) -/

structure LnsSt where
  core : Core
  cur : Rat
  curIdx : Nat
  bestIter : Nat
  iteration : Nat
  done : Bool
  deriving Repr, BEq, DecidableEq, Inhabited

def lnsInit (val : Nat → Rat) : LnsSt := ⟨Core.init val, val 0, 0, 0, 0, false⟩

/-- `lns` as it is in the unchanged tree: best is looked at only when the acceptance rule said yes. -/
def lnsStepOrig (val : Nat → Rat) (coin : Nat → Bool) (acc : Accept) (maxNoImprove stopAt : Nat)
    (s : LnsSt) : LnsSt :=
  if s.done then s else
  let iteration := s.iteration + 1
  let k := s.core.evals
  let v := val k
  if acc.says s.cur v (coin k) then
    let bestIter := if v < s.core.best then iteration else s.bestIter
    ⟨if v < s.core.best then s.core.take v else s.core.skip, v, k, bestIter, iteration,
      loopDone iteration bestIter maxNoImprove stopAt⟩
  else
    ⟨s.core.skip, s.cur, s.curIdx, s.bestIter, iteration,
      loopDone iteration s.bestIter maxNoImprove stopAt⟩

/-- `lns` with the proposed repair (C19_lns_best): the incumbent is updated whenever the candidate
beats it, whatever the acceptance rule answered. -/
def lnsStep (val : Nat → Rat) (coin : Nat → Bool) (acc : Accept) (maxNoImprove stopAt : Nat)
    (s : LnsSt) : LnsSt :=
  if s.done then s else
  let iteration := s.iteration + 1
  let k := s.core.evals
  let v := val k
  let a := acc.says s.cur v (coin k)
  let bestIter := if v < s.core.best then iteration else s.bestIter
  ⟨if v < s.core.best then s.core.take v else s.core.skip,
    if a then v else s.cur, if a then k else s.curIdx, bestIter, iteration,
    loopDone iteration bestIter maxNoImprove stopAt⟩

def lnsRun (orig : Bool) (val : Nat → Rat) (coin : Nat → Bool) (acc : Accept)
    (maxIter maxNoImprove stopAt : Nat) : LnsSt :=
  iter (if orig then lnsStepOrig val coin acc maxNoImprove stopAt
        else lnsStep val coin acc maxNoImprove stopAt) maxIter (lnsInit val)

/-- `alns`: new global best / better than current / acceptance rule, in this order. -/
def alnsStep (val : Nat → Rat) (coin : Nat → Bool) (acc : Accept) (maxNoImprove stopAt : Nat)
    (s : LnsSt) : LnsSt :=
  if s.done then s else
  let iteration := s.iteration + 1
  let k := s.core.evals
  let v := val k
  if v < s.core.best then
    ⟨s.core.take v, v, k, iteration, iteration, loopDone iteration iteration maxNoImprove stopAt⟩
  else if v < s.cur then
    ⟨s.core.skip, v, k, s.bestIter, iteration, loopDone iteration s.bestIter maxNoImprove stopAt⟩
  else if acc.says s.cur v (coin k) then
    ⟨s.core.skip, v, k, s.bestIter, iteration, loopDone iteration s.bestIter maxNoImprove stopAt⟩
  else
    ⟨s.core.skip, s.cur, s.curIdx, s.bestIter, iteration,
      loopDone iteration s.bestIter maxNoImprove stopAt⟩

def alnsRun (val : Nat → Rat) (coin : Nat → Bool) (acc : Accept)
    (maxIter maxNoImprove stopAt : Nat) : LnsSt :=
  iter (alnsStep val coin acc maxNoImprove stopAt) maxIter (lnsInit val)

/-! ### Populations: individuals and the stable sort (`sorted(..., key=fitness)`) -/

/-- An evaluated candidate: its (internal) value and the index of the evaluation. -/
structure Ind where
  fit : Rat
  idx : Nat
  deriving Repr, BEq, DecidableEq, Inhabited

/-- Insert after every element whose key is `≤` the new key. -/
def insertStable (x : Ind) : List Ind → List Ind
  | [] => [x]
  | y :: ys => if x.fit < y.fit then x :: y :: ys else y :: insertStable x ys

/-- Stable sort by `fit` (the unique stable ordering, hence equal to CPython's `sorted`). -/
def sortStable (l : List Ind) : List Ind := l.foldl (fun acc x => insertStable x acc) []

/-- `[Ind(val e, e), …, Ind(val (e+n-1), e+n-1)]`. -/
def evalMany (val : Nat → Rat) (e : Nat) : Nat → List Ind
  | 0 => []
  | n + 1 => ⟨val e, e⟩ :: evalMany val (e + 1) n

/-- `min(range(len), key=…)`: first index attaining the least value. -/
def argminFirst : List Ind → Option Ind
  | [] => none
  | x :: xs => match argminFirst xs with
    | none => some x
    | some m => if m.fit < x.fit then some m else some x

/-! ### evolve (solvor/genetic.py) -/

structure EvoSt where
  core : Core
  pop : List Ind
  deriving Repr, BEq, DecidableEq, Inhabited

def evoInit (val : Nat → Rat) (popSize : Nat) : EvoSt :=
  let pop := sortStable (evalMany val 0 popSize)
  match pop with
  | [] => ⟨⟨0, 0, popSize⟩, []⟩     -- `pop[0]` raises IndexError on an empty population
  | h :: _ => ⟨⟨h.fit, h.idx, popSize⟩, pop⟩

/-- One generation: elites, then children evaluated one by one until the population is full,
`sorted(new_pop)[:pop_size]`, best updated from `pop[0]`. -/
def evoStep (val : Nat → Rat) (popSize eliteSize : Nat) (s : EvoSt) : EvoSt :=
  let elites := s.pop.take eliteSize
  let nChildren := popSize - elites.length
  let newPop := elites ++ evalMany val s.core.evals nChildren
  let pop := (sortStable newPop).take popSize
  let e := s.core.evals + nChildren
  match pop with
  | [] => ⟨{ s.core with evals := e }, pop⟩
  | h :: _ =>
    ⟨if h.fit < s.core.best then ⟨h.fit, h.idx, e⟩ else { s.core with evals := e }, pop⟩

def evoRun (val : Nat → Rat) (popSize eliteSize gens : Nat) : EvoSt :=
  iter (evoStep val popSize eliteSize) gens (evoInit val popSize)

/-! ### differential_evolution / particle_swarm / bayesian_opt -/

/-- Evaluate the `n` start points and take the first arg-min (`min(range(n), key=…)`). -/
def startCore (val : Nat → Rat) (n : Nat) : Core := iter (Core.obs val) (n - 1) (Core.init val)

/-- `[val 0, …, val (n-1)]`. -/
def startFits (val : Nat → Rat) (n : Nat) : List Rat := (List.range n).map val

/-- DE, one generation over the fitness list: `if trial_fit <= fitness[i]:` replace, and inside
it `if trial_fit < best_obj:` new best. -/
def deSweep (val : Nat → Rat) : List Rat → Core → List Rat × Core
  | [], c => ([], c)
  | f :: fs, c =>
    let v := val c.evals
    if v ≤ f then
      let r := deSweep val fs (if v < c.best then c.take v else c.skip)
      (v :: r.1, r.2)
    else
      let r := deSweep val fs c.skip
      (f :: r.1, r.2)

/-- PSO, one iteration over the personal bests: `if fitness[i] < p_best_fit[i]:` and inside it
`if fitness[i] < best_obj:`. -/
def psoSweep (val : Nat → Rat) : List Rat → Core → List Rat × Core
  | [], c => ([], c)
  | f :: fs, c =>
    let v := val c.evals
    if v < f then
      let r := psoSweep val fs (if v < c.best then c.take v else c.skip)
      (v :: r.1, r.2)
    else
      let r := psoSweep val fs c.skip
      (f :: r.1, r.2)

structure PopSt where
  core : Core
  fits : List Rat
  deriving Repr, BEq, DecidableEq, Inhabited

def popInit (val : Nat → Rat) (n : Nat) : PopSt := ⟨startCore val n, startFits val n⟩

def deStep (val : Nat → Rat) (s : PopSt) : PopSt :=
  let r := deSweep val s.fits s.core; ⟨r.2, r.1⟩
def psoStep (val : Nat → Rat) (s : PopSt) : PopSt :=
  let r := psoSweep val s.fits s.core; ⟨r.2, r.1⟩

/-- `gens` = generations completed (the variance cut-off and `on_progress` are abstracted). -/
def deRun (val : Nat → Rat) (popSize gens : Nat) : PopSt := iter (deStep val) gens (popInit val popSize)
def psoRun (val : Nat → Rat) (nParticles iters : Nat) : PopSt :=
  iter (psoStep val) iters (popInit val nParticles)

/-- bayesian_opt: `n_initial` random points, then one acquisition candidate per iteration of
`range(n_initial, max_iter)`, each compared with `<`. -/
def bayesRun (val : Nat → Rat) (nInitial iters : Nat) : Core :=
  iter (Core.obs val) iters (startCore val nInitial)

/-! ### nelder_mead (solvor/nelder_mead.py) -/

structure NmSt where
  simplex : List Ind      -- n+1 vertices (value, evaluation index)
  evals : Nat
  iteration : Nat
  done : Bool
  stopped : Bool          -- left through the `on_progress` return
  deriving Repr, BEq, DecidableEq, Inhabited

def ratAbs (x : Rat) : Rat := if x < 0 then -x else x

/-- `simplex[n] = x`. -/
def setLast (l : List Ind) (x : Ind) : List Ind := l.dropLast ++ [x]

def nmInit (val : Nat → Rat) (n : Nat) : NmSt := ⟨evalMany val 0 (n + 1), n + 1, 0, false, false⟩

/-- `_shrink`: vertex 0 stays, vertices 1..n are moved and re-evaluated in order. -/
def nmShrink (val : Nat → Rat) (sorted : List Ind) (e : Nat) : List Ind :=
  sorted.take 1 ++ evalMany val e (sorted.length - 1)

/-- Reflection / expansion / contraction / shrink on the sorted simplex; returns the new simplex
and the new evaluation count. -/
def nmBody (val : Nat → Rat) (n : Nat) (sorted : List Ind) (e : Nat) : List Ind × Nat :=
  let bestV := (sorted.headD default).fit
  let worstV := (sorted.getD n default).fit
  let secondV := (sorted.getD (n - 1) default).fit
  let r := val e
  if bestV ≤ r ∧ r < secondV then (setLast sorted ⟨r, e⟩, e + 1)
  else if r < bestV then
    let x := val (e + 1)
    if x < r then (setLast sorted ⟨x, e + 1⟩, e + 2) else (setLast sorted ⟨r, e⟩, e + 2)
  else if r < worstV then
    let c := val (e + 1)
    if c ≤ r then (setLast sorted ⟨c, e + 1⟩, e + 2)
    else (nmShrink val sorted (e + 2), e + 2 + n)
  else
    let c := val (e + 1)
    if c < worstV then (setLast sorted ⟨c, e + 1⟩, e + 2)
    else (nmShrink val sorted (e + 2), e + 2 + n)

/-- One loop body of `nelder_mead` for dimension `n ≥ 1`. -/
def nmStep (val : Nat → Rat) (n : Nat) (tol : Rat) (stopAt : Nat) (s : NmSt) : NmSt :=
  if s.done then s else
  let iteration := s.iteration + 1
  let sorted := sortStable s.simplex
  let bestV := (sorted.headD default).fit
  let worstV := (sorted.getD n default).fit
  if ratAbs (worstV - bestV) < tol then
    { s with simplex := sorted, iteration := iteration, done := true }
  else
    let p := nmBody val n sorted s.evals
    let stop := stopAt != 0 && iteration == stopAt
    ⟨p.1, p.2, iteration, stop, stop⟩

def nmRun (val : Nat → Rat) (n : Nat) (tol : Rat) (maxIter stopAt : Nat) : NmSt :=
  iter (nmStep val n tol stopAt) maxIter (nmInit val n)

/-- The value `nelder_mead` reports.  `orig = true`: the unchanged tree, whose `on_progress` exit
returns `simplex[0], values[0]` of the *unsorted* simplex; otherwise (and after the proposed
repair C19_nm_stop) the first arg-min of the current simplex. -/
def nmResult (orig : Bool) (s : NmSt) : Core :=
  let pick := if orig && s.stopped then s.simplex.head? else argminFirst s.simplex
  match pick with
  | some b => ⟨b.fit, b.idx, s.evals⟩
  | none => ⟨0, 0, s.evals⟩

/-! ### What each solver returns, as a function of the user's objective values `f k`
(`f k` = user's objective at the k-th evaluated point), the coins and the limits -/

def annealSolve (m : Bool) (f : Nat → Rat) (coin : Nat → Bool) (iters : Nat) : Outcome :=
  (annealRun (internal m f) coin iters).core.outcome m
def tabuSolve (m : Bool) (f : Nat → Rat) (cooldown maxNoImprove stopAt : Nat) (cands : List (List Nat)) :
    Outcome :=
  (tabuRun (internal m f) cooldown maxNoImprove stopAt cands).core.outcome m
/-- `orig = true`: the rule as written in the unchanged tree. -/
def lnsSolve (orig : Bool) (m : Bool) (f : Nat → Rat) (coin : Nat → Bool) (acc : Accept)
    (maxIter maxNoImprove stopAt : Nat) : Outcome :=
  (lnsRun orig (internal m f) coin acc maxIter maxNoImprove stopAt).core.outcome m
def alnsSolve (m : Bool) (f : Nat → Rat) (coin : Nat → Bool) (acc : Accept)
    (maxIter maxNoImprove stopAt : Nat) : Outcome :=
  (alnsRun (internal m f) coin acc maxIter maxNoImprove stopAt).core.outcome m
def evolveSolve (m : Bool) (f : Nat → Rat) (popSize eliteSize gens : Nat) : Outcome :=
  (evoRun (internal m f) popSize eliteSize gens).core.outcome m
def deSolve (m : Bool) (f : Nat → Rat) (popSize gens : Nat) : Outcome :=
  (deRun (internal m f) popSize gens).core.outcome m
def psoSolve (m : Bool) (f : Nat → Rat) (nParticles iters : Nat) : Outcome :=
  (psoRun (internal m f) nParticles iters).core.outcome m
def bayesSolve (m : Bool) (f : Nat → Rat) (nInitial iters : Nat) : Outcome :=
  (bayesRun (internal m f) nInitial iters).outcome m
/-- `orig = true`: the `on_progress` exit as written in the unchanged tree. -/
def nmSolve (orig : Bool) (m : Bool) (f : Nat → Rat) (n : Nat) (tol : Rat) (maxIter stopAt : Nat) : Outcome :=
  (nmResult orig (nmRun (internal m f) n tol maxIter stopAt)).outcome m

/-! ### Bounds (differential_evolution / particle_swarm / bayesian_opt: `clip`) -/

/-- `[max(lo, min(hi, x[i])) for i, (lo, hi) in enumerate(bounds)]`. -/
def clip : List (Rat × Rat) → List Rat → List Rat
  | (lo, hi) :: bs, x :: xs => max lo (min hi x) :: clip bs xs
  | _, _ => []

/-- Verified checker: `x` has one coordinate per bound and each lies inside its interval. -/
def inBounds : List (Rat × Rat) → List Rat → Bool
  | [], [] => true
  | (lo, hi) :: bs, x :: xs => decide (lo ≤ x) && decide (x ≤ hi) && inBounds bs xs
  | _, _ => false

/-- DE's binomial crossover: coordinate-wise choice between target and (clipped) mutant. -/
def mix : List Bool → List Rat → List Rat → List Rat
  | c :: cs, a :: as, b :: bs => (if c then b else a) :: mix cs as bs
  | _, _, _ => []

/-! ### Verified checker for the implementation's own answer (T-spec) -/

/-- `objective` is what `Result.objective` holds, `fSol` the user's objective re-evaluated on
`Result.solution`, `fs` every value the recording proxy saw (user's sign, start points included),
`starts` the user's objective at the start point(s) handed to the solver, `evaluations` what
`Result.evaluations` holds (to be compared with the number of proxy calls). -/
def checkResult (minimize : Bool) (fs starts : List Rat) (objective fSol : Rat) (evaluations : Nat) :
    Bool :=
  decide (objective = fSol)
    && (fs ++ starts).all (fun v => if minimize then decide (objective ≤ v) else decide (v ≤ objective))
    && evaluations == fs.length

end Solvor.Search
