import Solvor.Common.Proto
import Solvor.Search.Model
/-! Search: line-protocol handler. One request line in, one reply line out. -/
namespace Solvor.Search

def handle (line : String) : String := "unimplemented " ++ line

end Solvor.Search
