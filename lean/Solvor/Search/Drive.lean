import Solvor.Common.Proto
import Solvor.Search.Model
/-! Search: line-protocol handler. One request line in, one reply line out.

request `["run", solver, orig, minimize, fs, starts, coins, params, tol, cands, implObj, implFSol, implEvals, bounds, point]`
  solver   : "anneal" | "tabu" | "lns" | "alns" | "evolve" | "de" | "pso" | "bayes" | "nm"
  orig     : true = replay `lns` with the rule of the unchanged tree (`lnsStepOrig`) instead of the repaired one
  fs       : every value the recording proxy saw, in call order, user's sign (rationals)
  starts   : objective at the start point(s) handed to the solver (user's sign)
  coins    : one Bool per evaluation index (accept decision observed for that candidate; padded with false)
  params   : naturals, per solver
               anneal [iters]                       tabu  [cooldown, maxNoImprove, stopAt]
               lns/alns [accept, maxIter, maxNoImprove, stopAt]   (accept: 0 improving 1 all 2 sa 3 custom)
               evolve [popSize, eliteSize, gens]    de [popSize, gens]   pso [nParticles, iters]
               bayes [nInitial, iters]              nm [n, maxIter, stopAt]
  tol      : rational (nm) or null
  cands    : tabu: candidate move ids per started iteration, evaluation order; else []
  implObj, implFSol, implEvals : Result.objective, objective re-evaluated on Result.solution, Result.evaluations
  bounds, point : null, or [[lo,hi],…] and the returned point (exact rationals)
reply `[objective, solIdx, evaluations, trace, iterations, origObjective, origSolIdx, check, inBounds|null]`
  objective/solIdx/evaluations : the skeleton's `Outcome` (repaired rule where a repair is proposed)
  trace      : index of the current solution after every step (anneal, tabu, lns, alns), else []
  iterations : loop bodies the skeleton executed before it stopped by its own rule
  orig*      : outcome of the rule as written in the unchanged tree (lns, nm), else same as above
  check      : verified checker `checkResult` on the implementation's answer
-/
namespace Solvor.Search
open Solvor.Proto

/-- iterate `f` `n` times collecting `proj` of every state reached. -/
def iterTrace {σ : Type} (f : σ → σ) (proj : σ → Nat) : Nat → σ → List Nat → σ × List Nat
  | 0, s, acc => (s, acc.reverse)
  | n + 1, s, acc => let s' := f s; iterTrace f proj n s' (proj s' :: acc)

/-- same, but stop collecting once `done`. -/
def iterTraceD {σ : Type} (f : σ → σ) (proj : σ → Nat) (done : σ → Bool) :
    Nat → σ → List Nat → σ × List Nat
  | 0, s, acc => (s, acc.reverse)
  | n + 1, s, acc => if done s then (s, acc.reverse) else
      let s' := f s; iterTraceD f proj done n s' (proj s' :: acc)

def accOf : Nat → Accept
  | 0 => .improving | 1 => .all | 2 => .sa | _ => .custom

def reply (m : Bool) (c : Core) (trace : List Nat) (iters : Nat) (o : Core) : List Val :=
  let oc := c.outcome m
  let oo := o.outcome m
  [Val.ofRat oc.objective, Val.int oc.solIdx, Val.int oc.evaluations, Val.ofNats trace, Val.int iters,
   Val.ofRat oo.objective, Val.int oo.solIdx]

def runSolver (solver : String) (orig : Bool) (m : Bool) (fs : Array Rat) (coins : Array Bool) (ps : List Nat)
    (tol : Rat) (cands : List (List Nat)) : Option (List Val) :=
  let val : Nat → Rat := internal m (fun k => fs.getD k 0)
  let coin : Nat → Bool := fun k => coins.getD k false
  match solver, ps with
  | "anneal", [iters] =>
    let (s, tr) := iterTrace (annealStep val coin) (·.curIdx) iters (annealInit val) []
    some (reply m s.core tr iters s.core)
  | "tabu", [cooldown, mni, stopAt] =>
    let (s, tr) := cands.foldl (fun (p : TabuSt × List Nat) ms =>
        if p.1.done then p else
        let s' := tabuStep val cooldown mni stopAt p.1 ms; (s', s'.curIdx :: p.2)) (tabuInit val, [])
    some (reply m s.core tr.reverse s.iteration s.core)
  | "lns", [a, maxIter, mni, stopAt] =>
    let step := if orig then lnsStepOrig val coin (accOf a) mni stopAt else lnsStep val coin (accOf a) mni stopAt
    let (s, tr) := iterTraceD step (·.curIdx) (·.done) maxIter (lnsInit val) []
    let o := lnsRun true val coin (accOf a) maxIter mni stopAt
    some (reply m s.core tr s.iteration o.core)
  | "alns", [a, maxIter, mni, stopAt] =>
    let (s, tr) := iterTraceD (alnsStep val coin (accOf a) mni stopAt) (·.curIdx) (·.done) maxIter (lnsInit val) []
    some (reply m s.core tr s.iteration s.core)
  | "evolve", [popSize, eliteSize, gens] =>
    let s := evoRun val popSize eliteSize gens
    some (reply m s.core [] gens s.core)
  | "de", [popSize, gens] =>
    let s := deRun val popSize gens
    some (reply m s.core [] gens s.core)
  | "pso", [n, iters] =>
    let s := psoRun val n iters
    some (reply m s.core [] iters s.core)
  | "bayes", [n0, iters] =>
    let c := bayesRun val n0 iters
    some (reply m c [] iters c)
  | "nm", [n, maxIter, stopAt] =>
    let s := nmRun val n tol maxIter stopAt
    some (reply m (nmResult false s) [] s.iteration (nmResult true s))
  | _, _ => none

def toPair? (v : Val) : Option (Rat × Rat) :=
  match v.toRats? with
  | some [a, b] => some (a, b)
  | _ => none

def handle (line : String) : String :=
  match request line with
  | some ("run", [solver, orig, m, fs, starts, coins, ps, tol, cands, iobj, ifsol, ievals, bounds, point]) =>
    match solver.toStr?, orig.toBool?, m.toBool?, fs.toRats?, starts.toRats?, coins.toArr?, ps.toNats?, tol.toOpt? Val.toRat?,
          cands.toNatss?, iobj.toRat?, ifsol.toRat?, ievals.toNat? with
    | some solver, some orig, some m, some fs, some starts, some coins, some ps, some tol, some cands, some iobj, some ifsol,
      some ievals =>
      match coins.mapM Val.toBool?, runSolver solver orig m fs.toArray ((coins.filterMap Val.toBool?).toArray) ps
              (tol.getD 0) cands with
      | some _, some out =>
        let chk := checkResult m fs starts iobj ifsol ievals
        let inb : Val :=
          match bounds.toArr?, point.toRats? with
          | some bs, some p =>
            match bs.mapM toPair? with
            | some bs => Val.bool (inBounds bs p)
            | none => Val.null
          | _, _ => Val.null
        (Val.arr (out ++ [Val.bool chk, inb])).render
      | _, _ => err "bad solver/params"
    | _, _, _, _, _, _, _, _, _, _, _, _ => err "bad arguments"
  | _ => err "bad request"

end Solvor.Search
