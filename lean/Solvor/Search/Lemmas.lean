import Solvor.Search.Model
/-! Search: helper lemmas (invariants of the bookkeeping skeletons). -/
namespace Solvor.Search

/-- `c` is a faithful best-so-far record of the first `c.evals` values of the stream: the
recorded best is the value of the recorded evaluation and no evaluated value is smaller. -/
structure Good (val : Nat → Rat) (c : Core) : Prop where
  idx_lt : c.bestIdx < c.evals
  attained : val c.bestIdx = c.best
  le_all : ∀ k, k < c.evals → c.best ≤ val k

/-- User-facing reading of `Good`: the reported objective is the user's objective at the returned
solution, in the user's sign, and at least as good as every evaluated point (start points are
evaluations `0 …`). -/
def Faithful (minimize : Bool) (f : Nat → Rat) (o : Outcome) : Prop :=
  o.solIdx < o.evaluations ∧ o.objective = f o.solIdx ∧
    ∀ k, k < o.evaluations → if minimize then o.objective ≤ f k else f k ≤ o.objective

theorem iter_inv {σ : Type} (P : σ → Prop) (f : σ → σ) (h : ∀ s, P s → P (f s)) :
    ∀ n s, P s → P (iter f n s)
  | 0, _, hs => hs
  | n + 1, s, hs => iter_inv P f h n (f s) (h s hs)

theorem good_init (val : Nat → Rat) : Good val (Core.init val) :=
  ⟨by simp [Core.init], by simp [Core.init], by
    intro k hk; simp [Core.init] at hk ⊢; subst hk; exact Rat.le_refl⟩

theorem good_take {val : Nat → Rat} {c : Core} (h : Good val c) (hv : val c.evals < c.best) :
    Good val (c.take (val c.evals)) := by
  refine ⟨by simp [Core.take], by simp [Core.take], ?_⟩
  intro k hk
  simp only [Core.take] at hk ⊢
  by_cases hk' : k < c.evals
  · have := h.le_all k hk'; grind
  · have : k = c.evals := by omega
    subst this; exact Rat.le_refl

theorem good_skip {val : Nat → Rat} {c : Core} (h : Good val c) (hv : c.best ≤ val c.evals) :
    Good val c.skip := by
  refine ⟨by have := h.idx_lt; simp [Core.skip]; omega, by simpa [Core.skip] using h.attained, ?_⟩
  intro k hk
  simp only [Core.skip] at hk ⊢
  by_cases hk' : k < c.evals
  · exact h.le_all k hk'
  · have : k = c.evals := by omega
    subst this; exact hv

theorem good_obs {val : Nat → Rat} {c : Core} (h : Good val c) : Good val (c.obs val) := by
  unfold Core.obs
  split
  · exact good_take h (by assumption)
  · exact good_skip h (by grind)

/-- the update written inside an accepted branch (`if v < best: …`) -/
theorem good_upd {val : Nat → Rat} {c : Core} (h : Good val c) :
    Good val (if val c.evals < c.best then c.take (val c.evals) else c.skip) := good_obs h

theorem obs_best_le {val : Nat → Rat} {c : Core} : (c.obs val).best ≤ c.best := by
  unfold Core.obs Core.take Core.skip; split <;> grind

theorem obs_evals {val : Nat → Rat} {c : Core} : (c.obs val).evals = c.evals + 1 := by
  unfold Core.obs Core.take Core.skip; split <;> rfl

theorem upd_best_le {val : Nat → Rat} {c : Core} :
    (if val c.evals < c.best then c.take (val c.evals) else c.skip).best ≤ c.best := obs_best_le

theorem upd_evals {val : Nat → Rat} {c : Core} :
    (if val c.evals < c.best then c.take (val c.evals) else c.skip).evals = c.evals + 1 := by
  split <;> rfl

theorem upd_best_le_val {val : Nat → Rat} {c : Core} :
    (if val c.evals < c.best then c.take (val c.evals) else c.skip).best ≤ val c.evals := by
  unfold Core.take Core.skip; split <;> grind

/-! ### sign handling -/

theorem sgn_mul_self (m : Bool) : sgn m * sgn m = 1 := by cases m <;> simp [sgn] <;> grind

theorem toUser_internal (m : Bool) (x : Rat) : toUser m (sgn m * x) = x := by
  cases m <;> simp [toUser, sgn] <;> grind

theorem good_faithful {m : Bool} {f : Nat → Rat} {c : Core} (h : Good (internal m f) c) :
    Faithful m f (c.outcome m) := by
  refine ⟨h.idx_lt, ?_, ?_⟩
  · have := h.attained
    have h3 := toUser_internal m (f c.bestIdx)
    simp only [Core.outcome, internal] at this ⊢
    rw [← this, h3]
  · intro k hk
    have h1 := h.le_all k hk
    simp only [Core.outcome, internal, toUser] at *
    cases m
    · simp only [sgn] at *
      have : (if false = true then c.best * (if false = true then (1:Rat) else -1) ≤ f k
          else f k ≤ c.best * (if false = true then (1:Rat) else -1)) = (f k ≤ c.best * -1) := by simp
      rw [this]; simp at h1; grind
    · simp only [sgn] at *
      simp at h1 ⊢; grind

theorem internal_mirror (f : Nat → Rat) : internal false f = internal true (fun k => -f k) := by
  funext k; simp [internal, sgn]; grind

theorem outcome_mirror (c : Core) : c.outcome false = (c.outcome true).neg := by
  simp [Core.outcome, Outcome.neg, toUser, sgn]; grind

/-! ### anneal -/

def AnnealInv (val : Nat → Rat) (s : AnnealSt) : Prop := Good val s.core ∧ s.core.best ≤ s.cur

theorem annealInv_init (val : Nat → Rat) : AnnealInv val (annealInit val) :=
  ⟨good_init val, by simp [annealInit, Core.init]⟩

theorem annealInv_step (val : Nat → Rat) (coin : Nat → Bool) (s : AnnealSt) (h : AnnealInv val s) :
    AnnealInv val (annealStep val coin s) := by
  obtain ⟨hg, hc⟩ := h
  unfold annealStep
  simp only
  split
  · exact ⟨good_upd hg, upd_best_le_val⟩
  · rename_i hn
    refine ⟨good_skip hg ?_, by simpa [Core.skip] using hc⟩
    grind

theorem anneal_evals_step (val : Nat → Rat) (coin : Nat → Bool) (s : AnnealSt) :
    (annealStep val coin s).core.evals = s.core.evals + 1 := by
  unfold annealStep Core.take Core.skip
  simp only
  split <;> (try split) <;> rfl

/-! ### lns / alns -/

def LnsInv (val : Nat → Rat) (s : LnsSt) : Prop :=
  Good val s.core ∧ s.core.best ≤ s.cur ∧ s.core.evals = s.iteration + 1

theorem lnsInv_init (val : Nat → Rat) : LnsInv val (lnsInit val) :=
  ⟨good_init val, by simp [lnsInit, Core.init], by simp [lnsInit, Core.init]⟩

theorem lnsInv_step (val : Nat → Rat) (coin : Nat → Bool) (acc : Accept) (mni stopAt : Nat)
    (s : LnsSt) (h : LnsInv val s) : LnsInv val (lnsStep val coin acc mni stopAt s) := by
  obtain ⟨hg, hc, he⟩ := h
  unfold lnsStep
  split
  · exact ⟨hg, hc, he⟩
  · simp only
    refine ⟨good_upd hg, ?_, ?_⟩
    · dsimp only
      by_cases ha : acc.says s.cur (val s.core.evals) (coin s.core.evals) = true
      · rw [if_pos ha]; exact upd_best_le_val
      · rw [if_neg ha]; exact Rat.le_trans upd_best_le hc
    · dsimp only; rw [upd_evals, he]

/-- the acceptance rule never refuses a candidate that improves on the current solution -/
def Accept.RespectsImprovement (acc : Accept) (coin : Nat → Bool) (val : Nat → Rat) : Prop :=
  ∀ (cur : Rat) (k : Nat), val k < cur → acc.says cur (val k) (coin k) = true

theorem respects_of_builtin (acc : Accept) (h : acc ≠ .custom) (coin : Nat → Bool) (val : Nat → Rat) :
    acc.RespectsImprovement coin val := by
  intro cur k hk
  cases acc <;> simp_all [Accept.says]

theorem lnsInv_stepOrig (val : Nat → Rat) (coin : Nat → Bool) (acc : Accept) (mni stopAt : Nat)
    (hacc : acc.RespectsImprovement coin val)
    (s : LnsSt) (h : LnsInv val s) : LnsInv val (lnsStepOrig val coin acc mni stopAt s) := by
  obtain ⟨hg, hc, he⟩ := h
  unfold lnsStepOrig
  split
  · exact ⟨hg, hc, he⟩
  · simp only
    split
    · exact ⟨good_upd hg, upd_best_le_val, by rw [upd_evals, he]⟩
    · rename_i hrej
      refine ⟨good_skip hg ?_, by simpa [Core.skip] using hc, by simp [Core.skip, he]⟩
      -- a rejected candidate is not better than the current solution, hence not better than best
      have : ¬ val s.core.evals < s.cur := fun hlt => hrej (hacc s.cur s.core.evals hlt)
      grind

theorem alnsInv_step (val : Nat → Rat) (coin : Nat → Bool) (acc : Accept) (mni stopAt : Nat)
    (s : LnsSt) (h : LnsInv val s) : LnsInv val (alnsStep val coin acc mni stopAt s) := by
  obtain ⟨hg, hc, he⟩ := h
  unfold alnsStep
  split
  · exact ⟨hg, hc, he⟩
  · simp only
    split
    · rename_i hv
      exact ⟨good_take hg hv, by simp [Core.take], by simp [Core.take, he]⟩
    · rename_i hv
      have hle : s.core.best ≤ val s.core.evals := by grind
      split
      · exact ⟨good_skip hg hle, by simpa [Core.skip] using hle, by simp [Core.skip, he]⟩
      · split
        · exact ⟨good_skip hg hle, by simpa [Core.skip] using hle, by simp [Core.skip, he]⟩
        · exact ⟨good_skip hg hle, by simpa [Core.skip] using hc, by simp [Core.skip, he]⟩

/-! ### start points, bayesian_opt -/

theorem good_iter_obs (val : Nat → Rat) (n : Nat) (c : Core) (h : Good val c) :
    Good val (iter (Core.obs val) n c) :=
  iter_inv (Good val) _ (fun _ hs => good_obs hs) n c h

theorem evals_iter_obs (val : Nat → Rat) : ∀ (n : Nat) (c : Core),
    (iter (Core.obs val) n c).evals = c.evals + n
  | 0, _ => rfl
  | n + 1, c => by
    show (iter (Core.obs val) n (c.obs val)).evals = _
    rw [evals_iter_obs val n, obs_evals]; omega

theorem good_startCore (val : Nat → Rat) (n : Nat) : Good val (startCore val n) :=
  good_iter_obs val _ _ (good_init val)

theorem startCore_evals (val : Nat → Rat) (n : Nat) (hn : 1 ≤ n) : (startCore val n).evals = n := by
  unfold startCore; rw [evals_iter_obs]; simp [Core.init]; omega

/-! ### differential_evolution / particle_swarm -/

/-- every fitness / personal-best entry belongs to an evaluated point, so `best ≤` each of them -/
def PopInv (val : Nat → Rat) (c : Core) (fits : List Rat) : Prop :=
  Good val c ∧ ∀ x ∈ fits, c.best ≤ x

theorem deSweep_inv (val : Nat → Rat) : ∀ (fits : List Rat) (c : Core), PopInv val c fits →
    PopInv val (deSweep val fits c).2 (deSweep val fits c).1 ∧
    (deSweep val fits c).2.best ≤ c.best ∧
    (deSweep val fits c).2.evals = c.evals + fits.length ∧
    (deSweep val fits c).1.length = fits.length
  | [], c, h => by unfold deSweep; exact ⟨h, Rat.le_refl, rfl, rfl⟩
  | f :: fs, c, ⟨hg, hf⟩ => by
    unfold deSweep
    simp only
    split
    · rename_i hv
      have hg' := good_upd (val := val) hg
      have hb := @upd_best_le val c
      have hbv := @upd_best_le_val val c
      obtain ⟨⟨ig, ifs⟩, ib, ie, il⟩ := deSweep_inv val fs _
        ⟨hg', fun x hx => Rat.le_trans hb (hf x (List.mem_cons_of_mem _ hx))⟩
      refine ⟨⟨ig, ?_⟩, Rat.le_trans ib hb, ?_, by simp [il]⟩
      · intro x hx
        rcases List.mem_cons.1 hx with rfl | hx
        · exact Rat.le_trans ib hbv
        · exact ifs x hx
      · rw [ie]; by_cases hv' : val c.evals < c.best <;> simp [hv', Core.take, Core.skip] <;> omega
    · rename_i hv
      have hfb : c.best ≤ f := hf f List.mem_cons_self
      have hg' := good_skip (val := val) hg (by grind)
      obtain ⟨⟨ig, ifs⟩, ib, ie, il⟩ := deSweep_inv val fs c.skip
        ⟨hg', fun x hx => by simpa [Core.skip] using hf x (List.mem_cons_of_mem _ hx)⟩
      have ib' : (deSweep val fs c.skip).2.best ≤ c.best := by simpa [Core.skip] using ib
      refine ⟨⟨ig, ?_⟩, ib', ?_, by simp [il]⟩
      · intro x hx
        rcases List.mem_cons.1 hx with rfl | hx
        · exact Rat.le_trans ib' hfb
        · exact ifs x hx
      · rw [ie]; simp [Core.skip]; omega

theorem psoSweep_inv (val : Nat → Rat) : ∀ (fits : List Rat) (c : Core), PopInv val c fits →
    PopInv val (psoSweep val fits c).2 (psoSweep val fits c).1 ∧
    (psoSweep val fits c).2.best ≤ c.best ∧
    (psoSweep val fits c).2.evals = c.evals + fits.length ∧
    (psoSweep val fits c).1.length = fits.length
  | [], c, h => by unfold psoSweep; exact ⟨h, Rat.le_refl, rfl, rfl⟩
  | f :: fs, c, ⟨hg, hf⟩ => by
    unfold psoSweep
    simp only
    split
    · rename_i hv
      have hg' := good_upd (val := val) hg
      have hb := @upd_best_le val c
      have hbv := @upd_best_le_val val c
      obtain ⟨⟨ig, ifs⟩, ib, ie, il⟩ := psoSweep_inv val fs _
        ⟨hg', fun x hx => Rat.le_trans hb (hf x (List.mem_cons_of_mem _ hx))⟩
      refine ⟨⟨ig, ?_⟩, Rat.le_trans ib hb, ?_, by simp [il]⟩
      · intro x hx
        rcases List.mem_cons.1 hx with rfl | hx
        · exact Rat.le_trans ib hbv
        · exact ifs x hx
      · rw [ie]; by_cases hv' : val c.evals < c.best <;> simp [hv', Core.take, Core.skip] <;> omega
    · rename_i hv
      have hfb : c.best ≤ f := hf f List.mem_cons_self
      have hg' := good_skip (val := val) hg (by grind)
      obtain ⟨⟨ig, ifs⟩, ib, ie, il⟩ := psoSweep_inv val fs c.skip
        ⟨hg', fun x hx => by simpa [Core.skip] using hf x (List.mem_cons_of_mem _ hx)⟩
      have ib' : (psoSweep val fs c.skip).2.best ≤ c.best := by simpa [Core.skip] using ib
      refine ⟨⟨ig, ?_⟩, ib', ?_, by simp [il]⟩
      · intro x hx
        rcases List.mem_cons.1 hx with rfl | hx
        · exact Rat.le_trans ib' hfb
        · exact ifs x hx
      · rw [ie]; simp [Core.skip]; omega

def PopStInv (val : Nat → Rat) (n : Nat) (s : PopSt) : Prop :=
  PopInv val s.core s.fits ∧ s.fits.length = n

theorem popInv_init (val : Nat → Rat) (n : Nat) (hn : 1 ≤ n) : PopStInv val n (popInit val n) := by
  refine ⟨⟨good_startCore val n, ?_⟩, by simp [popInit, startFits]⟩
  intro x hx
  simp only [popInit, startFits, List.mem_map, List.mem_range] at hx
  obtain ⟨k, hk, rfl⟩ := hx
  exact (good_startCore val n).le_all k (by rw [startCore_evals val n hn]; exact hk)

/-! ### extending a `Good` record over a block of evaluations -/

theorem good_extend {val : Nat → Rat} {c : Core} (h : Good val c) (e : Nat) (he : c.evals ≤ e)
    (hall : ∀ k, c.evals ≤ k → k < e → c.best ≤ val k) : Good val { c with evals := e } := by
  refine ⟨Nat.lt_of_lt_of_le h.idx_lt he, h.attained, ?_⟩
  intro k hk
  by_cases hk' : k < c.evals
  · exact h.le_all k hk'
  · exact hall k (by omega) hk

theorem good_replace {val : Nat → Rat} {c : Core} (h : Good val c) (b : Rat) (i e : Nat)
    (hi : i < e) (hv : val i = b) (hb : b ≤ c.best)
    (hall : ∀ k, c.evals ≤ k → k < e → b ≤ val k) : Good val ⟨b, i, e⟩ := by
  refine ⟨hi, hv, ?_⟩
  intro k hk
  by_cases hk' : k < c.evals
  · exact Rat.le_trans hb (h.le_all k hk')
  · exact hall k (by omega) hk

/-! ### tabu_search -/

/-- `best_neighbor_obj ≤ x` (false while it still is `inf`). -/
def bnLe (bn : Option (Rat × Nat × Nat)) (x : Rat) : Prop :=
  match bn with
  | none => False
  | some (b, _, _) => b ≤ x

/-- invariant of the candidate loop over evaluations `e0 … e-1` -/
def ScanInv (val : Nat → Rat) (best : Rat) (e0 e : Nat) (bn : Option (Rat × Nat × Nat)) : Prop :=
  (∀ k, e0 ≤ k → k < e → best ≤ val k ∨ bnLe bn (val k)) ∧
  (∀ b i m, bn = some (b, i, m) → e0 ≤ i ∧ i < e ∧ val i = b)

theorem tabuScan_spec (val : Nat → Rat) (best : Rat) (tset : List Nat) (e0 : Nat) :
    ∀ (ms : List Nat) (e : Nat) (bn : Option (Rat × Nat × Nat)), e0 ≤ e → ScanInv val best e0 e bn →
      (tabuScan val best tset ms e bn).1 = e + ms.length ∧
      ScanInv val best e0 (tabuScan val best tset ms e bn).1 (tabuScan val best tset ms e bn).2
  | [], e, bn, _, h => by simpa [tabuScan] using h
  | m :: ms, e, bn, he, ⟨h1, h2⟩ => by
    unfold tabuScan
    simp only
    have key : ∀ bn', ScanInv val best e0 (e + 1) bn' →
        (tabuScan val best tset ms (e + 1) bn').1 = e + (m :: ms).length ∧
        ScanInv val best e0 (tabuScan val best tset ms (e + 1) bn').1
          (tabuScan val best tset ms (e + 1) bn').2 := by
      intro bn' hinv
      obtain ⟨a, b⟩ := tabuScan_spec val best tset e0 ms (e + 1) bn' (by omega) hinv
      exact ⟨by rw [a]; simp; omega, b⟩
    split
    · rename_i hskip
      apply key
      refine ⟨?_, fun b i m' hb => by obtain ⟨x, y, z⟩ := h2 b i m' hb; exact ⟨x, by omega, z⟩⟩
      intro k hk0 hk
      by_cases hk' : k < e
      · exact h1 k hk0 hk'
      · have : k = e := by omega
        subst this; exact Or.inl hskip.2
    · cases bn with
      | none =>
        simp only
        apply key
        refine ⟨?_, ?_⟩
        · intro k hk0 hk
          by_cases hk' : k < e
          · rcases h1 k hk0 hk' with h | h
            · exact Or.inl h
            · exact absurd h (by simp [bnLe])
          · have : k = e := by omega
            subst this; exact Or.inr (by simp [bnLe])
        · intro b i m' hb
          simp only [Option.some.injEq, Prod.mk.injEq] at hb
          obtain ⟨rfl, rfl, rfl⟩ := hb
          exact ⟨he, by omega, rfl⟩
      | some t =>
        obtain ⟨b, i, mv⟩ := t
        simp only
        split
        · rename_i hlt
          apply key
          refine ⟨?_, ?_⟩
          · intro k hk0 hk
            by_cases hk' : k < e
            · rcases h1 k hk0 hk' with h | h
              · exact Or.inl h
              · right; simp only [bnLe] at h ⊢; grind
            · have : k = e := by omega
              subst this; exact Or.inr (by simp [bnLe])
          · intro b' i' m' hb
            simp only [Option.some.injEq, Prod.mk.injEq] at hb
            obtain ⟨rfl, rfl, rfl⟩ := hb
            exact ⟨he, by omega, rfl⟩
        · rename_i hge
          apply key
          refine ⟨?_, fun b' i' m' hb => by obtain ⟨x, y, z⟩ := h2 b' i' m' hb; exact ⟨x, by omega, z⟩⟩
          intro k hk0 hk
          by_cases hk' : k < e
          · exact h1 k hk0 hk'
          · have : k = e := by omega
            subst this; right; simp only [bnLe]; grind

theorem tabu_good_step (val : Nat → Rat) (cooldown mni stopAt : Nat) (s : TabuSt) (ms : List Nat)
    (h : Good val s.core) : Good val (tabuStep val cooldown mni stopAt s ms).core := by
  unfold tabuStep
  split
  · exact h
  · simp only
    split
    · exact h
    · obtain ⟨he, hinv⟩ := tabuScan_spec val s.core.best s.tabuSet s.core.evals ms s.core.evals none
        (Nat.le_refl _) ⟨fun k a b => by omega, fun b i m hb => by simp at hb⟩
      split
      · rename_i e heq
        rw [heq] at he hinv
        simp only at he hinv
        refine good_extend h e (by omega) ?_
        intro k hk0 hk
        rcases hinv.1 k hk0 hk with h' | h'
        · exact h'
        · exact absurd h' (by simp [bnLe])
      · rename_i e b i mv heq
        rw [heq] at he hinv
        simp only at he hinv
        obtain ⟨hi0, hie, hvi⟩ := hinv.2 b i mv rfl
        simp only
        by_cases hb : b < s.core.best
        · simp only [hb, decide_true, if_true]
          refine good_replace h b i e hie hvi (by grind) ?_
          intro k hk0 hk
          rcases hinv.1 k hk0 hk with h' | h'
          · grind
          · simpa [bnLe] using h'
        · simp only [hb, decide_false]
          refine good_extend h e (by omega) ?_
          intro k hk0 hk
          rcases hinv.1 k hk0 hk with h' | h'
          · exact h'
          · simp only [bnLe] at h'; grind

theorem foldl_inv {σ α : Type} (P : σ → Prop) (f : σ → α → σ) (h : ∀ s a, P s → P (f s a)) :
    ∀ (l : List α) (s : σ), P s → P (l.foldl f s)
  | [], _, hs => hs
  | a :: l, s, hs => foldl_inv P f h l (f s a) (h s a hs)

end Solvor.Search
