import Solvor.Search.Model
/-! Search: helper lemmas (invariants of the bookkeeping skeletons). -/
namespace Solvor.Search

/-- `c` is a faithful best-so-far record of the first `c.evals` values of the stream: the
recorded best is the value of the recorded evaluation and no evaluated value is smaller. -/
structure Good (val : Nat → Rat) (c : Core) : Prop where
  idx_lt : c.bestIdx < c.evals
  attained : val c.bestIdx = c.best
  le_all : ∀ k, k < c.evals → c.best ≤ val k

/-- User-facing reading of `Good`: the reported objective is the user's objective at the returned
solution, in the user's sign, and at least as good as every evaluated point (start points are
evaluations `0 …`). -/
def Faithful (minimize : Bool) (f : Nat → Rat) (o : Outcome) : Prop :=
  o.solIdx < o.evaluations ∧ o.objective = f o.solIdx ∧
    ∀ k, k < o.evaluations → if minimize then o.objective ≤ f k else f k ≤ o.objective

theorem iter_inv {σ : Type} (P : σ → Prop) (f : σ → σ) (h : ∀ s, P s → P (f s)) :
    ∀ n s, P s → P (iter f n s)
  | 0, _, hs => hs
  | n + 1, s, hs => iter_inv P f h n (f s) (h s hs)

theorem good_init (val : Nat → Rat) : Good val (Core.init val) :=
  ⟨by simp [Core.init], by simp [Core.init], by
    intro k hk; simp [Core.init] at hk ⊢; subst hk; exact Rat.le_refl⟩

theorem good_take {val : Nat → Rat} {c : Core} (h : Good val c) (hv : val c.evals < c.best) :
    Good val (c.take (val c.evals)) := by
  refine ⟨by simp [Core.take], by simp [Core.take], ?_⟩
  intro k hk
  simp only [Core.take] at hk ⊢
  by_cases hk' : k < c.evals
  · have := h.le_all k hk'; grind
  · have : k = c.evals := by omega
    subst this; exact Rat.le_refl

theorem good_skip {val : Nat → Rat} {c : Core} (h : Good val c) (hv : c.best ≤ val c.evals) :
    Good val c.skip := by
  refine ⟨by have := h.idx_lt; simp [Core.skip]; omega, by simpa [Core.skip] using h.attained, ?_⟩
  intro k hk
  simp only [Core.skip] at hk ⊢
  by_cases hk' : k < c.evals
  · exact h.le_all k hk'
  · have : k = c.evals := by omega
    subst this; exact hv

theorem good_obs {val : Nat → Rat} {c : Core} (h : Good val c) : Good val (c.obs val) := by
  unfold Core.obs
  split
  · exact good_take h (by assumption)
  · exact good_skip h (by grind)

/-- the update written inside an accepted branch (`if v < best: …`) -/
theorem good_upd {val : Nat → Rat} {c : Core} (h : Good val c) :
    Good val (if val c.evals < c.best then c.take (val c.evals) else c.skip) := good_obs h

theorem obs_best_le {val : Nat → Rat} {c : Core} : (c.obs val).best ≤ c.best := by
  unfold Core.obs Core.take Core.skip; split <;> grind

theorem obs_evals {val : Nat → Rat} {c : Core} : (c.obs val).evals = c.evals + 1 := by
  unfold Core.obs Core.take Core.skip; split <;> rfl

theorem upd_best_le {val : Nat → Rat} {c : Core} :
    (if val c.evals < c.best then c.take (val c.evals) else c.skip).best ≤ c.best := obs_best_le

theorem upd_best_le_val {val : Nat → Rat} {c : Core} :
    (if val c.evals < c.best then c.take (val c.evals) else c.skip).best ≤ val c.evals := by
  unfold Core.take Core.skip; split <;> grind

/-! ### sign handling -/

theorem sgn_mul_self (m : Bool) : sgn m * sgn m = 1 := by cases m <;> simp [sgn] <;> grind

theorem toUser_internal (m : Bool) (x : Rat) : toUser m (sgn m * x) = x := by
  cases m <;> simp [toUser, sgn] <;> grind

theorem good_faithful {m : Bool} {f : Nat → Rat} {c : Core} (h : Good (internal m f) c) :
    Faithful m f (c.outcome m) := by
  refine ⟨h.idx_lt, ?_, ?_⟩
  · have := h.attained
    simp only [Core.outcome, internal] at this ⊢
    rw [← this]; exact toUser_internal m _
  · intro k hk
    have h1 := h.le_all k hk
    have h2 := h.attained
    simp only [Core.outcome, internal, toUser] at *
    cases m <;> simp [sgn] at * <;> grind

theorem internal_mirror (f : Nat → Rat) : internal false f = internal true (fun k => -f k) := by
  funext k; simp [internal, sgn]

theorem outcome_mirror (c : Core) : c.outcome false = (c.outcome true).neg := by
  simp [Core.outcome, Outcome.neg, toUser, sgn]

/-! ### anneal -/

def AnnealInv (val : Nat → Rat) (s : AnnealSt) : Prop := Good val s.core ∧ s.core.best ≤ s.cur

theorem annealInv_init (val : Nat → Rat) : AnnealInv val (annealInit val) :=
  ⟨good_init val, by simp [annealInit, Core.init]; exact Rat.le_refl⟩

theorem annealInv_step (val : Nat → Rat) (coin : Nat → Bool) (s : AnnealSt) (h : AnnealInv val s) :
    AnnealInv val (annealStep val coin s) := by
  obtain ⟨hg, hc⟩ := h
  unfold annealStep
  simp only
  split
  · exact ⟨good_upd hg, upd_best_le_val⟩
  · rename_i hn
    refine ⟨good_skip hg ?_, by simpa [Core.skip] using hc⟩
    grind

theorem anneal_evals_step (val : Nat → Rat) (coin : Nat → Bool) (s : AnnealSt) :
    (annealStep val coin s).core.evals = s.core.evals + 1 := by
  unfold annealStep Core.take Core.skip
  simp only
  split <;> (try split) <;> rfl

/-! ### lns / alns -/

def LnsInv (val : Nat → Rat) (s : LnsSt) : Prop :=
  Good val s.core ∧ s.core.best ≤ s.cur ∧ s.core.evals = s.iteration + 1

theorem lnsInv_init (val : Nat → Rat) : LnsInv val (lnsInit val) :=
  ⟨good_init val, by simp [lnsInit, Core.init]; exact Rat.le_refl, by simp [lnsInit, Core.init]⟩

theorem lnsInv_step (val : Nat → Rat) (coin : Nat → Bool) (acc : Accept) (mni stopAt : Nat)
    (s : LnsSt) (h : LnsInv val s) : LnsInv val (lnsStep val coin acc mni stopAt s) := by
  obtain ⟨hg, hc, he⟩ := h
  unfold lnsStep
  split
  · exact ⟨hg, hc, he⟩
  · simp only
    refine ⟨?_, ?_, ?_⟩
    · have := good_upd hg
      simpa [decide_eq_true_eq] using this
    · split
      · have := @upd_best_le_val val s.core
        simpa [decide_eq_true_eq] using this
      · have := @upd_best_le val s.core
        have h2 : (if decide (val s.core.evals < s.core.best) = true then s.core.take (val s.core.evals)
            else s.core.skip).best ≤ s.core.best := by simpa [decide_eq_true_eq] using this
        exact Rat.le_trans h2 hc
    · by_cases hv : val s.core.evals < s.core.best <;> simp [hv, Core.take, Core.skip, he]

/-- the acceptance rule never refuses a candidate that improves on the current solution -/
def Accept.RespectsImprovement (acc : Accept) (coin : Nat → Bool) (val : Nat → Rat) : Prop :=
  ∀ (cur : Rat) (k : Nat), val k < cur → acc.says cur (val k) (coin k) = true

theorem respects_of_builtin (acc : Accept) (h : acc ≠ .custom) (coin : Nat → Bool) (val : Nat → Rat) :
    acc.RespectsImprovement coin val := by
  intro cur k hk
  cases acc <;> simp_all [Accept.says]

theorem lnsInv_stepOrig (val : Nat → Rat) (coin : Nat → Bool) (acc : Accept) (mni stopAt : Nat)
    (hacc : acc.RespectsImprovement coin val)
    (s : LnsSt) (h : LnsInv val s) : LnsInv val (lnsStepOrig val coin acc mni stopAt s) := by
  obtain ⟨hg, hc, he⟩ := h
  unfold lnsStepOrig
  split
  · exact ⟨hg, hc, he⟩
  · simp only
    split
    · refine ⟨?_, ?_, ?_⟩
      · have := good_upd hg
        simpa [decide_eq_true_eq] using this
      · have := @upd_best_le_val val s.core
        simpa [decide_eq_true_eq] using this
      · by_cases hv : val s.core.evals < s.core.best <;> simp [hv, Core.take, Core.skip, he]
    · rename_i hrej
      refine ⟨good_skip hg ?_, by simpa [Core.skip] using hc, by simp [Core.skip, he]⟩
      -- a rejected candidate is not better than the current solution, hence not better than best
      have : ¬ val s.core.evals < s.cur := fun hlt => hrej (hacc s.cur s.core.evals hlt)
      grind

theorem alnsInv_step (val : Nat → Rat) (coin : Nat → Bool) (acc : Accept) (mni stopAt : Nat)
    (s : LnsSt) (h : LnsInv val s) : LnsInv val (alnsStep val coin acc mni stopAt s) := by
  obtain ⟨hg, hc, he⟩ := h
  unfold alnsStep
  split
  · exact ⟨hg, hc, he⟩
  · simp only
    split
    · rename_i hv
      exact ⟨good_take hg hv, by simp [Core.take]; exact Rat.le_refl, by simp [Core.take, he]⟩
    · rename_i hv
      have hle : s.core.best ≤ val s.core.evals := by grind
      split
      · exact ⟨good_skip hg hle, by simpa [Core.skip] using hle, by simp [Core.skip, he]⟩
      · split
        · exact ⟨good_skip hg hle, by simpa [Core.skip] using hle, by simp [Core.skip, he]⟩
        · exact ⟨good_skip hg hle, by simpa [Core.skip] using hc, by simp [Core.skip, he]⟩

/-! ### start points, bayesian_opt -/

theorem good_iter_obs (val : Nat → Rat) (n : Nat) (c : Core) (h : Good val c) :
    Good val (iter (Core.obs val) n c) :=
  iter_inv (Good val) _ (fun _ hs => good_obs hs) n c h

theorem evals_iter_obs (val : Nat → Rat) : ∀ (n : Nat) (c : Core),
    (iter (Core.obs val) n c).evals = c.evals + n
  | 0, _ => rfl
  | n + 1, c => by
    show (iter (Core.obs val) n (c.obs val)).evals = _
    rw [evals_iter_obs val n, obs_evals]; omega

theorem good_startCore (val : Nat → Rat) (n : Nat) : Good val (startCore val n) :=
  good_iter_obs val _ _ (good_init val)

theorem startCore_evals (val : Nat → Rat) (n : Nat) (hn : 1 ≤ n) : (startCore val n).evals = n := by
  unfold startCore; rw [evals_iter_obs]; simp [Core.init]; omega

/-! ### differential_evolution / particle_swarm -/

/-- every fitness / personal-best entry belongs to an evaluated point, so `best ≤` each of them -/
def PopInv (val : Nat → Rat) (c : Core) (fits : List Rat) : Prop :=
  Good val c ∧ ∀ x ∈ fits, c.best ≤ x

theorem deSweep_inv (val : Nat → Rat) : ∀ (fits : List Rat) (c : Core), PopInv val c fits →
    PopInv val (deSweep val fits c).2 (deSweep val fits c).1 ∧
    (deSweep val fits c).2.best ≤ c.best ∧
    (deSweep val fits c).2.evals = c.evals + fits.length ∧
    (deSweep val fits c).1.length = fits.length
  | [], c, h => by simpa [deSweep] using ⟨h, Rat.le_refl⟩
  | f :: fs, c, ⟨hg, hf⟩ => by
    unfold deSweep
    simp only
    split
    · rename_i hv
      have hg' := good_upd (val := val) hg
      have hb := @upd_best_le val c
      have hbv := @upd_best_le_val val c
      obtain ⟨⟨ig, ifs⟩, ib, ie, il⟩ := deSweep_inv val fs _
        ⟨hg', fun x hx => Rat.le_trans hb (hf x (List.mem_cons_of_mem _ hx))⟩
      refine ⟨⟨ig, ?_⟩, Rat.le_trans ib hb, ?_, by simp [il]⟩
      · intro x hx
        rcases List.mem_cons.1 hx with rfl | hx
        · exact Rat.le_trans ib hbv
        · exact ifs x hx
      · rw [ie]; by_cases hv' : val c.evals < c.best <;> simp [hv', Core.take, Core.skip] <;> omega
    · rename_i hv
      have hfb : c.best ≤ f := hf f List.mem_cons_self
      have hg' := good_skip (val := val) hg (by grind)
      obtain ⟨⟨ig, ifs⟩, ib, ie, il⟩ := deSweep_inv val fs c.skip
        ⟨hg', fun x hx => by simpa [Core.skip] using hf x (List.mem_cons_of_mem _ hx)⟩
      have ib' : (deSweep val fs c.skip).2.best ≤ c.best := by simpa [Core.skip] using ib
      refine ⟨⟨ig, ?_⟩, ib', ?_, by simp [il]⟩
      · intro x hx
        rcases List.mem_cons.1 hx with rfl | hx
        · exact Rat.le_trans ib' hfb
        · exact ifs x hx
      · rw [ie]; simp [Core.skip]; omega

theorem psoSweep_inv (val : Nat → Rat) : ∀ (fits : List Rat) (c : Core), PopInv val c fits →
    PopInv val (psoSweep val fits c).2 (psoSweep val fits c).1 ∧
    (psoSweep val fits c).2.best ≤ c.best ∧
    (psoSweep val fits c).2.evals = c.evals + fits.length ∧
    (psoSweep val fits c).1.length = fits.length
  | [], c, h => by simpa [psoSweep] using ⟨h, Rat.le_refl⟩
  | f :: fs, c, ⟨hg, hf⟩ => by
    unfold psoSweep
    simp only
    split
    · rename_i hv
      have hg' := good_upd (val := val) hg
      have hb := @upd_best_le val c
      have hbv := @upd_best_le_val val c
      obtain ⟨⟨ig, ifs⟩, ib, ie, il⟩ := psoSweep_inv val fs _
        ⟨hg', fun x hx => Rat.le_trans hb (hf x (List.mem_cons_of_mem _ hx))⟩
      refine ⟨⟨ig, ?_⟩, Rat.le_trans ib hb, ?_, by simp [il]⟩
      · intro x hx
        rcases List.mem_cons.1 hx with rfl | hx
        · exact Rat.le_trans ib hbv
        · exact ifs x hx
      · rw [ie]; by_cases hv' : val c.evals < c.best <;> simp [hv', Core.take, Core.skip] <;> omega
    · rename_i hv
      have hfb : c.best ≤ f := hf f List.mem_cons_self
      have hg' := good_skip (val := val) hg (by grind)
      obtain ⟨⟨ig, ifs⟩, ib, ie, il⟩ := psoSweep_inv val fs c.skip
        ⟨hg', fun x hx => by simpa [Core.skip] using hf x (List.mem_cons_of_mem _ hx)⟩
      have ib' : (psoSweep val fs c.skip).2.best ≤ c.best := by simpa [Core.skip] using ib
      refine ⟨⟨ig, ?_⟩, ib', ?_, by simp [il]⟩
      · intro x hx
        rcases List.mem_cons.1 hx with rfl | hx
        · exact Rat.le_trans ib' hfb
        · exact ifs x hx
      · rw [ie]; simp [Core.skip]; omega

def PopStInv (val : Nat → Rat) (n : Nat) (s : PopSt) : Prop :=
  PopInv val s.core s.fits ∧ s.fits.length = n

theorem popInv_init (val : Nat → Rat) (n : Nat) (hn : 1 ≤ n) : PopStInv val n (popInit val n) := by
  refine ⟨⟨good_startCore val n, ?_⟩, by simp [popInit, startFits]⟩
  intro x hx
  simp only [popInit, startFits, List.mem_map, List.mem_range] at hx
  obtain ⟨k, hk, rfl⟩ := hx
  exact (good_startCore val n).le_all k (by rw [startCore_evals val n hn]; exact hk)

end Solvor.Search
