/-! Constants of area Net, regenerated from /repo on every run by harness/kernels.py. -/
namespace Solvor.Gen.Net
/-- source literal `0.85`; `…_dec` is the decimal as written, `…_bits` the IEEE double. -/
def prDamping_dec : Rat := (17 : Rat) / 20
def prDamping : Rat := (7656119366529843 : Rat) / 9007199254740992
def prDamping_bits : UInt64 := 4605831338911806259
def prMaxIter : Int := 100
/-- source literal `1e-06`; `…_dec` is the decimal as written, `…_bits` the IEEE double. -/
def prTol_dec : Rat := (1 : Rat) / 1000000
def prTol : Rat := (4722366482869645 : Rat) / 4722366482869645213696
def prTol_bits : UInt64 := 4517329193108106637
/-- source literal `1.0`; `…_dec` is the decimal as written, `…_bits` the IEEE double. -/
def lvResolution_dec : Rat := (1 : Rat) / 1
def lvResolution : Rat := (1 : Rat) / 1
def lvResolution_bits : UInt64 := 4607182418800017408
end Solvor.Gen.Net
