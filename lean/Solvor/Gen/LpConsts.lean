/-! Constants of area Lp, regenerated from /repo on every run by harness/kernels.py. -/
namespace Solvor.Gen.Lp
/-- source literal `1e-10`; `…_dec` is the decimal as written, `…_bits` the IEEE double. -/
def lpEps_dec : Rat := (1 : Rat) / 10000000000
def lpEps : Rat := (7737125245533627 : Rat) / 77371252455336267181195264
def lpEps_bits : UInt64 := 4457293557087583675
def lpMaxIter : Int := 100000
/-- source literal `1e-08`; `…_dec` is the decimal as written, `…_bits` the IEEE double. -/
def ipmEps_dec : Rat := (1 : Rat) / 100000000
def ipmEps : Rat := (3022314549036573 : Rat) / 302231454903657293676544
def ipmEps_bits : UInt64 := 4487126258331716666
def ipmMaxIter : Int := 100
/-- source literal `0.01`; `…_dec` is the decimal as written, `…_bits` the IEEE double. -/
def ipmFeasResidual_dec : Rat := (1 : Rat) / 100
def ipmFeasResidual : Rat := (5764607523034235 : Rat) / 576460752303423488
def ipmFeasResidual_bits : UInt64 := 4576918229304087675
/-- source literal `1e-06`; `…_dec` is the decimal as written, `…_bits` the IEEE double. -/
def milpEps_dec : Rat := (1 : Rat) / 1000000
def milpEps : Rat := (4722366482869645 : Rat) / 4722366482869645213696
def milpEps_bits : UInt64 := 4517329193108106637
/-- source literal `1e-06`; `…_dec` is the decimal as written, `…_bits` the IEEE double. -/
def milpGapTol_dec : Rat := (1 : Rat) / 1000000
def milpGapTol : Rat := (4722366482869645 : Rat) / 4722366482869645213696
def milpGapTol_bits : UInt64 := 4517329193108106637
def milpMaxIter : Int := 10000
def milpMaxNodes : Int := 100000
end Solvor.Gen.Lp
