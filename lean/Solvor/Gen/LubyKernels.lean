/-! REGENERATED from /repo's working tree on every run by harness/kernels.py — do not edit.
The Luby loop exactly as the source has it now. -/
namespace Solvor.Gen

/-- Body of `luby`'s `while True` loop, one iteration per unit of fuel (0 when fuel runs out;
`luby_fuel` in Sat/Theorems shows `2 * i + 2` always suffices). Subtractions are on `Nat`; the
guards in the source make every one of them exact. -/
def lubyLoop : Nat → Nat → Nat → Nat
  | 0, _, _ => 0
  | fuel + 1, i, k => if i = ((1 <<< k) - 1) then (1 <<< (k - 1)) else if i < ((1 <<< k) - 1) then lubyLoop fuel (i - ((1 <<< (k - 1)) - 1)) 1 else lubyLoop fuel i (k + 1)
def lubyK0 : Nat := 1

end Solvor.Gen
