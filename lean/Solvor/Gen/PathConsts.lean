/-! Constants of area Path, regenerated from /repo on every run by harness/kernels.py. -/
namespace Solvor.Gen.Path
def dijkstraMaxIter : Int := 1000000
def astarMaxIter : Int := 1000000
def astarGridMaxIter : Int := 1000000
def bfsMaxIter : Int := 1000000
def dfsMaxIter : Int := 1000000
end Solvor.Gen.Path
