/-! Constants of area Sched, regenerated from /repo on every run by harness/kernels.py. -/
namespace Solvor.Gen.Sched
/-- source literal `1000.0`; `…_dec` is the decimal as written, `…_bits` the IEEE double. -/
def sync_missing_dec : Rat := (1000 : Rat) / 1
def sync_missing : Rat := (1000 : Rat) / 1
def sync_missing_bits : UInt64 := 4652007308841189376
/-- source literal `1.0`; `…_dec` is the decimal as written, `…_bits` the IEEE double. -/
def distance_weight_dec : Rat := (1 : Rat) / 1
def distance_weight : Rat := (1 : Rat) / 1
def distance_weight_bits : UInt64 := 4607182418800017408
/-- source literal `0.0`; `…_dec` is the decimal as written, `…_bits` the IEEE double. -/
def vehicle_weight_dec : Rat := (0 : Rat) / 1
def vehicle_weight : Rat := (0 : Rat) / 1
def vehicle_weight_bits : UInt64 := 0
/-- source literal `1000.0`; `…_dec` is the decimal as written, `…_bits` the IEEE double. -/
def tw_penalty_dec : Rat := (1000 : Rat) / 1
def tw_penalty : Rat := (1000 : Rat) / 1
def tw_penalty_bits : UInt64 := 4652007308841189376
/-- source literal `1000.0`; `…_dec` is the decimal as written, `…_bits` the IEEE double. -/
def capacity_penalty_dec : Rat := (1000 : Rat) / 1
def capacity_penalty : Rat := (1000 : Rat) / 1
def capacity_penalty_bits : UInt64 := 4652007308841189376
/-- source literal `10000.0`; `…_dec` is the decimal as written, `…_bits` the IEEE double. -/
def sync_penalty_dec : Rat := (10000 : Rat) / 1
def sync_penalty : Rat := (10000 : Rat) / 1
def sync_penalty_bits : UInt64 := 4666723172467343360
/-- source literal `100000.0`; `…_dec` is the decimal as written, `…_bits` the IEEE double. -/
def unassigned_penalty_dec : Rat := (100000 : Rat) / 1
def unassigned_penalty : Rat := (100000 : Rat) / 1
def unassigned_penalty_bits : UInt64 := 4681608360884174848
def js_max_no_improve : Int := 100
end Solvor.Gen.Sched
