/-! Constants of area Mst, regenerated from /repo on every run by harness/kernels.py. -/
namespace Solvor.Gen.Mst
def kruskalAllowForest : Bool := false
def kruskalBreakOffset : Int := 1
def kruskalShortOffset : Int := 1
end Solvor.Gen.Mst
