/-! REGENERATED from /repo's working tree on every run by harness/kernels.py — do not edit.
The Fenwick index walks exactly as the source has it now. -/
namespace Solvor.Gen

/-- `j = …` in `FenwickTree.__init__` (parent that absorbs `tree[i]`). -/
def fenBuildParent (i : Nat) : Nat := (i ||| (i + 1))
/-- index step of `FenwickTree.update` (loop runs while `i < n`). -/
def fenUp (i : Nat) : Nat := (i ||| (i + 1))
/-- `E` in the index step `i = E - 1` of `FenwickTree.prefix` (loop runs while `i ≥ 0`). -/
def fenDownBase (i : Nat) : Nat := (i &&& (i + 1))

end Solvor.Gen
