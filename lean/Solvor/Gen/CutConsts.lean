/-! Constants of area Cut, regenerated from /repo on every run by harness/kernels.py. -/
namespace Solvor.Gen.Cut
/-- source literal `1e-09`; `…_dec` is the decimal as written, `…_bits` the IEEE double. -/
def cgEps_dec : Rat := (1 : Rat) / 1000000000
def cgEps : Rat := (4835703278458517 : Rat) / 4835703278458516698824704
def cgEps_bits : UInt64 := 4472406533629990549
def cgMaxIter : Int := 1000
/-- source literal `1e-09`; `…_dec` is the decimal as written, `…_bits` the IEEE double. -/
def bpEps_dec : Rat := (1 : Rat) / 1000000000
def bpEps : Rat := (4835703278458517 : Rat) / 4835703278458516698824704
def bpEps_bits : UInt64 := 4472406533629990549
/-- source literal `1e-06`; `…_dec` is the decimal as written, `…_bits` the IEEE double. -/
def bpGapTol_dec : Rat := (1 : Rat) / 1000000
def bpGapTol : Rat := (4722366482869645 : Rat) / 4722366482869645213696
def bpGapTol_bits : UInt64 := 4517329193108106637
def pricingScale : Int := 100
def simplexCap : Int := 100000
end Solvor.Gen.Cut
