/-! Constants of area Backend, regenerated from /repo on every run by harness/kernels.py. -/
namespace Solvor.Gen.Backend
/-- source literal `0.85`; `…_dec` is the decimal as written, `…_bits` the IEEE double. -/
def pyPrDamping_dec : Rat := (17 : Rat) / 20
def pyPrDamping : Rat := (7656119366529843 : Rat) / 9007199254740992
def pyPrDamping_bits : UInt64 := 4605831338911806259
def pyPrMaxIter : Int := 100
/-- source literal `1e-06`; `…_dec` is the decimal as written, `…_bits` the IEEE double. -/
def pyPrTol_dec : Rat := (1 : Rat) / 1000000
def pyPrTol : Rat := (4722366482869645 : Rat) / 4722366482869645213696
def pyPrTol_bits : UInt64 := 4517329193108106637
/-- source literal `0.85`; `…_dec` is the decimal as written, `…_bits` the IEEE double. -/
def rsPrDamping_dec : Rat := (17 : Rat) / 20
def rsPrDamping : Rat := (7656119366529843 : Rat) / 9007199254740992
def rsPrDamping_bits : UInt64 := 4605831338911806259
def rsPrMaxIter : Int := 100
/-- source literal `1e-06`; `…_dec` is the decimal as written, `…_bits` the IEEE double. -/
def rsPrTol_dec : Rat := (1 : Rat) / 1000000
def rsPrTol : Rat := (4722366482869645 : Rat) / 4722366482869645213696
def rsPrTol_bits : UInt64 := 4517329193108106637
def pyFwDirected : Bool := true
def rsFwDirected : Bool := true
def pyKruskalAllowForest : Bool := false
def rsKruskalAllowForest : Bool := false
end Solvor.Gen.Backend
