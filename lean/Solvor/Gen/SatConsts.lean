/-! Constants of area Sat, regenerated from /repo on every run by harness/kernels.py. -/
namespace Solvor.Gen.Sat
/-- source literal `0.95`; `…_dec` is the decimal as written, `…_bits` the IEEE double. -/
def vsidsDecay_dec : Rat := (19 : Rat) / 20
def vsidsDecay : Rat := (4278419646001971 : Rat) / 4503599627370496
def vsidsDecay_bits : UInt64 := 4606732058837280358
def reduceDbThreshold : Int := 2000
def reduceDbKeepLbd : Int := 3
def defaultMaxConflicts : Int := 100000
def defaultMaxRestarts : Int := 10000
def defaultSolutionLimit : Int := 1
def defaultLubyFactor : Int := 100
end Solvor.Gen.Sat
