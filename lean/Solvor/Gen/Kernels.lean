/-! REGENERATED from /repo's working tree on every run by harness/kernels.py — do not edit.
The Status enum exactly as the source has it now. -/
namespace Solvor.Gen

inductive Status where
  | OPTIMAL
  | FEASIBLE
  | INFEASIBLE
  | UNBOUNDED
  | MAX_ITER
  deriving DecidableEq, Repr, Inhabited
def Status.toNat : Status → Nat
  | .OPTIMAL => 1
  | .FEASIBLE => 2
  | .INFEASIBLE => 3
  | .UNBOUNDED => 4
  | .MAX_ITER => 5
def Status.name : Status → String
  | .OPTIMAL => "OPTIMAL"
  | .FEASIBLE => "FEASIBLE"
  | .INFEASIBLE => "INFEASIBLE"
  | .UNBOUNDED => "UNBOUNDED"
  | .MAX_ITER => "MAX_ITER"

end Solvor.Gen
