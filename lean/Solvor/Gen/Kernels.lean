/-! REGENERATED from /repo's working tree on every run by harness/kernels.py — do not edit.
Fenwick index walks, the Luby loop and the Status enum exactly as the source has them now. -/
namespace Solvor.Gen

/-- `j = …` in `FenwickTree.__init__` (parent that absorbs `tree[i]`). -/
def fenBuildParent (i : Nat) : Nat := (i ||| (i + 1))
/-- index step of `FenwickTree.update` (loop runs while `i < n`). -/
def fenUp (i : Nat) : Nat := (i ||| (i + 1))
/-- `E` in the index step `i = E - 1` of `FenwickTree.prefix` (loop runs while `i ≥ 0`). -/
def fenDownBase (i : Nat) : Nat := (i &&& (i + 1))

/-- Body of `luby`'s `while True` loop, one iteration per unit of fuel (0 when fuel runs out;
`luby_fuel` in Sat/Theorems shows `2 * i + 2` always suffices). Subtractions are on `Nat`; the
guards in the source make every one of them exact. -/
def lubyLoop : Nat → Nat → Nat → Nat
  | 0, _, _ => 0
  | fuel + 1, i, k => if i = ((1 <<< k) - 1) then (1 <<< (k - 1)) else if i ≥ (1 <<< (k - 1)) then lubyLoop fuel (i - ((1 <<< (k - 1)) - 1)) 1 else lubyLoop fuel i (k + 1)
def lubyK0 : Nat := 1

inductive Status where
  | OPTIMAL
  | FEASIBLE
  | INFEASIBLE
  | UNBOUNDED
  | MAX_ITER
  deriving DecidableEq, Repr, Inhabited
def Status.toNat : Status → Nat
  | .OPTIMAL => 1
  | .FEASIBLE => 2
  | .INFEASIBLE => 3
  | .UNBOUNDED => 4
  | .MAX_ITER => 5
def Status.name : Status → String
  | .OPTIMAL => "OPTIMAL"
  | .FEASIBLE => "FEASIBLE"
  | .INFEASIBLE => "INFEASIBLE"
  | .UNBOUNDED => "UNBOUNDED"
  | .MAX_ITER => "MAX_ITER"

end Solvor.Gen
