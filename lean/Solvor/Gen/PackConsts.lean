/-! Constants of area Pack, regenerated from /repo on every run by harness/kernels.py. -/
namespace Solvor.Gen.Pack
def knapMaxCapacity : Int := 100000
/-- source literal `1000.0`; `…_dec` is the decimal as written, `…_bits` the IEEE double. -/
def knapMaxScale_dec : Rat := (1000 : Rat) / 1
def knapMaxScale : Rat := (1000 : Rat) / 1
def knapMaxScale_bits : UInt64 := 4652007308841189376
/-- source literal `1e-09`; `…_dec` is the decimal as written, `…_bits` the IEEE double. -/
def knapWeightTol_dec : Rat := (1 : Rat) / 1000000000
def knapWeightTol : Rat := (4835703278458517 : Rat) / 4835703278458516698824704
def knapWeightTol_bits : UInt64 := 4472406533629990549
end Solvor.Gen.Pack
