import Solvor.Gen.Kernels
import Solvor.Gen.PackConsts
/-!
Pack: executable models of `solvor/knapsack.py` (`solve_knapsack`) and `solvor/bin_pack.py`
(`solve_bin_pack`), plus the Bool checkers and definitional optima of the spec side (C16).

Every algorithmic part is written once over a record `Ops α` of scalar operations and instantiated
at `Rat` (`ratOps`: what the theorems talk about, exact arithmetic) and at `Float` (`floatOps`: the
same IEEE doubles CPython computes with; bit-level mirror used for R_trace).  The parts that exist
only in floating point (the weight scaling of `_to_int_capacity` / `_scaled`, the `+ 1e-9` weight
re-check) are `Float` functions.  No Mathlib imports.
-/
namespace Solvor.Pack
open Solvor.Gen (Status)

/-- Scalar operations the algorithms use (`lt`/`le`/`isZero` are the Python `<`, `<=`, `== 0`). -/
structure Ops (α : Type) where
  zero : α
  add : α → α → α
  sub : α → α → α
  div : α → α → α
  lt : α → α → Bool
  le : α → α → Bool
  isZero : α → Bool

def ratOps : Ops Rat :=
  ⟨0, (· + ·), (· - ·), (· / ·), fun a b => decide (a < b), fun a b => decide (a ≤ b), fun a => decide (a = 0)⟩

def floatOps : Ops Float :=
  ⟨0.0, (· + ·), (· - ·), (· / ·), fun a b => decide (a < b), fun a b => decide (a ≤ b), fun a => a == 0.0⟩

/-! ## Knapsack: the integer-capacity DP of `solve_knapsack` -/

section Knap
variable {α : Type} (o : Ops α)

/-- The inner loop `for w in range(int_capacity, w_i - 1, -1)` of one item `(wi, vi)`, updating
`dp` **in place**, backwards.  `m` is the number of iterations left; the current `w` is
`wi + (m - 1)`, so `dp[w - w_i]` is `dp[m - 1]`. -/
def passLoop (wi : Nat) (vi : α) : Nat → Array α → Array Bool → Array α × Array Bool
  | 0, dp, keep => (dp, keep)
  | m + 1, dp, keep =>
    let c := o.add (dp.getD m o.zero) vi
    if o.lt (dp.getD (wi + m) o.zero) c then       -- `dp[w - w_i] + v_i > dp[w]`
      passLoop wi vi m (dp.setIfInBounds (wi + m) c) (keep.setIfInBounds (wi + m) true)
    else passLoop wi vi m dp keep

/-- The outer loop `for i in range(n)`.  Items are `(int_weight, value)`; the `keep` rows are
accumulated in reverse (row of the last item first), which is the order the backtrack reads them. -/
def dpPasses (cap : Nat) : List (Nat × α) → Array α → List (Array Bool) → Array α × List (Array Bool)
  | [], dp, keeps => (dp, keeps)
  | (wi, vi) :: rest, dp, keeps =>
    let r := passLoop o wi vi (cap + 1 - wi) dp (Array.replicate (cap + 1) false)
    dpPasses cap rest r.1 (r.2 :: keeps)

/-- `for i in range(n - 1, -1, -1): if keep[i][w]: selected.append(i); w -= int_weights[i]`
followed by `selected.reverse()`.  Rows come last item first; the item's index is the number of
rows after it. -/
def backtrack : List (Array Bool × Nat) → Nat → List Nat → List Nat
  | [], _, acc => acc
  | (k, wi) :: rest, w, acc =>
    if k.getD w false then backtrack rest (w - wi) (rest.length :: acc) else backtrack rest w acc

/-- DP table and keep rows after all items. -/
def dpRun (items : List (Nat × α)) (cap : Nat) : Array α × List (Array Bool) :=
  dpPasses o cap items (Array.replicate (cap + 1) o.zero) []

/-- The DP part of `solve_knapsack` on integer weights / capacity: selected indices (increasing)
and `dp[int_capacity]`. -/
def knapInt (items : List (Nat × α)) (cap : Nat) : List Nat × α :=
  let r := dpRun o items cap
  (backtrack (r.2.zip (items.reverse.map (·.1))) cap [], r.1.getD cap o.zero)

/-! ### `_greedy_fallback` -/

/-- sort key `values[i] / weights[i] if weights[i] > 0 else inf` (`none` = `inf`) -/
def ratioKey (items : List (α × α)) (i : Nat) : Option α :=
  match items[i]? with
  | some (w, v) => if o.lt o.zero w then some (o.div v w) else none
  | none => none

def keyLt : Option α → Option α → Bool
  | some a, some b => o.lt a b
  | some _, none => true
  | none, _ => false

/-- the greedy scan `if weights[i] <= remaining: selected.append(i); remaining -= weights[i]` -/
def greedyScan (items : List (α × α)) : List Nat → α → List Nat → List Nat
  | [], _, acc => acc.reverse
  | i :: rest, remaining, acc =>
    match items[i]? with
    | some (w, _) =>
      if o.le w remaining then greedyScan items rest (o.sub remaining w) (i :: acc)
      else greedyScan items rest remaining acc
    | none => greedyScan items rest remaining acc

/-- `_greedy_fallback`: items are `(weight, value)` with the *original* values; stable sort by
ratio (ascending for `minimize`, `reverse=True` – stable descending – otherwise), greedy scan,
`selected.sort()`. -/
def greedyFallback (items : List (α × α)) (cap : α) (minimize : Bool) : List Nat :=
  let key := ratioKey o items
  let order := (List.range items.length).mergeSort fun i j =>
    if minimize then !(keyLt o (key j) (key i)) else !(keyLt o (key i) (key j))
  (greedyScan o items order cap []).mergeSort fun i j => decide (i ≤ j)

end Knap

/-! ### The floating-point front end of `solve_knapsack` (repaired code, see
`proposed_fixes/C16_*`): `_to_int_capacity`, `_scaled`, the weight re-check. -/

open Solvor.Gen.Pack in
def fMaxCapacity : Float := Float.ofInt knapMaxCapacity
open Solvor.Gen.Pack in
def fMaxScale : Float := Float.ofBits knapMaxScale_bits
open Solvor.Gen.Pack in
def fWeightTol : Float := Float.ofBits knapWeightTol_bits
/-- the `1e-9` of `_scaled` (bit pattern of the double `1e-09`) -/
def fScaleTol : Float := Float.ofBits 4472406533629990549

/-- `int(x)` for `x ≥ 0` -/
def fTrunc (x : Float) : Nat := x.toUInt64.toNat
/-- `v == int(v)` -/
def fIsInt (x : Float) : Bool := x == x.floor
/-- Python `min(a, b)` -/
def pyMin (a b : Float) : Float := if b < a then b else a

/-- `_scaled(x, scale)`: `x * scale` as an integer and whether nothing but float noise was dropped. -/
def fScaled (x scale : Float) : Nat × Bool :=
  let s := x * scale
  let nearest := Float.floor (s + 0.5)
  if Float.abs (s - nearest) ≤ fScaleTol then (fTrunc nearest, true) else (fTrunc s, false)

/-- `_to_int_capacity(capacity, weights)` -/
def fToIntCapacity (cap : Float) (wts : List Float) : Nat × Float :=
  if (cap :: wts.filter (fun w => 0.0 < w)).all fIsInt then (fTrunc cap, 1.0)
  else if cap ≤ 0.0 then (0, 1.0)
  else
    let scale := pyMin (fMaxCapacity / cap) fMaxScale
    ((fScaled cap scale).1, scale)

structure KnapRes where
  status : Status
  sel : List Nat
  fallback : Bool
  lossless : Bool
  intCap : Nat
  intWeights : List Nat

/-- Mirror of `solve_knapsack(values, weights, capacity, minimize=…)` on doubles.
`Except.error` = the exception class raised. -/
def knapMirror (vals wts : List Float) (cap : Float) (minimize : Bool) : Except String KnapRes :=
  if vals.length = 0 then .ok ⟨.OPTIMAL, [], false, true, 0, []⟩
  else if wts.length ≠ vals.length then .error "ValueError"
  else if cap < 0.0 then .error "ValueError"
  else
    let sign : Float := if minimize then -1.0 else 1.0
    let (intCap, scale) := fToIntCapacity cap wts
    let sc := wts.map fun w => if 0.0 < w then
        let r := fScaled w scale
        (max 1 r.1, r.2 && decide (1 ≤ r.1))
      else (0, true)
    let lossless := (fScaled cap scale).2 && sc.all (·.2)
    let intW := sc.map (·.1)
    let items := intW.zip (vals.map fun v => sign * v)
    let sel := (knapInt floatOps items intCap).1
    let totalWeight := sel.foldl (fun acc i => acc + wts.getD i 0.0) 0.0
    if cap + fWeightTol < totalWeight then
      .ok ⟨.FEASIBLE, greedyFallback floatOps (wts.zip vals) cap minimize, true, lossless, intCap, intW⟩
    else
      .ok ⟨if lossless then .OPTIMAL else .FEASIBLE, sel, false, lossless, intCap, intW⟩

/-! ### Knapsack, spec side (exact rationals): checker and definitional optimum.
Items are `(weight, value)`. -/

def selW (items : List (Rat × Rat)) (sel : List Nat) : Rat := (sel.map fun i => (items.getD i (0, 0)).1).sum
def selV (items : List (Rat × Rat)) (sel : List Nat) : Rat := (sel.map fun i => (items.getD i (0, 0)).2).sum

def nodupB : List Nat → Bool
  | [] => true
  | a :: l => !l.contains a && nodupB l

/-- Verified checker, feasibility part: distinct indices in range, weight within capacity. -/
def chkSel (items : List (Rat × Rat)) (cap : Rat) (sel : List Nat) : Bool :=
  nodupB sel && sel.all (· < items.length) && decide (selW items sel ≤ cap)

/-- Verified checker for an answer of `solve_knapsack`: feasible, and the reported objective
equals the sum of the values. -/
def chkKnapsack (items : List (Rat × Rat)) (cap : Rat) (sel : List Nat) (obj : Rat) : Bool :=
  chkSel items cap sel && decide (selV items sel = obj)

def optMax : Option Rat → Option Rat → Option Rat
  | none, b => b
  | a, none => a
  | some a, some b => some (if a < b then b else a)

/-- Definitional optimum: exhaustive take/skip enumeration (no pruning), items listed last item
first.  `none` = no subset fits (only when the capacity is negative). -/
def knapBestRev : List (Rat × Rat) → Rat → Option Rat
  | [], c => if 0 ≤ c then some 0 else none
  | (w, v) :: prev, c => optMax (knapBestRev prev c) ((knapBestRev prev (c - w)).map (· + v))

def knapBest (items : List (Rat × Rat)) (cap : Rat) : Option Rat := knapBestRev items.reverse cap

/-! ## Bin packing: `solve_bin_pack` -/

section BinPack
variable {α : Type} (o : Ops α)

/-- first-fit scan: `for b, (remaining, _) in enumerate(bins): if size <= remaining: … break` -/
def firstFit (size : α) : List α → Nat → Option Nat
  | [], _ => none
  | r :: rs, b => if o.le size r then some b else firstFit size rs (b + 1)

/-- best-fit scan: `if size <= remaining < best_remaining` (strict, so the first of equally
tight bins wins); `none` = `best_remaining = inf`. -/
def bestFit (size : α) : List α → Nat → Option (Nat × α) → Option (Nat × α)
  | [], _, best => best
  | r :: rs, b, best =>
    let better := o.le size r && (match best with | none => true | some (_, br) => o.lt r br)
    bestFit size rs (b + 1) (if better then some (b, r) else best)

structure PState (α : Type) where
  bins : List α        -- remaining capacity per open bin
  asg : List Nat       -- `assignments`

/-- body of `for item_idx in indices` -/
def place (cap : α) (useBest : Bool) (sizes : List α) (st : PState α) (i : Nat) : PState α :=
  let size := sizes.getD i o.zero
  if o.isZero size then
    ⟨if st.bins.isEmpty then [cap] else st.bins, st.asg.set i 0⟩
  else
    let choice := if useBest then (bestFit o size st.bins 0 none).map (·.1) else firstFit o size st.bins 0
    match choice with
    | some b => ⟨st.bins.set b (o.sub (st.bins.getD b o.zero) size), st.asg.set i b⟩
    | none => ⟨st.bins ++ [o.sub cap size], st.asg.set i st.bins.length⟩

/-- `sorted(range(n), key=lambda i: item_sizes[i], reverse=True)` (stable) or `range(n)` -/
def packOrder (sizes : List α) (decreasing : Bool) : List Nat :=
  if decreasing then
    (List.range sizes.length).mergeSort fun i j => !(o.lt (sizes.getD i o.zero) (sizes.getD j o.zero))
  else List.range sizes.length

def packRun (sizes : List α) (cap : α) (useBest decreasing : Bool) : PState α :=
  (packOrder o sizes decreasing).foldl (place o cap useBest sizes) ⟨[], List.replicate sizes.length 0⟩

structure PackRes where
  status : Status
  asg : List Nat
  k : Nat

/-- `solve_bin_pack` after argument parsing; `Except.error` = the exception class raised. -/
def pack (sizes : List α) (cap : α) (useBest decreasing : Bool) : Except String PackRes :=
  if sizes.length = 0 then .ok ⟨.OPTIMAL, [], 0⟩
  else if o.le cap o.zero then .error "ValueError"
  else if sizes.any (fun s => o.lt cap s || o.lt s o.zero) then .error "ValueError"
  else
    let st := packRun o sizes cap useBest decreasing
    .ok ⟨if 1 < st.bins.length then .FEASIBLE else .OPTIMAL, st.asg, st.bins.length⟩

end BinPack

/-! ### Bin packing, spec side -/

/-- exact load of bin `b` under assignment `asg` -/
def loadOf (sizes : List Rat) (asg : List Nat) (b : Nat) : Rat :=
  (((List.range sizes.length).filter fun i => asg.getD i 0 == b).map fun i => sizes.getD i 0).sum

/-- Verified checker for an answer of `solve_bin_pack`: one bin index per item, every index below
`k`, every bin `0..k-1` in use, every load within capacity (exact arithmetic). -/
def chkPack (sizes : List Rat) (cap : Rat) (asg : List Nat) (k : Nat) : Bool :=
  asg.length == sizes.length &&
  (List.range sizes.length).all (fun i => asg.getD i 0 < k) &&
  (List.range k).all fun b =>
    (List.range sizes.length).any (fun i => asg.getD i 0 == b) && decide (loadOf sizes asg b ≤ cap)

/-- Bounded oracle (not a theorem subject): least number of bins by exhaustive placement with the
obvious bound, items `(index, size)` in the given order.  `bins` = remaining capacities, `cur` =
bin chosen for each item placed so far; returns the least bin count found *and the placement that
achieves it*, which the driver submits to the verified checker `chkPack` (so the count is a
certified upper bound on the optimum; only its minimality rests on the search being exhaustive). -/
def minBinsGo (cap : Rat) : List (Nat × Rat) → List Rat → List (Nat × Nat) → Nat × List (Nat × Nat) →
    Nat × List (Nat × Nat)
  | [], bins, cur, best => if bins.length < best.1 then (bins.length, cur) else best
  | (i, s) :: rest, bins, cur, best =>
    if best.1 ≤ bins.length then best else
    let best1 := (List.range bins.length).foldl (fun bst b =>
      let r := bins.getD b 0
      if s ≤ r && !(bins.take b).contains r then
        minBinsGo cap rest (bins.set b (r - s)) ((i, b) :: cur) bst
      else bst) best
    minBinsGo cap rest (bins ++ [cap - s]) ((i, bins.length) :: cur) best1

/-- `(bin count, assignment)` of a packing with the least number of bins the search found -/
def minBins (sizes : List Rat) (cap : Rat) : Nat × List Nat :=
  let order := (List.range sizes.length).mergeSort fun i j => decide (sizes.getD j 0 ≤ sizes.getD i 0)
  let r := minBinsGo cap (order.map fun i => (i, sizes.getD i 0)) [] [] (sizes.length + 1, [])
  (r.1, (List.range sizes.length).map fun i => (r.2.lookup i).getD 0)

end Solvor.Pack
