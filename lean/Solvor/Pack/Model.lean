import Solvor.Gen.Kernels
import Solvor.Gen.PackConsts
/-!
Pack: executable models of `solvor/knapsack.py` (`solve_knapsack`) and `solvor/bin_pack.py`
(`solve_bin_pack`), plus the Bool checkers and definitional optima of the spec side (C16).

Every algorithmic part is written once over a record `Ops α` of scalar operations and instantiated
at `Rat` (`ratOps`: what the theorems talk about, exact arithmetic) and at `Float` (`floatOps`: the
same IEEE doubles CPython computes with; bit-level mirror used for R_trace).  This includes the
front end of `solve_knapsack` (`_to_int_capacity`, `_scaled`, the `+ 1e-9` weight re-check,
`_greedy_fallback`): its tolerances are a record `KConsts α`, read from the source for the
`Float` instance and left as parameters of the theorems for the `Rat` instance.  No Mathlib imports.
-/
namespace Solvor.Pack
open Solvor.Gen (Status)

/-- Scalar operations the algorithms use (`lt`/`le`/`isZero` are the Python `<`, `<=`, `== 0`;
`isInt v` is `v == int(v)`, `floorNat x` is `floor(x)` = `int(x)` for `x ≥ 0`). -/
structure Ops (α : Type) where
  zero : α
  add : α → α → α
  sub : α → α → α
  div : α → α → α
  lt : α → α → Bool
  le : α → α → Bool
  isZero : α → Bool
  mul : α → α → α
  abs : α → α
  ofNat : Nat → α
  floorNat : α → Nat
  isInt : α → Bool

def ratOps : Ops Rat :=
  { zero := 0, add := (· + ·), sub := (· - ·), div := (· / ·),
    lt := fun a b => decide (a < b), le := fun a b => decide (a ≤ b), isZero := fun a => decide (a = 0),
    mul := (· * ·), abs := fun a => if a < 0 then -a else a, ofNat := fun n => (n : Rat),
    floorNat := fun a => a.floor.toNat, isInt := fun a => decide ((a.floor : Rat) = a) }

def floatOps : Ops Float :=
  { zero := 0.0, add := (· + ·), sub := (· - ·), div := (· / ·),
    lt := fun a b => decide (a < b), le := fun a b => decide (a ≤ b), isZero := fun a => a == 0.0,
    mul := (· * ·), abs := Float.abs, ofNat := Float.ofNat,
    floorNat := fun a => a.floor.toUInt64.toNat, isInt := fun a => a == a.floor }

/-! ## Knapsack: the integer-capacity DP of `solve_knapsack` -/

section Knap
variable {α : Type} (o : Ops α)

/-- The inner loop `for w in range(int_capacity, w_i - 1, -1)` of one item `(wi, vi)`, updating
`dp` **in place**, backwards.  `m` is the number of iterations left; the current `w` is
`wi + (m - 1)`, so `dp[w - w_i]` is `dp[m - 1]`. -/
def passLoop (wi : Nat) (vi : α) : Nat → Array α → Array Bool → Array α × Array Bool
  | 0, dp, keep => (dp, keep)
  | m + 1, dp, keep =>
    let c := o.add (dp.getD m o.zero) vi
    if o.lt (dp.getD (wi + m) o.zero) c then       -- `dp[w - w_i] + v_i > dp[w]`
      passLoop wi vi m (dp.setIfInBounds (wi + m) c) (keep.setIfInBounds (wi + m) true)
    else passLoop wi vi m dp keep

/-- The outer loop `for i in range(n)`.  Items are `(int_weight, value)`; the `keep` rows are
accumulated in reverse (row of the last item first), which is the order the backtrack reads them. -/
def dpPasses (cap : Nat) : List (Nat × α) → Array α → List (Array Bool) → Array α × List (Array Bool)
  | [], dp, keeps => (dp, keeps)
  | (wi, vi) :: rest, dp, keeps =>
    let r := passLoop o wi vi (cap + 1 - wi) dp (Array.replicate (cap + 1) false)
    dpPasses cap rest r.1 (r.2 :: keeps)

/-- `for i in range(n - 1, -1, -1): if keep[i][w]: selected.append(i); w -= int_weights[i]`
followed by `selected.reverse()`.  Rows come last item first; the item's index is the number of
rows after it. -/
def backtrack : List (Array Bool × Nat) → Nat → List Nat → List Nat
  | [], _, acc => acc
  | (k, wi) :: rest, w, acc =>
    if k.getD w false then backtrack rest (w - wi) (rest.length :: acc) else backtrack rest w acc

/-- DP table and keep rows after all items. -/
def dpRun (items : List (Nat × α)) (cap : Nat) : Array α × List (Array Bool) :=
  dpPasses o cap items (Array.replicate (cap + 1) o.zero) []

/-- The DP part of `solve_knapsack` on integer weights / capacity: selected indices (increasing)
and `dp[int_capacity]`. -/
def knapInt (items : List (Nat × α)) (cap : Nat) : List Nat × α :=
  let r := dpRun o items cap
  (backtrack (r.2.zip (items.reverse.map (·.1))) cap [], r.1.getD cap o.zero)

/-! ### `_greedy_fallback` -/

/-- sort key `values[i] / weights[i] if weights[i] > 0 else inf` (`none` = `inf`) -/
def ratioKey (items : List (α × α)) (i : Nat) : Option α :=
  match items[i]? with
  | some (w, v) => if o.lt o.zero w then some (o.div v w) else none
  | none => none

def keyLt : Option α → Option α → Bool
  | some a, some b => o.lt a b
  | some _, none => true
  | none, _ => false

/-- the greedy scan `if weights[i] <= remaining: selected.append(i); remaining -= weights[i]` -/
def greedyScan (items : List (α × α)) : List Nat → α → List Nat → List Nat
  | [], _, acc => acc.reverse
  | i :: rest, remaining, acc =>
    match items[i]? with
    | some (w, _) =>
      if o.le w remaining then greedyScan items rest (o.sub remaining w) (i :: acc)
      else greedyScan items rest remaining acc
    | none => greedyScan items rest remaining acc

/-- `_greedy_fallback`: items are `(weight, value)` with the *original* values; stable sort by
ratio (ascending for `minimize`, `reverse=True` – stable descending – otherwise), greedy scan,
`selected.sort()`. -/
def greedyFallback (items : List (α × α)) (cap : α) (minimize : Bool) : List Nat :=
  let key := ratioKey o items
  let order := (List.range items.length).mergeSort fun i j =>
    if minimize then !(keyLt o (key j) (key i)) else !(keyLt o (key i) (key j))
  (greedyScan o items order cap []).mergeSort fun i j => decide (i ≤ j)

end Knap

/-! ### The front end of `solve_knapsack` (repaired code): `_to_int_capacity`, `_scaled`, the
weight re-check, the status rule -/

/-- the literals of `knapsack.py` the model is parameterised by -/
structure KConsts (α : Type) where
  maxCapacity : α     -- `max_capacity = 100000`
  maxScale : α        -- `1000.0`
  weightTol : α       -- `total_weight > capacity + 1e-9`
  scaleTol : α        -- `abs(s - nearest) <= 1e-9`
  half : α            -- `floor(s + 0.5)`
  one : α             -- the scale `1.0`

open Solvor.Gen.Pack in
/-- the constants as the source has them now (regenerated by `harness/kernels.py`) -/
def floatConsts : KConsts Float :=
  { maxCapacity := Float.ofInt knapMaxCapacity, maxScale := Float.ofBits knapMaxScale_bits,
    weightTol := Float.ofBits knapWeightTol_bits, scaleTol := Float.ofBits knapScaleTol_bits,
    half := Float.ofBits knapHalf_bits, one := 1.0 }

section Front
variable {α : Type} (o : Ops α) (c : KConsts α)

/-- Python `min(a, b)` -/
def pyMin (a b : α) : α := if o.lt b a then b else a

/-- `_scaled(x, scale)`: `x * scale` as an integer and whether nothing but float noise was dropped. -/
def scaled (x scale : α) : Nat × Bool :=
  let s := o.mul x scale
  let nearest := o.floorNat (o.add s c.half)
  if o.le (o.abs (o.sub s (o.ofNat nearest))) c.scaleTol then (nearest, true) else (o.floorNat s, false)

/-- `_to_int_capacity(capacity, weights)` -/
def toIntCapacity (cap : α) (wts : List α) : Nat × α :=
  if (cap :: wts.filter (fun w => o.lt o.zero w)).all o.isInt then (o.floorNat cap, c.one)
  else if o.le cap o.zero then (0, c.one)
  else
    let scale := pyMin o (o.div c.maxCapacity cap) c.maxScale
    ((scaled o c cap scale).1, scale)

/-- the loop building `int_weights` and `lossless` -/
def scaleWeights (wts : List α) (scale : α) : List (Nat × Bool) :=
  wts.map fun w =>
    if o.lt o.zero w then
      let r := scaled o c w scale
      (max 1 r.1, r.2 && decide (1 ≤ r.1))
    else (0, true)

structure KnapRes (α : Type) where
  status : Status
  sel : List Nat
  objective : α
  fallback : Bool
  lossless : Bool
  intCap : Nat
  intWeights : List Nat

/-- CPython 3.12 `sum(...)` over items `(value, is a Python int)`, starting from the int `0`: ints
(and the first float, which leaves the integer fast path through a plain `int + float`) are added
plainly, later floats by Neumaier's compensated step; the compensation is added at the end when it is
non-zero.  In exact arithmetic the compensation stays `0` and this is the plain sum. -/
def pySum (xs : List (α × Bool)) : α :=
  let r := xs.foldl (fun (st : α × α × Bool) (p : α × Bool) =>
      let (f, c, started) := st
      if p.2 then (o.add f p.1, c, started)
      else if !started then (o.add f p.1, c, true)
      else
        let t := o.add f p.1
        if o.le (o.abs p.1) (o.abs f) then (t, o.add c (o.add (o.sub f t) p.1), true)
        else (t, o.add c (o.add (o.sub p.1 t) f), true)) (o.zero, o.zero, false)
  if o.isZero r.2.1 then r.1 else o.add r.1 r.2.1

/-- `sum(xs[i] for i in selected)` -/
def sumAt (xs : List (α × Bool)) (sel : List Nat) : α := pySum o (sel.map fun i => xs.getD i (o.zero, true))

/-- Mirror of `solve_knapsack(values, weights, capacity, minimize=…)`.
`vInt`/`wInt` say which inputs are Python ints (only `sum` cares).  `Except.error` = the exception
class raised. -/
def knapMirror (vals wts : List α) (vInt wInt : List Bool) (cap : α) (minimize : Bool) :
    Except String (KnapRes α) :=
  if vals.length = 0 then .ok ⟨.OPTIMAL, [], o.zero, false, true, 0, []⟩
  else if wts.length ≠ vals.length then .error "ValueError"
  else if o.lt cap o.zero then .error "ValueError"
  else
    let ic := toIntCapacity o c cap wts
    let sc := scaleWeights o c wts ic.2
    let lossless := (scaled o c cap ic.2).2 && sc.all (·.2)
    let intW := sc.map (·.1)
    let items := intW.zip (vals.map fun v => if minimize then o.sub o.zero v else v)
    let sel := (knapInt o items ic.1).1
    let valsT := vals.zip (vInt ++ List.replicate vals.length false)   -- missing flags: float
    let wtsT := wts.zip (wInt ++ List.replicate wts.length false)
    if o.lt (o.add cap c.weightTol) (sumAt o wtsT sel) then
      let fb := greedyFallback o (wts.zip vals) cap minimize
      .ok ⟨.FEASIBLE, fb, sumAt o valsT fb, true, lossless, ic.1, intW⟩
    else
      .ok ⟨if lossless then .OPTIMAL else .FEASIBLE, sel, sumAt o valsT sel, false, lossless, ic.1, intW⟩

end Front

/-! ### Knapsack, spec side (exact rationals): checker and definitional optimum.
Items are `(weight, value)`. -/

def selW (items : List (Rat × Rat)) (sel : List Nat) : Rat := (sel.map fun i => (items.getD i (0, 0)).1).sum
def selV (items : List (Rat × Rat)) (sel : List Nat) : Rat := (sel.map fun i => (items.getD i (0, 0)).2).sum

def nodupB : List Nat → Bool
  | [] => true
  | a :: l => !l.contains a && nodupB l

/-- Verified checker, feasibility part: distinct indices in range, weight within capacity. -/
def chkSel (items : List (Rat × Rat)) (cap : Rat) (sel : List Nat) : Bool :=
  nodupB sel && sel.all (· < items.length) && decide (selW items sel ≤ cap)

/-- Verified checker for an answer of `solve_knapsack`: feasible, and the reported objective
equals the sum of the values. -/
def chkKnapsack (items : List (Rat × Rat)) (cap : Rat) (sel : List Nat) (obj : Rat) : Bool :=
  chkSel items cap sel && decide (selV items sel = obj)

def optMax : Option Rat → Option Rat → Option Rat
  | none, b => b
  | a, none => a
  | some a, some b => some (if a < b then b else a)

/-- Definitional optimum: exhaustive take/skip enumeration (no pruning), items listed last item
first.  `none` = no subset fits (only when the capacity is negative). -/
def knapBestRev : List (Rat × Rat) → Rat → Option Rat
  | [], c => if 0 ≤ c then some 0 else none
  | (w, v) :: prev, c => optMax (knapBestRev prev c) ((knapBestRev prev (c - w)).map (· + v))

def knapBest (items : List (Rat × Rat)) (cap : Rat) : Option Rat := knapBestRev items.reverse cap

/-! ## Bin packing: `solve_bin_pack` -/

section BinPack
variable {α : Type} (o : Ops α)

/-- first-fit scan: `for b, (remaining, _) in enumerate(bins): if size <= remaining: … break` -/
def firstFit (size : α) : List α → Nat → Option Nat
  | [], _ => none
  | r :: rs, b => if o.le size r then some b else firstFit size rs (b + 1)

/-- best-fit scan: `if size <= remaining < best_remaining` (strict, so the first of equally
tight bins wins); `none` = `best_remaining = inf`. -/
def bestFit (size : α) : List α → Nat → Option (Nat × α) → Option (Nat × α)
  | [], _, best => best
  | r :: rs, b, best =>
    let better := o.le size r && (match best with | none => true | some (_, br) => o.lt r br)
    bestFit size rs (b + 1) (if better then some (b, r) else best)

structure PState (α : Type) where
  bins : List α        -- remaining capacity per open bin
  asg : List Nat       -- `assignments`

/-- body of `for item_idx in indices` -/
def place (cap : α) (useBest : Bool) (sizes : List α) (st : PState α) (i : Nat) : PState α :=
  let size := sizes.getD i o.zero
  if o.isZero size then
    ⟨if st.bins.isEmpty then [cap] else st.bins, st.asg.set i 0⟩
  else
    let choice := if useBest then (bestFit o size st.bins 0 none).map (·.1) else firstFit o size st.bins 0
    match choice with
    | some b => ⟨st.bins.set b (o.sub (st.bins.getD b o.zero) size), st.asg.set i b⟩
    | none => ⟨st.bins ++ [o.sub cap size], st.asg.set i st.bins.length⟩

/-- `sorted(range(n), key=lambda i: item_sizes[i], reverse=True)` (stable) or `range(n)` -/
def packOrder (sizes : List α) (decreasing : Bool) : List Nat :=
  if decreasing then
    (List.range sizes.length).mergeSort fun i j => !(o.lt (sizes.getD i o.zero) (sizes.getD j o.zero))
  else List.range sizes.length

def packRun (sizes : List α) (cap : α) (useBest decreasing : Bool) : PState α :=
  (packOrder o sizes decreasing).foldl (place o cap useBest sizes) ⟨[], List.replicate sizes.length 0⟩

structure PackRes where
  status : Status
  asg : List Nat
  k : Nat

/-- `solve_bin_pack` after argument parsing; `Except.error` = the exception class raised. -/
def pack (sizes : List α) (cap : α) (useBest decreasing : Bool) : Except String PackRes :=
  if sizes.length = 0 then .ok ⟨.OPTIMAL, [], 0⟩
  else if o.le cap o.zero then .error "ValueError"
  else if sizes.any (fun s => o.lt cap s || o.lt s o.zero) then .error "ValueError"
  else
    let st := packRun o sizes cap useBest decreasing
    .ok ⟨if 1 < st.bins.length then .FEASIBLE else .OPTIMAL, st.asg, st.bins.length⟩

end BinPack

/-! ### Bin packing, spec side -/

/-- exact load of bin `b` under assignment `asg` -/
def loadOf (sizes : List Rat) (asg : List Nat) (b : Nat) : Rat :=
  (((List.range sizes.length).filter fun i => asg.getD i 0 == b).map fun i => sizes.getD i 0).sum

/-- Verified checker for an answer of `solve_bin_pack`: one bin index per item, every index below
`k`, every bin `0..k-1` in use, every load within capacity (exact arithmetic). -/
def chkPack (sizes : List Rat) (cap : Rat) (asg : List Nat) (k : Nat) : Bool :=
  asg.length == sizes.length &&
  (List.range sizes.length).all (fun i => asg.getD i 0 < k) &&
  (List.range k).all fun b =>
    (List.range sizes.length).any (fun i => asg.getD i 0 == b) && decide (loadOf sizes asg b ≤ cap)

/-- Bounded oracle (not a theorem subject): least number of bins by exhaustive placement with the
obvious bound, items `(index, size)` in the given order.  `bins` = remaining capacities, `cur` =
bin chosen for each item placed so far; returns the least bin count found *and the placement that
achieves it*, which the driver submits to the verified checker `chkPack` (so the count is a
certified upper bound on the optimum; only its minimality rests on the search being exhaustive). -/
def minBinsGo (cap : Rat) : List (Nat × Rat) → List Rat → List (Nat × Nat) → Nat × List (Nat × Nat) →
    Nat × List (Nat × Nat)
  | [], bins, cur, best => if bins.length < best.1 then (bins.length, cur) else best
  | (i, s) :: rest, bins, cur, best =>
    if best.1 ≤ bins.length then best else
    let best1 := (List.range bins.length).foldl (fun bst b =>
      let r := bins.getD b 0
      if s ≤ r && !(bins.take b).contains r then
        minBinsGo cap rest (bins.set b (r - s)) ((i, b) :: cur) bst
      else bst) best
    minBinsGo cap rest (bins ++ [cap - s]) ((i, bins.length) :: cur) best1

/-- `(bin count, assignment)` of a packing with the least number of bins the search found -/
def minBins (sizes : List Rat) (cap : Rat) : Nat × List Nat :=
  let order := (List.range sizes.length).mergeSort fun i j => decide (sizes.getD j 0 ≤ sizes.getD i 0)
  let r := minBinsGo cap (order.map fun i => (i, sizes.getD i 0)) [] [] (sizes.length + 1, [])
  (r.1, (List.range sizes.length).map fun i => (r.2.lookup i).getD 0)

/-! ### Bin packing: the proved optimum -/

/-- All ways of taking one bin out of a list of remaining capacities, skipping a capacity value
that was already offered (bins with equal remaining capacity are interchangeable). -/
def choices : List Rat → List Rat → List (Rat × List Rat)
  | _, [] => []
  | pre, r :: post =>
    (if pre.contains r then [] else [(r, pre.reverse ++ post)]) ++ choices (r :: pre) post

/-- Definitional enumerator: can the items (in the given order) be packed into the open bins
`bins` (remaining capacities) plus at most `m` fresh bins of capacity `cap`?  Every item is tried
in every open bin (one per distinct remaining capacity) and in one fresh bin. -/
def packsInto (cap : Rat) : List Rat → List Rat → Nat → Bool
  | [], _, _ => true
  | s :: rest, bins, m =>
    (choices [] bins).any (fun p => decide (s ≤ p.1) && packsInto cap rest ((p.1 - s) :: p.2) m) ||
    (decide (0 < m) && decide (s ≤ cap) && packsInto cap rest ((cap - s) :: bins) (m - 1))

/-- least `m' ≥ m` with `p m'`, looking at most `fuel` steps ahead -/
def leastFrom (p : Nat → Bool) : Nat → Nat → Nat
  | m, 0 => m
  | m, fuel + 1 => if p m then m else leastFrom p (m + 1) fuel

/-- items largest first (any order would do for the theorem; this one prunes best) -/
def itemsDesc (sizes : List Rat) : List Nat :=
  (List.range sizes.length).mergeSort fun i j => decide (sizes.getD j 0 ≤ sizes.getD i 0)

/-- Proved lower bound on the number of bins of any valid packing (`minBinsP_le`): the least
`m ≥ ⌈Σ/C⌉` for which the enumerator finds a packing. -/
def minBinsP (sizes : List Rat) (cap : Rat) : Nat :=
  let lb := (sizes.sum / cap).ceil.toNat
  leastFrom (fun m => packsInto cap ((itemsDesc sizes).map fun i => sizes.getD i 0) [] m) lb (sizes.length - lb)

/-! ### `solve_bin_pack`: algorithm-name parsing -/

/-- `algo = algorithm.lower().replace("_", "-")`, the `-decreasing` suffix, the four accepted
names; result `(use_best_fit, decreasing)` or `none` for the `ValueError`. (ASCII names.) -/
def parseAlgo (algorithm : String) : Option (Bool × Bool) :=
  let algo := (algorithm.toLower).replace "_" "-"
  let decreasing := algo.endsWith "-decreasing"
  let algo := if decreasing then algo.replace "-decreasing" "" else algo
  if algo == "first-fit" || algo == "ff" then some (false, decreasing)
  else if algo == "best-fit" || algo == "bf" then some (true, decreasing)
  else none

/-- `solve_bin_pack(item_sizes, bin_capacity, algorithm=…)` with the checks in source order:
empty input, capacity, item sizes, algorithm name. -/
def packNamed {α : Type} (o : Ops α) (sizes : List α) (cap : α) (algorithm : String) : Except String PackRes :=
  if sizes.length = 0 then .ok ⟨.OPTIMAL, [], 0⟩
  else if o.le cap o.zero then .error "ValueError"
  else if sizes.any (fun s => o.lt cap s || o.lt s o.zero) then .error "ValueError"
  else match parseAlgo algorithm with
    | none => .error "ValueError"
    | some (useBest, decreasing) => pack o sizes cap useBest decreasing

end Solvor.Pack
