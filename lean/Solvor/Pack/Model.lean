/-! Pack: executable models (no Mathlib imports). -/
namespace Solvor.Pack

end Solvor.Pack
