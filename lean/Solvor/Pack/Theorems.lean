import Solvor.Pack.KnapDP
import Solvor.Pack.Front
import Solvor.Pack.BinLemmas
import Solvor.Pack.BinOpt
/-!
Pack: the property theorems of C16 (helper lemmas are in `Lemmas.lean`, `KnapDP.lean`,
`BinLemmas.lean`).

Spec vocabulary.  Knapsack items are `(weight, value)` pairs; a *selection* is a list of item
indices; `KnapFeasible items cap sel` says the indices are distinct, in range, and their total
weight is within `cap`; `selV` is the total value.  A packing is `asg : List Nat` (bin index per
item) with a bin count `k`; `ValidPack sizes cap asg k` says every item has exactly one bin index
below `k`, each of the bins `0..k-1` is used, and every bin's exact load is within `cap`.
-/
namespace Solvor.Pack
open Solvor.Gen (Status)
attribute [-simp] List.getD_eq_getElem?_getD

/-! ## T-spec: verified checkers and the definitional optimum -/

/-- The Boolean feasibility checker evaluated on the implementation's selections decides
exactly `KnapFeasible`. -/
theorem chkSel_iff (items : List (Rat × Rat)) (cap : Rat) (sel : List Nat) :
    chkSel items cap sel = true ↔ KnapFeasible items cap sel := by
  unfold chkSel
  simp only [Bool.and_eq_true, nodupB_iff, List.all_eq_true, decide_eq_true_eq]
  exact ⟨fun ⟨⟨a, b⟩, c⟩ => ⟨a, b, c⟩, fun h => ⟨⟨h.nodup, h.inRange⟩, h.fits⟩⟩

/-- `chkKnapsack` decides: feasible, and the reported objective is the sum of the values. -/
theorem chkKnapsack_iff (items : List (Rat × Rat)) (cap : Rat) (sel : List Nat) (obj : Rat) :
    chkKnapsack items cap sel obj = true ↔ KnapFeasible items cap sel ∧ selV items sel = obj := by
  unfold chkKnapsack
  simp only [Bool.and_eq_true, chkSel_iff, decide_eq_true_eq]

/-- The definitional optimum `knapBest` (exhaustive take/skip enumeration on exact rationals) is
the optimum: it dominates the value of every feasible selection, and it is attained by one.
(`knapBest = none` exactly when nothing – not even the empty selection – is feasible.) -/
theorem knapBest_optimal (items : List (Rat × Rat)) (cap : Rat) :
    (∀ sel, KnapFeasible items cap sel → ∃ b, knapBest items cap = some b ∧ selV items sel ≤ b) ∧
    (∀ b, knapBest items cap = some b → ∃ sel, KnapFeasible items cap sel ∧ selV items sel = b) := by
  constructor
  · intro sel h
    have := knapBestRev_ge items.reverse cap sel h.nodup (by simpa using h.inRange)
      (by simpa using h.fits)
    simpa [knapBest] using this
  · intro b hb
    obtain ⟨sel, h1, h2, h3, h4⟩ := knapBestRev_attained items.reverse cap b hb
    exact ⟨sel, ⟨h1, by simpa using h2, by simpa using h3⟩, by simpa using h4⟩

/-! ## T-model: the knapsack DP of `solve_knapsack` (integer weights and capacity) -/

/-- **knapsack_dp_optimal.**  For every list of items `(int_weight, value)` with rational values
(any sign – `minimize` runs the same DP on negated values) and every integer capacity, the mirror
of `solve_knapsack`'s DP satisfies:

1. the in-place, backward-traversed table equals the simultaneous recurrence `dpRec`
   (`dp[w] = max(dp'[w], dp'[w - w_i] + v_i)` with the strict `>` of the source) at every `w ≤ cap`;
2. the keep-table backtrack returns strictly increasing (hence distinct) in-range indices whose
   total weight is within the capacity and whose total value is `dp[cap]`;
3. `dp[cap]` – hence the returned selection – is optimal: no set of distinct in-range indices
   within the capacity has a larger total value. -/
theorem knapsack_dp_optimal (items : List (Nat × Rat)) (cap : Nat) :
    (∀ w, w ≤ cap → (dpRun ratOps items cap).1.getD w 0 = dpRec items.reverse w) ∧
    (knapInt ratOps items cap).1.Pairwise (· < ·) ∧
    (∀ i ∈ (knapInt ratOps items cap).1, i < items.length) ∧
    selWN items (knapInt ratOps items cap).1 ≤ cap ∧
    selVN items (knapInt ratOps items cap).1 = (knapInt ratOps items cap).2 ∧
    ∀ sel : List Nat, sel.Nodup → (∀ i ∈ sel, i < items.length) → selWN items sel ≤ cap →
      selVN items sel ≤ (knapInt ratOps items cap).2 := by
  obtain ⟨hdp, hk⟩ := dpRun_spec items cap
  have hsel : (knapInt ratOps items cap).1 = btRec items.reverse cap := by
    have := backtrack_eq hk cap (Nat.le_refl _) []
    simpa [knapInt] using this
  have hval : (knapInt ratOps items cap).2 = dpRec items.reverse cap := by
    simpa [knapInt, ratOps] using hdp cap (Nat.le_refl _)
  obtain ⟨p1, p2, p3, p4⟩ := btRec_spec items.reverse cap
  simp only [List.reverse_reverse, List.length_reverse] at p2 p3 p4
  refine ⟨hdp, by rw [hsel]; exact p1, by rw [hsel]; exact p2, by rw [hsel]; exact p3,
    by rw [hsel, hval]; exact p4, fun sel h1 h2 h3 => ?_⟩
  rw [hval]
  have := dpRec_ge items.reverse cap sel h1 (by simpa using h2) (by simpa using h3)
  simpa using this

/-- Link between the two: for integer weights and capacity, `dp[cap]` of the proved DP *is* the
definitional optimum `knapBest` of the same instance read over the rationals (the optimum the
check compares every OPTIMAL answer with). -/
theorem knapsack_dp_eq_knapBest (items : List (Nat × Rat)) (cap : Nat) :
    knapBest (castItems items) (cap : Rat) = some (knapInt ratOps items cap).2 := by
  obtain ⟨_, p1, p2, p3, p4, p5⟩ := knapsack_dp_optimal items cap
  obtain ⟨hge, hatt⟩ := knapBest_optimal (castItems items) (cap : Rat)
  obtain ⟨b, hb, hle⟩ := hge _ ((feasible_cast items cap _).2 ⟨p1.imp (fun h => Nat.ne_of_lt h), p2, p3⟩)
  obtain ⟨sel, hf, hv⟩ := hatt b hb
  obtain ⟨a1, a2, a3⟩ := (feasible_cast items cap sel).1 hf
  have h1 := p5 sel a1 a2 a3
  rw [selV_cast] at hle hv
  rw [hb, ← hv, p4.symm]
  congr 1
  rw [← p4] at h1
  exact Rat.le_antisymm h1 (by rw [hv]; exact hle)

/-- **Exact scaling keeps optimality.**  If the integer weights / capacity handed to the DP are the
original rational weights / capacity times a positive scale (nothing lost – the situation in which
the repaired `solve_knapsack` reports OPTIMAL), the DP's selection is feasible and optimal for the
*original* instance. -/
theorem knapsack_scaled_optimal (items : List (Rat × Rat)) (cap scale : Rat) (hs : 0 < scale)
    (iw : List Nat) (icap : Nat) (hlen : iw.length = items.length)
    (hw : ∀ i, i < items.length → ((iw.getD i 0 : Nat) : Rat) = (items.getD i (0, 0)).1 * scale)
    (hc : (icap : Rat) = cap * scale) :
    KnapFeasible items cap (knapInt ratOps (iw.zip (items.map (·.2))) icap).1 ∧
    ∀ sel, KnapFeasible items cap sel →
      selV items sel ≤ selV items (knapInt ratOps (iw.zip (items.map (·.2))) icap).1 := by
  obtain ⟨_, p1, p2, p3, p4, p5⟩ := knapsack_dp_optimal (iw.zip (items.map (·.2))) icap
  have hl : (iw.zip (items.map (·.2))).length = items.length := by simp [hlen]
  rw [hl] at p2 p5
  have hss := scaled_sums items scale iw hlen hw
  have mono : ∀ a : Rat, a * scale ≤ cap * scale ↔ a ≤ cap := by
    intro a
    constructor
    · intro h
      apply Rat.not_lt.1
      intro hlt
      have := Rat.mul_lt_mul_of_pos_right hlt hs
      grind
    · intro h
      exact Rat.mul_le_mul_of_nonneg_right h (Rat.le_of_lt hs)
  obtain ⟨a, b⟩ := hss _ p2
  refine ⟨⟨p1.imp (fun h => Nat.ne_of_lt h), p2, ?_⟩, fun sel hf => ?_⟩
  · rw [← mono, ← a, ← hc, Rat.natCast_le_natCast]; exact p3
  · obtain ⟨a', b'⟩ := hss sel hf.inRange
    have : selWN (iw.zip (items.map (·.2))) sel ≤ icap := by
      rw [← Rat.natCast_le_natCast, a', hc, mono]; exact hf.fits
    have := p5 sel hf.nodup hf.inRange this
    rw [← b, ← b', p4]; exact this

/-- `_greedy_fallback` (the branch taken when scaling made the DP answer overweight) returns a
feasible selection whatever the ratios and the sort did. -/
theorem greedy_fallback_valid (items : List (Rat × Rat)) (cap : Rat) (minimize : Bool) (hcap : 0 ≤ cap) :
    KnapFeasible items cap (greedyFallback ratOps items cap minimize) := by
  unfold greedyFallback
  simp only
  generalize hord : (List.range items.length).mergeSort _ = order
  have hperm : order.Perm (List.range items.length) := by rw [← hord]; exact List.mergeSort_perm _ _
  obtain ⟨p, h1, h2, h3, h4⟩ := greedyScan_spec items order cap [] hcap
  simp only [List.reverse_nil, List.nil_append] at h1
  rw [h1]
  have hp := List.mergeSort_perm p (fun i j => decide (i ≤ j))
  refine ⟨hp.nodup_iff.2 (h2.nodup (hperm.nodup_iff.2 List.nodup_range)), ?_, ?_⟩
  · intro i hi; exact h3 i (hp.mem_iff.1 hi)
  · rw [selW_perm items hp]; exact h4

/-! ## T-model: the whole of `solve_knapsack` (front end included) in exact arithmetic -/

/-- scaling that is exact only up to `τ` per number keeps the DP answer optimal up to a capacity
slack of `(n+1)·τ/scale` -/
theorem knapsack_near_scaled_optimal (items : List (Rat × Rat)) (cap scale τ slack : Rat) (hs : 0 < scale)
    (hτ : 0 ≤ τ) (hsl : slack * scale = ((items.length + 1 : Nat) : Rat) * τ)
    (iw : List Nat) (icap : Nat) (hlen : iw.length = items.length)
    (hw : ∀ i, i < items.length → -τ ≤ (items.getD i (0, 0)).1 * scale - ((iw.getD i 0 : Nat) : Rat) ∧
      (items.getD i (0, 0)).1 * scale - ((iw.getD i 0 : Nat) : Rat) ≤ τ)
    (hc : -τ ≤ cap * scale - (icap : Rat) ∧ cap * scale - (icap : Rat) ≤ τ) :
    (knapInt ratOps (iw.zip (items.map (·.2))) icap).1.Nodup ∧
    (∀ i ∈ (knapInt ratOps (iw.zip (items.map (·.2))) icap).1, i < items.length) ∧
    selW items (knapInt ratOps (iw.zip (items.map (·.2))) icap).1 ≤ cap + slack ∧
    ∀ sel : List Nat, sel.Nodup → (∀ i ∈ sel, i < items.length) → selW items sel ≤ cap - slack →
      selV items sel ≤ selV items (knapInt ratOps (iw.zip (items.map (·.2))) icap).1 := by
  obtain ⟨_, p1, p2, p3, p4, p5⟩ := knapsack_dp_optimal (iw.zip (items.map (·.2))) icap
  have hl : (iw.zip (items.map (·.2))).length = items.length := by simp [hlen]
  rw [hl] at p2 p5
  have hss := scaled_sums_near items scale τ iw hlen hw
  have mono : ∀ a b : Rat, a * scale ≤ b * scale ↔ a ≤ b := by
    intro a b
    constructor
    · intro h
      apply Rat.not_lt.1
      intro hlt
      have := Rat.mul_lt_mul_of_pos_right hlt hs
      grind
    · intro h
      exact Rat.mul_le_mul_of_nonneg_right h (Rat.le_of_lt hs)
  have hnd := p1.imp (fun h => Nat.ne_of_lt h)
  have lenτ : ∀ sel : List Nat, sel.Nodup → (∀ i ∈ sel, i < items.length) →
      ((sel.length : Nat) : Rat) * τ ≤ ((items.length : Nat) : Rat) * τ := by
    intro sel h1 h2
    have := nodup_range_length _ sel h1 h2
    exact Rat.mul_le_mul_of_nonneg_right (Rat.natCast_le_natCast.2 this) hτ
  have hn1 : ((items.length + 1 : Nat) : Rat) * τ = ((items.length : Nat) : Rat) * τ + τ := by
    rw [Rat.natCast_add]; grind
  obtain ⟨a1, a2, b⟩ := hss _ p2
  refine ⟨hnd, p2, ?_, fun sel h1 h2 h3 => ?_⟩
  · rw [← mono]
    have := lenτ _ hnd p2
    have p3' : ((selWN (iw.zip (items.map (·.2))) (knapInt ratOps (iw.zip (items.map (·.2))) icap).1 : Nat) : Rat)
        ≤ (icap : Rat) := Rat.natCast_le_natCast.2 p3
    have : (cap + slack) * scale = cap * scale + slack * scale := by grind
    rw [this, hsl, hn1]
    grind
  · obtain ⟨a1', a2', b'⟩ := hss sel h2
    have hfit : selWN (iw.zip (items.map (·.2))) sel ≤ icap := by
      rw [← Rat.natCast_le_natCast]
      have h3' := (mono _ _).2 h3
      have : (cap - slack) * scale = cap * scale - slack * scale := by grind
      rw [this, hsl, hn1] at h3'
      have := lenτ sel h1 h2
      grind
    have := p5 sel h1 h2 hfit
    rw [← b, ← b', p4]; exact this



/-- **knapsack_mirror_feasible.**  Whatever the tolerances, the scale and the branch taken (DP or
greedy fallback), the mirror of `solve_knapsack` at `Rat` returns distinct in-range indices whose
weight is within `capacity + weightTol` (within `capacity` on the fallback branch), and the reported
objective is the sum of their values. -/
theorem knapsack_mirror_feasible (c : KConsts Rat) (htol : 0 ≤ c.weightTol) (vals wts : List Rat)
    (vInt wInt : List Bool) (cap : Rat) (minimize : Bool) (hcap : 0 ≤ cap) (r : KnapRes Rat)
    (hr : knapMirror ratOps c vals wts vInt wInt cap minimize = .ok r) :
    r.sel.Nodup ∧ (∀ i ∈ r.sel, i < vals.length) ∧ selW (wts.zip vals) r.sel ≤ cap + c.weightTol ∧
    r.objective = selV (wts.zip vals) r.sel ∧ (r.fallback = true → selW (wts.zip vals) r.sel ≤ cap) := by
  unfold knapMirror at hr
  by_cases hn : vals.length = 0
  · rw [if_pos hn] at hr
    cases hr
    refine ⟨List.nodup_nil, by simp, ?_, rfl, by simp⟩
    show (0 : Rat) ≤ cap + c.weightTol
    grind
  · rw [if_neg hn] at hr
    by_cases hlen : wts.length = vals.length
    · rw [if_neg (by simpa using hlen)] at hr
      have hlt : ratOps.lt cap ratOps.zero = false := by
        show decide (cap < 0) = false
        exact decide_eq_false (by grind)
      rw [hlt] at hr
      simp only [Bool.false_eq_true, if_false] at hr
      have hl1 : wts.length ≤ (wInt ++ List.replicate wts.length false).length := by simp
      have hl2 : vals.length ≤ (vInt ++ List.replicate vals.length false).length := by simp
      generalize hsel : (knapInt ratOps _ (toIntCapacity ratOps c cap wts).1).1 = sel at hr
      by_cases hchk : ratOps.lt (ratOps.add cap c.weightTol)
          (sumAt ratOps (wts.zip (wInt ++ List.replicate wts.length false)) sel) = true
      · rw [if_pos hchk] at hr
        cases hr
        have hf := greedy_fallback_valid (wts.zip vals) cap minimize hcap
        refine ⟨hf.nodup, ?_, ?_, ?_, fun _ => hf.fits⟩
        · intro i hi; have := hf.inRange i hi; simp at this; omega
        · have := hf.fits; show selW (wts.zip vals) _ ≤ cap + c.weightTol; grind
        · show sumAt ratOps _ _ = _
          rw [sumAt_rat _ _ _ hl2, selV_zip _ _ _ hlen]
      · rw [if_neg hchk] at hr
        cases hr
        obtain ⟨_, p1, p2, _, _, _⟩ := knapsack_dp_optimal
          (((scaleWeights ratOps c wts (toIntCapacity ratOps c cap wts).2).map (·.1)).zip
            (vals.map fun v => if minimize = true then ratOps.sub ratOps.zero v else v))
          (toIntCapacity ratOps c cap wts).1
        rw [hsel] at p1 p2
        refine ⟨p1.imp (fun h => Nat.ne_of_lt h), ?_, ?_, ?_, by simp⟩
        · intro i hi
          have := p2 i hi
          simp [scaleWeights] at this
          omega
        · have : ¬ (cap + c.weightTol < sumAt ratOps (wts.zip (wInt ++ List.replicate wts.length false)) sel) := by
            simpa [ratOps] using hchk
          rw [sumAt_rat _ _ _ hl1] at this
          show selW (wts.zip vals) sel ≤ _
          rw [selW_zip _ _ _ hlen]
          exact Rat.not_lt.1 this
        · show sumAt ratOps _ _ = _
          rw [sumAt_rat _ _ _ hl2, selV_zip _ _ _ hlen]
    · rw [if_pos (by simpa using hlen)] at hr
      cases hr


/-- **knapsack_lossless_optimal.**  The status rule of the repaired `solve_knapsack` is right: in exact
arithmetic (scaling tolerance 0), for non-negative weights and capacity, whenever the mirror reports
OPTIMAL (the DP branch with `lossless = True`) the returned selection is feasible for the *original*
instance and no feasible selection has a better (sign-adjusted: `minimize` negates) total value. -/
theorem knapsack_lossless_optimal (c : KConsts Rat) (hc : ExactConsts c) (vals wts : List Rat)
    (vInt wInt : List Bool) (cap : Rat) (minimize : Bool) (hcap : 0 ≤ cap) (hw : ∀ w ∈ wts, 0 ≤ w)
    (r : KnapRes Rat) (hr : knapMirror ratOps c vals wts vInt wInt cap minimize = .ok r)
    (hopt : r.status = .OPTIMAL) :
    KnapFeasible (wts.zip vals) cap r.sel ∧
    ∀ sel, KnapFeasible (wts.zip vals) cap sel →
      selV (wts.zip (vals.map fun v => if minimize then 0 - v else v)) sel ≤
      selV (wts.zip (vals.map fun v => if minimize then 0 - v else v)) r.sel := by
  unfold knapMirror at hr
  by_cases hn : vals.length = 0
  · rw [if_pos hn] at hr
    cases hr
    have hv : vals = [] := List.eq_nil_of_length_eq_zero hn
    subst hv
    refine ⟨⟨List.nodup_nil, by simp, by simpa [selW] using hcap⟩, fun sel hf => ?_⟩
    have : sel = [] := by
      cases sel with
      | nil => rfl
      | cons i s => have := hf.inRange i List.mem_cons_self; simp at this
    subst this
    exact Rat.le_refl
  · rw [if_neg hn] at hr
    by_cases hlen : wts.length = vals.length
    · rw [if_neg (by simpa using hlen)] at hr
      have hlt : ratOps.lt cap ratOps.zero = false := by
        show decide (cap < 0) = false
        exact decide_eq_false (by grind)
      rw [hlt] at hr
      simp only [Bool.false_eq_true, if_false] at hr
      generalize hsel : (knapInt ratOps _ (toIntCapacity ratOps c cap wts).1).1 = sel at hr
      by_cases hchk : ratOps.lt (ratOps.add cap c.weightTol)
          (sumAt ratOps (wts.zip (wInt ++ List.replicate wts.length false)) sel) = true
      · rw [if_pos hchk] at hr
        cases hr
        cases hopt
      · rw [if_neg hchk] at hr
        cases hr
        simp only at hopt ⊢
        have hloss : ((scaled ratOps c cap (toIntCapacity ratOps c cap wts).2).2 &&
            (scaleWeights ratOps c wts (toIntCapacity ratOps c cap wts).2).all (·.2)) = true := by
          by_cases h : ((scaled ratOps c cap (toIntCapacity ratOps c cap wts).2).2 &&
            (scaleWeights ratOps c wts (toIntCapacity ratOps c cap wts).2).all (·.2)) = true
          · exact h
          · rw [if_neg h] at hopt; cases hopt
        rw [Bool.and_eq_true] at hloss
        have hsv : (vals.map fun v => if minimize = true then ratOps.sub ratOps.zero v else v) =
            (vals.map fun v => if minimize = true then 0 - v else v) := rfl
        rw [hsv] at hsel
        have hlen' : wts.length = (vals.map fun v => if minimize = true then 0 - v else v).length := by
          simpa using hlen
        have hsnd : (wts.zip (vals.map fun v => if minimize = true then 0 - v else v)).map (·.2) =
            (vals.map fun v => if minimize = true then 0 - v else v) := by
          rw [List.map_snd_zip]; omega
        have hmain := knapsack_scaled_optimal (wts.zip (vals.map fun v => if minimize = true then 0 - v else v)) cap
          (toIntCapacity ratOps c cap wts).2 (toIntCapacity_scale_pos c hc cap wts)
          ((scaleWeights ratOps c wts (toIntCapacity ratOps c cap wts).2).map (·.1))
          (toIntCapacity ratOps c cap wts).1
          (by rw [scaleWeights_length]; simp; omega)
          (by
            intro i hi
            have hi' : i < wts.length := by simp at hi; omega
            rw [scaleWeights_exact c hc wts hw _ hloss.2 i hi', getD_zip_pair _ _ _ hlen'])
          (toIntCapacity_exact c hc cap hcap wts hloss.1)
        rw [hsnd, hsel] at hmain
        refine ⟨(feasible_zip_congr _ _ _ _ _ hlen' hlen).1 hmain.1, fun sel' hf => ?_⟩
        exact hmain.2 sel' ((feasible_zip_congr _ _ _ _ _ hlen hlen').1 hf)
    · rw [if_pos (by simpa using hlen)] at hr
      cases hr

/-- **knapsack_lossless_near_optimal.**  The status rule with the source's tolerance: if `_scaled`
accepts a number as exact when it is within `scaleTol` of an integer (the code: `1e-9`), then an
answer the mirror labels OPTIMAL has weight at most `capacity + slack` and is at least as good
(sign-adjusted) as every selection of weight at most `capacity - slack`, where
`slack = (n + 1) · scaleTol / scale`.  (`scaleTol = 0` gives `knapsack_lossless_optimal`.) -/
theorem knapsack_lossless_near_optimal (c : KConsts Rat) (hc : GoodConsts c) (vals wts : List Rat)
    (vInt wInt : List Bool) (cap : Rat) (minimize : Bool) (hcap : 0 ≤ cap) (hw : ∀ w ∈ wts, 0 ≤ w)
    (r : KnapRes Rat) (hr : knapMirror ratOps c vals wts vInt wInt cap minimize = .ok r)
    (hopt : r.status = .OPTIMAL) :
    r.sel.Nodup ∧ (∀ i ∈ r.sel, i < vals.length) ∧
    selW (wts.zip vals) r.sel ≤
      cap + ((vals.length + 1 : Nat) : Rat) * c.scaleTol / (toIntCapacity ratOps c cap wts).2 ∧
    ∀ sel : List Nat, sel.Nodup → (∀ i ∈ sel, i < vals.length) →
      selW (wts.zip vals) sel ≤
        cap - ((vals.length + 1 : Nat) : Rat) * c.scaleTol / (toIntCapacity ratOps c cap wts).2 →
      selV (wts.zip (vals.map fun v => if minimize then 0 - v else v)) sel ≤
      selV (wts.zip (vals.map fun v => if minimize then 0 - v else v)) r.sel := by
  unfold knapMirror at hr
  by_cases hn : vals.length = 0
  · rw [if_pos hn] at hr
    cases hr
    have hv : vals = [] := List.eq_nil_of_length_eq_zero hn
    subst hv
    have hpos := toIntCapacity_scale_pos' c hc cap wts
    refine ⟨List.nodup_nil, by simp, ?_, fun sel _ hf _ => ?_⟩
    · show (0 : Rat) ≤ _
      have : 0 ≤ ((0 + 1 : Nat) : Rat) * c.scaleTol / (toIntCapacity ratOps c cap wts).2 := by
        rw [Rat.div_def]
        exact Rat.mul_nonneg (Rat.mul_nonneg (by simp; decide) hc.scaleTolNonneg) (Rat.le_of_lt (Rat.inv_pos.2 hpos))
      simp only [List.length_nil]
      grind
    · have : sel = [] := by
        cases sel with
        | nil => rfl
        | cons i s => have := hf i List.mem_cons_self; simp at this
      subst this
      exact Rat.le_refl
  · rw [if_neg hn] at hr
    by_cases hlen : wts.length = vals.length
    · rw [if_neg (by simpa using hlen)] at hr
      have hlt : ratOps.lt cap ratOps.zero = false := by
        show decide (cap < 0) = false
        exact decide_eq_false (by grind)
      rw [hlt] at hr
      simp only [Bool.false_eq_true, if_false] at hr
      generalize hsel : (knapInt ratOps _ (toIntCapacity ratOps c cap wts).1).1 = sel at hr
      by_cases hchk : ratOps.lt (ratOps.add cap c.weightTol)
          (sumAt ratOps (wts.zip (wInt ++ List.replicate wts.length false)) sel) = true
      · rw [if_pos hchk] at hr
        cases hr
        cases hopt
      · rw [if_neg hchk] at hr
        cases hr
        simp only at hopt ⊢
        have hloss : ((scaled ratOps c cap (toIntCapacity ratOps c cap wts).2).2 &&
            (scaleWeights ratOps c wts (toIntCapacity ratOps c cap wts).2).all (·.2)) = true := by
          by_cases h : ((scaled ratOps c cap (toIntCapacity ratOps c cap wts).2).2 &&
            (scaleWeights ratOps c wts (toIntCapacity ratOps c cap wts).2).all (·.2)) = true
          · exact h
          · rw [if_neg h] at hopt; cases hopt
        rw [Bool.and_eq_true] at hloss
        have hsv : (vals.map fun v => if minimize = true then ratOps.sub ratOps.zero v else v) =
            (vals.map fun v => if minimize = true then 0 - v else v) := rfl
        rw [hsv] at hsel
        have hlen' : wts.length = (vals.map fun v => if minimize = true then 0 - v else v).length := by
          simpa using hlen
        have hsnd : (wts.zip (vals.map fun v => if minimize = true then 0 - v else v)).map (·.2) =
            (vals.map fun v => if minimize = true then 0 - v else v) := by
          rw [List.map_snd_zip]; omega
        have hpos := toIntCapacity_scale_pos' c hc cap wts
        have hzl : (wts.zip (vals.map fun v => if minimize = true then 0 - v else v)).length = vals.length := by
          simp; omega
        have hmain := knapsack_near_scaled_optimal (wts.zip (vals.map fun v => if minimize = true then 0 - v else v)) cap
          (toIntCapacity ratOps c cap wts).2 c.scaleTol
          (((vals.length + 1 : Nat) : Rat) * c.scaleTol / (toIntCapacity ratOps c cap wts).2)
          hpos hc.scaleTolNonneg
          (by rw [hzl]; exact Rat.div_mul_cancel (by grind))
          ((scaleWeights ratOps c wts (toIntCapacity ratOps c cap wts).2).map (·.1))
          (toIntCapacity ratOps c cap wts).1
          (by rw [scaleWeights_length]; simp; omega)
          (by
            intro i hi
            have hi' : i < wts.length := by simp at hi; omega
            rw [getD_zip_pair _ _ _ hlen']
            exact scaleWeights_near c hc wts hw _ hloss.2 i hi')
          (toIntCapacity_near c hc cap hcap wts hloss.1)
        rw [hsnd, hsel, hzl] at hmain
        obtain ⟨m1, m2, m3, m4⟩ := hmain
        refine ⟨m1, m2, ?_, fun sel' h1 h2 h3 => ?_⟩
        · rw [selW_zip _ _ _ hlen]; rw [selW_zip _ _ _ hlen'] at m3; exact m3
        · apply m4 sel' h1 h2
          rw [selW_zip _ _ _ hlen']; rw [selW_zip _ _ _ hlen] at h3; exact h3
    · rw [if_pos (by simpa using hlen)] at hr
      cases hr

/-! ## Bin packing -/

/-- The Boolean checker evaluated on the implementation's assignments decides exactly
`ValidPack`. -/
theorem chkPack_iff (sizes : List Rat) (cap : Rat) (asg : List Nat) (k : Nat) :
    chkPack sizes cap asg k = true ↔ ValidPack sizes cap asg k := by
  unfold chkPack
  simp only [Bool.and_eq_true, beq_iff_eq, List.all_eq_true, List.mem_range, decide_eq_true_eq,
    List.any_eq_true]
  constructor
  · rintro ⟨⟨h1, h2⟩, h3⟩
    exact ⟨h1, h2, fun b hb => (h3 b hb).1, fun b hb => (h3 b hb).2⟩
  · intro h
    exact ⟨⟨h.len, h.lt⟩, fun b hb => ⟨h.used b hb, h.load b hb⟩⟩

/-- Any valid packing into `k` bins has `Σ sizes ≤ k · capacity`, i.e. `k ≥ ⌈Σ/C⌉`; and a valid
packing of a non-empty item list uses at least one bin. -/
theorem validPack_lower_bound {sizes : List Rat} {cap : Rat} {asg : List Nat} {k : Nat}
    (h : ValidPack sizes cap asg k) :
    sizes.sum ≤ k * cap ∧ (0 < cap → (sizes.sum / cap).ceil ≤ (k : Int)) ∧ (sizes ≠ [] → 1 ≤ k) := by
  refine ⟨h.sum_le, fun hc => ceil_le_of_le_mul hc h.sum_le, fun hne => ?_⟩
  have : 0 < sizes.length := List.length_pos_iff.2 hne
  have := h.lt 0 this
  omega

/-- **binpack_valid.**  For every non-empty list of sizes in `[0, cap]` (zero sizes included),
every positive capacity and each of the four heuristics (`useBest` = best-fit instead of first-fit,
`dec` = the `-decreasing` variant), the mirror of `solve_bin_pack` returns normally with a valid
packing: every item is in exactly one of the bins `0..k-1`, each of these bins is in use, every
load is within the capacity in exact arithmetic, `k` is the reported bin count with
`k ≥ ⌈Σ sizes / cap⌉` and `k ≥ 1`; the status is OPTIMAL exactly when `k ≤ 1`
(the code's rule) and then `k` is minimal among all valid packings. -/
theorem binpack_valid (sizes : List Rat) (cap : Rat) (useBest dec : Bool)
    (hn : sizes ≠ []) (hcap : 0 < cap) (hs : ∀ s ∈ sizes, 0 ≤ s ∧ s ≤ cap) :
    ∃ r, pack ratOps sizes cap useBest dec = .ok r ∧
      ValidPack sizes cap r.asg r.k ∧ (sizes.sum / cap).ceil ≤ (r.k : Int) ∧ 1 ≤ r.k ∧
      (r.status = .OPTIMAL ∨ r.status = .FEASIBLE) ∧ (r.status = .OPTIMAL ↔ r.k ≤ 1) ∧
      (r.status = .OPTIMAL → ∀ asg' k', ValidPack sizes cap asg' k' → r.k ≤ k') := by
  obtain ⟨hv, hk⟩ := packRun_valid sizes cap useBest dec hcap hs
  have hk1 := hk hn
  have h0 : sizes.length ≠ 0 := fun h => hn (List.eq_nil_of_length_eq_zero h)
  have h1 : ratOps.le cap ratOps.zero = false := by
    show decide (cap ≤ 0) = false
    exact decide_eq_false (by grind)
  have h2 : sizes.any (fun s => ratOps.lt cap s || ratOps.lt s ratOps.zero) = false := by
    rw [List.any_eq_false]
    intro s hs'
    obtain ⟨a, b⟩ := hs s hs'
    have e1 : ratOps.lt cap s = false := by
      show decide (cap < s) = false
      exact decide_eq_false (by grind)
    have e2 : ratOps.lt s ratOps.zero = false := by
      show decide (s < 0) = false
      exact decide_eq_false (by grind)
    simp [e1, e2]
  have hp : pack ratOps sizes cap useBest dec =
      .ok ⟨if 1 < (packRun ratOps sizes cap useBest dec).bins.length then .FEASIBLE else .OPTIMAL,
        (packRun ratOps sizes cap useBest dec).asg, (packRun ratOps sizes cap useBest dec).bins.length⟩ := by
    unfold pack
    rw [if_neg h0, h1, h2]
    simp only [Bool.false_eq_true, if_false]
  refine ⟨_, hp, hv, ceil_le_of_le_mul hcap hv.sum_le, hk1, ?_, ?_, ?_⟩
  · by_cases h : 1 < (packRun ratOps sizes cap useBest dec).bins.length
    · right; simp [h]
    · left; simp [h]
  · by_cases h : 1 < (packRun ratOps sizes cap useBest dec).bins.length
    · simp [h]
    · simp [h]; omega
  · intro hopt asg' k' hv'
    have : ¬ 1 < (packRun ratOps sizes cap useBest dec).bins.length := by
      intro h; simp [h] at hopt
    have := (validPack_lower_bound hv').2.2 hn
    show (packRun ratOps sizes cap useBest dec).bins.length ≤ k'
    omega

/-- **minBinsP_le.**  The enumerator-based bound is a lower bound on every valid packing: for
non-negative sizes and a positive capacity no valid packing uses fewer than `minBinsP sizes cap`
bins.  (Together with a packing into `minBinsP` bins accepted by `chkPack` – produced by the fast
search and checked on every instance – this certifies the optimum used for the 11/9 test.) -/
theorem minBinsP_le (sizes : List Rat) (cap : Rat) (hcap : 0 < cap) (hs : ∀ s ∈ sizes, 0 ≤ s)
    {asg : List Nat} {k : Nat} (h : ValidPack sizes cap asg k) : minBinsP sizes cap ≤ k := by
  unfold minBinsP
  simp only
  have hlb : (sizes.sum / cap).ceil.toNat ≤ k := by
    have := ceil_le_of_le_mul hcap h.sum_le
    omega
  refine leastFrom_le _ k ?_ _ _ hlb
  have hperm := itemsDesc_perm sizes
  have hmap : (itemsDesc sizes).map (fun i => sizes.getD i 0) =
      ((itemsDesc sizes).map fun i => (sizes.getD i 0, asg.getD i 0)).map (·.1) := by
    rw [List.map_map]; rfl
  rw [hmap]
  apply packsInto_complete cap _ (List.replicate k cap) [] k (by simp)
  · intro p hp
    obtain ⟨i, hi, rfl⟩ := List.mem_map.1 hp
    have hin : i < sizes.length := List.mem_range.1 (hperm.mem_iff.1 hi)
    have : sizes.getD i 0 = sizes[i] := by simp [List.getD_eq_getElem?_getD, hin]
    refine ⟨by rw [this]; exact hs _ (List.getElem_mem hin), by simpa using h.lt i hin⟩
  · intro b hb
    have hb' : b < k := by simpa using hb
    have e1 : pairLoad ((itemsDesc sizes).map fun i => (sizes.getD i 0, asg.getD i 0)) b =
        pload sizes asg (itemsDesc sizes) b := by
      unfold pairLoad pload
      rw [List.filter_map, List.map_map]
      rfl
    have e2 : (List.replicate k cap).getD b 0 = cap := by
      simp [List.getD_eq_getElem?_getD, hb']
    rw [e1, e2, pload_perm sizes asg hperm b]
    exact h.load b hb'


/-- What the two scans of `place` choose.  First-fit: the first open bin the item fits in; best-fit:
a bin the item fits in with the least remaining capacity; both report `none` (a new bin is opened)
only when the item fits no open bin. -/
theorem scan_spec (size : Rat) (bins : List Rat) :
    (match firstFit ratOps size bins 0 with
      | some b => b < bins.length ∧ size ≤ bins.getD b 0 ∧ ∀ j, j < b → ¬ size ≤ bins.getD j 0
      | none => ∀ j, j < bins.length → ¬ size ≤ bins.getD j 0) ∧
    (match bestFit ratOps size bins 0 none with
      | some (b, r) => b < bins.length ∧ r = bins.getD b 0 ∧ size ≤ r ∧
          ∀ j, j < bins.length → size ≤ bins.getD j 0 → r ≤ bins.getD j 0
      | none => ∀ j, j < bins.length → ¬ size ≤ bins.getD j 0) := by
  constructor
  · have := firstFit_spec size bins 0
    split
    · rename_i b hb
      rw [hb] at this
      simpa using this
    · rename_i hb
      rw [hb] at this
      exact this
  · split
    · rename_i b r hb
      rcases bestFit_some size bins 0 none b r hb with h | ⟨_, h2, h3, h4⟩
      · cases h
      · refine ⟨by simpa using h2, by simpa using h3, h4, fun j hj hfit => ?_⟩
        obtain ⟨b', r', h1, hle⟩ := (bestFit_min size bins 0 none).1 j hj hfit
        rw [hb] at h1
        cases h1
        exact hle
    · rename_i hb
      exact bestFit_none hb

/-- **binpack_two_approx.**  A proved approximation guarantee for all four heuristics (they are
"any-fit": a bin is opened only when the item fits no open bin, so any two open bins together hold
more than one capacity): the mirror never uses more than `2·k' - 1` bins, where `k'` is the number of
bins of *any* valid packing – in particular of an optimal one.  (The sharper `11/9·OPT + 6/9` of the
decreasing variants is checked per instance, not proved.) -/
theorem binpack_two_approx (sizes : List Rat) (cap : Rat) (useBest dec : Bool)
    (hn : sizes ≠ []) (hcap : 0 < cap) (hs : ∀ s ∈ sizes, 0 ≤ s ∧ s ≤ cap) :
    ∀ r, pack ratOps sizes cap useBest dec = .ok r →
      ∀ asg' k', ValidPack sizes cap asg' k' → r.k ≤ 2 * k' - 1 := by
  intro r hr asg' k' hv'
  obtain ⟨r0, hr0, hv, _, hk1, _⟩ := binpack_valid sizes cap useBest dec hn hcap hs
  have hk' := (validPack_lower_bound hv').2.2 hn
  -- identify r
  obtain ⟨hvv, _⟩ := packRun_valid sizes cap useBest dec hcap hs
  have hrk : r.k = (packRun ratOps sizes cap useBest dec).bins.length ∧ r.asg = (packRun ratOps sizes cap useBest dec).asg := by
    have h0 : sizes.length ≠ 0 := fun h => hn (List.eq_nil_of_length_eq_zero h)
    unfold pack at hr
    rw [if_neg h0] at hr
    split at hr
    · cases hr
    · split at hr
      · cases hr
      · cases hr; exact ⟨rfl, rfl⟩
  rw [hrk.1]
  generalize hk : (packRun ratOps sizes cap useBest dec).bins.length = k at *
  by_cases hk2 : 2 ≤ k
  · have inv := packRun_inv sizes cap useBest dec hcap hs
    have hperm := packOrder_perm sizes dec
    have hs0 : ∀ i, 0 ≤ sizes.getD i 0 := by
      intro i
      rcases Nat.lt_or_ge i sizes.length with hi | hi
      · have : sizes.getD i 0 = sizes[i] := by simp [List.getD_eq_getElem?_getD, hi]
        rw [this]; exact (hs _ (List.getElem_mem hi)).1
      · have : sizes.getD i 0 = 0 := by simp [List.getD_eq_getElem?_getD, List.getElem?_eq_none hi]
        rw [this]; exact Rat.le_refl
    have pinv : PairInv cap (packRun ratOps sizes cap useBest dec) :=
      foldl_place_pair sizes cap useBest hs0 _ _ (by intro b b' _ h; simp at h)
    have hload : ∀ b, b < k → loadOf sizes (packRun ratOps sizes cap useBest dec).asg b =
        cap - (packRun ratOps sizes cap useBest dec).bins.getD b 0 := by
      intro b hb
      have h1 := inv.rem b (by rw [hk]; exact hb)
      have h3 : loadOf sizes (packRun ratOps sizes cap useBest dec).asg b =
          pload sizes (packRun ratOps sizes cap useBest dec).asg (packOrder ratOps sizes dec) b := by
        rw [pload_perm sizes _ hperm b]; rfl
      rw [h3]; grind
    have hps := pair_sum cap (fun b => loadOf sizes (packRun ratOps sizes cap useBest dec).asg b) k
      (fun b _ => sum_map_nonneg _ _ (fun i _ => hs0 i))
      (fun b hb => by
        have := pinv b (b + 1) (by omega) (by rw [hk]; exact hb)
        show cap < loadOf sizes _ b + loadOf sizes _ (b + 1)
        rw [hload b (by omega), hload (b + 1) hb]; grind)
    have hlt := hps.2 hk2
    have hsum : ((List.range k).map fun b => loadOf sizes (packRun ratOps sizes cap useBest dec).asg b).sum = sizes.sum := by
      have h1 : sizes.sum = ((List.range sizes.length).map fun i => sizes.getD i 0).sum := by
        rw [← list_eq_map_getD]
      have h2 := sum_by_bins (fun i => sizes.getD i 0) (fun i => (packRun ratOps sizes cap useBest dec).asg.getD i 0) k
        (List.range sizes.length) (fun i hi => hvv.lt i (List.mem_range.1 hi))
      rw [h1, ← h2]; rfl
    rw [hsum] at hlt
    have hle := hv'.sum_le
    have : ((k / 2 : Nat) : Rat) < (k' : Rat) := by
      apply Rat.not_le.1
      intro hge
      have := Rat.mul_le_mul_of_nonneg_right hge (Rat.le_of_lt hcap)
      grind
    have := Rat.natCast_lt_natCast.1 this
    omega
  · omega


/-- the `-decreasing` variants really process the items largest first (and `packOrder` is a
permutation of the item indices either way) -/
theorem packOrder_sorted (sizes : List Rat) :
    (packOrder ratOps sizes true).Pairwise (fun i j => sizes.getD j 0 ≤ sizes.getD i 0) ∧
    ∀ dec, (packOrder ratOps sizes dec).Perm (List.range sizes.length) := by
  refine ⟨?_, packOrder_perm sizes⟩
  unfold packOrder
  simp only [if_true]
  have key := List.pairwise_mergeSort
    (le := fun i j => !(ratOps.lt (sizes.getD i ratOps.zero) (sizes.getD j ratOps.zero)))
    (by
      intro a b c h1 h2
      have h1' : ¬ sizes.getD a 0 < sizes.getD b 0 := by simpa [ratOps] using h1
      have h2' : ¬ sizes.getD b 0 < sizes.getD c 0 := by simpa [ratOps] using h2
      have : ¬ sizes.getD a 0 < sizes.getD c 0 := by grind
      simpa [ratOps] using this)
    (by
      intro a b
      by_cases h : sizes.getD a 0 < sizes.getD b 0
      · have : ¬ sizes.getD b 0 < sizes.getD a 0 := by grind
        have e : ratOps.lt (sizes.getD b ratOps.zero) (sizes.getD a ratOps.zero) = false := decide_eq_false this
        simp [e]
      · have e : ratOps.lt (sizes.getD a ratOps.zero) (sizes.getD b ratOps.zero) = false := decide_eq_false h
        simp [e])
    (List.range sizes.length)
  refine key.imp ?_
  intro i j h
  have : ¬ sizes.getD i 0 < sizes.getD j 0 := by simpa [ratOps] using h
  grind

/-- The inputs excluded by the hypotheses of `binpack_valid` are exactly those the code rejects or
answers trivially: no items gives `()`, 0 bins, OPTIMAL; a non-positive capacity, an item larger
than the capacity or a negative size raises `ValueError`. -/
theorem pack_excluded (sizes : List Rat) (cap : Rat) (useBest dec : Bool) :
    (sizes = [] → pack ratOps sizes cap useBest dec = .ok ⟨.OPTIMAL, [], 0⟩) ∧
    (sizes ≠ [] → (cap ≤ 0 ∨ ∃ s ∈ sizes, cap < s ∨ s < 0) →
      pack ratOps sizes cap useBest dec = .error "ValueError") := by
  constructor
  · rintro rfl; rfl
  · intro hn h
    have h0 : sizes.length ≠ 0 := fun h => hn (List.eq_nil_of_length_eq_zero h)
    unfold pack
    rw [if_neg h0]
    by_cases hc : cap ≤ 0
    · have : ratOps.le cap ratOps.zero = true := decide_eq_true hc
      rw [this]; rfl
    · have h1 : ratOps.le cap ratOps.zero = false := decide_eq_false hc
      rcases h with h | ⟨s, hs, hbad⟩
      · exact absurd h hc
      · have : sizes.any (fun s => ratOps.lt cap s || ratOps.lt s ratOps.zero) = true := by
          rw [List.any_eq_true]
          refine ⟨s, hs, ?_⟩
          rcases hbad with hb | hb
          · have : ratOps.lt cap s = true := decide_eq_true hb
            simp [this]
          · have : ratOps.lt s ratOps.zero = true := decide_eq_true hb
            simp [this]
        rw [h1, this]; rfl

/-! ## Non-vacuity -/

/-- textbook instance (weights 1,2,3, values 6,10,12, capacity 5): the DP selects items 1,2 -/
example : knapInt ratOps [(1, 6), (2, 10), (3, 12)] 5 = ([1, 2], 22) := by decide +kernel
example : KnapFeasible [(1, 6), (2, 10), (3, 12)] 5 [1, 2] := (chkSel_iff _ _ _).1 (by decide +kernel)
example : knapBest [(1, 6), (2, 10), (3, 12)] 5 = some 22 := by decide +kernel
example : knapBest (castItems [(1, 6), (2, 10), (3, 12)]) ((5 : Nat) : Rat) = some 22 := by
  rw [knapsack_dp_eq_knapBest]; decide +kernel
example : chkKnapsack [((1 : Rat) / 2, 3), (0, 1)] 0 [1] 1 = true := by decide +kernel
/-- exact scaling is possible: weights 0.1, 0.2, 0.3, capacity 0.5, scale 10 -/
example := knapsack_scaled_optimal [((1 : Rat) / 10, 10), ((2 : Rat) / 10, 20), ((3 : Rat) / 10, 30)]
  ((5 : Rat) / 10) 10 (by decide +kernel) [1, 2, 3] 5 rfl (by decide +kernel) (by decide +kernel)
example : KnapFeasible [(3, 5), (2, 4)] 4 (greedyFallback ratOps [(3, 5), (2, 4)] 4 false) :=
  greedy_fallback_valid _ _ _ (by decide +kernel)
/-- constants satisfying `ExactConsts` (scale cap 2 instead of 1000 to keep the example small) -/
def exConsts : KConsts Rat := ⟨100000, 2, 0, 0, (1 : Rat) / 2, 1⟩
example : ExactConsts exConsts :=
  ⟨⟨rfl, by decide +kernel, by decide +kernel, by decide +kernel, by decide +kernel⟩, rfl⟩
/-- weights 0.5, 1.5, capacity 2.5: scaled by 2 without loss, so the mirror says OPTIMAL and takes both -/
example : (knapMirror ratOps exConsts [3, 4] [(1 : Rat) / 2, (3 : Rat) / 2] [] [] ((5 : Rat) / 2) false).toOption.map
    (fun r => (r.status, r.sel, r.objective)) = some (.OPTIMAL, [0, 1], 7) := by decide +kernel
/-- weights 0.5, 1.3: scaling by 2 loses 0.6 -> FEASIBLE -/
example : (knapMirror ratOps exConsts [3, 4] [(1 : Rat) / 2, (13 : Rat) / 10] [] [] ((5 : Rat) / 2) false).toOption.map
    (fun r => r.status) = some .FEASIBLE := by decide +kernel
/-- the enumerator finds a packing of 8,4,4,1,0 into two bins of 10 and none into one -/
example : packsInto 10 [8, 4, 4, 1, 0] [] 2 = true ∧ packsInto 10 [8, 4, 4, 1, 0] [] 1 = false := by decide +kernel
example : minBinsP [4, 8, 1, 4, 0] 10 ≤ 2 :=
  minBinsP_le _ _ (by decide +kernel) (by decide +kernel) ((chkPack_iff _ _ [0, 1, 1, 0, 0] 2).1 (by decide +kernel))
example (useBest dec : Bool) := binpack_two_approx [4, 8, 1, 4, 0] 10 useBest dec (by simp) (by decide +kernel)
  (by decide +kernel)
example : firstFit ratOps 3 [2, 5, 3] 0 = some 1 ∧ (bestFit ratOps 3 [2, 5, 3] 0 none).map (·.1) = some 2 := by
  decide +kernel
/-- items of sizes 4,8,1,4,0 into bins of 10 with best-fit: two bins (the 1 goes next to the 8) -/
example : (pack ratOps [4, 8, 1, 4, 0] 10 true false).toOption.map (fun r => (r.asg, r.k)) =
    some ([0, 1, 1, 0, 0], 2) := by decide +kernel
example : ValidPack [4, 8, 1, 4, 0] 10 [0, 1, 1, 0, 0] 2 := (chkPack_iff _ _ _ _).1 (by decide +kernel)
/-- the hypotheses of `binpack_valid` hold of that instance, for all four heuristics -/
example (useBest dec : Bool) := binpack_valid [4, 8, 1, 4, 0] 10 useBest dec (by simp) (by decide +kernel)
  (by decide +kernel)

end Solvor.Pack
