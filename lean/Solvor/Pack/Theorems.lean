import Solvor.Pack.Model
/-! Pack: property theorems only (helper lemmas live in Lemmas.lean). -/
namespace Solvor.Pack

end Solvor.Pack
