import Solvor.Pack.BinLemmas
/-!
Pack: completeness of the packing enumerator `packsInto` and the lower bound `minBinsP`.
-/
namespace Solvor.Pack
attribute [-simp] List.getD_eq_getElem?_getD

/-! ### list facts -/

theorem perm_getD_eraseIdx (l : List Rat) : ∀ (b : Nat), b < l.length → l.Perm (l.getD b 0 :: l.eraseIdx b) := by
  induction l with
  | nil => intro b h; simp at h
  | cons x xs ih =>
    intro b h
    cases b with
    | zero => simp [List.getD_cons_zero]
    | succ b =>
      simp only [List.getD_cons_succ, List.eraseIdx_cons_succ]
      exact ((ih b (by simpa using h)).cons x).trans (List.Perm.swap _ _ _)

theorem set_perm_eraseIdx (l : List Rat) (x : Rat) : ∀ (b : Nat), b < l.length → (l.set b x).Perm (x :: l.eraseIdx b) := by
  induction l with
  | nil => intro b h; simp at h
  | cons y ys ih =>
    intro b h
    cases b with
    | zero => simp
    | succ b =>
      simp only [List.set_cons_succ, List.eraseIdx_cons_succ]
      exact ((ih b (by simpa using h)).cons y).trans (List.Perm.swap _ _ _)

theorem mem_of_getD (l : List Rat) (b : Nat) (h : b < l.length) : l.getD b 0 ∈ l := by
  have : l.getD b 0 = l[b] := by simp [List.getD_eq_getElem?_getD, h]
  rw [this]; exact List.getElem_mem h

/-- every capacity value not offered before is offered, together with the other bins -/
theorem choices_mem (post : List Rat) : ∀ (pre : List Rat) (r : Rat), r ∈ post → r ∉ pre →
    ∃ o, (r, o) ∈ choices pre post ∧ (pre.reverse ++ post).Perm (r :: o) := by
  induction post with
  | nil => intro pre r h; simp at h
  | cons x post ih =>
    intro pre r hr hpre
    unfold choices
    by_cases hx : x = r
    · subst hx
      have : pre.contains x = false := by
        cases h : pre.contains x
        · rfl
        · exact absurd (List.contains_iff_mem.1 h) hpre
      refine ⟨pre.reverse ++ post, ?_, List.perm_middle⟩
      rw [this]; simp
    · have hr' : r ∈ post := by
        rcases List.mem_cons.1 hr with h | h
        · exact absurd h.symm hx
        · exact h
      obtain ⟨o, ho, hp⟩ := ih (x :: pre) r hr' (by
        intro h
        rcases List.mem_cons.1 h with h | h
        · exact hx h.symm
        · exact hpre h)
      refine ⟨o, List.mem_append_right _ ho, ?_⟩
      simpa using hp

/-! ### completeness -/

/-- sum of the sizes of the `(size, bin)` pairs that sit in bin `b` -/
def pairLoad (pairs : List (Rat × Nat)) (b : Nat) : Rat := ((pairs.filter fun p => p.2 == b).map (·.1)).sum

theorem pairLoad_nonneg (pairs : List (Rat × Nat)) (h : ∀ p ∈ pairs, 0 ≤ p.1) (b : Nat) : 0 ≤ pairLoad pairs b := by
  unfold pairLoad
  induction pairs with
  | nil => simp
  | cons p ps ih =>
    have ih' := ih (fun q hq => h q (List.mem_cons_of_mem _ hq))
    have hp := h p List.mem_cons_self
    by_cases hb : p.2 = b
    · simp only [List.filter_cons, hb, beq_self_eq_true, if_true, List.map_cons, List.sum_cons]; grind
    · have : (p.2 == b) = false := by simpa using hb
      simp only [List.filter_cons, this, Bool.false_eq_true, if_false]; exact ih'

theorem pairLoad_cons (p : Rat × Nat) (ps : List (Rat × Nat)) (b : Nat) :
    pairLoad (p :: ps) b = (if p.2 = b then p.1 else 0) + pairLoad ps b := by
  unfold pairLoad
  by_cases hb : p.2 = b
  · simp [hb]
  · have : (p.2 == b) = false := by simpa using hb
    simp [this, hb, Rat.zero_add]

/-- **Completeness of the enumerator.**  If the items can be assigned (`pairs` = items with their
bin) to bins whose remaining capacities `B` are, up to order, the open bins plus `m` fresh bins,
without overfilling any, then `packsInto` finds a packing. -/
theorem packsInto_complete (cap : Rat) : ∀ (pairs : List (Rat × Nat)) (B opened : List Rat) (m : Nat),
    B.Perm (opened ++ List.replicate m cap) →
    (∀ p ∈ pairs, 0 ≤ p.1 ∧ p.2 < B.length) →
    (∀ b, b < B.length → pairLoad pairs b ≤ B.getD b 0) →
    packsInto cap (pairs.map (·.1)) opened m = true := by
  intro pairs
  induction pairs with
  | nil => intro B opened m _ _ _; rfl
  | cons p ps ih =>
    intro B opened m hperm hp hload
    obtain ⟨s, b0⟩ := p
    have hs := (hp (s, b0) List.mem_cons_self).1
    have hb0 : b0 < B.length := (hp (s, b0) List.mem_cons_self).2
    have hps : ∀ q ∈ ps, 0 ≤ q.1 ∧ q.2 < B.length := fun q hq => hp q (List.mem_cons_of_mem _ hq)
    have hnn := pairLoad_nonneg ps (fun q hq => (hps q hq).1)
    -- the first item fits its bin, and the rest fits the updated bins
    have hfit : s ≤ B.getD b0 0 := by
      have := hload b0 hb0
      rw [pairLoad_cons] at this
      simp only [if_true] at this
      have := hnn b0
      grind
    have hrest : ∀ b, b < (B.set b0 (B.getD b0 0 - s)).length →
        pairLoad ps b ≤ (B.set b0 (B.getD b0 0 - s)).getD b 0 := by
      intro b hb
      simp only [List.length_set] at hb
      have := hload b hb
      rw [pairLoad_cons] at this
      rw [getD_set_list]
      by_cases hbb : b0 = b
      · subst hbb
        rw [if_pos ⟨rfl, hb0⟩]
        simp only [if_true] at this
        grind
      · rw [if_neg (fun h => hbb h.1)]
        simp only [hbb, if_false] at this
        grind
    have hps' : ∀ q ∈ ps, 0 ≤ q.1 ∧ q.2 < (B.set b0 (B.getD b0 0 - s)).length := by
      simpa using hps
    have hB := perm_getD_eraseIdx B b0 hb0
    have hB' := set_perm_eraseIdx B (B.getD b0 0 - s) b0 hb0
    have hmem : B.getD b0 0 ∈ opened ++ List.replicate m cap := hperm.mem_iff.1 (mem_of_getD B b0 hb0)
    simp only [List.map_cons, packsInto, Bool.or_eq_true, List.any_eq_true, Bool.and_eq_true,
      decide_eq_true_eq]
    by_cases hop : B.getD b0 0 ∈ opened
    · left
      obtain ⟨o, ho, hpo⟩ := choices_mem opened [] (B.getD b0 0) hop (by simp)
      simp only [List.reverse_nil, List.nil_append] at hpo
      refine ⟨(B.getD b0 0, o), ho, hfit, ?_⟩
      apply ih (B.set b0 (B.getD b0 0 - s)) _ m _ hps' hrest
      -- B' ~ (r - s) :: eraseIdx,  eraseIdx ~ o ++ replicate
      have h1 : (B.getD b0 0 :: B.eraseIdx b0).Perm (B.getD b0 0 :: (o ++ List.replicate m cap)) :=
        hB.symm.trans (hperm.trans (hpo.append_right _))
      exact hB'.trans ((h1.cons_inv).cons _)
    · right
      have hrep : B.getD b0 0 ∈ List.replicate m cap := by
        rcases List.mem_append.1 hmem with h | h
        · exact absurd h hop
        · exact h
      obtain ⟨hm0, hcap⟩ := List.mem_replicate.1 hrep
      have hm : 0 < m := Nat.pos_of_ne_zero hm0
      refine ⟨⟨hm, by rw [← hcap]; exact hfit⟩, ?_⟩
      apply ih (B.set b0 (B.getD b0 0 - s)) _ (m - 1) _ hps' hrest
      have hsplit : List.replicate m cap = cap :: List.replicate (m - 1) cap := by
        cases m with
        | zero => omega
        | succ n => simp [List.replicate_succ]
      have h1 : (B.getD b0 0 :: B.eraseIdx b0).Perm (cap :: (opened ++ List.replicate (m - 1) cap)) := by
        refine hB.symm.trans (hperm.trans ?_)
        rw [hsplit]
        exact List.perm_middle
      rw [hcap] at h1 hB'
      rw [hcap]
      exact hB'.trans ((h1.cons_inv).cons _)

theorem leastFrom_le (p : Nat → Bool) (k : Nat) (hk : p k = true) : ∀ (fuel m : Nat), m ≤ k → leastFrom p m fuel ≤ k := by
  intro fuel
  induction fuel with
  | zero => intro m h; exact h
  | succ fuel ih =>
    intro m h
    unfold leastFrom
    split
    · exact h
    · rename_i hm
      have : m ≠ k := fun e => hm (e ▸ hk)
      exact ih (m + 1) (by omega)

theorem itemsDesc_perm (sizes : List Rat) : (itemsDesc sizes).Perm (List.range sizes.length) :=
  List.mergeSort_perm _ _

end Solvor.Pack
