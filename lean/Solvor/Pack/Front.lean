import Solvor.Pack.KnapDP
/-!
Pack: lemmas about the front end of `solve_knapsack` (`_scaled`, `_to_int_capacity`, CPython's
`sum`) at `ratOps`.
-/
namespace Solvor.Pack
attribute [-simp] List.getD_eq_getElem?_getD

theorem rat_abs_le_zero {a : Rat} (h : ratOps.le (ratOps.abs a) 0 = true) : a = 0 := by
  have h' : (if a < 0 then -a else a) ≤ 0 := by simpa [ratOps] using h
  split at h' <;> grind

/-- with a zero tolerance, `_scaled` reports `exact` only when nothing was dropped -/
theorem scaled_exact (c : KConsts Rat) (hc : c.scaleTol = 0) (x scale : Rat)
    (h : (scaled ratOps c x scale).2 = true) : (((scaled ratOps c x scale).1 : Nat) : Rat) = x * scale := by
  unfold scaled at h ⊢
  simp only at h ⊢
  split
  · rename_i hle
    rw [hc] at hle
    have := rat_abs_le_zero hle
    have e : ratOps.sub (ratOps.mul x scale) (ratOps.ofNat (ratOps.floorNat (ratOps.add (ratOps.mul x scale) c.half)))
        = x * scale - ((ratOps.floorNat (ratOps.add (ratOps.mul x scale) c.half) : Nat) : Rat) := rfl
    rw [e] at this
    grind
  · rename_i hle
    rw [if_neg hle] at h
    cases h

theorem pySum_rat (xs : List (Rat × Bool)) : pySum ratOps xs = (xs.map (·.1)).sum := by
  unfold pySum
  have key : ∀ (xs : List (Rat × Bool)) (f : Rat) (st : Bool),
      let r := xs.foldl (fun (st : Rat × Rat × Bool) (p : Rat × Bool) =>
        let (f, c, started) := st
        if p.2 then (ratOps.add f p.1, c, started)
        else if !started then (ratOps.add f p.1, c, true)
        else
          let t := ratOps.add f p.1
          if ratOps.le (ratOps.abs p.1) (ratOps.abs f) then (t, ratOps.add c (ratOps.add (ratOps.sub f t) p.1), true)
          else (t, ratOps.add c (ratOps.add (ratOps.sub p.1 t) f), true)) (f, 0, st)
      r.1 = f + (xs.map (·.1)).sum ∧ r.2.1 = 0 := by
    intro xs
    induction xs with
    | nil => intro f st; simp [Rat.add_zero]
    | cons p ps ih =>
      intro f st
      simp only [List.foldl_cons, List.map_cons, List.sum_cons]
      have hadd : ∀ a b : Rat, ratOps.add a b = a + b := fun _ _ => rfl
      have hsub : ∀ a b : Rat, ratOps.sub a b = a - b := fun _ _ => rfl
      split
      · obtain ⟨h1, h2⟩ := ih (ratOps.add f p.1) st
        exact ⟨by rw [h1, hadd]; grind, h2⟩
      · split
        · obtain ⟨h1, h2⟩ := ih (ratOps.add f p.1) true
          exact ⟨by rw [h1, hadd]; grind, h2⟩
        · split
          · have e : ratOps.add 0 (ratOps.add (ratOps.sub f (ratOps.add f p.1)) p.1) = 0 := by
              simp only [hadd, hsub]; grind
            rw [e]
            obtain ⟨h1, h2⟩ := ih (ratOps.add f p.1) true
            exact ⟨by rw [h1, hadd]; grind, h2⟩
          · have e : ratOps.add 0 (ratOps.add (ratOps.sub p.1 (ratOps.add f p.1)) f) = 0 := by
              simp only [hadd, hsub]; grind
            rw [e]
            obtain ⟨h1, h2⟩ := ih (ratOps.add f p.1) true
            exact ⟨by rw [h1, hadd]; grind, h2⟩
  obtain ⟨h1, h2⟩ := key xs 0 false
  simp only at h1 h2
  show (if ratOps.isZero _ = true then _ else _) = _
  have hz : ratOps.zero = (0 : Rat) := rfl
  rw [hz, h2]
  have : ratOps.isZero (0 : Rat) = true := by simp [ratOps]
  rw [this, if_pos rfl, h1]; grind


theorem getD_zip_fst (xs : List Rat) (fl : List Bool) (i : Nat) (h : xs.length ≤ fl.length) :
    ((xs.zip fl).getD i (0, true)).1 = xs.getD i 0 := by
  rcases Nat.lt_or_ge i xs.length with hi | hi
  · have : (xs.zip fl)[i]? = some (xs[i], fl[i]'(by omega)) := by
      rw [List.getElem?_eq_getElem (by simp; omega)]; simp
    simp [List.getD_eq_getElem?_getD, this, hi]
  · have h1 : (xs.zip fl)[i]? = none := List.getElem?_eq_none (by simp; omega)
    have h2 : xs[i]? = none := List.getElem?_eq_none hi
    simp [List.getD_eq_getElem?_getD, h1, h2]

theorem sumAt_rat (xs : List Rat) (fl : List Bool) (sel : List Nat) (h : xs.length ≤ fl.length) :
    sumAt ratOps (xs.zip fl) sel = (sel.map fun i => xs.getD i 0).sum := by
  unfold sumAt
  rw [pySum_rat, List.map_map]
  congr 1
  apply List.map_congr_left
  intro i _
  exact getD_zip_fst xs fl i h

theorem getD_zip_pair (ws vs : List Rat) (i : Nat) (h : ws.length = vs.length) :
    (ws.zip vs).getD i (0, 0) = (ws.getD i 0, vs.getD i 0) := by
  rcases Nat.lt_or_ge i ws.length with hi | hi
  · have : (ws.zip vs)[i]? = some (ws[i], vs[i]'(by omega)) := by
      rw [List.getElem?_eq_getElem (by simp; omega)]; simp
    simp [List.getD_eq_getElem?_getD, this, hi, show i < vs.length by omega]
  · have h1 : (ws.zip vs)[i]? = none := List.getElem?_eq_none (by simp; omega)
    have h2 : ws[i]? = none := List.getElem?_eq_none hi
    have h3 : vs[i]? = none := List.getElem?_eq_none (by omega)
    simp [List.getD_eq_getElem?_getD, h1, h2, h3]

theorem selW_zip (ws vs : List Rat) (sel : List Nat) (h : ws.length = vs.length) :
    selW (ws.zip vs) sel = (sel.map fun i => ws.getD i 0).sum := by
  unfold selW
  congr 1
  apply List.map_congr_left
  intro i _
  rw [getD_zip_pair ws vs i h]

theorem selV_zip (ws vs : List Rat) (sel : List Nat) (h : ws.length = vs.length) :
    selV (ws.zip vs) sel = (sel.map fun i => vs.getD i 0).sum := by
  unfold selV
  congr 1
  apply List.map_congr_left
  intro i _
  rw [getD_zip_pair ws vs i h]

/-- hypotheses on the literals of `knapsack.py` that the source's values satisfy -/
structure GoodConsts (c : KConsts Rat) : Prop where
  one : c.one = 1
  maxCapacity : 0 < c.maxCapacity
  maxScale : 0 < c.maxScale
  weightTol : 0 ≤ c.weightTol
  scaleTolNonneg : 0 ≤ c.scaleTol

/-- ... plus a zero scaling tolerance (the source has `1e-9`, to absorb float noise): the
hypotheses of the exact-arithmetic statements -/
structure ExactConsts (c : KConsts Rat) : Prop extends GoodConsts c where
  scaleTol : c.scaleTol = 0

theorem toIntCapacity_scale_pos (c : KConsts Rat) (hc : ExactConsts c) (cap : Rat) (wts : List Rat) :
    0 < (toIntCapacity ratOps c cap wts).2 := by
  unfold toIntCapacity
  split
  · simp only [hc.one]; decide
  · split
    · simp only [hc.one]; decide
    · rename_i h
      have hcap : 0 < cap := by
        have : ¬ cap ≤ 0 := by simpa [ratOps] using h
        grind
      simp only
      unfold pyMin
      split
      · exact hc.maxScale
      · show 0 < c.maxCapacity / cap
        rw [Rat.div_def]; exact Rat.mul_pos hc.maxCapacity (Rat.inv_pos.2 hcap)

theorem toIntCapacity_exact (c : KConsts Rat) (hc : ExactConsts c) (cap : Rat) (hcap : 0 ≤ cap) (wts : List Rat)
    (h : (scaled ratOps c cap (toIntCapacity ratOps c cap wts).2).2 = true) :
    (((toIntCapacity ratOps c cap wts).1 : Nat) : Rat) = cap * (toIntCapacity ratOps c cap wts).2 := by
  unfold toIntCapacity at h ⊢
  split
  · rename_i hall
    have hi : ratOps.isInt cap = true := by
      have := List.all_eq_true.1 hall cap List.mem_cons_self
      exact this
    have hfl : ((cap.floor : Int) : Rat) = cap := by simpa [ratOps] using hi
    have h0 : 0 ≤ cap.floor := by
      have : ((0 : Int) : Rat) ≤ cap := by simpa using hcap
      exact Rat.le_floor_iff.2 this
    show (((cap.floor.toNat : Nat)) : Rat) = cap * c.one
    rw [hc.one, ← Rat.intCast_natCast, Int.toNat_of_nonneg h0, hfl]; grind
  · split
    · rename_i hle
      have : cap ≤ 0 := by simpa [ratOps] using hle
      have : cap = 0 := by grind
      subst this
      simp
    · rename_i hall hle
      rw [if_neg hall, if_neg hle] at h
      exact scaled_exact c hc.scaleTol _ _ h


theorem scaleWeights_length (c : KConsts Rat) (wts : List Rat) (scale : Rat) :
    ((scaleWeights ratOps c wts scale).map (·.1)).length = wts.length := by
  simp [scaleWeights]

theorem scaleWeights_exact (c : KConsts Rat) (hc : ExactConsts c) (wts : List Rat) (hw : ∀ w ∈ wts, 0 ≤ w)
    (scale : Rat) (h : (scaleWeights ratOps c wts scale).all (·.2) = true) :
    ∀ i, i < wts.length →
      ((((scaleWeights ratOps c wts scale).map (·.1)).getD i 0 : Nat) : Rat) = wts.getD i 0 * scale := by
  intro i hi
  have hget : wts.getD i 0 = wts[i] := by simp [List.getD_eq_getElem?_getD, hi]
  have hmem : wts[i] ∈ wts := List.getElem_mem hi
  unfold scaleWeights at h ⊢
  have hall := List.all_eq_true.1 h _ (List.mem_map.2 ⟨wts[i], hmem, rfl⟩)
  have key : ∀ (f : Rat → Nat × Bool), ((wts.map f).map (·.1)).getD i 0 = (f wts[i]).1 := by
    intro f; simp [List.getD_eq_getElem?_getD, hi]
  rw [key, hget]
  by_cases hpos : ratOps.lt ratOps.zero wts[i] = true
  · simp only [hpos, if_true] at hall ⊢
    simp only [Bool.and_eq_true, decide_eq_true_eq] at hall
    have := scaled_exact c hc.scaleTol wts[i] scale hall.1
    rw [Nat.max_eq_right hall.2]
    exact this
  · simp only [hpos, Bool.false_eq_true, if_false]
    have : ¬ (0 : Rat) < wts[i] := by simpa [ratOps] using hpos
    have h0 := hw _ hmem
    have : wts[i] = 0 := by grind
    rw [this]; simp

theorem feasible_zip_congr (wts vs vs' : List Rat) (cap : Rat) (sel : List Nat)
    (h1 : wts.length = vs.length) (h2 : wts.length = vs'.length) :
    KnapFeasible (wts.zip vs) cap sel ↔ KnapFeasible (wts.zip vs') cap sel := by
  have e : selW (wts.zip vs) sel = selW (wts.zip vs') sel := by rw [selW_zip _ _ _ h1, selW_zip _ _ _ h2]
  have l1 : (wts.zip vs).length = (wts.zip vs').length := by simp; omega
  constructor
  · intro h; exact ⟨h.nodup, by rw [← l1]; exact h.inRange, by rw [← e]; exact h.fits⟩
  · intro h; exact ⟨h.nodup, by rw [l1]; exact h.inRange, by rw [e]; exact h.fits⟩

theorem rat_abs_le {a t : Rat} (h : ratOps.le (ratOps.abs a) t = true) : -t ≤ a ∧ a ≤ t := by
  have h' : (if a < 0 then -a else a) ≤ t := by simpa [ratOps] using h
  split at h' <;> grind

theorem scaled_near (c : KConsts Rat) (x scale : Rat)
    (h : (scaled ratOps c x scale).2 = true) :
    -c.scaleTol ≤ x * scale - (((scaled ratOps c x scale).1 : Nat) : Rat) ∧
    x * scale - (((scaled ratOps c x scale).1 : Nat) : Rat) ≤ c.scaleTol := by
  unfold scaled at h ⊢
  simp only at h ⊢
  split
  · rename_i hle
    exact rat_abs_le hle
  · rename_i hle
    rw [if_neg hle] at h
    cases h

theorem nodup_range_length : ∀ (n : Nat) (sel : List Nat), sel.Nodup → (∀ i ∈ sel, i < n) → sel.length ≤ n := by
  intro n
  induction n with
  | zero =>
    intro sel _ hr
    cases sel with
    | nil => simp
    | cons i s => exact absurd (hr i List.mem_cons_self) (by simp)
  | succ n ih =>
    intro sel hnd hr
    by_cases hm : n ∈ sel
    · obtain ⟨_, hnd', hr'⟩ := sel_split hnd hr hm
      have := ih _ hnd' hr'
      rw [List.length_erase_of_mem hm] at this
      omega
    · have := ih sel hnd (sel_lt_of_not_mem hr hm)
      omega


theorem scaled_sums_near (items : List (Rat × Rat)) (scale τ : Rat) (iw : List Nat) (hlen : iw.length = items.length)
    (hw : ∀ i, i < items.length → -τ ≤ (items.getD i (0, 0)).1 * scale - ((iw.getD i 0 : Nat) : Rat) ∧
      (items.getD i (0, 0)).1 * scale - ((iw.getD i 0 : Nat) : Rat) ≤ τ) :
    ∀ sel : List Nat, (∀ i ∈ sel, i < items.length) →
      -((sel.length : Nat) * τ) ≤ selW items sel * scale - ((selWN (iw.zip (items.map (·.2))) sel : Nat) : Rat) ∧
      selW items sel * scale - ((selWN (iw.zip (items.map (·.2))) sel : Nat) : Rat) ≤ (sel.length : Nat) * τ ∧
      selVN (iw.zip (items.map (·.2))) sel = selV items sel := by
  intro sel
  induction sel with
  | nil => intro _; simp [selWN, selVN, selW, selV]; exact ⟨by grind, by grind⟩
  | cons i s ih =>
    intro h
    have hi := h i List.mem_cons_self
    obtain ⟨a1, a2, b⟩ := ih (fun j hj => h j (List.mem_cons_of_mem _ hj))
    obtain ⟨w1, w2⟩ := hw i hi
    have e := getD_zip_items iw (items.map (·.2)) i (by omega) (by simpa using hi)
    have e2 : (items.map (·.2)).getD i 0 = (items.getD i (0, 0)).2 := by
      simp [List.getD_eq_getElem?_getD, hi]
    have el : (((i :: s).length : Nat) : Rat) = (s.length : Nat) + 1 := by simp
    rw [selWN_cons, selVN_cons, selW_cons, selV_cons, e, Rat.natCast_add, b, e2, el]
    refine ⟨by grind, by grind, rfl⟩

theorem toIntCapacity_scale_pos' (c : KConsts Rat) (hc : GoodConsts c) (cap : Rat) (wts : List Rat) :
    0 < (toIntCapacity ratOps c cap wts).2 := by
  unfold toIntCapacity
  split
  · simp only [hc.one]; decide
  · split
    · simp only [hc.one]; decide
    · rename_i h
      have hcap : 0 < cap := by
        have : ¬ cap ≤ 0 := by simpa [ratOps] using h
        grind
      simp only
      unfold pyMin
      split
      · exact hc.maxScale
      · show 0 < c.maxCapacity / cap
        rw [Rat.div_def]; exact Rat.mul_pos hc.maxCapacity (Rat.inv_pos.2 hcap)

theorem toIntCapacity_near (c : KConsts Rat) (hc : GoodConsts c) (cap : Rat) (hcap : 0 ≤ cap) (wts : List Rat)
    (h : (scaled ratOps c cap (toIntCapacity ratOps c cap wts).2).2 = true) :
    -c.scaleTol ≤ cap * (toIntCapacity ratOps c cap wts).2 - (((toIntCapacity ratOps c cap wts).1 : Nat) : Rat) ∧
    cap * (toIntCapacity ratOps c cap wts).2 - (((toIntCapacity ratOps c cap wts).1 : Nat) : Rat) ≤ c.scaleTol := by
  have hτ := hc.scaleTolNonneg
  unfold toIntCapacity at h ⊢
  split
  · rename_i hall
    have hi : ratOps.isInt cap = true := List.all_eq_true.1 hall cap List.mem_cons_self
    have hfl : ((cap.floor : Int) : Rat) = cap := by simpa [ratOps] using hi
    have h0 : 0 ≤ cap.floor := by
      have : ((0 : Int) : Rat) ≤ cap := by simpa using hcap
      exact Rat.le_floor_iff.2 this
    have e : (((cap.floor.toNat : Nat)) : Rat) = cap := by
      rw [← Rat.intCast_natCast, Int.toNat_of_nonneg h0, hfl]
    show -c.scaleTol ≤ cap * c.one - ((cap.floor.toNat : Nat) : Rat) ∧ cap * c.one - ((cap.floor.toNat : Nat) : Rat) ≤ c.scaleTol
    rw [hc.one, e]
    exact ⟨by grind, by grind⟩
  · split
    · rename_i hle
      have : cap ≤ 0 := by simpa [ratOps] using hle
      have : cap = 0 := by grind
      subst this
      simp only [Rat.zero_mul]
      exact ⟨by simp; grind, by simp; grind⟩
    · rename_i hall hle
      rw [if_neg hall, if_neg hle] at h
      exact scaled_near c _ _ h

theorem scaleWeights_near (c : KConsts Rat) (hc : GoodConsts c) (wts : List Rat) (hw : ∀ w ∈ wts, 0 ≤ w)
    (scale : Rat) (h : (scaleWeights ratOps c wts scale).all (·.2) = true) :
    ∀ i, i < wts.length →
      -c.scaleTol ≤ wts.getD i 0 * scale - ((((scaleWeights ratOps c wts scale).map (·.1)).getD i 0 : Nat) : Rat) ∧
      wts.getD i 0 * scale - ((((scaleWeights ratOps c wts scale).map (·.1)).getD i 0 : Nat) : Rat) ≤ c.scaleTol := by
  intro i hi
  have hτ := hc.scaleTolNonneg
  have hget : wts.getD i 0 = wts[i] := by simp [List.getD_eq_getElem?_getD, hi]
  have hmem : wts[i] ∈ wts := List.getElem_mem hi
  unfold scaleWeights at h ⊢
  have hall := List.all_eq_true.1 h _ (List.mem_map.2 ⟨wts[i], hmem, rfl⟩)
  have key : ∀ (f : Rat → Nat × Bool), ((wts.map f).map (·.1)).getD i 0 = (f wts[i]).1 := by
    intro f; simp [List.getD_eq_getElem?_getD, hi]
  rw [key, hget]
  by_cases hpos : ratOps.lt ratOps.zero wts[i] = true
  · simp only [hpos, if_true] at hall ⊢
    simp only [Bool.and_eq_true, decide_eq_true_eq] at hall
    have := scaled_near c wts[i] scale hall.1
    rw [Nat.max_eq_right hall.2]
    exact this
  · simp only [hpos, Bool.false_eq_true, if_false]
    have : ¬ (0 : Rat) < wts[i] := by simpa [ratOps] using hpos
    have h0 := hw _ hmem
    have : wts[i] = 0 := by grind
    rw [this]
    simp only [Rat.zero_mul]
    exact ⟨by simp; grind, by simp; grind⟩

end Solvor.Pack
