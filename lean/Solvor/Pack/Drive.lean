import Solvor.Common.Proto
import Solvor.Pack.Model
/-! Pack: line-protocol handler.

`["knap", wR, vR, [capStrict, capFeas, capOpt], wBits, vBits, capBits, wIsInt, vIsInt, minimize, implSel|null, implObj|null]`
  wR/vR/cap*  : weights, values, capacities as exact rationals `[num, den]` (the exact values of the
                doubles handed to Python; capFeas/capOpt = capacity plus/minus the documented tolerance)
  wBits/vBits/capBits : the same doubles as bit patterns (Float mirror)
  reply `[status|"ValueError", sel, objectiveBits, fallback, lossless, intCap,   -- Float mirror of solve_knapsack
          bestOpt|null, bestStrict|null,                 -- knapBest of (±values) at capOpt / capStrict (n ≤ 20)
          [chkSel@capFeas, chkKnapsack@capFeas, selWeight, selValue] | null,  -- verified checkers on the implementation's answer
          [dpSel, dpValue] | null]`                      -- proved DP (ratOps) when weights/capacity are integers

`["fallback", wR, vR, capFeas, wBits, vBits, capBits, vIsInt, minimize, implSel|null]`  (`_greedy_fallback` directly)
  reply `[sel, objectiveBits, [chkSel@capFeas, selWeight, selValue]|null]`
`["intcap", wBits, capBits]`  (`_to_int_capacity`, then `_scaled(w, scale)` per weight)
  reply `[intCapacity, scaleBits, [[int, exact] per weight]]`

`["pack", sR, [capStrict, capFeas], sBits, capBits, algorithm, implAsg|null, implK|null, readings, planted|null]`
  planted  : `[asg, k]`, a packing known by construction (generator); checked with `chkPack` at capStrict
  readings : list of `[cap, sizes]` (exact rationals) for which the optimum is wanted (strict /
             tolerant / shrunk capacity, see ASSUMPTIONS of the check); may be empty
  reply `[[statusF|"ValueError", asgF, kF],              -- Float mirror of solve_bin_pack (name parsing included)
          [statusR|"ValueError", asgR, kR, chkR],        -- Rat mirror (theorem subject) at capStrict + checker on it
          chkImpl@capFeas|null,
          [[minBins, chkPack on its packing, minBinsP] per reading],
              -- fast search + verified certificate (upper bound) and the proved lower bound `minBinsP`
          ceil(sum/capFeas),
          chkPack on the planted packing | null]`
-/
namespace Solvor.Pack
open Solvor.Proto

def fOfBits (b : Nat) : Float := Float.ofBits b.toUInt64

def isNatRat (q : Rat) : Bool := q.den == 1 && decide (0 ≤ q.num)

def toBools? (v : Val) : Option (List Bool) := do (← v.toArr?).mapM Val.toBool?

def handleKnap (wR vR : List Rat) (caps : List Rat) (wB vB : List Nat) (capB : Nat) (wI vI : List Bool) (minimize : Bool)
    (implSel : Option (List Nat)) (implObj : Option Rat) : Val :=
  let capS := caps.getD 0 0
  let capF := caps.getD 1 capS
  let capO := caps.getD 2 capS
  let mir := knapMirror floatOps floatConsts (vB.map fOfBits) (wB.map fOfBits) vI wI (fOfBits capB) minimize
  let sign : Rat := if minimize then -1 else 1
  let items := wR.zip vR
  let sitems := wR.zip (vR.map (sign * ·))
  let ok := wR.length = vR.length && decide (wR.length ≤ 20)   -- the 2^n enumeration only for small n
  let bestO := if ok then knapBest sitems capO else none
  let bestS := if ok then knapBest sitems capS else none
  let chk : Val := match implSel, implObj with
    | some s, some ob => Val.arr [Val.bool (chkSel items capF s), Val.bool (chkKnapsack items capF s ob),
        Val.ofRat (selW items s), Val.ofRat (selV items s)]
    | _, _ => Val.null
  let dp : Val :=
    if wR.length = vR.length && wR.all isNatRat && isNatRat capS && decide (capS.num.toNat ≤ 200000) then
      let r := knapInt ratOps ((wR.map (·.num.toNat)).zip (vR.map (sign * ·))) capS.num.toNat
      Val.arr [Val.ofNats r.1, Val.ofRat r.2]
    else Val.null
  let head : List Val := match mir with
    | .error e => [Val.str e, Val.arr [], Val.int 0, Val.bool false, Val.bool false, Val.int 0]
    | .ok r => [Val.str r.status.name, Val.ofNats r.sel, Val.int r.objective.toBits.toNat, Val.bool r.fallback,
        Val.bool r.lossless, Val.int r.intCap]
  Val.arr (head ++ [Val.ofOpt Val.ofRat bestO, Val.ofOpt Val.ofRat bestS, chk, dp])

/-- `_greedy_fallback(values, weights, capacity, minimize)` called directly -/
def handleFallback (wR vR : List Rat) (capF : Rat) (wB vB : List Nat) (capB : Nat) (vI : List Bool) (minimize : Bool)
    (implSel : Option (List Nat)) : Val :=
  let ws := wB.map fOfBits
  let vs := vB.map fOfBits
  let sel := greedyFallback floatOps (ws.zip vs) (fOfBits capB) minimize
  let obj := sumAt floatOps (vs.zip (vI ++ List.replicate vs.length false)) sel
  let items := wR.zip vR
  let chk : Val := match implSel with
    | some s => Val.arr [Val.bool (chkSel items capF s), Val.ofRat (selW items s), Val.ofRat (selV items s)]
    | none => Val.null
  Val.arr [Val.ofNats sel, Val.int obj.toBits.toNat, chk]

/-- `_to_int_capacity(capacity, weights)` and `_scaled(w, scale)` for every weight -/
def handleIntCap (wB : List Nat) (capB : Nat) : Val :=
  let ws := wB.map fOfBits
  let ic := toIntCapacity floatOps floatConsts (fOfBits capB) ws
  Val.arr [Val.int ic.1, Val.int ic.2.toBits.toNat,
    Val.arr (ws.map fun w => let r := scaled floatOps floatConsts w ic.2; Val.arr [Val.int r.1, Val.bool r.2])]

def packVal : Except String PackRes → List Val
  | .error e => [Val.str e, Val.arr [], Val.int 0]
  | .ok r => [Val.str r.status.name, Val.ofNats r.asg, Val.int r.k]

def handlePack (sR : List Rat) (caps : List Rat) (sB : List Nat) (capB : Nat) (algorithm : String)
    (implAsg : Option (List Nat)) (implK : Option Nat) (readings : List (Rat × List Rat))
    (planted : Option (List Nat × Nat)) : Val :=
  let capS := caps.getD 0 0
  let capF := caps.getD 1 capS
  let mf := packNamed floatOps (sB.map fOfBits) (fOfBits capB) algorithm
  let mr := packNamed ratOps sR capS algorithm
  let chkR : Bool := match mr with
    | .ok r => chkPack sR capS r.asg r.k
    | .error _ => false
  let chkI : Val := match implAsg, implK with
    | some a, some k => Val.bool (chkPack sR capF a k)
    | _, _ => Val.null
  let opt : Val := Val.arr (readings.map fun (c, ss) =>
    if decide (0 < c) && ss.all (fun s => decide (0 ≤ s) && decide (s ≤ c)) then
      let r := minBins ss c
      Val.arr [Val.int r.1, Val.bool (chkPack ss c r.2 r.1), Val.int (minBinsP ss c)]
    else Val.null)
  let lb : Int := if 0 < capF then (sR.sum / capF).ceil else 0
  let pl : Val := match planted with
    | some (a, k) => Val.bool (chkPack sR capS a k)
    | none => Val.null
  Val.arr [Val.arr (packVal mf), Val.arr (packVal mr ++ [Val.bool chkR]), chkI, opt, Val.int lb, pl]

def readings? (v : Val) : Option (List (Rat × List Rat)) := do
  (← v.toArr?).mapM fun r => match r with
    | Val.arr [c, ss] => do pure (← c.toRat?, ← ss.toRats?)
    | _ => none

def planted? (v : Val) : Option (List Nat × Nat) :=
  match v with
  | Val.arr [a, k] => do pure (← a.toNats?, ← k.toNat?)
  | _ => none

def handle (line : String) : String :=
  match request line with
  | some ("knap", [wR, vR, caps, wB, vB, capB, wI, vI, mn, isel, iobj]) =>
    match wR.toRats?, vR.toRats?, caps.toRats?, wB.toNats?, vB.toNats?, capB.toNat?, toBools? wI, toBools? vI,
          mn.toBool?, isel.toOpt? Val.toNats?, iobj.toOpt? Val.toRat? with
    | some wR, some vR, some caps, some wB, some vB, some capB, some wI, some vI, some mn, some isel, some iobj =>
      (handleKnap wR vR caps wB vB capB wI vI mn isel iobj).render
    | _, _, _, _, _, _, _, _, _, _, _ => err "bad arguments"
  | some ("fallback", [wR, vR, capF, wB, vB, capB, vI, mn, isel]) =>
    match wR.toRats?, vR.toRats?, capF.toRat?, wB.toNats?, vB.toNats?, capB.toNat?, toBools? vI, mn.toBool?,
          isel.toOpt? Val.toNats? with
    | some wR, some vR, some capF, some wB, some vB, some capB, some vI, some mn, some isel =>
      (handleFallback wR vR capF wB vB capB vI mn isel).render
    | _, _, _, _, _, _, _, _, _ => err "bad arguments"
  | some ("intcap", [wB, capB]) =>
    match wB.toNats?, capB.toNat? with
    | some wB, some capB => (handleIntCap wB capB).render
    | _, _ => err "bad arguments"
  | some ("pack", [sR, caps, sB, capB, algo, iasg, ik, wo, pl]) =>
    match sR.toRats?, caps.toRats?, sB.toNats?, capB.toNat?, algo.toStr?,
          iasg.toOpt? Val.toNats?, ik.toOpt? Val.toNat?, readings? wo, pl.toOpt? planted? with
    | some sR, some caps, some sB, some capB, some algo, some iasg, some ik, some wo, some pl =>
      (handlePack sR caps sB capB algo iasg ik wo pl).render
    | _, _, _, _, _, _, _, _, _ => err "bad arguments"
  | _ => err "bad request"

end Solvor.Pack
