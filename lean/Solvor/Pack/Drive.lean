import Solvor.Common.Proto
import Solvor.Pack.Model
/-! Pack: line-protocol handler. One request line in, one reply line out. -/
namespace Solvor.Pack

def handle (line : String) : String := "unimplemented " ++ line

end Solvor.Pack
