import Solvor.Common.Proto
import Solvor.Pack.Model
/-! Pack: line-protocol handler.

`["knap", wR, vR, capR, wBits, vBits, capBits, minimize, implSel|null, implObj|null]`
  wR/vR/capR  : weights, values, capacity as exact rationals `[num, den]` (the decimals the
                generator wrote; spec side);  wBits/vBits/capBits : the doubles handed to Python
  reply `[status|"ValueError", sel, fallback, lossless, intCap,      -- Float mirror of solve_knapsack
          best|null,                                                  -- knapBest of (±values) on the rationals
          [chkSel, chkKnapsack, selWeight, selValue] | null,              -- verified checkers on the implementation's answer
          [dpSel, dpValue] | null]`                                   -- proved DP (ratOps) when weights/capacity are integers

`["pack", sR, capR, sBits, capBits, useBest, decreasing, implAsg|null, implK|null, wantOpt]`
  reply `[[statusF|"ValueError", asgF, kF],                           -- Float mirror of solve_bin_pack
          [statusR|"ValueError", asgR, kR, chkR],                     -- Rat mirror (theorem subject) + checker on it
          chkImpl|null,
          [minBins, witness assignment, chkPack on the witness] | null,   -- bounded oracle + verified certificate
          ceil(sum/cap)]`
-/
namespace Solvor.Pack
open Solvor.Proto

def fOfBits (b : Nat) : Float := Float.ofBits b.toUInt64

def isNatRat (q : Rat) : Bool := q.den == 1 && decide (0 ≤ q.num)

def handleKnap (wR vR : List Rat) (capR : Rat) (wB vB : List Nat) (capB : Nat) (minimize : Bool)
    (implSel : Option (List Nat)) (implObj : Option Rat) : Val :=
  let mir := knapMirror (vB.map fOfBits) (wB.map fOfBits) (fOfBits capB) minimize
  let sign : Rat := if minimize then -1 else 1
  let items := wR.zip vR
  let sitems := wR.zip (vR.map (sign * ·))
  let best := if wR.length = vR.length then knapBest sitems capR else none
  let chk : Val := match implSel, implObj with
    | some s, some ob => Val.arr [Val.bool (chkSel items capR s), Val.bool (chkKnapsack items capR s ob), Val.ofRat (selW items s), Val.ofRat (selV items s)]
    | _, _ => Val.null
  let dp : Val :=
    if wR.length = vR.length && wR.all isNatRat && isNatRat capR && decide (capR.num.toNat ≤ 200000) then
      let r := knapInt ratOps ((wR.map (·.num.toNat)).zip (vR.map (sign * ·))) capR.num.toNat
      Val.arr [Val.ofNats r.1, Val.ofRat r.2]
    else Val.null
  let head : List Val := match mir with
    | .error e => [Val.str e, Val.arr [], Val.bool false, Val.bool false, Val.int 0]
    | .ok r => [Val.str r.status.name, Val.ofNats r.sel, Val.bool r.fallback, Val.bool r.lossless, Val.int r.intCap]
  Val.arr (head ++ [Val.ofOpt Val.ofRat best, chk, dp])

def packVal : Except String PackRes → List Val
  | .error e => [Val.str e, Val.arr [], Val.int 0]
  | .ok r => [Val.str r.status.name, Val.ofNats r.asg, Val.int r.k]

def handlePack (sR : List Rat) (capR : Rat) (sB : List Nat) (capB : Nat) (useBest decreasing : Bool)
    (implAsg : Option (List Nat)) (implK : Option Nat) (wantOpt : Bool) : Val :=
  let mf := pack floatOps (sB.map fOfBits) (fOfBits capB) useBest decreasing
  let mr := pack ratOps sR capR useBest decreasing
  let chkR : Bool := match mr with
    | .ok r => chkPack sR capR r.asg r.k
    | .error _ => false
  let chkI : Val := match implAsg, implK with
    | some a, some k => Val.bool (chkPack sR capR a k)
    | _, _ => Val.null
  let opt : Val := if wantOpt && decide (0 < capR) then
      let r := minBins sR capR
      Val.arr [Val.int r.1, Val.ofNats r.2, Val.bool (chkPack sR capR r.2 r.1)]
    else Val.null
  let lb : Int := if 0 < capR then (sR.sum / capR).ceil else 0
  Val.arr [Val.arr (packVal mf), Val.arr (packVal mr ++ [Val.bool chkR]), chkI, opt, Val.int lb]

def handle (line : String) : String :=
  match request line with
  | some ("knap", [wR, vR, capR, wB, vB, capB, mn, isel, iobj]) =>
    match wR.toRats?, vR.toRats?, capR.toRat?, wB.toNats?, vB.toNats?, capB.toNat?, mn.toBool?,
          isel.toOpt? Val.toNats?, iobj.toOpt? Val.toRat? with
    | some wR, some vR, some capR, some wB, some vB, some capB, some mn, some isel, some iobj =>
      (handleKnap wR vR capR wB vB capB mn isel iobj).render
    | _, _, _, _, _, _, _, _, _ => err "bad arguments"
  | some ("pack", [sR, capR, sB, capB, ub, dec, iasg, ik, wo]) =>
    match sR.toRats?, capR.toRat?, sB.toNats?, capB.toNat?, ub.toBool?, dec.toBool?,
          iasg.toOpt? Val.toNats?, ik.toOpt? Val.toNat?, wo.toBool? with
    | some sR, some capR, some sB, some capB, some ub, some dec, some iasg, some ik, some wo =>
      (handlePack sR capR sB capB ub dec iasg ik wo).render
    | _, _, _, _, _, _, _, _, _ => err "bad arguments"
  | _ => err "bad request"

end Solvor.Pack
