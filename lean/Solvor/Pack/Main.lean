import Solvor.Pack.Drive
def main : IO Unit := Solvor.Proto.serve Solvor.Pack.handle
