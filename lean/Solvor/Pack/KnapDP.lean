import Solvor.Pack.Lemmas
/-!
Pack: correctness of the knapsack DP mirror (`passLoop`, `dpPasses`, `backtrack`) at `ratOps`.
Items are `(int_weight, value)`; `done` lists are "last item first".
-/
namespace Solvor.Pack

/-- total integer weight / value of the items whose indices are listed -/
def selWN (items : List (Nat × Rat)) (sel : List Nat) : Nat := (sel.map fun i => (items.getD i (0, 0)).1).sum
def selVN (items : List (Nat × Rat)) (sel : List Nat) : Rat := (sel.map fun i => (items.getD i (0, 0)).2).sum

theorem selWN_cons (items : List (Nat × Rat)) (i : Nat) (sel : List Nat) :
    selWN items (i :: sel) = (items.getD i (0, 0)).1 + selWN items sel := by simp [selWN]
theorem selVN_cons (items : List (Nat × Rat)) (i : Nat) (sel : List Nat) :
    selVN items (i :: sel) = (items.getD i (0, 0)).2 + selVN items sel := by simp [selVN]
theorem selWN_perm (items : List (Nat × Rat)) {s t : List Nat} (h : s.Perm t) : selWN items s = selWN items t :=
  perm_sum_nat (h.map _)
theorem selVN_perm (items : List (Nat × Rat)) {s t : List Nat} (h : s.Perm t) : selVN items s = selVN items t :=
  perm_sum_rat (h.map _)
theorem selWN_append_lt (l l' : List (Nat × Rat)) (sel : List Nat) (h : ∀ i ∈ sel, i < l.length) :
    selWN (l ++ l') sel = selWN l sel := by
  induction sel with
  | nil => rfl
  | cons i s ih =>
    rw [selWN_cons, selWN_cons, ih (fun j hj => h j (List.mem_cons_of_mem _ hj)),
      getD_append_lt l l' _ (h i List.mem_cons_self)]
theorem selVN_append_lt (l l' : List (Nat × Rat)) (sel : List Nat) (h : ∀ i ∈ sel, i < l.length) :
    selVN (l ++ l') sel = selVN l sel := by
  induction sel with
  | nil => rfl
  | cons i s ih =>
    rw [selVN_cons, selVN_cons, ih (fun j hj => h j (List.mem_cons_of_mem _ hj)),
      getD_append_lt l l' _ (h i List.mem_cons_self)]
theorem selWN_snoc (items : List (Nat × Rat)) (s : List Nat) (i : Nat) :
    selWN items (s ++ [i]) = selWN items s + (items.getD i (0, 0)).1 := by
  simp [selWN]
theorem selVN_snoc (items : List (Nat × Rat)) (s : List Nat) (i : Nat) :
    selVN items (s ++ [i]) = selVN items s + (items.getD i (0, 0)).2 := by
  simp only [selVN, List.map_append, sum_append_rat, List.map_cons, List.map_nil, List.sum_cons, List.sum_nil]
  grind

/-- The simultaneous ("two-table") recurrence of the 0/1 knapsack; items last first. -/
def dpRec : List (Nat × Rat) → Nat → Rat
  | [], _ => 0
  | (wi, vi) :: prev, w =>
    if wi ≤ w ∧ dpRec prev w < dpRec prev (w - wi) + vi then dpRec prev (w - wi) + vi else dpRec prev w

/-- The selection the keep-table backtrack reads off, as a function of the recurrence. -/
def btRec : List (Nat × Rat) → Nat → List Nat
  | [], _ => []
  | (wi, vi) :: prev, w =>
    if wi ≤ w ∧ dpRec prev w < dpRec prev (w - wi) + vi then btRec prev (w - wi) ++ [prev.length]
    else btRec prev w

/-! ### the in-place backward pass is the simultaneous update -/

theorem getD_setIfInBounds {β} (xs : Array β) (i j : Nat) (a d : β) :
    (xs.setIfInBounds i a).getD j d = if i = j ∧ i < xs.size then a else xs.getD j d := by
  simp only [Array.getD_eq_getD_getElem?, Array.getElem?_setIfInBounds]
  by_cases h : i = j
  · subst h
    by_cases h2 : i < xs.size
    · simp [h2]
    · simp [h2]
  · simp [h]

theorem passLoop_succ (wi : Nat) (vi : Rat) (m : Nat) (dp : Array Rat) (keep : Array Bool) :
    passLoop ratOps wi vi (m + 1) dp keep =
      if dp.getD (wi + m) 0 < dp.getD m 0 + vi then
        passLoop ratOps wi vi m (dp.setIfInBounds (wi + m) (dp.getD m 0 + vi)) (keep.setIfInBounds (wi + m) true)
      else passLoop ratOps wi vi m dp keep := by
  show (if decide (dp.getD (wi + m) 0 < dp.getD m 0 + vi) = true then _ else _) = _
  simp only [decide_eq_true_eq]
  rfl

theorem passLoop_spec (wi : Nat) (vi : Rat) : ∀ (m : Nat) (dp : Array Rat) (keep : Array Bool),
    keep.size = dp.size → (m ≠ 0 → wi + m ≤ dp.size) →
    (passLoop ratOps wi vi m dp keep).1.size = dp.size ∧
    (passLoop ratOps wi vi m dp keep).2.size = dp.size ∧
    ∀ w, ((passLoop ratOps wi vi m dp keep).1.getD w 0 =
            if wi ≤ w ∧ w < wi + m ∧ dp.getD w 0 < dp.getD (w - wi) 0 + vi
            then dp.getD (w - wi) 0 + vi else dp.getD w 0) ∧
         ((passLoop ratOps wi vi m dp keep).2.getD w false =
            if wi ≤ w ∧ w < wi + m ∧ dp.getD w 0 < dp.getD (w - wi) 0 + vi
            then true else keep.getD w false) := by
  intro m
  induction m with
  | zero =>
    intro dp keep hk _
    refine ⟨rfl, hk, fun w => ?_⟩
    simp only [passLoop]
    constructor <;> rw [if_neg (fun h => by have := h.1; have := h.2.1; omega)]
  | succ m ih =>
    intro dp keep hk hm
    have hm' : wi + m < dp.size := by have := hm (by simp); omega
    rw [passLoop_succ]
    by_cases hc : dp.getD (wi + m) 0 < dp.getD m 0 + vi
    · rw [if_pos hc]
      obtain ⟨s1, s2, hw⟩ := ih (dp.setIfInBounds (wi + m) (dp.getD m 0 + vi)) (keep.setIfInBounds (wi + m) true)
        (by simp [hk]) (by intro h; simp; omega)
      refine ⟨by simpa using s1, by simpa using s2, fun w => ?_⟩
      obtain ⟨h1, h2⟩ := hw w
      rw [h1, h2]
      simp only [getD_setIfInBounds]
      have hks : wi + m < keep.size := by omega
      by_cases hlt : w < wi + m
      · have e1 : ¬ (wi + m = w ∧ wi + m < dp.size) := by omega
        have e2 : ¬ (wi + m = w - wi ∧ wi + m < dp.size) := by omega
        have e3 : ¬ (wi + m = w ∧ wi + m < keep.size) := by omega
        have e4 : (w < wi + (m + 1)) := by omega
        simp only [e1, e2, e3, if_false, hlt, e4, true_and]
        try exact ⟨trivial, trivial⟩
      · by_cases heq : w = wi + m
        · subst heq
          have e1 : (wi + m = wi + m ∧ wi + m < dp.size) := ⟨rfl, hm'⟩
          have e3 : (wi + m = wi + m ∧ wi + m < keep.size) := ⟨rfl, hks⟩
          have e5 : wi + m - wi = m := by omega
          have e6 : wi ≤ wi + m := by omega
          have e7 : wi + m < wi + (m + 1) := by omega
          have e8 : ¬ (wi + m = m ∧ wi + m < dp.size) ∨ wi = 0 := by omega
          simp only [Nat.lt_irrefl, false_and, and_false, if_false, e1, e3, if_true, e5, e6, e7, true_and, hc]
          try exact ⟨trivial, trivial⟩
        · have e1 : ¬ (wi + m = w ∧ wi + m < dp.size) := by omega
          have e3 : ¬ (wi + m = w ∧ wi + m < keep.size) := by omega
          have e4 : ¬ (w < wi + (m + 1)) := by omega
          simp only [hlt, e4, false_and, and_false, if_false, e1, e3]
          try exact ⟨trivial, trivial⟩
    · rw [if_neg hc]
      obtain ⟨s1, s2, hw⟩ := ih dp keep hk (by intro h; omega)
      refine ⟨s1, s2, fun w => ?_⟩
      obtain ⟨h1, h2⟩ := hw w
      rw [h1, h2]
      by_cases hlt : w < wi + m
      · have e4 : (w < wi + (m + 1)) := by omega
        simp only [hlt, e4]
        try exact ⟨trivial, trivial⟩
      · by_cases heq : w = wi + m
        · subst heq
          have e5 : wi + m - wi = m := by omega
          simp only [Nat.lt_irrefl, and_false, if_false, e5, hc]
          try exact ⟨trivial, trivial⟩
        · have e4 : ¬ (w < wi + (m + 1)) := by omega
          simp only [hlt, e4, false_and, and_false, if_false]
          try exact ⟨trivial, trivial⟩

/-! ### all passes: the table is the recurrence, the keep rows are its decisions -/

inductive KeepsOK (cap : Nat) : List (Array Bool) → List (Nat × Rat) → Prop
  | nil : KeepsOK cap [] []
  | cons {k : Array Bool} {ks : List (Array Bool)} {wi : Nat} {vi : Rat} {prev : List (Nat × Rat)} :
      (∀ w, w ≤ cap → k.getD w false = decide (wi ≤ w ∧ dpRec prev w < dpRec prev (w - wi) + vi)) →
      KeepsOK cap ks prev → KeepsOK cap (k :: ks) ((wi, vi) :: prev)

theorem KeepsOK.length {cap : Nat} {ks : List (Array Bool)} {done : List (Nat × Rat)} (h : KeepsOK cap ks done) :
    ks.length = done.length := by
  induction h with
  | nil => rfl
  | cons _ _ ih => simp [ih]

theorem dpPasses_spec (cap : Nat) (items : List (Nat × Rat)) :
    ∀ (done : List (Nat × Rat)) (dp : Array Rat) (keeps : List (Array Bool)),
    dp.size = cap + 1 → (∀ w, w ≤ cap → dp.getD w 0 = dpRec done w) → KeepsOK cap keeps done →
    (∀ w, w ≤ cap → (dpPasses ratOps cap items dp keeps).1.getD w 0 = dpRec (items.reverse ++ done) w) ∧
    KeepsOK cap (dpPasses ratOps cap items dp keeps).2 (items.reverse ++ done) := by
  induction items with
  | nil => intro done dp keeps _ hdp hk; exact ⟨by simpa [dpPasses] using hdp, by simpa [dpPasses] using hk⟩
  | cons x rest ih =>
    intro done dp keeps hs hdp hk
    obtain ⟨wi, vi⟩ := x
    have hsp := passLoop_spec wi vi (cap + 1 - wi) dp (Array.replicate (cap + 1) false) (by simp [hs])
      (by intro h; omega)
    obtain ⟨s1, _, hw⟩ := hsp
    have hrange : ∀ w, w ≤ cap → ((wi ≤ w ∧ w < wi + (cap + 1 - wi) ∧ dp.getD w 0 < dp.getD (w - wi) 0 + vi) ↔
        (wi ≤ w ∧ dpRec done w < dpRec done (w - wi) + vi)) := by
      intro w hwc
      rw [hdp w hwc, hdp (w - wi) (by omega)]
      constructor
      · rintro ⟨a, _, c⟩; exact ⟨a, c⟩
      · rintro ⟨a, c⟩; exact ⟨a, by omega, c⟩
    have := ih ((wi, vi) :: done) (passLoop ratOps wi vi (cap + 1 - wi) dp (Array.replicate (cap + 1) false)).1
      ((passLoop ratOps wi vi (cap + 1 - wi) dp (Array.replicate (cap + 1) false)).2 :: keeps)
      (by rw [s1, hs]) ?_ ?_
    · simpa [dpPasses] using this
    · intro w hwc
      rw [(hw w).1]
      simp only [dpRec]
      by_cases hc : wi ≤ w ∧ dpRec done w < dpRec done (w - wi) + vi
      · rw [if_pos ((hrange w hwc).2 hc), if_pos hc, hdp (w - wi) (by omega)]
      · rw [if_neg (fun h => hc ((hrange w hwc).1 h)), if_neg hc, hdp w hwc]
    · refine KeepsOK.cons (fun w hwc => ?_) hk
      rw [(hw w).2]
      by_cases hc : wi ≤ w ∧ dpRec done w < dpRec done (w - wi) + vi
      · rw [if_pos ((hrange w hwc).2 hc)]; simp [hc]
      · rw [if_neg (fun h => hc ((hrange w hwc).1 h))]
        have : (Array.replicate (cap + 1) false).getD w false = false := by
          simp only [Array.getD_eq_getD_getElem?, Array.getElem?_replicate]; split <;> rfl
        rw [this]; simp [hc]

theorem dpRun_spec (items : List (Nat × Rat)) (cap : Nat) :
    (∀ w, w ≤ cap → (dpRun ratOps items cap).1.getD w 0 = dpRec items.reverse w) ∧
    KeepsOK cap (dpRun ratOps items cap).2 items.reverse := by
  have := dpPasses_spec cap items [] (Array.replicate (cap + 1) 0) [] (by simp)
    (by intro w _; simp [dpRec, Array.getD_eq_getD_getElem?, Array.getElem?_replicate]; split <;> rfl) KeepsOK.nil
  simpa [dpRun, ratOps] using this

/-! ### the backtrack -/

theorem backtrack_eq {cap : Nat} {keeps : List (Array Bool)} {done : List (Nat × Rat)} (h : KeepsOK cap keeps done) :
    ∀ w, w ≤ cap → ∀ acc, backtrack (keeps.zip (done.map (·.1))) w acc = btRec done w ++ acc := by
  induction h with
  | nil => intro w _ acc; simp [backtrack, btRec]
  | cons hk hks ih =>
    rename_i k ks wi vi prev
    intro w hw acc
    have hl : (ks.zip (prev.map (·.1))).length = prev.length := by simp [hks.length]
    simp only [List.map_cons, List.zip_cons_cons, backtrack, btRec, hk w hw, decide_eq_true_eq]
    split
    · rw [ih (w - wi) (by omega), hl]; simp
    · rw [ih w hw]

theorem btRec_spec (done : List (Nat × Rat)) : ∀ w,
    (btRec done w).Pairwise (· < ·) ∧ (∀ i ∈ btRec done w, i < done.length) ∧
    selWN done.reverse (btRec done w) ≤ w ∧ selVN done.reverse (btRec done w) = dpRec done w := by
  induction done with
  | nil => intro w; simp [btRec, dpRec, selWN, selVN]
  | cons x prev ih =>
    intro w
    obtain ⟨wi, vi⟩ := x
    have hlen : prev.reverse.length = prev.length := List.length_reverse
    simp only [btRec, dpRec, List.reverse_cons]
    split
    · rename_i hc
      obtain ⟨p1, p2, p3, p4⟩ := ih (w - wi)
      have hr'' : ∀ i ∈ btRec prev (w - wi), i < prev.reverse.length := by simpa [hlen] using p2
      refine ⟨?_, ?_, ?_, ?_⟩
      · rw [List.pairwise_append]
        exact ⟨p1, by simp, fun a ha b hb => by simp at hb; subst hb; exact p2 a ha⟩
      · intro i hi
        rcases List.mem_append.1 hi with hi | hi
        · have := p2 i hi; simp; omega
        · simp at hi; subst hi; simp
      · rw [selWN_snoc, selWN_append_lt _ _ _ hr'', ← hlen, getD_append_len]; simp only; omega
      · rw [selVN_snoc, selVN_append_lt _ _ _ hr'', ← hlen, getD_append_len, p4]
    · obtain ⟨p1, p2, p3, p4⟩ := ih w
      have hr'' : ∀ i ∈ btRec prev w, i < prev.reverse.length := by simpa [hlen] using p2
      refine ⟨p1, fun i hi => by have := p2 i hi; simp; omega, ?_, ?_⟩
      · rw [selWN_append_lt _ _ _ hr'']; exact p3
      · rw [selVN_append_lt _ _ _ hr'']; exact p4

/-- the recurrence dominates every feasible selection -/
theorem dpRec_ge (done : List (Nat × Rat)) : ∀ (w : Nat) (sel : List Nat), sel.Nodup →
    (∀ i ∈ sel, i < done.length) → selWN done.reverse sel ≤ w → selVN done.reverse sel ≤ dpRec done w := by
  induction done with
  | nil =>
    intro w sel _ hr _
    cases sel with
    | nil => simp [selVN, dpRec]
    | cons i s => exact absurd (hr i List.mem_cons_self) (by simp)
  | cons x prev ih =>
    intro w sel hnd hr hw
    obtain ⟨wi, vi⟩ := x
    have hlen : prev.reverse.length = prev.length := List.length_reverse
    simp only [List.reverse_cons] at hw ⊢
    by_cases hm : prev.length ∈ sel
    · obtain ⟨hp, hnd', hr'⟩ := sel_split hnd (by simpa using hr) hm
      have hr'' : ∀ i ∈ sel.erase prev.length, i < prev.reverse.length := by simpa [hlen] using hr'
      have hW : selWN (prev.reverse ++ [(wi, vi)]) sel = wi + selWN prev.reverse (sel.erase prev.length) := by
        rw [selWN_perm _ hp, selWN_cons, selWN_append_lt _ _ _ hr'', ← hlen, getD_append_len]
      have hV : selVN (prev.reverse ++ [(wi, vi)]) sel = vi + selVN prev.reverse (sel.erase prev.length) := by
        rw [selVN_perm _ hp, selVN_cons, selVN_append_lt _ _ _ hr'', ← hlen, getD_append_len]
      rw [hW] at hw
      have := ih (w - wi) (sel.erase prev.length) hnd' hr' (by omega)
      rw [hV]
      simp only [dpRec]
      split
      · grind
      · rename_i hc
        have : ¬ dpRec prev w < dpRec prev (w - wi) + vi := fun h => hc ⟨by omega, h⟩
        grind
    · have hr' := sel_lt_of_not_mem (by simpa using hr) hm
      have hr'' : ∀ i ∈ sel, i < prev.reverse.length := by simpa [hlen] using hr'
      rw [selWN_append_lt _ _ _ hr''] at hw
      rw [selVN_append_lt _ _ _ hr'']
      have := ih w sel hnd hr' hw
      simp only [dpRec]
      split
      · grind
      · exact this

/-! ### integer-weight items read as rational items -/

def castItems (items : List (Nat × Rat)) : List (Rat × Rat) := items.map fun p => ((p.1 : Rat), p.2)

theorem getD_castItems (items : List (Nat × Rat)) (i : Nat) :
    (castItems items).getD i (0, 0) = (((items.getD i (0, 0)).1 : Rat), (items.getD i (0, 0)).2) := by
  unfold castItems
  simp only [List.getD_eq_getElem?_getD, List.getElem?_map]
  cases items[i]? <;> simp

theorem selW_cast (items : List (Nat × Rat)) (sel : List Nat) :
    selW (castItems items) sel = ((selWN items sel : Nat) : Rat) := by
  induction sel with
  | nil => simp [selW, selWN]
  | cons i s ih => rw [selW_cons, selWN_cons, ih, getD_castItems, Rat.natCast_add]

theorem selV_cast (items : List (Nat × Rat)) (sel : List Nat) :
    selV (castItems items) sel = selVN items sel := by
  induction sel with
  | nil => simp [selV, selVN]
  | cons i s ih => rw [selV_cons, selVN_cons, ih, getD_castItems]

theorem feasible_cast (items : List (Nat × Rat)) (cap : Nat) (sel : List Nat) :
    KnapFeasible (castItems items) (cap : Rat) sel ↔
      sel.Nodup ∧ (∀ i ∈ sel, i < items.length) ∧ selWN items sel ≤ cap := by
  constructor
  · intro h
    exact ⟨h.nodup, by simpa [castItems] using h.inRange, by simpa [selW_cast, Rat.natCast_le_natCast] using h.fits⟩
  · rintro ⟨a, b, c⟩
    exact ⟨a, by simpa [castItems] using b, by simpa [selW_cast, Rat.natCast_le_natCast] using c⟩

/-! ### exact scaling -/

theorem getD_zip_items (iw : List Nat) (vs : List Rat) (i : Nat) (h1 : i < iw.length) (h2 : i < vs.length) :
    (iw.zip vs).getD i (0, 0) = (iw.getD i 0, vs.getD i 0) := by
  have : (iw.zip vs)[i]? = some (iw[i], vs[i]) := by
    rw [List.getElem?_eq_getElem (by simp; omega)]; simp
  simp [List.getD_eq_getElem?_getD, this, h1, h2]

theorem scaled_sums (items : List (Rat × Rat)) (scale : Rat) (iw : List Nat) (hlen : iw.length = items.length)
    (hw : ∀ i, i < items.length → ((iw.getD i 0 : Nat) : Rat) = (items.getD i (0, 0)).1 * scale) :
    ∀ sel : List Nat, (∀ i ∈ sel, i < items.length) →
      ((selWN (iw.zip (items.map (·.2))) sel : Nat) : Rat) = selW items sel * scale ∧
      selVN (iw.zip (items.map (·.2))) sel = selV items sel := by
  intro sel
  induction sel with
  | nil => intro _; simp [selWN, selVN, selW, selV]
  | cons i s ih =>
    intro h
    have hi := h i List.mem_cons_self
    obtain ⟨a, b⟩ := ih (fun j hj => h j (List.mem_cons_of_mem _ hj))
    have e := getD_zip_items iw (items.map (·.2)) i (by omega) (by simpa using hi)
    have e2 : (items.map (·.2)).getD i 0 = (items.getD i (0, 0)).2 := by
      simp [List.getD_eq_getElem?_getD, hi]
    rw [selWN_cons, selVN_cons, selW_cons, selV_cons, e, Rat.natCast_add, a, b, hw i hi, e2]
    exact ⟨by grind, rfl⟩

end Solvor.Pack
