import Solvor.Pack.Model
/-!
Pack: spec-side propositions and helper lemmas for C16 (property theorems are in `Theorems.lean`).
-/
namespace Solvor.Pack

/-! ### sums over `Rat` lists -/

theorem sum_append_rat (l₁ l₂ : List Rat) : (l₁ ++ l₂).sum = l₁.sum + l₂.sum := by
  induction l₁ with
  | nil => simp only [List.nil_append, List.sum_nil]; grind
  | cons a l ih => simp only [List.cons_append, List.sum_cons, ih]; grind

theorem perm_sum_rat {l₁ l₂ : List Rat} (h : l₁.Perm l₂) : l₁.sum = l₂.sum := by
  induction h with
  | nil => rfl
  | cons a _ ih => simp [ih]
  | swap a b l => simp only [List.sum_cons]; grind
  | trans _ _ ih1 ih2 => exact ih1.trans ih2

theorem perm_sum_nat {l₁ l₂ : List Nat} (h : l₁.Perm l₂) : l₁.sum = l₂.sum := by
  induction h with
  | nil => rfl
  | cons a _ ih => simp [ih]
  | swap a b l => simp only [List.sum_cons]; omega
  | trans _ _ ih1 ih2 => exact ih1.trans ih2

theorem nodupB_iff (l : List Nat) : nodupB l = true ↔ l.Nodup := by
  induction l with
  | nil => simp [nodupB]
  | cons a l ih => simp [nodupB, ih, List.nodup_cons]

/-! ### Knapsack: what a feasible selection is -/

/-- `sel` is a set of item indices (distinct, in range) whose total weight is within `cap`. -/
structure KnapFeasible (items : List (Rat × Rat)) (cap : Rat) (sel : List Nat) : Prop where
  nodup : sel.Nodup
  inRange : ∀ i ∈ sel, i < items.length
  fits : selW items sel ≤ cap

theorem selW_cons (items : List (Rat × Rat)) (i : Nat) (sel : List Nat) :
    selW items (i :: sel) = (items.getD i (0, 0)).1 + selW items sel := by simp [selW]
theorem selV_cons (items : List (Rat × Rat)) (i : Nat) (sel : List Nat) :
    selV items (i :: sel) = (items.getD i (0, 0)).2 + selV items sel := by simp [selV]

theorem selW_perm (items : List (Rat × Rat)) {s t : List Nat} (h : s.Perm t) : selW items s = selW items t :=
  perm_sum_rat (h.map _)
theorem selV_perm (items : List (Rat × Rat)) {s t : List Nat} (h : s.Perm t) : selV items s = selV items t :=
  perm_sum_rat (h.map _)

theorem getD_append_lt {β} (l l' : List β) (d : β) {i : Nat} (h : i < l.length) :
    (l ++ l').getD i d = l.getD i d := by
  simp [List.getD_eq_getElem?_getD, List.getElem?_append_left h]

theorem getD_append_len {β} (l : List β) (x d : β) : (l ++ [x]).getD l.length d = x := by
  simp [List.getD_eq_getElem?_getD]

theorem selW_append_lt (l l' : List (Rat × Rat)) (sel : List Nat) (h : ∀ i ∈ sel, i < l.length) :
    selW (l ++ l') sel = selW l sel := by
  induction sel with
  | nil => rfl
  | cons i s ih =>
    rw [selW_cons, selW_cons, ih (fun j hj => h j (List.mem_cons_of_mem _ hj)),
      getD_append_lt l l' _ (h i List.mem_cons_self)]
theorem selV_append_lt (l l' : List (Rat × Rat)) (sel : List Nat) (h : ∀ i ∈ sel, i < l.length) :
    selV (l ++ l') sel = selV l sel := by
  induction sel with
  | nil => rfl
  | cons i s ih =>
    rw [selV_cons, selV_cons, ih (fun j hj => h j (List.mem_cons_of_mem _ hj)),
      getD_append_lt l l' _ (h i List.mem_cons_self)]

/-- splitting off the last item's index from a selection -/
theorem sel_split {n : Nat} {sel : List Nat} (hnd : sel.Nodup) (hr : ∀ i ∈ sel, i < n + 1) (hm : n ∈ sel) :
    sel.Perm (n :: sel.erase n) ∧ (sel.erase n).Nodup ∧ ∀ i ∈ sel.erase n, i < n := by
  refine ⟨List.perm_cons_erase hm, hnd.erase n, fun i hi => ?_⟩
  have := (hnd.mem_erase_iff).1 hi
  have := hr i this.2
  omega

theorem sel_lt_of_not_mem {n : Nat} {sel : List Nat} (hr : ∀ i ∈ sel, i < n + 1) (hm : n ∉ sel) :
    ∀ i ∈ sel, i < n := by
  intro i hi
  have := hr i hi
  have : i ≠ n := fun h => hm (h ▸ hi)
  omega

/-! ### the definitional optimum -/

theorem optMax_left {a : Option Rat} {x : Rat} (b : Option Rat) (h : a = some x) :
    ∃ m, optMax a b = some m ∧ x ≤ m := by
  subst h
  cases b with
  | none => exact ⟨x, rfl, Rat.le_refl⟩
  | some y =>
    simp only [optMax]
    split
    · exact ⟨y, rfl, by grind⟩
    · exact ⟨x, rfl, Rat.le_refl⟩

theorem optMax_right (a : Option Rat) {b : Option Rat} {y : Rat} (h : b = some y) :
    ∃ m, optMax a b = some m ∧ y ≤ m := by
  subst h
  cases a with
  | none => exact ⟨y, rfl, Rat.le_refl⟩
  | some x =>
    simp only [optMax]
    split
    · exact ⟨y, rfl, Rat.le_refl⟩
    · exact ⟨x, rfl, by grind⟩

theorem optMax_some {a b : Option Rat} {m : Rat} (h : optMax a b = some m) : a = some m ∨ b = some m := by
  cases a <;> cases b <;> simp only [optMax] at h
  · cases h
  · right; exact h
  · left; exact h
  · split at h
    · right; exact h
    · left; exact h

theorem knapBestRev_ge (ritems : List (Rat × Rat)) : ∀ (c : Rat) (sel : List Nat), sel.Nodup →
    (∀ i ∈ sel, i < ritems.length) → selW ritems.reverse sel ≤ c →
    ∃ b, knapBestRev ritems c = some b ∧ selV ritems.reverse sel ≤ b := by
  induction ritems with
  | nil =>
    intro c sel _ hr hw
    cases sel with
    | nil => exact ⟨0, by simpa [knapBestRev, selW] using hw, by simp [selV]⟩
    | cons i s => exact absurd (hr i List.mem_cons_self) (by simp)
  | cons x prev ih =>
    intro c sel hnd hr hw
    obtain ⟨w, v⟩ := x
    simp only [List.reverse_cons] at hw ⊢
    have hlen : prev.reverse.length = prev.length := List.length_reverse
    by_cases hm : prev.length ∈ sel
    · obtain ⟨hp, hnd', hr'⟩ := sel_split hnd (by simpa using hr) hm
      have hr'' : ∀ i ∈ sel.erase prev.length, i < prev.reverse.length := by simpa [hlen] using hr'
      have hW : selW (prev.reverse ++ [(w, v)]) sel = w + selW prev.reverse (sel.erase prev.length) := by
        rw [selW_perm _ hp, selW_cons, selW_append_lt _ _ _ hr'', ← hlen, getD_append_len]
      have hV : selV (prev.reverse ++ [(w, v)]) sel = v + selV prev.reverse (sel.erase prev.length) := by
        rw [selV_perm _ hp, selV_cons, selV_append_lt _ _ _ hr'', ← hlen, getD_append_len]
      obtain ⟨b', hb', hle⟩ := ih (c - w) (sel.erase prev.length) hnd' hr' (by rw [hW] at hw; grind)
      obtain ⟨m, hm1, hm2⟩ := optMax_right (knapBestRev prev c) (b := (knapBestRev prev (c - w)).map (· + v))
        (y := b' + v) (by simp [hb'])
      exact ⟨m, by simpa [knapBestRev] using hm1, by rw [hV]; grind⟩
    · have hr' := sel_lt_of_not_mem (by simpa using hr) hm
      have hr'' : ∀ i ∈ sel, i < prev.reverse.length := by simpa [hlen] using hr'
      rw [selW_append_lt _ _ _ hr''] at hw
      rw [selV_append_lt _ _ _ hr'']
      obtain ⟨b', hb', hle⟩ := ih c sel hnd hr' hw
      obtain ⟨m, hm1, hm2⟩ := optMax_left ((knapBestRev prev (c - w)).map (· + v)) hb'
      exact ⟨m, by simpa [knapBestRev] using hm1, by grind⟩

theorem knapBestRev_attained (ritems : List (Rat × Rat)) : ∀ (c b : Rat), knapBestRev ritems c = some b →
    ∃ sel : List Nat, sel.Nodup ∧ (∀ i ∈ sel, i < ritems.length) ∧ selW ritems.reverse sel ≤ c ∧
      selV ritems.reverse sel = b := by
  induction ritems with
  | nil =>
    intro c b h
    simp only [knapBestRev] at h
    split at h
    · cases h; exact ⟨[], List.nodup_nil, by simp, by simpa [selW], by simp [selV]⟩
    · cases h
  | cons x prev ih =>
    intro c b h
    obtain ⟨w, v⟩ := x
    have hlen : prev.reverse.length = prev.length := List.length_reverse
    simp only [knapBestRev] at h
    rcases optMax_some h with h | h
    · obtain ⟨sel, hnd, hr, hw, hv⟩ := ih c b h
      have hr'' : ∀ i ∈ sel, i < prev.reverse.length := by simpa [hlen] using hr
      refine ⟨sel, hnd, fun i hi => by have := hr i hi; simp; omega, ?_, ?_⟩
      · simpa [selW_append_lt _ _ _ hr''] using hw
      · simpa [selV_append_lt _ _ _ hr''] using hv
    · cases hb : knapBestRev prev (c - w) with
      | none => simp [hb] at h
      | some b' =>
        simp only [hb, Option.map_some, Option.some.injEq] at h
        obtain ⟨sel, hnd, hr, hw, hv⟩ := ih (c - w) b' hb
        have hr'' : ∀ i ∈ sel, i < prev.reverse.length := by simpa [hlen] using hr
        refine ⟨prev.length :: sel, ?_, ?_, ?_, ?_⟩
        · exact List.nodup_cons.2 ⟨fun hm => Nat.lt_irrefl _ (hr _ hm), hnd⟩
        · intro i hi
          rcases List.mem_cons.1 hi with rfl | hi
          · simp
          · have := hr i hi; simp; omega
        · simp only [List.reverse_cons]
          rw [selW_cons, selW_append_lt _ _ _ hr'', ← hlen, getD_append_len]; grind
        · simp only [List.reverse_cons]
          rw [selV_cons, selV_append_lt _ _ _ hr'', ← hlen, getD_append_len]; grind

/-! ### the greedy fallback scan -/

theorem greedyScan_spec (items : List (Rat × Rat)) : ∀ (order : List Nat) (rem : Rat) (acc : List Nat), 0 ≤ rem →
    ∃ picked, greedyScan ratOps items order rem acc = acc.reverse ++ picked ∧ picked.Sublist order ∧
      (∀ i ∈ picked, i < items.length) ∧ selW items picked ≤ rem := by
  intro order
  induction order with
  | nil => intro rem acc h; exact ⟨[], by simp [greedyScan], List.Sublist.refl _, by simp, by simpa [selW] using h⟩
  | cons i rest ih =>
    intro rem acc h
    unfold greedyScan
    cases hi : items[i]? with
    | none =>
      obtain ⟨p, h1, h2, h3, h4⟩ := ih rem acc h
      exact ⟨p, h1, h2.cons _, h3, h4⟩
    | some x =>
      obtain ⟨w, v⟩ := x
      simp only
      by_cases hw : w ≤ rem
      · have hle : ratOps.le w rem = true := decide_eq_true hw
        simp only [hle, if_true]
        obtain ⟨p, h1, h2, h3, h4⟩ := ih (rem - w) (i :: acc) (by grind)
        have hsub : ratOps.sub rem w = rem - w := rfl
        have hil : i < items.length := by
          rcases Nat.lt_or_ge i items.length with h | h
          · exact h
          · simp [List.getElem?_eq_none h] at hi
        refine ⟨i :: p, by rw [hsub, h1]; simp, h2.cons_cons _, ?_, ?_⟩
        · intro j hj
          rcases List.mem_cons.1 hj with rfl | hj
          · exact hil
          · exact h3 j hj
        · rw [selW_cons]
          have : items.getD i (0, 0) = (w, v) := by simp [List.getD_eq_getElem?_getD, hi]
          rw [this]; grind
      · have hle : ratOps.le w rem = false := decide_eq_false hw
        simp only [hle, Bool.false_eq_true, if_false]
        obtain ⟨p, h1, h2, h3, h4⟩ := ih rem acc h
        exact ⟨p, h1, h2.cons _, h3, h4⟩

end Solvor.Pack
