import Solvor.Pack.Lemmas
/-!
Pack: the bin-packing placement loop (`place`, `packRun`) at `ratOps` keeps a valid packing.
-/
namespace Solvor.Pack
attribute [-simp] List.getD_eq_getElem?_getD

/-- What a valid packing into `k` bins is: one bin index per item, all below `k`, every bin
`0..k-1` in use, every load within the capacity (exact arithmetic). -/
structure ValidPack (sizes : List Rat) (cap : Rat) (asg : List Nat) (k : Nat) : Prop where
  len : asg.length = sizes.length
  lt : ∀ i, i < sizes.length → asg.getD i 0 < k
  used : ∀ b, b < k → ∃ i, i < sizes.length ∧ asg.getD i 0 = b
  load : ∀ b, b < k → loadOf sizes asg b ≤ cap

/-! ### sums indexed by bins -/

theorem sum_map_add (L : List Nat) (F G : Nat → Rat) :
    (L.map fun b => F b + G b).sum = (L.map F).sum + (L.map G).sum := by
  induction L with
  | nil => simp [Rat.add_zero]
  | cons a l ih => simp only [List.map_cons, List.sum_cons, ih]; grind

theorem sum_indicator (j k : Nat) (x : Rat) (h : j < k) :
    ((List.range k).map fun b => if j = b then x else 0).sum = x := by
  induction k with
  | zero => omega
  | succ k ih =>
    rw [List.range_succ, List.map_append, sum_append_rat]
    by_cases hj : j = k
    · subst hj
      have : ((List.range j).map fun b => if j = b then x else 0) = (List.range j).map fun _ => (0 : Rat) := by
        apply List.map_congr_left
        intro b hb
        have := List.mem_range.1 hb
        rw [if_neg (by omega)]
      rw [this]
      have h0 : ∀ n : Nat, ((List.range n).map fun _ => (0 : Rat)).sum = 0 := by
        intro n
        induction n with
        | zero => rfl
        | succ n ih => rw [List.range_succ, List.map_append, sum_append_rat, ih]; simp [Rat.add_zero]
      rw [h0]; simp [Rat.add_zero, Rat.zero_add]
    · rw [ih (by omega)]; simp [hj, Rat.add_zero]

/-- summing the per-bin sums of a list whose elements all land in bins `< k` gives the total -/
theorem sum_by_bins (f : Nat → Rat) (g : Nat → Nat) (k : Nat) (L : List Nat) (h : ∀ i ∈ L, g i < k) :
    ((List.range k).map fun b => ((L.filter fun i => g i == b).map f).sum).sum = (L.map f).sum := by
  induction L with
  | nil =>
    simp only [List.filter_nil, List.map_nil, List.sum_nil]
    induction k with
    | zero => rfl
    | succ k ih => rw [List.range_succ, List.map_append, sum_append_rat, ih (by simp)]; simp [Rat.add_zero]
  | cons a l ih =>
    have e : ∀ b, (((a :: l).filter fun i => g i == b).map f).sum =
        (if g a = b then f a else 0) + ((l.filter fun i => g i == b).map f).sum := by
      intro b
      by_cases hb : g a = b
      · simp [hb]
      · simp [hb, Rat.zero_add]
    rw [List.map_congr_left (fun b _ => e b), sum_map_add, sum_indicator _ _ _ (h a List.mem_cons_self),
      ih (fun i hi => h i (List.mem_cons_of_mem _ hi))]
    simp

theorem sum_le_const (L : List Nat) (F : Nat → Rat) (c : Rat) (h : ∀ b ∈ L, F b ≤ c) :
    (L.map F).sum ≤ L.length * c := by
  induction L with
  | nil => simp
  | cons a l ih =>
    have h1 := h a List.mem_cons_self
    have h2 := ih (fun b hb => h b (List.mem_cons_of_mem _ hb))
    simp only [List.map_cons, List.sum_cons, List.length_cons]
    have : ((l.length + 1 : Nat) : Rat) = (l.length : Rat) + 1 := by simp
    rw [this]; grind

theorem list_eq_map_getD (l : List Rat) : l = (List.range l.length).map fun i => l.getD i 0 := by
  apply List.ext_getElem
  · simp
  · intro i h1 h2
    simp [List.getD_eq_getElem?_getD, h1]

/-- total size = sum of the bin loads ≤ k · capacity -/
theorem ValidPack.sum_le {sizes : List Rat} {cap : Rat} {asg : List Nat} {k : Nat} (h : ValidPack sizes cap asg k) :
    sizes.sum ≤ k * cap := by
  have h1 : sizes.sum = ((List.range sizes.length).map fun i => sizes.getD i 0).sum := by
    rw [← list_eq_map_getD]
  have h2 := sum_by_bins (fun i => sizes.getD i 0) (fun i => asg.getD i 0) k (List.range sizes.length)
    (fun i hi => h.lt i (List.mem_range.1 hi))
  have h3 := sum_le_const (List.range k) (fun b => loadOf sizes asg b) cap
    (fun b hb => h.load b (List.mem_range.1 hb))
  rw [h1, ← h2]
  simpa [loadOf] using h3

/-! ### the scans -/

theorem firstFit_some (size : Rat) : ∀ (bins : List Rat) (b0 b : Nat), firstFit ratOps size bins b0 = some b →
    b0 ≤ b ∧ b - b0 < bins.length ∧ size ≤ bins.getD (b - b0) 0 := by
  intro bins
  induction bins with
  | nil => intro b0 b h; simp [firstFit] at h
  | cons r rs ih =>
    intro b0 b h
    simp only [firstFit, ratOps, decide_eq_true_eq] at h
    split at h
    · rename_i hle
      cases h
      simp [hle, List.getD_cons_zero]
    · obtain ⟨h1, h2, h3⟩ := ih (b0 + 1) b h
      refine ⟨by omega, by simp; omega, ?_⟩
      have : b - b0 = (b - (b0 + 1)) + 1 := by omega
      rw [this, List.getD_cons_succ]; exact h3

theorem bestFit_some (size : Rat) : ∀ (bins : List Rat) (b0 : Nat) (best : Option (Nat × Rat)) (b : Nat) (r : Rat),
    bestFit ratOps size bins b0 best = some (b, r) →
    best = some (b, r) ∨ (b0 ≤ b ∧ b - b0 < bins.length ∧ r = bins.getD (b - b0) 0 ∧ size ≤ r) := by
  intro bins
  induction bins with
  | nil => intro b0 best b r h; left; simpa [bestFit] using h
  | cons x xs ih =>
    intro b0 best b r h
    simp only [bestFit] at h
    rcases ih (b0 + 1) _ b r h with h' | ⟨h1, h2, h3, h4⟩
    · have key : best = some (b, r) ∨ ((b0, x) = (b, r) ∧ size ≤ x) := by
        cases best with
        | none =>
          simp only at h'
          split at h'
          · rename_i hb
            simp only [Bool.and_eq_true] at hb
            right
            exact ⟨by simpa using h', by simpa [ratOps] using hb.1⟩
          · left; exact h'
        | some p =>
          simp only at h'
          split at h'
          · rename_i hb
            simp only [Bool.and_eq_true] at hb
            right
            exact ⟨by simpa using h', by simpa [ratOps] using hb.1⟩
          · left; exact h'
      rcases key with key | ⟨key, hle⟩
      · left; exact key
      · right
        simp only [Prod.mk.injEq] at key
        obtain ⟨rfl, rfl⟩ := key
        simp [hle, List.getD_cons_zero]
    · right
      refine ⟨by omega, by simp; omega, ?_, h4⟩
      have : b - b0 = (b - (b0 + 1)) + 1 := by omega
      rw [this, List.getD_cons_succ]; exact h3

/-! ### invariant of the placement loop -/

/-- load of bin `b` counting only the items processed so far -/
def pload (sizes : List Rat) (asg : List Nat) (processed : List Nat) (b : Nat) : Rat :=
  ((processed.filter fun i => asg.getD i 0 == b).map fun i => sizes.getD i 0).sum

structure PInv (sizes : List Rat) (cap : Rat) (processed : List Nat) (st : PState Rat) : Prop where
  len : st.asg.length = sizes.length
  lt : ∀ i ∈ processed, st.asg.getD i 0 < st.bins.length
  rem : ∀ b, b < st.bins.length → st.bins.getD b 0 = cap - pload sizes st.asg processed b
  nonneg : ∀ b, b < st.bins.length → 0 ≤ st.bins.getD b 0
  used : ∀ b, b < st.bins.length → ∃ i ∈ processed, st.asg.getD i 0 = b
  nonempty : processed ≠ [] → st.bins ≠ []

theorem getD_set_list {β} (l : List β) (i j : Nat) (a d : β) :
    (l.set i a).getD j d = if i = j ∧ i < l.length then a else l.getD j d := by
  simp only [List.getD_eq_getElem?_getD, List.getElem?_set]
  by_cases h : i = j
  · subst h
    by_cases h2 : i < l.length
    · simp [h2]
    · simp [h2]
  · simp [h]

theorem pload_step (sizes : List Rat) (asg : List Nat) (processed : List Nat) (j b0 b : Nat)
    (hj : j ∉ processed) (hlen : j < asg.length) :
    pload sizes (asg.set j b0) (processed ++ [j]) b =
      pload sizes asg processed b + (if b0 = b then sizes.getD j 0 else 0) := by
  unfold pload
  rw [List.filter_append, List.map_append, sum_append_rat]
  have e1 : (processed.filter fun i => (asg.set j b0).getD i 0 == b) =
      (processed.filter fun i => asg.getD i 0 == b) := by
    apply List.filter_congr
    intro i hi
    have : j ≠ i := fun h => hj (h ▸ hi)
    rw [getD_set_list, if_neg (fun h => this h.1)]
  have e2 : (asg.set j b0).getD j 0 = b0 := by rw [getD_set_list, if_pos ⟨rfl, hlen⟩]
  have e3 : ([j].filter fun i => (asg.set j b0).getD i 0 == b) = if b0 = b then [j] else [] := by
    simp only [List.filter_cons, List.filter_nil, e2, beq_iff_eq]
  rw [e1, e3]
  by_cases hb : b0 = b
  · rw [if_pos hb, if_pos hb]; simp [Rat.add_zero]
  · rw [if_neg hb, if_neg hb]; simp

theorem pload_nil (sizes : List Rat) (asg : List Nat) (b : Nat) : pload sizes asg [] b = 0 := rfl

/-- no processed item sits in a bin index that is not open yet -/
theorem pload_fresh (sizes : List Rat) (asg : List Nat) (processed : List Nat) (n : Nat)
    (h : ∀ i ∈ processed, asg.getD i 0 < n) : pload sizes asg processed n = 0 := by
  unfold pload
  have : (processed.filter fun i => asg.getD i 0 == n) = [] := by
    rw [List.filter_eq_nil_iff]
    intro i hi
    have := h i hi
    simp only [beq_iff_eq]; omega
  rw [this]; rfl

theorem getD_set_lt_of_ne {asg : List Nat} {i j b : Nat} (h : j ≠ i) : (asg.set j b).getD i 0 = asg.getD i 0 := by
  rw [getD_set_list, if_neg (fun hh => h hh.1)]

theorem place_inv (sizes : List Rat) (cap : Rat) (useBest : Bool) (processed : List Nat) (st : PState Rat)
    (j : Nat) (hcap : 0 ≤ cap) (inv : PInv sizes cap processed st) (hj : j ∉ processed) (hjn : j < sizes.length)
    (hs0 : 0 ≤ sizes.getD j 0) (hs1 : sizes.getD j 0 ≤ cap) :
    PInv sizes cap (processed ++ [j]) (place ratOps cap useBest sizes st j) := by
  have hjl : j < st.asg.length := by rw [inv.len]; exact hjn
  have hne : ∀ i ∈ processed, j ≠ i := fun i hi h => hj (h ▸ hi)
  unfold place
  by_cases hz : sizes.getD j 0 = 0
  · -- zero-size item: first bin (opened if needed)
    have hz' : ratOps.isZero (sizes.getD j ratOps.zero) = true := decide_eq_true hz
    simp only [hz', if_true]
    by_cases he : st.bins = []
    · have hp : processed = [] := by
        by_cases hp : processed = []
        · exact hp
        · exact absurd he (inv.nonempty hp)
      subst hp
      simp only [he, List.isEmpty_nil, if_true, List.nil_append]
      refine ⟨by simp [inv.len], ?_, ?_, ?_, ?_, by simp⟩
      · intro i hi; simp at hi; subst hi; rw [getD_set_list, if_pos ⟨rfl, hjl⟩]; simp
      · intro b hb
        have : b = 0 := by simpa using hb
        subst this
        have := pload_step sizes st.asg [] j 0 0 (by simp) hjl
        simp only [List.nil_append] at this
        rw [this, pload_nil, hz]; simp [List.getD_cons_zero, Rat.add_zero, Rat.sub_eq_add_neg]
      · intro b hb
        have : b = 0 := by simpa using hb
        subst this; simpa [List.getD_cons_zero] using hcap
      · intro b hb
        have : b = 0 := by simpa using hb
        subst this
        exact ⟨j, by simp, by rw [getD_set_list, if_pos ⟨rfl, hjl⟩]⟩
    · have hne' : st.bins.isEmpty = false := by cases h : st.bins <;> simp_all
      have hpos : 0 < st.bins.length := by cases h : st.bins <;> simp_all
      simp only [hne', Bool.false_eq_true, if_false]
      refine ⟨by simp [inv.len], ?_, ?_, inv.nonneg, ?_, fun _ => he⟩
      · intro i hi
        rcases List.mem_append.1 hi with hi | hi
        · rw [getD_set_lt_of_ne (hne i hi)]; exact inv.lt i hi
        · simp at hi; subst hi; rw [getD_set_list, if_pos ⟨rfl, hjl⟩]; exact hpos
      · intro b hb
        rw [pload_step sizes st.asg processed j 0 b hj hjl, hz, inv.rem b hb]; simp [Rat.add_zero]
      · intro b hb
        obtain ⟨i, hi, hib⟩ := inv.used b hb
        exact ⟨i, List.mem_append_left _ hi, by rw [getD_set_lt_of_ne (hne i hi)]; exact hib⟩
  · have hz' : ratOps.isZero (sizes.getD j ratOps.zero) = false := decide_eq_false hz
    simp only [hz', Bool.false_eq_true, if_false]
    -- whichever scan is used, a chosen bin is open and has room
    have hchoice : ∀ b, (if useBest = true then Option.map (fun x => x.fst) (bestFit ratOps (sizes.getD j ratOps.zero) st.bins 0 none)
        else firstFit ratOps (sizes.getD j ratOps.zero) st.bins 0) = some b →
        b < st.bins.length ∧ sizes.getD j 0 ≤ st.bins.getD b 0 := by
      intro b hb
      cases useBest with
      | true =>
        simp only [if_true, Option.map_eq_some_iff] at hb
        obtain ⟨⟨b', r⟩, hbr, rfl⟩ := hb
        rcases bestFit_some _ _ _ _ _ _ hbr with h | ⟨_, h2, h3, h4⟩
        · cases h
        · exact ⟨by simpa using h2, by rw [h3] at h4; have h5 : sizes.getD j 0 ≤ _ := h4; simpa using h5⟩
      | false =>
        simp only [Bool.false_eq_true, if_false] at hb
        obtain ⟨_, h2, h3⟩ := firstFit_some _ _ _ _ hb
        exact ⟨by simpa using h2, by have h5 : sizes.getD j 0 ≤ _ := h3; simpa using h5⟩
    have hz0 : (ratOps.zero : Rat) = 0 := rfl
    split
    · rename_i b0 hb0
      obtain ⟨hlt, hfit⟩ := hchoice b0 hb0
      refine ⟨by simp [inv.len], ?_, ?_, ?_, ?_, ?_⟩
      · intro i hi
        simp only [List.length_set]
        rcases List.mem_append.1 hi with hi | hi
        · rw [getD_set_lt_of_ne (hne i hi)]; exact inv.lt i hi
        · simp at hi; subst hi; rw [getD_set_list, if_pos ⟨rfl, hjl⟩]; exact hlt
      · intro b hb
        simp only [List.length_set] at hb
        rw [pload_step sizes st.asg processed j b0 b hj hjl, getD_set_list]
        by_cases hbb : b0 = b
        · subst hbb
          rw [if_pos ⟨rfl, hlt⟩, if_pos rfl]
          show st.bins.getD b0 0 - sizes.getD j 0 = _
          rw [inv.rem b0 hlt]; grind
        · rw [if_neg (fun h => hbb h.1), if_neg hbb, inv.rem b hb, Rat.add_zero]
      · intro b hb
        simp only [List.length_set] at hb
        rw [getD_set_list]
        by_cases hbb : b0 = b
        · subst hbb
          rw [if_pos ⟨rfl, hlt⟩]
          show 0 ≤ st.bins.getD b0 0 - sizes.getD j 0
          grind
        · rw [if_neg (fun h => hbb h.1)]; exact inv.nonneg b hb
      · intro b hb
        simp only [List.length_set] at hb
        obtain ⟨i, hi, hib⟩ := inv.used b hb
        exact ⟨i, List.mem_append_left _ hi, by rw [getD_set_lt_of_ne (hne i hi)]; exact hib⟩
      · intro _ h
        have : st.bins.length = 0 := by simpa using congrArg List.length h
        omega
    · refine ⟨by simp [inv.len], ?_, ?_, ?_, ?_, by simp⟩
      · intro i hi
        simp only [List.length_append, List.length_singleton]
        rcases List.mem_append.1 hi with hi | hi
        · rw [getD_set_lt_of_ne (hne i hi)]; have := inv.lt i hi; omega
        · simp at hi; subst hi; rw [getD_set_list, if_pos ⟨rfl, hjl⟩]; omega
      · intro b hb
        simp only [List.length_append, List.length_singleton] at hb
        rw [pload_step sizes st.asg processed j st.bins.length b hj hjl]
        by_cases hbb : st.bins.length = b
        · subst hbb
          rw [if_pos rfl, pload_fresh sizes st.asg processed _ inv.lt, getD_append_len]
          show cap - sizes.getD j 0 = _
          grind
        · rw [if_neg hbb, getD_append_lt _ _ _ (by omega), inv.rem b (by omega), Rat.add_zero]
      · intro b hb
        simp only [List.length_append, List.length_singleton] at hb
        by_cases hbb : st.bins.length = b
        · subst hbb
          rw [getD_append_len]
          show 0 ≤ cap - sizes.getD j 0
          grind
        · rw [getD_append_lt _ _ _ (by omega)]; exact inv.nonneg b (by omega)
      · intro b hb
        simp only [List.length_append, List.length_singleton] at hb
        by_cases hbb : st.bins.length = b
        · exact ⟨j, by simp, by rw [getD_set_list, if_pos ⟨rfl, hjl⟩]; exact hbb⟩
        · obtain ⟨i, hi, hib⟩ := inv.used b (by omega)
          exact ⟨i, List.mem_append_left _ hi, by rw [getD_set_lt_of_ne (hne i hi)]; exact hib⟩

theorem foldl_place_inv (sizes : List Rat) (cap : Rat) (useBest : Bool) (hcap : 0 ≤ cap)
    (hs : ∀ i, i < sizes.length → 0 ≤ sizes.getD i 0 ∧ sizes.getD i 0 ≤ cap) :
    ∀ (todo processed : List Nat) (st : PState Rat), PInv sizes cap processed st → (processed ++ todo).Nodup →
      (∀ j ∈ todo, j < sizes.length) →
      PInv sizes cap (processed ++ todo) (todo.foldl (place ratOps cap useBest sizes) st) := by
  intro todo
  induction todo with
  | nil => intro processed st inv _ _; simpa using inv
  | cons j rest ih =>
    intro processed st inv hnd hr
    have hj : j ∉ processed := by
      intro h
      have := (List.nodup_append.1 hnd).2.2 j h j List.mem_cons_self
      exact this rfl
    have hjn := hr j List.mem_cons_self
    have := ih (processed ++ [j]) _ (place_inv sizes cap useBest processed st j hcap inv hj hjn (hs j hjn).1 (hs j hjn).2)
      (by simpa using hnd) (fun i hi => hr i (List.mem_cons_of_mem _ hi))
    simpa using this

theorem packOrder_perm (sizes : List Rat) (dec : Bool) : (packOrder ratOps sizes dec).Perm (List.range sizes.length) := by
  unfold packOrder
  split
  · exact List.mergeSort_perm _ _
  · exact List.Perm.refl _

theorem pload_perm (sizes : List Rat) (asg : List Nat) {p q : List Nat} (h : p.Perm q) (b : Nat) :
    pload sizes asg p b = pload sizes asg q b :=
  perm_sum_rat ((h.filter _).map _)

theorem packRun_valid (sizes : List Rat) (cap : Rat) (useBest dec : Bool) (hcap : 0 < cap)
    (hs : ∀ s ∈ sizes, 0 ≤ s ∧ s ≤ cap) :
    ValidPack sizes cap (packRun ratOps sizes cap useBest dec).asg (packRun ratOps sizes cap useBest dec).bins.length ∧
    (sizes ≠ [] → 1 ≤ (packRun ratOps sizes cap useBest dec).bins.length) := by
  have hperm := packOrder_perm sizes dec
  have hs' : ∀ i, i < sizes.length → 0 ≤ sizes.getD i 0 ∧ sizes.getD i 0 ≤ cap := by
    intro i hi
    have : sizes.getD i 0 = sizes[i] := by simp [List.getD_eq_getElem?_getD, hi]
    rw [this]; exact hs _ (List.getElem_mem hi)
  have inv0 : PInv sizes cap [] ⟨[], List.replicate sizes.length 0⟩ :=
    ⟨by simp, by simp, by simp, by simp, by simp, by simp⟩
  have inv := foldl_place_inv sizes cap useBest (by grind) hs' (packOrder ratOps sizes dec) [] _ inv0
    (by simpa using hperm.nodup_iff.2 List.nodup_range)
    (fun j hj => List.mem_range.1 (hperm.mem_iff.1 hj))
  simp only [List.nil_append] at inv
  have hmem : ∀ i, i < sizes.length → i ∈ packOrder ratOps sizes dec :=
    fun i hi => hperm.mem_iff.2 (List.mem_range.2 hi)
  refine ⟨⟨inv.len, fun i hi => inv.lt i (hmem i hi), ?_, ?_⟩, ?_⟩
  · intro b hb
    obtain ⟨i, hi, hib⟩ := inv.used b hb
    exact ⟨i, List.mem_range.1 (hperm.mem_iff.1 hi), hib⟩
  · intro b hb
    have h1 := inv.rem b hb
    have h2 := inv.nonneg b hb
    have h3 : loadOf sizes (packRun ratOps sizes cap useBest dec).asg b =
        pload sizes (packRun ratOps sizes cap useBest dec).asg (packOrder ratOps sizes dec) b := by
      rw [pload_perm sizes _ hperm b]; rfl
    rw [h3]
    unfold packRun
    grind
  · intro hne
    have hne' : packOrder ratOps sizes dec ≠ [] := by
      intro h
      have := hperm.length_eq
      rw [h] at this
      simp at this
      exact hne (List.eq_nil_of_length_eq_zero this.symm)
    have := inv.nonempty hne'
    unfold packRun
    cases h : (List.foldl (place ratOps cap useBest sizes) ⟨[], List.replicate sizes.length 0⟩
      (packOrder ratOps sizes dec)).bins with
    | nil => exact absurd h this
    | cons _ _ => simp

/-- first-fit: the chosen bin fits and no earlier bin does; `none` means no bin fits -/
theorem firstFit_spec (size : Rat) : ∀ (bins : List Rat) (b0 : Nat),
    match firstFit ratOps size bins b0 with
    | some b => b0 ≤ b ∧ b - b0 < bins.length ∧ size ≤ bins.getD (b - b0) 0 ∧
        ∀ j, j < b - b0 → ¬ size ≤ bins.getD j 0
    | none => ∀ j, j < bins.length → ¬ size ≤ bins.getD j 0 := by
  intro bins
  induction bins with
  | nil => intro b0; simp [firstFit]
  | cons r rs ih =>
    intro b0
    simp only [firstFit]
    by_cases hle : size ≤ r
    · have : ratOps.le size r = true := decide_eq_true hle
      simp only [this, if_true]
      refine ⟨Nat.le_refl _, by simp, by simpa [List.getD_cons_zero] using hle, fun j hj => by omega⟩
    · have : ratOps.le size r = false := decide_eq_false hle
      simp only [this, Bool.false_eq_true, if_false]
      have := ih (b0 + 1)
      split
      · rename_i b hb
        rw [hb] at this
        obtain ⟨h1, h2, h3, h4⟩ := this
        have e : b - b0 = (b - (b0 + 1)) + 1 := by omega
        refine ⟨by omega, by simp; omega, by rw [e, List.getD_cons_succ]; exact h3, fun j hj => ?_⟩
        cases j with
        | zero => simpa [List.getD_cons_zero] using hle
        | succ j => rw [List.getD_cons_succ]; exact h4 j (by omega)
      · rename_i hb
        rw [hb] at this
        intro j hj
        cases j with
        | zero => simpa [List.getD_cons_zero] using hle
        | succ j => rw [List.getD_cons_succ]; exact this j (by simpa using hj)


/-- best-fit: the result is at least as tight as every bin that fits (and as the incoming best) -/
theorem bestFit_min (size : Rat) : ∀ (bins : List Rat) (b0 : Nat) (best : Option (Nat × Rat)),
    (∀ j, j < bins.length → size ≤ bins.getD j 0 →
      ∃ b r, bestFit ratOps size bins b0 best = some (b, r) ∧ r ≤ bins.getD j 0) ∧
    (∀ bb br, best = some (bb, br) → ∃ b r, bestFit ratOps size bins b0 best = some (b, r) ∧ r ≤ br) := by
  intro bins
  induction bins with
  | nil => intro b0 best; exact ⟨fun j hj => by simp at hj, fun bb br h => ⟨bb, br, by simp [bestFit, h], Rat.le_refl⟩⟩
  | cons x xs ih =>
    intro b0 best
    simp only [bestFit]
    constructor
    · intro j hj hfit
      cases j with
      | zero =>
        rw [List.getD_cons_zero] at hfit ⊢
        have hle : ratOps.le size x = true := decide_eq_true hfit
        cases best with
        | none =>
          simp only [hle, Bool.and_self, if_true]
          exact (ih (b0 + 1) (some (b0, x))).2 b0 x rfl
        | some p =>
          obtain ⟨bb, br⟩ := p
          simp only [hle, Bool.true_and]
          by_cases hlt : x < br
          · have : ratOps.lt x br = true := decide_eq_true hlt
            simp only [this, if_true]
            exact (ih (b0 + 1) (some (b0, x))).2 b0 x rfl
          · have : ratOps.lt x br = false := decide_eq_false hlt
            simp only [this, Bool.false_eq_true, if_false]
            obtain ⟨b, r, h1, h2⟩ := (ih (b0 + 1) (some (bb, br))).2 bb br rfl
            exact ⟨b, r, h1, by grind⟩
      | succ j =>
        rw [List.getD_cons_succ] at hfit ⊢
        exact (ih (b0 + 1) _).1 j (by simpa using hj) hfit
    · intro bb br hb
      subst hb
      simp only
      split
      · rename_i hbetter
        simp only [Bool.and_eq_true] at hbetter
        have hlt : x < br := by simpa [ratOps] using hbetter.2
        obtain ⟨b, r, h1, h2⟩ := (ih (b0 + 1) (some (b0, x))).2 b0 x rfl
        exact ⟨b, r, h1, by grind⟩
      · exact (ih (b0 + 1) (some (bb, br))).2 bb br rfl

theorem bestFit_none {size : Rat} {bins : List Rat} (h : bestFit ratOps size bins 0 none = none) :
    ∀ j, j < bins.length → ¬ size ≤ bins.getD j 0 := by
  intro j hj hfit
  obtain ⟨b, r, h1, _⟩ := (bestFit_min size bins 0 none).1 j hj hfit
  rw [h] at h1; cases h1

theorem firstFit_none {size : Rat} {bins : List Rat} (h : firstFit ratOps size bins 0 = none) :
    ∀ j, j < bins.length → ¬ size ≤ bins.getD j 0 := by
  have := firstFit_spec size bins 0
  rw [h] at this
  exact this

/-- any two open bins together hold more than one bin's capacity -/
def PairInv (cap : Rat) (st : PState Rat) : Prop :=
  ∀ b b', b < b' → b' < st.bins.length → st.bins.getD b 0 + st.bins.getD b' 0 < cap

theorem place_pair (sizes : List Rat) (cap : Rat) (useBest : Bool) (st : PState Rat) (j : Nat)
    (hs0 : 0 ≤ sizes.getD j 0) (inv : PairInv cap st) : PairInv cap (place ratOps cap useBest sizes st j) := by
  unfold place
  by_cases hz : sizes.getD j 0 = 0
  · have hz' : ratOps.isZero (sizes.getD j ratOps.zero) = true := decide_eq_true hz
    simp only [hz', if_true]
    by_cases he : st.bins = []
    · simp only [he, List.isEmpty_nil, if_true]
      intro b b' h1 h2
      simp at h2; omega
    · have hne' : st.bins.isEmpty = false := by cases h : st.bins <;> simp_all
      simp only [hne', Bool.false_eq_true, if_false]
      exact inv
  · have hz' : ratOps.isZero (sizes.getD j ratOps.zero) = false := decide_eq_false hz
    simp only [hz', Bool.false_eq_true, if_false]
    split
    · rename_i b0 hb0
      intro b b' h1 h2
      simp only [List.length_set] at h2
      have := inv b b' h1 h2
      rw [getD_set_list, getD_set_list]
      have e : ratOps.sub (st.bins.getD b0 ratOps.zero) (sizes.getD j ratOps.zero) = st.bins.getD b0 0 - sizes.getD j 0 := rfl
      rw [e]
      split <;> split <;> grind
    · rename_i hnone
      have hno : ∀ i, i < st.bins.length → ¬ sizes.getD j 0 ≤ st.bins.getD i 0 := by
        cases useBest with
        | true =>
          simp only [if_true, Option.map_eq_none_iff] at hnone
          exact bestFit_none hnone
        | false =>
          simp only [Bool.false_eq_true, if_false] at hnone
          exact firstFit_none hnone
      intro b b' h1 h2
      simp only [List.length_append, List.length_singleton] at h2
      by_cases hb' : b' = st.bins.length
      · subst hb'
        rw [getD_append_lt _ _ _ h1, getD_append_len]
        have := hno b h1
        show st.bins.getD b 0 + (cap - sizes.getD j 0) < cap
        grind
      · rw [getD_append_lt _ _ _ (by omega), getD_append_lt _ _ _ (by omega)]
        exact inv b b' h1 (by omega)

theorem foldl_place_pair (sizes : List Rat) (cap : Rat) (useBest : Bool)
    (hs : ∀ i, 0 ≤ sizes.getD i 0) :
    ∀ (todo : List Nat) (st : PState Rat), PairInv cap st → PairInv cap (todo.foldl (place ratOps cap useBest sizes) st) := by
  intro todo
  induction todo with
  | nil => intro st inv; exact inv
  | cons j rest ih => intro st inv; exact ih _ (place_pair sizes cap useBest st j (hs j) inv)

theorem pair_sum (cap : Rat) (L : Nat → Rat) : ∀ k, (∀ b, b < k → 0 ≤ L b) → (∀ b, b + 1 < k → cap < L b + L (b + 1)) →
    ((k / 2 : Nat) : Rat) * cap ≤ ((List.range k).map L).sum ∧
    (2 ≤ k → ((k / 2 : Nat) : Rat) * cap < ((List.range k).map L).sum) := by
  intro k
  induction k using Nat.strongRecOn with
  | _ k ih =>
    intro h0 hp
    match k with
    | 0 => simp
    | 1 =>
      have := h0 0 (by omega)
      simp [List.range_succ]; grind
    | k + 2 =>
      obtain ⟨i1, _⟩ := ih k (by omega) (fun b hb => h0 b (by omega)) (fun b hb => hp b (by omega))
      have hk := hp k (by omega)
      have e : (k + 2) / 2 = k / 2 + 1 := by omega
      rw [List.range_succ, List.range_succ, List.map_append, List.map_append, sum_append_rat, sum_append_rat, e,
        Rat.natCast_add]
      simp only [List.map_cons, List.map_nil, List.sum_cons, List.sum_nil]
      have : (((k / 2 : Nat) : Rat) + ((1 : Nat) : Rat)) * cap = ((k / 2 : Nat) : Rat) * cap + cap := by
        simp; grind
      rw [this]
      exact ⟨by grind, fun _ => by grind⟩


theorem packRun_inv (sizes : List Rat) (cap : Rat) (useBest dec : Bool) (hcap : 0 < cap)
    (hs : ∀ s ∈ sizes, 0 ≤ s ∧ s ≤ cap) :
    PInv sizes cap (packOrder ratOps sizes dec) (packRun ratOps sizes cap useBest dec) := by
  have hperm := packOrder_perm sizes dec
  have hs' : ∀ i, i < sizes.length → 0 ≤ sizes.getD i 0 ∧ sizes.getD i 0 ≤ cap := by
    intro i hi
    have : sizes.getD i 0 = sizes[i] := by simp [List.getD_eq_getElem?_getD, hi]
    rw [this]; exact hs _ (List.getElem_mem hi)
  have inv0 : PInv sizes cap [] ⟨[], List.replicate sizes.length 0⟩ :=
    ⟨by simp, by simp, by simp, by simp, by simp, by simp⟩
  have inv := foldl_place_inv sizes cap useBest (by grind) hs' (packOrder ratOps sizes dec) [] _ inv0
    (by simpa using hperm.nodup_iff.2 List.nodup_range)
    (fun j hj => List.mem_range.1 (hperm.mem_iff.1 hj))
  simp only [List.nil_append] at inv
  exact inv

theorem sum_map_nonneg (l : List Nat) (f : Nat → Rat) (h : ∀ i ∈ l, 0 ≤ f i) : 0 ≤ (l.map f).sum := by
  induction l with
  | nil => simp
  | cons a t ih =>
    have := h a List.mem_cons_self
    have := ih (fun i hi => h i (List.mem_cons_of_mem _ hi))
    simp only [List.map_cons, List.sum_cons]; grind

theorem ceil_le_of_le_mul {s cap : Rat} {k : Nat} (hcap : 0 < cap) (h : s ≤ k * cap) :
    (s / cap).ceil ≤ (k : Int) := by
  rw [Rat.ceil_le_iff]
  apply Rat.not_lt.1
  intro hlt
  have := (Rat.lt_div_iff hcap).1 hlt
  have e : ((k : Int) : Rat) = (k : Rat) := Rat.intCast_natCast k
  rw [e] at this
  grind

end Solvor.Pack
