import Solvor.Common.Proto
import Solvor.Assign.Model
/-! Assign: line-protocol handler. One request line in, one reply line out. -/
namespace Solvor.Assign

def handle (line : String) : String := "unimplemented " ++ line

end Solvor.Assign
