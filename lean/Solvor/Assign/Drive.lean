import Solvor.Common.Proto
import Solvor.Assign.Model
/-! Assign: line-protocol handler.

request `["case", matrix, minimize, implAsg | null]`
  matrix  : list of rows of exact rationals `[num, den]`
  implAsg : the implementation's `assignment` (list of ints) or `null` (it raised)
reply `[asg, obj, iters, evals, u, v, stuck, rect, chkModel, implValid, implChk, implObj]`
  asg … stuck : the mirror `hungarian` (assignment, objective, counters, potentials of the padded square)
  rect        : the matrix is rectangular
  chkModel    : verified checker `chkAssignment` on the mirror's own assignment and potentials
  implValid   : `validAsgB` on the implementation's assignment            (null if none sent)
  implChk     : `chkAssignment` on the implementation's assignment with the mirror's potentials
  implObj     : `objOf` = Σ chosen entries of the implementation's assignment
-/
namespace Solvor.Assign
open Solvor.Proto

def handle (line : String) : String :=
  match request line with
  | some ("case", [mat, mn, impl]) =>
    match mat.toRatss?, mn.toBool?, impl.toOpt? Val.toInts? with
    | some m, some mn, some impl =>
      let o := hungarian m mn
      let mx := maxVal m
      let implPart : List Val := match impl with
        | none => [Val.null, Val.null, Val.null]
        | some a => [Val.bool (validAsgB (nRows m) (nCols m) a),
                     Val.bool (chkAssignment m mn mx a o.u o.v), Val.ofRat (objOf m a)]
      (Val.arr ([Val.ofInts o.asg, Val.ofRat o.obj, Val.int o.iters, Val.int o.evals,
        Val.ofRats o.u, Val.ofRats o.v, Val.bool o.stuck, Val.bool (rectB m),
        Val.bool (chkAssignment m mn mx o.asg o.u o.v)] ++ implPart)).render
    | _, _, _ => err "bad arguments"
  | _ => err "bad request"

end Solvor.Assign
