import Solvor.Assign.Bridge
import Mathlib.Order.Interval.Finset.Nat
/-! Assign: the loop invariants of the mirror (`hungarian_certifies`). -/
namespace Solvor.Assign
set_option linter.unusedSimpArgs false
set_option linter.unusedVariables false

/-! ### the scan `for j in range(1, n + 1)` -/
section Scan
variable (A : Nat → Nat → Rat) (u v : Nat → Rat) (used : Nat → Bool) (i0 j0 : Nat)

theorem scanStep_used {s : Scan} {j : Nat} (h : used j = true) :
    scanStep A u v used i0 j0 s j = s := by
  simp [scanStep, h]

theorem scanStep_unused {j : Nat} (h : used j = false) (s : Scan) :
    (∀ k, k ≠ j → (scanStep A u v used i0 j0 s j).minv k = s.minv k ∧
        (scanStep A u v used i0 j0 s j).way k = s.way k) ∧
    ∃ x, (scanStep A u v used i0 j0 s j).minv j = some x ∧ x ≤ A i0 j - u i0 - v j ∧
      (∀ y, s.minv j = some y → x ≤ y) ∧
      ((x = A i0 j - u i0 - v j ∧ (scanStep A u v used i0 j0 s j).way j = j0) ∨
        (s.minv j = some x ∧ (scanStep A u v used i0 j0 s j).way j = s.way j)) ∧
      (((scanStep A u v used i0 j0 s j).delta = some x ∧ (scanStep A u v used i0 j0 s j).next = j ∧
          ∀ d0, s.delta = some d0 → x ≤ d0) ∨
        ((scanStep A u v used i0 j0 s j).delta = s.delta ∧
          (scanStep A u v used i0 j0 s j).next = s.next ∧ ∃ d0, s.delta = some d0 ∧ d0 ≤ x)) := by
  unfold scanStep
  simp only [h, Bool.false_eq_true, if_false]
  cases hm : s.minv j with
  | none =>
    simp only [ltInf, if_true, upd, if_pos]
    cases hd : s.delta with
    | none => simp [ltInf, upd]; grind
    | some d0 =>
      by_cases hlt : A i0 j - u i0 - v j < d0
      · simp [ltInf, hlt, upd]; grind
      · simp [ltInf, hlt, upd]; grind
  | some y =>
    by_cases hc : A i0 j - u i0 - v j < y
    · cases hd : s.delta with
      | none => simp [ltInf, hc, upd]; grind
      | some d0 =>
        by_cases hlt : A i0 j - u i0 - v j < d0
        · simp [ltInf, hc, hlt, upd]; grind
        · simp [ltInf, hc, hlt, upd]; grind
    · cases hd : s.delta with
      | none => simp [ltInf, hc, hm, upd]; grind
      | some d0 =>
        by_cases hlt : y < d0
        · simp [ltInf, hc, hm, hlt, upd]; grind
        · simp [ltInf, hc, hm, hlt, upd]; grind

/-- what the fold of `scanStep` over a duplicate-free column list establishes -/
theorem scan_fold (L : List Nat) (hL : L.Nodup) (s : Scan) :
    (∀ k, (used k = true ∨ k ∉ L) →
        (L.foldl (scanStep A u v used i0 j0) s).minv k = s.minv k ∧
        (L.foldl (scanStep A u v used i0 j0) s).way k = s.way k) ∧
    (∀ j ∈ L, used j = false → ∃ x, (L.foldl (scanStep A u v used i0 j0) s).minv j = some x ∧
        x ≤ A i0 j - u i0 - v j ∧ (∀ y, s.minv j = some y → x ≤ y) ∧
        ((x = A i0 j - u i0 - v j ∧ (L.foldl (scanStep A u v used i0 j0) s).way j = j0) ∨
          (s.minv j = some x ∧ (L.foldl (scanStep A u v used i0 j0) s).way j = s.way j))) ∧
    ((L.foldl (scanStep A u v used i0 j0) s).delta = none → s.delta = none ∧ ∀ j ∈ L, used j = true) ∧
    (∀ d, (L.foldl (scanStep A u v used i0 j0) s).delta = some d →
      ((s.delta = some d ∧ (L.foldl (scanStep A u v used i0 j0) s).next = s.next) ∨
        ((L.foldl (scanStep A u v used i0 j0) s).next ∈ L ∧
          used (L.foldl (scanStep A u v used i0 j0) s).next = false ∧
          (L.foldl (scanStep A u v used i0 j0) s).minv (L.foldl (scanStep A u v used i0 j0) s).next = some d)) ∧
      (∀ d0, s.delta = some d0 → d ≤ d0) ∧
      (∀ j ∈ L, used j = false → ∀ x, (L.foldl (scanStep A u v used i0 j0) s).minv j = some x → d ≤ x)) := by
  induction L generalizing s with
  | nil =>
    simp only [List.foldl_nil, List.not_mem_nil, not_false_eq_true, or_true, and_self, implies_true,
      false_and, or_false, true_and, and_true, false_implies]
    refine ⟨fun h => h, fun d hd => ⟨hd, fun d0 h0 => ?_⟩⟩
    rw [hd] at h0; cases h0; exact le_refl _
  | cons a L ih =>
    have hnd := List.nodup_cons.1 hL
    obtain ⟨I1, I2, I3, I4⟩ := ih hnd.2 (scanStep A u v used i0 j0 s a)
    simp only [List.foldl_cons]
    generalize hsc : List.foldl (scanStep A u v used i0 j0) (scanStep A u v used i0 j0 s a) L = sc at I1 I2 I3 I4
    clear ih hsc
    by_cases ha : used a = true
    · rw [scanStep_used A u v used i0 j0 ha] at I1 I2 I3 I4
      refine ⟨?_, ?_, ?_, ?_⟩
      · intro k hk; apply I1; grind
      · intro j hj hu; apply I2 j (by grind) hu
      · intro h; have := I3 h; grind
      · intro d hd; have := I4 d hd; grind
    · have ha' : used a = false := by simpa using ha
      obtain ⟨F1, x, F2, F3, F4, F5, F6⟩ := scanStep_unused A u v used i0 j0 ha' s
      generalize scanStep A u v used i0 j0 s a = s1 at I1 I2 I3 I4 F1 F2 F5 F6
      have hsa := I1 a (Or.inr hnd.1)
      refine ⟨?_, ?_, ?_, ?_⟩
      · intro k hk
        have hka : k ≠ a := by grind
        have := I1 k (by grind)
        have := F1 k hka
        grind
      · intro j hj hu
        rcases List.mem_cons.1 hj with rfl | hj'
        · exact ⟨x, by grind, F3, F4, by grind⟩
        · have hja : j ≠ a := by grind
          obtain ⟨x', h1, h2, h3, h4⟩ := I2 j hj' hu
          have := F1 j hja
          exact ⟨x', h1, h2, by grind, by grind⟩
      · intro h; have := I3 h; grind
      · intro d hd
        obtain ⟨J1, J2, J3⟩ := I4 d hd
        refine ⟨?_, ?_, ?_⟩
        · grind
        · grind
        · intro j hj hu x' hx'
          rcases List.mem_cons.1 hj with rfl | hj'
          · grind
          · exact J3 j hj' hu x' hx'

theorem scan_spec (n : Nat) (minv : Nat → Option Rat) (way : Nat → Nat) :
    (∀ k, (used k = true ∨ k < 1 ∨ n < k) →
        (scan A n u v used i0 j0 minv way).minv k = minv k ∧ (scan A n u v used i0 j0 minv way).way k = way k) ∧
    (∀ j, 1 ≤ j → j ≤ n → used j = false → ∃ x, (scan A n u v used i0 j0 minv way).minv j = some x ∧
        x ≤ A i0 j - u i0 - v j ∧ (∀ y, minv j = some y → x ≤ y) ∧
        ((x = A i0 j - u i0 - v j ∧ (scan A n u v used i0 j0 minv way).way j = j0) ∨
          (minv j = some x ∧ (scan A n u v used i0 j0 minv way).way j = way j))) ∧
    ((∃ j, 1 ≤ j ∧ j ≤ n ∧ used j = false) → ∃ d, (scan A n u v used i0 j0 minv way).delta = some d ∧
        1 ≤ (scan A n u v used i0 j0 minv way).next ∧ (scan A n u v used i0 j0 minv way).next ≤ n ∧
        used (scan A n u v used i0 j0 minv way).next = false ∧
        (scan A n u v used i0 j0 minv way).minv (scan A n u v used i0 j0 minv way).next = some d ∧
        ∀ j, 1 ≤ j → j ≤ n → used j = false → ∀ x, (scan A n u v used i0 j0 minv way).minv j = some x → d ≤ x) := by
  have hmem : ∀ j, j ∈ List.range' 1 n ↔ (1 ≤ j ∧ j ≤ n) := by
    intro j; rw [List.mem_range'_1]; omega
  obtain ⟨I1, I2, I3, I4⟩ := scan_fold A u v used i0 j0 (List.range' 1 n) List.nodup_range' ⟨minv, way, none, 0⟩
  unfold scan
  generalize List.foldl (scanStep A u v used i0 j0) ⟨minv, way, none, 0⟩ (List.range' 1 n) = sc at I1 I2 I3 I4
  simp only at I1 I2 I3 I4
  refine ⟨?_, ?_, ?_⟩
  · intro k hk
    apply I1
    rcases hk with h | h | h
    · exact Or.inl h
    · right; rw [hmem]; omega
    · right; rw [hmem]; omega
  · intro j h1 h2 hu
    exact I2 j ((hmem j).2 ⟨h1, h2⟩) hu
  · rintro ⟨j, h1, h2, hu⟩
    cases hd : sc.delta with
    | none =>
      have := (I3 hd).2 j ((hmem j).2 ⟨h1, h2⟩)
      rw [hu] at this; cases this
    | some d =>
      obtain ⟨J1, J2, J3⟩ := I4 d hd
      rcases J1 with ⟨h, _⟩ | ⟨h3, h4, h5⟩
      · cases h
      · have := (hmem _).1 h3
        exact ⟨d, rfl, this.1, this.2, h4, h5, fun j a b c x hx => J3 j ((hmem j).2 ⟨a, b⟩) c x hx⟩

end Scan

/-! ### `row_potential[col_match[j]] += delta` over the used columns -/

theorem bumpU_fold (used : Nat → Bool) (p : Nat → Nat) (d : Rat) (L : List Nat) (hL : L.Nodup)
    (hinj : ∀ a ∈ L, ∀ b ∈ L, used a = true → used b = true → p a = p b → a = b) (u : Nat → Rat) :
    (∀ j ∈ L, used j = true →
      (L.foldl (fun u j => if used j then upd u (p j) (u (p j) + d) else u) u) (p j) = u (p j) + d) ∧
    (∀ i, (∀ j ∈ L, used j = true → p j ≠ i) →
      (L.foldl (fun u j => if used j then upd u (p j) (u (p j) + d) else u) u) i = u i) := by
  induction L generalizing u with
  | nil => simp
  | cons a L ih =>
    have hnd := List.nodup_cons.1 hL
    have hinj' : ∀ x ∈ L, ∀ y ∈ L, used x = true → used y = true → p x = p y → x = y :=
      fun x hx y hy => hinj x (List.mem_cons_of_mem _ hx) y (List.mem_cons_of_mem _ hy)
    simp only [List.foldl_cons]
    obtain ⟨I1, I2⟩ := ih hnd.2 hinj' (if used a then upd u (p a) (u (p a) + d) else u)
    clear ih
    refine ⟨?_, ?_⟩
    · intro j hj hu
      rcases List.mem_cons.1 hj with rfl | hj'
      · rw [I2]
        · simp [hu, upd]
        · intro b hb hub hpb
          have := hinj b (List.mem_cons_of_mem _ hb) j List.mem_cons_self hub hu hpb
          exact hnd.1 (this ▸ hb)
      · rw [I1 j hj' hu]
        by_cases ha : used a = true
        · have hne : p j ≠ p a := by
            intro h
            have := hinj j hj a List.mem_cons_self hu ha h
            exact hnd.1 (this ▸ hj')
          simp [ha, upd, hne]
        · simp [ha]
    · intro i hi
      rw [I2 i (fun j hj hu => hi j (List.mem_cons_of_mem _ hj) hu)]
      by_cases ha : used a = true
      · have := hi a List.mem_cons_self ha
        simp [ha, upd, Ne.symm this]
      · simp [ha]

theorem bumpU_spec (n : Nat) (used : Nat → Bool) (p : Nat → Nat) (d : Rat) (u : Nat → Rat)
    (hn : ∀ j, used j = true → j ≤ n)
    (hinj : ∀ a b, used a = true → used b = true → p a = p b → a = b) :
    (∀ j, used j = true → bumpU n used p d u (p j) = u (p j) + d) ∧
    (∀ i, (∀ j, used j = true → p j ≠ i) → bumpU n used p d u i = u i) := by
  obtain ⟨h1, h2⟩ := bumpU_fold used p d (List.range (n + 1)) List.nodup_range
    (fun a _ b _ => hinj a b) u
  unfold bumpU
  refine ⟨fun j hj => h1 j (List.mem_range.2 (by have := hn j hj; omega)) hj, fun i hi => h2 i (fun j _ hu => hi j hu)⟩

/-! ### termination measure of the `while` loop: number of unused columns among `0..n` -/

def unusedCount (n : Nat) (used : Nat → Bool) : Nat := ((List.range (n + 1)).filter fun j => !used j).length

theorem filter_len_le (l : List Nat) (p q : Nat → Bool) (hqp : ∀ x, q x = true → p x = true) :
    (l.filter q).length ≤ (l.filter p).length := by
  induction l with
  | nil => simp
  | cons b l ih =>
    simp only [List.filter_cons]
    by_cases hq : q b = true
    · simp [hq, hqp b hq]; exact ih
    · by_cases hp : p b = true <;> simp [hq, hp] <;> omega

theorem filter_len_lt (l : List Nat) (p q : Nat → Bool) (hqp : ∀ x, q x = true → p x = true)
    (a : Nat) (ha : a ∈ l) (hpa : p a = true) (hqa : q a = false) :
    (l.filter q).length < (l.filter p).length := by
  induction l with
  | nil => cases ha
  | cons b l ih =>
    rcases List.mem_cons.1 ha with rfl | ha'
    · have := filter_len_le l p q hqp
      simp [List.filter_cons, hpa, hqa]; omega
    · have := ih ha'
      simp only [List.filter_cons]
      by_cases hq : q b = true
      · simp [hq, hqp b hq]; omega
      · by_cases hp : p b = true <;> simp [hq, hp] <;> omega

theorem unusedCount_upd_lt (n : Nat) (used : Nat → Bool) (j0 : Nat) (hj : j0 ≤ n) (hu : used j0 = false) :
    unusedCount n (upd used j0 true) < unusedCount n used := by
  unfold unusedCount
  apply filter_len_lt _ _ _ _ j0 (List.mem_range.2 (by omega))
  · simp [hu]
  · simp [upd]
  · intro x hx
    by_cases h : x = j0
    · subst h; simp [hu]
    · simpa [upd, h] using hx

theorem unusedCount_le (n : Nat) (used : Nat → Bool) : unusedCount n used ≤ n + 1 := by
  unfold unusedCount
  exact le_trans (List.length_filter_le _ _) (by simp)

theorem unusedCount_pos (n : Nat) (used : Nat → Bool) (j : Nat) (hj : j ≤ n) (hu : used j = false) :
    0 < unusedCount n used := by
  unfold unusedCount
  apply List.length_pos_of_mem (a := j)
  simp [List.mem_filter, hu]; omega

/-! ### invariant of the `while` loop for the row `t` being inserted -/

/-- what the loop needs to know about `col_match` (`p0`, with `p0 0 = t`) -/
structure PInv (n t : Nat) (p0 : Nat → Nat) : Prop where
  t_pos : 1 ≤ t
  t_le : t ≤ n
  p0_zero : p0 0 = t
  p0_lt : ∀ j, 1 ≤ j → j ≤ n → p0 j < t
  p0_inj : ∀ j j', j ≤ n → j' ≤ n → p0 j ≠ 0 → p0 j = p0 j' → j = j'
  free : ∃ c, 1 ≤ c ∧ c ≤ n ∧ p0 c = 0
  surj : ∀ i, 1 ≤ i → i < t → ∃ j, 1 ≤ j ∧ j ≤ n ∧ p0 j = i

structure LInvF (A : Nat → Nat → Rat) (n t : Nat) (p0 : Nat → Nat) (u v : Nat → Rat) (way : Nat → Nat)
    (minv : Nat → Option Rat) (used : Nat → Bool) (j0 : Nat) (rk : Nat → Nat) (c : Nat) : Prop where
  feas : ∀ i j, 1 ≤ i → (i < t ∨ (i = t ∧ used 0 = true)) → 1 ≤ j → j ≤ n → u i + v j ≤ A i j
  tight : ∀ j, 1 ≤ j → j ≤ n → p0 j ≠ 0 → u (p0 j) + v j = A (p0 j) j
  used_ok : ∀ j, used j = true → j ≤ n ∧ p0 j ≠ 0
  used_zero : ∀ j, used j = true → used 0 = true
  j0_le : j0 ≤ n
  j0_unused : used j0 = false
  minv_some : ∀ j, 1 ≤ j → j ≤ n → used j = false → ∀ x, minv j = some x →
      used (way j) = true ∧ x = A (p0 (way j)) j - u (p0 (way j)) - v j
  minv_le : ∀ j, 1 ≤ j → j ≤ n → used j = false → ∀ k, used k = true →
      ∃ x, minv j = some x ∧ x ≤ A (p0 k) j - u (p0 k) - v j
  j0_way : j0 ≠ 0 → used (way j0) = true ∧ u (p0 (way j0)) + v j0 = A (p0 (way j0)) j0
  tree : ∀ j, used j = true → j ≠ 0 →
      used (way j) = true ∧ rk (way j) < rk j ∧ u (p0 (way j)) + v j = A (p0 (way j)) j
  rk_lt : ∀ j, used j = true → rk j < c
  budget : c + unusedCount n used ≤ n + 1

theorem step_inv {A : Nat → Nat → Rat} {n t : Nat} {p0 : Nat → Nat} {u v : Nat → Rat} {way : Nat → Nat}
    {minv : Nat → Option Rat} {used : Nat → Bool} {j0 : Nat} {rk : Nat → Nat} {c : Nat}
    (hP : PInv n t p0) (h : LInvF A n t p0 u v way minv used j0 rk c) (hne : p0 j0 ≠ 0) :
    ∃ d, (scan A n u v (upd used j0 true) (p0 j0) j0 minv way).delta = some d ∧
      LInvF A n t p0 (bumpU n (upd used j0 true) p0 d u)
        (fun j => if upd used j0 true j then v j - d else v j)
        (scan A n u v (upd used j0 true) (p0 j0) j0 minv way).way
        (fun j => if upd used j0 true j then (scan A n u v (upd used j0 true) (p0 j0) j0 minv way).minv j
          else ((scan A n u v (upd used j0 true) (p0 j0) j0 minv way).minv j).map (· - d))
        (upd used j0 true) (scan A n u v (upd used j0 true) (p0 j0) j0 minv way).next
        (upd rk j0 c) (c + 1) := by
  -- the new used set
  have hU : ∀ j, upd used j0 true j = true ↔ (j = j0 ∨ used j = true) := by
    intro j; unfold upd; by_cases hj : j = j0 <;> simp [hj]
  have hUf : ∀ j, upd used j0 true j = false ↔ (j ≠ j0 ∧ used j = false) := by
    intro j; unfold upd; by_cases hj : j = j0 <;> simp [hj]
  generalize hU'def : upd used j0 true = U' at hU hUf
  have hj0n := h.j0_le
  have hU'ok : ∀ j, U' j = true → j ≤ n ∧ p0 j ≠ 0 := by
    intro j hj
    rcases (hU j).1 hj with rfl | hj'
    · exact ⟨hj0n, hne⟩
    · exact h.used_ok j hj'
  have hU'inj : ∀ a b, U' a = true → U' b = true → p0 a = p0 b → a = b := fun a b ha hb hab =>
    hP.p0_inj a b (hU'ok a ha).1 (hU'ok b hb).1 (hU'ok a ha).2 hab
  have hU'0 : U' 0 = true := by
    rw [hU]
    by_cases hz : j0 = 0
    · exact Or.inl hz.symm
    · exact Or.inr (h.used_zero _ (h.j0_way hz).1)
  -- the row handled in this iteration
  have hi0 : 1 ≤ p0 j0 ∧ p0 j0 ≤ t := by
    by_cases hz : j0 = 0
    · subst hz; rw [hP.p0_zero]; exact ⟨hP.t_pos, le_refl _⟩
    · have := hP.p0_lt j0 (by omega) hj0n; omega
  have hrow : ∀ k, U' k = true → 1 ≤ p0 k ∧ (p0 k < t ∨ (p0 k = t ∧ k = 0)) := by
    intro k hk
    have hk' := hU'ok k hk
    by_cases hz : k = 0
    · subst hz; rw [hP.p0_zero]; exact ⟨hP.t_pos, Or.inr ⟨rfl, rfl⟩⟩
    · have := hP.p0_lt k (by omega) hk'.1; omega
  -- scan facts
  obtain ⟨S1, S2, S3⟩ := scan_spec A u v U' (p0 j0) j0 n minv way
  obtain ⟨cs, hcs1, hcs2, hcs3⟩ := hP.free
  have hcsU : U' cs = false := by
    cases hc : U' cs with
    | false => rfl
    | true => exact absurd hcs3 (hU'ok cs hc).2
  obtain ⟨d, hd, hn1, hn2, hn3, hn4, hn5⟩ := S3 ⟨cs, hcs1, hcs2, hcsU⟩
  generalize scan A n u v U' (p0 j0) j0 minv way = sc at S1 S2 hd hn1 hn2 hn3 hn4 hn5
  refine ⟨d, hd, ?_⟩
  obtain ⟨B1, B2⟩ := bumpU_spec n U' p0 d u (fun j hj => (hU'ok j hj).1) hU'inj
  generalize bumpU n U' p0 d u = u' at B1 B2
  -- slack of an unused column against every used row
  have key : ∀ j, 1 ≤ j → j ≤ n → U' j = false → ∀ k, U' k = true →
      ∃ y, sc.minv j = some y ∧ y ≤ A (p0 k) j - u (p0 k) - v j := by
    intro j hj1 hj2 hju k hk
    obtain ⟨y, hy1, hy2, hy3, hy4⟩ := S2 j hj1 hj2 hju
    refine ⟨y, hy1, ?_⟩
    rcases (hU k).1 hk with rfl | hk'
    · exact hy2
    · obtain ⟨x, hx1, hx2⟩ := h.minv_le j hj1 hj2 ((hUf j).1 hju).2 k hk'
      exact le_trans (hy3 x hx1) hx2
  -- feasibility known for the rows of (old) used columns
  have hfeasRow : ∀ k, used k = true → ∀ j, 1 ≤ j → j ≤ n → u (p0 k) + v j ≤ A (p0 k) j := by
    intro k hk j hj1 hj2
    have hk' := hrow k ((hU k).2 (Or.inr hk))
    apply h.feas (p0 k) j hk'.1 _ hj1 hj2
    rcases hk'.2 with h1 | ⟨h1, h2⟩
    · exact Or.inl h1
    · exact Or.inr ⟨h1, h2 ▸ hk⟩
  have hdpos : used 0 = true → 0 ≤ d := by
    intro h0
    have hj0z : j0 ≠ 0 := by intro hz; rw [hz] at h; have := h.j0_unused; rw [h0] at this; cases this
    obtain ⟨y, hy1, hy2, hy3, hy4⟩ := S2 _ hn1 hn2 hn3
    rw [hn4] at hy1; cases hy1
    rcases hy4 with ⟨hy, _⟩ | ⟨hy, _⟩
    · have := h.feas (p0 j0) sc.next hi0.1 (Or.inl (hP.p0_lt j0 (by omega) hj0n)) hn1 hn2
      rw [hy]; linarith
    · obtain ⟨hw, hx⟩ := h.minv_some _ hn1 hn2 ((hUf _).1 hn3).2 _ hy
      have := hfeasRow _ hw sc.next hn1 hn2
      rw [hx]; linarith
  have hv' : ∀ j, (if U' j = true then v j - d else v j) = if U' j = true then v j - d else v j := fun _ => rfl
  constructor
  · -- feas
    intro i j hi1 hi2 hj1 hj2
    by_cases hb : ∃ k, U' k = true ∧ p0 k = i
    · obtain ⟨k, hk, rfl⟩ := hb
      rw [B1 k hk]
      by_cases hju : U' j = true
      · simp only [hju, if_true]
        have hjold : used j = true ∨ j = j0 := by rcases (hU j).1 hju with h1 | h1; exact Or.inr h1; exact Or.inl h1
        -- old feasibility at (p0 k, j)
        have : u (p0 k) + v j ≤ A (p0 k) j := by
          have hk' := hrow k hk
          apply h.feas (p0 k) j hk'.1 _ hj1 hj2
          rcases hk'.2 with h1 | ⟨h1, h2⟩
          · exact Or.inl h1
          · refine Or.inr ⟨h1, ?_⟩
            -- some column ≥ 1 is used, hence column 0 was used before
            rcases hjold with h3 | h3
            · exact h.used_zero j h3
            · have : j0 ≠ 0 := by omega
              exact h.used_zero _ (h.j0_way this).1
        linarith
      · have hju' : U' j = false := by simpa using hju
        simp only [hju', Bool.false_eq_true, if_false]
        obtain ⟨y, hy1, hy2⟩ := key j hj1 hj2 hju' k hk
        have := hn5 j hj1 hj2 hju' y hy1
        linarith
    · have hb' : ∀ k, U' k = true → p0 k ≠ i := fun k hk hki => hb ⟨k, hk, hki⟩
      rw [B2 i hb']
      have hit : i < t := by
        rcases hi2 with h1 | ⟨h1, _⟩
        · exact h1
        · exact absurd (h1 ▸ hP.p0_zero) (hb' 0 hU'0)
      have hold := h.feas i j hi1 (Or.inl hit) hj1 hj2
      by_cases hju : U' j = true
      · simp only [hju, if_true]
        have h0 : used 0 = true := by
          rcases (hU j).1 hju with h1 | h1
          · have : j0 ≠ 0 := by omega
            exact h.used_zero _ (h.j0_way this).1
          · exact h.used_zero j h1
        have := hdpos h0
        linarith
      · simp only [hju, if_false]; exact hold
  · -- tight
    intro j hj1 hj2 hpj
    by_cases hju : U' j = true
    · rw [B1 j hju]; simp only [hju, if_true]
      have := h.tight j hj1 hj2 hpj; linarith
    · simp only [hju, if_false]
      rw [B2]
      · exact h.tight j hj1 hj2 hpj
      · intro k hk hkj
        have := hP.p0_inj k j (hU'ok k hk).1 hj2 (hU'ok k hk).2 hkj
        exact hju (this ▸ hk)
  · exact hU'ok
  · intro j _; exact hU'0
  · exact hn2
  · exact hn3
  · -- minv_some
    intro j hj1 hj2 hju x hx
    simp only [hju, Bool.false_eq_true, if_false] at hx ⊢
    obtain ⟨y, hy1, hy2, hy3, hy4⟩ := S2 j hj1 hj2 hju
    rw [hy1] at hx
    simp only [Option.map_some, Option.some.injEq] at hx
    rcases hy4 with ⟨hy, hw⟩ | ⟨hy, hw⟩
    · rw [hw]
      have hj0U : U' j0 = true := (hU j0).2 (Or.inl rfl)
      refine ⟨hj0U, ?_⟩
      rw [B1 j0 hj0U]; linarith
    · rw [hw]
      obtain ⟨hwu, hxx⟩ := h.minv_some j hj1 hj2 ((hUf j).1 hju).2 y hy
      have hwU : U' (way j) = true := (hU _).2 (Or.inr hwu)
      refine ⟨hwU, ?_⟩
      rw [B1 _ hwU]; linarith
  · -- minv_le
    intro j hj1 hj2 hju k hk
    simp only [hju, Bool.false_eq_true, if_false]
    obtain ⟨y, hy1, hy2⟩ := key j hj1 hj2 hju k hk
    refine ⟨y - d, by rw [hy1]; rfl, ?_⟩
    rw [B1 k hk]; linarith
  · -- j0_way
    intro _
    simp only [hn3, Bool.false_eq_true, if_false]
    obtain ⟨y, hy1, hy2, hy3, hy4⟩ := S2 _ hn1 hn2 hn3
    rw [hn4] at hy1; cases hy1
    rcases hy4 with ⟨hy, hw⟩ | ⟨hy, hw⟩
    · rw [hw]
      have hj0U : U' j0 = true := (hU j0).2 (Or.inl rfl)
      refine ⟨hj0U, ?_⟩
      rw [B1 j0 hj0U]; linarith
    · rw [hw]
      obtain ⟨hwu, hxx⟩ := h.minv_some _ hn1 hn2 ((hUf _).1 hn3).2 _ hy
      have hwU : U' (way sc.next) = true := (hU _).2 (Or.inr hwu)
      refine ⟨hwU, ?_⟩
      rw [B1 _ hwU]; linarith
  · -- tree
    intro j hju hjz
    have hwj : sc.way j = way j := (S1 j (Or.inl hju)).2
    rw [hwj]
    simp only [hju, if_true]
    rcases (hU j).1 hju with rfl | hj'
    · obtain ⟨hw, ht⟩ := h.j0_way hjz
      have hwU : U' (way j) = true := (hU _).2 (Or.inr hw)
      have hwne : way j ≠ j := by intro he; rw [he] at hw; rw [h.j0_unused] at hw; cases hw
      refine ⟨hwU, ?_, ?_⟩
      · simp only [upd, hwne, if_false, if_true]; exact h.rk_lt _ hw
      · rw [B1 _ hwU]; linarith
    · obtain ⟨hw, hr, ht⟩ := h.tree j hj' hjz
      have hwU : U' (way j) = true := (hU _).2 (Or.inr hw)
      have hwne : way j ≠ j0 := by intro he; rw [he] at hw; rw [h.j0_unused] at hw; cases hw
      have hjne : j ≠ j0 := by intro he; rw [he] at hj'; rw [h.j0_unused] at hj'; cases hj'
      refine ⟨hwU, ?_, ?_⟩
      · simp only [upd, hwne, hjne, if_false]; exact hr
      · rw [B1 _ hwU]; linarith
  · -- rk_lt
    intro j hju
    rcases (hU j).1 hju with rfl | hj'
    · simp [upd]
    · have hjne : j ≠ j0 := by intro he; rw [he] at hj'; rw [h.j0_unused] at hj'; cases hj'
      simp only [upd, hjne, if_false]
      have := h.rk_lt j hj'; omega
  · -- budget
    have := unusedCount_upd_lt n used j0 hj0n h.j0_unused
    rw [hU'def] at this
    have := h.budget
    omega

theorem Tab.get_of' {α : Type} (n : Nat) (f : Nat → α) : (Tab.of n f).get = f := funext (Tab.get_of n f)

theorem bumpT_fold (n : Nat) (used : Nat → Bool) (p : Nat → Nat) (d : Rat) (L : List Nat) (t : Tab Rat) :
    (L.foldl (fun t j => if used j then Tab.of n (upd t.get (p j) (t.get (p j) + d)) else t) t).get
      = L.foldl (fun u j => if used j then upd u (p j) (u (p j) + d) else u) t.get := by
  induction L generalizing t with
  | nil => rfl
  | cons a L ih =>
    simp only [List.foldl_cons]
    rw [ih]
    congr 1
    split
    · rw [Tab.get_of']
    · rfl

/-- the tabulated loop the driver runs computes the specification fold -/
theorem bumpT_get (n : Nat) (used : Nat → Bool) (p : Nat → Nat) (d : Rat) (t : Tab Rat) :
    (bumpT n used p d t).get = bumpU n used p d t.get := bumpT_fold n used p d _ t

def LInv (A : Nat → Nat → Rat) (n t : Nat) (p0 : Nat → Nat) (s : Loop) (rk : Nat → Nat) (c : Nat) : Prop :=
  LInvF A n t p0 s.u.get s.v.get s.way.get s.minv.get s.used.get s.j0 rk c

theorem search_inv {A : Nat → Nat → Rat} {n t : Nat} {p0 : Nat → Nat} (hP : PInv n t p0) :
    ∀ (fuel : Nat) (s : Loop) (rk : Nat → Nat) (c : Nat), LInv A n t p0 s rk c → s.stuck = false →
      unusedCount n s.used.get < fuel →
      ∃ rk' c', LInv A n t p0 (search A n p0 fuel s) rk' c' ∧ p0 (search A n p0 fuel s).j0 = 0 ∧
        (search A n p0 fuel s).stuck = false := by
  intro fuel
  induction fuel with
  | zero => intro s rk c _ _ h; omega
  | succ fuel ih =>
    intro s rk c hinv hst hfuel
    unfold search
    by_cases hz : p0 s.j0 = 0
    · rw [if_pos hz]
      exact ⟨rk, c, hinv, hz, hst⟩
    · rw [if_neg hz]
      obtain ⟨d, hd, hnew⟩ := step_inv hP hinv hz
      simp only [hd]
      apply ih _ (upd rk s.j0 c) (c + 1)
      · unfold LInv
        simp only [Tab.get_of', bumpT_get]
        exact hnew
      · exact hst
      · simp only [Tab.get_of']
        have := unusedCount_upd_lt n s.used.get s.j0 hinv.j0_le hinv.j0_unused
        omega

/-! ### the augmenting walk `while current_col != 0` -/

/-- invariant of the outer loop after `t` rows have been inserted -/
structure Inv (A : Nat → Nat → Rat) (n t : Nat) (u v : Nat → Rat) (p : Nat → Nat) : Prop where
  feas : ∀ i j, 1 ≤ i → i ≤ t → 1 ≤ j → j ≤ n → u i + v j ≤ A i j
  prange : ∀ j, 1 ≤ j → j ≤ n → p j ≤ t
  pinj : ∀ j j', 1 ≤ j → j ≤ n → 1 ≤ j' → j' ≤ n → p j ≠ 0 → p j = p j' → j = j'
  psurj : ∀ i, 1 ≤ i → i ≤ t → ∃ j, 1 ≤ j ∧ j ≤ n ∧ p j = i
  tight : ∀ j, 1 ≤ j → j ≤ n → p j ≠ 0 → u (p j) + v j = A (p j) j

/-- invariant of the walk: `j` is the column whose entry is stale, `B` bounds the ranks of the
columns not yet touched -/
structure Good (A : Nat → Nat → Rat) (n t : Nat) (p0 : Nat → Nat) (u v : Nat → Rat) (way : Nat → Nat)
    (used : Nat → Bool) (rk : Nat → Nat) (p : Nat → Nat) (j B : Nat) : Prop where
  j_le : j ≤ n
  jB : used j = true → B ≤ rk j
  g0 : ∀ k, used k = true → rk k < B → p k = p0 k
  g2 : ∀ a, 1 ≤ a → a ≤ n → a ≠ j → ∀ k, used k = true → rk k < B → p a = p0 k → a = k
  gw : j ≠ 0 → used (way j) = true ∧ rk (way j) < B ∧ u (p0 (way j)) + v j = A (p0 (way j)) j
  g1 : ∀ a b, 1 ≤ a → a ≤ n → 1 ≤ b → b ≤ n → a ≠ j → b ≠ j → p a ≠ 0 → p a = p b → a = b
  g3 : ∀ a, 1 ≤ a → a ≤ n → a ≠ j → p a ≠ 0 → u (p a) + v a = A (p a) a
  g4 : ∀ i, 1 ≤ i → i ≤ t → (i = t → j = 0) → ∃ a, 1 ≤ a ∧ a ≤ n ∧ a ≠ j ∧ p a = i
  g6 : ∀ a, 1 ≤ a → a ≤ n → p a ≤ t

section Augment
variable {A : Nat → Nat → Rat} {n t : Nat} {p0 : Nat → Nat} {u v : Nat → Rat} {way : Nat → Nat}
  {used : Nat → Bool} {rk : Nat → Nat}

theorem good_step (hP : PInv n t p0)
    (hused : ∀ j, used j = true → j ≤ n ∧ p0 j ≠ 0)
    (htree : ∀ j, used j = true → j ≠ 0 →
      used (way j) = true ∧ rk (way j) < rk j ∧ u (p0 (way j)) + v j = A (p0 (way j)) j)
    {p : Nat → Nat} {j B : Nat} (h : Good A n t p0 u v way used rk p j B) (hj : j ≠ 0) :
    Good A n t p0 u v way used rk (upd p j (p (way j))) (way j) (rk (way j)) := by
  obtain ⟨hw, hrw, htw⟩ := h.gw hj
  have hpw : p (way j) = p0 (way j) := h.g0 _ hw hrw
  rw [hpw]
  have hwn := hused _ hw
  have hwj : way j ≠ j := by
    intro he
    by_cases hu : used j = true
    · have := h.jB hu; rw [he] at hrw; omega
    · rw [he] at hw; exact hu hw
  have hrows : ∀ k, k ≤ n → p0 k ≤ t := by
    intro k hk
    by_cases hz : k = 0
    · subst hz; rw [hP.p0_zero]
    · have := hP.p0_lt k (by omega) hk; omega
  have hup : ∀ a, a ≠ j → upd p j (p0 (way j)) a = p a := by intro a ha; simp [upd, ha]
  have hupj : upd p j (p0 (way j)) j = p0 (way j) := by simp [upd]
  constructor
  · exact hwn.1
  · intro _; exact le_refl _
  · intro k hk hrk
    have hkj : k ≠ j := by
      intro he; subst he
      have := h.jB hk; omega
    rw [hup k hkj]; exact h.g0 k hk (by omega)
  · intro a ha1 ha2 haw k hk hrk hpa
    by_cases haj : a = j
    · subst haj
      rw [hupj] at hpa
      have := hP.p0_inj _ _ hwn.1 (hused k hk).1 hwn.2 hpa
      rw [this] at hrk; omega
    · rw [hup a haj] at hpa
      exact h.g2 a ha1 ha2 haj k hk (by omega) hpa
  · intro hwz
    obtain ⟨a, b, c⟩ := htree _ hw hwz
    exact ⟨a, b, c⟩
  · intro a b ha1 ha2 hb1 hb2 haw hbw hpa hab
    by_cases haj : a = j
    · by_cases hbj : b = j
      · rw [haj, hbj]
      · rw [haj, hupj, hup b hbj] at hab
        exact absurd (h.g2 b hb1 hb2 hbj _ hw hrw hab.symm) hbw
    · by_cases hbj : b = j
      · rw [hbj, hupj, hup a haj] at hab
        exact absurd (h.g2 a ha1 ha2 haj _ hw hrw hab) haw
      · rw [hup a haj] at hpa
        rw [hup a haj, hup b hbj] at hab
        exact h.g1 a b ha1 ha2 hb1 hb2 haj hbj hpa hab
  · intro a ha1 ha2 haw hpa
    by_cases haj : a = j
    · subst haj; rw [hupj]; exact htw
    · rw [hup a haj] at hpa ⊢
      exact h.g3 a ha1 ha2 haj hpa
  · intro i hi1 hi2 hit
    by_cases hiw : i = p0 (way j)
    · exact ⟨j, by omega, h.j_le, hwj.symm, by rw [hupj, hiw]⟩
    · have hnt : i ≠ t := by
        intro he
        have := hit he
        rw [this, hP.p0_zero] at hiw
        exact hiw he
      obtain ⟨a, ha1, ha2, haj, hpa⟩ := h.g4 i hi1 hi2 (fun he => absurd he hnt)
      refine ⟨a, ha1, ha2, ?_, by rw [hup a haj]; exact hpa⟩
      intro he
      rw [he, hpw] at hpa
      exact hiw hpa.symm
  · intro a ha1 ha2
    by_cases haj : a = j
    · subst haj; rw [hupj]; exact hrows _ hwn.1
    · rw [hup a haj]; exact h.g6 a ha1 ha2

theorem augment_good (hP : PInv n t p0)
    (hused : ∀ j, used j = true → j ≤ n ∧ p0 j ≠ 0)
    (htree : ∀ j, used j = true → j ≠ 0 →
      used (way j) = true ∧ rk (way j) < rk j ∧ u (p0 (way j)) + v j = A (p0 (way j)) j) :
    ∀ (f : Nat) (p : Nat → Nat) (j B : Nat), Good A n t p0 u v way used rk p j B → B < f →
      (∃ B', Good A n t p0 u v way used rk (augment way f p j) 0 B') ∧ augmentEnds way f j = true := by
  intro f
  induction f with
  | zero => intro p j B _ h; omega
  | succ f ih =>
    intro p j B hg hB
    unfold augment augmentEnds
    by_cases hj : j = 0
    · subst hj
      simp only [if_true]
      exact ⟨⟨B, hg⟩, trivial⟩
    · rw [if_neg hj, if_neg hj]
      have hstep := good_step hP hused htree hg hj
      have := (hg.gw hj).2.1
      exact ih _ _ _ hstep (by omega)

end Augment

/-! ### one pass of `for i in range(1, n + 1)` and the whole loop -/

theorem pinv_of_inv {A : Nat → Nat → Rat} {n t : Nat} {u v : Nat → Rat} {p : Nat → Nat}
    (h : Inv A n (t - 1) u v p) (ht1 : 1 ≤ t) (htn : t ≤ n) : PInv n t (upd p 0 t) := by
  have hup : ∀ j, j ≠ 0 → upd p 0 t j = p j := by intro j hj; simp [upd, hj]
  have hup0 : upd p 0 t 0 = t := by simp [upd]
  refine ⟨ht1, htn, hup0, ?_, ?_, ?_, ?_⟩
  · intro j hj1 hj2
    rw [hup j (by omega)]
    have := h.prange j hj1 hj2; omega
  · intro j j' hj hj' hne heq
    by_cases hz : j = 0
    · subst hz
      by_cases hz' : j' = 0
      · exact hz'.symm
      · rw [hup0, hup j' hz'] at heq
        have := h.prange j' (by omega) hj'; omega
    · by_cases hz' : j' = 0
      · subst hz'
        rw [hup0, hup j hz] at heq
        have := h.prange j (by omega) hj; omega
      · rw [hup j hz] at hne
        rw [hup j hz, hup j' hz'] at heq
        exact h.pinj j j' (by omega) hj (by omega) hj' hne heq
  · -- pigeonhole: n columns cannot all be matched to the t - 1 < n inserted rows
    by_contra hcon
    have hall : ∀ j, 1 ≤ j → j ≤ n → p j ≠ 0 := by
      intro j hj1 hj2 hpj
      exact hcon ⟨j, hj1, hj2, by rw [hup j (by omega)]; exact hpj⟩
    have hc : (Finset.Icc 1 (t - 1)).card < (Finset.Icc 1 n).card := by
      simp only [Nat.card_Icc]; omega
    obtain ⟨x, hx, y, hy, hxy, hpxy⟩ := Finset.exists_ne_map_eq_of_card_lt_of_maps_to hc (f := p)
      (by
        intro j hj
        have hj' := Finset.mem_Icc.1 (Finset.mem_coe.1 hj)
        have h1 := h.prange j hj'.1 hj'.2
        have h2 := hall j hj'.1 hj'.2
        exact Finset.mem_coe.2 (Finset.mem_Icc.2 ⟨by omega, h1⟩))
    have hx' := Finset.mem_Icc.1 hx
    have hy' := Finset.mem_Icc.1 hy
    exact hxy (h.pinj x y hx'.1 hx'.2 hy'.1 hy'.2 (hall x hx'.1 hx'.2) hpxy)
  · intro i hi1 hi2
    obtain ⟨j, hj1, hj2, hpj⟩ := h.psurj i hi1 (by omega)
    exact ⟨j, hj1, hj2, by rw [hup j (by omega)]; exact hpj⟩

def StInv (A : Nat → Nat → Rat) (n t : Nat) (st : St) : Prop :=
  Inv A n t st.u.get st.v.get st.p.get ∧ st.stuck = false

theorem rowStep_inv {A : Nat → Nat → Rat} {n t : Nat} {st : St} (h : StInv A n (t - 1) st)
    (ht1 : 1 ≤ t) (htn : t ≤ n) : StInv A n t (rowStep A n st t) := by
  obtain ⟨hinv, hst⟩ := h
  have hP := pinv_of_inv hinv ht1 htn
  have hup : ∀ j, j ≠ 0 → upd st.p.get 0 t j = st.p.get j := by intro j hj; simp [upd, hj]
  -- the initial state of the `while` loop satisfies the loop invariant
  have h0 : LInv A n t (upd st.p.get 0 t)
      { u := st.u, v := st.v, way := st.way, minv := Tab.of n fun _ => none, used := Tab.of n fun _ => false,
        j0 := 0, iters := st.iters, stuck := false } (fun _ => 0) 0 := by
    unfold LInv
    simp only [Tab.get_of']
    refine ⟨?_, ?_, ?_, ?_, ?_, ?_, ?_, ?_, ?_, ?_, ?_, ?_⟩
    · intro i j hi1 hi2 hj1 hj2
      rcases hi2 with h1 | ⟨_, h2⟩
      · exact hinv.feas i j hi1 (by omega) hj1 hj2
      · cases h2
    · intro j hj1 hj2 hpj
      rw [hup j (by omega)] at hpj ⊢
      exact hinv.tight j hj1 hj2 hpj
    · intro j hj; cases hj
    · intro j hj; cases hj
    · omega
    · rfl
    · intro j _ _ _ x hx; cases hx
    · intro j _ _ _ k hk; cases hk
    · intro hz; exact absurd rfl hz
    · intro j hj; cases hj
    · intro j hj; cases hj
    · have := unusedCount_le n (fun _ => false); omega
  obtain ⟨rk', c', hfin, hz, hns⟩ := search_inv hP (n + 2) _ _ _ h0 rfl
    (by simp only [Tab.get_of']; have := unusedCount_le n (fun _ => false); omega)
  unfold rowStep
  simp only
  generalize search A n (upd st.p.get 0 t) (n + 2)
      { u := st.u, v := st.v, way := st.way, minv := Tab.of n fun _ => none, used := Tab.of n fun _ => false,
        j0 := 0, iters := st.iters, stuck := false } = l at hfin hz hns
  unfold LInv at hfin
  -- the final column of the search is unmatched, hence not column 0
  have hj0 : l.j0 ≠ 0 := by
    intro he; rw [he, hP.p0_zero] at hz; omega
  have hused0 : l.used.get 0 = true := hfin.used_zero _ (hfin.j0_way hj0).1
  have hcn : c' < n + 1 := by
    have := hfin.budget
    have := unusedCount_pos n l.used.get l.j0 hfin.j0_le hfin.j0_unused
    omega
  -- start of the augmenting walk
  have hgood : Good A n t (upd st.p.get 0 t) l.u.get l.v.get l.way.get l.used.get rk'
      (upd st.p.get 0 t) l.j0 c' := by
    refine ⟨hfin.j0_le, ?_, ?_, ?_, ?_, ?_, ?_, ?_, ?_⟩
    · intro hu; rw [hfin.j0_unused] at hu; cases hu
    · intro k _ _; rfl
    · intro a ha1 ha2 haj k hk _ hpa
      have hk' := hfin.used_ok k hk
      exact (hP.p0_inj k a hk'.1 ha2 hk'.2 hpa.symm).symm
    · intro _
      obtain ⟨hw, ht⟩ := hfin.j0_way hj0
      exact ⟨hw, hfin.rk_lt _ hw, ht⟩
    · intro a b ha1 ha2 hb1 hb2 _ _ hpa hab
      exact hP.p0_inj a b ha2 hb2 hpa hab
    · intro a ha1 ha2 _ hpa
      exact hfin.tight a ha1 ha2 hpa
    · intro i hi1 hi2 hit
      have hlt : i < t := by
        rcases Nat.lt_or_ge i t with h1 | h1
        · exact h1
        · exact absurd (hit (by omega)) hj0
      obtain ⟨a, ha1, ha2, hpa⟩ := hP.surj i hi1 hlt
      refine ⟨a, ha1, ha2, ?_, hpa⟩
      intro he; rw [he, hz] at hpa; omega
    · intro a ha1 ha2
      have := hP.p0_lt a ha1 ha2; omega
  obtain ⟨⟨B', hG⟩, hends⟩ := augment_good hP hfin.used_ok hfin.tree (n + 1) _ _ _ hgood hcn
  refine ⟨⟨?_, ?_, ?_, ?_, ?_⟩, ?_⟩
  · intro i j hi1 hi2 hj1 hj2
    apply hfin.feas i j hi1 _ hj1 hj2
    rcases Nat.lt_or_ge i t with h1 | h1
    · exact Or.inl h1
    · exact Or.inr ⟨by omega, hused0⟩
  · intro j hj1 hj2
    simp only [Tab.get_of']
    exact hG.g6 j hj1 hj2
  · intro j j' hj1 hj2 hj1' hj2' hne heq
    simp only [Tab.get_of'] at hne heq
    exact hG.g1 j j' hj1 hj2 hj1' hj2' (by omega) (by omega) hne heq
  · intro i hi1 hi2
    simp only [Tab.get_of']
    obtain ⟨a, ha1, ha2, _, hpa⟩ := hG.g4 i hi1 hi2 (fun _ => rfl)
    exact ⟨a, ha1, ha2, hpa⟩
  · intro j hj1 hj2 hne
    simp only [Tab.get_of'] at hne ⊢
    exact hG.g3 j hj1 hj2 (by omega) hne
  · simp [hst, hns, hends]

theorem runRows_inv_aux (A : Nat → Nat → Rat) (n : Nat) :
    ∀ (len s : Nat) (st : St), 1 ≤ s → StInv A n (s - 1) st → s + len ≤ n + 1 →
      StInv A n (s + len - 1) ((List.range' s len).foldl (rowStep A n) st) := by
  intro len
  induction len with
  | zero => intro s st _ h _; simpa using h
  | succ len ih =>
    intro s st hs h hle
    rw [List.range'_succ, List.foldl_cons]
    have h1 := rowStep_inv (t := s) h hs (by omega)
    have := ih (s + 1) _ (by omega) (by simpa using h1) (by omega)
    have he : s + 1 + len - 1 = s + (len + 1) - 1 := by omega
    rw [he] at this
    exact this

theorem runRows_inv (A : Nat → Nat → Rat) (n : Nat) : StInv A n n (runRows A n) := by
  unfold runRows
  have h0 : StInv A n (1 - 1) (initSt n) := by
    refine ⟨⟨?_, ?_, ?_, ?_, ?_⟩, rfl⟩
    · intro i j hi1 hi2; omega
    · intro j _ _; simp [initSt, Tab.get_of']
    · intro j j' _ _ _ _ hne; simp [initSt, Tab.get_of'] at hne
    · intro i hi1 hi2; omega
    · intro j _ _ hne; simp [initSt, Tab.get_of'] at hne
  have := runRows_inv_aux A n n 1 (initSt n) (le_refl _) h0 (by omega)
  have he : 1 + n - 1 = n := by omega
  rw [he] at this
  exact this

/-! ### reading the assignment off `col_match` -/

theorem getD_set_self (l : List Int) (i : Nat) (x d : Int) (h : i < l.length) : (l.set i x).getD i d = x := by
  simp [List.getD_eq_getElem?_getD, List.getElem?_set, h]

theorem getD_set_ne (l : List Int) (i k : Nat) (x d : Int) (h : i ≠ k) : (l.set i x).getD k d = l.getD k d := by
  simp [List.getD_eq_getElem?_getD, List.getElem?_set, h]

theorem extract_fold (r k : Nat) (p : Nat → Nat) (L : List Nat) (hL : L.Nodup)
    (hinj : ∀ a ∈ L, ∀ b ∈ L, p a ≠ 0 → p a = p b → a = b) (asg0 : List Int) :
    (L.foldl (fun asg j => if p j ≠ 0 ∧ p j ≤ r ∧ j ≤ k then asg.set (p j - 1) ((j : Int) - 1) else asg) asg0).length
      = asg0.length ∧
    (∀ j ∈ L, p j ≠ 0 → p j ≤ r → j ≤ k → p j - 1 < asg0.length →
      (L.foldl (fun asg j => if p j ≠ 0 ∧ p j ≤ r ∧ j ≤ k then asg.set (p j - 1) ((j : Int) - 1) else asg) asg0).getD
        (p j - 1) (-1) = (j : Int) - 1) ∧
    (∀ i, (∀ j ∈ L, p j ≠ 0 → p j ≤ r → j ≤ k → p j - 1 ≠ i) →
      (L.foldl (fun asg j => if p j ≠ 0 ∧ p j ≤ r ∧ j ≤ k then asg.set (p j - 1) ((j : Int) - 1) else asg) asg0).getD
        i (-1) = asg0.getD i (-1)) := by
  induction L generalizing asg0 with
  | nil => simp
  | cons a L ih =>
    have hnd := List.nodup_cons.1 hL
    have hinj' : ∀ x ∈ L, ∀ y ∈ L, p x ≠ 0 → p x = p y → x = y :=
      fun x hx y hy => hinj x (List.mem_cons_of_mem _ hx) y (List.mem_cons_of_mem _ hy)
    simp only [List.foldl_cons]
    obtain ⟨I0, I1, I2⟩ := ih hnd.2 hinj'
      (if p a ≠ 0 ∧ p a ≤ r ∧ a ≤ k then asg0.set (p a - 1) ((a : Int) - 1) else asg0)
    clear ih
    have hlen : (if p a ≠ 0 ∧ p a ≤ r ∧ a ≤ k then asg0.set (p a - 1) ((a : Int) - 1) else asg0).length
        = asg0.length := by split <;> simp
    refine ⟨by rw [I0, hlen], ?_, ?_⟩
    · intro j hj h1 h2 h3 h4
      rcases List.mem_cons.1 hj with rfl | hj'
      · rw [I2]
        · rw [if_pos ⟨h1, h2, h3⟩, getD_set_self _ _ _ _ h4]
        · intro b hb hb1 _ _ heq
          have hpb : p b = p j := by omega
          have := hinj b (List.mem_cons_of_mem _ hb) j List.mem_cons_self hb1 hpb
          exact hnd.1 (this ▸ hb)
      · exact I1 j hj' h1 h2 h3 (by rw [hlen]; exact h4)
    · intro i hi
      rw [I2 i (fun j hj => hi j (List.mem_cons_of_mem _ hj))]
      by_cases hc : p a ≠ 0 ∧ p a ≤ r ∧ a ≤ k
      · rw [if_pos hc, getD_set_ne]
        exact hi a List.mem_cons_self hc.1 hc.2.1 hc.2.2
      · rw [if_neg hc]

theorem extract_spec (r k n : Nat) (p : Nat → Nat)
    (hinj : ∀ a b, 1 ≤ a → a ≤ n → 1 ≤ b → b ≤ n → p a ≠ 0 → p a = p b → a = b) :
    (extract r k n p).length = r ∧
    (∀ j, 1 ≤ j → j ≤ n → p j ≠ 0 → p j ≤ r → j ≤ k → (extract r k n p).getD (p j - 1) (-1) = (j : Int) - 1) ∧
    (∀ i, (∀ j, 1 ≤ j → j ≤ n → p j ≠ 0 → p j ≤ r → j ≤ k → p j - 1 ≠ i) → (extract r k n p).getD i (-1) = -1) := by
  have hmem : ∀ j, j ∈ List.range' 1 n ↔ (1 ≤ j ∧ j ≤ n) := by
    intro j; rw [List.mem_range'_1]; omega
  obtain ⟨E0, E1, E2⟩ := extract_fold r k p (List.range' 1 n) List.nodup_range'
    (fun a ha b hb => hinj a b ((hmem a).1 ha).1 ((hmem a).1 ha).2 ((hmem b).1 hb).1 ((hmem b).1 hb).2)
    (List.replicate r (-1))
  unfold extract
  refine ⟨by rw [E0]; simp, ?_, ?_⟩
  · intro j h1 h2 h3 h4 h5
    exact E1 j ((hmem j).2 ⟨h1, h2⟩) h3 h4 h5 (by simp; omega)
  · intro i hi
    rw [E2 i (fun j hj => hi j ((hmem j).1 hj).1 ((hmem j).1 hj).2)]
    simp [List.getD_eq_getElem?_getD, List.getElem?_replicate]
    split <;> rfl

/-! ### from the final invariant to the checker's verdict -/

theorem getD_map_range (n : Nat) (f : Nat → ℚ) (i : Nat) (hi : i < n) :
    ((List.range n).map f).getD i 0 = f i := by
  simp [List.getD_eq_getElem?_getD, hi]

theorem chk_of_inv (m : Mat) (mn : Bool) (mx : ℚ) (u v : Nat → ℚ) (p : Nat → Nat)
    (h : Inv (fun i j => padded m mn mx (i - 1) (j - 1)) (max (nRows m) (nCols m))
      (max (nRows m) (nCols m)) u v p) :
    chkAssignment m mn mx (extract (nRows m) (nCols m) (max (nRows m) (nCols m)) p)
      ((List.range (max (nRows m) (nCols m))).map fun i => u (i + 1))
      ((List.range (max (nRows m) (nCols m))).map fun j => v (j + 1)) = true := by
  generalize hr : nRows m = r at h ⊢
  generalize hk : nCols m = k at h ⊢
  generalize hn : max r k = n at h ⊢
  have hrn : r ≤ n := by rw [← hn]; exact le_max_left r k
  have hkn : k ≤ n := by rw [← hn]; exact le_max_right r k
  -- the permutation row ↦ column read off `col_match`
  have hq : ∀ i : Fin n, ∃ j : Fin n, p (j.val + 1) = i.val + 1 := by
    intro i
    obtain ⟨j, h1, h2, h3⟩ := h.psurj (i.val + 1) (by omega) (by have := i.2; omega)
    exact ⟨⟨j - 1, by omega⟩, by simp only; rw [show j - 1 + 1 = j by omega]; exact h3⟩
  choose q hq using hq
  have hqinj : Function.Injective q := by
    intro a b hab
    have h1 := hq a; rw [hab, hq b] at h1
    exact Fin.ext (by omega)
  let σ : Equiv.Perm (Fin n) := Equiv.ofBijective q (Finite.injective_iff_bijective.1 hqinj)
  have hσ : ∀ i : Fin n, p ((σ i).val + 1) = i.val + 1 := hq
  have hpinj : ∀ a b, 1 ≤ a → a ≤ n → 1 ≤ b → b ≤ n → p a ≠ 0 → p a = p b → a = b :=
    fun a b ha1 ha2 hb1 hb2 => h.pinj a b ha1 ha2 hb1 hb2
  obtain ⟨E0, E1, E2⟩ := extract_spec r k n p hpinj
  generalize extract r k n p = asg at E0 E1 E2
  -- the assignment list, row by row
  have hasg : ∀ i : Fin r, asg.getD i (-1)
      = if (σ ⟨i, lt_of_lt_of_le i.2 hrn⟩).val < k then ((σ ⟨i, lt_of_lt_of_le i.2 hrn⟩).val : Int) else -1 := by
    intro i
    have hin : i.val < n := lt_of_lt_of_le i.2 hrn
    have hpj := hσ ⟨i, hin⟩
    simp only at hpj
    have hjn := (σ ⟨i, hin⟩).2
    by_cases hlt : (σ ⟨i, hin⟩).val < k
    · rw [if_pos hlt]
      have := E1 ((σ ⟨i, hin⟩).val + 1) (by omega) (by omega) (by omega) (by have := i.2; omega) (by omega)
      rw [hpj] at this
      simp only [Nat.add_sub_cancel] at this
      rw [this]; push_cast; ring
    · rw [if_neg hlt]
      apply E2
      intro j' h1 h2 h3 h4 h5 h6
      have : p j' = p ((σ ⟨i, hin⟩).val + 1) := by rw [hpj]; omega
      have := hpinj j' _ h1 h2 (by omega) (by omega) h3 this
      omega
  have hrng : ∀ i, i < r → asg.getD i (-1) = -1 ∨ (0 ≤ asg.getD i (-1) ∧ asg.getD i (-1) < (k : Int)) := by
    intro i hi
    rw [hasg ⟨i, hi⟩]
    split
    · right; constructor <;> omega
    · left; rfl
  have htoM : toM r k asg = restrict hrn σ := by
    funext i
    unfold toM restrict
    have := hasg i
    by_cases hlt : (σ ⟨i, lt_of_lt_of_le i.2 hrn⟩).val < k
    · rw [if_pos hlt] at this
      rw [dif_pos hlt, dif_pos (by rw [this]; constructor <;> omega)]
      congr 1
      apply Fin.ext
      simp only [this]
      simp
    · rw [if_neg hlt] at this
      rw [dif_neg hlt, dif_neg (by rw [this]; omega)]
  have hvalid : ValidAsg r k asg :=
    validAsg_of_toM E0 hrng (by rw [htoM]; exact restrict_isMatching hrn σ)
      (by rw [htoM]; exact msize_restrict hn.symm hrn σ)
  -- the pieces of the checker
  unfold chkAssignment
  simp only [hr, hk, hn, Bool.and_eq_true, beq_iff_eq, List.length_map, List.length_range, and_true]
  refine ⟨⟨(validAsgB_iff r k asg).2 hvalid, ?_⟩, ?_⟩
  · -- dual feasibility
    unfold dualFeasB
    simp only [List.all_eq_true, List.mem_range, decide_eq_true_eq]
    intro i hi j hj
    rw [getD_map_range n _ i hi, getD_map_range n _ j hj]
    have := h.feas (i + 1) (j + 1) (by omega) (by omega) (by omega) (by omega)
    simpa using this
  · -- strong duality: transformed cost of the assignment = Σ u + Σ v
    have h1 : tObjOf m mn mx asg = mcost (cF r k (padded m mn mx)) (toM r k asg) := by
      rw [toM_mcost hrng]; unfold tObjOf; rw [hr]
    rw [h1, htoM, mcost_restrict, list_sum_range, list_sum_range]
    have h2 : ∀ i : Fin n, pad n (cF r k (padded m mn mx)) i (σ i) = u (i.val + 1) + v ((σ i).val + 1) := by
      intro i
      have e := padded_eq_pad m mn mx n i (σ i)
      rw [hr, hk] at e
      rw [← e]
      have hp := hσ i
      have ht := h.tight ((σ i).val + 1) (by omega) (by have := (σ i).2; omega) (by omega)
      rw [hp] at ht
      simp only [Nat.add_sub_cancel] at ht
      exact ht.symm
    rw [Finset.sum_congr rfl fun i _ => h2 i, Finset.sum_add_distrib]
    congr 1
    exact Equiv.sum_comp σ (fun j : Fin n => v (j.val + 1))

end Solvor.Assign
