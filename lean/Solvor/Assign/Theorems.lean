import Solvor.Assign.Model
/-! Assign: property theorems only (helper lemmas live in Lemmas.lean). -/
namespace Solvor.Assign

end Solvor.Assign
