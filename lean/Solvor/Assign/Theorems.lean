import Solvor.Assign.Certify
/-!
Assign: the property theorems of C10 (helper lemmas are in `Lemmas.lean`, `Bridge.lean`,
the specification vocabulary in `Spec.lean`, the mirror and the checker in `Model.lean`).

Vocabulary.  A *matching* of `r` rows to `k` columns is `m : Fin r → Option (Fin k)` with no
column used twice (`IsMatching`), `msize m` the number of assigned rows, `mcost c m` the sum of
the chosen entries.  On the list side `ValidAsg r k asg` says that the Python `assignment` list
`asg` is such a matching of size `min r k` (one entry per row, `-1` = unassigned, no column
twice), `objOf m asg` is the sum of the chosen entries of the cost matrix `m`.
-/
namespace Solvor.Assign
open Finset

variable {r k n : ℕ}

/-- **potentials_cert** (T-spec).  Potentials with `u i + v j ≤ a i j` everywhere and equality on
the cells of a perfect matching `σ` of the square prove that `σ` has minimum total cost over
all permutations. -/
theorem potentials_cert (a : Fin n → Fin n → ℚ) (u v : Fin n → ℚ) (σ : Equiv.Perm (Fin n))
    (hfeas : ∀ i j, u i + v j ≤ a i j) (htight : ∀ i, u i + v (σ i) = a i (σ i)) :
    ∀ τ : Equiv.Perm (Fin n), ∑ i, a i (σ i) ≤ ∑ i, a i (τ i) := by
  intro τ
  have h1 : ∑ i, a i (σ i) = ∑ i, u i + ∑ j, v j := by
    rw [← Equiv.sum_comp σ v, ← Finset.sum_add_distrib]
    exact Finset.sum_congr rfl fun i _ => (htight i).symm
  rw [h1]
  exact dual_bound a u v hfeas τ

/-- non-vacuity: a 2×2 instance with non-trivial potentials meeting the hypotheses -/
example : ∃ (a : Fin 2 → Fin 2 → ℚ) (u v : Fin 2 → ℚ) (σ : Equiv.Perm (Fin 2)),
    (∀ i j, u i + v j ≤ a i j) ∧ (∀ i, u i + v (σ i) = a i (σ i)) ∧ σ 0 = 1 :=
  ⟨fun i j => if i = j then 5 else 2, fun _ => 1, fun _ => 1, Equiv.swap 0 1,
    by intro i j; fin_cases i <;> fin_cases j <;> norm_num,
    by intro i; fin_cases i <;> norm_num, by simp⟩

/-- **padding_sound** (T-spec).  For the zero-padded `max r k` square of an `r × k` cost matrix:
(1) the real cells of any permutation form a matching of size `min r k` of the same total cost;
(2) every matching of size `min r k` is the real part of some permutation of the same total cost
— so the optimum over permutations of the padded square is the optimum over matchings of size
`min r k`; (3) at that size, the cost under `mx - c` is `min r k * mx` minus the cost under `c`,
so minimising the transformed matrix maximises the original one. -/
theorem padding_sound (c : Fin r → Fin k → ℚ) :
    (∀ σ : Equiv.Perm (Fin (max r k)), ∃ m : Fin r → Option (Fin k),
        IsMatching m ∧ msize m = min r k ∧ mcost c m = ∑ i, pad (max r k) c i (σ i)) ∧
    (∀ m : Fin r → Option (Fin k), IsMatching m → msize m = min r k →
        ∃ σ : Equiv.Perm (Fin (max r k)), ∑ i, pad (max r k) c i (σ i) = mcost c m) ∧
    (∀ (mx : ℚ) (m : Fin r → Option (Fin k)), msize m = min r k →
        mcost (fun i j => mx - c i j) m = (min r k : ℕ) * mx - mcost c m) := by
  refine ⟨fun σ => ⟨restrict (le_max_left r k) σ, restrict_isMatching _ σ, msize_restrict rfl _ σ,
    mcost_restrict _ c σ⟩, ?_, ?_⟩
  · intro m hm hsz
    obtain ⟨σ, hσ⟩ := matching_extend (le_max_left r k) (le_max_right r k) m hm
    have : m = restrict (le_max_left r k) σ :=
      matching_eq_of_le hσ (by rw [msize_restrict rfl, hsz])
    refine ⟨σ, ?_⟩
    rw [this]
    exact (mcost_restrict _ c σ).symm
  · intro mx m hsz
    rw [mcost_compl, hsz]

/-- consequence used by the algorithm: an optimal permutation of the padded square restricts to a
minimum-cost matching of size `min r k` … -/
theorem padding_optimum (c : Fin r → Fin k → ℚ) (σ : Equiv.Perm (Fin (max r k)))
    (hσ : ∀ τ : Equiv.Perm (Fin (max r k)), ∑ i, pad (max r k) c i (σ i) ≤ ∑ i, pad (max r k) c i (τ i)) :
    IsMatching (restrict (k := k) (le_max_left r k) σ) ∧
    msize (restrict (k := k) (le_max_left r k) σ) = min r k ∧
    ∀ m' : Fin r → Option (Fin k), IsMatching m' → msize m' = min r k →
      mcost c (restrict (le_max_left r k) σ) ≤ mcost c m' := by
  refine ⟨restrict_isMatching _ σ, msize_restrict rfl _ σ, fun m' hm' hsz => ?_⟩
  obtain ⟨τ, hτ⟩ := (padding_sound c).2.1 m' hm' hsz
  rw [mcost_restrict, ← hτ]
  exact hσ τ

/-- non-vacuity of `padding_optimum`: `[[5, 2], [2, 5]]`, the swap is optimal (certified by
potentials), its real cells cost 4 -/
example : ∃ (c : Fin 2 → Fin 2 → ℚ) (σ : Equiv.Perm (Fin (max 2 2))),
    (∀ τ : Equiv.Perm (Fin (max 2 2)), ∑ i, pad (max 2 2) c i (σ i) ≤ ∑ i, pad (max 2 2) c i (τ i)) ∧
    mcost c (restrict (le_max_left 2 2) σ) = 4 := by
  refine ⟨fun i j => if i = j then 5 else 2, (Equiv.swap (0 : Fin 2) 1 : Equiv.Perm (Fin 2)), ?_, ?_⟩
  · exact potentials_cert (n := 2) _ (fun _ => 1) (fun _ => 1) _
      (by intro i j; fin_cases i <;> fin_cases j <;> simp [pad] <;> norm_num)
      (by intro i; fin_cases i <;> simp [pad] <;> norm_num)
  · rw [mcost_restrict]
    show ∑ i : Fin 2, _ = _
    simp [Fin.sum_univ_two, pad]
    norm_num

/-- … and, run on `mx - c`, to a maximum-cost matching of size `min r k` (`minimize=False`). -/
theorem padding_optimum_max (c : Fin r → Fin k → ℚ) (mx : ℚ) (σ : Equiv.Perm (Fin (max r k)))
    (hσ : ∀ τ : Equiv.Perm (Fin (max r k)),
      ∑ i, pad (max r k) (fun i j => mx - c i j) i (σ i) ≤ ∑ i, pad (max r k) (fun i j => mx - c i j) i (τ i)) :
    ∀ m' : Fin r → Option (Fin k), IsMatching m' → msize m' = min r k →
      mcost c m' ≤ mcost c (restrict (le_max_left r k) σ) := by
  intro m' hm' hsz
  have h := (padding_optimum (fun i j => mx - c i j) σ hσ).2.2 m' hm' hsz
  rw [mcost_compl, mcost_compl, hsz, msize_restrict rfl] at h
  linarith

/-- non-vacuity of `padding_optimum_max`: `[[1, 4], [4, 1]]` with `mx = 4`, the swap is optimal
for `mx - c` -/
example : ∃ (c : Fin 2 → Fin 2 → ℚ) (mx : ℚ) (σ : Equiv.Perm (Fin (max 2 2))),
    (∀ τ : Equiv.Perm (Fin (max 2 2)), ∑ i, pad (max 2 2) (fun i j => mx - c i j) i (σ i)
        ≤ ∑ i, pad (max 2 2) (fun i j => mx - c i j) i (τ i)) := by
  refine ⟨fun i j => if i = j then 1 else 4, 4, (Equiv.swap (0 : Fin 2) 1 : Equiv.Perm (Fin 2)), ?_⟩
  exact potentials_cert (n := 2) _ (fun _ => 0) (fun _ => 0) _
      (by intro i j; fin_cases i <;> fin_cases j <;> simp [pad])
      (by intro i; fin_cases i <;> simp [pad])

/-- non-vacuity of `padding_sound`: a 2×3 matrix with a negative entry; the
matching `0 ↦ 2, 1 ↦ 0` has size `min 2 3` -/
example : ∃ (c : Fin 2 → Fin 3 → ℚ) (m : Fin 2 → Option (Fin 3)),
    IsMatching m ∧ msize m = min 2 3 ∧ mcost c m = -3 :=
  ⟨fun i j => (i.val : ℚ) - 2 * j.val, fun i => if i = 0 then some 2 else some 0, by
    unfold IsMatching; decide, by unfold msize; decide, by
    simp [mcost, Fin.sum_univ_two]; norm_num⟩

/-! ### the verified checker -/

/-- **chkAssignment_sound** (T-spec; the checker the driver evaluates on the implementation's
assignment with the mirror's potentials).  If `chkAssignment` accepts, then `asg` is a matching of
size `min rows cols` (no column twice, `-1` for unassigned rows) and the sum of its chosen entries
is the minimum (`minimize`) / maximum (otherwise) over *all* matchings of that size. -/
theorem chkAssignment_sound (m : Mat) (mn : Bool) (mx : ℚ) (asg : List Int) (u v : List ℚ)
    (h : chkAssignment m mn mx asg u v = true) :
    ValidAsg (nRows m) (nCols m) asg ∧
    ∀ m' : Fin (nRows m) → Option (Fin (nCols m)), IsMatching m' →
      msize m' = min (nRows m) (nCols m) →
      if mn = true then objOf m asg ≤ mcost (cF _ _ (cell m)) m'
      else mcost (cF _ _ (cell m)) m' ≤ objOf m asg := by
  unfold chkAssignment at h
  simp only [Bool.and_eq_true, beq_iff_eq] at h
  obtain ⟨⟨⟨⟨hv, hu⟩, hvl⟩, hfeas⟩, hobj⟩ := h
  have hV : ValidAsg (nRows m) (nCols m) asg := (validAsgB_iff _ _ _).1 hv
  refine ⟨hV, fun m' hm' hsz => ?_⟩
  -- potentials as functions on `Fin n`
  let U : Fin (max (nRows m) (nCols m)) → ℚ := fun i => u.getD i 0
  let V : Fin (max (nRows m) (nCols m)) → ℚ := fun j => v.getD j 0
  have hfeas' : ∀ i j, U i + V j ≤
      pad (max (nRows m) (nCols m)) (cF (nRows m) (nCols m) (padded m mn mx)) i j := by
    intro i j
    unfold dualFeasB at hfeas
    simp only [List.all_eq_true, List.mem_range, decide_eq_true_eq] at hfeas
    rw [← padded_eq_pad]
    exact hfeas i i.2 j j.2
  have hcost : mcost (cF (nRows m) (nCols m) (padded m mn mx)) (toM _ _ asg) = ∑ i, U i + ∑ j, V j := by
    rw [toM_mcost hV.rng, ← sum_getD u _ hu, ← sum_getD v _ hvl, ← hobj]
    rfl
  have hobjOf : objOf m asg = mcost (cF (nRows m) (nCols m) (cell m)) (toM (nRows m) (nCols m) asg) := by
    rw [toM_mcost hV.rng]; rfl
  have key := assignment_optimal rfl (cF (nRows m) (nCols m) (padded m mn mx)) U V hfeas'
    (toM _ _ asg) hcost m' hm' hsz
  cases mn with
  | true =>
    simp only [if_true]
    rw [hobjOf]
    rw [cF_padded_min] at key
    exact key
  | false =>
    simp only [Bool.false_eq_true, if_false]
    rw [hobjOf]
    rw [cF_padded_max, mcost_compl, mcost_compl, hsz, toM_msize hV] at key
    linarith

/-- list form: no valid `assignment` list does better -/
theorem chkAssignment_optimal (m : Mat) (mn : Bool) (mx : ℚ) (asg : List Int) (u v : List ℚ)
    (h : chkAssignment m mn mx asg u v = true) (asg' : List Int)
    (h' : ValidAsg (nRows m) (nCols m) asg') :
    if mn = true then objOf m asg ≤ objOf m asg' else objOf m asg' ≤ objOf m asg := by
  have := (chkAssignment_sound m mn mx asg u v h).2 (toM _ _ asg') (toM_isMatching h') (toM_msize h')
  have e : objOf m asg' = mcost (cF (nRows m) (nCols m) (cell m)) (toM (nRows m) (nCols m) asg') := by
    rw [toM_mcost h'.rng]; rfl
  rw [e]; exact this

/-- the list encoding loses nothing: every matching of size `min r k` is a valid assignment list -/
theorem validAsg_ofM (m : Fin r → Option (Fin k)) (hm : IsMatching m) (hsz : msize m = min r k) :
    ValidAsg r k (ofM m) ∧ toM r k (ofM m) = m := by
  refine ⟨⟨by simp [ofM], ?_, ?_, ?_⟩, toM_ofM m⟩
  · intro i hi
    rw [ofM_getD m ⟨i, hi⟩]
    cases m ⟨i, hi⟩ with
    | none => left; rfl
    | some j => right; simp only [Option.elim_some]; have := j.2; omega
  · intro i hi j hj hne heq
    rw [ofM_getD m ⟨i, hi⟩] at hne heq
    rw [ofM_getD m ⟨j, hj⟩] at heq
    cases hmi : m ⟨i, hi⟩ with
    | none => rw [hmi] at hne; exact absurd rfl hne
    | some a =>
      cases hmj : m ⟨j, hj⟩ with
      | none => rw [hmi, hmj] at heq; simp only [Option.elim_some, Option.elim_none] at heq; omega
      | some b =>
        rw [hmi, hmj] at heq
        simp only [Option.elim_some] at heq
        have hab : a = b := Fin.ext (by omega)
        subst hab
        simpa using congrArg Fin.val (hm _ _ _ hmi hmj)
  · rw [← hsz, length_filter_range]
    unfold msize
    congr 1
    ext i
    simp only [mem_filter, mem_univ, true_and]
    rw [ofM_getD m i]
    cases m i with
    | none => simp
    | some j => simp

/-- non-vacuity of `validAsg_ofM`: the matching `0 ↦ 2, 1 ↦ 0` of a 2×3 problem -/
example : ValidAsg 2 3 (ofM (fun i : Fin 2 => if i = 0 then some (2 : Fin 3) else some 0)) :=
  (validAsg_ofM _ (by unfold IsMatching; decide) (by unfold msize; decide)).1

/-- non-vacuity of `chkAssignment_sound`: the docstring example of `solve_hungarian`, with the
potentials the mirror computes, is accepted (so is the maximisation of a 2×3 matrix) -/
example : chkAssignment [[10, 5, 13], [3, 9, 18], [10, 6, 12]] true 18 [1, 0, 2] [11, 5, 12] [-2, -6, 0] = true := by
  decide +kernel
example : (hungarian [[10, 5, 13], [3, 9, 18], [10, 6, 12]] true).asg = [1, 0, 2] := by decide +kernel

/-! ### the mirror always certifies its own answer -/

/-- **hungarian_certifies** ([S], the loop invariant).  On every cost matrix with at least one row
and one column — any shape, any rational entries, either sense — the mirror of `solve_hungarian`
terminates within its fuel (`stuck = false`) and the assignment and potentials it returns pass the
verified checker `chkAssignment`. -/
theorem hungarian_certifies (m : Mat) (mn : Bool) (hr : nRows m ≠ 0) (hk : nCols m ≠ 0) :
    chkAssignment m mn (maxVal m) (hungarian m mn).asg (hungarian m mn).u (hungarian m mn).v = true ∧
    (hungarian m mn).stuck = false := by
  unfold hungarian
  rw [if_neg (by rintro (h | h) <;> contradiction)]
  simp only
  obtain ⟨hinv, hst⟩ := runRows_inv (fun i j => padded m mn (maxVal m) (i - 1) (j - 1))
    (max (nRows m) (nCols m))
  exact ⟨chk_of_inv m mn _ _ _ _ hinv, hst⟩

/-- **hungarian_optimal** (C10 for the mirror, all inputs).  The mirror's assignment is a matching
of size `min rows cols` (no column twice, `-1` for the unassigned rows), the reported objective is
the sum of the chosen entries, and that sum is the minimum (`minimize`) / maximum (otherwise) over
all matchings of that size. -/
theorem hungarian_optimal (m : Mat) (mn : Bool) (hr : nRows m ≠ 0) (hk : nCols m ≠ 0) :
    ValidAsg (nRows m) (nCols m) (hungarian m mn).asg ∧
    (hungarian m mn).obj = objOf m (hungarian m mn).asg ∧
    ∀ m' : Fin (nRows m) → Option (Fin (nCols m)), IsMatching m' →
      msize m' = min (nRows m) (nCols m) →
      if mn = true then (hungarian m mn).obj ≤ mcost (cF _ _ (cell m)) m'
      else mcost (cF _ _ (cell m)) m' ≤ (hungarian m mn).obj := by
  obtain ⟨hV, hopt⟩ := chkAssignment_sound m mn (maxVal m) _ _ _ (hungarian_certifies m mn hr hk).1
  have hobj : (hungarian m mn).obj = objOf m (hungarian m mn).asg := by
    have e : (hungarian m mn).obj = totalCost m (hungarian m mn).asg := by
      unfold hungarian
      rw [if_neg (by rintro (h | h) <;> contradiction)]
    rw [e]
    unfold totalCost objOf
    congr 1
    apply List.map_congr_left
    intro i hi
    have hi' := List.mem_range.1 hi
    rcases hV.rng i hi' with h | h
    · simp only [h, ne_eq, not_true_eq_false, false_and, if_false, if_true]
    · have : (hungarian m mn).asg.getD i (-1) ≠ -1 := by omega
      simp only [ne_eq, this, not_false_eq_true, h.2, and_self, if_true, if_false]
  refine ⟨hV, hobj, ?_⟩
  rw [hobj]
  exact hopt

/-- the degenerate shapes (`[]`, `[[]]`, `[[], []]`): the early return of the code -/
theorem hungarian_empty (m : Mat) (mn : Bool) (h : nRows m = 0 ∨ nCols m = 0) :
    (hungarian m mn).asg = [] ∧ (hungarian m mn).obj = 0 := by
  unfold hungarian
  rw [if_pos h]
  exact ⟨rfl, rfl⟩

/-- non-vacuity of `hungarian_certifies`/`hungarian_optimal`: a 2×3 matrix with negative and
fractional entries, maximised; the mirror assigns both rows and reaches 15/2 -/
example : nRows [[-1, 5/2, 3], [4, -2, 5]] ≠ 0 ∧ nCols [[-1, 5/2, 3], [4, -2, 5]] ≠ 0 ∧
    (hungarian [[-1, 5/2, 3], [4, -2, 5]] false).asg = [1, 2] ∧
    (hungarian [[-1, 5/2, 3], [4, -2, 5]] false).obj = 15/2 := by decide +kernel

end Solvor.Assign
