import Solvor.Assign.Drive
def main : IO Unit := Solvor.Proto.serve Solvor.Assign.handle
