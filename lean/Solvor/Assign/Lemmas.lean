import Solvor.Assign.Spec
import Mathlib.Algebra.Order.BigOperators.Group.Finset
import Mathlib.Algebra.BigOperators.Fin
import Mathlib.Data.Fintype.Sum
import Mathlib.Data.Fintype.Fin
import Mathlib.Tactic.Linarith
import Mathlib.Tactic.Ring
import Mathlib.Tactic.FinCases
import Mathlib.Tactic.NormNum
/-! Assign: helper lemmas (mathematical layer: permutations of the padded square vs matchings). -/
namespace Solvor.Assign
open Finset

variable {r k n : ℕ}

/-! ### weak duality -/

theorem dual_bound (a : Fin n → Fin n → ℚ) (u v : Fin n → ℚ) (h : ∀ i j, u i + v j ≤ a i j)
    (τ : Equiv.Perm (Fin n)) : ∑ i, u i + ∑ j, v j ≤ ∑ i, a i (τ i) := by
  have h1 : ∑ i, (u i + v (τ i)) ≤ ∑ i, a i (τ i) := Finset.sum_le_sum fun i _ => h i (τ i)
  have h2 : ∑ i, v (τ i) = ∑ j, v j := Equiv.sum_comp τ v
  rw [Finset.sum_add_distrib, h2] at h1
  exact h1

/-! ### the real cells of a permutation form a matching -/

theorem restrict_some {hr : r ≤ n} {σ : Equiv.Perm (Fin n)} {i : Fin r} {j : Fin k}
    (h : restrict (k := k) hr σ i = some j) : (σ ⟨i, lt_of_lt_of_le i.2 hr⟩).val = j.val := by
  unfold restrict at h
  split at h
  · cases h; rfl
  · cases h

theorem restrict_isMatching (hr : r ≤ n) (σ : Equiv.Perm (Fin n)) :
    IsMatching (restrict (k := k) hr σ) := by
  intro i i' j h1 h2
  have e1 := restrict_some h1
  have e2 := restrict_some h2
  have : σ ⟨i, lt_of_lt_of_le i.2 hr⟩ = σ ⟨i', lt_of_lt_of_le i'.2 hr⟩ := Fin.ext (e1.trans e2.symm)
  have := σ.injective this
  exact Fin.ext (by simpa using congrArg Fin.val this)

theorem sum_fin_le (hr : r ≤ n) (F : ℕ → ℚ) (h0 : ∀ i, r ≤ i → F i = 0) :
    ∑ i : Fin n, F i = ∑ i : Fin r, F i := by
  rw [← Finset.sum_range, ← Finset.sum_range]
  symm
  apply Finset.sum_subset (Finset.range_subset_range.2 hr)
  intro x _ hx
  exact h0 x (by simpa using hx)

theorem mcost_restrict (hr : r ≤ n) (c : Fin r → Fin k → ℚ) (σ : Equiv.Perm (Fin n)) :
    mcost c (restrict hr σ) = ∑ i, pad n c i (σ i) := by
  let F : ℕ → ℚ := fun i => if h : i < n then pad n c ⟨i, h⟩ (σ ⟨i, h⟩) else 0
  have hF : ∀ i : Fin n, pad n c i (σ i) = F i := by
    intro i; simp [F]
  have h0 : ∀ i, r ≤ i → F i = 0 := by
    intro i hi
    simp only [F]
    split
    · unfold pad
      rw [dif_neg]
      intro h
      exact absurd h.1 (by simp; omega)
    · rfl
  rw [Finset.sum_congr rfl fun i _ => hF i, sum_fin_le hr F h0]
  unfold mcost
  refine Finset.sum_congr rfl fun i _ => ?_
  have hin : i.val < n := lt_of_lt_of_le i.2 hr
  simp only [F, dif_pos hin, restrict, pad]
  by_cases hk : (σ ⟨i, hin⟩).val < k
  · rw [dif_pos hk, dif_pos ⟨i.2, hk⟩]; rfl
  · rw [dif_neg hk, dif_neg (fun h => hk h.2)]; rfl

theorem msize_restrict (hn : n = max r k) (hr : r ≤ n) (σ : Equiv.Perm (Fin n)) :
    msize (restrict (k := k) hr σ) = min r k := by
  unfold msize
  rcases le_total r k with h | h
  · -- n = k: every real row meets a real column
    have hnk : n = k := by rw [hn, max_eq_right h]
    rw [min_eq_left h]
    have : (univ.filter fun i : Fin r => (restrict (k := k) hr σ i).isSome) = univ := by
      ext i
      simp only [mem_filter, mem_univ, true_and, iff_true]
      unfold restrict
      rw [dif_pos (by have := (σ ⟨i, lt_of_lt_of_le i.2 hr⟩).2; omega)]
      rfl
    rw [this]; simp
  · -- n = r: every real column is met by exactly one (real) row
    have hnr : n = r := by rw [hn, max_eq_left h]
    subst hnr
    rw [min_eq_right h]
    have h1 : (univ.filter fun i : Fin n => (restrict (k := k) hr σ i).isSome) = univ.filter fun i : Fin n => (σ i).val < k := by
      ext i
      simp only [mem_filter, mem_univ, true_and]
      unfold restrict
      by_cases hk : (σ i).val < k
      · simp [hk]
      · simp [hk]
    rw [h1]
    have h2 : #(univ.filter fun i : Fin n => (σ i).val < k) = #(univ.filter fun j : Fin n => j.val < k) :=
      Finset.card_equiv σ (by intro i; simp)
    rw [h2]
    have := Fin.card_filter_val_lt (n := n) (m := k)
    rw [this]
    exact min_eq_right h

/-! ### a matching contained in another of no larger size is that matching -/

theorem matching_eq_of_le {m m' : Fin r → Option (Fin k)}
    (hle : ∀ i j, m i = some j → m' i = some j) (hsz : msize m' ≤ msize m) : m = m' := by
  have hsub : (univ.filter fun i : Fin r => (m i).isSome) ⊆ univ.filter fun i : Fin r => (m' i).isSome := by
    intro i hi
    simp only [mem_filter, mem_univ, true_and] at hi ⊢
    obtain ⟨j, hj⟩ := Option.isSome_iff_exists.1 hi
    rw [hle i j hj]; rfl
  have heq := eq_of_subset_of_card_le hsub hsz
  funext i
  cases hm : m i with
  | some j => exact (hle i j hm).symm
  | none =>
    cases hm' : m' i with
    | none => rfl
    | some j =>
      have : i ∈ (univ.filter fun i : Fin r => (m' i).isSome) := by simp [hm']
      rw [← heq] at this
      simp [hm] at this

/-! ### every matching extends to a permutation of the padded square -/

theorem matching_extend (hr : r ≤ n) (hk : k ≤ n) (m : Fin r → Option (Fin k)) (hm : IsMatching m) :
    ∃ σ : Equiv.Perm (Fin n), ∀ i j, m i = some j → restrict hr σ i = some j := by
  classical
  let f : Fin n → Fin n := fun x =>
    if h : x.val < r then (m ⟨x, h⟩).elim x (fun j => ⟨j, lt_of_lt_of_le j.2 hk⟩) else x
  let s : Finset (Fin n) := univ.filter fun x => ∃ h : x.val < r, (m ⟨x, h⟩).isSome
  have hinj : Set.InjOn f s := by
    intro x hx y hy hxy
    simp only [s, coe_filter, mem_univ, true_and, Set.mem_ofPred_eq] at hx hy
    obtain ⟨hxr, hxs⟩ := hx
    obtain ⟨hyr, hys⟩ := hy
    obtain ⟨jx, hjx⟩ := Option.isSome_iff_exists.1 hxs
    obtain ⟨jy, hjy⟩ := Option.isSome_iff_exists.1 hys
    simp only [f, dif_pos hxr, dif_pos hyr, hjx, hjy, Option.elim_some] at hxy
    have hj : jx = jy := Fin.ext (by simpa using congrArg Fin.val hxy)
    subst hj
    have := hm _ _ _ hjx hjy
    exact Fin.ext (by simpa using congrArg Fin.val this)
  obtain ⟨g, hg⟩ := Finset.exists_equiv_extend_of_card_eq (t := (univ : Finset (Fin n)))
    (by simp) (s := s) (f := f) (by intro x _; simp) hinj
  refine ⟨g.trans (Equiv.subtypeUnivEquiv (fun x => mem_univ x)), ?_⟩
  intro i j hij
  have hin : i.val < n := lt_of_lt_of_le i.2 hr
  have hmem : (⟨i, hin⟩ : Fin n) ∈ s := by
    simp only [s, mem_filter, mem_univ, true_and]
    exact ⟨i.2, by simp [hij]⟩
  have h1 := hg _ hmem
  have h2 : f ⟨i, hin⟩ = ⟨j, lt_of_lt_of_le j.2 hk⟩ := by
    simp only [f, dif_pos i.2, Fin.eta, hij, Option.elim_some]
  unfold restrict
  have h3 : ((g.trans (Equiv.subtypeUnivEquiv (fun x => mem_univ x))) ⟨i, hin⟩ : Fin n)
      = ⟨j, lt_of_lt_of_le j.2 hk⟩ := by
    rw [← h2, ← h1]; rfl
  have h4 : ((g.trans (Equiv.subtypeUnivEquiv (fun x => mem_univ x))) ⟨i, hin⟩ : Fin n).val = j.val := by
    rw [h3]
  rw [dif_pos (by rw [h4]; exact j.2)]
  congr 1
  exact Fin.ext h4

/-! ### `mx - c` turns maximisation into minimisation at fixed size -/

theorem mcost_compl (c : Fin r → Fin k → ℚ) (mx : ℚ) (m : Fin r → Option (Fin k)) :
    mcost (fun i j => mx - c i j) m = (msize m : ℚ) * mx - mcost c m := by
  unfold mcost msize
  rw [Finset.card_filter, Nat.cast_sum, Finset.sum_mul, ← Finset.sum_sub_distrib]
  refine Finset.sum_congr rfl fun i _ => ?_
  cases m i <;> simp

/-! ### strong duality certificate for matchings of size `min r k` -/

theorem assignment_optimal (hn : n = max r k) (c : Fin r → Fin k → ℚ) (U V : Fin n → ℚ)
    (hfeas : ∀ i j, U i + V j ≤ pad n c i j) (M : Fin r → Option (Fin k))
    (hM : mcost c M = ∑ i, U i + ∑ j, V j) :
    ∀ m' : Fin r → Option (Fin k), IsMatching m' → msize m' = min r k → mcost c M ≤ mcost c m' := by
  intro m' hm' hsz
  have hr : r ≤ n := by rw [hn]; exact le_max_left r k
  have hk : k ≤ n := by rw [hn]; exact le_max_right r k
  obtain ⟨σ, hσ⟩ := matching_extend hr hk m' hm'
  have : m' = restrict hr σ := matching_eq_of_le hσ (by rw [msize_restrict hn, hsz])
  rw [hM, this, mcost_restrict]
  exact dual_bound _ U V hfeas σ

end Solvor.Assign
