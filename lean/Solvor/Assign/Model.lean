/-! Assign: executable models (no Mathlib imports). -/
namespace Solvor.Assign

end Solvor.Assign
