/-!
Assign: mirror of `solvor/hungarian.py` (`solve_hungarian`) over `Rat`, and the verified
checker `chkAssignment` (spec side).  No Mathlib imports.

The Python lists `row_potential`, `col_potential`, `col_match`, `augment_path`, `min_slack`,
`used` (all of length `n + 1`, 1-indexed, slot 0 = the virtual column holding the row being
inserted) are modelled as functions `Nat → _` with point updates `upd`; `float("inf")` is
`none : Option Rat`.  Iteration order, strict comparisons (`<`), first-minimum tie-breaking,
the sequential `row_potential[col_match[j]] += delta` loop, the padding with zeros and the
`max_val - c` transformation are those of the code.  The two `while` loops carry fuel (`n + 2`
resp. `n + 1`); running out of fuel or meeting `delta = inf` (where the Python loop would not
terminate) sets `stuck` — `hungarian_certifies` (Theorems.lean) proves that this never happens.
The states of the loops keep their functions tabulated (`Tab`, extensionally the same function,
`Tab.get_of`) so that compiled lookups are O(1).
-/
namespace Solvor.Assign

abbrev Mat := List (List Rat)

def cell (m : Mat) (i j : Nat) : Rat := (m.getD i []).getD j 0
def nRows (m : Mat) : Nat := m.length
def nCols (m : Mat) : Nat := (m.headD []).length

def upd {α : Type} (f : Nat → α) (i : Nat) (x : α) : Nat → α := fun k => if k = i then x else f k

/-- A function `Nat → α` tabulated on `0..n` (execution device only: compiled closures built by
folds would be re-evaluated on every lookup).  `Tab.get_of`: `(Tab.of n f).get = f`. -/
structure Tab (α : Type) where
  arr : Array α
  rest : Nat → α

def Tab.get {α : Type} (t : Tab α) (k : Nat) : α := if h : k < t.arr.size then t.arr[k] else t.rest k
def Tab.of {α : Type} (n : Nat) (f : Nat → α) : Tab α := ⟨Array.ofFn (n := n + 1) (fun i => f i.val), f⟩

theorem Tab.get_of {α : Type} (n : Nat) (f : Nat → α) (k : Nat) : (Tab.of n f).get k = f k := by
  unfold Tab.get Tab.of
  split
  · simp
  · rfl

/-- `max(cost_matrix[i][j] for i in range(n_rows) for j in range(n_cols))` -/
def maxVal (m : Mat) : Rat :=
  match (List.range (nRows m)).flatMap fun i => (List.range (nCols m)).map fun j => cell m i j with
  | [] => 0
  | x :: xs => xs.foldl (fun a b => if a < b then b else a) x

/-- The square the algorithm works on (0-indexed): real cells hold `c` (minimize) or
`mx - c` (maximize), padding cells hold 0. -/
def padded (m : Mat) (minimize : Bool) (mx : Rat) (i j : Nat) : Rat :=
  if i < nRows m ∧ j < nCols m then (if minimize then cell m i j else mx - cell m i j) else 0

/-! ### the inner `for j in range(1, n + 1)` scan -/

structure Scan where
  minv : Nat → Option Rat
  way : Nat → Nat
  delta : Option Rat
  next : Nat

/-- `x < y` where `none` is `+inf` -/
def ltInf (x : Rat) : Option Rat → Bool
  | none => true
  | some y => decide (x < y)

/-- `A` is the 1-indexed padded matrix (`A i j = matrix[i-1][j-1]`). -/
def scanStep (A : Nat → Nat → Rat) (u v : Nat → Rat) (used : Nat → Bool) (i0 j0 : Nat)
    (s : Scan) (j : Nat) : Scan :=
  if used j then s else
    let cur := A i0 j - u i0 - v j
    let s1 : Scan :=
      if ltInf cur (s.minv j) then { s with minv := upd s.minv j (some cur), way := upd s.way j j0 } else s
    match s1.minv j with
    | some mj => if ltInf mj s1.delta then { s1 with delta := some mj, next := j } else s1
    | none => s1

def scan (A : Nat → Nat → Rat) (n : Nat) (u v : Nat → Rat) (used : Nat → Bool) (i0 j0 : Nat)
    (minv : Nat → Option Rat) (way : Nat → Nat) : Scan :=
  (List.range' 1 n).foldl (scanStep A u v used i0 j0) ⟨minv, way, none, 0⟩

/-- `for j in range(n + 1): if used[j]: row_potential[col_match[j]] += delta` (sequential).
Specification form (a fold of closures; compiled, each layer would call the previous one twice). -/
def bumpU (n : Nat) (used : Nat → Bool) (p : Nat → Nat) (d : Rat) (u : Nat → Rat) : Nat → Rat :=
  (List.range (n + 1)).foldl (fun u j => if used j then upd u (p j) (u (p j) + d) else u) u

/-- the same loop on tabulated functions (what the driver runs); `bumpT_get` (Certify.lean):
`(bumpT n used p d t).get = bumpU n used p d t.get` -/
def bumpT (n : Nat) (used : Nat → Bool) (p : Nat → Nat) (d : Rat) (t : Tab Rat) : Tab Rat :=
  (List.range (n + 1)).foldl
    (fun t j => if used j then Tab.of n (upd t.get (p j) (t.get (p j) + d)) else t) t

/-! ### the `while col_match[current_col] != 0` loop -/

structure Loop where
  u : Tab Rat
  v : Tab Rat
  way : Tab Nat
  minv : Tab (Option Rat)
  used : Tab Bool
  j0 : Nat
  iters : Nat
  stuck : Bool

def search (A : Nat → Nat → Rat) (n : Nat) (p : Nat → Nat) : Nat → Loop → Loop
  | 0, s => if p s.j0 = 0 then s else { s with stuck := true }
  | fuel + 1, s =>
    if p s.j0 = 0 then s else
      let used := upd s.used.get s.j0 true
      let sc := scan A n s.u.get s.v.get used (p s.j0) s.j0 s.minv.get s.way.get
      match sc.delta with
      | none => { s with stuck := true }
      | some d =>
        search A n p fuel
          { u := bumpT n used p d s.u
            v := Tab.of n fun j => if used j then s.v.get j - d else s.v.get j
            way := Tab.of n sc.way
            minv := Tab.of n fun j => if used j then sc.minv j else (sc.minv j).map (· - d)
            used := Tab.of n used
            j0 := sc.next
            iters := s.iters + 1
            stuck := s.stuck }

/-- `while current_col != 0: prev = augment_path[current_col]; col_match[current_col] = col_match[prev]; …` -/
def augment (way : Nat → Nat) : Nat → (Nat → Nat) → Nat → (Nat → Nat)
  | 0, p, _ => p
  | fuel + 1, p, j0 => if j0 = 0 then p else augment way fuel (upd p j0 (p (way j0))) (way j0)

/-- does the augmenting walk reach column 0 within the fuel? -/
def augmentEnds (way : Nat → Nat) : Nat → Nat → Bool
  | 0, j0 => j0 == 0
  | fuel + 1, j0 => if j0 = 0 then true else augmentEnds way fuel (way j0)

structure St where
  u : Tab Rat
  v : Tab Rat
  p : Tab Nat
  way : Tab Nat
  iters : Nat
  stuck : Bool

/-- one pass of `for i in range(1, n + 1)` -/
def rowStep (A : Nat → Nat → Rat) (n : Nat) (st : St) (i : Nat) : St :=
  let p := upd st.p.get 0 i
  let l := search A n p (n + 2)
    { u := st.u, v := st.v, way := st.way, minv := Tab.of n fun _ => none, used := Tab.of n fun _ => false,
      j0 := 0, iters := st.iters, stuck := false }
  { u := l.u, v := l.v, p := Tab.of n (augment l.way.get (n + 1) p l.j0), way := l.way, iters := l.iters,
    stuck := st.stuck || l.stuck || !augmentEnds l.way.get (n + 1) l.j0 }

def initSt (n : Nat) : St :=
  ⟨Tab.of n fun _ => 0, Tab.of n fun _ => 0, Tab.of n fun _ => 0, Tab.of n fun _ => 0, 0, false⟩

def runRows (A : Nat → Nat → Rat) (n : Nat) : St := (List.range' 1 n).foldl (rowStep A n) (initSt n)

/-- `assignment = [-1] * n_rows; for j in 1..n: if col_match[j] != 0 and col_match[j] <= n_rows and j <= n_cols: …` -/
def extract (r k n : Nat) (p : Nat → Nat) : List Int :=
  (List.range' 1 n).foldl
    (fun asg j => if p j ≠ 0 ∧ p j ≤ r ∧ j ≤ k then asg.set (p j - 1) ((j : Int) - 1) else asg)
    (List.replicate r (-1))

/-- `total_cost` loop of the code (with its `assignment[i] < n_cols` guard) -/
def totalCost (m : Mat) (asg : List Int) : Rat :=
  ((List.range (nRows m)).map fun i =>
    let a := asg.getD i (-1)
    if a ≠ -1 ∧ a < (nCols m : Int) then cell m i a.toNat else 0).sum

structure Out where
  asg : List Int
  obj : Rat
  iters : Nat
  evals : Nat
  u : List Rat     -- potentials of the padded problem, 0-indexed, length n
  v : List Rat
  stuck : Bool

def hungarian (m : Mat) (minimize : Bool) : Out :=
  if nRows m = 0 ∨ nCols m = 0 then ⟨[], 0, 0, 0, [], [], false⟩ else
  let r := nRows m
  let k := nCols m
  let n := max r k
  let mx := maxVal m
  let A : Nat → Nat → Rat := fun i j => padded m minimize mx (i - 1) (j - 1)
  let st := runRows A n
  let asg := extract r k n st.p.get
  { asg := asg, obj := totalCost m asg, iters := st.iters, evals := n * n,
    u := (List.range n).map fun i => st.u.get (i + 1),
    v := (List.range n).map fun j => st.v.get (j + 1),
    stuck := st.stuck }

/-! ### Spec side: valid assignments, objective, verified checker -/

/-- `assignment` is a matching of size `min r k`: one entry per row, each `-1` or a column
index, no column used twice, exactly `min r k` rows assigned. -/
structure ValidAsg (r k : Nat) (asg : List Int) : Prop where
  len : asg.length = r
  rng : ∀ i, i < r → asg.getD i (-1) = -1 ∨ (0 ≤ asg.getD i (-1) ∧ asg.getD i (-1) < (k : Int))
  inj : ∀ i, i < r → ∀ j, j < r → asg.getD i (-1) ≠ -1 → asg.getD i (-1) = asg.getD j (-1) → i = j
  card : ((List.range r).filter fun i => asg.getD i (-1) != -1).length = min r k

def validAsgB (r k : Nat) (asg : List Int) : Bool :=
  asg.length == r &&
  ((List.range r).all fun i => asg.getD i (-1) == -1 || (decide (0 ≤ asg.getD i (-1)) && decide (asg.getD i (-1) < (k : Int)))) &&
  ((List.range r).all fun i => (List.range r).all fun j =>
    asg.getD i (-1) == -1 || asg.getD i (-1) != asg.getD j (-1) || i == j) &&
  ((List.range r).filter fun i => asg.getD i (-1) != -1).length == min r k

/-- sum of the chosen cost entries -/
def objOf (m : Mat) (asg : List Int) : Rat :=
  ((List.range (nRows m)).map fun i =>
    if asg.getD i (-1) = -1 then 0 else cell m i (asg.getD i (-1)).toNat).sum

/-- sum of the chosen entries of the padded / transformed matrix -/
def tObjOf (m : Mat) (minimize : Bool) (mx : Rat) (asg : List Int) : Rat :=
  ((List.range (nRows m)).map fun i =>
    if asg.getD i (-1) = -1 then 0 else padded m minimize mx i (asg.getD i (-1)).toNat).sum

/-- `u_i + v_j ≤ a_ij` on the whole padded square -/
def dualFeasB (m : Mat) (minimize : Bool) (mx : Rat) (n : Nat) (u v : List Rat) : Bool :=
  (List.range n).all fun i => (List.range n).all fun j =>
    decide (u.getD i 0 + v.getD j 0 ≤ padded m minimize mx i j)

/-- The certificate checker: `asg` is a matching of size `min r k`, `(u, v)` are feasible
potentials of the padded (transformed) square, and the transformed cost of `asg` equals
`Σ u + Σ v`.  `chkAssignment_sound` (Theorems.lean): then `asg` is optimal. -/
def chkAssignment (m : Mat) (minimize : Bool) (mx : Rat) (asg : List Int) (u v : List Rat) : Bool :=
  let r := nRows m
  let k := nCols m
  let n := max r k
  validAsgB r k asg && u.length == n && v.length == n &&
  dualFeasB m minimize mx n u v &&
  tObjOf m minimize mx asg == u.sum + v.sum

/-- all rows have the length of the first (the harness only sends such matrices) -/
def rectB (m : Mat) : Bool := m.all fun row => row.length == nCols m

end Solvor.Assign
