import Solvor.Assign.Lemmas
/-! Assign: bridge between the list data the driver handles (`List Int` assignments, `List Rat`
potentials, `Mat`) and the mathematical objects of `Spec.lean`. -/
namespace Solvor.Assign
open Finset

/-! ### list sums / filters over `List.range` as `Fin` sums / cards -/

theorem list_sum_range {M : Type} [AddCommMonoid M] (f : ℕ → M) (n : ℕ) :
    ((List.range n).map f).sum = ∑ i : Fin n, f i := by
  rw [← Finset.sum_range]
  induction n with
  | zero => simp
  | succ n ih => rw [List.range_succ, List.map_append, List.sum_append, ih, Finset.sum_range_succ]; simp

theorem length_filter_eq_sum {α : Type} (p : α → Bool) (l : List α) :
    (l.filter p).length = (l.map fun x => if p x then 1 else 0).sum := by
  induction l with
  | nil => rfl
  | cons a l ih =>
    by_cases h : p a
    · simp [h, ih]; omega
    · simp [h, ih]

theorem length_filter_range (p : ℕ → Bool) (n : ℕ) :
    ((List.range n).filter p).length = #(univ.filter fun i : Fin n => p i = true) := by
  rw [length_filter_eq_sum, list_sum_range, Finset.card_filter]

theorem sum_getD (l : List ℚ) (n : ℕ) (hl : l.length = n) : l.sum = ∑ i : Fin n, l.getD i 0 := by
  subst hl
  rw [← Fin.sum_univ_getElem]
  refine Finset.sum_congr rfl fun i _ => ?_
  simp [List.getD_eq_getElem?_getD]

/-! ### assignments as matchings -/

/-- the matching denoted by an `assignment` list -/
def toM (r k : ℕ) (asg : List Int) : Fin r → Option (Fin k) := fun i =>
  if h : 0 ≤ asg.getD i (-1) ∧ asg.getD i (-1) < (k : Int) then
    some ⟨(asg.getD i (-1)).toNat, by omega⟩ else none

/-- a cost function given on naturals, restricted to the `r × k` index range -/
def cF (r k : ℕ) (C : ℕ → ℕ → ℚ) : Fin r → Fin k → ℚ := fun i j => C i j

theorem validAsgB_iff (r k : ℕ) (asg : List Int) : validAsgB r k asg = true ↔ ValidAsg r k asg := by
  unfold validAsgB
  simp only [Bool.and_eq_true, beq_iff_eq, List.all_eq_true, List.mem_range, Bool.or_eq_true,
    decide_eq_true_eq, bne_iff_ne, ne_eq]
  constructor
  · rintro ⟨⟨⟨h1, h2⟩, h3⟩, h4⟩
    refine ⟨h1, ?_, ?_, h4⟩
    · intro i hi
      rcases h2 i hi with h | h
      · exact Or.inl h
      · exact Or.inr h
    · intro i hi j hj hne heq
      rcases h3 i hi j hj with (h | h) | h
      · exact absurd h hne
      · exact absurd heq h
      · exact h
  · intro h
    refine ⟨⟨⟨h.len, ?_⟩, ?_⟩, h.card⟩
    · intro i hi
      rcases h.rng i hi with h' | h'
      · exact Or.inl h'
      · exact Or.inr h'
    · intro i hi j hj
      by_cases hne : asg.getD i (-1) = -1
      · exact Or.inl (Or.inl hne)
      · by_cases heq : asg.getD i (-1) = asg.getD j (-1)
        · exact Or.inr (h.inj i hi j hj hne heq)
        · exact Or.inl (Or.inr heq)

theorem toM_isSome {r k : ℕ} {asg : List Int}
    (hrng : ∀ i, i < r → asg.getD i (-1) = -1 ∨ (0 ≤ asg.getD i (-1) ∧ asg.getD i (-1) < (k : Int)))
    (i : Fin r) : (toM r k asg i).isSome = (asg.getD i (-1) != -1) := by
  unfold toM
  rcases hrng i i.2 with h' | h'
  · rw [dif_neg (by omega), h']; rfl
  · rw [dif_pos h']
    have : asg.getD i (-1) ≠ -1 := by omega
    exact (bne_iff_ne.2 this).symm

theorem toM_isMatching {r k : ℕ} {asg : List Int} (h : ValidAsg r k asg) : IsMatching (toM r k asg) := by
  intro i i' j h1 h2
  unfold toM at h1 h2
  split at h1
  · split at h2
    · rename_i a b
      have e1 := congrArg Fin.val (Option.some.inj h1)
      have e2 := congrArg Fin.val (Option.some.inj h2)
      simp only at e1 e2
      have : asg.getD i (-1) = asg.getD i' (-1) := by omega
      exact Fin.ext (h.inj i i.2 i' i'.2 (by omega) this)
    · cases h2
  · cases h1

theorem toM_msize {r k : ℕ} {asg : List Int} (h : ValidAsg r k asg) : msize (toM r k asg) = min r k := by
  unfold msize
  rw [← h.card, length_filter_range]
  congr 1
  ext i
  simp only [mem_filter, mem_univ, true_and]
  rw [toM_isSome h.rng i]

theorem toM_mcost {r k : ℕ} {asg : List Int}
    (hrng : ∀ i, i < r → asg.getD i (-1) = -1 ∨ (0 ≤ asg.getD i (-1) ∧ asg.getD i (-1) < (k : Int)))
    (C : ℕ → ℕ → ℚ) :
    mcost (cF r k C) (toM r k asg)
      = ((List.range r).map fun i => if asg.getD i (-1) = -1 then 0 else C i (asg.getD i (-1)).toNat).sum := by
  rw [list_sum_range]
  unfold mcost
  refine Finset.sum_congr rfl fun i _ => ?_
  unfold toM
  rcases hrng i i.2 with h' | h'
  · rw [dif_neg (by omega), if_pos h']; rfl
  · rw [dif_pos h', if_neg (by omega)]; rfl

/-- converse of `toM_isMatching`/`toM_msize` -/
theorem validAsg_of_toM {r k : ℕ} {asg : List Int} (hlen : asg.length = r)
    (hrng : ∀ i, i < r → asg.getD i (-1) = -1 ∨ (0 ≤ asg.getD i (-1) ∧ asg.getD i (-1) < (k : Int)))
    (hm : IsMatching (toM r k asg)) (hsz : msize (toM r k asg) = min r k) : ValidAsg r k asg := by
  refine ⟨hlen, hrng, ?_, ?_⟩
  · intro i hi j hj hne heq
    have hri : 0 ≤ asg.getD i (-1) ∧ asg.getD i (-1) < (k : Int) := by
      rcases hrng i hi with h | h
      · exact absurd h hne
      · exact h
    have hrj : 0 ≤ asg.getD j (-1) ∧ asg.getD j (-1) < (k : Int) := by rw [← heq]; exact hri
    have h1 : toM r k asg ⟨i, hi⟩ = some ⟨(asg.getD i (-1)).toNat, by omega⟩ := by
      unfold toM; rw [dif_pos hri]
    have h2 : toM r k asg ⟨j, hj⟩ = some ⟨(asg.getD i (-1)).toNat, by omega⟩ := by
      unfold toM; rw [dif_pos hrj]; congr 2; rw [heq]
    exact congrArg Fin.val (hm _ _ _ h1 h2)
  · rw [← hsz, length_filter_range]
    unfold msize
    congr 1
    ext i
    simp only [mem_filter, mem_univ, true_and]
    rw [toM_isSome hrng i]

/-- every matching is denoted by a valid assignment list -/
def ofM {r k : ℕ} (m : Fin r → Option (Fin k)) : List Int :=
  (List.finRange r).map fun i => (m i).elim (-1) (fun j => (j.val : Int))

theorem ofM_getD {r k : ℕ} (m : Fin r → Option (Fin k)) (i : Fin r) :
    (ofM m).getD i (-1) = (m i).elim (-1) (fun j => (j.val : Int)) := by
  unfold ofM
  simp [List.getD_eq_getElem?_getD]

theorem toM_ofM {r k : ℕ} (m : Fin r → Option (Fin k)) : toM r k (ofM m) = m := by
  funext i
  unfold toM
  have hg := ofM_getD m i
  cases hm : m i with
  | none =>
    rw [hm] at hg
    simp only [Option.elim_none] at hg
    rw [dif_neg (by rw [hg]; omega)]
  | some j =>
    rw [hm] at hg
    simp only [Option.elim_some] at hg
    have := j.2
    rw [dif_pos (by rw [hg]; omega)]
    congr 1
    apply Fin.ext
    show ((ofM m).getD i (-1)).toNat = j.val
    rw [hg]; simp

/-! ### the padded square of the model is the `pad` of the specification -/

theorem padded_eq_pad (m : Mat) (mn : Bool) (mx : ℚ) (n : ℕ) (i j : Fin n) :
    padded m mn mx i j = pad n (cF (nRows m) (nCols m) (padded m mn mx)) i j := by
  unfold pad cF
  by_cases h : i.val < nRows m ∧ j.val < nCols m
  · rw [dif_pos h]
  · rw [dif_neg h]; unfold padded; rw [if_neg h]

theorem cF_padded_min (m : Mat) (mx : ℚ) :
    cF (nRows m) (nCols m) (padded m true mx) = cF (nRows m) (nCols m) (cell m) := by
  funext i j
  simp [cF, padded, i.2, j.2]

theorem cF_padded_max (m : Mat) (mx : ℚ) :
    cF (nRows m) (nCols m) (padded m false mx) = fun i j => mx - cF (nRows m) (nCols m) (cell m) i j := by
  funext i j
  simp [cF, padded, i.2, j.2]

end Solvor.Assign
