import Solvor.Assign.Model
import Mathlib.Algebra.BigOperators.Group.Finset.Basic
import Mathlib.Algebra.Order.Field.Rat
import Mathlib.Data.Fintype.Basic
/-!
Assign: the mathematical specification of C10 (what "a matching of optimal total cost" means),
over clean objects.  Not imported by the driver.

A matching of the `r` rows to the `k` columns is `m : Fin r → Option (Fin k)` (`m i = some j`:
row `i` gets column `j`; `none`: row `i` is unassigned — the `-1` of the code) that uses no
column twice.
-/
namespace Solvor.Assign
open Finset

/-- no column is used twice -/
def IsMatching {r k : ℕ} (m : Fin r → Option (Fin k)) : Prop :=
  ∀ i i' j, m i = some j → m i' = some j → i = i'

/-- number of assigned rows -/
def msize {r k : ℕ} (m : Fin r → Option (Fin k)) : ℕ := #{i | (m i).isSome}

/-- total cost of the chosen entries -/
def mcost {r k : ℕ} (c : Fin r → Fin k → ℚ) (m : Fin r → Option (Fin k)) : ℚ :=
  ∑ i, (m i).elim 0 (c i)

/-- the zero-padded `n × n` square (`n ≥ r, k`) -/
def pad {r k : ℕ} (n : ℕ) (c : Fin r → Fin k → ℚ) : Fin n → Fin n → ℚ :=
  fun i j => if h : i.val < r ∧ j.val < k then c ⟨i, h.1⟩ ⟨j, h.2⟩ else 0

/-- The real cells used by a permutation of the padded square, as a matching. -/
def restrict {r k n : ℕ} (hr : r ≤ n) (σ : Equiv.Perm (Fin n)) : Fin r → Option (Fin k) :=
  fun i => if h : (σ ⟨i, lt_of_lt_of_le i.2 hr⟩).val < k then some ⟨_, h⟩ else none

end Solvor.Assign
