import Solvor.Cp.CircuitLemmas
import Solvor.Cp.ModelLemmas
/-! `enc_circuit` ([S]): the clause-level part — order variables, MTZ clauses — and the final
exactness statement for `encCircuit`. -/
namespace Solvor.Cp
open Solvor.Cp.Sat

theorem getD_cons_succ' (T : EVar) (Ts : List EVar) (p : Nat) :
    (T :: Ts).getD (p + 1) default = Ts.getD p default := by simp

/-- shape of the MTZ order variables: `t[0] ∈ 0..n-1`, `t[i] ∈ 1..n-1`, fresh and below the new counter -/
theorem mkOrderVars_spec (n : Nat) : ∀ (k next : Nat), k ≤ n → 0 < next →
    (mkOrderVars n k next).1.length = k ∧ next ≤ (mkOrderVars n k next).2 ∧
    ∀ p, p < k →
      ((mkOrderVars n k next).1.getD p default).lb = (if n - k + p = 0 then 0 else 1) ∧
      ((mkOrderVars n k next).1.getD p default).ub = (n : Int) - 1 ∧
      ((mkOrderVars n k next).1.getD p default).Below (mkOrderVars n k next).2
  | 0, next, _, _ => ⟨rfl, Nat.le_refl _, fun p hp => by omega⟩
  | k + 1, next, hk, hnx => by
    have ih := mkOrderVars_spec n k
      (next + (mkAux (if n - (k + 1) = 0 then 0 else 1) ((n : Int) - 1) next).size) (by omega) (by omega)
    simp only [mkOrderVars]
    refine ⟨by rw [List.length_cons, ih.1], by have := ih.2.1; omega, fun p hp => ?_⟩
    cases p with
    | zero =>
      simp only [List.getD_cons_zero, Nat.add_zero]
      exact ⟨rfl, rfl, hnx, by have := ih.2.1; exact this⟩
    | succ p =>
      rw [getD_cons_succ']
      have := ih.2.2 p (by omega)
      rw [show n - (k + 1) + (p + 1) = n - k + p by omega]
      exact this

/-- the order variables can be set (on fresh booleans) to any values inside their ranges -/
theorem mkOrderVars_encode (n : Nat) (vals : Nat → Int) : ∀ (k next : Nat) (β : Nat → Bool), k ≤ n →
    0 < next →
    (∀ p, p < k → (if n - k + p = 0 then (0 : Int) else 1) ≤ vals (n - k + p) ∧ vals (n - k + p) ≤ (n : Int) - 1) →
    ∃ β', AgreeBelow next β β' ∧
      ∀ p, p < k → Rep β' ((mkOrderVars n k next).1.getD p default) (vals (n - k + p))
  | 0, next, β, _, _, _ => ⟨β, AgreeBelow.refl _ _, fun p hp => by omega⟩
  | k + 1, next, β, hk, hnx, hv => by
    let T := mkAux (if n - (k + 1) = 0 then 0 else 1) ((n : Int) - 1) next
    have hin : T.lb ≤ vals (n - (k + 1)) ∧ vals (n - (k + 1)) ≤ T.ub := by
      have := hv 0 (by omega)
      simpa [T, mkAux] using this
    obtain ⟨β', hag, hr⟩ := mkOrderVars_encode n vals k (next + T.size) (setVar β T (vals (n - (k + 1))))
      (by omega) (by omega) (fun p hp => by
        have := hv (p + 1) (by omega)
        rwa [show n - (k + 1) + (p + 1) = n - k + p by omega] at this)
    refine ⟨β', (setVar_agree_below (P := T)).trans hag (Nat.le_add_right _ _), fun p hp => ?_⟩
    simp only [mkOrderVars]
    cases p with
    | zero =>
      simp only [List.getD_cons_zero, Nat.add_zero]
      exact (setVar_rep (P := T) hin).of_agree ⟨hnx, Nat.le_refl _⟩ hag
    | succ p =>
      rw [getD_cons_succ', show n - (k + 1) + (p + 1) = n - k + p by omega]
      exact hr p (by omega)

theorem cnfTrue_zipIdx {α} {β : Nat → Bool} {l : List α} {F : α × Nat → Cnf} :
    cnfTrue β (l.zipIdx.flatMap F) = true ↔ ∀ i (h : i < l.length), cnfTrue β (F (l[i], i)) = true := by
  rw [cnfTrue_flatMap]
  constructor
  · intro hall i hi
    exact hall (l[i], i) (List.mem_zipIdx_iff_getElem?.2 (by simp [List.getElem?_eq_getElem hi]))
  · rintro hall ⟨x, i⟩ hm
    have hg : l[i]? = some x := List.mem_zipIdx_iff_getElem?.1 hm
    have hi : i < l.length := by
      rcases Nat.lt_or_ge i l.length with h | h
      · exact h
      · rw [List.getElem?_eq_none h] at hg; cases hg
    rw [List.getElem?_eq_getElem hi] at hg
    have := hall i hi
    rwa [Option.some.inj hg] at this

theorem cnfTrue_filterMap {α} {β : Nat → Bool} {l : List α} {F : α → Option Clause} :
    cnfTrue β (l.filterMap F) = true ↔ ∀ x ∈ l, ∀ c, F x = some c → clauseTrue β c = true := by
  simp only [cnfTrue_iff, List.mem_filterMap]
  constructor
  · intro h x hx c hc; exact h c ⟨x, hx, hc⟩
  · rintro h c ⟨x, hx, hc⟩; exact h x hx c hc

theorem clause_not3 {β : Nat → Bool} {X Y Z : EVar} {x y z : Int} (hX : 0 < X.base) (hY : 0 < Y.base)
    (hZ : 0 < Z.base) (hx : Rep β X x) (hy : Rep β Y y) (hz : Rep β Z z) {u v w : Int}
    (hu : u ∈ X.dom) (hv : v ∈ Y.dom) (hw : w ∈ Z.dom) :
    clauseTrue β [-(X.lit u), -(Y.lit v), -(Z.lit w)] = true ↔ ¬ (u = x ∧ v = y ∧ w = z) := by
  have hu' := EVar.mem_dom.1 hu
  have hv' := EVar.mem_dom.1 hv
  have hw' := EVar.mem_dom.1 hw
  simp only [clauseTrue, List.any_cons, List.any_nil, Bool.or_false, litTrue_neg_lit hX,
    litTrue_neg_lit hY, litTrue_neg_lit hZ]
  have h1 := hx.2 u hu'.1 hu'.2
  have h2 := hy.2 v hv'.1 hv'.2
  have h3 := hz.2 w hw'.1 hw'.2
  cases hb : β (X.var u) <;> cases hc : β (Y.var v) <;> cases hd : β (Z.var w) <;> simp_all

/-- the part of the circuit encoding without order variables -/
def circuitBase (Xs : List EVar) : Cnf :=
  encAllDiff Xs ++
    (Xs.zipIdx.flatMap fun (X, i) => if X.has i then [[-(X.lit i)]] else []) ++
    (Xs.flatMap fun X => forbid1 X fun v => !(decide (0 ≤ v) && decide (v < Xs.length)))

theorem circuitBase_iff {β : Nat → Bool} {Vs : List EVar} {a : Asg} (h : Enc β Vs a) {vs : List Nat}
    (hs : ∀ v ∈ vs, v < Vs.length) :
    cnfTrue β (circuitBase (vs.map (ev Vs))) = true ↔
      (vs.map (val a)).Nodup ∧ (∀ i, i < vs.length → (vs.map (val a)).getD i 0 ≠ i) ∧
        InRange (vs.map (val a)) := by
  have hget : ∀ i (hi : i < vs.length), (vs.map (val a)).getD i 0 = val a vs[i] := by
    intro i hi
    simp [List.getD_eq_getElem?_getD, List.getElem?_eq_getElem, hi]
  unfold circuitBase
  rw [cnfTrue_append_iff, cnfTrue_append_iff, encAllDiff_iff h hs, cnfTrue_zipIdx, cnfTrue_flatMap]
  simp only [List.length_map, List.getElem_map]
  constructor
  · rintro ⟨⟨hnd, hself⟩, hrange⟩
    refine ⟨hnd, fun i hi => ?_, fun x hx => ?_⟩
    · rw [hget i hi]
      have hv := hs _ (List.getElem_mem hi)
      have hr := h.2 vs[i] hv
      have := hself i hi
      by_cases hh : (ev Vs vs[i]).has i = true
      · rw [if_pos hh] at this
        simp only [cnfTrue_cons, cnfTrue_nil, Bool.and_true] at this
        have := (clause_not hr.1 hr.2 (EVar.mem_dom.2 (EVar.has_iff.1 hh))).1 this
        exact fun he => this he.symm
      · intro he; rw [he] at hr; exact hh hr.2.has
    · obtain ⟨v, hv, rfl⟩ := List.mem_map.1 hx
      have hr := h.2 v (hs v hv)
      have := (forbid1_iff hr.1 hr.2 _).1 (hrange (ev Vs v) (List.mem_map_of_mem hv))
      simpa using this
  · rintro ⟨hnd, hself, hrange⟩
    refine ⟨⟨hnd, fun i hi => ?_⟩, fun X hX => ?_⟩
    · have hv := hs _ (List.getElem_mem hi)
      have hr := h.2 vs[i] hv
      have hne := hself i hi
      rw [hget i hi] at hne
      by_cases hh : (ev Vs vs[i]).has i = true
      · rw [if_pos hh]
        simp only [cnfTrue_cons, cnfTrue_nil, Bool.and_true]
        exact (clause_not hr.1 hr.2 (EVar.mem_dom.2 (EVar.has_iff.1 hh))).2 fun he => hne he.symm
      · rw [if_neg hh]; rfl
    · obtain ⟨v, hv, rfl⟩ := List.mem_map.1 hX
      have hr := h.2 v (hs v hv)
      apply (forbid1_iff hr.1 hr.2 _).2
      have := hrange (val a v) (List.mem_map_of_mem hv)
      simp only [List.length_map] at this
      simp [this.1, this.2]

/-- the MTZ ordering clauses -/
def circuitMtz (Xs Ts : List EVar) : Cnf :=
  Xs.zipIdx.flatMap fun (X, i) =>
    (List.range (Xs.length - 1)).flatMap fun j' =>
      if X.has ((j' + 1 : Nat) : Int) then
        (Ts.getD i default).dom.flatMap fun ti => (irange (Ts.getD (j' + 1) default).lb ti).filterMap fun tj =>
          if (Ts.getD (j' + 1) default).has tj then
            some [-(X.lit ((j' + 1 : Nat) : Int)), -((Ts.getD i default).lit ti), -((Ts.getD (j' + 1) default).lit tj)]
          else none
      else []

theorem circuitMtz_iff {β : Nat → Bool} {Vs : List EVar} {a : Asg} (h : Enc β Vs a) {vs : List Nat}
    (hs : ∀ v ∈ vs, v < Vs.length) {Ts : List EVar} {t : Nat → Int}
    (hT : ∀ i, i < vs.length → 0 < (Ts.getD i default).base ∧ Rep β (Ts.getD i default) (t i)) :
    cnfTrue β (circuitMtz (vs.map (ev Vs)) Ts) = true ↔
      ∀ i (hi : i < vs.length), ∀ j : Nat, 1 ≤ j → j < vs.length → val a vs[i] = (j : Int) → ¬ t j ≤ t i := by
  unfold circuitMtz
  rw [cnfTrue_zipIdx]
  simp only [List.length_map, List.getElem_map]
  constructor
  · intro hall i hi j hj1 hjn hxj hle
    have hv := hs _ (List.getElem_mem hi)
    have hr := h.2 vs[i] hv
    have h1 := hall i hi
    rw [cnfTrue_flatMap] at h1
    have h2 := h1 (j - 1) (List.mem_range.2 (by omega))
    rw [show j - 1 + 1 = j by omega] at h2
    have hhas : (ev Vs vs[i]).has (j : Int) = true := by rw [← hxj]; exact hr.2.has
    rw [if_pos hhas, cnfTrue_flatMap] at h2
    have hTi := hT i hi
    have hTj := hT j hjn
    have h3 := h2 (t i) hTi.2.mem_dom
    rw [cnfTrue_filterMap] at h3
    have h4 := h3 (t j) (mem_irange.2 ⟨hTj.2.1.1, hle⟩) _ (by rw [if_pos hTj.2.has])
    have := (clause_not3 hr.1 hTi.1 hTj.1 hr.2 hTi.2 hTj.2 (EVar.mem_dom.2 (EVar.has_iff.1 hhas))
      hTi.2.mem_dom hTj.2.mem_dom).1 h4
    exact this ⟨hxj.symm, rfl, rfl⟩
  · intro hall i hi
    have hv := hs _ (List.getElem_mem hi)
    have hr := h.2 vs[i] hv
    rw [cnfTrue_flatMap]
    intro j' hj'
    have hj'' := List.mem_range.1 hj'
    by_cases hhas : (ev Vs vs[i]).has ((j' + 1 : Nat) : Int) = true
    · rw [if_pos hhas, cnfTrue_flatMap]
      intro ti hti
      rw [cnfTrue_filterMap]
      intro tj htj c hc
      have hTi := hT i hi
      have hTj := hT (j' + 1) (by omega)
      by_cases hhj : (Ts.getD (j' + 1) default).has tj = true
      · rw [if_pos hhj] at hc
        rw [← Option.some.inj hc]
        apply (clause_not3 hr.1 hTi.1 hTj.1 hr.2 hTi.2 hTj.2 (EVar.mem_dom.2 (EVar.has_iff.1 hhas))
          hti (EVar.mem_dom.2 (EVar.has_iff.1 hhj))).2
        rintro ⟨hx, hti', htj'⟩
        have := hall i hi (j' + 1) (by omega) (by omega) hx.symm
        apply this
        rw [← hti', ← htj']
        exact (mem_irange.1 htj).2
      · rw [if_neg hhj] at hc; cases hc
    · rw [if_neg hhas]; rfl

theorem encCircuit_eq (Xs : List EVar) (next : Nat) (hn : 2 ≤ Xs.length) :
    encCircuit Xs next =
      (circuitBase Xs ++ (mkOrderVars Xs.length Xs.length next).1.flatMap auxClauses ++
        [[((mkOrderVars Xs.length Xs.length next).1.getD 0 default).lit 0]] ++
        circuitMtz Xs (mkOrderVars Xs.length Xs.length next).1,
       (mkOrderVars Xs.length Xs.length next).2) := by
  unfold encCircuit
  have h0 : ¬ Xs.length = 0 := by omega
  have h1 : ¬ Xs.length ≤ 1 := by omega
  simp only [h0, h1, if_false]
  rfl

theorem encCircuit_small (Xs : List EVar) (next : Nat) (hn : Xs.length = 1) :
    encCircuit Xs next = (circuitBase Xs, next) := by
  unfold encCircuit circuitBase
  simp only [hn, Nat.one_ne_zero, Nat.le_refl, if_true, if_false]

theorem holds_circuit_iff (a : Asg) (vs : List Nat) :
    Holds a (.circuit vs) ↔
      InRange (vs.map (val a)) ∧ (∀ i, i < vs.length → (vs.map (val a)).getD i 0 ≠ i) ∧
        ((List.range vs.length).map fun k => iter (vs.map (val a)) k 0).Nodup ∧
        iter (vs.map (val a)) vs.length 0 = 0 := by
  unfold Holds InRange
  simp only [List.length_map]

theorem getD_mem_of_lt {Ts : List EVar} {i : Nat} (h : i < Ts.length) : Ts.getD i default ∈ Ts := by
  rw [List.getD_eq_getElem?_getD, List.getElem?_eq_getElem h]; exact List.getElem_mem h

theorem nxt_map (a : Asg) (vs : List Nat) {i : Nat} (hi : i < vs.length) :
    nxt (vs.map (val a)) (i : Int) = val a vs[i] := by
  unfold nxt
  simp [List.getD_eq_getElem?_getD, List.getElem?_eq_getElem, hi]

/-- **enc_circuit** over an index list -/
theorem encCircuit_exact {Vs : List EVar} {nx : Nat} (hB : ∀ V ∈ Vs, V.Below nx) (hnx : 0 < nx)
    {vs : List Nat} (hs : ∀ v ∈ vs, v < Vs.length) :
    Exact Vs (fun a => Holds a (.circuit vs)) (encCircuit (vs.map (ev Vs)) nx).1 nx
      (encCircuit (vs.map (ev Vs)) nx).2 := by
  have hlen : (vs.map (ev Vs)).length = vs.length := List.length_map _
  rcases Nat.lt_or_ge vs.length 2 with hsmall | hbig
  · rcases Nat.eq_zero_or_pos vs.length with hz | hpos
    · -- no nodes: nothing to encode, the constraint holds
      have hvs : vs = [] := List.eq_nil_of_length_eq_zero hz
      subst hvs
      have : encCircuit ([].map (ev Vs)) nx = ([], nx) := rfl
      rw [this]
      exact Exact.of_iff hB fun β a _ => by
        simp [cnfTrue_nil, Holds, iter]
    · -- one node: a self loop is forbidden, anything else is out of range
      have h1 : vs.length = 1 := by omega
      rw [encCircuit_small _ _ (by rw [hlen]; exact h1)]
      apply Exact.of_iff hB
      intro β a he
      rw [circuitBase_iff he hs, holds_circuit_iff]
      have key : ¬ (InRange (vs.map (val a)) ∧ ∀ i, i < vs.length → (vs.map (val a)).getD i 0 ≠ i) := by
        rintro ⟨hr, hself⟩
        have h0 := hself 0 (by omega)
        have hm : (vs.map (val a)).getD 0 0 ∈ vs.map (val a) := by
          rw [List.getD_eq_getElem?_getD, List.getElem?_eq_getElem (by simp; omega)]
          exact List.getElem_mem _
        have := hr _ hm
        simp only [List.length_map, h1] at this
        apply h0; simp; omega
      constructor
      · rintro ⟨_, h2, h3⟩; exact absurd ⟨h3, h2⟩ key
      · rintro ⟨h1', h2, _⟩; exact absurd ⟨h1', h2⟩ key
  · -- two or more nodes: MTZ order variables
    have hspec := mkOrderVars_spec vs.length vs.length nx (Nat.le_refl _) hnx
    rw [encCircuit_eq _ _ (by rw [hlen]; exact hbig), hlen]
    have hTb : ∀ p, p < vs.length →
        ((mkOrderVars vs.length vs.length nx).1.getD p default).Below (mkOrderVars vs.length vs.length nx).2 :=
      fun p hp => (hspec.2.2 p hp).2.2
    have hTlb : ∀ p, p < vs.length →
        ((mkOrderVars vs.length vs.length nx).1.getD p default).lb = (if p = 0 then 0 else 1) := by
      intro p hp
      have := (hspec.2.2 p hp).1
      rwa [show vs.length - vs.length + p = p by omega] at this
    have hTub : ∀ p, p < vs.length →
        ((mkOrderVars vs.length vs.length nx).1.getD p default).ub = (vs.length : Int) - 1 :=
      fun p hp => (hspec.2.2 p hp).2.1
    refine ⟨hspec.2.1, ?_, ?_⟩
    · -- soundness
      intro β a he hc
      rw [cnfTrue_append_iff, cnfTrue_append_iff, cnfTrue_append_iff] at hc
      obtain ⟨⟨⟨hbase, haux⟩, ht0⟩, hmtz⟩ := hc
      rw [cnfTrue_flatMap] at haux
      let t : Nat → Int := fun p =>
        (decodeVar β ((mkOrderVars vs.length vs.length nx).1.getD p default)).getD 0
      have hT : ∀ p, p < vs.length →
          0 < ((mkOrderVars vs.length vs.length nx).1.getD p default).base ∧
            Rep β ((mkOrderVars vs.length vs.length nx).1.getD p default) (t p) := by
        intro p hp
        have hb := hTb p hp
        have hne : ((mkOrderVars vs.length vs.length nx).1.getD p default).lb ≤
            ((mkOrderVars vs.length vs.length nx).1.getD p default).ub := by
          rw [hTlb p hp, hTub p hp]; split <;> omega
        obtain ⟨x, hx⟩ := (exactlyOne_iff hb.1 hne).1
          (haux _ (getD_mem_of_lt (by rw [hspec.1]; exact hp)))
        refine ⟨hb.1, ?_⟩
        simp only [t, decodeVar_of_rep hx, Option.getD_some]; exact hx
      obtain ⟨hnd, hself, hrange⟩ := (circuitBase_iff he hs).1 hbase
      have hmtz' := (circuitMtz_iff he hs hT).1 hmtz
      have ht00 : t 0 = 0 := by
        have hT0 := hT 0 (by omega)
        simp only [cnfTrue_cons, cnfTrue_nil, Bool.and_true, clauseTrue, List.any_cons, List.any_nil,
          Bool.or_false, litTrue_lit hT0.1] at ht0
        have hlb := hTlb 0 (by omega)
        have hub := hTub 0 (by omega)
        simp only [if_true] at hlb
        exact ((hT0.2.2 0 (by omega) (by omega)).1 ht0).symm
      have hord : Ord (vs.map (val a)) fun v => t v.toNat := by
        refine ⟨by simpa using ht00, fun i h0 h1 => ?_, fun i h0 h1 hne => ?_⟩
        · simp only [List.length_map] at h1 ⊢
          have hp : i.toNat < vs.length := by omega
          have := (hT _ hp).2.1
          rw [hTlb _ hp, hTub _ hp] at this
          split at this <;> omega
        · simp only [List.length_map] at h1
          have hp : i.toNat < vs.length := by omega
          have hi : i = (i.toNat : Int) := by omega
          rw [hi, nxt_map a vs hp] at hne ⊢
          have hx := hrange (val a vs[i.toNat]) (List.mem_map_of_mem (List.getElem_mem hp))
          simp only [List.length_map] at hx
          have := hmtz' i.toNat hp (val a vs[i.toNat]).toNat (by omega) (by omega) (by omega)
          simp only [Int.toNat_natCast]
          omega
      have := circuit_of_ord hrange hnd hord
      simp only [List.length_map] at this
      exact (holds_circuit_iff a vs).2 ⟨hrange, hself, this.1, this.2⟩
    · -- completeness
      intro β a he hh
      obtain ⟨hrange, hself, horb, hret⟩ := (holds_circuit_iff a vs).1 hh
      obtain ⟨hnd, τ, hord, hτ1⟩ := ord_of_circuit hrange (by simpa using horb) (by simpa using hret)
      obtain ⟨β₁, hag1, hr1⟩ := mkOrderVars_encode vs.length (fun p => τ p) vs.length nx β (Nat.le_refl _) hnx
        (fun p hp => by
          rw [show vs.length - vs.length + p = p by omega]
          have hb := hord.bound p (by omega) (by simp; omega)
          simp only [List.length_map] at hb
          rcases Nat.eq_zero_or_pos p with rfl | hpp
          · simp only [if_true]; have := hord.zero; simp only [Nat.cast_zero] at hb ⊢; omega
          · have := hτ1 p (by omega) (by simp; omega)
            rw [if_neg (by omega)]; omega)
      refine ⟨β₁, hag1, fun β₂ hag2 => ?_⟩
      have he2 : Enc β₂ Vs a := he.of_agree hB (hag1.trans hag2 hspec.2.1)
      have hT2 : ∀ p, p < vs.length →
          0 < ((mkOrderVars vs.length vs.length nx).1.getD p default).base ∧
            Rep β₂ ((mkOrderVars vs.length vs.length nx).1.getD p default) (τ p) := by
        intro p hp
        have := hr1 p hp
        rw [show vs.length - vs.length + p = p by omega] at this
        exact ⟨(hTb p hp).1, this.of_agree (hTb p hp) hag2⟩
      rw [cnfTrue_append_iff, cnfTrue_append_iff, cnfTrue_append_iff]
      refine ⟨⟨⟨(circuitBase_iff he2 hs).2 ⟨hnd, hself, hrange⟩, ?_⟩, ?_⟩, ?_⟩
      · rw [cnfTrue_flatMap]
        intro T hT
        obtain ⟨p, hp, rfl⟩ := List.mem_iff_getElem.1 hT
        rw [hspec.1] at hp
        have := hT2 p hp
        rw [List.getD_eq_getElem?_getD, List.getElem?_eq_getElem (by rw [hspec.1]; exact hp)] at this
        exact auxClauses_of_rep this.1 this.2
      · have hT0 := hT2 0 (by omega)
        simp only [cnfTrue_cons, cnfTrue_nil, Bool.and_true, clauseTrue, List.any_cons, List.any_nil,
          Bool.or_false, litTrue_lit hT0.1]
        have := hT0.2.self
        rwa [show τ ((0 : Nat) : Int) = 0 from hord.zero] at this
      · apply (circuitMtz_iff he2 hs (t := fun p => τ p) hT2).2
        intro i hi j hj1 hjn hxj
        have := hord.step i (by omega) (by simp; omega) (by rw [nxt_map a vs hi, hxj]; omega)
        rw [nxt_map a vs hi, hxj] at this
        omega

end Solvor.Cp
