import Solvor.Cp.Syntax
import Solvor.Cp.Sem
import Solvor.Cp.Dpll
import Solvor.Cp.Encode
import Solvor.Cp.Prop
/-! Cp: executable models (no Mathlib imports).
`Syntax` (models as the operators build them), `Sem` (spec `Holds`, verified evaluator `check`,
exhaustive enumerator `solutions`), `Dpll` (CNF semantics, reference DPLL, projected enumerator),
`Encode` (mirror of `SATEncoder`), `Prop` (mirror of the DFS solver). -/
