/-! Cp: executable models (no Mathlib imports). -/
namespace Solvor.Cp

end Solvor.Cp
