import Solvor.Cp.Model
import Solvor.Cp.DpllLemmas
/-! Helper lemmas for the encoder theorems: the representation relation `Rep` and the exactness
of the clause-building primitives (`forbid1`, `forbid2`, `imply2`, `link`, `exactlyOne`). -/
namespace Solvor.Cp
open Solvor.Cp.Sat

/-! ### CNF evaluation over list operations -/

theorem cnfTrue_nil (β : Nat → Bool) : cnfTrue β [] = true := rfl

theorem cnfTrue_cons (β : Nat → Bool) (c : Clause) (f : Cnf) :
    cnfTrue β (c :: f) = (clauseTrue β c && cnfTrue β f) := by simp [cnfTrue]

theorem cnfTrue_append (β : Nat → Bool) (f g : Cnf) :
    cnfTrue β (f ++ g) = (cnfTrue β f && cnfTrue β g) := by simp [cnfTrue]

theorem cnfTrue_iff {β : Nat → Bool} {f : Cnf} :
    cnfTrue β f = true ↔ ∀ c ∈ f, clauseTrue β c = true := by simp [cnfTrue]

theorem cnfTrue_flatMap {α} {β : Nat → Bool} {l : List α} {F : α → Cnf} :
    cnfTrue β (l.flatMap F) = true ↔ ∀ x ∈ l, cnfTrue β (F x) = true := by
  simp only [cnfTrue_iff, List.mem_flatMap]
  constructor
  · intro h x hx c hc; exact h c ⟨x, hx, hc⟩
  · rintro h c ⟨x, hx, hc⟩; exact h x hx c hc

theorem cnfTrue_map {α} {β : Nat → Bool} {l : List α} {F : α → Clause} :
    cnfTrue β (l.map F) = true ↔ ∀ x ∈ l, clauseTrue β (F x) = true := by
  simp only [cnfTrue_iff, List.mem_map]
  constructor
  · intro h x hx; exact h _ ⟨x, hx, rfl⟩
  · rintro h c ⟨x, hx, rfl⟩; exact h x hx

theorem cnfTrue_append_iff {β : Nat → Bool} {f g : Cnf} :
    cnfTrue β (f ++ g) = true ↔ cnfTrue β f = true ∧ cnfTrue β g = true := by
  rw [cnfTrue_append, Bool.and_eq_true]

theorem cnfTrue_empty_clause {β : Nat → Bool} : cnfTrue β [[]] = false := rfl

/-! ### literals of an encoded variable -/

theorem litTrue_lit {β : Nat → Bool} {V : EVar} (hV : 0 < V.base) (v : Int) :
    litTrue β (V.lit v) = β (V.var v) := by
  unfold litTrue EVar.lit
  have h : 0 < V.var v := by unfold EVar.var; omega
  have : (0 : Int) < ((V.var v : Nat) : Int) := by omega
  simp only [this, if_true, Int.natAbs_natCast]

theorem litTrue_neg_lit {β : Nat → Bool} {V : EVar} (hV : 0 < V.base) (v : Int) :
    litTrue β (-(V.lit v)) = !β (V.var v) := by
  unfold litTrue EVar.lit
  have h : 0 < V.var v := by unfold EVar.var; omega
  have : ¬ (0 : Int) < -((V.var v : Nat) : Int) := by omega
  simp only [this, if_false, Int.natAbs_neg, Int.natAbs_natCast]

theorem EVar.has_iff {V : EVar} {v : Int} : V.has v = true ↔ V.lb ≤ v ∧ v ≤ V.ub := by
  simp [EVar.has]

theorem EVar.mem_dom {V : EVar} {v : Int} : v ∈ V.dom ↔ V.lb ≤ v ∧ v ≤ V.ub := mem_irange

theorem EVar.var_inj {V : EVar} {v w : Int} (hv : V.lb ≤ v) (hw : V.lb ≤ w) (h : V.var v = V.var w) :
    v = w := by unfold EVar.var at h; omega

/-- `β` encodes the value `x` for `V`: `x` is in the domain and exactly its boolean is true. -/
def Rep (β : Nat → Bool) (V : EVar) (x : Int) : Prop :=
  (V.lb ≤ x ∧ x ≤ V.ub) ∧ ∀ v, V.lb ≤ v → v ≤ V.ub → (β (V.var v) = true ↔ v = x)

theorem Rep.unique {β : Nat → Bool} {V : EVar} {x y : Int} (hx : Rep β V x) (hy : Rep β V y) : x = y :=
  ((hy.2 x hx.1.1 hx.1.2).1 ((hx.2 x hx.1.1 hx.1.2).2 rfl))

theorem Rep.self {β : Nat → Bool} {V : EVar} {x : Int} (h : Rep β V x) : β (V.var x) = true :=
  (h.2 x h.1.1 h.1.2).2 rfl

theorem Rep.mem_dom {β : Nat → Bool} {V : EVar} {x : Int} (h : Rep β V x) : x ∈ V.dom :=
  EVar.mem_dom.2 h.1

theorem Rep.has {β : Nat → Bool} {V : EVar} {x : Int} (h : Rep β V x) : V.has x = true :=
  EVar.has_iff.2 h.1

/-- clause `[-X[v]]` -/
theorem clause_not {β : Nat → Bool} {X : EVar} {x : Int} (hX : 0 < X.base) (h : Rep β X x) {v : Int}
    (hv : v ∈ X.dom) : clauseTrue β [-(X.lit v)] = true ↔ v ≠ x := by
  have hv' := EVar.mem_dom.1 hv
  simp only [clauseTrue, List.any_cons, List.any_nil, Bool.or_false, litTrue_neg_lit hX]
  have := h.2 v hv'.1 hv'.2
  cases hb : β (X.var v) <;> simp_all

/-! ### the primitives are exact -/

theorem forbid1_iff {β : Nat → Bool} {X : EVar} {x : Int} (hX : 0 < X.base) (h : Rep β X x)
    (p : Int → Bool) : cnfTrue β (forbid1 X p) = true ↔ p x = false := by
  unfold forbid1
  rw [cnfTrue_map]
  constructor
  · intro hall
    cases hp : p x
    · rfl
    · have := (clause_not hX h h.mem_dom).1 (hall x (List.mem_filter.2 ⟨h.mem_dom, hp⟩))
      exact absurd rfl this
  · intro hp v hv
    have hv' := List.mem_filter.1 hv
    apply (clause_not hX h hv'.1).2
    rintro rfl; rw [hp] at hv'; exact absurd hv'.2 (by simp)

theorem clause_not2 {β : Nat → Bool} {X Y : EVar} {x y : Int} (hX : 0 < X.base) (hY : 0 < Y.base)
    (hx : Rep β X x) (hy : Rep β Y y) {v w : Int} (hv : v ∈ X.dom) (hw : w ∈ Y.dom) :
    clauseTrue β [-(X.lit v), -(Y.lit w)] = true ↔ ¬ (v = x ∧ w = y) := by
  have hv' := EVar.mem_dom.1 hv
  have hw' := EVar.mem_dom.1 hw
  simp only [clauseTrue, List.any_cons, List.any_nil, Bool.or_false, litTrue_neg_lit hX,
    litTrue_neg_lit hY]
  have h1 := hx.2 v hv'.1 hv'.2
  have h2 := hy.2 w hw'.1 hw'.2
  cases hb : β (X.var v) <;> cases hc : β (Y.var w) <;> simp_all

theorem forbid2_iff {β : Nat → Bool} {X Y : EVar} {x y : Int} (hX : 0 < X.base) (hY : 0 < Y.base)
    (hx : Rep β X x) (hy : Rep β Y y) (p : Int → Int → Bool) :
    cnfTrue β (forbid2 X Y p) = true ↔ p x y = false := by
  unfold forbid2
  rw [cnfTrue_flatMap]
  constructor
  · intro hall
    cases hp : p x y
    · rfl
    · have h1 := hall x hx.mem_dom
      rw [cnfTrue_map] at h1
      have := (clause_not2 hX hY hx hy hx.mem_dom hy.mem_dom).1
        (h1 y (List.mem_filter.2 ⟨hy.mem_dom, hp⟩))
      exact absurd ⟨rfl, rfl⟩ this
  · intro hp v hv
    rw [cnfTrue_map]
    intro w hw
    have hw' := List.mem_filter.1 hw
    apply (clause_not2 hX hY hx hy hv hw'.1).2
    rintro ⟨rfl, rfl⟩; rw [hp] at hw'; exact absurd hw'.2 (by simp)

theorem clause_imp {β : Nat → Bool} {X Y : EVar} {x y : Int} (hX : 0 < X.base) (hY : 0 < Y.base)
    (hx : Rep β X x) (hy : Rep β Y y) {v w : Int} (hv : v ∈ X.dom) (hw : w ∈ Y.dom) :
    clauseTrue β [-(X.lit v), Y.lit w] = true ↔ (v = x → w = y) := by
  have hv' := EVar.mem_dom.1 hv
  have hw' := EVar.mem_dom.1 hw
  simp only [clauseTrue, List.any_cons, List.any_nil, Bool.or_false, litTrue_neg_lit hX,
    litTrue_lit hY]
  have h1 := hx.2 v hv'.1 hv'.2
  have h2 := hy.2 w hw'.1 hw'.2
  cases hb : β (X.var v) <;> cases hc : β (Y.var w) <;> simp_all

theorem imply2_iff {β : Nat → Bool} {X Y : EVar} {x y : Int} (hX : 0 < X.base) (hY : 0 < Y.base)
    (hx : Rep β X x) (hy : Rep β Y y) (f : Int → Option Int) :
    cnfTrue β (imply2 X Y f) = true ↔ f x = some y := by
  unfold imply2
  rw [cnfTrue_map]
  constructor
  · intro hall
    have h1 := hall x hx.mem_dom
    cases hf : f x with
    | none =>
      rw [hf] at h1
      exact absurd rfl ((clause_not hX hx hx.mem_dom).1 h1)
    | some w =>
      rw [hf] at h1
      by_cases hh : Y.has w = true
      · simp only [hh, if_true] at h1
        have := (clause_imp hX hY hx hy hx.mem_dom (EVar.mem_dom.2 (EVar.has_iff.1 hh))).1 h1 rfl
        rw [this]
      · simp only [hh] at h1
        exact absurd rfl ((clause_not hX hx hx.mem_dom).1 h1)
  · intro hf v hv
    cases hfv : f v with
    | none =>
      apply (clause_not hX hx hv).2
      rintro rfl; rw [hf] at hfv; cases hfv
    | some w =>
      by_cases hh : Y.has w = true
      · simp only [hh, if_true]
        apply (clause_imp hX hY hx hy hv (EVar.mem_dom.2 (EVar.has_iff.1 hh))).2
        rintro rfl; rw [hf] at hfv; injection hfv with h; exact h.symm
      · simp only [hh]
        apply (clause_not hX hx hv).2
        rintro rfl; rw [hf] at hfv; injection hfv with h; subst h
        exact hh hy.has

/-! ### `pairs` and exactly-one -/

theorem mem_pairs_of_sorted {l : List Int} (hs : l.Pairwise (· < ·)) {v w : Int} :
    (v, w) ∈ pairs l ↔ v ∈ l ∧ w ∈ l ∧ v < w := by
  induction l with
  | nil => simp [pairs]
  | cons a l ih =>
    have ha := List.pairwise_cons.1 hs
    simp only [pairs, List.mem_append, List.mem_map, Prod.mk.injEq, List.mem_cons, ih ha.2]
    constructor
    · rintro (⟨y, hy, rfl, rfl⟩ | ⟨h1, h2, h3⟩)
      · exact ⟨Or.inl rfl, Or.inr hy, ha.1 _ hy⟩
      · exact ⟨Or.inr h1, Or.inr h2, h3⟩
    · rintro ⟨h1 | h1, h2 | h2, h3⟩
      · omega
      · exact Or.inl ⟨w, h2, h1.symm, rfl⟩
      · have := ha.1 _ h1; omega
      · exact Or.inr ⟨h1, h2, h3⟩

theorem irange_sorted (lb ub : Int) : (irange lb ub).Pairwise (· < ·) := by
  unfold irange
  rw [List.pairwise_map]
  have := List.pairwise_lt_range (n := (ub + 1 - lb).toNat)
  exact this.imp (by intro a b h; omega)

theorem pairs_map {α β} (f : α → β) (l : List α) :
    pairs (l.map f) = (pairs l).map fun p => (f p.1, f p.2) := by
  induction l with
  | nil => rfl
  | cons a l ih => simp [pairs, ih, List.map_map, Function.comp_def]

/-- `encode_vars_decode` at the level of one variable: the exactly-one clauses hold iff `β`
encodes exactly one value of the domain. -/
theorem exactlyOne_iff {β : Nat → Bool} {V : EVar} (hV : 0 < V.base) (hne : V.lb ≤ V.ub) :
    cnfTrue β (exactlyOne V.lits) = true ↔ ∃ x, Rep β V x := by
  have hmemp : ∀ {v w : Int}, (v, w) ∈ pairs V.dom ↔ v ∈ V.dom ∧ w ∈ V.dom ∧ v < w :=
    mem_pairs_of_sorted (irange_sorted _ _)
  unfold exactlyOne
  by_cases hemp : V.lits.isEmpty = true
  · have hd : V.dom = [] := by
      have : V.lits = [] := by simpa using hemp
      simpa [EVar.lits] using this
    have : V.lb ∈ V.dom := EVar.mem_dom.2 ⟨Int.le_refl _, hne⟩
    rw [hd] at this; cases this
  · rw [if_neg hemp, cnfTrue_cons, Bool.and_eq_true]
    have halo : clauseTrue β V.lits = true ↔ ∃ v ∈ V.dom, β (V.var v) = true := by
      simp only [clauseTrue, EVar.lits, List.any_map, List.any_eq_true, Function.comp_def,
        litTrue_lit hV]
    have hamo : cnfTrue β (atMostOne V.lits) = true ↔
        ∀ v w, v ∈ V.dom → w ∈ V.dom → v < w → ¬ (β (V.var v) = true ∧ β (V.var w) = true) := by
      unfold atMostOne EVar.lits
      rw [pairs_map, List.map_map, cnfTrue_map]
      constructor
      · intro h v w hv hw hlt
        have := h (v, w) (hmemp.2 ⟨hv, hw, hlt⟩)
        simp only [Function.comp_def, clauseTrue, List.any_cons, List.any_nil, Bool.or_false,
          litTrue_neg_lit hV] at this
        cases hb : β (V.var v) <;> cases hc : β (V.var w) <;> simp_all
      · rintro h ⟨v, w⟩ hp
        obtain ⟨hv, hw, hlt⟩ := hmemp.1 hp
        have := h v w hv hw hlt
        simp only [Function.comp_def, clauseTrue, List.any_cons, List.any_nil, Bool.or_false,
          litTrue_neg_lit hV]
        cases hb : β (V.var v) <;> cases hc : β (V.var w) <;> simp_all
    rw [halo, hamo]
    constructor
    · rintro ⟨⟨x, hx, hbx⟩, hno⟩
      refine ⟨x, EVar.mem_dom.1 hx, fun v hv1 hv2 => ⟨fun hbv => ?_, fun h => h ▸ hbx⟩⟩
      have hv : v ∈ V.dom := EVar.mem_dom.2 ⟨hv1, hv2⟩
      rcases Int.lt_trichotomy v x with h | h | h
      · exact absurd ⟨hbv, hbx⟩ (hno v x hv hx h)
      · exact h
      · exact absurd ⟨hbx, hbv⟩ (hno x v hx hv h)
    · rintro ⟨x, hx⟩
      refine ⟨⟨x, hx.mem_dom, hx.self⟩, fun v w hv hw hlt hboth => ?_⟩
      have hv' := EVar.mem_dom.1 hv
      have hw' := EVar.mem_dom.1 hw
      have h1 := (hx.2 v hv'.1 hv'.2).1 hboth.1
      have h2 := (hx.2 w hw'.1 hw'.2).1 hboth.2
      omega

/-- `decode_sat_solution` returns the represented value -/
theorem decodeVar_of_rep {β : Nat → Bool} {V : EVar} {x : Int} (h : Rep β V x) :
    decodeVar β V = some x := by
  unfold decodeVar
  cases hf : V.dom.find? (fun v => β (V.var v)) with
  | none =>
    have := List.find?_eq_none.1 hf x h.mem_dom
    simp [h.self] at this
  | some y =>
    have hy := List.find?_some hf
    have hm := EVar.mem_dom.1 (List.mem_of_find?_eq_some hf)
    have := (h.2 y hm.1 hm.2).1 (by simpa using hy)
    rw [this]

/-! ### constants -/

theorem encEqConst_iff {β : Nat → Bool} {X : EVar} {x : Int} (hX : 0 < X.base) (h : Rep β X x) (c : Int) :
    cnfTrue β (encEqConst X c) = true ↔ x = c := by
  unfold encEqConst
  by_cases hh : X.has c = true
  · rw [if_pos hh]
    have hc := EVar.has_iff.1 hh
    simp only [cnfTrue_cons, cnfTrue_nil, Bool.and_true, clauseTrue, List.any_cons, List.any_nil,
      Bool.or_false, litTrue_lit hX]
    rw [h.2 c hc.1 hc.2]; exact eq_comm
  · rw [if_neg hh]
    simp only [cnfTrue_empty_clause, Bool.false_eq_true, false_iff]
    rintro rfl; exact hh h.has

theorem encNeConst_iff {β : Nat → Bool} {X : EVar} {x : Int} (hX : 0 < X.base) (h : Rep β X x) (c : Int) :
    cnfTrue β (encNeConst X c) = true ↔ x ≠ c := by
  unfold encNeConst
  by_cases hh : X.has c = true
  · rw [if_pos hh]
    have hc := EVar.has_iff.1 hh
    simp only [cnfTrue_cons, cnfTrue_nil, Bool.and_true]
    rw [clause_not hX h (EVar.mem_dom.2 hc)]
    exact ⟨fun h1 h2 => h1 h2.symm, fun h1 h2 => h1 h2.symm⟩
  · rw [if_neg hh]
    simp only [cnfTrue_nil, true_iff]
    rintro rfl; exact hh h.has

theorem encEqVar_iff {β : Nat → Bool} {X Y : EVar} {x y : Int} (hX : 0 < X.base) (hY : 0 < Y.base)
    (hx : Rep β X x) (hy : Rep β Y y) : cnfTrue β (encEqVar X Y) = true ↔ x = y := by
  unfold encEqVar
  rw [cnfTrue_append_iff, imply2_iff hX hY hx hy, imply2_iff hY hX hy hx]
  constructor
  · rintro ⟨h, _⟩; injection h
  · rintro rfl; exact ⟨rfl, rfl⟩

theorem encNeVar_iff {β : Nat → Bool} {X Y : EVar} {x y : Int} (hX : 0 < X.base) (hY : 0 < Y.base)
    (hx : Rep β X x) (hy : Rep β Y y) : cnfTrue β (encNeVar X Y) = true ↔ x ≠ y := by
  unfold encNeVar
  rw [forbid2_iff hX hY hx hy]
  simp

/-! ### named variables of a model and their encoding -/

/-- `β` encodes the assignment `a` on the encoded variables `Vs`. -/
def Enc (β : Nat → Bool) (Vs : List EVar) (a : Asg) : Prop :=
  a.length = Vs.length ∧ ∀ i, i < Vs.length → 0 < (ev Vs i).base ∧ Rep β (ev Vs i) (val a i)

theorem cnfTrue_pairs {α} {β : Nat → Bool} {l : List α} {F : α × α → Cnf} :
    cnfTrue β ((pairs l).flatMap F) = true ↔ l.Pairwise fun p q => cnfTrue β (F (p, q)) = true := by
  induction l with
  | nil => simp [pairs, cnfTrue_nil]
  | cons x xs ih =>
    rw [pairs, List.flatMap_append, cnfTrue_append_iff, ih, List.pairwise_cons, List.flatMap_map,
      cnfTrue_flatMap]

theorem encAllDiff_iff {β : Nat → Bool} {Vs : List EVar} {a : Asg} (h : Enc β Vs a) {vs : List Nat}
    (hs : ∀ v ∈ vs, v < Vs.length) :
    cnfTrue β (encAllDiff (vs.map (ev Vs))) = true ↔ (vs.map (val a)).Nodup := by
  unfold encAllDiff
  rw [pairs_map, List.flatMap_map, cnfTrue_pairs, List.nodup_iff_pairwise_ne, List.pairwise_map]
  apply List.Pairwise.iff_of_mem
  intro i j hi hj
  have h1 := h.2 i (hs i hi)
  have h2 := h.2 j (hs j hj)
  exact encNeVar_iff h1.1 h2.1 h1.2 h2.2

theorem encNoOverlap_iff {β : Nat → Bool} {Vs : List EVar} {a : Asg} (h : Enc β Vs a)
    {ss : List Nat} (ds : List Int) (hs : ∀ v ∈ ss, v < Vs.length) :
    cnfTrue β (encNoOverlap ((ss.map (ev Vs)).zip ds)) = true ↔ Holds a (.noOverlap ss ds) := by
  unfold encNoOverlap Holds
  rw [List.zip_map_left, pairs_map, List.flatMap_map, cnfTrue_pairs]
  apply List.Pairwise.iff_of_mem
  intro p q hp hq
  have h1 := h.2 p.1 (hs _ (List.of_mem_zip hp).1)
  have h2 := h.2 q.1 (hs _ (List.of_mem_zip hq).1)
  simp only [Prod.map_fst, Prod.map_snd, id_eq]
  rw [forbid2_iff h1.1 h2.1 h1.2 h2.2]
  simp only [Bool.and_eq_false_iff, Bool.not_eq_false', decide_eq_true_eq]

/-! ### auxiliary variables: fresh booleans and extension of assignments -/

/-- all booleans of `V` are in `[1, n)` -/
def EVar.Below (V : EVar) (n : Nat) : Prop := 0 < V.base ∧ V.base + V.size ≤ n

theorem EVar.var_lt {V : EVar} {n : Nat} (h : V.Below n) {v : Int} (hv : V.lb ≤ v ∧ v ≤ V.ub) :
    V.var v < n := by
  unfold EVar.Below EVar.size at h; unfold EVar.var; omega

/-- `β'` agrees with `β` below `n` -/
def AgreeBelow (n : Nat) (β β' : Nat → Bool) : Prop := ∀ k, k < n → β' k = β k

theorem Rep.of_agree {β β' : Nat → Bool} {V : EVar} {x : Int} {n : Nat} (h : Rep β V x)
    (hV : V.Below n) (hag : AgreeBelow n β β') : Rep β' V x :=
  ⟨h.1, fun v h1 h2 => by rw [hag _ (EVar.var_lt hV ⟨h1, h2⟩)]; exact h.2 v h1 h2⟩

/-- set the booleans of `P` so that they encode `p` -/
def setVar (β : Nat → Bool) (P : EVar) (p : Int) : Nat → Bool :=
  fun k => if P.base ≤ k ∧ k < P.base + P.size then decide (k = P.var p) else β k

theorem setVar_rep {β : Nat → Bool} {P : EVar} {p : Int} (hp : P.lb ≤ p ∧ p ≤ P.ub) :
    Rep (setVar β P p) P p := by
  refine ⟨hp, fun v h1 h2 => ?_⟩
  have : P.base ≤ P.var v ∧ P.var v < P.base + P.size := by
    unfold EVar.var EVar.size; omega
  simp only [setVar, this, and_self, if_true, decide_eq_true_eq]
  constructor
  · intro h; exact EVar.var_inj h1 hp.1 h
  · rintro rfl; rfl

theorem setVar_agree_below {β : Nat → Bool} {P : EVar} {p : Int} :
    AgreeBelow P.base β (setVar β P p) := by
  intro k hk
  have : ¬ (P.base ≤ k ∧ k < P.base + P.size) := by omega
  simp [setVar, this]

theorem setVar_agree_above {β : Nat → Bool} {P : EVar} {p : Int} {k : Nat} (hk : P.base + P.size ≤ k) :
    setVar β P p k = β k := by
  have : ¬ (P.base ≤ k ∧ k < P.base + P.size) := by omega
  simp [setVar, this]

/-- the value `x` is marked true (what the chains need of an auxiliary variable; weaker than `Rep`) -/
def Marks (β : Nat → Bool) (V : EVar) (x : Int) : Prop := (V.lb ≤ x ∧ x ≤ V.ub) ∧ β (V.var x) = true

theorem Rep.marks {β : Nat → Bool} {V : EVar} {x : Int} (h : Rep β V x) : Marks β V x := ⟨h.1, h.self⟩

/-- soundness of a link clause set: the pair's image is marked, or (with `orElse`) in range -/
theorem link_sound {β : Nat → Bool} {X Y P : EVar} {x y : Int} {f : Int → Int → Int} {orElse : Bool}
    (hX : 0 < X.base) (hY : 0 < Y.base) (hP : 0 < P.base)
    (hx : Marks β X x) (hy : Marks β Y y) (h : cnfTrue β (link X Y P f orElse) = true) :
    (P.has (f x y) = true → Marks β P (f x y)) ∧ (orElse = true → P.has (f x y) = true) := by
  unfold link at h
  rw [cnfTrue_flatMap] at h
  have h1 := h x (EVar.mem_dom.2 hx.1)
  rw [cnfTrue_flatMap] at h1
  have h2 := h1 y (EVar.mem_dom.2 hy.1)
  constructor
  · intro hh
    rw [if_pos hh] at h2
    simp only [cnfTrue_cons, cnfTrue_nil, Bool.and_true, clauseTrue, List.any_cons, List.any_nil,
      Bool.or_false, litTrue_neg_lit hX, litTrue_neg_lit hY, litTrue_lit hP, hx.2, hy.2,
      Bool.not_true, Bool.false_or] at h2
    exact ⟨EVar.has_iff.1 hh, h2⟩
  · intro ho
    by_cases hh : P.has (f x y) = true
    · exact hh
    · rw [if_neg hh, if_pos ho] at h2
      simp [cnfTrue_cons, cnfTrue_nil, clauseTrue, litTrue_neg_lit hX, litTrue_neg_lit hY, hx.2, hy.2] at h2

/-- completeness of a link clause set under exact encodings -/
theorem link_complete {β : Nat → Bool} {X Y P : EVar} {x y : Int} {f : Int → Int → Int} {orElse : Bool}
    (hX : 0 < X.base) (hY : 0 < Y.base) (hP : 0 < P.base)
    (hx : Rep β X x) (hy : Rep β Y y) (hp : Rep β P (f x y)) :
    cnfTrue β (link X Y P f orElse) = true := by
  unfold link
  rw [cnfTrue_flatMap]; intro v hv
  rw [cnfTrue_flatMap]; intro w hw
  have hv' := EVar.mem_dom.1 hv
  have hw' := EVar.mem_dom.1 hw
  have e1 := hx.2 v hv'.1 hv'.2
  have e2 := hy.2 w hw'.1 hw'.2
  by_cases hh : P.has (f v w) = true
  · rw [if_pos hh]
    have hh' := EVar.has_iff.1 hh
    have e3 := hp.2 (f v w) hh'.1 hh'.2
    simp only [cnfTrue_cons, cnfTrue_nil, Bool.and_true, clauseTrue, List.any_cons, List.any_nil,
      Bool.or_false, litTrue_neg_lit hX, litTrue_neg_lit hY, litTrue_lit hP]
    cases hb : β (X.var v) <;> cases hc : β (Y.var w) <;> simp_all
  · rw [if_neg hh]
    cases orElse
    · simp [cnfTrue_nil]
    · simp only [if_true, cnfTrue_cons, cnfTrue_nil, Bool.and_true]
      rw [clause_not2 hX hY hx hy hv hw]
      rintro ⟨rfl, rfl⟩; exact hh hp.has

end Solvor.Cp
