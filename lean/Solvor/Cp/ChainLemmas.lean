import Solvor.Cp.Lemmas
import Mathlib.Tactic.Ring
import Mathlib.Tactic.Linarith
/-! Lemmas for the encodings that introduce auxiliary partial-sum variables
(`_encode_sum_eq/_le/_ge`, `_encode_linear`): soundness needs only that the real value of an
auxiliary variable is *marked* (so it holds with or without exactly-one clauses on the auxiliaries),
completeness extends the assignment on the fresh booleans in a way that is stable under any later
change above the counter. -/
namespace Solvor.Cp
open Solvor.Cp.Sat

/-! ### soundness of the primitives from marks alone -/

theorem forbid2_sound {β : Nat → Bool} {X Y : EVar} {x y : Int} (hX : 0 < X.base) (hY : 0 < Y.base)
    (hx : Marks β X x) (hy : Marks β Y y) {p : Int → Int → Bool}
    (h : cnfTrue β (forbid2 X Y p) = true) : p x y = false := by
  unfold forbid2 at h
  rw [cnfTrue_flatMap] at h
  have h1 := h x (EVar.mem_dom.2 hx.1)
  rw [cnfTrue_map] at h1
  cases hp : p x y
  · rfl
  · have := h1 y (List.mem_filter.2 ⟨EVar.mem_dom.2 hy.1, hp⟩)
    simp [clauseTrue, litTrue_neg_lit hX, litTrue_neg_lit hY, hx.2, hy.2] at this

theorem imply2_sound {β : Nat → Bool} {X Y : EVar} {x y : Int} (hX : 0 < X.base) (hY : 0 < Y.base)
    (hx : Marks β X x) (hy : Rep β Y y) {f : Int → Option Int}
    (h : cnfTrue β (imply2 X Y f) = true) : f x = some y := by
  unfold imply2 at h
  rw [cnfTrue_map] at h
  have h1 := h x (EVar.mem_dom.2 hx.1)
  cases hf : f x with
  | none =>
    rw [hf] at h1
    simp [clauseTrue, litTrue_neg_lit hX, hx.2] at h1
  | some w =>
    rw [hf] at h1
    by_cases hh : Y.has w = true
    · simp only [hh, if_true, clauseTrue, List.any_cons, List.any_nil, Bool.or_false,
        litTrue_neg_lit hX, litTrue_lit hY, hx.2, Bool.not_true, Bool.false_or] at h1
      have hw := EVar.has_iff.1 hh
      rw [(hy.2 w hw.1 hw.2).1 h1]
    · simp [hh, clauseTrue, litTrue_neg_lit hX, hx.2] at h1

/-- list-wise `Rep` -/
def RepL (β : Nat → Bool) : List EVar → List Int → Prop
  | [], [] => True
  | V :: Vs, x :: xs => Rep β V x ∧ RepL β Vs xs
  | _, _ => False

theorem RepL.of_agree {β β' : Nat → Bool} {n : Nat} (hag : AgreeBelow n β β') :
    ∀ {Vs : List EVar} {xs : List Int}, RepL β Vs xs → (∀ V ∈ Vs, V.Below n) → RepL β' Vs xs
  | [], [], _, _ => trivial
  | V :: Vs, x :: xs, h, hb =>
    ⟨h.1.of_agree (hb V List.mem_cons_self) hag,
     RepL.of_agree hag h.2 fun W hW => hb W (List.mem_cons_of_mem _ hW)⟩
  | [], _ :: _, h, _ => h.elim
  | _ :: _, [], h, _ => h.elim

theorem AgreeBelow.trans {n m : Nat} {β₀ β₁ β₂ : Nat → Bool} (h1 : AgreeBelow n β₀ β₁)
    (h2 : AgreeBelow m β₁ β₂) (hnm : n ≤ m) : AgreeBelow n β₀ β₂ :=
  fun k hk => by rw [h2 k (by omega), h1 k hk]

theorem AgreeBelow.mono {n m : Nat} {β₀ β₁ : Nat → Bool} (h : AgreeBelow m β₀ β₁) (hnm : n ≤ m) :
    AgreeBelow n β₀ β₁ := fun k hk => h k (by omega)

theorem AgreeBelow.refl (n : Nat) (β : Nat → Bool) : AgreeBelow n β β := fun _ _ => rfl

theorem mkAux_below (lb ub : Int) (nx : Nat) (h : 0 < nx) : (mkAux lb ub nx).Below (nx + (mkAux lb ub nx).size) :=
  ⟨h, Nat.le_refl _⟩

theorem EVar.Below.mono {V : EVar} {n m : Nat} (h : V.Below n) (hnm : n ≤ m) : V.Below m :=
  ⟨h.1, by have := h.2; omega⟩

/-- the auxiliary clauses (exactly-one) hold once the variable encodes a value -/
theorem auxClauses_of_rep {β : Nat → Bool} {P : EVar} {p : Int} (hP : 0 < P.base) (h : Rep β P p) :
    cnfTrue β (auxClauses P) = true :=
  (exactlyOne_iff hP (by have := h.1; omega)).2 ⟨p, h⟩

/-! ### sum_eq -/

theorem encSumEqChain_mono : ∀ (rest : List EVar) (X Y : EVar) (t : Int) (nx : Nat),
    nx ≤ (encSumEqChain X Y rest t nx).2
  | [], _, _, _, _ => Nat.le_refl _
  | Z :: rest, X, Y, t, nx => by
    simp only [encSumEqChain]
    have := encSumEqChain_mono rest (mkAux (X.lb + Y.lb) (X.ub + Y.ub) nx) Z t
      (nx + (mkAux (X.lb + Y.lb) (X.ub + Y.ub) nx).size)
    omega

theorem encSumEqChain_sound {β : Nat → Bool} : ∀ (rest : List EVar) (ys : List Int) (X Y : EVar)
    (x y t : Int) (nx : Nat), 0 < X.base → 0 < Y.base → (∀ Z ∈ rest, 0 < Z.base) → 0 < nx →
    Marks β X x → Rep β Y y → RepL β rest ys →
    cnfTrue β (encSumEqChain X Y rest t nx).1 = true → x + y + ys.sum = t
  | [], [], X, Y, x, y, t, nx, hX, hY, _, _, hx, hy, _, h => by
    simp only [encSumEqChain] at h
    have := imply2_sound hX hY hx hy h
    simp only [Option.some.injEq] at this
    simp; omega
  | Z :: rest, z :: ys, X, Y, x, y, t, nx, hX, hY, hR, hnx, hx, hy, hr, h => by
    simp only [encSumEqChain, cnfTrue_append_iff] at h
    obtain ⟨⟨_, hl⟩, hrec⟩ := h
    have hP : 0 < (mkAux (X.lb + Y.lb) (X.ub + Y.ub) nx).base := hnx
    have hin : (mkAux (X.lb + Y.lb) (X.ub + Y.ub) nx).has (x + y) = true := by
      apply EVar.has_iff.2
      have := hx.1; have := hy.1
      simp only [mkAux]; omega
    have hm := (link_sound hX hY hP hx hy.marks hl).1 hin
    have := encSumEqChain_sound rest ys _ Z (x + y) z t _ hP (hR Z List.mem_cons_self)
      (fun W hW => hR W (List.mem_cons_of_mem _ hW)) (by omega) hm hr.1 hr.2 hrec
    simp only [List.sum_cons]; omega
  | [], _ :: _, _, _, _, _, _, _, _, _, _, _, _, _, hr, _ => hr.elim
  | _ :: _, [], _, _, _, _, _, _, _, _, _, _, _, _, hr, _ => hr.elim

theorem encSumEqChain_complete : ∀ (rest : List EVar) (ys : List Int) (β : Nat → Bool) (X Y : EVar)
    (x y t : Int) (nx : Nat), X.Below nx → Y.Below nx → (∀ Z ∈ rest, Z.Below nx) → 0 < nx →
    Rep β X x → Rep β Y y → RepL β rest ys → x + y + ys.sum = t →
    ∃ β₁, AgreeBelow nx β β₁ ∧
      ∀ β₂, AgreeBelow (encSumEqChain X Y rest t nx).2 β₁ β₂ →
        cnfTrue β₂ (encSumEqChain X Y rest t nx).1 = true
  | [], [], β, X, Y, x, y, t, nx, hX, hY, _, _, hx, hy, _, hsum => by
    refine ⟨β, AgreeBelow.refl _ _, fun β₂ hag => ?_⟩
    simp only [encSumEqChain] at hag ⊢
    rw [imply2_iff hX.1 hY.1 (hx.of_agree hX hag) (hy.of_agree hY hag)]
    simp at hsum; simp; omega
  | Z :: rest, z :: ys, β, X, Y, x, y, t, nx, hX, hY, hR, hnx, hx, hy, hr, hsum => by
    let P := mkAux (X.lb + Y.lb) (X.ub + Y.ub) nx
    have hPb : P.Below (nx + P.size) := mkAux_below _ _ _ hnx
    have hin : P.lb ≤ x + y ∧ x + y ≤ P.ub := by
      have := hx.1; have := hy.1
      simp only [P, mkAux]; omega
    let βa := setVar β P (x + y)
    have haga : AgreeBelow nx β βa := setVar_agree_below (P := P)
    have hle : nx ≤ nx + P.size := Nat.le_add_right _ _
    obtain ⟨β₁, hag1, hst⟩ := encSumEqChain_complete rest ys βa P Z (x + y) z t (nx + P.size) hPb
      ((hR Z List.mem_cons_self).mono hle)
      (fun W hW => (hR W (List.mem_cons_of_mem _ hW)).mono hle) (by omega)
      (setVar_rep hin) (hr.1.of_agree (hR Z List.mem_cons_self) haga)
      (RepL.of_agree haga hr.2 fun W hW => hR W (List.mem_cons_of_mem _ hW))
      (by simp only [List.sum_cons] at hsum; omega)
    refine ⟨β₁, haga.trans hag1 hle, fun β₂ hag2 => ?_⟩
    have hmono := encSumEqChain_mono rest P Z t (nx + P.size)
    simp only [encSumEqChain] at hag2 ⊢
    have hagP : AgreeBelow (nx + P.size) βa β₂ := hag1.trans hag2 hmono
    have hag0 : AgreeBelow nx β β₂ := haga.trans hagP hle
    have hx2 := hx.of_agree hX hag0
    have hy2 := hy.of_agree hY hag0
    have hp2 : Rep β₂ P (x + y) := (setVar_rep hin).of_agree hPb hagP
    rw [cnfTrue_append_iff, cnfTrue_append_iff]
    exact ⟨⟨auxClauses_of_rep hPb.1 hp2, link_complete hX.1 hY.1 hPb.1 hx2 hy2 hp2⟩, hst β₂ hag2⟩
  | [], _ :: _, _, _, _, _, _, _, _, _, _, _, _, _, _, hr, _ => hr.elim
  | _ :: _, [], _, _, _, _, _, _, _, _, _, _, _, _, _, hr, _ => hr.elim

/-! ### sum_le / sum_ge -/

theorem RepL.sum_bounds {β : Nat → Bool} : ∀ {Vs : List EVar} {xs : List Int}, RepL β Vs xs →
    sumLb Vs ≤ xs.sum ∧ xs.sum ≤ sumUb Vs
  | [], [], _ => by simp [sumLb, sumUb]
  | V :: Vs, x :: xs, h => by
    have := RepL.sum_bounds h.2
    have := h.1.1
    simp only [sumLb, sumUb, List.map_cons, List.sum_cons] at *
    omega
  | [], _ :: _, h => h.elim
  | _ :: _, [], h => h.elim

theorem encSumLeChain_mono : ∀ (rest : List EVar) (X Y : EVar) (t : Int) (nx : Nat),
    nx ≤ (encSumLeChain X Y rest t nx).2
  | [], _, _, _, _ => Nat.le_refl _
  | Z :: rest, X, Y, t, nx => by
    simp only [encSumLeChain]
    have := encSumLeChain_mono rest (mkAux (X.lb + Y.lb) (min (X.ub + Y.ub) (t - sumLb (Z :: rest))) nx) Z t
      (nx + (mkAux (X.lb + Y.lb) (min (X.ub + Y.ub) (t - sumLb (Z :: rest))) nx).size)
    omega

theorem encSumLeChain_sound {β : Nat → Bool} : ∀ (rest : List EVar) (ys : List Int) (X Y : EVar)
    (x y t : Int) (nx : Nat), 0 < X.base → 0 < Y.base → (∀ Z ∈ rest, 0 < Z.base) → 0 < nx →
    Marks β X x → Rep β Y y → RepL β rest ys →
    cnfTrue β (encSumLeChain X Y rest t nx).1 = true → x + y + ys.sum ≤ t
  | [], [], X, Y, x, y, t, nx, hX, hY, _, _, hx, hy, _, h => by
    simp only [encSumLeChain] at h
    have := forbid2_sound hX hY hx hy.marks h
    simp at this
    simp; omega
  | Z :: rest, z :: ys, X, Y, x, y, t, nx, hX, hY, hR, hnx, hx, hy, hr, h => by
    simp only [encSumLeChain, cnfTrue_append_iff] at h
    obtain ⟨⟨_, hl⟩, hrec⟩ := h
    have hP : 0 < (mkAux (X.lb + Y.lb) (min (X.ub + Y.ub) (t - sumLb (Z :: rest))) nx).base := hnx
    have hls := link_sound hX hY hP hx hy.marks hl
    have hm := hls.1 (hls.2 rfl)
    have := encSumLeChain_sound rest ys _ Z (x + y) z t _ hP (hR Z List.mem_cons_self)
      (fun W hW => hR W (List.mem_cons_of_mem _ hW)) (by omega) hm hr.1 hr.2 hrec
    simp only [List.sum_cons]; omega
  | [], _ :: _, _, _, _, _, _, _, _, _, _, _, _, _, hr, _ => hr.elim
  | _ :: _, [], _, _, _, _, _, _, _, _, _, _, _, _, hr, _ => hr.elim

theorem encSumLeChain_complete : ∀ (rest : List EVar) (ys : List Int) (β : Nat → Bool) (X Y : EVar)
    (x y t : Int) (nx : Nat), X.Below nx → Y.Below nx → (∀ Z ∈ rest, Z.Below nx) → 0 < nx →
    Rep β X x → Rep β Y y → RepL β rest ys → x + y + ys.sum ≤ t →
    ∃ β₁, AgreeBelow nx β β₁ ∧
      ∀ β₂, AgreeBelow (encSumLeChain X Y rest t nx).2 β₁ β₂ →
        cnfTrue β₂ (encSumLeChain X Y rest t nx).1 = true
  | [], [], β, X, Y, x, y, t, nx, hX, hY, _, _, hx, hy, _, hsum => by
    refine ⟨β, AgreeBelow.refl _ _, fun β₂ hag => ?_⟩
    simp only [encSumLeChain] at hag ⊢
    rw [forbid2_iff hX.1 hY.1 (hx.of_agree hX hag) (hy.of_agree hY hag)]
    simp at hsum; simp; omega
  | Z :: rest, z :: ys, β, X, Y, x, y, t, nx, hX, hY, hR, hnx, hx, hy, hr, hsum => by
    let P := mkAux (X.lb + Y.lb) (min (X.ub + Y.ub) (t - sumLb (Z :: rest))) nx
    have hPb : P.Below (nx + P.size) := mkAux_below _ _ _ hnx
    have hb := RepL.sum_bounds hr
    have hin : P.lb ≤ x + y ∧ x + y ≤ P.ub := by
      have := hx.1; have := hy.1
      simp only [List.sum_cons] at hsum hb
      simp only [P, mkAux]; omega
    let βa := setVar β P (x + y)
    have haga : AgreeBelow nx β βa := setVar_agree_below (P := P)
    have hle : nx ≤ nx + P.size := Nat.le_add_right _ _
    obtain ⟨β₁, hag1, hst⟩ := encSumLeChain_complete rest ys βa P Z (x + y) z t (nx + P.size) hPb
      ((hR Z List.mem_cons_self).mono hle)
      (fun W hW => (hR W (List.mem_cons_of_mem _ hW)).mono hle) (by omega)
      (setVar_rep hin) (hr.1.of_agree (hR Z List.mem_cons_self) haga)
      (RepL.of_agree haga hr.2 fun W hW => hR W (List.mem_cons_of_mem _ hW))
      (by simp only [List.sum_cons] at hsum; omega)
    refine ⟨β₁, haga.trans hag1 hle, fun β₂ hag2 => ?_⟩
    have hmono := encSumLeChain_mono rest P Z t (nx + P.size)
    simp only [encSumLeChain] at hag2 ⊢
    have hagP : AgreeBelow (nx + P.size) βa β₂ := hag1.trans hag2 hmono
    have hag0 : AgreeBelow nx β β₂ := haga.trans hagP hle
    have hx2 := hx.of_agree hX hag0
    have hy2 := hy.of_agree hY hag0
    have hp2 : Rep β₂ P (x + y) := (setVar_rep hin).of_agree hPb hagP
    rw [cnfTrue_append_iff, cnfTrue_append_iff]
    exact ⟨⟨auxClauses_of_rep hPb.1 hp2, link_complete hX.1 hY.1 hPb.1 hx2 hy2 hp2⟩, hst β₂ hag2⟩
  | [], _ :: _, _, _, _, _, _, _, _, _, _, _, _, _, _, hr, _ => hr.elim
  | _ :: _, [], _, _, _, _, _, _, _, _, _, _, _, _, _, hr, _ => hr.elim

theorem encSumGeChain_mono : ∀ (rest : List EVar) (X Y : EVar) (t : Int) (nx : Nat),
    nx ≤ (encSumGeChain X Y rest t nx).2
  | [], _, _, _, _ => Nat.le_refl _
  | Z :: rest, X, Y, t, nx => by
    simp only [encSumGeChain]
    have := encSumGeChain_mono rest (mkAux (max (X.lb + Y.lb) (t - sumUb (Z :: rest))) (X.ub + Y.ub) nx) Z t
      (nx + (mkAux (max (X.lb + Y.lb) (t - sumUb (Z :: rest))) (X.ub + Y.ub) nx).size)
    omega

theorem encSumGeChain_sound {β : Nat → Bool} : ∀ (rest : List EVar) (ys : List Int) (X Y : EVar)
    (x y t : Int) (nx : Nat), 0 < X.base → 0 < Y.base → (∀ Z ∈ rest, 0 < Z.base) → 0 < nx →
    Marks β X x → Rep β Y y → RepL β rest ys →
    cnfTrue β (encSumGeChain X Y rest t nx).1 = true → x + y + ys.sum ≥ t
  | [], [], X, Y, x, y, t, nx, hX, hY, _, _, hx, hy, _, h => by
    simp only [encSumGeChain] at h
    have := forbid2_sound hX hY hx hy.marks h
    simp at this
    simp; omega
  | Z :: rest, z :: ys, X, Y, x, y, t, nx, hX, hY, hR, hnx, hx, hy, hr, h => by
    simp only [encSumGeChain, cnfTrue_append_iff] at h
    obtain ⟨⟨_, hl⟩, hrec⟩ := h
    have hP : 0 < (mkAux (max (X.lb + Y.lb) (t - sumUb (Z :: rest))) (X.ub + Y.ub) nx).base := hnx
    have hls := link_sound hX hY hP hx hy.marks hl
    have hm := hls.1 (hls.2 rfl)
    have := encSumGeChain_sound rest ys _ Z (x + y) z t _ hP (hR Z List.mem_cons_self)
      (fun W hW => hR W (List.mem_cons_of_mem _ hW)) (by omega) hm hr.1 hr.2 hrec
    simp only [List.sum_cons]; omega
  | [], _ :: _, _, _, _, _, _, _, _, _, _, _, _, _, hr, _ => hr.elim
  | _ :: _, [], _, _, _, _, _, _, _, _, _, _, _, _, hr, _ => hr.elim

theorem encSumGeChain_complete : ∀ (rest : List EVar) (ys : List Int) (β : Nat → Bool) (X Y : EVar)
    (x y t : Int) (nx : Nat), X.Below nx → Y.Below nx → (∀ Z ∈ rest, Z.Below nx) → 0 < nx →
    Rep β X x → Rep β Y y → RepL β rest ys → x + y + ys.sum ≥ t →
    ∃ β₁, AgreeBelow nx β β₁ ∧
      ∀ β₂, AgreeBelow (encSumGeChain X Y rest t nx).2 β₁ β₂ →
        cnfTrue β₂ (encSumGeChain X Y rest t nx).1 = true
  | [], [], β, X, Y, x, y, t, nx, hX, hY, _, _, hx, hy, _, hsum => by
    refine ⟨β, AgreeBelow.refl _ _, fun β₂ hag => ?_⟩
    simp only [encSumGeChain] at hag ⊢
    rw [forbid2_iff hX.1 hY.1 (hx.of_agree hX hag) (hy.of_agree hY hag)]
    simp at hsum; simp; omega
  | Z :: rest, z :: ys, β, X, Y, x, y, t, nx, hX, hY, hR, hnx, hx, hy, hr, hsum => by
    let P := mkAux (max (X.lb + Y.lb) (t - sumUb (Z :: rest))) (X.ub + Y.ub) nx
    have hPb : P.Below (nx + P.size) := mkAux_below _ _ _ hnx
    have hb := RepL.sum_bounds hr
    have hin : P.lb ≤ x + y ∧ x + y ≤ P.ub := by
      have := hx.1; have := hy.1
      simp only [List.sum_cons] at hsum hb
      simp only [P, mkAux]; omega
    let βa := setVar β P (x + y)
    have haga : AgreeBelow nx β βa := setVar_agree_below (P := P)
    have hle : nx ≤ nx + P.size := Nat.le_add_right _ _
    obtain ⟨β₁, hag1, hst⟩ := encSumGeChain_complete rest ys βa P Z (x + y) z t (nx + P.size) hPb
      ((hR Z List.mem_cons_self).mono hle)
      (fun W hW => (hR W (List.mem_cons_of_mem _ hW)).mono hle) (by omega)
      (setVar_rep hin) (hr.1.of_agree (hR Z List.mem_cons_self) haga)
      (RepL.of_agree haga hr.2 fun W hW => hR W (List.mem_cons_of_mem _ hW))
      (by simp only [List.sum_cons] at hsum; omega)
    refine ⟨β₁, haga.trans hag1 hle, fun β₂ hag2 => ?_⟩
    have hmono := encSumGeChain_mono rest P Z t (nx + P.size)
    simp only [encSumGeChain] at hag2 ⊢
    have hagP : AgreeBelow (nx + P.size) βa β₂ := hag1.trans hag2 hmono
    have hag0 : AgreeBelow nx β β₂ := haga.trans hagP hle
    have hx2 := hx.of_agree hX hag0
    have hy2 := hy.of_agree hY hag0
    have hp2 : Rep β₂ P (x + y) := (setVar_rep hin).of_agree hPb hagP
    rw [cnfTrue_append_iff, cnfTrue_append_iff]
    exact ⟨⟨auxClauses_of_rep hPb.1 hp2, link_complete hX.1 hY.1 hPb.1 hx2 hy2 hp2⟩, hst β₂ hag2⟩
  | [], _ :: _, _, _, _, _, _, _, _, _, _, _, _, _, _, hr, _ => hr.elim
  | _ :: _, [], _, _, _, _, _, _, _, _, _, _, _, _, _, hr, _ => hr.elim

/-! ### linear relations -/

/-- `s ≠ 0` or `s = 0` -/
def relHolds (isNe : Bool) (s : Int) : Prop := if isNe then s ≠ 0 else s = 0

def dot (ts : List (EVar × Int)) (zs : List Int) : Int := (List.zipWith (fun p z => p.2 * z) ts zs).sum

theorem scaled_bounds {X : EVar} {a x : Int} (h : X.lb ≤ x ∧ x ≤ X.ub) :
    scaledLo X a ≤ a * x ∧ a * x ≤ scaledHi X a := by
  unfold scaledLo scaledHi
  rcases le_total 0 a with ha | ha
  · have h1 : a * X.lb ≤ a * x := by nlinarith [h.1]
    have h2 : a * x ≤ a * X.ub := by nlinarith [h.2]
    exact ⟨le_trans (min_le_left _ _) h1, le_trans h2 (le_max_right _ _)⟩
  · have h1 : a * X.ub ≤ a * x := by nlinarith [h.2]
    have h2 : a * x ≤ a * X.lb := by nlinarith [h.1]
    exact ⟨le_trans (min_le_right _ _) h1, le_trans h2 (le_max_left _ _)⟩

theorem solve_iff {a b c x y : Int} (hb : b ≠ 0) :
    (if (-(a * x + c)) % b == 0 then some ((-(a * x + c)) / b) else none) = some y ↔
      a * x + b * y + c = 0 := by
  constructor
  · intro h
    by_cases hm : (-(a * x + c)) % b = 0
    · have hd : b ∣ -(a * x + c) := Int.dvd_of_emod_eq_zero hm
      simp only [hm, beq_self_eq_true, if_true, Option.some.injEq] at h
      have := Int.mul_ediv_cancel' hd
      rw [h] at this; linarith
    · have : ((-(a * x + c)) % b == 0) = false := by simpa using hm
      rw [this] at h; simp at h
  · intro h
    have hn : -(a * x + c) = b * y := by linarith
    rw [hn, Int.mul_emod_right, Int.mul_ediv_cancel_left _ hb]
    simp

theorem encLinear2_sound {β : Nat → Bool} {X Y : EVar} {a b const x y : Int} {isNe : Bool}
    (hX : 0 < X.base) (hY : 0 < Y.base) (hb : b ≠ 0) (hx : Marks β X x) (hy : Rep β Y y)
    (h : cnfTrue β (encLinear2 X a Y b const isNe) = true) :
    relHolds isNe (a * x + b * y + const) := by
  unfold encLinear2 at h
  unfold relHolds
  cases isNe
  · simp only [Bool.false_eq_true, if_false] at h ⊢
    exact (solve_iff hb).1 (imply2_sound hX hY hx hy h)
  · simp only [if_true] at h ⊢
    have := forbid2_sound hX hY hx hy.marks h
    simpa using this

theorem encLinear2_iff {β : Nat → Bool} {X Y : EVar} {a b const x y : Int} {isNe : Bool}
    (hX : 0 < X.base) (hY : 0 < Y.base) (hb : b ≠ 0) (hx : Rep β X x) (hy : Rep β Y y) :
    cnfTrue β (encLinear2 X a Y b const isNe) = true ↔ relHolds isNe (a * x + b * y + const) := by
  unfold encLinear2 relHolds
  cases isNe
  · simp only [Bool.false_eq_true, if_false]
    rw [imply2_iff hX hY hx hy]; exact solve_iff hb
  · simp only [if_true]
    rw [forbid2_iff hX hY hx hy]; simp

theorem encLinearChain_mono : ∀ (rest : List (EVar × Int)) (X : EVar) (a : Int) (Y : EVar) (b const : Int)
    (isNe : Bool) (nx : Nat), nx ≤ (encLinearChain X a Y b rest const isNe nx).2
  | [], _, _, _, _, _, _, _ => Nat.le_refl _
  | (Z, c) :: rest, X, a, Y, b, const, isNe, nx => by
    simp only [encLinearChain]
    have := encLinearChain_mono rest (mkAux (scaledLo X a + scaledLo Y b) (scaledHi X a + scaledHi Y b) nx)
      1 Z c const isNe (nx + (mkAux (scaledLo X a + scaledLo Y b) (scaledHi X a + scaledHi Y b) nx).size)
    omega

theorem encLinearChain_sound {β : Nat → Bool} : ∀ (rest : List (EVar × Int)) (zs : List Int)
    (X : EVar) (a : Int) (Y : EVar) (b x y const : Int) (isNe : Bool) (nx : Nat),
    0 < X.base → 0 < Y.base → (∀ p ∈ rest, 0 < p.1.base) → 0 < nx → b ≠ 0 → (∀ p ∈ rest, p.2 ≠ 0) →
    Marks β X x → Rep β Y y → RepL β (rest.map (·.1)) zs →
    cnfTrue β (encLinearChain X a Y b rest const isNe nx).1 = true →
    relHolds isNe (a * x + b * y + dot rest zs + const)
  | [], [], X, a, Y, b, x, y, const, isNe, nx, hX, hY, _, _, hb, _, hx, hy, _, h => by
    simp only [encLinearChain] at h
    have := encLinear2_sound hX hY hb hx hy h
    simpa [dot] using this
  | (Z, c) :: rest, z :: zs, X, a, Y, b, x, y, const, isNe, nx, hX, hY, hR, hnx, hb, hc, hx, hy, hr, h => by
    simp only [encLinearChain, cnfTrue_append_iff] at h
    obtain ⟨⟨_, hl⟩, hrec⟩ := h
    have hP : 0 < (mkAux (scaledLo X a + scaledLo Y b) (scaledHi X a + scaledHi Y b) nx).base := hnx
    have hin : (mkAux (scaledLo X a + scaledLo Y b) (scaledHi X a + scaledHi Y b) nx).has (a * x + b * y) = true := by
      apply EVar.has_iff.2
      have h1 := scaled_bounds (a := a) hx.1
      have h2 := scaled_bounds (a := b) hy.1
      simp only [mkAux]; omega
    have hm := (link_sound hX hY hP hx hy.marks hl).1 hin
    simp only [List.map_cons] at hr
    have := encLinearChain_sound rest zs _ 1 Z c (a * x + b * y) z const isNe _ hP
      (hR (Z, c) List.mem_cons_self) (fun W hW => hR W (List.mem_cons_of_mem _ hW)) (by omega)
      (hc (Z, c) List.mem_cons_self) (fun W hW => hc W (List.mem_cons_of_mem _ hW)) hm hr.1 hr.2 hrec
    have e : a * x + b * y + dot ((Z, c) :: rest) (z :: zs) + const
        = 1 * (a * x + b * y) + c * z + dot rest zs + const := by
      simp only [dot, List.zipWith_cons_cons, List.sum_cons]; ring
    rw [e]; exact this
  | [], _ :: _, _, _, _, _, _, _, _, _, _, _, _, _, _, _, _, _, _, hr, _ => hr.elim
  | _ :: _, [], _, _, _, _, _, _, _, _, _, _, _, _, _, _, _, _, _, hr, _ => hr.elim

theorem encLinearChain_complete : ∀ (rest : List (EVar × Int)) (zs : List Int) (β : Nat → Bool)
    (X : EVar) (a : Int) (Y : EVar) (b x y const : Int) (isNe : Bool) (nx : Nat),
    X.Below nx → Y.Below nx → (∀ p ∈ rest, p.1.Below nx) → 0 < nx → b ≠ 0 → (∀ p ∈ rest, p.2 ≠ 0) →
    Rep β X x → Rep β Y y → RepL β (rest.map (·.1)) zs →
    relHolds isNe (a * x + b * y + dot rest zs + const) →
    ∃ β₁, AgreeBelow nx β β₁ ∧
      ∀ β₂, AgreeBelow (encLinearChain X a Y b rest const isNe nx).2 β₁ β₂ →
        cnfTrue β₂ (encLinearChain X a Y b rest const isNe nx).1 = true
  | [], [], β, X, a, Y, b, x, y, const, isNe, nx, hX, hY, _, _, hb, _, hx, hy, _, hrel => by
    refine ⟨β, AgreeBelow.refl _ _, fun β₂ hag => ?_⟩
    simp only [encLinearChain] at hag ⊢
    rw [encLinear2_iff hX.1 hY.1 hb (hx.of_agree hX hag) (hy.of_agree hY hag)]
    simpa [dot] using hrel
  | (Z, c) :: rest, z :: zs, β, X, a, Y, b, x, y, const, isNe, nx, hX, hY, hR, hnx, hb, hc, hx, hy, hr, hrel => by
    let P := mkAux (scaledLo X a + scaledLo Y b) (scaledHi X a + scaledHi Y b) nx
    have hPb : P.Below (nx + P.size) := mkAux_below _ _ _ hnx
    have hin : P.lb ≤ a * x + b * y ∧ a * x + b * y ≤ P.ub := by
      have h1 := scaled_bounds (a := a) hx.1
      have h2 := scaled_bounds (a := b) hy.1
      simp only [P, mkAux]; omega
    let βa := setVar β P (a * x + b * y)
    have haga : AgreeBelow nx β βa := setVar_agree_below (P := P)
    have hle : nx ≤ nx + P.size := Nat.le_add_right _ _
    simp only [List.map_cons] at hr
    have e : a * x + b * y + dot ((Z, c) :: rest) (z :: zs) + const
        = 1 * (a * x + b * y) + c * z + dot rest zs + const := by
      simp only [dot, List.zipWith_cons_cons, List.sum_cons]; ring
    obtain ⟨β₁, hag1, hst⟩ := encLinearChain_complete rest zs βa P 1 Z c (a * x + b * y) z const isNe
      (nx + P.size) hPb ((hR (Z, c) List.mem_cons_self).mono hle)
      (fun W hW => (hR W (List.mem_cons_of_mem _ hW)).mono hle) (by omega)
      (hc (Z, c) List.mem_cons_self) (fun W hW => hc W (List.mem_cons_of_mem _ hW))
      (setVar_rep hin) (hr.1.of_agree (hR (Z, c) List.mem_cons_self) haga)
      (RepL.of_agree haga hr.2 fun W hW => by
        obtain ⟨q, hq, rfl⟩ := List.mem_map.1 hW
        exact hR q (List.mem_cons_of_mem _ hq))
      (by rw [← e]; exact hrel)
    refine ⟨β₁, haga.trans hag1 hle, fun β₂ hag2 => ?_⟩
    have hmono := encLinearChain_mono rest P 1 Z c const isNe (nx + P.size)
    simp only [encLinearChain] at hag2 ⊢
    have hagP : AgreeBelow (nx + P.size) βa β₂ := hag1.trans hag2 hmono
    have hag0 : AgreeBelow nx β β₂ := haga.trans hagP hle
    have hx2 := hx.of_agree hX hag0
    have hy2 := hy.of_agree hY hag0
    have hp2 : Rep β₂ P (a * x + b * y) := (setVar_rep hin).of_agree hPb hagP
    rw [cnfTrue_append_iff, cnfTrue_append_iff]
    exact ⟨⟨auxClauses_of_rep hPb.1 hp2, link_complete hX.1 hY.1 hPb.1 hx2 hy2 hp2⟩, hst β₂ hag2⟩
  | [], _ :: _, _, _, _, _, _, _, _, _, _, _, _, _, _, _, _, _, _, _, hr, _ => hr.elim
  | _ :: _, [], _, _, _, _, _, _, _, _, _, _, _, _, _, _, _, _, _, _, hr, _ => hr.elim

end Solvor.Cp
