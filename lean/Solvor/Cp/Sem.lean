import Solvor.Cp.Syntax
/-! Cp.Sem: the denotation of every constraint kind (`Holds`, the spec), its verified Bool
evaluator `check` (`check_iff`), and the exhaustive solution enumerator `solutions`
(`mem_solutions`). No Mathlib. -/
namespace Solvor.Cp

/-- An assignment: value of variable `i` at position `i`. -/
abbrev Asg := List Int

def val (a : Asg) (i : Nat) : Int := a.getD i 0

def Expr.eval (a : Asg) : Expr → Int
  | .var i => val a i
  | .const c => c
  | .add x y => x.eval a + y.eval a
  | .sub x y => x.eval a - y.eval a
  | .rsub x c => c - x.eval a
  | .mul x c => x.eval a * c

/-- `lb..ub` inclusive, ascending. -/
def irange (lb ub : Int) : List Int := (List.range (ub + 1 - lb).toNat).map fun (k : Nat) => lb + (k : Int)

theorem mem_irange {lb ub x : Int} : x ∈ irange lb ub ↔ lb ≤ x ∧ x ≤ ub := by
  simp only [irange, List.mem_map, List.mem_range]
  constructor
  · rintro ⟨k, hk, rfl⟩; omega
  · rintro ⟨h1, h2⟩; exact ⟨(x - lb).toNat, by omega, by omega⟩

/-- `k`-th successor of node `cur` when node `i` points to `xs[i]`. -/
def iter (xs : List Int) : Nat → Int → Int
  | 0, cur => cur
  | k + 1, cur => iter xs k (xs.getD cur.toNat 0)

/-- Tasks of a cumulative constraint: `(start variable, duration, demand)`. -/
def tasks (ss : List Nat) (ds dm : List Int) : List (Nat × Int × Int) := ss.zip (ds.zip dm)

/-- Total demand of the tasks running at time `t` (`start ≤ t < start + duration`). -/
def load (a : Asg) (ts : List (Nat × Int × Int)) (t : Int) : Int :=
  (ts.map fun (s, d, dem) => if val a s ≤ t ∧ t < val a s + d then dem else 0).sum

/-- **The spec**: what it means for an assignment to satisfy a constraint. -/
def Holds (a : Asg) : Con → Prop
  | .allDiff vs => (vs.map (val a)).Nodup
  | .eqConst v c => val a v = c
  | .neConst v c => val a v ≠ c
  | .eqVar x y => val a x = val a y
  | .neVar x y => val a x ≠ val a y
  | .rel l r isNe => if isNe then l.eval a ≠ r.eval a else l.eval a = r.eval a
  | .sumEq vs t => (vs.map (val a)).sum = t
  | .sumLe vs t => (vs.map (val a)).sum ≤ t
  | .sumGe vs t => (vs.map (val a)).sum ≥ t
  | .circuit vs =>
    -- successors are node indices, no self loop, and following the successors from node 0
    -- visits `n` distinct nodes and returns to 0: one Hamiltonian cycle
    let xs := vs.map (val a)
    let n := vs.length
    (∀ x ∈ xs, 0 ≤ x ∧ x < n) ∧ (∀ i, i < n → xs.getD i 0 ≠ i) ∧
      ((List.range n).map fun k => iter xs k 0).Nodup ∧ iter xs n 0 = 0
  | .noOverlap ss ds =>
    (ss.zip ds).Pairwise fun p q => val a p.1 + p.2 ≤ val a q.1 ∨ val a q.1 + q.2 ≤ val a p.1
  | .cumulative ss ds dm cap => ∀ t : Int, load a (tasks ss ds dm) t ≤ cap

/-! ### decidability of the cumulative clause: only times inside some task matter -/

theorem load_eq_zero {a : Asg} {ts : List (Nat × Int × Int)} {t : Int}
    (h : ∀ p ∈ ts, ¬ (val a p.1 ≤ t ∧ t < val a p.1 + p.2.1)) : load a ts t = 0 := by
  induction ts with
  | nil => rfl
  | cons p ts ih =>
    obtain ⟨s, d, dem⟩ := p
    have h1 := h (s, d, dem) List.mem_cons_self
    have h2 := ih fun q hq => h q (List.mem_cons_of_mem _ hq)
    simp only [load, List.map_cons, List.sum_cons] at h2 ⊢
    simp only [h1, if_false, h2]; rfl

/-- Bounded form of the cumulative clause. -/
def cumBounded (a : Asg) (ts : List (Nat × Int × Int)) (cap : Int) : Prop :=
  0 ≤ cap ∧ ∀ p ∈ ts, ∀ t ∈ irange (val a p.1) (val a p.1 + p.2.1 - 1), load a ts t ≤ cap

theorem cumulative_iff_bounded (a : Asg) (ts : List (Nat × Int × Int)) (cap : Int) :
    (∀ t : Int, load a ts t ≤ cap) ↔ cumBounded a ts cap := by
  constructor
  · intro h
    refine ⟨?_, fun p _ t _ => h t⟩
    -- a time before every task: nothing runs
    let t0 : Int := (ts.map fun p => val a p.1).foldl min 0 - 1
    have hlow : ∀ (l : List Int) (z : Int), l.foldl min z ≤ z ∧ ∀ x ∈ l, l.foldl min z ≤ x := by
      intro l
      induction l with
      | nil => intro z; simp
      | cons y l ih =>
        intro z
        have := ih (min z y)
        simp only [List.foldl_cons, List.mem_cons, forall_eq_or_imp]
        refine ⟨by omega, by omega, this.2⟩
    have : load a ts t0 = 0 := by
      apply load_eq_zero
      intro p hp hact
      have := (hlow (ts.map fun p => val a p.1) 0).2 (val a p.1) (List.mem_map.2 ⟨p, hp, rfl⟩)
      omega
    have := h t0; omega
  · rintro ⟨h0, h⟩ t
    by_cases hex : ∃ p ∈ ts, val a p.1 ≤ t ∧ t < val a p.1 + p.2.1
    · obtain ⟨p, hp, hact⟩ := hex
      exact h p hp t (mem_irange.2 ⟨hact.1, by omega⟩)
    · rw [load_eq_zero (by intro p hp hact; exact hex ⟨p, hp, hact⟩)]; exact h0

instance (a : Asg) (ts : List (Nat × Int × Int)) (cap : Int) : Decidable (cumBounded a ts cap) := by
  unfold cumBounded; infer_instance

instance instDecidableHolds (a : Asg) : (c : Con) → Decidable (Holds a c)
  | .allDiff vs => inferInstanceAs (Decidable ((vs.map (val a)).Nodup))
  | .eqConst .. | .neConst .. | .eqVar .. | .neVar .. => by unfold Holds; infer_instance
  | .rel l r isNe => by unfold Holds; infer_instance
  | .sumEq .. | .sumLe .. | .sumGe .. => by unfold Holds; infer_instance
  | .circuit vs => by unfold Holds; infer_instance
  | .noOverlap ss ds => by unfold Holds; infer_instance
  | .cumulative ss ds dm cap => decidable_of_iff _ (cumulative_iff_bounded a (tasks ss ds dm) cap).symm

/-- The verified evaluator. -/
def check (a : Asg) (c : Con) : Bool := decide (Holds a c)

theorem check_iff (a : Asg) (c : Con) : check a c = true ↔ Holds a c := by simp [check]

/-! ### exhaustive enumeration over the declared domains -/

/-- Every variable has a value inside its domain (and there are exactly as many values as variables). -/
def InDom : Asg → List VarDecl → Prop
  | [], [] => True
  | x :: a, d :: ds => (d.lb ≤ x ∧ x ≤ d.ub) ∧ InDom a ds
  | _, _ => False

instance : (a : Asg) → (ds : List VarDecl) → Decidable (InDom a ds)
  | [], [] => isTrue trivial
  | x :: a, d :: ds =>
    have := instDecidableInDom a ds  -- recursive instance
    by unfold InDom; infer_instance
  | [], _ :: _ => isFalse (by simp [InDom])
  | _ :: _, [] => isFalse (by simp [InDom])

def allAsg : List VarDecl → List Asg
  | [] => [[]]
  | d :: ds => (irange d.lb d.ub).flatMap fun x => (allAsg ds).map (x :: ·)

theorem mem_allAsg {a : Asg} {ds : List VarDecl} : a ∈ allAsg ds ↔ InDom a ds := by
  induction ds generalizing a with
  | nil => cases a <;> simp [allAsg, InDom]
  | cons d ds ih =>
    cases a with
    | nil => simp [allAsg, InDom]
    | cons x a =>
      simp only [allAsg, List.mem_flatMap, List.mem_map, InDom, mem_irange]
      constructor
      · rintro ⟨y, hy, b, hb, h⟩
        obtain ⟨rfl, rfl⟩ := List.cons.inj h
        exact ⟨hy, ih.1 hb⟩
      · rintro ⟨hx, ha⟩; exact ⟨x, hx, a, ih.2 ha, rfl⟩

def satisfies (M : Model) (a : Asg) : Bool := M.cons.all (check a)

/-- All solutions of the model, by exhaustive enumeration. -/
def solutions (M : Model) : List Asg := (allAsg M.vars).filter (satisfies M)

/-- The CP solutions of a model (the set the properties C05/C06 speak about). -/
def IsSolution (M : Model) (a : Asg) : Prop := InDom a M.vars ∧ ∀ c ∈ M.cons, Holds a c

theorem mem_solutions {M : Model} {a : Asg} : a ∈ solutions M ↔ IsSolution M a := by
  simp [solutions, satisfies, IsSolution, mem_allAsg, check_iff]

end Solvor.Cp
