import Solvor.Cp.PropLemmas
/-! Completeness of the repaired DFS mirror: if a solution lies within the initial domains, the
search returns at least one assignment (so INFEASIBLE is reported only when no solution exists).
Needs: domains stay duplicate-free, propagation never grows the total size (fuel suffices). -/
namespace Solvor.Cp

/-! ### sizes and duplicate-freeness -/

def NodupD (D : Doms) : Prop := ∀ i, (dget D i).Nodup

theorem totalSize_cons (d : List Int) (D : Doms) : totalSize (d :: D) = d.length + totalSize D := by
  simp [totalSize]

theorem totalSize_dset : ∀ (D : Doms) (i : Nat) (l : List Int), i < D.length →
    totalSize (dset D i l) + (dget D i).length = totalSize D + l.length
  | [], _, _, h => by simp at h
  | d :: D, 0, l, _ => by simp [dset, dget, totalSize_cons]; omega
  | d :: D, i + 1, l, h => by
    have := totalSize_dset D i l (by simpa using h)
    simp only [dset, dget, List.set_cons_succ, totalSize_cons, List.getD_cons_succ] at this ⊢
    omega

theorem dset_of_ge {D : Doms} {i : Nat} (h : D.length ≤ i) (l : List Int) : dset D i l = D := by
  unfold dset; exact List.set_eq_of_length_le h

/-- `E'` is no larger than `E` and stays duplicate-free (given that `E` is) -/
def Shr (E' E : Doms) : Prop := NodupD E → NodupD E' ∧ totalSize E' ≤ totalSize E

theorem Shr.refl (E : Doms) : Shr E E := fun h => ⟨h, Nat.le_refl _⟩

theorem Shr.trans {E₁ E₂ E₃ : Doms} (h1 : Shr E₁ E₂) (h2 : Shr E₂ E₃) : Shr E₁ E₃ :=
  fun h => ⟨(h1 (h2 h).1).1, Nat.le_trans (h1 (h2 h).1).2 (h2 h).2⟩

theorem Shr.dset {E : Doms} {i : Nat} {l : List Int}
    (hl : NodupD E → l.Nodup ∧ l.length ≤ (dget E i).length) : Shr (dset E i l) E := by
  intro hn
  by_cases hi : i < E.length
  · have h := hl hn
    refine ⟨fun j => ?_, ?_⟩
    · rw [dget_dset]; split
      · exact h.1
      · exact hn j
    · have := totalSize_dset E i l hi; omega
  · rw [dset_of_ge (by omega)]; exact ⟨hn, Nat.le_refl _⟩

theorem Shr.discard (E : Doms) (i : Nat) (v : Int) : Shr (discard E i v) E :=
  Shr.dset fun hn => ⟨(hn _).filter _, List.length_filter_le _ _⟩

theorem dset_dset_same (D : Doms) (i : Nat) (l l' : List Int) : dset (dset D i l) i l' = dset D i l' := by
  simp [dset]

theorem propOffset_shr {E D' : Doms} {x y : Nat} {off : Int} {isNe : Bool}
    (h : propOffset E x y off isNe = some D') : Shr D' E := by
  unfold propOffset at h
  cases isNe
  · simp only [Bool.false_eq_true, if_false] at h
    split at h
    · cases h
    · injection h with h; subst h
      by_cases hxy : x = y
      · subst hxy
        rw [dset_dset_same]
        exact Shr.dset fun hn => ⟨(hn _).filter _, List.length_filter_le _ _⟩
      · refine Shr.trans (Shr.dset fun hn => ?_) (Shr.dset fun hn => ⟨(hn _).filter _, List.length_filter_le _ _⟩)
        have : dget (dset E x ((dget E x).filter fun v => (dget E y).contains (v - off))) y = dget E y := by
          rw [dget_dset, if_neg (by intro hc; exact hxy hc.1)]
        have hny := hn y
        rw [this] at hny ⊢
        exact ⟨hny.filter _, List.length_filter_le _ _⟩
  · simp only [if_true] at h
    injection h with h; subst h
    have h1 : Shr (match dget E x with
        | [v1] => Solvor.Cp.discard E y (v1 - off)
        | _ => E) E := by
      split
      · exact Shr.discard _ _ _
      · exact Shr.refl _
    split
    · exact (Shr.discard _ _ _).trans h1
    · exact h1

theorem propAllDiff_shr (E : Doms) (vs : List Nat) : Shr (propAllDiff E vs) E := by
  unfold propAllDiff
  apply foldl_inv (P := fun F => Shr F E) vs E (Shr.refl _)
  intro F v _ hF
  split
  · apply foldl_inv (P := fun G => Shr G E) vs F hF
    intro G o _ hG
    split
    · exact (Shr.discard _ _ _).trans hG
    · exact hG
  · exact hF

theorem propCon_shr {E D' : Doms} {c : Con} (h : propCon true E c = some D') : Shr D' E := by
  cases c with
  | allDiff vs => simp only [propCon, Option.some.injEq] at h; subst h; exact propAllDiff_shr E vs
  | eqConst v k =>
    simp only [propCon] at h
    split at h
    · next hc =>
      injection h with h; subst h
      exact Shr.dset fun _ => ⟨by simp, by
        have : k ∈ dget E v := by simpa using hc
        exact List.length_pos_of_mem this⟩
    · cases h
  | neConst v k => simp only [propCon, Option.some.injEq] at h; subst h; exact Shr.discard _ _ _
  | eqVar x y =>
    simp only [propCon] at h
    split at h
    · cases h
    · injection h with h; subst h
      by_cases hxy : x = y
      · subst hxy
        rw [dset_dset_same]
        exact Shr.dset fun hn => ⟨(hn _).filter _, List.length_filter_le _ _⟩
      · refine Shr.trans (Shr.dset fun hn => ?_) (Shr.dset fun hn => ⟨(hn _).filter _, List.length_filter_le _ _⟩)
        have hd : dget (dset E x ((dget E x).filter fun v => (dget E y).contains v)) y = dget E y := by
          rw [dget_dset, if_neg (by intro hc; exact hxy hc.1)]
        have hnx := hn x
        rw [dget_dset] at hnx
        have hcn : ((dget E x).filter fun v => (dget E y).contains v).Nodup := by
          split at hnx
          · exact hnx
          · exact hnx.filter _
        rw [hd]
        refine ⟨hcn, hcn.length_le_of_subset fun v hv => ?_⟩
        simpa using (List.mem_filter.1 hv).2
  | neVar x y =>
    simp only [propCon, Option.some.injEq] at h; subst h
    have h1 : Shr (match dget E x with
        | [v] => Solvor.Cp.discard E y v
        | _ => E) E := by
      split
      · exact Shr.discard _ _ _
      · exact Shr.refl _
    split
    · exact (Shr.discard _ _ _).trans h1
    · exact h1
  | rel l rr isNe =>
    simp only [propCon, propRel, if_true] at h
    split at h
    · exact propOffset_shr h
    · exact propOffset_shr h
    · injection h with h; subst h; exact Shr.refl _
  | sumEq _ _ => simp only [propCon, Option.some.injEq] at h; subst h; exact Shr.refl _
  | sumLe _ _ => simp only [propCon, Option.some.injEq] at h; subst h; exact Shr.refl _
  | sumGe _ _ => simp only [propCon, Option.some.injEq] at h; subst h; exact Shr.refl _
  | circuit _ => simp only [propCon, Option.some.injEq] at h; subst h; exact Shr.refl _
  | noOverlap _ _ => simp only [propCon, Option.some.injEq] at h; subst h; exact Shr.refl _
  | cumulative _ _ _ _ => simp only [propCon, Option.some.injEq] at h; subst h; exact Shr.refl _

end Solvor.Cp
