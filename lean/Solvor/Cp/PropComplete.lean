import Solvor.Cp.PropLemmas
/-! Completeness of the repaired DFS mirror: if a solution lies within the initial domains, the
search returns at least one assignment (so INFEASIBLE is reported only when no solution exists).
Needs: domains stay duplicate-free, propagation never grows the total size (fuel suffices). -/
namespace Solvor.Cp

/-! ### sizes and duplicate-freeness -/

def NodupD (D : Doms) : Prop := ∀ i, (dget D i).Nodup

theorem totalSize_cons (d : List Int) (D : Doms) : totalSize (d :: D) = d.length + totalSize D := by
  simp [totalSize]

theorem totalSize_dset : ∀ (D : Doms) (i : Nat) (l : List Int), i < D.length →
    totalSize (dset D i l) + (dget D i).length = totalSize D + l.length
  | [], _, _, h => by simp at h
  | d :: D, 0, l, _ => by simp [dset, dget, totalSize_cons]; omega
  | d :: D, i + 1, l, h => by
    have := totalSize_dset D i l (by simpa using h)
    simp only [dset, dget, List.set_cons_succ, totalSize_cons, List.getD_cons_succ] at this ⊢
    omega

theorem dset_of_ge {D : Doms} {i : Nat} (h : D.length ≤ i) (l : List Int) : dset D i l = D := by
  unfold dset; exact List.set_eq_of_length_le h

/-- `E'` is no larger than `E` and stays duplicate-free (given that `E` is) -/
def Shr (E' E : Doms) : Prop := NodupD E → NodupD E' ∧ totalSize E' ≤ totalSize E

theorem Shr.refl (E : Doms) : Shr E E := fun h => ⟨h, Nat.le_refl _⟩

theorem Shr.trans {E₁ E₂ E₃ : Doms} (h1 : Shr E₁ E₂) (h2 : Shr E₂ E₃) : Shr E₁ E₃ :=
  fun h => ⟨(h1 (h2 h).1).1, Nat.le_trans (h1 (h2 h).1).2 (h2 h).2⟩

theorem Shr.dset {E : Doms} {i : Nat} {l : List Int}
    (hl : NodupD E → l.Nodup ∧ l.length ≤ (dget E i).length) : Shr (dset E i l) E := by
  intro hn
  by_cases hi : i < E.length
  · have h := hl hn
    refine ⟨fun j => ?_, ?_⟩
    · rw [dget_dset]; split
      · exact h.1
      · exact hn j
    · have := totalSize_dset E i l hi; omega
  · rw [dset_of_ge (by omega)]; exact ⟨hn, Nat.le_refl _⟩

theorem Shr.discard (E : Doms) (i : Nat) (v : Int) : Shr (discard E i v) E :=
  Shr.dset fun hn => ⟨(hn _).filter _, List.length_filter_le _ _⟩

theorem dset_dset_same (D : Doms) (i : Nat) (l l' : List Int) : dset (dset D i l) i l' = dset D i l' := by
  simp [dset]

theorem propOffset_shr {E D' : Doms} {x y : Nat} {off : Int} {isNe : Bool}
    (h : propOffset E x y off isNe = some D') : Shr D' E := by
  unfold propOffset at h
  cases isNe
  · simp only [Bool.false_eq_true, if_false] at h
    split at h
    · cases h
    · injection h with h; subst h
      by_cases hxy : x = y
      · subst hxy
        rw [dset_dset_same]
        exact Shr.dset fun hn => ⟨(hn _).filter _, List.length_filter_le _ _⟩
      · refine Shr.trans (Shr.dset fun hn => ?_) (Shr.dset fun hn => ⟨(hn _).filter _, List.length_filter_le _ _⟩)
        have : dget (dset E x ((dget E x).filter fun v => (dget E y).contains (v - off))) y = dget E y := by
          rw [dget_dset, if_neg (by intro hc; exact hxy hc.1)]
        have hny := hn y
        rw [this] at hny ⊢
        exact ⟨hny.filter _, List.length_filter_le _ _⟩
  · simp only [if_true] at h
    injection h with h; subst h
    have h1 : Shr (match dget E x with
        | [v1] => Solvor.Cp.discard E y (v1 - off)
        | _ => E) E := by
      split
      · exact Shr.discard _ _ _
      · exact Shr.refl _
    split
    · exact (Shr.discard _ _ _).trans h1
    · exact h1

theorem propAllDiff_shr (E : Doms) (vs : List Nat) : Shr (propAllDiff E vs) E := by
  unfold propAllDiff
  apply foldl_inv (P := fun F => Shr F E) vs E (Shr.refl _)
  intro F v _ hF
  split
  · apply foldl_inv (P := fun G => Shr G E) vs F hF
    intro G o _ hG
    split
    · exact (Shr.discard _ _ _).trans hG
    · exact hG
  · exact hF

theorem propCon_shr {E D' : Doms} {c : Con} (h : propCon true E c = some D') : Shr D' E := by
  cases c with
  | allDiff vs => simp only [propCon, Option.some.injEq] at h; subst h; exact propAllDiff_shr E vs
  | eqConst v k =>
    simp only [propCon] at h
    split at h
    · next hc =>
      injection h with h; subst h
      exact Shr.dset fun _ => ⟨by simp, by
        have : k ∈ dget E v := by simpa using hc
        exact List.length_pos_of_mem this⟩
    · cases h
  | neConst v k => simp only [propCon, Option.some.injEq] at h; subst h; exact Shr.discard _ _ _
  | eqVar x y =>
    simp only [propCon] at h
    split at h
    · cases h
    · injection h with h; subst h
      by_cases hxy : x = y
      · subst hxy
        rw [dset_dset_same]
        exact Shr.dset fun hn => ⟨(hn _).filter _, List.length_filter_le _ _⟩
      · refine Shr.trans (Shr.dset fun hn => ?_) (Shr.dset fun hn => ⟨(hn _).filter _, List.length_filter_le _ _⟩)
        have hd : dget (dset E x ((dget E x).filter fun v => (dget E y).contains v)) y = dget E y := by
          rw [dget_dset, if_neg (by intro hc; exact hxy hc.1)]
        have hnx := hn x
        rw [dget_dset] at hnx
        have hcn : ((dget E x).filter fun v => (dget E y).contains v).Nodup := by
          split at hnx
          · exact hnx
          · exact hnx.filter _
        rw [hd]
        refine ⟨hcn, hcn.length_le_of_subset fun v hv => ?_⟩
        simpa using (List.mem_filter.1 hv).2
  | neVar x y =>
    simp only [propCon, Option.some.injEq] at h; subst h
    have h1 : Shr (match dget E x with
        | [v] => Solvor.Cp.discard E y v
        | _ => E) E := by
      split
      · exact Shr.discard _ _ _
      · exact Shr.refl _
    split
    · exact (Shr.discard _ _ _).trans h1
    · exact h1
  | rel l rr isNe =>
    simp only [propCon, propRel, if_true] at h
    split at h
    · exact propOffset_shr h
    · exact propOffset_shr h
    · injection h with h; subst h; exact Shr.refl _
  | sumEq _ _ => simp only [propCon, Option.some.injEq] at h; subst h; exact Shr.refl _
  | sumLe _ _ => simp only [propCon, Option.some.injEq] at h; subst h; exact Shr.refl _
  | sumGe _ _ => simp only [propCon, Option.some.injEq] at h; subst h; exact Shr.refl _
  | circuit _ => simp only [propCon, Option.some.injEq] at h; subst h; exact Shr.refl _
  | noOverlap _ _ => simp only [propCon, Option.some.injEq] at h; subst h; exact Shr.refl _
  | cumulative _ _ _ _ => simp only [propCon, Option.some.injEq] at h; subst h; exact Shr.refl _

theorem sweep_shr : ∀ (cs : List Con) (E : Doms) (ch : Bool) {D' : Doms} {ch' : Bool},
    sweep true cs E ch = some (D', ch') → Shr D' E
  | [], E, ch, D', ch', h => by
    simp only [sweep, Option.some.injEq, Prod.mk.injEq] at h
    obtain ⟨rfl, _⟩ := h; exact Shr.refl _
  | c :: cs, E, ch, D', ch', h => by
    simp only [sweep] at h
    split at h
    · cases h
    · next D1 h1 =>
      split at h
      · cases h
      · exact (sweep_shr cs D1 _ h).trans (propCon_shr h1)

theorem propagate_shr {cs : List Con} : ∀ (fuel : Nat) (E : Doms) {D' : Doms},
    propagate true cs fuel E = some D' → Shr D' E
  | 0, E, D', h => by simp only [propagate, Option.some.injEq] at h; subst h; exact Shr.refl _
  | fuel + 1, E, D', h => by
    simp only [propagate] at h
    split at h
    · cases h
    · next D1 ch h1 =>
      have := sweep_shr cs E false h1
      split at h
      · exact (propagate_shr fuel D1 h).trans this
      · injection h with h; subst h; exact this

/-! ### `pickVar` -/

theorem foldl_pick_none {α} (f : Option Nat → α → Option Nat) (hf : ∀ b p, ∃ v, f b p = some v) :
    ∀ (l : List α) (b : Option Nat), l.foldl f b = none → l = [] ∧ b = none
  | [], b, h => ⟨rfl, h⟩
  | p :: l, b, h => by
    obtain ⟨v, hv⟩ := hf b p
    simp only [List.foldl_cons, hv] at h
    have := (foldl_pick_none f hf l (some v) h).2
    cases this

theorem dget_eq_of_mem_zipIdx {D : Doms} {p : List Int × Nat} (h : p ∈ D.zipIdx) :
    p.2 < D.length ∧ dget D p.2 = p.1 := by
  obtain ⟨d, i⟩ := p
  have hg : D[i]? = some d := List.mem_zipIdx_iff_getElem?.1 h
  have hi : i < D.length := by
    rcases Nat.lt_or_ge i D.length with h | h
    · exact h
    · rw [List.getElem?_eq_none h] at hg; cases hg
  refine ⟨hi, ?_⟩
  unfold dget; simp [List.getD_eq_getElem?_getD, hg]

theorem pickVar_none {D : Doms} (h : pickVar D = none) : ∀ i, i < D.length → (dget D i).length ≤ 1 := by
  unfold pickVar at h
  have := (foldl_pick_none _ (by
    intro b p
    cases b with
    | none => exact ⟨_, rfl⟩
    | some b => by_cases hc : p.1.length < (dget D b).length <;> simp [hc]) _ none h).1
  intro i hi
  rcases Nat.lt_or_ge 1 (dget D i).length with hlt | hle
  · exfalso
    have hm : (dget D i, i) ∈ D.zipIdx := by
      apply List.mem_zipIdx_iff_getElem?.2
      show D[i]? = some (dget D i)
      unfold dget; simp [List.getD_eq_getElem?_getD, List.getElem?_eq_getElem hi]
    have : (dget D i, i) ∈ D.zipIdx.filter fun p => p.1.length > 1 :=
      List.mem_filter.2 ⟨hm, by simpa using hlt⟩
    rw [‹List.filter _ D.zipIdx = []›] at this; cases this
  · exact hle

theorem foldl_pick_some {D : Doms} : ∀ (l : List (List Int × Nat)) (b : Option Nat) (v : Nat),
    (∀ p ∈ l, p ∈ D.zipIdx ∧ p.1.length > 1) → (∀ w, b = some w → w < D.length ∧ (dget D w).length > 1) →
    l.foldl (fun best p => match best with
      | none => some p.2
      | some b => if p.1.length < (dget D b).length then some p.2 else some b) b = some v →
    v < D.length ∧ (dget D v).length > 1
  | [], b, v, _, hb, h => hb v h
  | p :: l, b, v, hl, hb, h => by
    simp only [List.foldl_cons] at h
    refine foldl_pick_some l _ v (fun q hq => hl q (List.mem_cons_of_mem _ hq)) ?_ h
    intro w hw
    have hp := hl p List.mem_cons_self
    have hd := dget_eq_of_mem_zipIdx hp.1
    have hpw : p.2 < D.length ∧ (dget D p.2).length > 1 := ⟨hd.1, by rw [hd.2]; exact hp.2⟩
    cases b with
    | none => simp only [Option.some.injEq] at hw; subst hw; exact hpw
    | some b0 =>
      simp only at hw
      split at hw
      · simp only [Option.some.injEq] at hw; subst hw; exact hpw
      · simp only [Option.some.injEq] at hw; subst hw; exact hb _ rfl

theorem pickVar_some {D : Doms} {v : Nat} (h : pickVar D = some v) :
    v < D.length ∧ (dget D v).length > 1 := by
  unfold pickVar at h
  exact foldl_pick_some _ none v (fun p hp => by
    have := List.mem_filter.1 hp
    exact ⟨this.1, by simpa using this.2⟩) (fun w hw => by cases hw) h

/-! ### the search finds a solution that lies within the domains -/

/-- `stop` is only set once a solution has been recorded (for `limit ≥ 1`) -/
def StopOK (st : DfsState) : Prop := st.stop = true → st.sols ≠ []

theorem backtrack_keeps {sel : Doms → Option Nat} {ord : Doms → Nat → List Int} {cs : List Con} {limit : Nat}
    (hl : 1 ≤ limit) :
    ∀ (fuel : Nat) (D : Doms) (st : DfsState),
      (StopOK st → StopOK (backtrackG sel ord true cs limit fuel D st)) ∧
      (st.sols ≠ [] → (backtrackG sel ord true cs limit fuel D st).sols ≠ [])
  | 0, _, st => by simp [backtrackG]
  | fuel + 1, D, st => by
    unfold backtrackG
    split
    · simp only
      split
      · exact ⟨id, id⟩
      · refine ⟨fun _ hstop => ?_, fun hne => ?_⟩
        · simp only [decide_eq_true_eq] at hstop
          intro he
          simp only at he
          rw [he] at hstop; simp at hstop; omega
        · simp only
          split
          · exact hne
          · simp
    · next v _ =>
      have key : ∀ (s : DfsState) (x : Int),
          (StopOK s → StopOK (if s.stop = true then s
            else match propagate true cs (totalSize D + 1) (dset D v [x]) with
              | none => s
              | some D' => backtrackG sel ord true cs limit fuel D' s)) ∧
          (s.sols ≠ [] → (if s.stop = true then s
            else match propagate true cs (totalSize D + 1) (dset D v [x]) with
              | none => s
              | some D' => backtrackG sel ord true cs limit fuel D' s).sols ≠ []) := by
        intro s x
        split
        · exact ⟨id, id⟩
        · split
          · exact ⟨id, id⟩
          · exact backtrack_keeps hl fuel _ s
      exact ⟨fun h => foldl_inv (P := StopOK) _ st h fun s x _ hs => (key s x).1 hs,
        fun h => foldl_inv (P := fun s : DfsState => s.sols ≠ []) _ st h fun s x _ hs => (key s x).2 hs⟩

theorem leaf_eq {a : Asg} {D : Doms} (h : Within a D) (hs : ∀ i, i < D.length → (dget D i).length ≤ 1) :
    (D.map fun d => d.headD 0) = a := by
  apply List.ext_getElem
  · simp [h.1]
  · intro i h1 h2
    have hi : i < D.length := by simpa using h1
    have hm := h.2 i hi
    have hlen := hs i hi
    have hd : dget D i = D[i] := by
      unfold dget; simp [List.getD_eq_getElem?_getD, List.getElem?_eq_getElem hi]
    have hv : val a i = a[i] := by
      unfold val; simp [List.getD_eq_getElem?_getD, List.getElem?_eq_getElem h2]
    rw [hd] at hm hlen
    rw [hv] at hm
    simp only [List.getElem_map]
    match hD : D[i], hm, hlen with
    | [y], hm, _ => simpa using (List.mem_singleton.1 hm).symm
    | _ :: _ :: _, _, hlen => simp at hlen

theorem backtrack_finds {sel : Doms → Option Nat} {ord : Doms → Nat → List Int} (hsel : SelOK sel)
    (hord : OrdOK ord) {a : Asg} {cs : List Con} {limit : Nat} (hl : 1 ≤ limit)
    (hall : ∀ c ∈ cs, c.Scoped a.length ∧ Holds a c) :
    ∀ (fuel : Nat) (D : Doms) (st : DfsState), Within a D → NodupD D → totalSize D < fuel → StopOK st →
      (backtrackG sel ord true cs limit fuel D st).sols ≠ []
  | 0, _, _, _, _, hf, _ => by omega
  | fuel + 1, D, st, hw, hn, hf, hst => by
    unfold backtrackG
    split
    · next hp =>
      have hleaf := leaf_eq hw ((hsel D).1 hp)
      simp only [hleaf]
      have hchk : cs.all (check a) = true :=
        List.all_eq_true.2 fun c hc => (check_iff a c).2 (hall c hc).2
      simp only [hchk, Bool.not_true, Bool.and_false, Bool.false_eq_true, if_false, Bool.true_and]
      split
      · next hc =>
        intro he; rw [he] at hc; simp at hc
      · simp
    · next v hp =>
      have hv := (hsel D).2 v hp
      have hmem : val a v ∈ ord D v := (hord D v _).2 (hw.2 v hv.1)
      obtain ⟨l1, l2, hsplit⟩ := List.append_of_mem hmem
      rw [hsplit, List.foldl_append, List.foldl_cons]
      -- the state before the branch `x = a[v]`
      have hk := fun (s : DfsState) (x : Int) (hs : StopOK s) =>
        show StopOK (if s.stop = true then s
            else match propagate true cs (totalSize D + 1) (dset D v [x]) with
              | none => s
              | some D' => backtrackG sel ord true cs limit fuel D' s) from by
          split
          · exact hs
          · split
            · exact hs
            · exact (backtrack_keeps hl fuel _ s).1 hs
      have hs1 : StopOK (l1.foldl (fun st x =>
          if st.stop = true then st
          else match propagate true cs (totalSize D + 1) (dset D v [x]) with
            | none => st
            | some D' => backtrackG sel ord true cs limit fuel D' st) st) :=
        foldl_inv (P := StopOK) l1 st hst fun s x _ hs => hk s x hs
      -- the branch itself yields a solution
      apply foldl_inv (P := fun s : DfsState => s.sols ≠ []) l2
      · split
        · next hstop => exact hs1 hstop
        · have hw' : Within a (dset D v [val a v]) := hw.dset fun _ => by simp
          obtain ⟨D', hp', hw''⟩ := propagate_sound_aux hall (totalSize D + 1) _ hw'
          rw [hp']
          have hshr : Shr (dset D v [val a v]) D :=
            Shr.dset fun _ => ⟨by simp, by have := hv.2; simp; omega⟩
          have h1 := hshr hn
          have h2 := propagate_shr _ _ hp' h1.1
          have hlt : totalSize (dset D v [val a v]) < totalSize D := by
            have := totalSize_dset D v [val a v] hv.1
            have := hv.2
            simp only [List.length_singleton] at *
            omega
          exact backtrack_finds hsel hord hl hall fuel D' _ hw'' h2.1 (by omega) hs1
      · intro s x _ hs
        split
        · exact hs
        · split
          · exact hs
          · exact (backtrack_keeps hl fuel _ s).2 hs

theorem irange_nodup (lb ub : Int) : (irange lb ub).Nodup :=
  (irange_sorted lb ub).imp (by intro a b h; omega)

theorem within_of_inDom : ∀ {a : Asg} {ds : List VarDecl}, InDom a ds →
    Within a (ds.map fun d => irange d.lb d.ub)
  | [], [], _ => ⟨rfl, fun i hi => by simp at hi⟩
  | x :: a, d :: ds, h => by
    have ih := within_of_inDom h.2
    refine ⟨by simpa using ih.1, fun i hi => ?_⟩
    cases i with
    | zero => simpa [val, dget] using mem_irange.2 h.1
    | succ i =>
      have := ih.2 i (by simpa using hi)
      simpa [val, dget] using this
  | [], _ :: _, h => h.elim
  | _ :: _, [], h => h.elim

theorem initDoms_within {a : Asg} {vars : List VarDecl} (ha : InDom a vars) (hints : List (Nat × Int))
    (hh : ∀ h ∈ hints, ∀ x ∈ dget (vars.map fun d => irange d.lb d.ub) h.1, x = h.2 → val a h.1 = h.2) :
    Within a (initDoms vars hints) ∧ NodupD (initDoms vars hints) := by
  unfold initDoms
  have h0 : NodupD (vars.map fun d => irange d.lb d.ub) := by
    intro i
    unfold dget
    by_cases hi : i < (vars.map fun d => irange d.lb d.ub).length
    · simp only [List.getD_eq_getElem?_getD, List.getElem?_eq_getElem hi, Option.getD_some, List.getElem_map]
      exact irange_nodup _ _
    · simp [List.getD_eq_getElem?_getD, List.getElem?_eq_none (Nat.le_of_not_lt hi)]
  refine (foldl_inv (P := fun E => (Within a E ∧ NodupD E) ∧ SubD E (vars.map fun d => irange d.lb d.ub))
    hints _ ⟨⟨within_of_inDom ha, h0⟩, SubD.refl _⟩ ?_).1
  intro E h hmem hE
  split
  · next hc =>
    have hin : h.2 ∈ dget E h.1 := by simpa using hc
    have hv := hh h hmem h.2 (hE.2.2 h.1 h.2 hin) rfl
    refine ⟨⟨hE.1.1.dset fun _ => by simp [hv], ?_⟩, hE.2.dset fun y hy => ?_⟩
    · exact ((Shr.dset (E := E) (i := h.1) (l := [h.2]) fun _ =>
        ⟨by simp, List.length_pos_of_mem hin⟩) hE.1.2).1
    · rw [List.mem_singleton.1 hy]; exact hE.2.2 h.1 h.2 hin
  · exact hE

/-! ### the search enumerates every solution unless it stops at the limit -/

/-- `stop` means the limit was reached -/
def StopLen (limit : Nat) (st : DfsState) : Prop := st.stop = true → limit ≤ st.sols.length

theorem foldl_stopped {α} (f : DfsState → α → DfsState) (hf : ∀ s x, s.stop = true → f s x = s) :
    ∀ (l : List α) (s : DfsState), s.stop = true → l.foldl f s = s
  | [], _, _ => rfl
  | x :: l, s, h => by rw [List.foldl_cons, hf s x h]; exact foldl_stopped f hf l s h

theorem backtrack_mono {sel : Doms → Option Nat} {ord : Doms → Nat → List Int} {cs : List Con} {limit : Nat} :
    ∀ (fuel : Nat) (D : Doms) (st : DfsState),
      (∀ b ∈ st.sols, b ∈ (backtrackG sel ord true cs limit fuel D st).sols) ∧
      (StopLen limit st → StopLen limit (backtrackG sel ord true cs limit fuel D st)) ∧
      (st.sols.Nodup → (backtrackG sel ord true cs limit fuel D st).sols.Nodup)
  | 0, _, st => by simp [backtrackG]
  | fuel + 1, D, st => by
    unfold backtrackG
    split
    · simp only
      split
      · exact ⟨fun _ h => h, id, id⟩
      · refine ⟨fun b hb => ?_, fun _ hstop => ?_, fun hn => ?_⟩
        · simp only
          split
          · exact hb
          · exact List.mem_append_left _ hb
        · simpa using hstop
        · simp only
          split
          · exact hn
          · next hc =>
            have hnc : (D.map fun d => d.headD 0) ∉ st.sols := by
              intro hm; apply hc
              simp only [Bool.true_and, List.contains_iff_mem]; exact hm
            exact List.nodup_append.2 ⟨hn, by simp, by
              intro x hx y hy; rw [List.mem_singleton.1 hy]; rintro rfl; exact hnc hx⟩
    · next v _ =>
      have key : ∀ (s : DfsState) (x : Int),
          (∀ b ∈ s.sols, b ∈ (if s.stop = true then s
            else match propagate true cs (totalSize D + 1) (dset D v [x]) with
              | none => s
              | some D' => backtrackG sel ord true cs limit fuel D' s).sols) ∧
          (StopLen limit s → StopLen limit (if s.stop = true then s
            else match propagate true cs (totalSize D + 1) (dset D v [x]) with
              | none => s
              | some D' => backtrackG sel ord true cs limit fuel D' s)) ∧
          (s.sols.Nodup → (if s.stop = true then s
            else match propagate true cs (totalSize D + 1) (dset D v [x]) with
              | none => s
              | some D' => backtrackG sel ord true cs limit fuel D' s).sols.Nodup) := by
        intro s x
        split
        · exact ⟨fun _ h => h, id, id⟩
        · split
          · exact ⟨fun _ h => h, id, id⟩
          · exact backtrack_mono fuel _ s
      refine ⟨fun b hb => ?_, fun h => ?_, fun h => ?_⟩
      · exact foldl_inv (P := fun s : DfsState => b ∈ s.sols) _ st hb fun s x _ hs => (key s x).1 b hs
      · exact foldl_inv (P := StopLen limit) _ st h fun s x _ hs => (key s x).2.1 hs
      · exact foldl_inv (P := fun s : DfsState => s.sols.Nodup) _ st h fun s x _ hs => (key s x).2.2 hs

theorem backtrack_covers {sel : Doms → Option Nat} {ord : Doms → Nat → List Int} (hsel : SelOK sel)
    (hord : OrdOK ord) {a : Asg} {cs : List Con} {limit : Nat}
    (hall : ∀ c ∈ cs, c.Scoped a.length ∧ Holds a c) :
    ∀ (fuel : Nat) (D : Doms) (st : DfsState), Within a D → NodupD D → totalSize D < fuel →
      a ∈ (backtrackG sel ord true cs limit fuel D st).sols ∨
        (backtrackG sel ord true cs limit fuel D st).stop = true
  | 0, _, _, _, _, hf => by omega
  | fuel + 1, D, st, hw, hn, hf => by
    unfold backtrackG
    split
    · next hp =>
      have hleaf := leaf_eq hw ((hsel D).1 hp)
      simp only [hleaf]
      have hchk : cs.all (check a) = true :=
        List.all_eq_true.2 fun c hc => (check_iff a c).2 (hall c hc).2
      simp only [hchk, Bool.not_true, Bool.and_false, Bool.false_eq_true, if_false, Bool.true_and]
      left
      split
      · next hc => simpa using hc
      · simp
    · next v hp =>
      have hv := (hsel D).2 v hp
      have hmem : val a v ∈ ord D v := (hord D v _).2 (hw.2 v hv.1)
      obtain ⟨l1, l2, hsplit⟩ := List.append_of_mem hmem
      rw [hsplit, List.foldl_append, List.foldl_cons]
      have hstep : ∀ (s : DfsState) (x : Int), s.stop = true →
          (if s.stop = true then s
            else match propagate true cs (totalSize D + 1) (dset D v [x]) with
              | none => s
              | some D' => backtrackG sel ord true cs limit fuel D' s) = s := by
        intro s x h; rw [if_pos h]
      -- after the branch `x = a[v]`: found or stopped; both persist over the remaining values
      have hrest : ∀ s : DfsState, (a ∈ s.sols ∨ s.stop = true) →
          (a ∈ (l2.foldl (fun st x =>
            if st.stop = true then st
            else match propagate true cs (totalSize D + 1) (dset D v [x]) with
              | none => st
              | some D' => backtrackG sel ord true cs limit fuel D' st) s).sols ∨
           (l2.foldl (fun st x =>
            if st.stop = true then st
            else match propagate true cs (totalSize D + 1) (dset D v [x]) with
              | none => st
              | some D' => backtrackG sel ord true cs limit fuel D' st) s).stop = true) := by
        intro s hs
        by_cases hst : s.stop = true
        · rw [foldl_stopped _ hstep l2 s hst]; exact Or.inr hst
        · rcases hs with hs | hs
          · left
            exact foldl_inv (P := fun s : DfsState => a ∈ s.sols) l2 s hs fun s' x _ hs' => by
              split
              · exact hs'
              · split
                · exact hs'
                · exact (backtrack_mono fuel _ s').1 a hs'
          · exact absurd hs hst
      apply hrest
      split
      · next hstop => exact Or.inr hstop
      · have hw' : Within a (dset D v [val a v]) := hw.dset fun _ => by simp
        obtain ⟨D', hp', hw''⟩ := propagate_sound_aux hall (totalSize D + 1) _ hw'
        rw [hp']
        have hshr : Shr (dset D v [val a v]) D :=
          Shr.dset fun _ => ⟨by simp, by have := hv.2; simp; omega⟩
        have h1 := hshr hn
        have h2 := propagate_shr _ _ hp' h1.1
        have hlt : totalSize (dset D v [val a v]) < totalSize D := by
          have := totalSize_dset D v [val a v] hv.1
          have := hv.2
          simp only [List.length_singleton] at *
          omega
        exact backtrack_covers hsel hord hall fuel D' _ hw'' h2.1 (by omega)

theorem pickVar_selOK : SelOK pickVar :=
  fun _ => ⟨fun h => pickVar_none h, fun _ h => pickVar_some h⟩

theorem dget_ordOK : OrdOK (fun D v => dget D v) := fun _ _ _ => Iff.rfl

end Solvor.Cp
