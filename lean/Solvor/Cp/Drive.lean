import Solvor.Common.Proto
import Solvor.Cp.Model
/-! Cp: line-protocol handler. One request line in, one reply line out. -/
namespace Solvor.Cp

def handle (line : String) : String := "unimplemented " ++ line

end Solvor.Cp
