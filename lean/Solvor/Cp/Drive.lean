import Solvor.Common.Proto
import Solvor.Cp.Model
/-! Cp: line-protocol handler. One request line in, one reply line out.

request `["case", vars, cons, hints, limit, implSols, cnf, assumptions, satModels, litmap, mode, hidden]`
  vars        : `[[lb, ub], …]`
  cons        : constraints, see `parseCon`
  hints       : `[[var, value], …]` (known names only, in dict order)
  limit       : solution_limit
  implSols    : assignments returned by the implementation, `[[v|null, …], …]`
  cnf         : clause list captured at `solve_sat` (or `null`)
  assumptions : literals passed as assumptions
  satModels   : models returned by `solve_sat`, each the list of variables that are true
  litmap      : per variable `[[value, boolean], …]` as in `IntVar.bool_vars`
  mode        : bit 0 = projected enumeration of `cnf`, bit 1 = run the DFS mirror,
                bit 2 = return the mirror clause list, bit 3 = skip the exhaustive enumeration,
                bit 4 = decide satisfiability of `cnf` under the assumptions (reference DPLL; else `false`)
                bit 3 detail:
                (large routing cases: `sols`/`hintSols` are then `[]` and mean nothing)
  hidden      : indices of variables declared without a name (`_v<k>`, not part of results)
reply `[sols, hintSols, implChecks, mirrorCnf, chooseSat, dfsSols, cnfInfo]`
  sols       : every solution of the model (verified enumerator `solutions`)
  hintSols   : those compatible with the effective (in-domain) hints
  implChecks : per implementation assignment `0` ok, `1` not one in-domain value per named variable,
               `2+k` constraint `k` violated (verified evaluator `check`), `1000` (hidden variables
               present) the values do not extend to a solution
  mirrorCnf  : `encodeModel` (mirror of the repaired encoder) or `null`
  chooseSat  : `[auto, dfs]`: `_choose_solver` picks SAT / `_solve_dfs` falls back to SAT
  dfsSols    : solutions of the DFS mirror (repaired), or `null`
  cnfInfo    : `null` or `[wf, satUnderAssumptions, satModelChecks, proj]`, `proj` = `null` or, per
               projected model of `cnf`, per variable the list of values whose boolean is true
-/
namespace Solvor.Cp
open Solvor.Proto Solvor.Cp.Sat

partial def parseExpr : Val → Option Expr
  | .arr [.str "v", .int i] => if i < 0 then none else some (.var i.toNat)
  | .arr [.str "c", .int k] => some (.const k)
  | .arr [.str "add", a, b] => do some (.add (← parseExpr a) (← parseExpr b))
  | .arr [.str "sub", a, b] => do some (.sub (← parseExpr a) (← parseExpr b))
  | .arr [.str "rsub", a, .int k] => do some (.rsub (← parseExpr a) k)
  | .arr [.str "mul", a, .int k] => do some (.mul (← parseExpr a) k)
  | _ => none

def parseCon : Val → Option Con
  | .arr [.str "alldiff", vs] => do some (.allDiff (← vs.toNats?))
  | .arr [.str "eqc", v, .int k] => do some (.eqConst (← v.toNat?) k)
  | .arr [.str "nec", v, .int k] => do some (.neConst (← v.toNat?) k)
  | .arr [.str "eqv", a, b] => do some (.eqVar (← a.toNat?) (← b.toNat?))
  | .arr [.str "nev", a, b] => do some (.neVar (← a.toNat?) (← b.toNat?))
  | .arr [.str "rel", l, r, .bool ne] => do some (.rel (← parseExpr l) (← parseExpr r) ne)
  | .arr [.str "sumeq", vs, .int t] => do some (.sumEq (← vs.toNats?) t)
  | .arr [.str "sumle", vs, .int t] => do some (.sumLe (← vs.toNats?) t)
  | .arr [.str "sumge", vs, .int t] => do some (.sumGe (← vs.toNats?) t)
  | .arr [.str "circuit", vs] => do some (.circuit (← vs.toNats?))
  | .arr [.str "noov", ss, ds] => do some (.noOverlap (← ss.toNats?) (← ds.toInts?))
  | .arr [.str "cum", ss, ds, dm, .int cap] => do
    some (.cumulative (← ss.toNats?) (← ds.toInts?) (← dm.toInts?) cap)
  | _ => none

def parseVars (v : Val) : Option (List VarDecl) := do
  (← v.toIntss?).mapM fun
    | [lb, ub] => some ⟨lb, ub⟩
    | _ => none

def parsePairs (v : Val) : Option (List (Nat × Int)) := do
  (← v.toIntss?).mapM fun
    | [i, x] => if i < 0 then none else some (i.toNat, x)
    | _ => none

/-- an implementation assignment: `null` entries (missing keys) make it fail `InDom` -/
def parseSol (v : Val) : Option (List (Option Int)) := do
  (← v.toArr?).mapM (Val.toOpt? Val.toInt?)

def checkImpl (M : Model) (hidden : List Nat) (sols : List Asg) (s : List (Option Int)) : Int :=
  -- named variables need a value, hidden (unnamed) ones must not appear in the result
  if s.length != M.vars.length then 1 else
  if s.zipIdx.any (fun p => p.1.isNone != hidden.contains p.2) then 1 else
  if hidden.isEmpty then
    let a : Asg := s.map (·.getD 0)
    if !(decide (InDom a M.vars)) then 1 else
    match M.cons.zipIdx.find? fun p => !(check a p.1) with
    | some p => 2 + (p.2 : Nat)
    | none => 0
  else
    -- the returned values must extend (on the hidden variables) to a solution of the model
    if sols.any (fun a => (a.zip s).all fun q => match q.2 with
        | some v => q.1 == v
        | none => true) then 0 else 1000

def effHints (vars : List VarDecl) (hints : List (Nat × Int)) : List (Nat × Int) :=
  hints.filter fun h => match vars[h.1]? with
    | some d => decide (d.lb ≤ h.2) && decide (h.2 ≤ d.ub)
    | none => false

def handleCase (vars cons hints limit impl cnf assum smods litmap mode hidden : Val) : String :=
    match parseVars vars, (cons.toArr?.bind fun l => l.mapM parseCon), parsePairs hints, limit.toNat?,
          (impl.toArr?.bind fun l => l.mapM parseSol), Val.toOpt? Val.toIntss? cnf, assum.toInts?,
          smods.toNatss?, (litmap.toArr?.bind fun l => l.mapM parsePairs'), mode.toNat?, hidden.toNats? with
    | some vars, some cons, some hints, some limit, some impl, some cnf, some assum, some smods,
      some litmap, some mode, some hidden =>
      let M : Model := ⟨vars, cons⟩
      let sols := if mode / 8 % 2 == 1 then [] else solutions M
      -- dict semantics of hints: a later hint for the same name replaces the earlier one
      let eff := effHints vars hints
      let hintSols := sols.filter fun a => eff.all fun h => val a h.1 == h.2
      let checks := impl.map (checkImpl M hidden sols)
      let dfs : Val := if mode / 2 % 2 == 1 then Val.ofIntss (dfsSolve true M hints limit) else Val.null
      let info : Val := match cnf with
        | none => Val.null
        | some f =>
          let wf := decide (WF f)
          let satA := wf && mode / 16 % 2 == 1 && solve (f ++ assum.map fun l => [l])
          let mchk := smods.map fun ts => Val.bool (cnfTrue (ofTrue ts) f)
          let proj : Val :=
            if wf && mode % 2 == 1 then
              -- project onto the booleans of the declared variables only (after an earlier solve of the
              -- same Model, stale auxiliary variables sit between them)
              let pv := ((litmap.flatMap fun l => l.map (·.2)).filter (· != 0)).eraseDups
              let ms := enumProj pv f
              Val.arr (ms.map fun bs =>
                let tv := (pv.zip bs).filter (·.2) |>.map (·.1)
                Val.arr (litmap.map fun l => Val.ofInts ((l.filter fun p => tv.contains p.2).map (·.1))))
            else Val.null
          Val.arr [Val.bool wf, Val.bool satA, Val.arr mchk, proj]
      (Val.arr [Val.ofIntss sols, Val.ofIntss hintSols, Val.ofInts checks,
        (if mode / 4 % 2 == 1 then Val.ofIntss (encodeModel M) else Val.null),
        Val.arr [Val.bool (chooseSat M), Val.bool (dfsFallback M)], dfs,
        info]).render
    | _, _, _, _, _, _, _, _, _, _, _ => err "bad arguments"
where
  parsePairs' (v : Val) : Option (List (Int × Nat)) := do
    (← v.toIntss?).mapM fun
      | [x, b] => if b < 0 then none else some (x, b.toNat)
      | _ => none

def handle (line : String) : String :=
  match request line with
  | some ("case", [vars, cons, hints, limit, impl, cnf, assum, smods, litmap, mode]) =>
    handleCase vars cons hints limit impl cnf assum smods litmap mode (Val.arr [])
  | some ("case", [vars, cons, hints, limit, impl, cnf, assum, smods, litmap, mode, hidden]) =>
    handleCase vars cons hints limit impl cnf assum smods litmap mode hidden
  | _ => err "bad request"

end Solvor.Cp
