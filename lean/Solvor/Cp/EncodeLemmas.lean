import Solvor.Cp.ChainLemmas
/-! Bridging lemmas between the model-level encoder (`encodeCon`, indices into the variable list)
and the chain lemmas: scoping, linearisation (`linDiff` computes `left − right`), `Exact`. -/
namespace Solvor.Cp
open Solvor.Cp.Sat

/-! ### scoping -/

def Expr.Scoped (n : Nat) : Expr → Prop
  | .var i => i < n
  | .const _ => True
  | .add a b => a.Scoped n ∧ b.Scoped n
  | .sub a b => a.Scoped n ∧ b.Scoped n
  | .rsub a _ => a.Scoped n
  | .mul a _ => a.Scoped n

/-- every variable index of the constraint refers to a declared variable -/
def Con.Scoped (n : Nat) : Con → Prop
  | .allDiff vs | .sumEq vs _ | .sumLe vs _ | .sumGe vs _ | .circuit vs => ∀ v ∈ vs, v < n
  | .eqConst v _ | .neConst v _ => v < n
  | .eqVar a b | .neVar a b => a < n ∧ b < n
  | .rel l r _ => l.Scoped n ∧ r.Scoped n
  | .noOverlap ss _ => ∀ v ∈ ss, v < n
  | .cumulative ss _ _ _ => ∀ v ∈ ss, v < n

theorem ev_mem {Vs : List EVar} {i : Nat} (h : i < Vs.length) : ev Vs i ∈ Vs := by
  unfold ev; simp only [List.getD_eq_getElem?_getD, List.getElem?_eq_getElem h, Option.getD_some]; exact List.getElem_mem h

theorem Enc.repL {β : Nat → Bool} {Vs : List EVar} {a : Asg} (h : Enc β Vs a) :
    ∀ {vs : List Nat}, (∀ v ∈ vs, v < Vs.length) → RepL β (vs.map (ev Vs)) (vs.map (val a))
  | [], _ => trivial
  | v :: vs, hs => ⟨(h.2 v (hs v List.mem_cons_self)).2,
      Enc.repL h fun w hw => hs w (List.mem_cons_of_mem _ hw)⟩

theorem Enc.of_agree {β β' : Nat → Bool} {Vs : List EVar} {a : Asg} {n : Nat} (h : Enc β Vs a)
    (hB : ∀ V ∈ Vs, V.Below n) (hag : AgreeBelow n β β') : Enc β' Vs a :=
  ⟨h.1, fun i hi => ⟨(h.2 i hi).1, (h.2 i hi).2.of_agree (hB _ (ev_mem hi)) hag⟩⟩

/-! ### `Exact`: what every constraint encoding has to deliver -/

/-- The clauses `cls`, which may use the fresh booleans `[nx, nx')`, encode the set `S` of
assignments of the variables `Vs`: every model decodes into `S`, and every encoded member of `S`
extends (changing fresh booleans only) to a model — stably under any change at or above `nx'`. -/
structure Exact (Vs : List EVar) (S : Asg → Prop) (cls : Cnf) (nx nx' : Nat) : Prop where
  mono : nx ≤ nx'
  sound : ∀ β a, Enc β Vs a → cnfTrue β cls = true → S a
  complete : ∀ β a, Enc β Vs a → S a →
    ∃ β₁, AgreeBelow nx β β₁ ∧ ∀ β₂, AgreeBelow nx' β₁ β₂ → cnfTrue β₂ cls = true

/-- an encoding without auxiliaries that is an `iff` is exact -/
theorem Exact.of_iff {Vs : List EVar} {S : Asg → Prop} {cls : Cnf} {nx : Nat}
    (hB : ∀ V ∈ Vs, V.Below nx)
    (h : ∀ β a, Enc β Vs a → (cnfTrue β cls = true ↔ S a)) : Exact Vs S cls nx nx :=
  ⟨Nat.le_refl _, fun β a he hc => (h β a he).1 hc,
   fun β a he hs => ⟨β, AgreeBelow.refl _ _, fun β₂ hag => (h β₂ a (he.of_agree hB hag)).2 hs⟩⟩

/-! ### linearisation -/

/-- value of a coefficient table plus constant -/
def lval (a : Asg) (cs : List (Nat × Int)) (c : Int) : Int := (cs.map fun p => p.2 * val a p.1).sum + c

theorem lval_addCoef (a : Asg) (cs : List (Nat × Int)) (c : Int) (i : Nat) (k : Int) :
    lval a (addCoef cs i k) c = lval a cs c + k * val a i := by
  induction cs with
  | nil => simp only [addCoef, lval, List.map_cons, List.map_nil, List.sum_cons, List.sum_nil]; ring
  | cons p cs ih =>
    obtain ⟨j, d⟩ := p
    unfold addCoef
    by_cases hj : j = i
    · subst hj; simp only [if_true, lval, List.map_cons, List.sum_cons]; ring
    · simp only [hj, if_false, lval, List.map_cons, List.sum_cons] at ih ⊢
      linarith

theorem addCoef_scoped {n : Nat} {cs : List (Nat × Int)} {i : Nat} {k : Int}
    (h : ∀ p ∈ cs, p.1 < n) (hi : i < n) : ∀ p ∈ addCoef cs i k, p.1 < n := by
  induction cs with
  | nil => simp [addCoef, hi]
  | cons q cs ih =>
    obtain ⟨j, d⟩ := q
    unfold addCoef
    by_cases hj : j = i
    · simp only [hj, if_true]
      intro p hp
      rcases List.mem_cons.1 hp with rfl | hp
      · exact hi
      · exact h p (List.mem_cons_of_mem _ hp)
    · simp only [hj, if_false]
      intro p hp
      rcases List.mem_cons.1 hp with rfl | hp
      · exact h _ List.mem_cons_self
      · exact ih (fun q hq => h q (List.mem_cons_of_mem _ hq)) p hp

theorem linWalk_spec (a : Asg) (n : Nat) : ∀ (e : Expr) (k : Int) (cs : List (Nat × Int)) (c : Int),
    e.Scoped n → (∀ p ∈ cs, p.1 < n) →
    lval a (linWalk e k (cs, c)).1 (linWalk e k (cs, c)).2 = lval a cs c + k * e.eval a ∧
      ∀ p ∈ (linWalk e k (cs, c)).1, p.1 < n
  | .var i, k, cs, c, hs, hc => by
    simp only [linWalk, Expr.eval]
    exact ⟨lval_addCoef a cs c i k, addCoef_scoped hc hs⟩
  | .const m, k, cs, c, _, hc => by
    simp only [linWalk, Expr.eval, lval]
    exact ⟨by ring, hc⟩
  | .add x y, k, cs, c, hs, hc => by
    have h1 := linWalk_spec a n x k cs c hs.1 hc
    have h2 := linWalk_spec a n y k (linWalk x k (cs, c)).1 (linWalk x k (cs, c)).2 hs.2 h1.2
    simp only [linWalk, Expr.eval]
    refine ⟨?_, h2.2⟩
    rw [h2.1, h1.1]; ring
  | .sub x y, k, cs, c, hs, hc => by
    have h1 := linWalk_spec a n x k cs c hs.1 hc
    have h2 := linWalk_spec a n y (-k) (linWalk x k (cs, c)).1 (linWalk x k (cs, c)).2 hs.2 h1.2
    simp only [linWalk, Expr.eval]
    refine ⟨?_, h2.2⟩
    rw [h2.1, h1.1]; ring
  | .rsub x m, k, cs, c, hs, hc => by
    have h1 := linWalk_spec a n x (-k) cs (c + k * m) hs hc
    simp only [linWalk, Expr.eval]
    refine ⟨?_, h1.2⟩
    rw [h1.1]; simp only [lval]; ring
  | .mul x m, k, cs, c, hs, hc => by
    have h1 := linWalk_spec a n x (k * m) cs c hs hc
    simp only [linWalk, Expr.eval]
    refine ⟨?_, h1.2⟩
    rw [h1.1]; ring

theorem foldl_addCoef_spec (a : Asg) (n : Nat) : ∀ (cr cl : List (Nat × Int)) (c : Int),
    (∀ p ∈ cr, p.1 < n) → (∀ p ∈ cl, p.1 < n) →
    lval a (cr.foldl (fun acc p => addCoef acc p.1 (-p.2)) cl) c = lval a cl c - lval a cr 0 ∧
      ∀ p ∈ cr.foldl (fun acc p => addCoef acc p.1 (-p.2)) cl, p.1 < n
  | [], cl, c, _, hl => ⟨by simp [lval], hl⟩
  | q :: cr, cl, c, hr, hl => by
    have h1 := foldl_addCoef_spec a n cr (addCoef cl q.1 (-q.2)) c
      (fun p hp => hr p (List.mem_cons_of_mem _ hp))
      (addCoef_scoped hl (hr q List.mem_cons_self))
    simp only [List.foldl_cons]
    refine ⟨?_, h1.2⟩
    rw [h1.1, lval_addCoef]; simp only [lval, List.map_cons, List.sum_cons]; ring

theorem lval_filter (a : Asg) (cs : List (Nat × Int)) (c : Int) :
    lval a (cs.filter fun p => p.2 != 0) c = lval a cs c := by
  induction cs with
  | nil => rfl
  | cons p cs ih =>
    simp only [lval] at ih ⊢
    by_cases hp : p.2 = 0
    · simp only [List.filter_cons, hp, bne_self_eq_false, Bool.false_eq_true, if_false, List.map_cons,
        List.sum_cons] at ih ⊢
      linarith
    · have : (p.2 != 0) = true := by simpa using hp
      simp only [List.filter_cons, this, if_true, List.map_cons, List.sum_cons] at ih ⊢
      linarith

/-- `linDiff` computes `left − right` with nonzero coefficients on declared variables -/
theorem linDiff_spec (a : Asg) {n : Nat} {l r : Expr} (hl : l.Scoped n) (hr : r.Scoped n) :
    lval a (linDiff l r).1 (linDiff l r).2 = l.eval a - r.eval a ∧
      (∀ p ∈ (linDiff l r).1, p.1 < n) ∧ ∀ p ∈ (linDiff l r).1, p.2 ≠ 0 := by
  have h1 := linWalk_spec a n l 1 [] 0 hl (by simp)
  have h2 := linWalk_spec a n r 1 [] 0 hr (by simp)
  have h3 := foldl_addCoef_spec a n (linWalk r 1 ([], 0)).1 (linWalk l 1 ([], 0)).1
    ((linWalk l 1 ([], 0)).2 - (linWalk r 1 ([], 0)).2) h2.2 h1.2
  simp only [linDiff]
  refine ⟨?_, ?_, ?_⟩
  · rw [lval_filter, h3.1]
    have e1 := h1.1; have e2 := h2.1
    simp only [lval, List.map_nil, List.sum_nil] at e1 e2 ⊢
    linarith
  · intro p hp; exact h3.2 p (List.mem_filter.1 hp).1
  · intro p hp; simpa using (List.mem_filter.1 hp).2

theorem dot_map (Vs : List EVar) (a : Asg) (ts : List (Nat × Int)) :
    dot (ts.map fun p => (ev Vs p.1, p.2)) (ts.map fun p => val a p.1)
      = (ts.map fun p => p.2 * val a p.1).sum := by
  induction ts with
  | nil => rfl
  | cons p ts ih =>
    simp only [dot, List.map_cons, List.zipWith_cons_cons, List.sum_cons] at ih ⊢
    rw [ih]

end Solvor.Cp
