import Solvor.Cp.ChainLemmas
/-! Bridging lemmas between the model-level encoder (`encodeCon`, indices into the variable list)
and the chain lemmas: scoping, linearisation (`linDiff` computes `left − right`), `Exact`. -/
namespace Solvor.Cp
open Solvor.Cp.Sat

/-! ### scoping -/

def Expr.Scoped (n : Nat) : Expr → Prop
  | .var i => i < n
  | .const _ => True
  | .add a b => a.Scoped n ∧ b.Scoped n
  | .sub a b => a.Scoped n ∧ b.Scoped n
  | .rsub a _ => a.Scoped n
  | .mul a _ => a.Scoped n

/-- every variable index of the constraint refers to a declared variable -/
def Con.Scoped (n : Nat) : Con → Prop
  | .allDiff vs | .sumEq vs _ | .sumLe vs _ | .sumGe vs _ | .circuit vs => ∀ v ∈ vs, v < n
  | .eqConst v _ | .neConst v _ => v < n
  | .eqVar a b | .neVar a b => a < n ∧ b < n
  | .rel l r _ => l.Scoped n ∧ r.Scoped n
  | .noOverlap ss _ => ∀ v ∈ ss, v < n
  | .cumulative ss _ _ _ => ∀ v ∈ ss, v < n

theorem ev_mem {Vs : List EVar} {i : Nat} (h : i < Vs.length) : ev Vs i ∈ Vs := by
  unfold ev; simp only [List.getD_eq_getElem?_getD, List.getElem?_eq_getElem h, Option.getD_some]; exact List.getElem_mem h

theorem Enc.repL {β : Nat → Bool} {Vs : List EVar} {a : Asg} (h : Enc β Vs a) :
    ∀ {vs : List Nat}, (∀ v ∈ vs, v < Vs.length) → RepL β (vs.map (ev Vs)) (vs.map (val a))
  | [], _ => trivial
  | v :: vs, hs => ⟨(h.2 v (hs v List.mem_cons_self)).2,
      Enc.repL h fun w hw => hs w (List.mem_cons_of_mem _ hw)⟩

theorem Enc.of_agree {β β' : Nat → Bool} {Vs : List EVar} {a : Asg} {n : Nat} (h : Enc β Vs a)
    (hB : ∀ V ∈ Vs, V.Below n) (hag : AgreeBelow n β β') : Enc β' Vs a :=
  ⟨h.1, fun i hi => ⟨(h.2 i hi).1, (h.2 i hi).2.of_agree (hB _ (ev_mem hi)) hag⟩⟩

/-! ### `Exact`: what every constraint encoding has to deliver -/

/-- The clauses `cls`, which may use the fresh booleans `[nx, nx')`, encode the set `S` of
assignments of the variables `Vs`: every model decodes into `S`, and every encoded member of `S`
extends (changing fresh booleans only) to a model — stably under any change at or above `nx'`. -/
structure Exact (Vs : List EVar) (S : Asg → Prop) (cls : Cnf) (nx nx' : Nat) : Prop where
  mono : nx ≤ nx'
  sound : ∀ β a, Enc β Vs a → cnfTrue β cls = true → S a
  complete : ∀ β a, Enc β Vs a → S a →
    ∃ β₁, AgreeBelow nx β β₁ ∧ ∀ β₂, AgreeBelow nx' β₁ β₂ → cnfTrue β₂ cls = true

/-- an encoding without auxiliaries that is an `iff` is exact -/
theorem Exact.of_iff {Vs : List EVar} {S : Asg → Prop} {cls : Cnf} {nx : Nat}
    (hB : ∀ V ∈ Vs, V.Below nx)
    (h : ∀ β a, Enc β Vs a → (cnfTrue β cls = true ↔ S a)) : Exact Vs S cls nx nx :=
  ⟨Nat.le_refl _, fun β a he hc => (h β a he).1 hc,
   fun β a he hs => ⟨β, AgreeBelow.refl _ _, fun β₂ hag => (h β₂ a (he.of_agree hB hag)).2 hs⟩⟩

/-! ### linearisation -/

/-- value of a coefficient table plus constant -/
def lval (a : Asg) (cs : List (Nat × Int)) (c : Int) : Int := (cs.map fun p => p.2 * val a p.1).sum + c

theorem lval_addCoef (a : Asg) (cs : List (Nat × Int)) (c : Int) (i : Nat) (k : Int) :
    lval a (addCoef cs i k) c = lval a cs c + k * val a i := by
  induction cs with
  | nil => simp only [addCoef, lval, List.map_cons, List.map_nil, List.sum_cons, List.sum_nil]; ring
  | cons p cs ih =>
    obtain ⟨j, d⟩ := p
    unfold addCoef
    by_cases hj : j = i
    · subst hj; simp only [if_true, lval, List.map_cons, List.sum_cons]; ring
    · simp only [hj, if_false, lval, List.map_cons, List.sum_cons] at ih ⊢
      linarith

theorem addCoef_scoped {n : Nat} {cs : List (Nat × Int)} {i : Nat} {k : Int}
    (h : ∀ p ∈ cs, p.1 < n) (hi : i < n) : ∀ p ∈ addCoef cs i k, p.1 < n := by
  induction cs with
  | nil => simp [addCoef, hi]
  | cons q cs ih =>
    obtain ⟨j, d⟩ := q
    unfold addCoef
    by_cases hj : j = i
    · simp only [hj, if_true]
      intro p hp
      rcases List.mem_cons.1 hp with rfl | hp
      · exact hi
      · exact h p (List.mem_cons_of_mem _ hp)
    · simp only [hj, if_false]
      intro p hp
      rcases List.mem_cons.1 hp with rfl | hp
      · exact h _ List.mem_cons_self
      · exact ih (fun q hq => h q (List.mem_cons_of_mem _ hq)) p hp

theorem linWalk_spec (a : Asg) (n : Nat) : ∀ (e : Expr) (k : Int) (cs : List (Nat × Int)) (c : Int),
    e.Scoped n → (∀ p ∈ cs, p.1 < n) →
    lval a (linWalk e k (cs, c)).1 (linWalk e k (cs, c)).2 = lval a cs c + k * e.eval a ∧
      ∀ p ∈ (linWalk e k (cs, c)).1, p.1 < n
  | .var i, k, cs, c, hs, hc => by
    simp only [linWalk, Expr.eval]
    exact ⟨lval_addCoef a cs c i k, addCoef_scoped hc hs⟩
  | .const m, k, cs, c, _, hc => by
    simp only [linWalk, Expr.eval, lval]
    exact ⟨by ring, hc⟩
  | .add x y, k, cs, c, hs, hc => by
    have h1 := linWalk_spec a n x k cs c hs.1 hc
    have h2 := linWalk_spec a n y k (linWalk x k (cs, c)).1 (linWalk x k (cs, c)).2 hs.2 h1.2
    simp only [linWalk, Expr.eval]
    refine ⟨?_, h2.2⟩
    rw [h2.1, h1.1]; ring
  | .sub x y, k, cs, c, hs, hc => by
    have h1 := linWalk_spec a n x k cs c hs.1 hc
    have h2 := linWalk_spec a n y (-k) (linWalk x k (cs, c)).1 (linWalk x k (cs, c)).2 hs.2 h1.2
    simp only [linWalk, Expr.eval]
    refine ⟨?_, h2.2⟩
    rw [h2.1, h1.1]; ring
  | .rsub x m, k, cs, c, hs, hc => by
    have h1 := linWalk_spec a n x (-k) cs (c + k * m) hs hc
    simp only [linWalk, Expr.eval]
    refine ⟨?_, h1.2⟩
    rw [h1.1]; simp only [lval]; ring
  | .mul x m, k, cs, c, hs, hc => by
    have h1 := linWalk_spec a n x (k * m) cs c hs hc
    simp only [linWalk, Expr.eval]
    refine ⟨?_, h1.2⟩
    rw [h1.1]; ring

theorem foldl_addCoef_spec (a : Asg) (n : Nat) : ∀ (cr cl : List (Nat × Int)) (c : Int),
    (∀ p ∈ cr, p.1 < n) → (∀ p ∈ cl, p.1 < n) →
    lval a (cr.foldl (fun acc p => addCoef acc p.1 (-p.2)) cl) c = lval a cl c - lval a cr 0 ∧
      ∀ p ∈ cr.foldl (fun acc p => addCoef acc p.1 (-p.2)) cl, p.1 < n
  | [], cl, c, _, hl => ⟨by simp [lval], hl⟩
  | q :: cr, cl, c, hr, hl => by
    have h1 := foldl_addCoef_spec a n cr (addCoef cl q.1 (-q.2)) c
      (fun p hp => hr p (List.mem_cons_of_mem _ hp))
      (addCoef_scoped hl (hr q List.mem_cons_self))
    simp only [List.foldl_cons]
    refine ⟨?_, h1.2⟩
    rw [h1.1, lval_addCoef]; simp only [lval, List.map_cons, List.sum_cons]; ring

theorem lval_filter (a : Asg) (cs : List (Nat × Int)) (c : Int) :
    lval a (cs.filter fun p => p.2 != 0) c = lval a cs c := by
  induction cs with
  | nil => rfl
  | cons p cs ih =>
    simp only [lval] at ih ⊢
    by_cases hp : p.2 = 0
    · simp only [List.filter_cons, hp, bne_self_eq_false, Bool.false_eq_true, if_false, List.map_cons,
        List.sum_cons] at ih ⊢
      linarith
    · have : (p.2 != 0) = true := by simpa using hp
      simp only [List.filter_cons, this, if_true, List.map_cons, List.sum_cons] at ih ⊢
      linarith

/-- `linDiff` computes `left − right` with nonzero coefficients on declared variables -/
theorem linDiff_spec (a : Asg) {n : Nat} {l r : Expr} (hl : l.Scoped n) (hr : r.Scoped n) :
    lval a (linDiff l r).1 (linDiff l r).2 = l.eval a - r.eval a ∧
      (∀ p ∈ (linDiff l r).1, p.1 < n) ∧ ∀ p ∈ (linDiff l r).1, p.2 ≠ 0 := by
  have h1 := linWalk_spec a n l 1 [] 0 hl (by simp)
  have h2 := linWalk_spec a n r 1 [] 0 hr (by simp)
  have h3 := foldl_addCoef_spec a n (linWalk r 1 ([], 0)).1 (linWalk l 1 ([], 0)).1
    ((linWalk l 1 ([], 0)).2 - (linWalk r 1 ([], 0)).2) h2.2 h1.2
  simp only [linDiff]
  refine ⟨?_, ?_, ?_⟩
  · rw [lval_filter, h3.1]
    have e1 := h1.1; have e2 := h2.1
    simp only [lval, List.map_nil, List.sum_nil] at e1 e2 ⊢
    linarith
  · intro p hp; exact h3.2 p (List.mem_filter.1 hp).1
  · intro p hp; simpa using (List.mem_filter.1 hp).2

theorem dot_map (Vs : List EVar) (a : Asg) (ts : List (Nat × Int)) :
    dot (ts.map fun p => (ev Vs p.1, p.2)) (ts.map fun p => val a p.1)
      = (ts.map fun p => p.2 * val a p.1).sum := by
  induction ts with
  | nil => rfl
  | cons p ts ih =>
    simp only [dot, List.map_cons, List.zipWith_cons_cons, List.sum_cons] at ih ⊢
    rw [ih]

/-! ### list-level exactness of the sum and linear encoders -/

theorem RepL.pos_of_below {Xs : List EVar} {n : Nat} (h : ∀ X ∈ Xs, X.Below n) : ∀ X ∈ Xs, 0 < X.base :=
  fun X hX => (h X hX).1

theorem stable_of_iff {β : Nat → Bool} {cls : Cnf} {nx : Nat} {P : Prop}
    (h : ∀ β₂, AgreeBelow nx β β₂ → (cnfTrue β₂ cls = true ↔ P)) (hp : P) :
    ∃ β₁, AgreeBelow nx β β₁ ∧ ∀ β₂, AgreeBelow nx β₁ β₂ → cnfTrue β₂ cls = true :=
  ⟨β, AgreeBelow.refl _ _, fun β₂ hag => (h β₂ hag).2 hp⟩

theorem encSumEq_mono (Xs : List EVar) (t : Int) (nx : Nat) : nx ≤ (encSumEq Xs t nx).2 := by
  unfold encSumEq
  split
  · exact Nat.le_refl _
  · split
    · exact Nat.le_refl _
    · split
      · exact Nat.le_refl _
      · exact encSumEqChain_mono _ _ _ _ _

theorem encSumEq_sound {β : Nat → Bool} {Xs : List EVar} {xs : List Int} {t : Int} {nx : Nat}
    (hpos : ∀ X ∈ Xs, 0 < X.base) (hnx : 0 < nx) (hr : RepL β Xs xs)
    (h : cnfTrue β (encSumEq Xs t nx).1 = true) : xs.sum = t := by
  have hb := RepL.sum_bounds hr
  unfold encSumEq at h
  match Xs, xs, hr with
  | [], [], _ =>
    simp only at h
    by_cases ht : t = 0
    · simp [ht]
    · have : (t != 0) = true := by simpa using ht
      simp [this, cnfTrue_empty_clause] at h
  | X :: rest, x :: xs', hr =>
    simp only at h
    by_cases hchk : (decide (t < sumLb (X :: rest)) || decide (t > sumUb (X :: rest))) = true
    · rw [if_pos hchk] at h; simp [cnfTrue_empty_clause] at h
    · rw [if_neg hchk] at h
      match rest, xs', hr with
      | [], [], hr =>
        simp only at h
        have := (encEqConst_iff (hpos X List.mem_cons_self) hr.1 t).1 h
        simp [this]
      | Y :: rest', y :: ys, hr =>
        simp only at h
        have := encSumEqChain_sound rest' ys X Y x y t nx (hpos X List.mem_cons_self)
          (hpos Y (List.mem_cons_of_mem _ List.mem_cons_self))
          (fun Z hZ => hpos Z (List.mem_cons_of_mem _ (List.mem_cons_of_mem _ hZ))) hnx
          hr.1.marks hr.2.1 hr.2.2 h
        simp only [List.sum_cons]; omega

theorem encSumEq_complete {β : Nat → Bool} {Xs : List EVar} {xs : List Int} {t : Int} {nx : Nat}
    (hB : ∀ X ∈ Xs, X.Below nx) (hnx : 0 < nx) (hr : RepL β Xs xs) (hsum : xs.sum = t) :
    ∃ β₁, AgreeBelow nx β β₁ ∧
      ∀ β₂, AgreeBelow (encSumEq Xs t nx).2 β₁ β₂ → cnfTrue β₂ (encSumEq Xs t nx).1 = true := by
  have hb := RepL.sum_bounds hr
  unfold encSumEq
  match Xs, xs, hr with
  | [], [], _ =>
    refine ⟨β, AgreeBelow.refl _ _, fun β₂ _ => ?_⟩
    simp only [List.sum_nil] at hsum
    simp [← hsum, cnfTrue_nil]
  | X :: rest, x :: xs', hr =>
    have hchk : ¬ (decide (t < sumLb (X :: rest)) || decide (t > sumUb (X :: rest))) = true := by
      simp only [Bool.or_eq_true, decide_eq_true_eq]; omega
    simp only [if_neg hchk]
    match rest, xs', hr with
    | [], [], hr =>
      refine ⟨β, AgreeBelow.refl _ _, fun β₂ hag => ?_⟩
      have hX := hB X List.mem_cons_self
      simp only at hag ⊢
      rw [encEqConst_iff hX.1 (hr.1.of_agree hX hag)]
      simpa using hsum
    | Y :: rest', y :: ys, hr =>
      simp only
      exact encSumEqChain_complete rest' ys β X Y x y t nx (hB X List.mem_cons_self)
        (hB Y (List.mem_cons_of_mem _ List.mem_cons_self))
        (fun Z hZ => hB Z (List.mem_cons_of_mem _ (List.mem_cons_of_mem _ hZ))) hnx
        hr.1 hr.2.1 hr.2.2 (by simp only [List.sum_cons] at hsum; omega)

theorem encSumLe_mono (Xs : List EVar) (t : Int) (nx : Nat) : nx ≤ (encSumLe Xs t nx).2 := by
  unfold encSumLe
  split
  · exact Nat.le_refl _
  · exact Nat.le_refl _
  · exact encSumLeChain_mono _ _ _ _ _

theorem encSumLe_sound {β : Nat → Bool} {Xs : List EVar} {xs : List Int} {t : Int} {nx : Nat}
    (hpos : ∀ X ∈ Xs, 0 < X.base) (hnx : 0 < nx) (hr : RepL β Xs xs)
    (h : cnfTrue β (encSumLe Xs t nx).1 = true) : xs.sum ≤ t := by
  unfold encSumLe at h
  match Xs, xs, hr with
  | [], [], _ =>
    simp only at h
    by_cases ht : t < 0
    · simp [ht, cnfTrue_empty_clause] at h
    · simp; omega
  | [X], [x], hr =>
    simp only at h
    have := (forbid1_iff (hpos X List.mem_cons_self) hr.1 _).1 h
    simp at this; simp; omega
  | X :: Y :: rest', x :: y :: ys, hr =>
    simp only at h
    have := encSumLeChain_sound rest' ys X Y x y t nx (hpos X List.mem_cons_self)
      (hpos Y (List.mem_cons_of_mem _ List.mem_cons_self))
      (fun Z hZ => hpos Z (List.mem_cons_of_mem _ (List.mem_cons_of_mem _ hZ))) hnx
      hr.1.marks hr.2.1 hr.2.2 h
    simp only [List.sum_cons]; omega

theorem encSumLe_complete {β : Nat → Bool} {Xs : List EVar} {xs : List Int} {t : Int} {nx : Nat}
    (hB : ∀ X ∈ Xs, X.Below nx) (hnx : 0 < nx) (hr : RepL β Xs xs) (hsum : xs.sum ≤ t) :
    ∃ β₁, AgreeBelow nx β β₁ ∧
      ∀ β₂, AgreeBelow (encSumLe Xs t nx).2 β₁ β₂ → cnfTrue β₂ (encSumLe Xs t nx).1 = true := by
  unfold encSumLe
  match Xs, xs, hr with
  | [], [], _ =>
    refine ⟨β, AgreeBelow.refl _ _, fun β₂ _ => ?_⟩
    simp only [List.sum_nil] at hsum
    have : ¬ t < 0 := by omega
    simp [this, cnfTrue_nil]
  | [X], [x], hr =>
    refine ⟨β, AgreeBelow.refl _ _, fun β₂ hag => ?_⟩
    have hX := hB X List.mem_cons_self
    simp only at hag ⊢
    rw [forbid1_iff hX.1 (hr.1.of_agree hX hag)]
    simp at hsum; simp; omega
  | X :: Y :: rest', x :: y :: ys, hr =>
    simp only
    exact encSumLeChain_complete rest' ys β X Y x y t nx (hB X List.mem_cons_self)
      (hB Y (List.mem_cons_of_mem _ List.mem_cons_self))
      (fun Z hZ => hB Z (List.mem_cons_of_mem _ (List.mem_cons_of_mem _ hZ))) hnx
      hr.1 hr.2.1 hr.2.2 (by simp only [List.sum_cons] at hsum; omega)

theorem encSumGe_mono (Xs : List EVar) (t : Int) (nx : Nat) : nx ≤ (encSumGe Xs t nx).2 := by
  unfold encSumGe
  split
  · exact Nat.le_refl _
  · exact Nat.le_refl _
  · exact encSumGeChain_mono _ _ _ _ _

theorem encSumGe_sound {β : Nat → Bool} {Xs : List EVar} {xs : List Int} {t : Int} {nx : Nat}
    (hpos : ∀ X ∈ Xs, 0 < X.base) (hnx : 0 < nx) (hr : RepL β Xs xs)
    (h : cnfTrue β (encSumGe Xs t nx).1 = true) : xs.sum ≥ t := by
  unfold encSumGe at h
  match Xs, xs, hr with
  | [], [], _ =>
    simp only at h
    by_cases ht : t > 0
    · simp [ht, cnfTrue_empty_clause] at h
    · simp; omega
  | [X], [x], hr =>
    simp only at h
    have := (forbid1_iff (hpos X List.mem_cons_self) hr.1 _).1 h
    simp at this; simp; omega
  | X :: Y :: rest', x :: y :: ys, hr =>
    simp only at h
    have := encSumGeChain_sound rest' ys X Y x y t nx (hpos X List.mem_cons_self)
      (hpos Y (List.mem_cons_of_mem _ List.mem_cons_self))
      (fun Z hZ => hpos Z (List.mem_cons_of_mem _ (List.mem_cons_of_mem _ hZ))) hnx
      hr.1.marks hr.2.1 hr.2.2 h
    simp only [List.sum_cons]; omega

theorem encSumGe_complete {β : Nat → Bool} {Xs : List EVar} {xs : List Int} {t : Int} {nx : Nat}
    (hB : ∀ X ∈ Xs, X.Below nx) (hnx : 0 < nx) (hr : RepL β Xs xs) (hsum : xs.sum ≥ t) :
    ∃ β₁, AgreeBelow nx β β₁ ∧
      ∀ β₂, AgreeBelow (encSumGe Xs t nx).2 β₁ β₂ → cnfTrue β₂ (encSumGe Xs t nx).1 = true := by
  unfold encSumGe
  match Xs, xs, hr with
  | [], [], _ =>
    refine ⟨β, AgreeBelow.refl _ _, fun β₂ _ => ?_⟩
    simp only [List.sum_nil] at hsum
    have : ¬ t > 0 := by omega
    simp [this, cnfTrue_nil]
  | [X], [x], hr =>
    refine ⟨β, AgreeBelow.refl _ _, fun β₂ hag => ?_⟩
    have hX := hB X List.mem_cons_self
    simp only at hag ⊢
    rw [forbid1_iff hX.1 (hr.1.of_agree hX hag)]
    simp at hsum; simp; omega
  | X :: Y :: rest', x :: y :: ys, hr =>
    simp only
    exact encSumGeChain_complete rest' ys β X Y x y t nx (hB X List.mem_cons_self)
      (hB Y (List.mem_cons_of_mem _ List.mem_cons_self))
      (fun Z hZ => hB Z (List.mem_cons_of_mem _ (List.mem_cons_of_mem _ hZ))) hnx
      hr.1 hr.2.1 hr.2.2 (by simp only [List.sum_cons] at hsum; omega)

theorem encLinear_mono (ts : List (EVar × Int)) (const : Int) (isNe : Bool) (nx : Nat) :
    nx ≤ (encLinear ts const isNe nx).2 := by
  unfold encLinear
  split
  · exact Nat.le_refl _
  · exact Nat.le_refl _
  · exact encLinearChain_mono _ _ _ _ _ _ _ _

theorem encLinear1_iff {β : Nat → Bool} {X : EVar} {a x const : Int} {isNe : Bool}
    (hX : 0 < X.base) (ha : a ≠ 0) (hx : Rep β X x) :
    cnfTrue β (if (-const) % a == 0 then
        (if isNe then encNeConst X ((-const) / a) else encEqConst X ((-const) / a))
      else if isNe then [] else [[]]) = true ↔ relHolds isNe (a * x + const) := by
  unfold relHolds
  by_cases hm : (-const) % a = 0
  · have hd : a ∣ -const := Int.dvd_of_emod_eq_zero hm
    have hq := Int.mul_ediv_cancel' hd
    have key : x = (-const) / a ↔ a * x + const = 0 := by
      constructor
      · intro h; rw [h]; linarith
      · intro h
        have h1 : a * x = a * ((-const) / a) := by linarith
        exact Int.eq_of_mul_eq_mul_left ha h1
    simp only [hm, beq_self_eq_true, if_true]
    cases isNe
    · simp only [Bool.false_eq_true, if_false]
      rw [encEqConst_iff hX hx]; exact key
    · simp only [if_true]
      rw [encNeConst_iff hX hx]; exact not_congr key
  · have hb : ((-const) % a == 0) = false := by simpa using hm
    have hne : a * x + const ≠ 0 := by
      intro h
      apply hm
      have : -const = a * x := by linarith
      rw [this, Int.mul_emod_right]
    simp only [hb, Bool.false_eq_true, if_false]
    cases isNe
    · simp [cnfTrue_empty_clause, hne]
    · simp [cnfTrue_nil, hne]

theorem encLinear_sound {β : Nat → Bool} {ts : List (EVar × Int)} {zs : List Int} {const : Int}
    {isNe : Bool} {nx : Nat} (hpos : ∀ p ∈ ts, 0 < p.1.base) (hnx : 0 < nx) (hc : ∀ p ∈ ts, p.2 ≠ 0)
    (hr : RepL β (ts.map (·.1)) zs) (h : cnfTrue β (encLinear ts const isNe nx).1 = true) :
    relHolds isNe (dot ts zs + const) := by
  unfold encLinear at h
  match ts, zs, hr with
  | [], [], _ =>
    simp only at h
    unfold relHolds
    cases isNe <;> by_cases hk : const = 0 <;> simp_all [dot, cnfTrue_empty_clause]
  | [(X, a)], [x], hr =>
    simp only at h
    have := (encLinear1_iff (hpos (X, a) List.mem_cons_self) (hc (X, a) List.mem_cons_self) hr.1).1 h
    simpa [dot] using this
  | (X, a) :: (Y, b) :: rest, x :: y :: zs', hr =>
    simp only at h
    have := encLinearChain_sound rest zs' X a Y b x y const isNe nx (hpos (X, a) List.mem_cons_self)
      (hpos (Y, b) (List.mem_cons_of_mem _ List.mem_cons_self))
      (fun p hp => hpos p (List.mem_cons_of_mem _ (List.mem_cons_of_mem _ hp))) hnx
      (hc (Y, b) (List.mem_cons_of_mem _ List.mem_cons_self))
      (fun p hp => hc p (List.mem_cons_of_mem _ (List.mem_cons_of_mem _ hp)))
      hr.1.marks hr.2.1 hr.2.2 h
    have e : dot ((X, a) :: (Y, b) :: rest) (x :: y :: zs') + const
        = a * x + b * y + dot rest zs' + const := by
      simp only [dot, List.zipWith_cons_cons, List.sum_cons]; ring
    rw [e]; exact this

theorem encLinear_complete {β : Nat → Bool} {ts : List (EVar × Int)} {zs : List Int} {const : Int}
    {isNe : Bool} {nx : Nat} (hB : ∀ p ∈ ts, p.1.Below nx) (hnx : 0 < nx) (hc : ∀ p ∈ ts, p.2 ≠ 0)
    (hr : RepL β (ts.map (·.1)) zs) (hrel : relHolds isNe (dot ts zs + const)) :
    ∃ β₁, AgreeBelow nx β β₁ ∧
      ∀ β₂, AgreeBelow (encLinear ts const isNe nx).2 β₁ β₂ →
        cnfTrue β₂ (encLinear ts const isNe nx).1 = true := by
  unfold encLinear
  match ts, zs, hr with
  | [], [], _ =>
    refine ⟨β, AgreeBelow.refl _ _, fun β₂ _ => ?_⟩
    unfold relHolds at hrel
    cases isNe <;> by_cases hk : const = 0 <;> simp_all [dot, cnfTrue_nil]
  | [(X, a)], [x], hr =>
    refine ⟨β, AgreeBelow.refl _ _, fun β₂ hag => ?_⟩
    have hX := hB (X, a) List.mem_cons_self
    simp only at hag ⊢
    rw [encLinear1_iff hX.1 (hc (X, a) List.mem_cons_self) (hr.1.of_agree hX hag)]
    simpa [dot] using hrel
  | (X, a) :: (Y, b) :: rest, x :: y :: zs', hr =>
    simp only
    have e : dot ((X, a) :: (Y, b) :: rest) (x :: y :: zs') + const
        = a * x + b * y + dot rest zs' + const := by
      simp only [dot, List.zipWith_cons_cons, List.sum_cons]; ring
    exact encLinearChain_complete rest zs' β X a Y b x y const isNe nx (hB (X, a) List.mem_cons_self)
      (hB (Y, b) (List.mem_cons_of_mem _ List.mem_cons_self))
      (fun p hp => hB p (List.mem_cons_of_mem _ (List.mem_cons_of_mem _ hp))) hnx
      (hc (Y, b) (List.mem_cons_of_mem _ List.mem_cons_self))
      (fun p hp => hc p (List.mem_cons_of_mem _ (List.mem_cons_of_mem _ hp)))
      hr.1 hr.2.1 hr.2.2 (by rw [← e]; exact hrel)

end Solvor.Cp
