import Solvor.Cp.Model
import Solvor.Cp.DpllLemmas
import Solvor.Cp.EncodeLemmas
import Solvor.Cp.ModelLemmas
import Solvor.Cp.PropLemmas
import Solvor.Cp.PropComplete
import Solvor.Cp.CumLemmas
import Solvor.Cp.CircuitEnc
/-! Cp: property theorems only (helper lemmas live in Lemmas.lean, DpllLemmas.lean,
ChainLemmas.lean, EncodeLemmas.lean, PropLemmas.lean).

T-spec (verified checkers used by the drivers on every explored case):
  `check_iff`, `mem_solutions`, `solve_correct`, `enumProj_spec`, `cnfTrue` is the definition.
T-model, C06 (encoder): `encode_vars_decode`, `enc_all_different`, `enc_eq_const`, `enc_ne_const`,
  `enc_eq_var`, `enc_ne_var`, `enc_no_overlap`, `enc_linear` (every `ne_expr` shape),
  `enc_sum_eq`, `enc_sum_le`, `enc_sum_ge`, `enc_cumulative`, `encode_compositional`,
  `enc_circuit`, `encode_model_exact` (every constraint kind).
T-model, C05 (DFS): see the second half of the file. -/
namespace Solvor.Cp
open Solvor.Cp.Sat

/-! ## T-spec -/

/-- The Bool evaluator used by the driver decides the spec. -/
theorem check_decides (a : Asg) (c : Con) : check a c = true ↔ Holds a c := check_iff a c

example : check [0, 1] (.rel (.add (.var 0) (.var 1)) (.const 10) false) = false := by decide

/-- The exhaustive enumerator lists exactly the solutions of the model. -/
theorem solutions_complete {M : Model} {a : Asg} : a ∈ solutions M ↔ IsSolution M a := mem_solutions

example : solutions ⟨[⟨0, 2⟩, ⟨0, 2⟩], [.rel (.add (.var 0) (.var 1)) (.const 2) false, .allDiff [0, 1]]⟩
    = [[0, 2], [2, 0]] := by decide

/-- The reference DPLL decides satisfiability of every well-formed clause list. -/
theorem solve_correct (f : Cnf) (h : WF f) : solve f = true ↔ ∃ σ, cnfTrue σ f = true :=
  dpll_correct _ f h (by omega)

example : WF [[1, 2], [-1], [-2, 3]] ∧ solve [[1, 2], [-1], [-2, 3]] = true := by decide

/-- The projected enumerator lists exactly the restrictions to `vs` of the models of `f`. -/
theorem enumProj_spec : ∀ (vs : List Nat) (f : Cnf), WF f → (∀ v ∈ vs, v ≠ 0) → vs.Nodup →
    ∀ bs : List Bool, bs ∈ enumProj vs f ↔ ∃ σ, cnfTrue σ f = true ∧ vs.map σ = bs
  | [], f, hwf, _, _, bs => by
    simp only [enumProj, List.map_nil]
    by_cases hs : solve f = true
    · rw [if_pos hs]
      have := (solve_correct f hwf).1 hs
      constructor
      · intro h; obtain ⟨σ, hσ⟩ := this; exact ⟨σ, hσ, by simpa using (List.mem_singleton.1 h).symm⟩
      · rintro ⟨_, _, rfl⟩; simp
    · rw [if_neg hs]
      simp only [List.not_mem_nil, false_iff, not_exists, not_and]
      intro σ hσ; exact absurd ((solve_correct f hwf).2 ⟨σ, hσ⟩) hs
  | v :: vs, f, hwf, h0, hnd, bs => by
    have hv0 : (v : Int) ≠ 0 := by have := h0 v List.mem_cons_self; omega
    have hnv0 : -(v : Int) ≠ 0 := by omega
    have hvs : v ∉ vs := (List.nodup_cons.1 hnd).1
    have ih1 := enumProj_spec vs (assign (v : Int) f) (WF_assign hwf)
      (fun w hw => h0 w (List.mem_cons_of_mem _ hw)) (List.nodup_cons.1 hnd).2
    have ih2 := enumProj_spec vs (assign (-(v : Int)) f) (WF_assign hwf)
      (fun w hw => h0 w (List.mem_cons_of_mem _ hw)) (List.nodup_cons.1 hnd).2
    have hlt : ∀ σ : Nat → Bool, litTrue σ (v : Int) = σ v := by
      intro σ; unfold litTrue
      have : (0 : Int) < (v : Int) := by omega
      simp only [this, if_true, Int.natAbs_natCast]
    have hmap : ∀ (σ : Nat → Bool) (l : Int), l.natAbs = v → vs.map (setLit σ l) = vs.map σ := by
      intro σ l hl
      apply List.map_congr_left
      intro w hw
      apply setLit_apply_ne
      rw [hl]; rintro rfl; exact hvs hw
    simp only [enumProj]
    by_cases he : f.any List.isEmpty = true
    · rw [if_pos he]
      simp only [List.not_mem_nil, false_iff, not_exists, not_and]
      intro σ hσ; rw [cnfTrue_of_empty_mem he] at hσ; cases hσ
    · rw [if_neg he]
      simp only [List.mem_append, List.mem_map, List.map_cons]
      constructor
      · rintro (⟨bs', hb, rfl⟩ | ⟨bs', hb, rfl⟩)
        · obtain ⟨σ, hσ, hm⟩ := (ih1 bs').1 hb
          refine ⟨setLit σ (v : Int), ?_, ?_⟩
          · rw [← cnfTrue_assign hv0 litTrue_setLit_self, cnfTrue_setLit_assign]; exact hσ
          · rw [hmap σ _ (by simp), hm]
            have : setLit σ (v : Int) v = true := by
              have := h0 v List.mem_cons_self
              simp [setLit]; omega
            rw [this]
        · obtain ⟨σ, hσ, hm⟩ := (ih2 bs').1 hb
          refine ⟨setLit σ (-(v : Int)), ?_, ?_⟩
          · rw [← cnfTrue_assign hnv0 litTrue_setLit_self, cnfTrue_setLit_assign]; exact hσ
          · rw [hmap σ _ (by simp), hm]
            have : setLit σ (-(v : Int)) v = false := by simp [setLit]
            rw [this]
      · rintro ⟨σ, hσ, rfl⟩
        cases hb : σ v
        · right
          refine ⟨vs.map σ, (ih2 _).2 ⟨σ, ?_, rfl⟩, rfl⟩
          rw [cnfTrue_assign hnv0 (by rw [litTrue_neg hv0, hlt, hb]; rfl)]; exact hσ
        · left
          refine ⟨vs.map σ, (ih1 _).2 ⟨σ, ?_, rfl⟩, rfl⟩
          rw [cnfTrue_assign hv0 (by rw [hlt, hb])]; exact hσ

example : enumProj [1, 2] [[1, 2, 3], [-1, -2], [-3]] = [[true, false], [false, true]] := by decide

/-! ## T-model, C06: the encoder

Setting: `Vs` are the encoded named variables, `Enc β Vs a` says that the Boolean assignment `β`
encodes the integer assignment `a` (variable `i` has exactly the boolean of `a[i]` true, inside its
domain).  For auxiliary-free kinds the theorem is `β ⊨ enc(K) ↔ a ⊨ K`; for kinds with auxiliary
variables it is `Exact`: every model decodes to a solution, and every encoded solution extends on
the fresh booleans to a model. -/

/-- **encode_vars_decode**: the exactly-one clauses of the named variables hold iff `β` encodes an
assignment; that assignment is unique, inside the domains, and is what `decode_sat_solution`
returns. -/
theorem encode_vars_decode (ds : List VarDecl) (β : Nat → Bool) :
    (cnfTrue β (encodeVars (mkVars ds 1).1) = true ↔ ∃ a, Enc β (mkVars ds 1).1 a) ∧
    ∀ a, Enc β (mkVars ds 1).1 a →
      InDom a ds ∧ (mkVars ds 1).1.map (decodeVar β) = a.map some ∧
      ∀ b, Enc β (mkVars ds 1).1 b → b = a := by
  have hpos : ∀ V ∈ (mkVars ds 1).1, 0 < V.base := fun V hV => (mkVars_below ds 1 (by omega) V hV).1
  constructor
  · by_cases hne : ∀ d ∈ ds, d.lb ≤ d.ub
    · rw [encodeVars_iff hpos (mkVars_nonempty ds 1 hne)]
      constructor
      · rintro ⟨a, ha⟩; exact ⟨a, enc_iff_repL.2 ⟨ha, hpos⟩⟩
      · rintro ⟨a, ha⟩; exact ⟨a, (enc_iff_repL.1 ha).1⟩
    · -- an empty domain: the (repaired) clauses are unsatisfiable and nothing can be encoded
      simp only [not_forall] at hne
      obtain ⟨d, hd, hlt⟩ := hne
      obtain ⟨V, hV, h1, h2⟩ := mkVars_decl ds 1 d hd
      rw [encodeVars_empty ⟨V, hV, by omega⟩]
      simp only [Bool.false_eq_true, false_iff, not_exists]
      intro a ha
      exact hlt (inDom_nonempty (mkVars_bounds ds 1 a (enc_iff_repL.1 ha).1) d hd)
  · intro a ha
    have hr := (enc_iff_repL.1 ha).1
    exact ⟨mkVars_bounds ds 1 a hr, hr.decode, fun b hb => RepL.unique (enc_iff_repL.1 hb).1 hr⟩

example : (mkVars [⟨-2, 1⟩, ⟨3, 5⟩] 1).1 = [⟨-2, 1, 1⟩, ⟨3, 5, 5⟩] := by decide

/-- **enc_eq_const** -/
theorem enc_eq_const {β : Nat → Bool} {Vs : List EVar} {a : Asg} (h : Enc β Vs a) {v : Nat} (c : Int)
    (nx : Nat) (hv : v < Vs.length) :
    cnfTrue β (encodeCon Vs (.eqConst v c) nx).1 = true ↔ Holds a (.eqConst v c) :=
  encEqConst_iff (h.2 v hv).1 (h.2 v hv).2 c

/-- **enc_ne_const** -/
theorem enc_ne_const {β : Nat → Bool} {Vs : List EVar} {a : Asg} (h : Enc β Vs a) {v : Nat} (c : Int)
    (nx : Nat) (hv : v < Vs.length) :
    cnfTrue β (encodeCon Vs (.neConst v c) nx).1 = true ↔ Holds a (.neConst v c) :=
  encNeConst_iff (h.2 v hv).1 (h.2 v hv).2 c

/-- **enc_eq_var** -/
theorem enc_eq_var {β : Nat → Bool} {Vs : List EVar} {a : Asg} (h : Enc β Vs a) {x y : Nat}
    (nx : Nat) (hx : x < Vs.length) (hy : y < Vs.length) :
    cnfTrue β (encodeCon Vs (.eqVar x y) nx).1 = true ↔ Holds a (.eqVar x y) :=
  encEqVar_iff (h.2 x hx).1 (h.2 y hy).1 (h.2 x hx).2 (h.2 y hy).2

/-- **enc_ne_var** -/
theorem enc_ne_var {β : Nat → Bool} {Vs : List EVar} {a : Asg} (h : Enc β Vs a) {x y : Nat}
    (nx : Nat) (hx : x < Vs.length) (hy : y < Vs.length) :
    cnfTrue β (encodeCon Vs (.neVar x y) nx).1 = true ↔ Holds a (.neVar x y) :=
  encNeVar_iff (h.2 x hx).1 (h.2 y hy).1 (h.2 x hx).2 (h.2 y hy).2

/-- **enc_all_different** -/
theorem enc_all_different {β : Nat → Bool} {Vs : List EVar} {a : Asg} (h : Enc β Vs a) {vs : List Nat}
    (nx : Nat) (hs : ∀ v ∈ vs, v < Vs.length) :
    cnfTrue β (encodeCon Vs (.allDiff vs) nx).1 = true ↔ Holds a (.allDiff vs) :=
  encAllDiff_iff h hs

/-- **enc_no_overlap** -/
theorem enc_no_overlap {β : Nat → Bool} {Vs : List EVar} {a : Asg} (h : Enc β Vs a) {ss : List Nat}
    (ds : List Int) (nx : Nat) (hs : ∀ v ∈ ss, v < Vs.length) :
    cnfTrue β (encodeCon Vs (.noOverlap ss ds) nx).1 = true ↔ Holds a (.noOverlap ss ds) :=
  encNoOverlap_iff h ds hs

-- non-vacuity: a concrete β encoding x0 = 1, x1 = 0 over domains 0..1 / 0..2
example : Enc (fun n => n == 2 || n == 3) [⟨0, 1, 1⟩, ⟨0, 2, 3⟩] [1, 0] := by
  refine ⟨rfl, fun i hi => ?_⟩
  have : i = 0 ∨ i = 1 := by simp at hi; omega
  rcases this with rfl | rfl
  · refine ⟨by decide, ⟨by decide, by decide⟩, fun v h1 h2 => ?_⟩
    have : v = 0 ∨ v = 1 := by simp [ev] at h1 h2; omega
    rcases this with rfl | rfl <;> simp [ev, val, EVar.var]
  · refine ⟨by decide, ⟨by decide, by decide⟩, fun v h1 h2 => ?_⟩
    have : v = 0 ∨ v = 1 ∨ v = 2 := by simp [ev] at h1 h2; omega
    rcases this with rfl | rfl | rfl <;> simp [ev, val, EVar.var]

private theorem below_map {Vs : List EVar} {nx : Nat} (hB : ∀ V ∈ Vs, V.Below nx) {vs : List Nat}
    (hs : ∀ v ∈ vs, v < Vs.length) : ∀ X ∈ vs.map (ev Vs), X.Below nx := by
  intro X hX
  obtain ⟨v, hv, rfl⟩ := List.mem_map.1 hX
  exact hB _ (ev_mem (hs v hv))

/-- **enc_sum_eq** (chained partial sums) -/
theorem enc_sum_eq {Vs : List EVar} {nx : Nat} (hB : ∀ V ∈ Vs, V.Below nx) (hnx : 0 < nx)
    {vs : List Nat} (t : Int) (hs : ∀ v ∈ vs, v < Vs.length) :
    Exact Vs (fun a => Holds a (.sumEq vs t)) (encodeCon Vs (.sumEq vs t) nx).1 nx
      (encodeCon Vs (.sumEq vs t) nx).2 :=
  ⟨encSumEq_mono _ _ _,
   fun _ _ he hc => encSumEq_sound (RepL.pos_of_below (below_map hB hs)) hnx (he.repL hs) hc,
   fun _ _ he hh => encSumEq_complete (below_map hB hs) hnx (he.repL hs) hh⟩

/-- **enc_sum_le** -/
theorem enc_sum_le {Vs : List EVar} {nx : Nat} (hB : ∀ V ∈ Vs, V.Below nx) (hnx : 0 < nx)
    {vs : List Nat} (t : Int) (hs : ∀ v ∈ vs, v < Vs.length) :
    Exact Vs (fun a => Holds a (.sumLe vs t)) (encodeCon Vs (.sumLe vs t) nx).1 nx
      (encodeCon Vs (.sumLe vs t) nx).2 :=
  ⟨encSumLe_mono _ _ _,
   fun _ _ he hc => encSumLe_sound (RepL.pos_of_below (below_map hB hs)) hnx (he.repL hs) hc,
   fun _ _ he hh => encSumLe_complete (below_map hB hs) hnx (he.repL hs) hh⟩

/-- **enc_sum_ge** -/
theorem enc_sum_ge {Vs : List EVar} {nx : Nat} (hB : ∀ V ∈ Vs, V.Below nx) (hnx : 0 < nx)
    {vs : List Nat} (t : Int) (hs : ∀ v ∈ vs, v < Vs.length) :
    Exact Vs (fun a => Holds a (.sumGe vs t)) (encodeCon Vs (.sumGe vs t) nx).1 nx
      (encodeCon Vs (.sumGe vs t) nx).2 :=
  ⟨encSumGe_mono _ _ _,
   fun _ _ he hc => encSumGe_sound (RepL.pos_of_below (below_map hB hs)) hnx (he.repL hs) hc,
   fun _ _ he hh => encSumGe_complete (below_map hB hs) hnx (he.repL hs) hh⟩

-- non-vacuity of the hypotheses of `enc_sum_*` / `enc_linear`: the variables of a real model
example : (∀ V ∈ (mkVars [⟨0, 2⟩, ⟨1, 3⟩, ⟨-1, 1⟩, ⟨0, 2⟩] 1).1, V.Below (mkVars [⟨0, 2⟩, ⟨1, 3⟩, ⟨-1, 1⟩, ⟨0, 2⟩] 1).2) ∧
    0 < (mkVars [⟨0, 2⟩, ⟨1, 3⟩, ⟨-1, 1⟩, ⟨0, 2⟩] 1).2 ∧
    (∀ v ∈ [0, 1, 2, 3], v < (mkVars [⟨0, 2⟩, ⟨1, 3⟩, ⟨-1, 1⟩, ⟨0, 2⟩] 1).1.length) :=
  ⟨mkVars_below _ 1 (by omega), by decide, by decide⟩

-- the chained encoding of x0+x1+x2+x3 = 4 over these variables: 12 named + 12 auxiliary booleans
example : (encodeCon (mkVars [⟨0, 2⟩, ⟨1, 3⟩, ⟨-1, 1⟩, ⟨0, 2⟩] 1).1 (.sumEq [0, 1, 2, 3] 4) 13).2 = 25 := by
  decide

/-- **enc_linear** (`enc_ne_expr_*` for every shape the operators can build): `left (≠|=) right`
for arbitrary linear expressions over `+`, `-`, `c - x`, `* c`. -/
theorem enc_linear {Vs : List EVar} {nx : Nat} (hB : ∀ V ∈ Vs, V.Below nx) (hnx : 0 < nx)
    {l r : Expr} (isNe : Bool) (hl : l.Scoped Vs.length) (hr : r.Scoped Vs.length) :
    Exact Vs (fun a => Holds a (.rel l r isNe)) (encodeCon Vs (.rel l r isNe) nx).1 nx
      (encodeCon Vs (.rel l r isNe) nx).2 := by
  have hts : ∀ (a : Asg), (∀ p ∈ (linDiff l r).1, p.1 < Vs.length) ∧ (∀ p ∈ (linDiff l r).1, p.2 ≠ 0) :=
    fun a => (linDiff_spec a hl hr).2
  have hsc := (hts []).1
  have hnz := (hts []).2
  have hmapB : ∀ p ∈ (linDiff l r).1.map (fun p => (ev Vs p.1, p.2)), p.1.Below nx := by
    intro p hp; obtain ⟨q, hq, rfl⟩ := List.mem_map.1 hp; exact hB _ (ev_mem (hsc q hq))
  have hmapC : ∀ p ∈ (linDiff l r).1.map (fun p => (ev Vs p.1, p.2)), p.2 ≠ 0 := by
    intro p hp; obtain ⟨q, hq, rfl⟩ := List.mem_map.1 hp; exact hnz q hq
  have hrepL : ∀ {β a}, Enc β Vs a →
      RepL β (((linDiff l r).1.map fun p => (ev Vs p.1, p.2)).map (·.1))
        ((linDiff l r).1.map fun p => val a p.1) := by
    intro β a he
    have := he.repL (vs := (linDiff l r).1.map (·.1))
      (by intro v hv; obtain ⟨q, hq, rfl⟩ := List.mem_map.1 hv; exact hsc q hq)
    simpa [List.map_map, Function.comp_def] using this
  have hval : ∀ a : Asg, relHolds isNe
      (dot ((linDiff l r).1.map fun p => (ev Vs p.1, p.2)) ((linDiff l r).1.map fun p => val a p.1)
        + (linDiff l r).2) ↔ Holds a (.rel l r isNe) := by
    intro a
    rw [dot_map]
    have := (linDiff_spec a hl hr).1
    unfold lval at this
    rw [this]
    unfold relHolds Holds
    cases isNe <;> simp <;> omega
  have henc : encodeCon Vs (.rel l r isNe) nx
      = encLinear ((linDiff l r).1.map fun p => (ev Vs p.1, p.2)) (linDiff l r).2 isNe nx := by
    simp only [encodeCon]
  rw [henc]
  exact ⟨encLinear_mono _ _ _ _,
    fun β a he hc => (hval a).1 (encLinear_sound (fun p hp => (hmapB p hp).1) hnx hmapC (hrepL he) hc),
    fun β a he hh => encLinear_complete hmapB hnx hmapC (hrepL he) ((hval a).2 hh)⟩

/-- **enc_cumulative** ([S], after the repair): the time-indexed capacity clauses are exact when
demands and capacity are non-negative. -/
theorem enc_cumulative {β : Nat → Bool} {Vs : List EVar} {a : Asg} (h : Enc β Vs a) {ss : List Nat}
    (ds dm : List Int) (cap : Int) (nx : Nat) (hs : ∀ v ∈ ss, v < Vs.length)
    (hdm : ∀ x ∈ dm, 0 ≤ x) (hcap : 0 ≤ cap) :
    cnfTrue β (encodeCon Vs (.cumulative ss ds dm cap) nx).1 = true ↔
      Holds a (.cumulative ss ds dm cap) :=
  encCumulative_iff h hs hdm hcap

example : (∀ x ∈ ([1, 1, 0, 2] : List Int), 0 ≤ x) ∧ (0 : Int) ≤ 2 := by decide

/-- **enc_circuit** ([S], after the repair): all_different + no self loop + successor range +
MTZ order variables (with their exactly-one clauses) are exact for "one Hamiltonian cycle". -/
theorem enc_circuit {Vs : List EVar} {nx : Nat} (hB : ∀ V ∈ Vs, V.Below nx) (hnx : 0 < nx)
    {vs : List Nat} (hs : ∀ v ∈ vs, v < Vs.length) :
    Exact Vs (fun a => Holds a (.circuit vs)) (encodeCon Vs (.circuit vs) nx).1 nx
      (encodeCon Vs (.circuit vs) nx).2 :=
  encCircuit_exact hB hnx hs

-- the 4-node instance whose unchanged encoding admits two 2-cycles: with the repair 16 order booleans
example : (encodeCon (mkVars [⟨0, 3⟩, ⟨0, 3⟩, ⟨0, 3⟩, ⟨0, 3⟩] 1).1 (.circuit [0, 1, 2, 3]) 17).2 = 30 ∧
    ¬ Holds [1, 0, 3, 2] (.circuit [0, 1, 2, 3]) ∧ Holds [1, 2, 3, 0] (.circuit [0, 1, 2, 3]) := by
  decide

/-- side condition of the encoder's minimal-subset argument: `cumulative` with non-negative demands
and capacity (every other kind is unconditional) -/
def Con.Supported : Con → Prop
  | .cumulative _ _ dm cap => (∀ x ∈ dm, 0 ≤ x) ∧ 0 ≤ cap
  | _ => True

/-- every well-scoped constraint is encoded exactly, from any counter -/
theorem encodeCon_exact {Vs : List EVar} {nx : Nat} (hB : ∀ V ∈ Vs, V.Below nx) (hnx : 0 < nx)
    (c : Con) (hs : c.Scoped Vs.length) (hsup : c.Supported) :
    Exact Vs (fun a => Holds a c) (encodeCon Vs c nx).1 nx (encodeCon Vs c nx).2 := by
  cases c with
  | allDiff vs => exact Exact.of_iff hB fun β a he => enc_all_different he nx hs
  | eqConst v k => exact Exact.of_iff hB fun β a he => enc_eq_const he k nx hs
  | neConst v k => exact Exact.of_iff hB fun β a he => enc_ne_const he k nx hs
  | eqVar x y => exact Exact.of_iff hB fun β a he => enc_eq_var he nx hs.1 hs.2
  | neVar x y => exact Exact.of_iff hB fun β a he => enc_ne_var he nx hs.1 hs.2
  | rel l r isNe => exact enc_linear hB hnx isNe hs.1 hs.2
  | sumEq vs t => exact enc_sum_eq hB hnx t hs
  | sumLe vs t => exact enc_sum_le hB hnx t hs
  | sumGe vs t => exact enc_sum_ge hB hnx t hs
  | circuit vs => exact enc_circuit hB hnx hs
  | noOverlap ss ds => exact Exact.of_iff hB fun β a he => enc_no_overlap he ds nx hs
  | cumulative ss ds dm cap =>
    exact Exact.of_iff hB fun β a he => enc_cumulative he ds dm cap nx hs hsup.1 hsup.2

/-- **encode_compositional**: if each constraint's clause set (over its own fresh auxiliaries) is
exact for its constraint, the concatenation produced by the encoder is exact for the conjunction:
models of the union = intersection of the constraint semantics. -/
theorem encode_compositional {Vs : List EVar} (cs : List Con) (nx : Nat) (hB : ∀ V ∈ Vs, V.Below nx)
    (h : ∀ c ∈ cs, ∀ n, nx ≤ n →
      Exact Vs (fun a => Holds a c) (encodeCon Vs c n).1 n (encodeCon Vs c n).2) :
    Exact Vs (fun a => ∀ c ∈ cs, Holds a c) (encodeCons Vs cs nx).1 nx (encodeCons Vs cs nx).2 :=
  encodeCons_exact cs nx hB h

theorem encode_model_exact_nonempty (M : Model) (hne : ∀ d ∈ M.vars, d.lb ≤ d.ub)
    (hsc : ∀ c ∈ M.cons, c.Scoped M.vars.length) (hsup : ∀ c ∈ M.cons, c.Supported) (a : Asg) :
    IsSolution M a ↔
      ∃ β, cnfTrue β (encodeModel M) = true ∧ (mkVars M.vars 1).1.map (decodeVar β) = a.map some := by
  have hnx : 0 < (mkVars M.vars 1).2 := Nat.lt_of_lt_of_le (by omega) (mkVars_mono M.vars 1)
  have hB := mkVars_below M.vars 1 (by omega)
  have hpos : ∀ V ∈ (mkVars M.vars 1).1, 0 < V.base := fun V hV => (hB V hV).1
  have hlen := mkVars_length M.vars 1
  have E := encode_compositional (Vs := (mkVars M.vars 1).1) M.cons (mkVars M.vars 1).2 hB
    (fun c hc n hn => encodeCon_exact (fun V hV => (hB V hV).mono hn) (by omega) c
      (by rw [hlen]; exact hsc c hc) (hsup c hc))
  have henc : encodeModel M = encodeVars (mkVars M.vars 1).1 ++
      (encodeCons (mkVars M.vars 1).1 M.cons (mkVars M.vars 1).2).1 := rfl
  constructor
  · rintro ⟨hd, hall⟩
    obtain ⟨β₀, _, hr0⟩ := mkVars_encode M.vars 1 a (fun _ => false) (by omega) hd
    have he0 : Enc β₀ (mkVars M.vars 1).1 a := enc_iff_repL.2 ⟨hr0, hpos⟩
    obtain ⟨β₁, hag, hst⟩ := E.complete β₀ a he0 hall
    have he1 : Enc β₁ (mkVars M.vars 1).1 a := he0.of_agree hB hag
    refine ⟨β₁, ?_, (enc_iff_repL.1 he1).1.decode⟩
    rw [henc, cnfTrue_append_iff]
    exact ⟨(encodeVars_iff hpos (mkVars_nonempty M.vars 1 hne)).2 ⟨a, (enc_iff_repL.1 he1).1⟩,
      hst β₁ (AgreeBelow.refl _ _)⟩
  · rintro ⟨β, hc, hdec⟩
    rw [henc, cnfTrue_append_iff] at hc
    obtain ⟨b, hb⟩ := (encodeVars_iff hpos (mkVars_nonempty M.vars 1 hne)).1 hc.1
    have : b = a := by
      have h1 := hb.decode
      rw [hdec] at h1
      exact ((List.map_inj_right (fun x y h => Option.some.inj h)).1 h1).symm
    subst this
    exact ⟨mkVars_bounds M.vars 1 b hb, E.sound β b (enc_iff_repL.2 ⟨hb, hpos⟩) hc.2⟩

/-- **encode_model_exact**: for every model (well-scoped constraints, non-negative
demands/capacity in `cumulative`), the decoded models of the clause list handed to `solve_sat` are
exactly the CP solutions: nothing extra, nothing missing. -/
theorem encode_model_exact (M : Model) (hsc : ∀ c ∈ M.cons, c.Scoped M.vars.length)
    (hsup : ∀ c ∈ M.cons, c.Supported) (a : Asg) :
    IsSolution M a ↔
      ∃ β, cnfTrue β (encodeModel M) = true ∧ (mkVars M.vars 1).1.map (decodeVar β) = a.map some := by
  by_cases hne : ∀ d ∈ M.vars, d.lb ≤ d.ub
  · exact encode_model_exact_nonempty M hne hsc hsup a
  · -- an empty domain: no solution, and the clause list contains the empty clause
    simp only [not_forall] at hne
    obtain ⟨d, hd, hlt⟩ := hne
    obtain ⟨V, hV, h1, h2⟩ := mkVars_decl M.vars 1 d hd
    constructor
    · intro h; exact absurd (inDom_nonempty h.1 d hd) hlt
    · rintro ⟨β, hc, _⟩
      have henc : encodeModel M = encodeVars (mkVars M.vars 1).1 ++
          (encodeCons (mkVars M.vars 1).1 M.cons (mkVars M.vars 1).2).1 := rfl
      rw [henc, cnfTrue_append_iff, encodeVars_empty ⟨V, hV, by omega⟩] at hc
      exact absurd hc.1 (by simp)

example : (⟨[⟨0, 2⟩, ⟨0, 2⟩, ⟨-1, 1⟩], [.sumEq [0, 1, 2] 3, .rel (.mul (.var 0) 2) (.add (.var 1) (.const 1)) false]⟩ : Model).cons.length = 2 := rfl


/-! ## T-model, C05: the DFS solver (`Cp/Prop.lean`; `repaired = true` is the code with the proposed
leaf check, `repaired = false` the unchanged code) -/

/-- **propagate_sound** (one propagator): if an assignment lies within the current domains and
satisfies the constraint, `_propagate_constraint` does not report an inconsistency and does not
remove any of the assignment's values. -/
theorem propagator_sound {a : Asg} {D : Doms} (h : Within a D) {c : Con} (hs : c.Scoped D.length)
    (hh : Holds a c) : ∃ D', propCon true D c = some D' ∧ Within a D' :=
  propCon_sound h hs hh

/-- **propagate_sound** (the fixpoint loop `_propagate`): no value that occurs in a solution
extending the current domains is ever removed, and no wipe-out is reported while such a solution
exists — so INFEASIBLE from an exhaustive search is justified. -/
theorem propagate_sound {a : Asg} {cs : List Con} (hall : ∀ c ∈ cs, c.Scoped a.length ∧ Holds a c)
    (fuel : Nat) (D : Doms) (h : Within a D) :
    ∃ D', propagate true cs fuel D = some D' ∧ Within a D' :=
  propagate_sound_aux hall fuel D h

example : Within [1, 0, 2] [[0, 1], [0], [2]] ∧
    Holds [1, 0, 2] (.rel (.add (.mul (.var 0) 2) (.var 1)) (.var 2) false) := by
  refine ⟨⟨rfl, fun i hi => ?_⟩, by decide⟩
  have : i = 0 ∨ i = 1 ∨ i = 2 := by simp at hi; omega
  rcases this with rfl | rfl | rfl <;> decide

/-- **dfs_leaf_needs_check** (negative, about the unchanged code): singleton domains after
propagation do not imply the constraints.  On `x - y == 2` over `0..1` the unchanged DFS returns
`x = 0, y = 0` although the model has no solution; and its `_flatten_sum` misreads `2*x + y == z`
as `y == z`, so that it reports INFEASIBLE (`[]`) on a model with the solution `(1, 0, 2)`. -/
theorem dfs_leaf_needs_check :
    (let M : Model := ⟨[⟨0, 1⟩, ⟨0, 1⟩], [.rel (.sub (.var 0) (.var 1)) (.const 2) false]⟩
     dfsSolve false M [] 1 = [[0, 0]] ∧ ¬ IsSolution M [0, 0] ∧ solutions M = []) ∧
    (let M : Model := ⟨[⟨0, 1⟩, ⟨0, 0⟩, ⟨2, 2⟩], [.rel (.add (.mul (.var 0) 2) (.var 1)) (.var 2) false]⟩
     dfsSolve false M [] 1 = [] ∧ solutions M = [[1, 0, 2]]) := by
  refine ⟨⟨by decide, ?_, by decide⟩, by decide, by decide⟩
  intro h
  have := mem_solutions.2 h
  revert this
  decide

/-- the repaired DFS on the same two models -/
example : dfsSolve true ⟨[⟨0, 1⟩, ⟨0, 1⟩], [.rel (.sub (.var 0) (.var 1)) (.const 2) false]⟩ [] 1 = [] ∧
    dfsSolve true ⟨[⟨0, 1⟩, ⟨0, 0⟩, ⟨2, 2⟩], [.rel (.add (.mul (.var 0) 2) (.var 1)) (.var 2) false]⟩ [] 1
      = [[1, 0, 2]] := by decide

/-- **dfs_returns_solutions** (after the repair): every assignment returned by the DFS solver —
whatever the hints and the solution limit — gives each variable a value inside its domain and
satisfies every constraint of the model.  This holds for *every* variable selection `sel` and every
order `ord` in which the values of the selected variable are tried (so also for CPython's set
iteration order, which the executable mirror does not reproduce). -/
theorem dfs_returns_solutions (sel : Doms → Option Nat) (ord : Doms → Nat → List Int) (hord : OrdOK ord)
    (M : Model) (hints : List (Nat × Int))
    (limit : Nat) : ∀ a ∈ dfsSolveG sel ord true M hints limit, IsSolution M a := by
  intro a ha
  unfold dfsSolveG at ha
  by_cases hne : ∀ d ∈ M.vars, d.lb ≤ d.ub
  · have h0 := initDoms_sub M.vars hne hints
    simp only [h0.2, Bool.and_false, Bool.false_eq_true, if_false] at ha
    split at ha
    · cases ha
    · next D' hp =>
      have := propagate_sub _ _ h0.1 h0.2 hp
      exact backtrack_sound hord limit _ D' ⟨[], false⟩ this.1 this.2 (by simp) a ha
  · simp only [not_forall] at hne
    obtain ⟨d, hd, hlt⟩ := hne
    have := initDoms_empty M.vars ⟨d, hd, by omega⟩ hints
    simp only [this, Bool.and_self, if_true] at ha
    cases ha

example : dfsSolve true ⟨[⟨0, 2⟩, ⟨0, 2⟩], [.rel (.add (.var 0) (.var 1)) (.const 2) false, .allDiff [0, 1]]⟩
    [(0, 2), (1, 7)] 100 = [[2, 0]] := by decide

-- the hypotheses are met by the mirror's MRV / ascending order and e.g. by descending values
example : SelOK pickVar ∧ OrdOK (fun D v => dget D v) ∧ OrdOK (fun D v => (dget D v).reverse) :=
  ⟨pickVar_selOK, dget_ordOK, fun _ _ _ => List.mem_reverse⟩

/-- **dfs_complete** (after the repair): if the model has a solution that agrees with every
in-domain hint, the DFS solver returns at least one assignment — INFEASIBLE (`[]`) is reported
only if no such solution exists.  For every variable selection that returns `none` only on
all-singleton domains and `some v` only for an undecided variable (MRV is one), and every value
order. -/
theorem dfs_complete (sel : Doms → Option Nat) (ord : Doms → Nat → List Int) (hsel : SelOK sel)
    (hord : OrdOK ord) (M : Model) (hsc : ∀ c ∈ M.cons, c.Scoped M.vars.length)
    (hints : List (Nat × Int)) (limit : Nat) (hl : 1 ≤ limit) (a : Asg) (ha : IsSolution M a)
    (hh : ∀ h ∈ hints, h.2 ∈ dget (M.vars.map fun d => irange d.lb d.ub) h.1 → val a h.1 = h.2) :
    dfsSolveG sel ord true M hints limit ≠ [] := by
  have hlen : a.length = M.vars.length := by simpa using (within_of_inDom ha.1).1
  have hall : ∀ c ∈ M.cons, c.Scoped a.length ∧ Holds a c :=
    fun c hc => ⟨by rw [hlen]; exact hsc c hc, ha.2 c hc⟩
  have h0 := initDoms_within ha.1 hints fun h hm x hx hxe => hh h hm (hxe ▸ hx)
  unfold dfsSolveG
  obtain ⟨D', hp, hw⟩ := propagate_sound_aux hall (totalSize (initDoms M.vars hints) + 1) _ h0.1
  simp only [h0.1.no_empty, Bool.and_false, Bool.false_eq_true, if_false, hp]
  exact backtrack_finds hsel hord hl hall _ D' _ hw (propagate_shr _ _ hp h0.2).1 (by omega) (by intro h; cases h)

/-- **dfs_infeasible_iff**: without hints the repaired DFS reports INFEASIBLE exactly when the
model has no solution — whatever the selection and value order. -/
theorem dfs_infeasible_iff (sel : Doms → Option Nat) (ord : Doms → Nat → List Int) (hsel : SelOK sel)
    (hord : OrdOK ord) (M : Model)
    (hsc : ∀ c ∈ M.cons, c.Scoped M.vars.length) (limit : Nat) (hl : 1 ≤ limit) :
    dfsSolveG sel ord true M [] limit = [] ↔ ¬ ∃ a, IsSolution M a := by
  constructor
  · rintro h ⟨a, ha⟩
    exact dfs_complete sel ord hsel hord M hsc [] limit hl a ha (by simp) h
  · intro h
    cases hd : dfsSolveG sel ord true M [] limit with
    | nil => rfl
    | cons a l =>
      exact absurd ⟨a, dfs_returns_solutions sel ord hord M [] limit a
        (by rw [hd]; exact List.mem_cons_self)⟩ h

/-- **dfs_enumerates_all** (after the repair): with a solution limit above the number of solutions
the DFS solver returns exactly the solutions of the model, each once — for every variable selection
and value order. -/
theorem dfs_enumerates_all (sel : Doms → Option Nat) (ord : Doms → Nat → List Int) (hsel : SelOK sel)
    (hord : OrdOK ord) (M : Model) (hsc : ∀ c ∈ M.cons, c.Scoped M.vars.length) (limit : Nat)
    (hbig : (solutions M).length < limit) :
    (dfsSolveG sel ord true M [] limit).Nodup ∧
      ∀ a, a ∈ dfsSolveG sel ord true M [] limit ↔ IsSolution M a := by
  have hsound := dfs_returns_solutions sel ord hord M [] limit
  have hnd : (dfsSolveG sel ord true M [] limit).Nodup := by
    unfold dfsSolveG
    simp only
    split
    · exact List.nodup_nil
    · split
      · exact List.nodup_nil
      · exact (backtrack_mono _ _ _).2.2 List.nodup_nil
  refine ⟨hnd, fun a => ⟨hsound a, fun ha => ?_⟩⟩
  have hlen : a.length = M.vars.length := by simpa using (within_of_inDom ha.1).1
  have hall : ∀ c ∈ M.cons, c.Scoped a.length ∧ Holds a c :=
    fun c hc => ⟨by rw [hlen]; exact hsc c hc, ha.2 c hc⟩
  have h0 := initDoms_within ha.1 [] (by simp)
  have hle : (dfsSolveG sel ord true M [] limit).length ≤ (solutions M).length :=
    hnd.length_le_of_subset fun b hb => mem_solutions.2 (hsound b hb)
  revert hle
  unfold dfsSolveG
  obtain ⟨D', hp, hw⟩ := propagate_sound_aux hall (totalSize (initDoms M.vars []) + 1) _ h0.1
  simp only [h0.1.no_empty, Bool.and_false, Bool.false_eq_true, if_false, hp]
  intro hle
  rcases backtrack_covers hsel hord hall (totalSize D' + 1) D' ⟨[], false⟩ hw
    (propagate_shr _ _ hp h0.2).1 (by omega) with h | h
  · exact h
  · have := (backtrack_mono (sel := sel) (ord := ord) (cs := M.cons) (limit := limit)
      (totalSize D' + 1) D' ⟨[], false⟩).2.1 (by intro h'; cases h') h
    omega

example : (solutions ⟨[⟨0, 2⟩, ⟨0, 2⟩], [.rel (.add (.var 0) (.var 1)) (.const 2) false]⟩).length < 100 ∧
    dfsSolve true ⟨[⟨0, 2⟩, ⟨0, 2⟩], [.rel (.add (.var 0) (.var 1)) (.const 2) false]⟩ [] 100
      = [[0, 2], [1, 1], [2, 0]] := by decide

/-- **dfs_order_independent**: two runs of the repaired DFS that differ only in the variable
selection and in the order in which values are tried agree on feasibility (both return something
or both return nothing), and everything either returns is a solution. -/
theorem dfs_order_independent (sel₁ sel₂ : Doms → Option Nat) (ord₁ ord₂ : Doms → Nat → List Int)
    (h₁ : SelOK sel₁) (h₂ : SelOK sel₂) (o₁ : OrdOK ord₁) (o₂ : OrdOK ord₂) (M : Model)
    (hsc : ∀ c ∈ M.cons, c.Scoped M.vars.length) (limit : Nat) (hl : 1 ≤ limit) :
    (dfsSolveG sel₁ ord₁ true M [] limit = [] ↔ dfsSolveG sel₂ ord₂ true M [] limit = []) := by
  rw [dfs_infeasible_iff sel₁ ord₁ h₁ o₁ M hsc limit hl, dfs_infeasible_iff sel₂ ord₂ h₂ o₂ M hsc limit hl]

example : (∀ c ∈ ([.rel (.add (.var 0) (.var 1)) (.const 2) false, .allDiff [0, 1]] : List Con),
    c.Scoped 2) := by
  intro c hc
  simp only [List.mem_cons, List.not_mem_nil, or_false] at hc
  rcases hc with rfl | rfl
  · exact ⟨⟨by show (0 : Nat) < 2; omega, by show (1 : Nat) < 2; omega⟩, trivial⟩
  · intro v hv; simp at hv; omega

/-- **choose_solver_total**: with solver='auto' a model goes to the SAT encoder exactly when it
contains a SAT-only kind (sum_*, circuit, no_overlap, cumulative) or a linear equality that still has
three or more variables after merging coefficients; in particular every model with a SAT-only kind
is routed to SAT, under 'auto' and (fallback of `_solve_dfs`) under 'dfs'. -/
theorem choose_solver_total (M : Model) :
    (chooseSat M = true ↔ ∃ c ∈ M.cons, c.satRequired = true ∨
      ∃ l r, c = .rel l r false ∧ 3 ≤ (linDiff l r).1.length) ∧
    (dfsFallback M = true ↔ ∃ c ∈ M.cons, c.satRequired = true) ∧
    (dfsFallback M = true → chooseSat M = true) := by
  have hlin : ∀ c : Con, c.linEq3 = true ↔ ∃ l r, c = .rel l r false ∧ 3 ≤ (linDiff l r).1.length := by
    intro c
    cases c with
    | rel l r isNe =>
      cases isNe
      · simp [Con.linEq3]
      · simp [Con.linEq3]
    | _ => simp [Con.linEq3]
  refine ⟨?_, by simp [dfsFallback], ?_⟩
  · simp only [chooseSat, List.any_eq_true, Bool.or_eq_true, hlin]
  · simp only [chooseSat, dfsFallback, List.any_eq_true, Bool.or_eq_true]
    rintro ⟨c, hc, h⟩; exact ⟨c, hc, Or.inl h⟩

-- x0 + x1 + x2 == 3 is routed to SAT, x0 + x1 == 3 and x0 + x1 + x2 != 3 are not,
-- x0 + x1 - x0 == x2 merges to two variables and stays with DFS
example : chooseSat ⟨[⟨0, 3⟩, ⟨0, 3⟩, ⟨0, 3⟩], [.rel (.add (.add (.var 0) (.var 1)) (.var 2)) (.const 3) false]⟩ = true ∧
    chooseSat ⟨[⟨0, 3⟩, ⟨0, 3⟩], [.rel (.add (.var 0) (.var 1)) (.const 3) false]⟩ = false ∧
    chooseSat ⟨[⟨0, 3⟩, ⟨0, 3⟩, ⟨0, 3⟩], [.rel (.add (.add (.var 0) (.var 1)) (.var 2)) (.const 3) true]⟩ = false ∧
    chooseSat ⟨[⟨0, 3⟩, ⟨0, 3⟩, ⟨0, 3⟩], [.rel (.sub (.add (.var 0) (.var 1)) (.var 0)) (.var 2) false]⟩ = false := by
  decide

example : chooseSat ⟨[⟨0, 1⟩], [.neConst 0 0, .sumLe [0] 1]⟩ = true := by decide

end Solvor.Cp
