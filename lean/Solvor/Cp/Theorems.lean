import Solvor.Cp.Model
/-! Cp: property theorems only (helper lemmas live in Lemmas.lean). -/
namespace Solvor.Cp

end Solvor.Cp
