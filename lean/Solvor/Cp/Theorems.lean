import Solvor.Cp.Model
import Solvor.Cp.DpllLemmas
/-! Cp: property theorems only (helper lemmas live in Lemmas.lean / DpllLemmas.lean). -/
namespace Solvor.Cp

end Solvor.Cp
