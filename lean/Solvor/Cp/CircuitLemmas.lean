import Solvor.Cp.EncodeLemmas
import Mathlib.Data.List.Nodup
import Mathlib.Order.Basic
/-! Lemmas for `enc_circuit` ([S]): a successor list that is injective, in range and admits MTZ
order values is exactly one Hamiltonian cycle through node 0 (pure combinatorics on lists). -/
namespace Solvor.Cp

/-- successor of node `c` -/
def nxt (xs : List Int) (c : Int) : Int := xs.getD c.toNat 0

theorem iter_succ (xs : List Int) (k : Nat) (c : Int) : iter xs (k + 1) c = iter xs k (nxt xs c) := rfl

theorem iter_succ_last (xs : List Int) : ∀ (k : Nat) (c : Int), iter xs (k + 1) c = nxt xs (iter xs k c)
  | 0, _ => rfl
  | k + 1, c => by rw [iter_succ, iter_succ_last xs k (nxt xs c)]; rfl

/-- every successor is a node index -/
def InRange (xs : List Int) : Prop := ∀ x ∈ xs, 0 ≤ x ∧ x < xs.length

theorem nxt_eq_getElem {xs : List Int} {c : Int} (h0 : 0 ≤ c) (h1 : c < xs.length) :
    nxt xs c = xs[c.toNat]'(by omega) := by
  unfold nxt
  rw [List.getD_eq_getElem?_getD, List.getElem?_eq_getElem (by omega)]; rfl

theorem nxt_range {xs : List Int} (h : InRange xs) {c : Int} (h0 : 0 ≤ c) (h1 : c < xs.length) :
    0 ≤ nxt xs c ∧ nxt xs c < xs.length := by
  rw [nxt_eq_getElem h0 h1]; exact h _ (List.getElem_mem _)

theorem nxt_inj {xs : List Int} (hn : xs.Nodup) {u w : Int} (hu0 : 0 ≤ u) (hu : u < xs.length)
    (hw0 : 0 ≤ w) (hw : w < xs.length) (h : nxt xs u = nxt xs w) : u = w := by
  rw [nxt_eq_getElem hu0 hu, nxt_eq_getElem hw0 hw] at h
  have := (hn.getElem_inj_iff).1 h
  omega

theorem iter_range {xs : List Int} (h : InRange xs) {c : Int} (h0 : 0 ≤ c) (h1 : c < xs.length) :
    ∀ k, 0 ≤ iter xs k c ∧ iter xs k c < xs.length
  | 0 => ⟨h0, h1⟩
  | k + 1 => by
    rw [iter_succ_last]
    exact nxt_range h (iter_range h h0 h1 k).1 (iter_range h h0 h1 k).2

/-- MTZ order values: `τ 0 = 0`, values in `0..n-1`, and along every arc that does not enter node 0
the value strictly increases -/
structure Ord (xs : List Int) (τ : Int → Int) : Prop where
  zero : τ 0 = 0
  bound : ∀ i : Int, 0 ≤ i → i < xs.length → 0 ≤ τ i ∧ τ i ≤ (xs.length : Int) - 1
  step : ∀ i : Int, 0 ≤ i → i < xs.length → nxt xs i ≠ 0 → τ (nxt xs i) > τ i

/-- along a walk that never enters node 0, the order value grows by at least one per step -/
theorem ord_walk {xs : List Int} {τ : Int → Int} (hr : InRange xs) (ho : Ord xs τ) {v : Int}
    (hv0 : 0 ≤ v) (hv : v < xs.length) :
    ∀ k : Nat, (∀ m, 1 ≤ m → m ≤ k → iter xs m v ≠ 0) → τ (iter xs k v) ≥ τ v + k
  | 0, _ => by simp [iter]
  | k + 1, hne => by
    have ih := ord_walk hr ho hv0 hv k fun m h1 h2 => hne m h1 (by omega)
    have hk := iter_range hr hv0 hv k
    have hs := ho.step (iter xs k v) hk.1 hk.2 (by rw [← iter_succ_last]; exact hne (k + 1) (by omega) (Nat.le_refl _))
    rw [iter_succ_last]
    push_cast; omega

/-- **soundness**: an injective, in-range successor list with MTZ order values is one cycle
through all nodes -/
theorem circuit_of_ord {xs : List Int} {τ : Int → Int} (hr : InRange xs) (hn : xs.Nodup)
    (ho : Ord xs τ) :
    ((List.range xs.length).map fun k => iter xs k 0).Nodup ∧ iter xs xs.length 0 = 0 := by
  rcases Nat.eq_zero_or_pos xs.length with hz | hpos
  · rw [hz]; simp [iter]
  have h00 : (0 : Int) ≤ 0 := Int.le_refl _
  have h0n : (0 : Int) < xs.length := by omega
  have horb := iter_range hr h00 h0n
  -- the walk from 0 returns to 0 within n steps
  have hret : ∃ m, 1 ≤ m ∧ m ≤ xs.length ∧ iter xs m 0 = 0 := by
    by_contra hno
    have hne : ∀ m, 1 ≤ m → m ≤ xs.length → iter xs m 0 ≠ 0 := fun m h1 h2 h3 => hno ⟨m, h1, h2, h3⟩
    have := ord_walk hr ho h00 h0n xs.length hne
    have hb := (ho.bound _ (horb xs.length).1 (horb xs.length).2).2
    rw [ho.zero] at this; omega
  have hex : ∃ m, 1 ≤ m ∧ iter xs m 0 = 0 := by obtain ⟨m, h1, _, h3⟩ := hret; exact ⟨m, h1, h3⟩
  let m := Nat.find hex
  have hm1 : 1 ≤ m := (Nat.find_spec hex).1
  have hm0 : iter xs m 0 = 0 := (Nat.find_spec hex).2
  have hmn : m ≤ xs.length := by
    obtain ⟨m', h1, h2, h3⟩ := hret
    exact Nat.le_trans (Nat.find_min' hex ⟨h1, h3⟩) h2
  have hmin : ∀ j, 1 ≤ j → j < m → iter xs j 0 ≠ 0 := fun j h1 h2 h3 => Nat.find_min hex h2 ⟨h1, h3⟩
  -- order values are exactly increasing before the return
  have hτ : ∀ k, k < m → τ (iter xs k 0) ≥ k := by
    intro k hk
    have := ord_walk hr ho h00 h0n k fun j h1 h2 => hmin j h1 (by omega)
    rw [ho.zero] at this; omega
  have hinc : ∀ k, k + 1 < m → τ (iter xs (k + 1) 0) > τ (iter xs k 0) := by
    intro k hk
    rw [iter_succ_last]
    exact ho.step _ (horb k).1 (horb k).2 (by rw [← iter_succ_last]; exact hmin (k + 1) (by omega) hk)
  have hmono : ∀ d k, k + d < m → τ (iter xs (k + d) 0) ≥ τ (iter xs k 0) + d := by
    intro d
    induction d with
    | zero => intro k _; simp
    | succ d ih =>
      intro k hk
      have h1 := ih k (by omega)
      have h2 := hinc (k + d) (by omega)
      rw [← Nat.add_assoc]; push_cast; omega
  have hinj : ∀ k k', k < m → k' < m → iter xs k 0 = iter xs k' 0 → k = k' := by
    intro k k' hk hk' he
    rcases Nat.lt_trichotomy k k' with h | h | h
    · have := hmono (k' - k) k (by omega)
      rw [show k + (k' - k) = k' by omega, he] at this
      have : ((k' - k : Nat) : Int) ≤ 0 := by omega
      omega
    · exact h
    · have := hmono (k - k') k' (by omega)
      rw [show k' + (k - k') = k by omega, he] at this
      have : ((k - k' : Nat) : Int) ≤ 0 := by omega
      omega
  -- the cycle through 0 has all n nodes
  have hmeq : m = xs.length := by
    by_contra hne
    have hlt : m < xs.length := by omega
    let C := (List.range m).map fun k => iter xs k 0
    have hCnd : C.Nodup := List.Nodup.map_on (fun x hx y hy he =>
      hinj x y (List.mem_range.1 hx) (List.mem_range.1 hy) he) List.nodup_range
    -- some node is not on it
    have hout : ∃ v : Int, 0 ≤ v ∧ v < xs.length ∧ v ∉ C := by
      by_contra hall
      have hsub : ((List.range xs.length).map fun (k : Nat) => (k : Int)) ⊆ C := by
        intro v hv
        obtain ⟨k, hk, rfl⟩ := List.mem_map.1 hv
        by_contra hvc
        exact hall ⟨k, by omega, by have := List.mem_range.1 hk; omega, hvc⟩
      have hnd : ((List.range xs.length).map fun (k : Nat) => (k : Int)).Nodup :=
        List.Nodup.map_on (fun x _ y _ he => by omega) List.nodup_range
      have := hnd.length_le_of_subset hsub
      simp [C] at this; omega
    obtain ⟨v, hv0, hvn, hvC⟩ := hout
    have hmemC : ∀ k, k < m → iter xs k 0 ∈ C := fun k hk => List.mem_map.2 ⟨k, List.mem_range.2 hk, rfl⟩
    -- predecessors of nodes on the cycle are on the cycle
    have hback : ∀ u : Int, 0 ≤ u → u < xs.length → nxt xs u ∈ C → u ∈ C := by
      intro u hu0 hun huC
      obtain ⟨k, hk, hke⟩ := List.mem_map.1 huC
      have hk' := List.mem_range.1 hk
      rcases Nat.eq_zero_or_pos k with rfl | hkpos
      · -- nxt u = 0 = iter m 0 = nxt (iter (m-1) 0)
        have : nxt xs u = nxt xs (iter xs (m - 1) 0) := by
          rw [← iter_succ_last, show m - 1 + 1 = m by omega, hm0, ← hke]; rfl
        rw [nxt_inj hn hu0 hun (horb (m - 1)).1 (horb (m - 1)).2 this]
        exact hmemC (m - 1) (by omega)
      · have : nxt xs u = nxt xs (iter xs (k - 1) 0) := by
          rw [← iter_succ_last, show k - 1 + 1 = k by omega, ← hke]
        rw [nxt_inj hn hu0 hun (horb (k - 1)).1 (horb (k - 1)).2 this]
        exact hmemC (k - 1) (by omega)
    have hwalk : ∀ k, iter xs k v ∉ C := by
      intro k
      induction k with
      | zero => exact hvC
      | succ k ih =>
        rw [iter_succ_last]
        have hk := iter_range hr hv0 hvn k
        exact fun hc => ih (hback _ hk.1 hk.2 hc)
    have h0C : (0 : Int) ∈ C := hmemC 0 (by omega)
    have := ord_walk hr ho hv0 hvn xs.length fun j _ _ he => hwalk j (he ▸ h0C)
    have hb := (ho.bound _ (iter_range hr hv0 hvn xs.length).1 (iter_range hr hv0 hvn xs.length).2).2
    have := (ho.bound v hv0 hvn).1
    omega
  refine ⟨?_, by rw [← hmeq]; exact hm0⟩
  rw [← hmeq]
  exact List.Nodup.map_on (fun x hx y hy he =>
    hinj x y (List.mem_range.1 hx) (List.mem_range.1 hy) he) List.nodup_range

/-- **completeness**: one cycle through all nodes gives injectivity and MTZ order values (the
position on the cycle), with `τ i ≥ 1` away from node 0 -/
theorem ord_of_circuit {xs : List Int} (hr : InRange xs)
    (hnd : ((List.range xs.length).map fun k => iter xs k 0).Nodup) (hret : iter xs xs.length 0 = 0) :
    xs.Nodup ∧ ∃ τ : Int → Int, Ord xs τ ∧ ∀ i : Int, 1 ≤ i → i < xs.length → 1 ≤ τ i := by
  rcases Nat.eq_zero_or_pos xs.length with hz | hpos
  · have : xs = [] := List.eq_nil_of_length_eq_zero hz
    subst this
    exact ⟨List.nodup_nil, fun _ => 0, ⟨rfl, fun i h0 h1 => by simp at h1; omega,
      fun i h0 h1 => by simp at h1; omega⟩, fun i h0 h1 => by simp at h1; omega⟩
  have h00 : (0 : Int) ≤ 0 := Int.le_refl _
  have h0n : (0 : Int) < xs.length := by omega
  have horb := iter_range hr h00 h0n
  have hinj : ∀ k k', k < xs.length → k' < xs.length → iter xs k 0 = iter xs k' 0 → k = k' :=
    fun k k' hk hk' he => List.inj_on_of_nodup_map hnd (List.mem_range.2 hk) (List.mem_range.2 hk') he
  -- every node is on the cycle
  have hsurj : ∀ v : Int, 0 ≤ v → v < xs.length → ∃ k, k < xs.length ∧ iter xs k 0 = v := by
    intro v hv0 hvn
    by_contra hno
    let R := (List.range xs.length).map fun (k : Nat) => (k : Int)
    have hRnd : R.Nodup := List.Nodup.map_on (fun x _ y _ he => by omega) List.nodup_range
    have hvR : v ∈ R := List.mem_map.2 ⟨v.toNat, List.mem_range.2 (by omega), by omega⟩
    have hsub : ((List.range xs.length).map fun k => iter xs k 0) ⊆ R.erase v := by
      intro w hw
      obtain ⟨k, hk, rfl⟩ := List.mem_map.1 hw
      have hk' := List.mem_range.1 hk
      apply (List.mem_erase_of_ne (fun he => hno ⟨k, hk', he⟩)).2
      exact List.mem_map.2 ⟨(iter xs k 0).toNat, List.mem_range.2 (by have := horb k; omega),
        by have := horb k; omega⟩
    have h1 := hnd.length_le_of_subset hsub
    rw [List.length_erase_of_mem hvR] at h1
    simp [R] at h1; omega
  -- order value = position on the cycle
  let τ : Int → Int := fun v => (((List.range xs.length).find? fun k => iter xs k 0 == v).getD 0 : Nat)
  have hτ : ∀ k, k < xs.length → τ (iter xs k 0) = k := by
    intro k hk
    simp only [τ]
    cases hf : (List.range xs.length).find? fun k' => iter xs k' 0 == iter xs k 0 with
    | none =>
      have := List.find?_eq_none.1 hf k (List.mem_range.2 hk)
      simp at this
    | some k' =>
      have h1 := List.find?_some hf
      have h2 := List.mem_range.1 (List.mem_of_find?_eq_some hf)
      have := hinj k' k h2 hk (by simpa using h1)
      simp [this]
  have hnext : ∀ k, k < xs.length → nxt xs (iter xs k 0) ≠ 0 → k + 1 < xs.length := by
    intro k hk hne
    by_contra hge
    have : k + 1 = xs.length := by omega
    rw [← iter_succ_last, this, hret] at hne
    exact hne rfl
  refine ⟨?_, τ, ⟨?_, ?_, ?_⟩, ?_⟩
  · -- injectivity of the successor list
    rw [List.nodup_iff_getElem?_ne_getElem?]
    intro i j hij hj he
    have hi : i < xs.length := by omega
    rw [List.getElem?_eq_getElem hi, List.getElem?_eq_getElem hj] at he
    have he' : xs[i] = xs[j] := Option.some.inj he
    obtain ⟨k, hk, hki⟩ := hsurj i (by omega) (by omega)
    obtain ⟨k', hk', hkj⟩ := hsurj j (by omega) (by omega)
    have hne : k ≠ k' := by
      rintro rfl
      rw [hki] at hkj; omega
    have e1 : iter xs (k + 1) 0 = xs[i] := by
      rw [iter_succ_last, hki, nxt_eq_getElem (by omega) (by omega)]; simp
    have e2 : iter xs (k' + 1) 0 = xs[j] := by
      rw [iter_succ_last, hkj, nxt_eq_getElem (by omega) (by omega)]; simp
    -- wrap the index n around to 0
    have wrap : ∀ q, q < xs.length → ∃ K, K < xs.length ∧ iter xs K 0 = iter xs (q + 1) 0 ∧
        (K = q + 1 ∨ (K = 0 ∧ q + 1 = xs.length)) := by
      intro q hq
      by_cases hq1 : q + 1 < xs.length
      · exact ⟨q + 1, hq1, rfl, Or.inl rfl⟩
      · have : q + 1 = xs.length := by omega
        exact ⟨0, hpos, by rw [this, hret]; rfl, Or.inr ⟨rfl, this⟩⟩
    obtain ⟨K, hK, hKe, hKc⟩ := wrap k hk
    obtain ⟨K', hK', hKe', hKc'⟩ := wrap k' hk'
    have := hinj K K' hK hK' (by rw [hKe, hKe', e1, e2, he'])
    omega
  · have := hτ 0 hpos
    simpa [iter] using this
  · intro i h0 h1
    obtain ⟨k, hk, rfl⟩ := hsurj i h0 h1
    rw [hτ k hk]; omega
  · intro i h0 h1 hne
    obtain ⟨k, hk, rfl⟩ := hsurj i h0 h1
    have hk1 := hnext k hk hne
    rw [← iter_succ_last, hτ k hk, hτ (k + 1) hk1]; push_cast; omega
  · intro i h1 hn
    obtain ⟨k, hk, rfl⟩ := hsurj i (by omega) hn
    rw [hτ k hk]
    rcases Nat.eq_zero_or_pos k with rfl | hkp
    · simp [iter] at h1
    · omega

end Solvor.Cp
