import Solvor.Cp.EncodeLemmas
/-! Lemmas about the DFS mirror (`Cp/Prop.lean`): propagators are sound (never remove the value of
a solution) and monotone (only shrink domains). -/
namespace Solvor.Cp

theorem dget_dset (D : Doms) (i j : Nat) (l : List Int) :
    dget (dset D i l) j = if i = j ∧ i < D.length then l else dget D j := by
  unfold dget dset
  simp only [List.getD_eq_getElem?_getD, List.getElem?_set]
  by_cases h : i = j
  · subst h
    by_cases hi : i < D.length
    · simp [hi]
    · simp only [hi, and_false, if_false, if_true]
      rw [List.getElem?_eq_none (by omega)]
  · simp [h]

theorem dset_length (D : Doms) (i : Nat) (l : List Int) : (dset D i l).length = D.length := by
  simp [dset]

theorem discard_length (D : Doms) (i : Nat) (v : Int) : (discard D i v).length = D.length := by
  simp [discard, dset]

theorem dget_of_ge {D : Doms} {i : Nat} (h : D.length ≤ i) : dget D i = [] := by
  unfold dget; simp [List.getD_eq_getElem?_getD, List.getElem?_eq_none h]

theorem foldl_inv {α σ} {P : σ → Prop} {f : σ → α → σ} : ∀ (l : List α) (s : σ), P s →
    (∀ s x, x ∈ l → P s → P (f s x)) → P (l.foldl f s)
  | [], _, h, _ => h
  | x :: l, s, h, hstep =>
    foldl_inv l (f s x) (hstep s x List.mem_cons_self h)
      fun s y hy hp => hstep s y (List.mem_cons_of_mem _ hy) hp

/-! ### soundness: the value of a solution is never removed -/

/-- `a` lies within the domains -/
def Within (a : Asg) (D : Doms) : Prop := a.length = D.length ∧ ∀ i, i < D.length → val a i ∈ dget D i

theorem Within.dset {a : Asg} {D : Doms} (h : Within a D) {i : Nat} {l : List Int}
    (hl : i < D.length → val a i ∈ l) : Within a (dset D i l) := by
  refine ⟨by rw [dset_length]; exact h.1, fun j hj => ?_⟩
  rw [dset_length] at hj
  rw [dget_dset]
  by_cases hc : i = j ∧ i < D.length
  · rw [if_pos hc]; obtain ⟨rfl, hi⟩ := hc; exact hl hi
  · rw [if_neg hc]; exact h.2 j hj

theorem Within.discard {a : Asg} {D : Doms} (h : Within a D) {i : Nat} {v : Int}
    (hv : i < D.length → val a i ≠ v) : Within a (discard D i v) := by
  unfold Solvor.Cp.discard
  apply h.dset
  intro hi
  exact List.mem_filter.2 ⟨h.2 i hi, by simpa using hv hi⟩

theorem Within.singleton {a : Asg} {D : Doms} (h : Within a D) {i : Nat} {x : Int} (hi : i < D.length)
    (hd : dget D i = [x]) : val a i = x := by
  have := h.2 i hi; rw [hd] at this; simpa using this

theorem Within.no_empty {a : Asg} {D : Doms} (h : Within a D) : D.any List.isEmpty = false := by
  cases hb : D.any List.isEmpty
  · rfl
  · obtain ⟨d, hd, he⟩ := List.any_eq_true.1 hb
    obtain ⟨i, hi, rfl⟩ := List.mem_iff_getElem.1 hd
    have := h.2 i hi
    have hdg : dget D i = D[i] := by
      unfold dget; simp [List.getD_eq_getElem?_getD, List.getElem?_eq_getElem hi]
    rw [hdg] at this
    have : D[i] = [] := by simpa using he
    simp_all

theorem propOffset_sound {a : Asg} {D : Doms} (h : Within a D) {x y : Nat} (hx : x < D.length)
    (hy : y < D.length) {off : Int} {isNe : Bool}
    (hrel : if isNe then val a x ≠ val a y + off else val a x = val a y + off) :
    ∃ D', propOffset D x y off isNe = some D' ∧ Within a D' := by
  unfold propOffset
  cases isNe
  · simp only [Bool.false_eq_true, if_false] at hrel ⊢
    have h1 : val a x ∈ (dget D x).filter fun v => (dget D y).contains (v - off) := by
      apply List.mem_filter.2 ⟨h.2 x hx, ?_⟩
      have : val a x - off = val a y := by omega
      rw [this]; simpa using h.2 y hy
    have h2 : val a y ∈ (dget D y).filter fun v => (dget D x).contains (v + off) := by
      apply List.mem_filter.2 ⟨h.2 y hy, ?_⟩
      rw [← hrel]; simpa using h.2 x hx
    have hne : ¬ (((dget D x).filter fun v => (dget D y).contains (v - off)).isEmpty ||
        ((dget D y).filter fun v => (dget D x).contains (v + off)).isEmpty) = true := by
      simp only [Bool.or_eq_true, List.isEmpty_iff, not_or]
      exact ⟨List.ne_nil_of_mem h1, List.ne_nil_of_mem h2⟩
    rw [if_neg hne]
    exact ⟨_, rfl, (h.dset fun _ => h1).dset fun _ => h2⟩
  · simp only [if_true] at hrel ⊢
    refine ⟨_, rfl, ?_⟩
    have hD1 : Within a (match dget D x with
        | [v1] => discard D y (v1 - off)
        | _ => D) := by
      split
      · next v1 hd =>
        apply h.discard; intro _
        have := h.singleton hx hd; omega
      · exact h
    split
    · next v2 hd =>
      apply hD1.discard; intro _
      have hy' : y < (match dget D x with
        | [v1] => discard D y (v1 - off)
        | _ => D).length := by
        split
        · rw [discard_length]; exact hy
        · exact hy
      have := hD1.singleton hy' hd; omega
    · exact hD1

theorem nodup_map_ne {α β} {f : α → β} : ∀ {vs : List α}, (vs.map f).Nodup →
    ∀ o ∈ vs, ∀ v ∈ vs, o ≠ v → f o ≠ f v
  | [], _, _, ho, _, _, _ => by cases ho
  | h :: t, hn, o, ho, v, hv, hne => by
    rw [List.map_cons, List.nodup_cons] at hn
    rcases List.mem_cons.1 ho with ho1 | ho1
    · rcases List.mem_cons.1 hv with hv1 | hv1
      · exact absurd (ho1.trans hv1.symm) hne
      · intro he; apply hn.1; rw [← ho1, he]; exact List.mem_map_of_mem hv1
    · rcases List.mem_cons.1 hv with hv1 | hv1
      · intro he; apply hn.1; rw [← hv1, ← he]; exact List.mem_map_of_mem ho1
      · exact nodup_map_ne hn.2 o ho1 v hv1 hne

theorem propAllDiff_sound {a : Asg} {D : Doms} (h : Within a D) {vs : List Nat}
    (hs : ∀ v ∈ vs, v < D.length) (hnd : (vs.map (val a)).Nodup) : Within a (propAllDiff D vs) := by
  unfold propAllDiff
  have key : ∀ D', (Within a D' ∧ D'.length = D.length) →
      ∀ v ∈ vs, (Within a (match dget D' v with
        | [x] => vs.foldl (fun D o => if o != v then discard D o x else D) D'
        | _ => D') ∧ (match dget D' v with
        | [x] => vs.foldl (fun D o => if o != v then discard D o x else D) D'
        | _ => D').length = D.length) := by
    intro D' hD' v hv
    split
    · next x hd =>
      have hvx : val a v = x := hD'.1.singleton (by rw [hD'.2]; exact hs v hv) hd
      apply foldl_inv (P := fun E => Within a E ∧ E.length = D.length) vs D' hD'
      intro E o ho hE
      by_cases hov : (o != v) = true
      · rw [if_pos hov]
        refine ⟨hE.1.discard fun _ => ?_, by rw [discard_length]; exact hE.2⟩
        rw [← hvx]
        exact nodup_map_ne hnd o ho v hv (by simpa using hov)
      · rw [if_neg hov]; exact hE
    · exact hD'
  exact (foldl_inv (P := fun E => Within a E ∧ E.length = D.length) vs D ⟨h, rfl⟩
    fun E v hv hE => key E hE v hv).1

theorem propRel_sound {a : Asg} {D : Doms} (h : Within a D) {l r : Expr} {isNe : Bool}
    (hl : l.Scoped D.length) (hr : r.Scoped D.length) (hh : Holds a (.rel l r isNe)) :
    ∃ D', propRel true D l r isNe = some D' ∧ Within a D' := by
  have hspec := linDiff_spec a hl hr
  unfold propRel
  simp only [if_true]
  unfold Holds at hh
  split
  · next x y const heq =>
    rw [heq] at hspec
    have hx := hspec.2.1 (x, 1) (by simp)
    have hy := hspec.2.1 (y, -1) (by simp)
    have e := hspec.1
    simp only [lval, List.map_cons, List.map_nil, List.sum_cons, List.sum_nil] at e
    apply propOffset_sound h hx hy
    cases isNe
    · simp only [Bool.false_eq_true, if_false] at hh ⊢; omega
    · simp only [if_true] at hh ⊢; omega
  · next y x const heq =>
    rw [heq] at hspec
    have hy := hspec.2.1 (y, -1) (by simp)
    have hx := hspec.2.1 (x, 1) (by simp)
    have e := hspec.1
    simp only [lval, List.map_cons, List.map_nil, List.sum_cons, List.sum_nil] at e
    apply propOffset_sound h hx hy
    cases isNe
    · simp only [Bool.false_eq_true, if_false] at hh ⊢; omega
    · simp only [if_true] at hh ⊢; omega
  · exact ⟨D, rfl, h⟩

/-- **one propagator**: if `a` lies within the domains and satisfies the constraint, the (repaired)
propagator does not fail and keeps `a` within the domains. -/
theorem propCon_sound {a : Asg} {D : Doms} (h : Within a D) {c : Con} (hs : c.Scoped D.length)
    (hh : Holds a c) : ∃ D', propCon true D c = some D' ∧ Within a D' := by
  cases c with
  | allDiff vs => exact ⟨_, rfl, propAllDiff_sound h hs hh⟩
  | eqConst v k =>
    unfold Holds at hh
    have hv : v < D.length := hs
    have hm := h.2 v hv
    rw [hh] at hm
    have hc : (dget D v).contains k = true := by simpa using hm
    simp only [propCon, hc, if_true]
    exact ⟨_, rfl, h.dset fun _ => by rw [hh]; simp⟩
  | neConst v k =>
    unfold Holds at hh
    exact ⟨_, rfl, h.discard fun _ => hh⟩
  | eqVar x y =>
    unfold Holds at hh
    have hx : x < D.length := hs.1
    have hy : y < D.length := hs.2
    have hm : val a x ∈ (dget D x).filter fun v => (dget D y).contains v := by
      apply List.mem_filter.2 ⟨h.2 x hx, ?_⟩
      rw [hh]; simpa using h.2 y hy
    have hne : ¬ ((dget D x).filter fun v => (dget D y).contains v).isEmpty = true := by
      simp only [List.isEmpty_iff]; exact List.ne_nil_of_mem hm
    simp only [propCon, if_neg hne]
    exact ⟨_, rfl, (h.dset fun _ => hm).dset fun _ => by rw [← hh]; exact hm⟩
  | neVar x y =>
    unfold Holds at hh
    have hx : x < D.length := hs.1
    have hy : y < D.length := hs.2
    refine ⟨_, rfl, ?_⟩
    have hD1 : Within a (match dget D x with
        | [v] => discard D y v
        | _ => D) := by
      split
      · next v hd =>
        apply h.discard; intro _
        have := h.singleton hx hd; omega
      · exact h
    show Within a (match dget (match dget D x with
        | [v] => discard D y v
        | _ => D) y with
      | [v] => discard (match dget D x with
        | [v] => discard D y v
        | _ => D) x v
      | _ => (match dget D x with
        | [v] => discard D y v
        | _ => D))
    split
    · next v hd =>
      apply hD1.discard; intro _
      have hy' : y < (match dget D x with
        | [v] => discard D y v
        | _ => D).length := by
        split
        · rw [discard_length]; exact hy
        · exact hy
      have := hD1.singleton hy' hd; omega
    · exact hD1
  | rel l r isNe => exact propRel_sound h hs.1 hs.2 hh
  | sumEq _ _ => exact ⟨D, rfl, h⟩
  | sumLe _ _ => exact ⟨D, rfl, h⟩
  | sumGe _ _ => exact ⟨D, rfl, h⟩
  | circuit _ => exact ⟨D, rfl, h⟩
  | noOverlap _ _ => exact ⟨D, rfl, h⟩
  | cumulative _ _ _ _ => exact ⟨D, rfl, h⟩

theorem sweep_sound {a : Asg} : ∀ (cs : List Con) (D : Doms) (ch : Bool), Within a D →
    (∀ c ∈ cs, c.Scoped a.length ∧ Holds a c) →
    ∃ D' ch', sweep true cs D ch = some (D', ch') ∧ Within a D'
  | [], D, ch, h, _ => ⟨D, ch, rfl, h⟩
  | c :: cs, D, ch, h, hall => by
    have hc := hall c List.mem_cons_self
    obtain ⟨D1, h1, hw1⟩ := propCon_sound h (by rw [← h.1]; exact hc.1) hc.2
    obtain ⟨D2, ch2, h2, hw2⟩ := sweep_sound cs D1 (ch || decide (totalSize D1 < totalSize D)) hw1
      fun d hd => hall d (List.mem_cons_of_mem _ hd)
    refine ⟨D2, ch2, ?_, hw2⟩
    simp only [sweep, h1, hw1.no_empty, Bool.false_eq_true, if_false]
    exact h2

/-- `_propagate` (repaired) never removes the value of a solution and never reports a wipe-out
when a solution lies within the domains. -/
theorem propagate_sound_aux {a : Asg} {cs : List Con} (hall : ∀ c ∈ cs, c.Scoped a.length ∧ Holds a c) :
    ∀ (fuel : Nat) (D : Doms), Within a D → ∃ D', propagate true cs fuel D = some D' ∧ Within a D'
  | 0, D, h => ⟨D, rfl, h⟩
  | fuel + 1, D, h => by
    obtain ⟨D1, ch, h1, hw1⟩ := sweep_sound cs D false h hall
    simp only [propagate, h1]
    cases ch
    · exact ⟨D1, by simp, hw1⟩
    · obtain ⟨D2, h2, hw2⟩ := propagate_sound_aux hall fuel D1 hw1
      exact ⟨D2, by simpa using h2, hw2⟩

/-! ### monotonicity: propagators only shrink domains -/

/-- pointwise inclusion of domains -/
def SubD (D' D : Doms) : Prop := D'.length = D.length ∧ ∀ i, ∀ x ∈ dget D' i, x ∈ dget D i

theorem SubD.refl (D : Doms) : SubD D D := ⟨rfl, fun _ _ h => h⟩

theorem SubD.trans {D₁ D₂ D₃ : Doms} (h1 : SubD D₁ D₂) (h2 : SubD D₂ D₃) : SubD D₁ D₃ :=
  ⟨h1.1.trans h2.1, fun i x hx => h2.2 i x (h1.2 i x hx)⟩

theorem SubD.dset {E D : Doms} (h : SubD E D) {i : Nat} {l : List Int} (hl : ∀ x ∈ l, x ∈ dget D i) :
    SubD (dset E i l) D := by
  refine ⟨(dset_length _ _ _).trans h.1, fun j x hx => ?_⟩
  rw [dget_dset] at hx
  by_cases hc : i = j ∧ i < E.length
  · rw [if_pos hc] at hx; obtain ⟨rfl, _⟩ := hc; exact hl x hx
  · rw [if_neg hc] at hx; exact h.2 j x hx

theorem SubD.discard {E D : Doms} (h : SubD E D) (i : Nat) (v : Int) : SubD (discard E i v) D :=
  h.dset fun x hx => h.2 i x (List.mem_filter.1 hx).1

theorem propOffset_sub {E D D' : Doms} (hE : SubD E D) {x y : Nat} {off : Int} {isNe : Bool}
    (h : propOffset E x y off isNe = some D') : SubD D' D := by
  unfold propOffset at h
  cases isNe
  · simp only [Bool.false_eq_true, if_false] at h
    split at h
    · cases h
    · injection h with h; subst h
      exact (hE.dset fun v hv => hE.2 x v (List.mem_filter.1 hv).1).dset
        fun v hv => hE.2 y v (List.mem_filter.1 hv).1
  · simp only [if_true] at h
    injection h with h; subst h
    have h1 : SubD (match dget E x with
        | [v1] => Solvor.Cp.discard E y (v1 - off)
        | _ => E) D := by
      split
      · exact hE.discard _ _
      · exact hE
    split
    · exact h1.discard _ _
    · exact h1

theorem propAllDiff_sub {E D : Doms} (hE : SubD E D) (vs : List Nat) : SubD (propAllDiff E vs) D := by
  unfold propAllDiff
  apply foldl_inv (P := fun F => SubD F D) vs E hE
  intro F v _ hF
  split
  · apply foldl_inv (P := fun G => SubD G D) vs F hF
    intro G o _ hG
    split
    · exact hG.discard _ _
    · exact hG
  · exact hF

theorem propCon_sub {r : Bool} {E D D' : Doms} (hE : SubD E D) {c : Con}
    (h : propCon r E c = some D') : SubD D' D := by
  cases c with
  | allDiff vs => simp only [propCon, Option.some.injEq] at h; subst h; exact propAllDiff_sub hE vs
  | eqConst v k =>
    simp only [propCon] at h
    split at h
    · next hc =>
      injection h with h; subst h
      exact hE.dset fun x hx => by
        have : x = k := by simpa using hx
        subst this; exact hE.2 v x (by simpa using hc)
    · cases h
  | neConst v k => simp only [propCon, Option.some.injEq] at h; subst h; exact hE.discard _ _
  | eqVar x y =>
    simp only [propCon] at h
    split at h
    · cases h
    · injection h with h; subst h
      exact (hE.dset fun v hv => hE.2 x v (List.mem_filter.1 hv).1).dset fun v hv => by
        have := (List.mem_filter.1 hv).2
        exact hE.2 y v (by simpa using this)
  | neVar x y =>
    simp only [propCon, Option.some.injEq] at h; subst h
    have h1 : SubD (match dget E x with
        | [v] => Solvor.Cp.discard E y v
        | _ => E) D := by
      split
      · exact hE.discard _ _
      · exact hE
    split
    · exact h1.discard _ _
    · exact h1
  | rel l rr isNe =>
    simp only [propCon, propRel] at h
    split at h
    · split at h
      · exact propOffset_sub hE h
      · exact propOffset_sub hE h
      · injection h with h; subst h; exact hE
    · split at h
      · exact propOffset_sub hE h
      · injection h with h; subst h; exact hE
  | sumEq _ _ => simp only [propCon, Option.some.injEq] at h; subst h; exact hE
  | sumLe _ _ => simp only [propCon, Option.some.injEq] at h; subst h; exact hE
  | sumGe _ _ => simp only [propCon, Option.some.injEq] at h; subst h; exact hE
  | circuit _ => simp only [propCon, Option.some.injEq] at h; subst h; exact hE
  | noOverlap _ _ => simp only [propCon, Option.some.injEq] at h; subst h; exact hE
  | cumulative _ _ _ _ => simp only [propCon, Option.some.injEq] at h; subst h; exact hE

theorem sweep_sub {r : Bool} {D : Doms} : ∀ (cs : List Con) (E : Doms) (ch : Bool) {D' : Doms} {ch' : Bool},
    SubD E D → E.any List.isEmpty = false → sweep r cs E ch = some (D', ch') →
    SubD D' D ∧ D'.any List.isEmpty = false
  | [], E, ch, D', ch', hE, hne, h => by
    simp only [sweep, Option.some.injEq, Prod.mk.injEq] at h
    obtain ⟨rfl, _⟩ := h; exact ⟨hE, hne⟩
  | c :: cs, E, ch, D', ch', hE, hne, h => by
    simp only [sweep] at h
    split at h
    · cases h
    · next D1 h1 =>
      split at h
      · cases h
      · next hne1 =>
        exact sweep_sub cs D1 _ (propCon_sub hE h1) (by
          cases hb : D1.any List.isEmpty
          · rfl
          · exact absurd hb hne1) h

theorem propagate_sub {r : Bool} {cs : List Con} {D : Doms} : ∀ (fuel : Nat) (E : Doms) {D' : Doms},
    SubD E D → E.any List.isEmpty = false → propagate r cs fuel E = some D' →
    SubD D' D ∧ D'.any List.isEmpty = false
  | 0, E, D', hE, hne, h => by
    simp only [propagate, Option.some.injEq] at h; subst h; exact ⟨hE, hne⟩
  | fuel + 1, E, D', hE, hne, h => by
    simp only [propagate] at h
    split at h
    · cases h
    · next D1 ch h1 =>
      have := sweep_sub cs E false hE hne h1
      split at h
      · exact propagate_sub fuel D1 this.1 this.2 h
      · injection h with h; subst h; exact this

/-! ### leaves -/

theorem inDom_heads : ∀ (D : Doms) (ds : List VarDecl), SubD D (ds.map fun d => irange d.lb d.ub) →
    D.any List.isEmpty = false → InDom (D.map fun d => d.headD 0) ds
  | [], [], _, _ => trivial
  | [], _ :: _, h, _ => by simp [SubD] at h
  | _ :: _, [], h, _ => by simp [SubD] at h
  | d :: D, v :: ds, h, hne => by
    simp only [List.any_cons, Bool.or_eq_false_iff] at hne
    have hsub : SubD D (ds.map fun d => irange d.lb d.ub) := by
      refine ⟨by simpa using h.1, fun i x hx => ?_⟩
      have := h.2 (i + 1) x (by simpa [dget] using hx)
      simpa [dget] using this
    refine ⟨?_, inDom_heads D ds hsub hne.2⟩
    match d, hne.1 with
    | y :: d', _ =>
      have := h.2 0 y (by simp [dget])
      simp only [dget, List.map_cons, List.getD_cons_zero] at this
      simpa using mem_irange.1 this

/-! ### the search -/

theorem backtrack_sound {M : Model} {sel : Doms → Option Nat} {ord : Doms → Nat → List Int} (hord : OrdOK ord)
    (limit : Nat) :
    ∀ (fuel : Nat) (D : Doms) (st : DfsState),
      SubD D (M.vars.map fun d => irange d.lb d.ub) → D.any List.isEmpty = false →
      (∀ a ∈ st.sols, IsSolution M a) →
      ∀ a ∈ (backtrackG sel ord true M.cons limit fuel D st).sols, IsSolution M a
  | 0, _, st, _, _, hst => by simpa [backtrackG] using hst
  | fuel + 1, D, st, hD, hne, hst => by
    unfold backtrackG
    split
    · -- leaf
      simp only
      split
      · exact hst
      · next hchk =>
        have hall : M.cons.all (check (D.map fun d => d.headD 0)) = true := by
          cases hb : M.cons.all (check (D.map fun d => d.headD 0))
          · exact absurd (by rw [hb]; rfl) hchk
          · rfl
        have hsol : IsSolution M (D.map fun d => d.headD 0) :=
          ⟨inDom_heads D M.vars hD hne, fun c hc => (check_iff _ c).1 (List.all_eq_true.1 hall c hc)⟩
        intro a ha
        simp only at ha
        split at ha
        · exact hst a ha
        · rcases List.mem_append.1 ha with h | h
          · exact hst a h
          · rw [List.mem_singleton.1 h]; exact hsol
    · next v _ =>
      apply foldl_inv (P := fun s : DfsState => ∀ a ∈ s.sols, IsSolution M a) (ord D v) st hst
      intro s x hx' hs
      have hx : x ∈ dget D v := (hord D v x).1 hx'
      split
      · exact hs
      · split
        · exact hs
        · next D' hp =>
          have hsub : SubD (dset D v [x]) (M.vars.map fun d => irange d.lb d.ub) :=
            hD.dset fun y hy => by rw [List.mem_singleton.1 hy]; exact hD.2 v x hx
          have hne' : (dset D v [x]).any List.isEmpty = false := by
            cases hb : (dset D v [x]).any List.isEmpty
            · rfl
            · obtain ⟨d, hd, he⟩ := List.any_eq_true.1 hb
              have hd' := List.mem_or_eq_of_mem_set hd
              rcases hd' with hd' | hd'
              · have : D.any List.isEmpty = true := List.any_eq_true.2 ⟨d, hd', he⟩
                rw [hne] at this; cases this
              · subst hd'; simp at he
          have := propagate_sub _ _ hsub hne' hp
          exact backtrack_sound hord limit fuel D' s this.1 this.2 hs

theorem initDoms_sub (vars : List VarDecl) (hne : ∀ d ∈ vars, d.lb ≤ d.ub) (hints : List (Nat × Int)) :
    SubD (initDoms vars hints) (vars.map fun d => irange d.lb d.ub) ∧
      (initDoms vars hints).any List.isEmpty = false := by
  unfold initDoms
  apply foldl_inv (P := fun E => SubD E (vars.map fun d => irange d.lb d.ub) ∧ E.any List.isEmpty = false)
  · refine ⟨SubD.refl _, ?_⟩
    cases hb : (vars.map fun d => irange d.lb d.ub).any List.isEmpty
    · rfl
    · obtain ⟨l, hl, he⟩ := List.any_eq_true.1 hb
      obtain ⟨d, hd, rfl⟩ := List.mem_map.1 hl
      have : d.lb ∈ irange d.lb d.ub := mem_irange.2 ⟨Int.le_refl _, hne d hd⟩
      have he' : irange d.lb d.ub = [] := by simpa using he
      rw [he'] at this; cases this
  · intro E h _ hE
    split
    · next hc =>
      refine ⟨hE.1.dset fun y hy => ?_, ?_⟩
      · rw [List.mem_singleton.1 hy]; exact hE.1.2 h.1 h.2 (by simpa using hc)
      · cases hb : (dset E h.1 [h.2]).any List.isEmpty
        · rfl
        · obtain ⟨d, hd, he⟩ := List.any_eq_true.1 hb
          rcases List.mem_or_eq_of_mem_set hd with hd' | hd'
          · have : E.any List.isEmpty = true := List.any_eq_true.2 ⟨d, hd', he⟩
            rw [hE.2] at this; cases this
          · subst hd'; simp at he
    · exact hE

/-- an empty initial domain survives the hints -/
theorem initDoms_empty (vars : List VarDecl) (h : ∃ d ∈ vars, d.ub < d.lb) (hints : List (Nat × Int)) :
    (initDoms vars hints).any List.isEmpty = true := by
  unfold initDoms
  have key : ∀ E : Doms, (∃ i, i < E.length ∧ dget E i = []) → E.any List.isEmpty = true := by
    rintro E ⟨i, hi, he⟩
    apply List.any_eq_true.2
    refine ⟨E[i], List.getElem_mem hi, ?_⟩
    have : dget E i = E[i] := by
      unfold dget; simp [List.getD_eq_getElem?_getD, List.getElem?_eq_getElem hi]
    rw [← this, he]; rfl
  apply key
  apply foldl_inv (P := fun E : Doms => ∃ i, i < E.length ∧ dget E i = [])
  · obtain ⟨d, hd, hlt⟩ := h
    obtain ⟨i, hi, rfl⟩ := List.mem_iff_getElem.1 hd
    refine ⟨i, by simpa using hi, ?_⟩
    unfold dget
    simp only [List.getD_eq_getElem?_getD, List.getElem?_map, List.getElem?_eq_getElem hi, Option.map_some,
      Option.getD_some]
    cases hr : irange vars[i].lb vars[i].ub with
    | nil => rfl
    | cons x l =>
      have : x ∈ irange vars[i].lb vars[i].ub := by rw [hr]; exact List.mem_cons_self
      have := mem_irange.1 this; omega
  · rintro E hh _ ⟨i, hi, he⟩
    split
    · next hc =>
      refine ⟨i, by rw [dset_length]; exact hi, ?_⟩
      rw [dget_dset]
      split
      · next hcond =>
        obtain ⟨rfl, _⟩ := hcond
        rw [he] at hc; simp at hc
      · exact he
    · exact ⟨i, hi, he⟩

end Solvor.Cp
