import Solvor.Cp.Dpll
/-! Lemmas for the reference DPLL and the projected enumerator (core Lean only). -/
namespace Solvor.Cp.Sat

theorem litTrue_neg {σ : Nat → Bool} {l : Int} (h : l ≠ 0) : litTrue σ (-l) = !litTrue σ l := by
  unfold litTrue
  have : (-l).natAbs = l.natAbs := Int.natAbs_neg l
  rw [this]
  by_cases hp : 0 < l
  · simp [hp]; omega
  · simp [hp]; omega

/-- update the variable of `l` so that `l` becomes true -/
def setLit (σ : Nat → Bool) (l : Int) : Nat → Bool :=
  fun v => if v = l.natAbs then decide (0 < l) else σ v

theorem litTrue_setLit_self {σ : Nat → Bool} {l : Int} : litTrue (setLit σ l) l = true := by
  unfold litTrue setLit
  by_cases hp : 0 < l <;> simp [hp]

theorem litTrue_setLit_other {σ : Nat → Bool} {l m : Int} (h1 : m ≠ l) (h2 : m ≠ -l) :
    litTrue (setLit σ l) m = litTrue σ m := by
  unfold litTrue setLit
  have : m.natAbs ≠ l.natAbs := by omega
  simp [this]

theorem mem_assign {l : Int} {f : Cnf} {d : Clause} :
    d ∈ assign l f ↔ ∃ c ∈ f, l ∉ c ∧ d = c.filter (· != -l) := by
  unfold assign
  simp only [List.mem_map, List.mem_filter]
  constructor
  · rintro ⟨c, ⟨hc, hl⟩, rfl⟩; exact ⟨c, hc, by simpa using hl, rfl⟩
  · rintro ⟨c, hc, hl, rfl⟩; exact ⟨c, ⟨hc, by simpa using hl⟩, rfl⟩

/-- under an assignment making `l` true, `f` and `assign l f` agree -/
theorem cnfTrue_assign {σ : Nat → Bool} {l : Int} {f : Cnf} (hl0 : l ≠ 0)
    (hl : litTrue σ l = true) : cnfTrue σ (assign l f) = cnfTrue σ f := by
  have hneg : litTrue σ (-l) = false := by rw [litTrue_neg hl0, hl]; rfl
  apply Bool.eq_iff_iff.2
  simp only [cnfTrue, List.all_eq_true]
  constructor
  · intro h c hc
    by_cases hlc : l ∈ c
    · simp only [clauseTrue, List.any_eq_true]; exact ⟨l, hlc, hl⟩
    · have := h _ ((mem_assign).2 ⟨c, hc, hlc, rfl⟩)
      simp only [clauseTrue, List.any_eq_true, List.mem_filter] at this ⊢
      obtain ⟨m, ⟨hm, _⟩, hmt⟩ := this
      exact ⟨m, hm, hmt⟩
  · intro h d hd
    obtain ⟨c, hc, hlc, rfl⟩ := (mem_assign).1 hd
    have := h c hc
    simp only [clauseTrue, List.any_eq_true, List.mem_filter] at this ⊢
    obtain ⟨m, hm, hmt⟩ := this
    refine ⟨m, ⟨hm, ?_⟩, hmt⟩
    have : m ≠ -l := by rintro rfl; rw [hneg] at hmt; cases hmt
    simpa using this

/-- `assign l f` does not mention the variable of `l` -/
theorem assign_free {l : Int} {f : Cnf} : ∀ d ∈ assign l f, ∀ m ∈ d, m ≠ l ∧ m ≠ -l := by
  intro d hd m hm
  obtain ⟨c, _, hlc, rfl⟩ := (mem_assign).1 hd
  simp only [List.mem_filter] at hm
  refine ⟨?_, by simpa using hm.2⟩
  rintro rfl; exact hlc hm.1

theorem cnfTrue_setLit_assign {σ : Nat → Bool} {l : Int} {f : Cnf} :
    cnfTrue (setLit σ l) (assign l f) = cnfTrue σ (assign l f) := by
  have key : ∀ d ∈ assign l f, clauseTrue (setLit σ l) d = clauseTrue σ d := by
    intro d hd
    unfold clauseTrue
    apply Bool.eq_iff_iff.2
    simp only [List.any_eq_true]
    constructor
    · rintro ⟨m, hm, ht⟩
      have := assign_free d hd m hm
      exact ⟨m, hm, by rw [← litTrue_setLit_other this.1 this.2]; exact ht⟩
    · rintro ⟨m, hm, ht⟩
      have := assign_free d hd m hm
      exact ⟨m, hm, by rw [litTrue_setLit_other this.1 this.2]; exact ht⟩
  unfold cnfTrue
  apply Bool.eq_iff_iff.2
  simp only [List.all_eq_true]
  constructor
  · intro h d hd; rw [← key d hd]; exact h d hd
  · intro h d hd; rw [key d hd]; exact h d hd

theorem WF_assign {l : Int} {f : Cnf} (h : WF f) : WF (assign l f) := by
  intro d hd m hm
  obtain ⟨c, hc, _, rfl⟩ := (mem_assign).1 hd
  exact h c hc m (List.mem_filter.1 hm).1

/-! ### the measure decreases when branching on a literal that occurs -/

theorem size_cons (c : Clause) (f : Cnf) : size (c :: f) = c.length + size f := by
  simp [size]

theorem meas_cons (c : Clause) (f : Cnf) : meas (c :: f) = c.length + 1 + meas f := by
  simp only [meas, size_cons, List.length_cons]; omega

theorem assign_cons (l : Int) (c : Clause) (f : Cnf) :
    assign l (c :: f) = if l ∈ c then assign l f else (c.filter (· != -l)) :: assign l f := by
  unfold assign
  by_cases h : l ∈ c <;> simp [h]

theorem meas_assign_le (l : Int) (f : Cnf) : meas (assign l f) ≤ meas f := by
  induction f with
  | nil => simp [assign]
  | cons c f ih =>
    rw [assign_cons]; split
    · rw [meas_cons]; omega
    · rw [meas_cons, meas_cons]
      have := List.length_filter_le (· != -l) c; omega

/-- making an occurring literal true removes its clause -/
theorem meas_assign_lt {l : Int} {f : Cnf} (h : ∃ c ∈ f, l ∈ c) : meas (assign l f) < meas f := by
  induction f with
  | nil => obtain ⟨c, hc, _⟩ := h; cases hc
  | cons c f ih =>
    rw [assign_cons]
    by_cases hl : l ∈ c
    · rw [if_pos hl, meas_cons]; have := meas_assign_le l f; omega
    · rw [if_neg hl, meas_cons, meas_cons]
      obtain ⟨c', hc', hl'⟩ := h
      have hc'' : c' ∈ f := by
        rcases List.mem_cons.1 hc' with rfl | h
        · exact absurd hl' hl
        · exact h
      have := ih ⟨c', hc'', hl'⟩
      have := List.length_filter_le (· != -l) c; omega

/-- making an occurring literal false removes it from (or removes) its clause -/
theorem meas_assign_neg_lt {l : Int} {f : Cnf} (h : ∃ c ∈ f, l ∈ c) :
    meas (assign (-l) f) < meas f := by
  induction f with
  | nil => obtain ⟨c, hc, _⟩ := h; cases hc
  | cons c f ih =>
    rw [assign_cons]
    by_cases hn : -l ∈ c
    · rw [if_pos hn, meas_cons]; have := meas_assign_le (-l) f; omega
    · rw [if_neg hn, meas_cons, meas_cons]
      by_cases hl : l ∈ c
      · have : (c.filter (· != - -l)).length < c.length := by
          have hlt : (c.filter (· != - -l)).length ≤ c.length := List.length_filter_le _ _
          rcases Nat.lt_or_ge (c.filter (· != - -l)).length c.length with h | h
          · exact h
          · have heq : (c.filter (· != - -l)).length = c.length := by omega
            have := (List.length_filter_eq_length_iff).1 heq l hl
            simp at this
        have := meas_assign_le (-l) f; omega
      · obtain ⟨c', hc', hl'⟩ := h
        have hc'' : c' ∈ f := by
          rcases List.mem_cons.1 hc' with rfl | h
          · exact absurd hl' hl
          · exact h
        have := ih ⟨c', hc'', hl'⟩
        have := List.length_filter_le (· != - -l) c; omega

theorem pick_mem {f : Cnf} {l : Int} (h : pick f = some l) : ∃ c ∈ f, l ∈ c := by
  unfold pick at h
  split at h
  · next m rest heq =>
    injection h with h; subst h
    exact ⟨_, List.mem_of_find?_eq_some heq, List.mem_cons_self⟩
  · split at h
    · injection h with h; subst h
      exact ⟨_, List.mem_cons_self, List.mem_cons_self⟩
    · cases h

theorem pick_isSome {f : Cnf} (h1 : f.isEmpty = false) (h2 : f.any List.isEmpty = false) :
    ∃ l, pick f = some l := by
  unfold pick
  split
  · exact ⟨_, rfl⟩
  · match f, h1, h2 with
    | [] :: _, _, h2 => simp at h2
    | (l :: _) :: _, _, _ => exact ⟨l, rfl⟩

theorem cnfTrue_of_empty_mem {σ : Nat → Bool} {f : Cnf} (h : f.any List.isEmpty = true) :
    cnfTrue σ f = false := by
  simp only [List.any_eq_true] at h
  obtain ⟨c, hc, he⟩ := h
  have : c = [] := by simpa using he
  subst this
  apply Bool.eq_false_iff.2
  intro ht
  have := (List.all_eq_true.1 ht) [] hc
  simp [clauseTrue] at this

theorem dpll_correct : ∀ (fuel : Nat) (f : Cnf), WF f → meas f < fuel →
    (dpll fuel f = true ↔ ∃ σ, cnfTrue σ f = true) := by
  intro fuel
  induction fuel with
  | zero => intro f _ h; omega
  | succ fuel ih =>
    intro f hwf hm
    unfold dpll
    by_cases h1 : f.isEmpty = true
    · have : f = [] := by simpa using h1
      subst this; simp [cnfTrue]
    · have h1' : f.isEmpty = false := by simpa using h1
      rw [if_neg h1]
      by_cases h2 : f.any List.isEmpty = true
      · rw [if_pos h2]
        simp only [Bool.false_eq_true, false_iff, not_exists]
        intro σ; rw [cnfTrue_of_empty_mem h2]; simp
      · have h2' : f.any List.isEmpty = false := by
          cases h : f.any List.isEmpty
          · rfl
          · exact absurd h h2
        rw [if_neg h2]
        obtain ⟨l, hl⟩ := pick_isSome h1' h2'
        rw [hl]
        obtain ⟨c, hc, hlc⟩ := pick_mem hl
        have hl0 : l ≠ 0 := hwf c hc l hlc
        have hnl0 : -l ≠ 0 := by omega
        have m1 := meas_assign_lt ⟨c, hc, hlc⟩
        have m2 := meas_assign_neg_lt ⟨c, hc, hlc⟩
        have i1 := ih (assign l f) (WF_assign hwf) (by omega)
        have i2 := ih (assign (-l) f) (WF_assign hwf) (by omega)
        simp only [Bool.or_eq_true, i1, i2]
        constructor
        · rintro (⟨σ, hσ⟩ | ⟨σ, hσ⟩)
          · refine ⟨setLit σ l, ?_⟩
            rw [← cnfTrue_assign hl0 litTrue_setLit_self, cnfTrue_setLit_assign]; exact hσ
          · refine ⟨setLit σ (-l), ?_⟩
            rw [← cnfTrue_assign hnl0 litTrue_setLit_self, cnfTrue_setLit_assign]; exact hσ
        · rintro ⟨σ, hσ⟩
          by_cases ht : litTrue σ l = true
          · left; exact ⟨σ, by rw [cnfTrue_assign hl0 ht]; exact hσ⟩
          · right
            have : litTrue σ (-l) = true := by
              rw [litTrue_neg hl0]; simpa using ht
            exact ⟨σ, by rw [cnfTrue_assign hnl0 this]; exact hσ⟩

theorem setLit_apply_ne {σ : Nat → Bool} {l : Int} {v : Nat} (h : v ≠ l.natAbs) :
    setLit σ l v = σ v := by simp [setLit, h]

end Solvor.Cp.Sat
