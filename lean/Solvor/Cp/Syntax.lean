/-! Cp.Syntax: CP models exactly as the `IntVar`/`Expr` operators and the `Model` constructors of
`solvor/cp.py` build them.  Variables are referred to by their position in `Model.vars`
(the harness maps names to positions). No Mathlib. -/
namespace Solvor.Cp

/-- `Model.int_var(lb, ub, name)`: an integer variable with domain `lb..ub` (inclusive). -/
structure VarDecl where
  lb : Int
  ub : Int
  deriving Repr, DecidableEq, Inhabited

/-- Expression data carried by `Expr` (`("add",a,b)`, `("sub",a,b)`, `("rsub",x,c)` = `c - x`,
`("mul",a,c)`), with `IntVar` and `int` leaves. -/
inductive Expr where
  | var (i : Nat)
  | const (c : Int)
  | add (a b : Expr)
  | sub (a b : Expr)
  | rsub (a : Expr) (c : Int)
  | mul (a : Expr) (c : Int)
  deriving Repr, Inhabited

/-- The constraint tuples accepted by `Model.add`. -/
inductive Con where
  | allDiff (vs : List Nat)
  | eqConst (v : Nat) (c : Int)
  | neConst (v : Nat) (c : Int)
  | eqVar (a b : Nat)
  | neVar (a b : Nat)
  /-- `("ne_expr", left, right, is_ne)`: `left != right` if `isNe`, else `left == right`. -/
  | rel (l r : Expr) (isNe : Bool)
  | sumEq (vs : List Nat) (t : Int)
  | sumLe (vs : List Nat) (t : Int)
  | sumGe (vs : List Nat) (t : Int)
  | circuit (vs : List Nat)
  | noOverlap (starts : List Nat) (durs : List Int)
  | cumulative (starts : List Nat) (durs demands : List Int) (cap : Int)
  deriving Repr, Inhabited

structure Model where
  vars : List VarDecl
  cons : List Con
  deriving Repr, Inhabited

/-- Kinds that `_choose_solver` / `_solve_dfs` always route to the SAT encoder. -/
def Con.satRequired : Con → Bool
  | .sumEq .. | .sumLe .. | .sumGe .. | .circuit .. | .noOverlap .. | .cumulative .. => true
  | _ => false

/-- `_solve_dfs` falls back to the SAT encoder exactly for these kinds. -/
def dfsFallback (M : Model) : Bool := M.cons.any Con.satRequired

end Solvor.Cp
