import Solvor.Cp.Sem
import Solvor.Cp.Dpll
/-! Cp.Encode: mirror of `SATEncoder` (solvor/cp_encoder.py, with the proposed C06 repairs:
exactly-one for auxiliary variables, empty domains unsatisfiable, `sum_le([])` with a negative target, MTZ loop over the order variable's domain, successor
range clauses, cumulative without the literal cut, general linear `ne_expr`), including the
boolean numbering, so that the produced clause list can be compared with the captured one as a
multiset of sorted clauses.  No Mathlib. -/
namespace Solvor.Cp
open Solvor.Cp.Sat

/-- An encoded integer variable: value `v ∈ lb..ub` is the boolean `base + (v - lb)`. -/
structure EVar where
  lb : Int
  ub : Int
  base : Nat
  deriving Repr, Inhabited, DecidableEq

namespace EVar
def size (V : EVar) : Nat := (V.ub + 1 - V.lb).toNat
def has (V : EVar) (v : Int) : Bool := decide (V.lb ≤ v) && decide (v ≤ V.ub)
/-- boolean variable of value `v` -/
def var (V : EVar) (v : Int) : Nat := V.base + (v - V.lb).toNat
/-- positive literal of value `v` (`var.bool_vars[v]`) -/
def lit (V : EVar) (v : Int) : Int := (V.var v : Nat)
def dom (V : EVar) : List Int := irange V.lb V.ub
def lits (V : EVar) : List Int := V.dom.map V.lit
end EVar

/-! ### clause-building primitives -/

/-- `itertools.combinations(l, 2)` -/
def pairs {α} : List α → List (α × α)
  | [] => []
  | x :: xs => xs.map (fun y => (x, y)) ++ pairs xs

def atMostOne (ls : List Int) : Cnf := (pairs ls).map fun p => [-p.1, -p.2]

def exactlyOne (ls : List Int) : Cnf := if ls.isEmpty then [] else ls :: atMostOne ls

/-- `[-X[v]]` for every value with `p v` -/
def forbid1 (X : EVar) (p : Int → Bool) : Cnf := (X.dom.filter p).map fun v => [-(X.lit v)]

/-- `[-X[v1], -Y[v2]]` for every pair of values with `p v1 v2` -/
def forbid2 (X Y : EVar) (p : Int → Int → Bool) : Cnf :=
  X.dom.flatMap fun v1 => (Y.dom.filter (p v1)).map fun v2 => [-(X.lit v1), -(Y.lit v2)]

/-- `X = v1 → Y = f v1` : `[-X[v1], Y[f v1]]`, or `[-X[v1]]` when `f v1` is undefined / outside `Y` -/
def imply2 (X Y : EVar) (f : Int → Option Int) : Cnf :=
  X.dom.map fun v1 =>
    match f v1 with
    | some v2 => if Y.has v2 then [-(X.lit v1), Y.lit v2] else [-(X.lit v1)]
    | none => [-(X.lit v1)]

/-- `X = v1 ∧ Y = v2 → P = f v1 v2`; when the value is outside `P`: forbid the pair (`orElse`)
or emit nothing -/
def link (X Y P : EVar) (f : Int → Int → Int) (orElse : Bool) : Cnf :=
  X.dom.flatMap fun v1 => Y.dom.flatMap fun v2 =>
    if P.has (f v1 v2) then [[-(X.lit v1), -(Y.lit v2), P.lit (f v1 v2)]]
    else if orElse then [[-(X.lit v1), -(Y.lit v2)]] else []

/-- `_create_int_var(lb, ub)` at boolean counter `next` (repaired: with its exactly-one clauses) -/
def mkAux (lb ub : Int) (next : Nat) : EVar := ⟨lb, ub, next⟩
def auxClauses (P : EVar) : Cnf := exactlyOne P.lits

/-! ### simple constraints -/

def encEqConst (X : EVar) (c : Int) : Cnf := if X.has c then [[X.lit c]] else [[]]
def encNeConst (X : EVar) (c : Int) : Cnf := if X.has c then [[-(X.lit c)]] else []
def encEqVar (X Y : EVar) : Cnf := imply2 X Y some ++ imply2 Y X some
def encNeVar (X Y : EVar) : Cnf := forbid2 X Y fun a b => a == b
def encAllDiff (Vs : List EVar) : Cnf := (pairs Vs).flatMap fun p => encNeVar p.1 p.2
def encNoOverlap (tasks : List (EVar × Int)) : Cnf :=
  (pairs tasks).flatMap fun p =>
    forbid2 p.1.1 p.2.1 fun s1 s2 => !(decide (s1 + p.1.2 ≤ s2)) && !(decide (s2 + p.2.2 ≤ s1))

/-! ### linear relations `Σ coef·var + const (≠ | =) 0` (`_linearize`, `_encode_linear`) -/

/-- coefficient table in insertion order (Python dict keyed by variable name) -/
def addCoef : List (Nat × Int) → Nat → Int → List (Nat × Int)
  | [], i, k => [(i, k)]
  | (j, c) :: rest, i, k => if j = i then (j, c + k) :: rest else (j, c) :: addCoef rest i k

/-- `walk(e, k)`: returns (coefficients, constant) -/
def linWalk : Expr → Int → List (Nat × Int) × Int → List (Nat × Int) × Int
  | .var i, k, (cs, c) => (addCoef cs i k, c)
  | .const n, k, (cs, c) => (cs, c + k * n)
  | .add a b, k, acc => linWalk b k (linWalk a k acc)
  | .sub a b, k, acc => linWalk b (-k) (linWalk a k acc)
  | .rsub a n, k, acc => let (cs, c) := acc; linWalk a (-k) (cs, c + k * n)
  | .mul a n, k, acc => linWalk a (k * n) acc

/-- left − right as (nonzero terms in insertion order, constant) -/
def linDiff (l r : Expr) : List (Nat × Int) × Int :=
  let (cl, kl) := linWalk l 1 ([], 0)
  let (cr, kr) := linWalk r 1 ([], 0)
  let cs := cr.foldl (fun acc p => addCoef acc p.1 (-p.2)) cl
  (cs.filter fun p => p.2 != 0, kl - kr)

/-- value of `coef · var` range ends -/
def scaledLo (X : EVar) (a : Int) : Int := min (a * X.lb) (a * X.ub)
def scaledHi (X : EVar) (a : Int) : Int := max (a * X.lb) (a * X.ub)

/-- the final two terms: `a·X + b·Y + const (≠|=) 0` -/
def encLinear2 (X : EVar) (a : Int) (Y : EVar) (b : Int) (const : Int) (isNe : Bool) : Cnf :=
  if isNe then forbid2 X Y fun v1 v2 => a * v1 + b * v2 + const == 0
  else imply2 X Y fun v1 =>
    let n := -(a * v1 + const)
    if n % b == 0 then some (n / b) else none

/-- fold the leading terms into auxiliary partial sums until two remain -/
def encLinearChain (X : EVar) (a : Int) (Y : EVar) (b : Int) :
    List (EVar × Int) → Int → Bool → Nat → Cnf × Nat
  | [], const, isNe, next => (encLinear2 X a Y b const isNe, next)
  | (Z, c) :: rest, const, isNe, next =>
    let P := mkAux (scaledLo X a + scaledLo Y b) (scaledHi X a + scaledHi Y b) next
    let (cls, next') := encLinearChain P 1 Z c rest const isNe (next + P.size)
    (auxClauses P ++ link X Y P (fun v1 v2 => a * v1 + b * v2) false ++ cls, next')

def encLinear (terms : List (EVar × Int)) (const : Int) (isNe : Bool) (next : Nat) : Cnf × Nat :=
  match terms with
  | [] => (if (const == 0) == isNe then [[]] else [], next)
  | [(X, a)] =>
    (if (-const) % a == 0 then
       (if isNe then encNeConst X ((-const) / a) else encEqConst X ((-const) / a))
     else if isNe then [] else [[]], next)
  | (X, a) :: (Y, b) :: rest => encLinearChain X a Y b rest const isNe next

/-! ### sums (`_encode_sum_eq/_le/_ge`) -/

def sumLb (Vs : List EVar) : Int := (Vs.map (·.lb)).sum
def sumUb (Vs : List EVar) : Int := (Vs.map (·.ub)).sum

def encSumEqChain (X Y : EVar) : List EVar → Int → Nat → Cnf × Nat
  | [], t, next => (imply2 X Y (fun v1 => some (t - v1)), next)
  | Z :: rest, t, next =>
    let P := mkAux (X.lb + Y.lb) (X.ub + Y.ub) next
    let (cls, next') := encSumEqChain P Z rest t (next + P.size)
    (auxClauses P ++ link X Y P (· + ·) false ++ cls, next')

def encSumEq (Vs : List EVar) (t : Int) (next : Nat) : Cnf × Nat :=
  match Vs with
  | [] => (if t != 0 then [[]] else [], next)
  | X :: rest =>
    if t < sumLb Vs || t > sumUb Vs then ([[]], next)
    else match rest with
      | [] => (encEqConst X t, next)
      | Y :: rest' => encSumEqChain X Y rest' t next

def encSumLeChain (X Y : EVar) : List EVar → Int → Nat → Cnf × Nat
  | [], t, next => (forbid2 X Y (fun v1 v2 => decide (v1 + v2 > t)), next)
  | Z :: rest, t, next =>
    let P := mkAux (X.lb + Y.lb) (min (X.ub + Y.ub) (t - sumLb (Z :: rest))) next
    let (cls, next') := encSumLeChain P Z rest t (next + P.size)
    (auxClauses P ++ link X Y P (· + ·) true ++ cls, next')

def encSumLe (Vs : List EVar) (t : Int) (next : Nat) : Cnf × Nat :=
  match Vs with
  | [] => (if t < 0 then [[]] else [], next)
  | [X] => (forbid1 X (fun v => decide (v > t)), next)
  | X :: Y :: rest => encSumLeChain X Y rest t next

def encSumGeChain (X Y : EVar) : List EVar → Int → Nat → Cnf × Nat
  | [], t, next => (forbid2 X Y (fun v1 v2 => decide (v1 + v2 < t)), next)
  | Z :: rest, t, next =>
    let P := mkAux (max (X.lb + Y.lb) (t - sumUb (Z :: rest))) (X.ub + Y.ub) next
    let (cls, next') := encSumGeChain P Z rest t (next + P.size)
    (auxClauses P ++ link X Y P (· + ·) true ++ cls, next')

def encSumGe (Vs : List EVar) (t : Int) (next : Nat) : Cnf × Nat :=
  match Vs with
  | [] => (if t > 0 then [[]] else [], next)
  | [X] => (forbid1 X (fun v => decide (v < t)), next)
  | X :: Y :: rest => encSumGeChain X Y rest t next

/-! ### circuit (`_encode_circuit`, repaired) -/

/-- the MTZ order variables `t[0] ∈ 0..n-1`, `t[i] ∈ 1..n-1`, allocated one after the other -/
def mkOrderVars (n : Nat) : Nat → Nat → List EVar × Nat
  | 0, next => ([], next)
  | k + 1, next =>
    let i := n - (k + 1)
    let T := mkAux (if i = 0 then 0 else 1) ((n : Int) - 1) next
    let (Ts, next') := mkOrderVars n k (next + T.size)
    (T :: Ts, next')

def encCircuit (Vs : List EVar) (next : Nat) : Cnf × Nat :=
  let n := Vs.length
  if n = 0 then ([], next) else
  let base := encAllDiff Vs ++
    (Vs.zipIdx.flatMap fun (X, i) => if X.has i then [[-(X.lit i)]] else []) ++
    (Vs.flatMap fun X => forbid1 X fun v => !(decide (0 ≤ v) && decide (v < n)))
  if n ≤ 1 then (base, next) else
  let (Ts, next') := mkOrderVars n n next
  let T0 := Ts.getD 0 default
  let mtz := Vs.zipIdx.flatMap fun (X, i) =>
    let Ti := Ts.getD i default
    (List.range (n - 1)).flatMap fun j' =>
      let j := j' + 1
      let Tj := Ts.getD j default
      if X.has j then
        Ti.dom.flatMap fun ti => (irange Tj.lb ti).filterMap fun tj =>
          if Tj.has tj then some [-(X.lit j), -(Ti.lit ti), -(Tj.lit tj)] else none
      else []
  (base ++ Ts.flatMap auxClauses ++ [[T0.lit 0]] ++ mtz, next')

/-! ### cumulative (`_encode_cumulative`, repaired) -/

def subseqs {α} : List α → List (List α)
  | [] => [[]]
  | x :: xs => (subseqs xs).map (x :: ·) ++ subseqs xs

/-- `itertools.product` of the groups -/
def choices {α} : List (List α) → List (List α)
  | [] => [[]]
  | g :: gs => g.flatMap fun x => (choices gs).map (x :: ·)

/-- groups running at one time point: (literals, demand); forbid every minimal overloaded subset -/
def encCapacity (groups : List (List Int × Int)) (cap : Int) : Cnf :=
  ((subseqs groups).filter fun sub =>
      sub.length ≥ 1 && decide ((sub.map (·.2)).sum > cap) &&
      (subseqs sub).all fun sm =>
        !(decide (1 ≤ sm.length) && decide (sm.length < sub.length)) || decide ((sm.map (·.2)).sum ≤ cap)
    ).flatMap fun sub => (choices (sub.map (·.1))).map fun ch => ch.map (- ·)

def encCumulative (tasks : List (EVar × Int × Int)) (cap : Int) : Cnf :=
  match tasks with
  | [] => []
  | t0 :: rest =>
    let minStart := rest.foldl (fun m p => min m p.1.lb) t0.1.lb
    let maxEnd := rest.foldl (fun m p => max m (p.1.ub + p.2.1)) (t0.1.ub + t0.2.1)
    (irange minStart (maxEnd - 1)).flatMap fun t =>
      let groups := tasks.filterMap fun (S, d, dem) =>
        let ls := ((irange (max S.lb (t - d + 1)) (min S.ub t)).filter fun s =>
          S.has s && decide (s ≤ t) && decide (t < s + d)).map S.lit
        if ls.isEmpty then none else some (ls, dem)
      encCapacity groups cap

/-! ### the whole model (`SATEncoder.solve` up to the call of `solve_sat`) -/

/-- named variables get consecutive booleans from 1 (`IntVar.__init__`) -/
def mkVars : List VarDecl → Nat → List EVar × Nat
  | [], next => ([], next)
  | d :: ds, next =>
    let V : EVar := ⟨d.lb, d.ub, next⟩
    let (Vs, next') := mkVars ds (next + V.size)
    (V :: Vs, next')

/-- `_encode_vars` (repaired: a variable with an empty domain makes the formula unsatisfiable) -/
def encodeVars (Vs : List EVar) : Cnf :=
  Vs.flatMap fun V => if V.lits.isEmpty then [[]] else exactlyOne V.lits

def ev (Vs : List EVar) (i : Nat) : EVar := Vs.getD i default

def encodeCon (Vs : List EVar) (c : Con) (next : Nat) : Cnf × Nat :=
  match c with
  | .allDiff vs => (encAllDiff (vs.map (ev Vs)), next)
  | .eqConst v k => (encEqConst (ev Vs v) k, next)
  | .neConst v k => (encNeConst (ev Vs v) k, next)
  | .eqVar x y => (encEqVar (ev Vs x) (ev Vs y), next)
  | .neVar x y => (encNeVar (ev Vs x) (ev Vs y), next)
  | .rel l r isNe =>
    let (terms, const) := linDiff l r
    encLinear (terms.map fun p => (ev Vs p.1, p.2)) const isNe next
  | .sumEq vs t => encSumEq (vs.map (ev Vs)) t next
  | .sumLe vs t => encSumLe (vs.map (ev Vs)) t next
  | .sumGe vs t => encSumGe (vs.map (ev Vs)) t next
  | .circuit vs => encCircuit (vs.map (ev Vs)) next
  | .noOverlap ss ds => (encNoOverlap ((ss.map (ev Vs)).zip ds), next)
  | .cumulative ss ds dm cap => (encCumulative ((ss.map (ev Vs)).zip (ds.zip dm)) cap, next)

def encodeCons (Vs : List EVar) : List Con → Nat → Cnf × Nat
  | [], next => ([], next)
  | c :: cs, next =>
    let (c1, n1) := encodeCon Vs c next
    let (c2, n2) := encodeCons Vs cs n1
    (c1 ++ c2, n2)

/-- the clause list handed to `solve_sat` -/
def encodeModel (M : Model) : Cnf :=
  let (Vs, next) := mkVars M.vars 1
  encodeVars Vs ++ (encodeCons Vs M.cons next).1

/-- `decode_sat_solution` for one variable: first value whose boolean is true -/
def decodeVar (β : Nat → Bool) (V : EVar) : Option Int := V.dom.find? fun v => β (V.var v)

end Solvor.Cp
