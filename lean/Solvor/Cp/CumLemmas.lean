import Solvor.Cp.EncodeLemmas
/-! Lemmas for `enc_cumulative` ([S]): the time-indexed capacity clauses are exact when demands
and capacity are non-negative. -/
namespace Solvor.Cp
open Solvor.Cp.Sat

theorem mem_subseqs {α} : ∀ {l s : List α}, s ∈ subseqs l ↔ s.Sublist l
  | [], s => by simp [subseqs]
  | x :: xs, s => by
    simp only [subseqs, List.mem_append, List.mem_map, mem_subseqs (l := xs), List.sublist_cons_iff]
    constructor
    · rintro (⟨r, hr, rfl⟩ | h)
      · exact Or.inr ⟨r, rfl, hr⟩
      · exact Or.inl h
    · rintro (h | ⟨r, rfl, hr⟩)
      · exact Or.inr h
      · exact Or.inl ⟨r, hr, rfl⟩

/-- some literal of the group is true -/
def groupTrue (β : Nat → Bool) (g : List Int) : Bool := g.any (litTrue β)

/-- the clauses built from `itertools.product` of the groups say: not all groups are true -/
theorem choices_iff {β : Nat → Bool} : ∀ (gs : List (List Int)), (∀ g ∈ gs, ∀ l ∈ g, l ≠ 0) →
    (cnfTrue β ((choices gs).map fun ch => ch.map (- ·)) = true ↔ ¬ ∀ g ∈ gs, groupTrue β g = true)
  | [], _ => by simp [choices, cnfTrue, clauseTrue]
  | g :: gs, h0 => by
    have ih := choices_iff (β := β) gs fun g' hg' => h0 g' (List.mem_cons_of_mem _ hg')
    rw [cnfTrue_map] at ih ⊢
    simp only [choices, List.mem_flatMap, List.mem_map]
    constructor
    · intro hall hgt
      have hg := hgt g List.mem_cons_self
      obtain ⟨x, hx, hxt⟩ := List.any_eq_true.1 hg
      apply ih.1 ?_ fun g' hg' => hgt g' (List.mem_cons_of_mem _ hg')
      intro ch hch
      have := hall (x :: ch) ⟨x, hx, ch, hch, rfl⟩
      simp only [List.map_cons, clauseTrue, List.any_cons, Bool.or_eq_true] at this
      rcases this with h | h
      · rw [litTrue_neg (h0 g List.mem_cons_self x hx), hxt] at h; cases h
      · exact h
    · intro hnot
      rintro _ ⟨x, hx, ch, hch, rfl⟩
      simp only [List.map_cons, clauseTrue, List.any_cons, Bool.or_eq_true]
      by_cases hxt : litTrue β x = true
      · right
        by_cases hrest : ∀ g' ∈ gs, groupTrue β g' = true
        · by_cases hg : groupTrue β g = true
          · exact absurd (fun g' hg' => by
              rcases List.mem_cons.1 hg' with rfl | hg'
              · exact hg
              · exact hrest g' hg') hnot
          · exact absurd (List.any_eq_true.2 ⟨x, hx, hxt⟩) hg
        · exact ih.2 hrest ch hch
      · left
        rw [litTrue_neg (h0 g List.mem_cons_self x hx)]
        simpa using hxt

/-! ### minimal overloaded sublists -/

def dsum (s : List (List Int × Int)) : Int := (s.map (·.2)).sum

theorem dsum_le_of_sublist {s l : List (List Int × Int)} (h : s.Sublist l) (hn : ∀ g ∈ l, 0 ≤ g.2) :
    dsum s ≤ dsum l := by
  induction h with
  | slnil => exact Int.le_refl _
  | cons a _ ih =>
    have := ih fun g hg => hn g (List.mem_cons_of_mem _ hg)
    have := hn a List.mem_cons_self
    simp only [dsum, List.map_cons, List.sum_cons] at *; omega
  | cons_cons a _ ih =>
    have := ih fun g hg => hn g (List.mem_cons_of_mem _ hg)
    simp only [dsum, List.map_cons, List.sum_cons] at *; omega

theorem exists_minimal_overloaded (cap : Int) : ∀ (n : Nat) (A : List (List Int × Int)), A.length ≤ n →
    dsum A > cap →
    ∃ s, s.Sublist A ∧ dsum s > cap ∧ ∀ s', s'.Sublist s → s'.length < s.length → dsum s' ≤ cap
  | 0, A, hn, h => ⟨A, List.Sublist.refl _, h, fun s' _ hl => by omega⟩
  | n + 1, A, hn, h => by
    by_cases hmin : ∀ s', s'.Sublist A → s'.length < A.length → dsum s' ≤ cap
    · exact ⟨A, List.Sublist.refl _, h, hmin⟩
    · simp only [not_forall] at hmin
      obtain ⟨s', hs', hl, hover⟩ := hmin
      obtain ⟨s, hs, h1, h2⟩ := exists_minimal_overloaded cap n s' (by omega) (by omega)
      exact ⟨s, hs.trans hs', h1, h2⟩

/-- `_encode_capacity_constraint` is exact for non-negative demands and capacity -/
theorem encCapacity_iff {β : Nat → Bool} {groups : List (List Int × Int)} {cap : Int}
    (h0 : ∀ g ∈ groups, ∀ l ∈ g.1, l ≠ 0) (hn : ∀ g ∈ groups, 0 ≤ g.2) (hcap : 0 ≤ cap) :
    cnfTrue β (encCapacity groups cap) = true ↔
      dsum (groups.filter fun g => groupTrue β g.1) ≤ cap := by
  unfold encCapacity
  rw [cnfTrue_flatMap]
  constructor
  · intro hall
    rcases Int.lt_or_le cap (dsum (groups.filter fun g => groupTrue β g.1)) with hover | hle
    · exfalso
      obtain ⟨s, hs, h1, h2⟩ := exists_minimal_overloaded cap _ _ (Nat.le_refl _) hover
      have hsg : s.Sublist groups := hs.trans List.filter_sublist
      have hact : ∀ g ∈ s, groupTrue β g.1 = true := fun g hg => (List.mem_filter.1 (hs.subset hg)).2
      have hlen : 1 ≤ s.length := by
        rcases s with _ | ⟨g, s⟩
        · simp [dsum] at h1; omega
        · simp
      have hmem : s ∈ (subseqs groups).filter fun sub =>
          decide (sub.length ≥ 1) && decide ((sub.map (·.2)).sum > cap) &&
          (subseqs sub).all fun sm =>
            !(decide (1 ≤ sm.length) && decide (sm.length < sub.length)) ||
              decide ((sm.map (·.2)).sum ≤ cap) := by
        apply List.mem_filter.2 ⟨mem_subseqs.2 hsg, ?_⟩
        simp only [Bool.and_eq_true, decide_eq_true_eq, List.all_eq_true, Bool.or_eq_true,
          Bool.not_eq_true', Bool.and_eq_false_iff, decide_eq_false_iff_not]
        refine ⟨⟨hlen, h1⟩, fun sm hsm => ?_⟩
        by_cases hc : 1 ≤ sm.length ∧ sm.length < s.length
        · exact Or.inr (h2 sm (mem_subseqs.1 hsm) hc.2)
        · left
          by_cases h1' : 1 ≤ sm.length
          · exact Or.inr fun h => hc ⟨h1', h⟩
          · exact Or.inl h1'
      have := hall s hmem
      rw [choices_iff _ (by
        intro g hg l hl
        obtain ⟨p, hp, rfl⟩ := List.mem_map.1 hg
        exact h0 p (hsg.subset hp) l hl)] at this
      apply this
      intro g hg
      obtain ⟨p, hp, rfl⟩ := List.mem_map.1 hg
      exact hact p hp
    · exact hle
  · intro hle sub hsub
    have hf := List.mem_filter.1 hsub
    have hsg : sub.Sublist groups := mem_subseqs.1 hf.1
    rw [choices_iff _ (by
      intro g hg l hl
      obtain ⟨p, hp, rfl⟩ := List.mem_map.1 hg
      exact h0 p (hsg.subset hp) l hl)]
    intro hall
    have hsubA : sub.Sublist (groups.filter fun g => groupTrue β g.1) := by
      have := hsg.filter fun g => groupTrue β g.1
      rwa [List.filter_eq_self.2 fun g hg => hall g.1 (List.mem_map_of_mem hg)] at this
    have h1 := dsum_le_of_sublist hsubA fun g hg => hn g (List.mem_filter.1 hg).1
    have hover : dsum sub > cap := by
      have := hf.2
      simp only [Bool.and_eq_true, decide_eq_true_eq] at this
      exact this.1.2
    omega

/-! ### groups at a time point vs. running tasks -/

/-- the literals of the start values under which a task `(S, d)` runs at time `t` -/
def windowLits (S : EVar) (d t : Int) : List Int :=
  ((irange (max S.lb (t - d + 1)) (min S.ub t)).filter fun s =>
    S.has s && decide (s ≤ t) && decide (t < s + d)).map S.lit

theorem windowLits_ne_zero {S : EVar} (hS : 0 < S.base) (d t : Int) : ∀ l ∈ windowLits S d t, l ≠ 0 := by
  intro l hl
  obtain ⟨s, _, rfl⟩ := List.mem_map.1 hl
  unfold EVar.lit EVar.var; omega

theorem windowLits_true {β : Nat → Bool} {S : EVar} {x : Int} (hS : 0 < S.base) (hx : Rep β S x)
    (d t : Int) : groupTrue β (windowLits S d t) = true ↔ x ≤ t ∧ t < x + d := by
  unfold groupTrue windowLits
  simp only [List.any_map, List.any_eq_true, List.mem_filter, mem_irange, Function.comp_def,
    litTrue_lit hS, Bool.and_eq_true, decide_eq_true_eq, EVar.has_iff]
  constructor
  · rintro ⟨s, ⟨_, ⟨hin, h1⟩, h2⟩, hb⟩
    have := (hx.2 s hin.1 hin.2).1 hb
    subst this; exact ⟨h1, h2⟩
  · rintro ⟨h1, h2⟩
    have := hx.1
    exact ⟨x, ⟨⟨by omega, by omega⟩, ⟨this, h1⟩, h2⟩, hx.self⟩

/-- the groups the encoder builds at time `t` -/
def groupsAt (tasksE : List (EVar × Int × Int)) (t : Int) : List (List Int × Int) :=
  tasksE.filterMap fun (S, d, dem) =>
    let ls := ((irange (max S.lb (t - d + 1)) (min S.ub t)).filter fun s =>
      S.has s && decide (s ≤ t) && decide (t < s + d)).map S.lit
    if ls.isEmpty then none else some (ls, dem)

theorem groupsAt_load {β : Nat → Bool} {Vs : List EVar} {a : Asg} (h : Enc β Vs a) (t : Int) :
    ∀ (tl : List (Nat × Int × Int)), (∀ p ∈ tl, p.1 < Vs.length) →
      dsum ((groupsAt (tl.map fun p => (ev Vs p.1, p.2)) t).filter fun g => groupTrue β g.1)
        = load a tl t ∧
      (∀ g ∈ groupsAt (tl.map fun p => (ev Vs p.1, p.2)) t, ∀ l ∈ g.1, l ≠ 0) ∧
      (∀ g ∈ groupsAt (tl.map fun p => (ev Vs p.1, p.2)) t, ∃ p ∈ tl, g.2 = p.2.2)
  | [], _ => by simp [groupsAt, dsum, load]
  | (s, d, dem) :: tl, hs => by
    have ih := groupsAt_load h t tl fun p hp => hs p (List.mem_cons_of_mem _ hp)
    have hS := h.2 s (hs (s, d, dem) List.mem_cons_self)
    have hwt := windowLits_true hS.1 hS.2 d t
    have hload : load a ((s, d, dem) :: tl) t
        = (if val a s ≤ t ∧ t < val a s + d then dem else 0) + load a tl t := by
      simp [load]
    rw [hload]
    by_cases hemp : (windowLits (ev Vs s) d t).isEmpty = true
    · have hg : groupsAt (((s, d, dem) :: tl).map fun p => (ev Vs p.1, p.2)) t
          = groupsAt (tl.map fun p => (ev Vs p.1, p.2)) t := by
        simp only [groupsAt, List.map_cons, List.filterMap_cons]
        have : (((irange (max (ev Vs s).lb (t - d + 1)) (min (ev Vs s).ub t)).filter fun s' =>
          (ev Vs s).has s' && decide (s' ≤ t) && decide (t < s' + d)).map (ev Vs s).lit).isEmpty = true := hemp
        simp only [this, if_true]
      rw [hg]
      have hinact : ¬ (val a s ≤ t ∧ t < val a s + d) := by
        intro hact
        have := hwt.2 hact
        have he : windowLits (ev Vs s) d t = [] := by simpa using hemp
        rw [he] at this; simp [groupTrue] at this
      rw [if_neg hinact, ih.1]
      exact ⟨by omega, ih.2.1, fun g hg => by
        obtain ⟨p, hp, he⟩ := ih.2.2 g hg
        exact ⟨p, List.mem_cons_of_mem _ hp, he⟩⟩
    · have hg : groupsAt (((s, d, dem) :: tl).map fun p => (ev Vs p.1, p.2)) t
          = (windowLits (ev Vs s) d t, dem) :: groupsAt (tl.map fun p => (ev Vs p.1, p.2)) t := by
        simp only [groupsAt, List.map_cons, List.filterMap_cons]
        have : ¬ (((irange (max (ev Vs s).lb (t - d + 1)) (min (ev Vs s).ub t)).filter fun s' =>
          (ev Vs s).has s' && decide (s' ≤ t) && decide (t < s' + d)).map (ev Vs s).lit).isEmpty = true := hemp
        simp only [this, if_false]
        rfl
      rw [hg]
      refine ⟨?_, ?_, ?_⟩
      · rw [List.filter_cons]
        by_cases hact : val a s ≤ t ∧ t < val a s + d
        · rw [if_pos (hwt.2 hact), if_pos hact]
          simp only [dsum, List.map_cons, List.sum_cons] at ih ⊢
          rw [ih.1]
        · have : ¬ groupTrue β (windowLits (ev Vs s) d t) = true := fun hc => hact (hwt.1 hc)
          rw [if_neg this, if_neg hact, ih.1]; omega
      · intro g hg'
        rcases List.mem_cons.1 hg' with rfl | hg'
        · exact windowLits_ne_zero hS.1 d t
        · exact ih.2.1 g hg'
      · intro g hg'
        rcases List.mem_cons.1 hg' with rfl | hg'
        · exact ⟨(s, d, dem), List.mem_cons_self, rfl⟩
        · obtain ⟨p, hp, he⟩ := ih.2.2 g hg'
          exact ⟨p, List.mem_cons_of_mem _ hp, he⟩

theorem foldl_min_le {α} (f : α → Int) : ∀ (l : List α) (z : Int),
    l.foldl (fun m p => min m (f p)) z ≤ z ∧ ∀ p ∈ l, l.foldl (fun m p => min m (f p)) z ≤ f p
  | [], z => by simp
  | q :: l, z => by
    have := foldl_min_le f l (min z (f q))
    simp only [List.foldl_cons, List.mem_cons, forall_eq_or_imp]
    exact ⟨by omega, by omega, this.2⟩

theorem le_foldl_max {α} (f : α → Int) : ∀ (l : List α) (z : Int),
    z ≤ l.foldl (fun m p => max m (f p)) z ∧ ∀ p ∈ l, f p ≤ l.foldl (fun m p => max m (f p)) z
  | [], z => by simp
  | q :: l, z => by
    have := le_foldl_max f l (max z (f q))
    simp only [List.foldl_cons, List.mem_cons, forall_eq_or_imp]
    exact ⟨by omega, by omega, this.2⟩

/-- **enc_cumulative** over an arbitrary task list -/
theorem encCumulative_iff_aux {β : Nat → Bool} {Vs : List EVar} {a : Asg} (h : Enc β Vs a)
    (tl : List (Nat × Int × Int)) {cap : Int} (hscope : ∀ p ∈ tl, p.1 < Vs.length)
    (hdem : ∀ p ∈ tl, 0 ≤ p.2.2) (hcap : 0 ≤ cap) :
    cnfTrue β (encCumulative (tl.map fun p => (ev Vs p.1, p.2)) cap) = true ↔
      ∀ t : Int, load a tl t ≤ cap := by
  cases htl : tl with
  | nil =>
    simp only [List.map_nil, encCumulative, cnfTrue_nil, true_iff]
    intro t; simp [load]; exact hcap
  | cons q rest =>
    rw [← htl]
    have hcapt : ∀ t, cnfTrue β (encCapacity (groupsAt (tl.map fun p => (ev Vs p.1, p.2)) t) cap) = true ↔
        load a tl t ≤ cap := by
      intro t
      have hg := groupsAt_load h t tl hscope
      rw [encCapacity_iff hg.2.1 (fun g hg' => by
        obtain ⟨p, hp, he⟩ := hg.2.2 g hg'
        rw [he]; exact hdem p hp) hcap, hg.1]
    have henc : ∀ (E : List (EVar × Int × Int)) (e0 : EVar × Int × Int) (er : List (EVar × Int × Int)),
        E = e0 :: er → encCumulative E cap =
        (irange (er.foldl (fun m p => min m p.1.lb) e0.1.lb)
          (er.foldl (fun m p => max m (p.1.ub + p.2.1)) (e0.1.ub + e0.2.1) - 1)).flatMap
          fun t => encCapacity (groupsAt E t) cap := by
      intro E e0 er hE
      subst hE
      rfl
    have hE : (tl.map fun p => (ev Vs p.1, p.2))
        = (ev Vs q.1, q.2) :: rest.map fun p => (ev Vs p.1, p.2) := by rw [htl]; rfl
    rw [henc _ _ _ hE, cnfTrue_flatMap]
    have hlo := foldl_min_le (fun p : EVar × Int × Int => p.1.lb) (rest.map fun p => (ev Vs p.1, p.2))
      (ev Vs q.1).lb
    have hhi := le_foldl_max (fun p : EVar × Int × Int => p.1.ub + p.2.1)
      (rest.map fun p => (ev Vs p.1, p.2)) ((ev Vs q.1).ub + q.2.1)
    constructor
    · intro hall t
      by_cases hex : ∃ p ∈ tl, val a p.1 ≤ t ∧ t < val a p.1 + p.2.1
      · obtain ⟨p, hp, hact⟩ := hex
        apply (hcapt t).1
        apply hall t
        apply mem_irange.2
        dsimp only
        have hrep := (h.2 p.1 (hscope p hp)).2.1
        rw [htl] at hp
        rcases List.mem_cons.1 hp with rfl | hp
        · exact ⟨by have := hlo.1; omega, by have := hhi.1; omega⟩
        · have h1 := hlo.2 (ev Vs p.1, p.2) (List.mem_map.2 ⟨p, hp, rfl⟩)
          have h2 := hhi.2 (ev Vs p.1, p.2) (List.mem_map.2 ⟨p, hp, rfl⟩)
          simp only at h1 h2
          exact ⟨by omega, by omega⟩
      · rw [load_eq_zero (by intro p hp hact; exact hex ⟨p, hp, hact⟩)]; exact hcap
    · intro hall t _
      exact (hcapt t).2 (hall t)

/-- **enc_cumulative** at the level of index lists -/
theorem encCumulative_iff {β : Nat → Bool} {Vs : List EVar} {a : Asg} (h : Enc β Vs a)
    {ss : List Nat} {ds dm : List Int} {cap : Int} (hs : ∀ v ∈ ss, v < Vs.length)
    (hdm : ∀ x ∈ dm, 0 ≤ x) (hcap : 0 ≤ cap) :
    cnfTrue β (encCumulative ((ss.map (ev Vs)).zip (ds.zip dm)) cap) = true ↔
      Holds a (.cumulative ss ds dm cap) := by
  have hmap : (ss.map (ev Vs)).zip (ds.zip dm)
      = (ss.zip (ds.zip dm)).map fun p => (ev Vs p.1, p.2) := by
    rw [List.zip_map_left]
    apply List.map_congr_left; intro p _; rfl
  rw [hmap]
  exact encCumulative_iff_aux h _ (fun p hp => hs _ (List.of_mem_zip hp).1)
    (fun p hp => hdm _ (List.of_mem_zip (List.of_mem_zip hp).2).2) hcap

end Solvor.Cp
