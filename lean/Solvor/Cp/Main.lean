import Solvor.Cp.Drive
def main : IO Unit := Solvor.Proto.serve Solvor.Cp.handle
