/-! Cp.Dpll: CNF semantics, a reference DPLL and the projected all-models enumerator used to
evaluate the clause lists captured from `SATEncoder` (C06).  Proved correct in `DpllLemmas.lean`
/ `Theorems.lean` (`solve_correct`, `enumProj_spec`).  No Mathlib; independent of `Solvor.Sat`. -/
namespace Solvor.Cp.Sat

abbrev Clause := List Int
abbrev Cnf := List Clause

def litTrue (σ : Nat → Bool) (l : Int) : Bool := if 0 < l then σ l.natAbs else !σ l.natAbs
def clauseTrue (σ : Nat → Bool) (c : Clause) : Bool := c.any (litTrue σ)
def cnfTrue (σ : Nat → Bool) (f : Cnf) : Bool := f.all (clauseTrue σ)

/-- make literal `l` true: drop satisfied clauses, delete `-l` elsewhere -/
def assign (l : Int) (f : Cnf) : Cnf :=
  (f.filter fun c => !c.contains l).map fun c => c.filter (· != -l)

def size (f : Cnf) : Nat := (f.map List.length).sum

/-- measure used as fuel: literals + clauses -/
def meas (f : Cnf) : Nat := size f + f.length

/-- branching literal: a unit clause's literal if there is one, else the first literal of the
first clause -/
def pick (f : Cnf) : Option Int :=
  match f.find? (fun c => c.length == 1) with
  | some (l :: _) => some l
  | _ =>
    match f with
    | (l :: _) :: _ => some l
    | _ => none

def dpll : Nat → Cnf → Bool
  | 0, _ => false
  | fuel + 1, f =>
    if f.isEmpty then true
    else if f.any List.isEmpty then false
    else
      match pick f with
      | none => false
      | some l => dpll fuel (assign l f) || dpll fuel (assign (-l) f)

/-- satisfiability of a clause list -/
def solve (f : Cnf) : Bool := dpll (meas f + 1) f

/-- no literal is `0` -/
def WF (f : Cnf) : Prop := ∀ c ∈ f, ∀ l ∈ c, l ≠ 0

instance (f : Cnf) : Decidable (WF f) := by unfold WF; infer_instance

/-- All restrictions to the variables `vs` (in that order) of models of `f`. -/
def enumProj : List Nat → Cnf → List (List Bool)
  | [], f => if solve f then [[]] else []
  | v :: vs, f =>
    if f.any List.isEmpty then []
    else (enumProj vs (assign (v : Int) f)).map (true :: ·) ++
         (enumProj vs (assign (-(v : Int)) f)).map (false :: ·)

/-- assignment given by the list of variables that are true -/
def ofTrue (ts : List Nat) : Nat → Bool := fun v => ts.contains v

end Solvor.Cp.Sat
