import Solvor.Cp.Encode
/-! Cp.Prop: mirror of the DFS solver of `solvor/cp.py` (`_solve_dfs`, `_propagate`,
`_propagate_constraint`, `_propagate_all_different`, `_propagate_ne_expr`) as functions on domain
lists.  `repaired = true` is the code with the proposed C05 repair (general linearisation, leaf
check, duplicate filter); `repaired = false` is the unchanged code (add-only `_flatten_sum`, no
leaf check), kept for the negative theorem `dfs_leaf_needs_check`.  Values are tried in ascending
order (CPython iterates the set in an unspecified order; nothing compared depends on it).
No Mathlib. -/
namespace Solvor.Cp

/-! ### `Cp.Choose`: solver selection -/

/-- a linear *equality* that, after merging coefficients (`_linear_diff`), still has three or more
variables: a sum constraint written with operators, which DFS could only check at the leaves -/
def Con.linEq3 : Con → Bool
  | .rel l r false => decide (3 ≤ (linDiff l r).1.length)
  | _ => false

/-- `Model._choose_solver` (solver='auto'): `true` = SAT, `false` = DFS. -/
def chooseSat (M : Model) : Bool := M.cons.any fun c => c.satRequired || c.linEq3

/-- one domain (list of remaining values) per variable -/
abbrev Doms := List (List Int)

def dget (D : Doms) (i : Nat) : List Int := D.getD i []
def dset (D : Doms) (i : Nat) (l : List Int) : Doms := D.set i l
def discard (D : Doms) (i : Nat) (v : Int) : Doms := dset D i ((dget D i).filter (· != v))

/-- the unchanged `_flatten_sum`: variables and constants under `add` only, anything else ignored -/
def flattenOld : Expr → List Nat × Int
  | .var i => ([i], 0)
  | .const c => ([], c)
  | .add a b => ((flattenOld a).1 ++ (flattenOld b).1, (flattenOld a).2 + (flattenOld b).2)
  | _ => ([], 0)

/-- `var1 (≠|=) var2 + offset` on the domains -/
def propOffset (D : Doms) (x y : Nat) (offset : Int) (isNe : Bool) : Option Doms :=
  if isNe then
    let D1 := match dget D x with
      | [v1] => discard D y (v1 - offset)
      | _ => D
    let D2 := match dget D1 y with
      | [v2] => discard D1 x (v2 + offset)
      | _ => D1
    some D2
  else
    let valid1 := (dget D x).filter fun v => (dget D y).contains (v - offset)
    let valid2 := (dget D y).filter fun v => (dget D x).contains (v + offset)
    if valid1.isEmpty || valid2.isEmpty then none
    else some (dset (dset D x valid1) y valid2)

def propRel (repaired : Bool) (D : Doms) (l r : Expr) (isNe : Bool) : Option Doms :=
  if repaired then
    match linDiff l r with
    | ([(x, 1), (y, -1)], const) => propOffset D x y (-const) isNe
    | ([(y, -1), (x, 1)], const) => propOffset D x y (-const) isNe
    | _ => some D
  else
    match flattenOld l, flattenOld r with
    | ([x], lc), ([y], rc) => propOffset D x y (rc - lc) isNe
    | _, _ => some D

def propAllDiff (D : Doms) (vs : List Nat) : Doms :=
  vs.foldl (fun D v =>
    match dget D v with
    | [x] => vs.foldl (fun D o => if o != v then discard D o x else D) D
    | _ => D) D

/-- `_propagate_constraint`; `none` = inconsistent -/
def propCon (repaired : Bool) (D : Doms) : Con → Option Doms
  | .allDiff vs => some (propAllDiff D vs)
  | .eqConst v c => if (dget D v).contains c then some (dset D v [c]) else none
  | .neConst v c => some (discard D v c)
  | .eqVar x y =>
    let common := (dget D x).filter fun v => (dget D y).contains v
    if common.isEmpty then none else some (dset (dset D x common) y common)
  | .neVar x y =>
    let D1 := match dget D x with
      | [v] => discard D y v
      | _ => D
    let D2 := match dget D1 y with
      | [v] => discard D1 x v
      | _ => D1
    some D2
  | .rel l r isNe => propRel repaired D l r isNe
  | _ => some D

def totalSize (D : Doms) : Nat := (D.map List.length).sum

/-- one sweep of `_propagate` over the constraints: `none` = wipe-out, else (domains, changed) -/
def sweep (repaired : Bool) : List Con → Doms → Bool → Option (Doms × Bool)
  | [], D, ch => some (D, ch)
  | c :: cs, D, ch =>
    match propCon repaired D c with
    | none => none
    | some D' =>
      if D'.any List.isEmpty then none
      else sweep repaired cs D' (ch || decide (totalSize D' < totalSize D))

/-- `_propagate`: sweeps until nothing changes -/
def propagate (repaired : Bool) (cs : List Con) : Nat → Doms → Option Doms
  | 0, D => some D
  | fuel + 1, D =>
    match sweep repaired cs D false with
    | none => none
    | some (D', ch) => if ch then propagate repaired cs fuel D' else some D'

/-- first variable with the fewest (but more than one) remaining values (MRV) -/
def pickVar (D : Doms) : Option Nat :=
  (D.zipIdx.filter fun p => p.1.length > 1).foldl
    (fun best p => match best with
      | none => some p.2
      | some b => if p.1.length < (dget D b).length then some p.2 else some b) none

structure DfsState where
  sols : List Asg
  stop : Bool
  deriving Repr

/-- `backtrack`, generic in the variable selection `sel` and in the order `ord D v` in which the
values of the selected variable are tried (CPython iterates a set in an unspecified order):
returns the state after exploring the subtree below `D` -/
def backtrackG (sel : Doms → Option Nat) (ord : Doms → Nat → List Int) (repaired : Bool) (cs : List Con)
    (limit : Nat) : Nat → Doms → DfsState → DfsState
  | 0, _, st => st
  | fuel + 1, D, st =>
    match sel D with
    | none =>
      let a : Asg := D.map fun d => d.headD 0
      if repaired && !(cs.all (check a)) then st
      else
        let sols := if repaired && st.sols.contains a then st.sols else st.sols ++ [a]
        ⟨sols, decide (sols.length ≥ limit)⟩
    | some v =>
      (ord D v).foldl (fun st x =>
        if st.stop then st
        else match propagate repaired cs (totalSize D + 1) (dset D v [x]) with
          | none => st
          | some D' => backtrackG sel ord repaired cs limit fuel D' st) st

/-- what the proofs need of the variable selection: `none` only when every domain has at most one
value, `some v` only for a variable with at least two -/
def SelOK (sel : Doms → Option Nat) : Prop :=
  ∀ D, (sel D = none → ∀ i, i < D.length → (dget D i).length ≤ 1) ∧
    ∀ v, sel D = some v → v < D.length ∧ (dget D v).length > 1

/-- what the proofs need of the value order: it lists exactly the values of the domain -/
def OrdOK (ord : Doms → Nat → List Int) : Prop := ∀ D v x, x ∈ ord D v ↔ x ∈ dget D v

/-- the mirror's concrete choice: MRV, values in domain (ascending) order -/
abbrev backtrack := backtrackG pickVar (fun D v => dget D v)

def initDoms (vars : List VarDecl) (hints : List (Nat × Int)) : Doms :=
  hints.foldl (fun D h => if (dget D h.1).contains h.2 then dset D h.1 [h.2] else D)
    (vars.map fun d => irange d.lb d.ub)

/-- `_solve_dfs` (without the SAT fallback), generic in selection and value order: the list of
solutions found, `[]` = INFEASIBLE -/
def dfsSolveG (sel : Doms → Option Nat) (ord : Doms → Nat → List Int) (repaired : Bool) (M : Model)
    (hints : List (Nat × Int)) (limit : Nat) : List Asg :=
  let D := initDoms M.vars hints
  -- repaired: a variable with an empty domain (lb > ub) has no value
  if repaired && D.any List.isEmpty then [] else
  match propagate repaired M.cons (totalSize D + 1) D with
  | none => []
  | some D' => (backtrackG sel ord repaired M.cons limit (totalSize D' + 1) D' ⟨[], false⟩).sols

/-- the executable mirror: MRV and ascending values -/
abbrev dfsSolve := dfsSolveG pickVar (fun D v => dget D v)

end Solvor.Cp
