import Solvor.Cp.EncodeLemmas
/-! Lemmas about the named variables of a model (`mkVars`, `encodeVars`) and the composition of
constraint encodings (`encodeCons`). -/
namespace Solvor.Cp
open Solvor.Cp.Sat

theorem ev_cons_succ (V : EVar) (Vs : List EVar) (i : Nat) : ev (V :: Vs) (i + 1) = ev Vs i := by
  simp [ev]

theorem ev_cons_zero (V : EVar) (Vs : List EVar) : ev (V :: Vs) 0 = V := by simp [ev]

theorem val_cons_succ (x : Int) (a : Asg) (i : Nat) : val (x :: a) (i + 1) = val a i := by simp [val]

theorem val_cons_zero (x : Int) (a : Asg) : val (x :: a) 0 = x := by simp [val]

/-- list-wise and index-wise encodings coincide -/
theorem enc_iff_repL {β : Nat → Bool} : ∀ {Vs : List EVar} {a : Asg},
    Enc β Vs a ↔ RepL β Vs a ∧ ∀ V ∈ Vs, 0 < V.base
  | [], [] => by simp [Enc, RepL]
  | [], _ :: _ => by simp [Enc, RepL]
  | _ :: _, [] => by simp [Enc, RepL]
  | V :: Vs, x :: a => by
    have ih := enc_iff_repL (β := β) (Vs := Vs) (a := a)
    constructor
    · rintro ⟨hl, h⟩
      have h0 := h 0 (by simp)
      rw [ev_cons_zero, val_cons_zero] at h0
      have : Enc β Vs a := ⟨by simpa using hl, fun i hi => by
        have := h (i + 1) (by simpa using hi)
        rwa [ev_cons_succ, val_cons_succ] at this⟩
      have := ih.1 this
      exact ⟨⟨h0.2, this.1⟩, fun W hW => by
        rcases List.mem_cons.1 hW with rfl | hW
        · exact h0.1
        · exact this.2 W hW⟩
    · rintro ⟨⟨hr, hrl⟩, hp⟩
      have := ih.2 ⟨hrl, fun W hW => hp W (List.mem_cons_of_mem _ hW)⟩
      refine ⟨by simpa using this.1, fun i hi => ?_⟩
      cases i with
      | zero => rw [ev_cons_zero, val_cons_zero]; exact ⟨hp V List.mem_cons_self, hr⟩
      | succ i => rw [ev_cons_succ, val_cons_succ]; exact this.2 i (by simpa using hi)

theorem RepL.unique {β : Nat → Bool} : ∀ {Vs : List EVar} {a b : Asg}, RepL β Vs a → RepL β Vs b → a = b
  | [], [], [], _, _ => rfl
  | V :: Vs, x :: a, y :: b, h1, h2 => by rw [h1.1.unique h2.1, RepL.unique h1.2 h2.2]
  | [], _ :: _, _, h, _ => h.elim
  | [], [], _ :: _, _, h => h.elim
  | _ :: _, [], _, h, _ => h.elim
  | _ :: _, _ :: _, [], _, h => h.elim

theorem RepL.decode {β : Nat → Bool} : ∀ {Vs : List EVar} {a : Asg}, RepL β Vs a →
    Vs.map (decodeVar β) = a.map some
  | [], [], _ => rfl
  | V :: Vs, x :: a, h => by simp [decodeVar_of_rep h.1, RepL.decode h.2]
  | [], _ :: _, h => h.elim
  | _ :: _, [], h => h.elim

/-! ### `mkVars` -/

theorem mkVars_mono : ∀ (ds : List VarDecl) (nx : Nat), nx ≤ (mkVars ds nx).2
  | [], _ => Nat.le_refl _
  | d :: ds, nx => by
    simp only [mkVars]
    have := mkVars_mono ds (nx + (EVar.mk d.lb d.ub nx).size); omega

theorem mkVars_length : ∀ (ds : List VarDecl) (nx : Nat), (mkVars ds nx).1.length = ds.length
  | [], _ => rfl
  | d :: ds, nx => by simp [mkVars, mkVars_length ds]

theorem mkVars_below : ∀ (ds : List VarDecl) (nx : Nat), 0 < nx →
    ∀ V ∈ (mkVars ds nx).1, V.Below (mkVars ds nx).2
  | [], _, _ => by simp [mkVars]
  | d :: ds, nx, hnx => by
    simp only [mkVars]
    intro V hV
    have hm := mkVars_mono ds (nx + (EVar.mk d.lb d.ub nx).size)
    rcases List.mem_cons.1 hV with rfl | hV
    · exact ⟨hnx, hm⟩
    · exact mkVars_below ds _ (by omega) V hV

theorem mkVars_bounds {β : Nat → Bool} : ∀ (ds : List VarDecl) (nx : Nat) (a : Asg),
    RepL β (mkVars ds nx).1 a → InDom a ds
  | [], _, [], _ => trivial
  | d :: ds, nx, x :: a, h => by
    simp only [mkVars] at h
    exact ⟨h.1.1, mkVars_bounds ds _ a h.2⟩
  | [], _, _ :: _, h => by simp [mkVars, RepL] at h
  | _ :: _, _, [], h => by simp [mkVars, RepL] at h

theorem mkVars_nonempty : ∀ (ds : List VarDecl) (nx : Nat), (∀ d ∈ ds, d.lb ≤ d.ub) →
    ∀ V ∈ (mkVars ds nx).1, V.lb ≤ V.ub
  | [], _, _ => by simp [mkVars]
  | d :: ds, nx, h => by
    simp only [mkVars]
    intro V hV
    rcases List.mem_cons.1 hV with rfl | hV
    · exact h d List.mem_cons_self
    · exact mkVars_nonempty ds _ (fun e he => h e (List.mem_cons_of_mem _ he)) V hV

/-- every in-domain assignment has an encoding (built by setting the booleans variable by variable) -/
theorem mkVars_encode : ∀ (ds : List VarDecl) (nx : Nat) (a : Asg) (β : Nat → Bool), 0 < nx →
    InDom a ds → ∃ β', AgreeBelow nx β β' ∧ RepL β' (mkVars ds nx).1 a
  | [], _, [], β, _, _ => ⟨β, AgreeBelow.refl _ _, trivial⟩
  | d :: ds, nx, x :: a, β, hnx, h => by
    let V : EVar := ⟨d.lb, d.ub, nx⟩
    obtain ⟨β', hag, hr⟩ := mkVars_encode ds (nx + V.size) a (setVar β V x) (by omega) h.2
    refine ⟨β', (setVar_agree_below (P := V)).trans hag (Nat.le_add_right _ _), ?_⟩
    simp only [mkVars]
    exact ⟨(setVar_rep (P := V) h.1).of_agree ⟨hnx, Nat.le_refl _⟩ hag, hr⟩
  | [], _, _ :: _, _, _, h => h.elim
  | _ :: _, _, [], _, _, h => h.elim

/-- `_encode_vars`: the exactly-one clauses hold iff `β` encodes some assignment -/
theorem encodeVars_iff {β : Nat → Bool} : ∀ {Vs : List EVar}, (∀ V ∈ Vs, 0 < V.base) →
    (∀ V ∈ Vs, V.lb ≤ V.ub) → (cnfTrue β (encodeVars Vs) = true ↔ ∃ a, RepL β Vs a)
  | [], _, _ => by simp only [encodeVars, List.flatMap_nil, cnfTrue_nil, true_iff]; exact ⟨[], trivial⟩
  | V :: Vs, hp, hn => by
    have ih := encodeVars_iff (β := β) (Vs := Vs) (fun W hW => hp W (List.mem_cons_of_mem _ hW))
      (fun W hW => hn W (List.mem_cons_of_mem _ hW))
    unfold encodeVars at ih ⊢
    have hlits : V.lits.isEmpty = false := by
      have : V.lb ∈ V.dom := EVar.mem_dom.2 ⟨Int.le_refl _, hn V List.mem_cons_self⟩
      cases hd : V.dom with
      | nil => rw [hd] at this; cases this
      | cons x l => simp [EVar.lits, hd]
    rw [List.flatMap_cons, cnfTrue_append_iff, ih, hlits]
    simp only [Bool.false_eq_true, if_false]
    rw [exactlyOne_iff (hp V List.mem_cons_self) (hn V List.mem_cons_self)]
    constructor
    · rintro ⟨⟨x, hx⟩, a, ha⟩; exact ⟨x :: a, hx, ha⟩
    · rintro ⟨a, ha⟩
      match a, ha with
      | x :: a, ha => exact ⟨⟨x, ha.1⟩, a, ha.2⟩

/-! ### empty domains -/

theorem inDom_nonempty : ∀ {a : Asg} {ds : List VarDecl}, InDom a ds → ∀ d ∈ ds, d.lb ≤ d.ub
  | [], [], _, d, hd => by cases hd
  | x :: a, e :: ds, h, d, hd => by
    rcases List.mem_cons.1 hd with rfl | hd
    · have := h.1; omega
    · exact inDom_nonempty h.2 d hd
  | [], _ :: _, h, _, _ => h.elim
  | _ :: _, [], h, _, _ => h.elim

theorem mkVars_decl : ∀ (ds : List VarDecl) (nx : Nat) (d : VarDecl), d ∈ ds →
    ∃ V ∈ (mkVars ds nx).1, V.lb = d.lb ∧ V.ub = d.ub
  | e :: ds, nx, d, hd => by
    simp only [mkVars]
    rcases List.mem_cons.1 hd with rfl | hd
    · exact ⟨_, List.mem_cons_self, rfl, rfl⟩
    · obtain ⟨V, hV, h⟩ := mkVars_decl ds _ d hd
      exact ⟨V, List.mem_cons_of_mem _ hV, h⟩

/-- a variable with an empty domain makes `_encode_vars` (repaired) unsatisfiable -/
theorem encodeVars_empty {β : Nat → Bool} {Vs : List EVar} (h : ∃ V ∈ Vs, V.ub < V.lb) :
    cnfTrue β (encodeVars Vs) = false := by
  obtain ⟨V, hV, hlt⟩ := h
  cases hc : cnfTrue β (encodeVars Vs)
  · rfl
  · unfold encodeVars at hc
    have := cnfTrue_flatMap.1 hc V hV
    have hd : V.dom = [] := by
      cases hdom : V.dom with
      | nil => rfl
      | cons x l =>
        have : x ∈ V.dom := by rw [hdom]; exact List.mem_cons_self
        have := EVar.mem_dom.1 this; omega
    have hl : V.lits.isEmpty = true := by simp [EVar.lits, hd]
    rw [hl] at this
    simp [cnfTrue_empty_clause] at this

/-! ### composition -/

theorem encodeCons_exact {Vs : List EVar} : ∀ (cs : List Con) (nx : Nat), (∀ V ∈ Vs, V.Below nx) →
    (∀ c ∈ cs, ∀ n, nx ≤ n →
      Exact Vs (fun a => Holds a c) (encodeCon Vs c n).1 n (encodeCon Vs c n).2) →
    Exact Vs (fun a => ∀ c ∈ cs, Holds a c) (encodeCons Vs cs nx).1 nx (encodeCons Vs cs nx).2
  | [], nx, _, _ => by
    simp only [encodeCons]
    exact ⟨Nat.le_refl _, fun _ _ _ _ c hc => (by cases hc),
      fun β _ _ _ => ⟨β, AgreeBelow.refl _ _, fun _ _ => rfl⟩⟩
  | c :: cs, nx, hB, h => by
    have E1 := h c List.mem_cons_self nx (Nat.le_refl _)
    have E2 := encodeCons_exact cs (encodeCon Vs c nx).2 (fun V hV => (hB V hV).mono E1.mono)
      (fun d hd n hn => h d (List.mem_cons_of_mem _ hd) n (Nat.le_trans E1.mono hn))
    simp only [encodeCons]
    refine ⟨Nat.le_trans E1.mono E2.mono, ?_, ?_⟩
    · intro β a he hc d hd
      rw [cnfTrue_append_iff] at hc
      rcases List.mem_cons.1 hd with rfl | hd
      · exact E1.sound β a he hc.1
      · exact E2.sound β a he hc.2 d hd
    · intro β a he hall
      obtain ⟨β₁, hag1, hst1⟩ := E1.complete β a he (hall c List.mem_cons_self)
      have he1 : Enc β₁ Vs a := he.of_agree hB hag1
      obtain ⟨β₂, hag2, hst2⟩ := E2.complete β₁ a he1 fun d hd => hall d (List.mem_cons_of_mem _ hd)
      refine ⟨β₂, hag1.trans hag2 E1.mono, fun β₃ hag3 => ?_⟩
      rw [cnfTrue_append_iff]
      exact ⟨hst1 β₃ (hag2.trans hag3 E2.mono), hst2 β₃ hag3⟩

end Solvor.Cp
