import Solvor.Sched.Theorems
/-! Axiom audit for the property theorems of C18 (run by every check). -/
#print axioms Solvor.Sched.dispatch_valid
#print axioms Solvor.Sched.dispatch_chooser_valid
#print axioms Solvor.Sched.dispatch_rule_valid
#print axioms Solvor.Sched.rebuild_valid
#print axioms Solvor.Sched.local_search_valid
#print axioms Solvor.Sched.solve_job_shop_valid
#print axioms Solvor.Sched.chkSchedule_iff
#print axioms Solvor.Sched.isDispatchOf_sound
#print axioms Solvor.Sched.vrp_inv_step
#print axioms Solvor.Sched.vrp_inv_run
#print axioms Solvor.Sched.vrp_inv_init
#print axioms Solvor.Sched.chkInv_iff
#print axioms Solvor.Sched.isRemove_sound
#print axioms Solvor.Sched.isInsertRun_sound
#print axioms Solvor.Sched.refinement_preserves_inv
#print axioms Solvor.Sched.arrival_consistent
#print axioms Solvor.Sched.chkArrivals_iff
#print axioms Solvor.Sched.objective_formula
#print axioms Solvor.Sched.chkObjective_iff
#print axioms Solvor.Sched.chkEuclid_iff
