import Solvor.Dlx.Theorems
/-! Axiom audit for the property theorems of C07 (run by every check). -/
#print axioms Solvor.Dlx.algx_sound
#print axioms Solvor.Dlx.algx_complete_nodup
#print axioms Solvor.Dlx.algx_infeasible_iff
#print axioms Solvor.Dlx.isCover_iff
#print axioms Solvor.Dlx.algx_limited_sound
#print axioms Solvor.Dlx.algx_pure
#print axioms Solvor.Dlx.algx_mirror_complete
