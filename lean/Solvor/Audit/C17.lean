import Solvor.Cut.Theorems
/-! Axiom audit for the property theorems of C17 (run by every check). -/
