import Solvor.Cut.Theorems
/-! Axiom audit for the property theorems of C17 (run by every check). -/
#print axioms Solvor.Cut.plan_checker
#print axioms Solvor.Cut.plan_checker_cs
#print axioms Solvor.Cut.plan_checker_cols
#print axioms Solvor.Cut.minRolls_correct
#print axioms Solvor.Cut.cs_optimum_correct
#print axioms Solvor.Cut.cs_optimum_exists
#print axioms Solvor.Cut.cols_optimum_correct
#print axioms Solvor.Cut.dualFeasible_iff
#print axioms Solvor.Cut.dual_bound
#print axioms Solvor.Cut.dual_bound_le_opt
#print axioms Solvor.Cut.dual_bound_cols
#print axioms Solvor.Cut.optimal_claim_sound
#print axioms Solvor.Cut.cg_mirror_valid
#print axioms Solvor.Cut.cg_mirror_optimal_of_duals
#print axioms Solvor.Cut.cg_mirror_optimal_of_bound
#print axioms Solvor.Cut.cg_custom_mirror_valid_partial
#print axioms Solvor.Cut.cg_custom_mirror_optimal_of_duals
#print axioms Solvor.Cut.master_lp_value_is_dual_value
#print axioms Solvor.Cut.bp_status_rule
#print axioms Solvor.Cut.bp_optimal_core
#print axioms Solvor.Cut.bp_mirror_optimal_of_duals
#print axioms Solvor.Cut.bp_custom_mirror_optimal_of_duals
#print axioms Solvor.Cut.master_lp_duals_eps_feasible
