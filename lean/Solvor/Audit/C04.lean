import Solvor.Lp.Theorems
/-! Axiom audit for the property theorems of C04 (run by every check). -/
#print axioms Solvor.Lp.isFeasible_iff
#print axioms Solvor.Lp.milpFeasTol_zero
#print axioms Solvor.Lp.branch_covers
#print axioms Solvor.Lp.branch_step_covers
#print axioms Solvor.Lp.branch_children_sub
#print axioms Solvor.Lp.milpOracle_correct
#print axioms Solvor.Lp.relaxation_infeasible
#print axioms Solvor.Lp.bnb_invariant
#print axioms Solvor.Lp.bnb_reachable
#print axioms Solvor.Lp.bnb_init
#print axioms Solvor.Lp.bnb_optimal
#print axioms Solvor.Lp.bnb_infeasible
#print axioms Solvor.Lp.bnb_gap
#print axioms Solvor.Lp.heuristic_incumbent_feasible
#print axioms Solvor.Lp.chkOptimal_sound
#print axioms Solvor.Lp.chkInfeasible_sound
#print axioms Solvor.Lp.chkUnbounded_sound
#print axioms Solvor.Lp.certifies_sound
#print axioms Solvor.Lp.chkObjAt_iff
#print axioms Solvor.Lp.binary_tightening_sound
#print axioms Solvor.Lp.nodeCheck_sound
#print axioms Solvor.Lp.bnb_mirror_refines
#print axioms Solvor.Lp.bnb_mirror_sound
#print axioms Solvor.Lp.solveMilp_sound
#print axioms Solvor.Lp.tighten_justified
