import Solvor.Ds.Theorems
/-! Axiom audit for the property theorems of C20 (run by every check). -/
#print axioms Solvor.Ds.uf_refines
#print axioms Solvor.Ds.qf_count_is_classes
#print axioms Solvor.Ds.qf_union_classes
#print axioms Solvor.Ds.fenwick_refines
#print axioms Solvor.Ds.fenwick_refines_zeros
#print axioms Solvor.Ds.fenwick_updates_eq_rebuild
#print axioms Solvor.Ds.fenwick_history_independent
