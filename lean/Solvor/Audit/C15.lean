import Solvor.Net.Theorems
/-! Axiom audit for the property theorems of C15 (run by every check). -/
#print axioms Solvor.Net.components_count_correct
#print axioms Solvor.Net.lowlink_correct
#print axioms Solvor.Net.lowlink_partial
#print axioms Solvor.Net.kcoreDef_greatest
#print axioms Solvor.Net.coreNumDef_spec
#print axioms Solvor.Net.kcore_peeling_correct
#print axioms Solvor.Net.kcore_set_correct
#print axioms Solvor.Net.prCheck_iff
#print axioms Solvor.Net.pagerank_step_nonneg
#print axioms Solvor.Net.pagerank_step_sum_one
#print axioms Solvor.Net.pagerank_output_nonneg_sum_one
#print axioms Solvor.Net.pagerank_contraction
#print axioms Solvor.Net.pagerank_residual_bound
#print axioms Solvor.Net.isPartition_iff
#print axioms Solvor.Net.louvain_partition_inv
#print axioms Solvor.Net.louvain_output_partition
#print axioms Solvor.Net.modularity_reported_eq
