import Solvor.Net.Theorems
/-! Axiom audit for the property theorems of C15 (run by every check). -/
