import Solvor.Assign.Theorems
/-! Axiom audit for the property theorems of C10 (run by every check). -/
