import Solvor.Assign.Theorems
/-! Axiom audit for the property theorems of C10 (run by every check). -/
#print axioms Solvor.Assign.potentials_cert
#print axioms Solvor.Assign.padding_sound
#print axioms Solvor.Assign.padding_optimum
#print axioms Solvor.Assign.padding_optimum_max
#print axioms Solvor.Assign.chkAssignment_sound
#print axioms Solvor.Assign.chkAssignment_optimal
#print axioms Solvor.Assign.validAsg_ofM
#print axioms Solvor.Assign.hungarian_certifies
#print axioms Solvor.Assign.hungarian_optimal
#print axioms Solvor.Assign.hungarian_empty
