import Solvor.Pack.Theorems
/-! Axiom audit for the property theorems of C16 (run by every check). -/
#print axioms Solvor.Pack.chkSel_iff
#print axioms Solvor.Pack.chkKnapsack_iff
#print axioms Solvor.Pack.knapBest_optimal
#print axioms Solvor.Pack.knapsack_dp_optimal
#print axioms Solvor.Pack.chkPack_iff
#print axioms Solvor.Pack.validPack_lower_bound
#print axioms Solvor.Pack.binpack_valid
#print axioms Solvor.Pack.knapsack_dp_eq_knapBest
#print axioms Solvor.Pack.knapsack_scaled_optimal
#print axioms Solvor.Pack.greedy_fallback_valid
#print axioms Solvor.Pack.pack_excluded
#print axioms Solvor.Pack.knapsack_mirror_feasible
#print axioms Solvor.Pack.knapsack_lossless_optimal
#print axioms Solvor.Pack.minBinsP_le
#print axioms Solvor.Pack.knapsack_near_scaled_optimal
#print axioms Solvor.Pack.knapsack_lossless_near_optimal
#print axioms Solvor.Pack.scan_spec
#print axioms Solvor.Pack.binpack_two_approx
#print axioms Solvor.Pack.packOrder_sorted
