import Solvor.Pack.Theorems
/-! Axiom audit for the property theorems of C16 (run by every check). -/
