import Solvor.Lp.Theorems
/-! Axiom audit for the property theorems of C03 (run by every check). -/
#print axioms Solvor.Lp.weak_duality_cert
#print axioms Solvor.Lp.farkas_cert
#print axioms Solvor.Lp.ray_cert
#print axioms Solvor.Lp.verdict_unique
#print axioms Solvor.Lp.approx_duality
#print axioms Solvor.Lp.chkFeasible_spec
#print axioms Solvor.Lp.chkOptimal_sound
#print axioms Solvor.Lp.chkInfeasible_sound
#print axioms Solvor.Lp.chkUnbounded_sound
#print axioms Solvor.Lp.certifies_sound
#print axioms Solvor.Lp.certified_status_unique
#print axioms Solvor.Lp.chkFeasTol_iff
#print axioms Solvor.Lp.chkObjAt_iff
#print axioms Solvor.Lp.chkObjNear_iff
#print axioms Solvor.Lp.chkResidual_iff
#print axioms Solvor.Lp.residual_least
#print axioms Solvor.Lp.simplex_certifies
#print axioms Solvor.Lp.ipm_optimal_test_sound
