import Solvor.Cp.Theorems
/-! Axiom audit for the property theorems of C06 (run by every check). -/
#print axioms Solvor.Cp.check_decides
#print axioms Solvor.Cp.solutions_complete
#print axioms Solvor.Cp.solve_correct
#print axioms Solvor.Cp.enumProj_spec
#print axioms Solvor.Cp.encode_vars_decode
#print axioms Solvor.Cp.enc_all_different
#print axioms Solvor.Cp.enc_eq_const
#print axioms Solvor.Cp.enc_ne_const
#print axioms Solvor.Cp.enc_eq_var
#print axioms Solvor.Cp.enc_ne_var
#print axioms Solvor.Cp.enc_no_overlap
#print axioms Solvor.Cp.enc_linear
#print axioms Solvor.Cp.enc_sum_eq
#print axioms Solvor.Cp.enc_sum_le
#print axioms Solvor.Cp.enc_sum_ge
#print axioms Solvor.Cp.enc_cumulative
#print axioms Solvor.Cp.enc_circuit
#print axioms Solvor.Cp.encode_compositional
#print axioms Solvor.Cp.encode_model_exact
