import Solvor.Cp.Theorems
/-! Axiom audit for the property theorems of C06 (run by every check). -/
