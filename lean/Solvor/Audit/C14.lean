import Solvor.Graph.Theorems
/-! Axiom audit for the property theorems of C14 (run by every check). -/
