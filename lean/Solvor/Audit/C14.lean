import Solvor.Graph.Theorems
/-! Axiom audit for the property theorems of C14 (run by every check). -/
#print axioms Solvor.Graph.scc_cert
#print axioms Solvor.Graph.chkScc_iff
#print axioms Solvor.Graph.reach_correct
#print axioms Solvor.Graph.scc_decomp_unique
#print axioms Solvor.Graph.kahn_correct
#print axioms Solvor.Graph.stuck_set_has_cycle
#print axioms Solvor.Graph.topo_order_acyclic
#print axioms Solvor.Graph.chkTopo_correct
#print axioms Solvor.Graph.cyclicB_correct
#print axioms Solvor.Graph.condense_spec
#print axioms Solvor.Graph.chkCondense_correct
#print axioms Solvor.Graph.condense_mirror_spec
#print axioms Solvor.Graph.chkSccOpen_correct
#print axioms Solvor.Graph.chkTopoOpen_correct
#print axioms Solvor.Graph.chkCondOpen_correct
#print axioms Solvor.Graph.open_clauses_common
#print axioms Solvor.Graph.tarjan_certifies
#print axioms Solvor.Graph.tarjan_correct
#print axioms Solvor.Graph.tarjan_correct_closed
#print axioms Solvor.Graph.condense_correct
