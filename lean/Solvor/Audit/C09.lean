import Solvor.Flow.Theorems
/-! Axiom audit for the property theorems of C09 (run by every check). -/
#print axioms Solvor.Flow.Inst.reduced_cost_cert
#print axioms Solvor.Flow.Inst.infeasible_cut_cert
#print axioms Solvor.Flow.Inst.chk_feas_iff
#print axioms Solvor.Flow.Inst.chkMinCost_sound
#print axioms Solvor.Flow.Inst.chkInfeas_sound
#print axioms Solvor.Flow.Inst.certified_verdict_unique
#print axioms Solvor.Flow.assignment_of_flow
#print axioms Solvor.Flow.assignment_optimal_of_cert
#print axioms Solvor.Flow.chkAssign_sound
#print axioms Solvor.Flow.pair_costs_faithful_partial
#print axioms Solvor.Flow.pair_costs_misprice
#print axioms Solvor.Flow.Inst.certify_sound
#print axioms Solvor.Flow.ssp_sound
#print axioms Solvor.Flow.ssp_sound_transshipment
#print axioms Solvor.Flow.ssp_certifies_partial
#print axioms Solvor.Flow.ssp_certifies
#print axioms Solvor.Flow.Inst.no_negative_cycle_iff_potentials
#print axioms Solvor.Flow.ssp_certifies_transshipment
