import Solvor.Flow.Theorems
/-! Axiom audit for the property theorems of C09 (run by every check). -/
