import Solvor.Flow.Theorems
/-! Axiom audit for the property theorems of C08 (run by every check). -/
#print axioms Solvor.Flow.Net.cut_cert
#print axioms Solvor.Flow.Net.chk_feasible_iff
#print axioms Solvor.Flow.Net.chk_value_iff
#print axioms Solvor.Flow.Net.chkMaxFlow_sound
#print axioms Solvor.Flow.Net.augment_preserves_feasible
#print axioms Solvor.Flow.Net.ek_terminates
#print axioms Solvor.Flow.Net.ek_certifies
#print axioms Solvor.Flow.Net.max_flow_correct
#print axioms Solvor.Flow.max_flow_correct_arcs
#print axioms Solvor.Flow.unrepaired_not_maximum
