import Solvor.Flow.Theorems
/-! Axiom audit for the property theorems of C08 (run by every check). -/
