import Solvor.Sat.Theorems
/-! Axiom audit for the property theorems of C02 (run by every check). -/
#print axioms Solvor.Sat.dpll_sat_iff
#print axioms Solvor.Sat.dpll_unsat_iff
#print axioms Solvor.Sat.evalCnf_iff
#print axioms Solvor.Sat.evalCnf_models
#print axioms Solvor.Sat.resolve_sound
#print axioms Solvor.Sat.learn_chain_sound
#print axioms Solvor.Sat.entailsB_iff
#print axioms Solvor.Sat.upRefutes_sound
#print axioms Solvor.Sat.cdcl_infeasible_sound_partial
#print axioms Solvor.Sat.cdcl_verdicts_partial
#print axioms Solvor.Sat.cdcl_returns_models_partial
#print axioms Solvor.Sat.cdcl_fuel_suffices_partial
#print axioms Solvor.Sat.luby_pos
#print axioms Solvor.Sat.luby_pow2
#print axioms Solvor.Sat.luby_fuel
#print axioms Solvor.Sat.luby_is_luby
