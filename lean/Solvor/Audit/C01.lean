import Solvor.Sat.Theorems
/-! Axiom audit for the property theorems of C01 (run by every check). -/
#print axioms Solvor.Sat.evalCnf_iff
#print axioms Solvor.Sat.evalCnf_models
#print axioms Solvor.Sat.pairwiseDistinct_iff
#print axioms Solvor.Sat.distinctB_iff
#print axioms Solvor.Sat.dpll_sat_iff
#print axioms Solvor.Sat.dpll_models_complete
#print axioms Solvor.Sat.distinct_of_blocked
#print axioms Solvor.Sat.resolve_sound
#print axioms Solvor.Sat.learn_chain_sound
#print axioms Solvor.Sat.entailsB_iff
#print axioms Solvor.Sat.cdcl_returns_models_partial
