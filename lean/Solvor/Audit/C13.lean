import Solvor.Mst.Theorems
/-! Axiom audit for the property theorems of C13 (run by every check). -/
#print axioms Solvor.Mst.chkSpanningTree_iff
#print axioms Solvor.Mst.spanningTree_acyclic
#print axioms Solvor.Mst.chkSpanningForest_iff
#print axioms Solvor.Mst.connectedB_correct
#print axioms Solvor.Mst.msf_cycle_cert
#print axioms Solvor.Mst.mst_cycle_cert
#print axioms Solvor.Mst.kruskal_forest
#print axioms Solvor.Mst.kruskal_minimal
#print axioms Solvor.Mst.prim_tree
#print axioms Solvor.Mst.prim_minimal
#print axioms Solvor.Mst.kruskal_prim_agree
#print axioms Solvor.Mst.kruskalUF_eq
#print axioms Solvor.Mst.inputShape_correct
#print axioms Solvor.Mst.IsSpanningTree.forest
