import Solvor.Mst.Theorems
/-! Axiom audit for the property theorems of C13 (run by every check). -/
