import Solvor.Path.Theorems
/-! Axiom audit for the property theorems of C11 (run by every check). -/
