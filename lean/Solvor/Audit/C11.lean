import Solvor.Path.Theorems
/-! Axiom audit for the property theorems of C11 (run by every check). -/
#print axioms Solvor.Path.potential_lower_bound
#print axioms Solvor.Path.lowerCert_sound
#print axioms Solvor.Path.path_upper_bound
#print axioms Solvor.Path.dist_exact_cert
#print axioms Solvor.Path.closed_set_unreachable
#print axioms Solvor.Path.neg_cycle_cert
#print axioms Solvor.Path.bellman_ford_correct
#print axioms Solvor.Path.dfs_path_valid
#print axioms Solvor.Path.bfs_correct
#print axioms Solvor.Path.search_explore_reachable
#print axioms Solvor.Path.zsqrt2_order_embedding
#print axioms Solvor.Path.grid_dist_exact_cert
#print axioms Solvor.Path.grid_withinTol_iff
#print axioms Solvor.Path.dijkstra_sound_any_weights
#print axioms Solvor.Path.dijkstra_certifies
#print axioms Solvor.Path.astar_sound_any_heuristic
#print axioms Solvor.Path.astar_certifies
#print axioms Solvor.Path.floyd_warshall_real
#print axioms Solvor.Path.floyd_warshall_certifies
#print axioms Solvor.Path.bf_rounds_bound
