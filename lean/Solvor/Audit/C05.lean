import Solvor.Cp.Theorems
/-! Axiom audit for the property theorems of C05 (run by every check). -/
