import Solvor.Cp.Theorems
/-! Axiom audit for the property theorems of C05 (run by every check). -/
#print axioms Solvor.Cp.check_decides
#print axioms Solvor.Cp.solutions_complete
#print axioms Solvor.Cp.solve_correct
#print axioms Solvor.Cp.propagator_sound
#print axioms Solvor.Cp.propagate_sound
#print axioms Solvor.Cp.dfs_leaf_needs_check
#print axioms Solvor.Cp.dfs_returns_solutions
#print axioms Solvor.Cp.dfs_complete
#print axioms Solvor.Cp.dfs_infeasible_iff
#print axioms Solvor.Cp.dfs_enumerates_all
#print axioms Solvor.Cp.dfs_order_independent
#print axioms Solvor.Cp.choose_solver_total
#print axioms Solvor.Cp.enc_linear
#print axioms Solvor.Cp.encode_model_exact
